import IdenaModel.Model.Mempool
/-! Helper lemmas for C14 (mempool coherence).  Core Lean only. -/
namespace IdenaModel.Mempool

/-! ## Well-formedness of the pool's containers -/

/-- the coherence invariant of the three containers -/
structure WF (p : Pool) : Prop where
  nodupAll : p.all.Nodup
  nodupExec : p.exec.Nodup
  nodupPend : p.pend.Nodup
  mem : ∀ t, t ∈ p.all ↔ (t ∈ p.exec ∨ t ∈ p.pend)
  disj : ∀ t, t ∈ p.exec → t ∉ p.pend
  sorted : ∀ s, (ofSender p.exec s).Pairwise (fun a b => a.nonce < b.nonce)
  oneEpoch : ∀ s, ∀ a ∈ ofSender p.exec s, ∀ b ∈ ofSender p.exec s, a.epoch = b.epoch

theorem wf_empty : WF Pool.empty := by
  constructor <;> simp [Pool.empty, ofSender]

theorem mem_ofSender {l : List Tx} {s : Nat} {t : Tx} : t ∈ ofSender l s ↔ t ∈ l ∧ t.sender = s := by
  simp [ofSender]

theorem ofSender_append (l : List Tx) (t : Tx) (s : Nat) :
    ofSender (l ++ [t]) s = ofSender l s ++ (if t.sender = s then [t] else []) := by
  simp only [ofSender, List.filter_append]
  by_cases h : t.sender = s <;> simp [h]

theorem ofSender_erase_sublist (l : List Tx) (t : Tx) (s : Nat) : (ofSender (l.erase t) s).Sublist (ofSender l s) :=
  List.Sublist.filter _ List.erase_sublist

theorem le_last_of_pairwise {l : List Tx} {last : Tx} (hs : l.Pairwise (fun a b => a.nonce < b.nonce))
    (hl : l.getLast? = some last) : ∀ x ∈ l, x.nonce ≤ last.nonce := by
  obtain ⟨ys, rfl⟩ := List.getLast?_eq_some_iff.mp hl
  intro x hx
  rw [List.pairwise_append] at hs
  rcases List.mem_append.mp hx with h | h
  · exact Nat.le_of_lt (hs.2.2 x h last (by simp))
  · simp at h; subst h; exact Nat.le_refl _

theorem sortedAdd_none {limit : Int} {l : List Tx} {t : Tx} (h : sortedAdd limit l t = none) :
    ∀ last, l.getLast? = some last → t.nonce = last.nonce + 1 ∧ t.epoch = last.epoch := by
  intro last hl
  unfold sortedAdd at h
  split at h
  · simp at h
  · rw [hl] at h
    simp only at h
    split at h
    · simp at h
    · rename_i hc
      simp only [not_or, Decidable.not_not] at hc
      exact hc

theorem pairwise_push {l : List Tx} {t : Tx} (hs : l.Pairwise (fun a b => a.nonce < b.nonce))
    (h : ∀ last, l.getLast? = some last → t.nonce = last.nonce + 1) :
    (l ++ [t]).Pairwise (fun a b => a.nonce < b.nonce) := by
  rw [List.pairwise_append]
  refine ⟨hs, by simp, ?_⟩
  intro a ha b hb
  simp at hb; subst hb
  cases hl : l.getLast? with
  | none => simp [List.getLast?_eq_none_iff] at hl; subst hl; simp at ha
  | some last =>
    have := le_last_of_pairwise hs hl a ha
    have := h last hl
    omega

/-- appending `t` to the executable queue after a successful `sortedTxs.Add` -/
theorem wf_push_exec {p : Pool} {t : Tx} {limit : Int} (hwf : WF p) (hn : t ∉ p.all)
    (hadd : sortedAdd limit (ofSender p.exec t.sender) t = none) :
    WF { p with exec := p.exec ++ [t], all := p.all ++ [t] } := by
  have hne : t ∉ p.exec := fun h => hn ((hwf.mem t).mpr (Or.inl h))
  have hnp : t ∉ p.pend := fun h => hn ((hwf.mem t).mpr (Or.inr h))
  have hlast := sortedAdd_none hadd
  constructor
  · simp only; rw [List.nodup_append]; refine ⟨hwf.nodupAll, by simp, ?_⟩
    intro a ha b hb; simp at hb; subst hb; intro e; subst e; exact hn ha
  · simp only; rw [List.nodup_append]; refine ⟨hwf.nodupExec, by simp, ?_⟩
    intro a ha b hb; simp at hb; subst hb; intro e; subst e; exact hne ha
  · exact hwf.nodupPend
  · intro x; simp only [List.mem_append, List.mem_singleton]
    have := hwf.mem x; constructor
    · rintro (h | h)
      · rcases this.mp h with h | h
        · exact Or.inl (Or.inl h)
        · exact Or.inr h
      · exact Or.inl (Or.inr h)
    · rintro ((h | h) | h)
      · exact Or.inl (this.mpr (Or.inl h))
      · exact Or.inr h
      · exact Or.inl (this.mpr (Or.inr h))
  · intro x hx; simp only [List.mem_append, List.mem_singleton] at hx
    rcases hx with h | h
    · exact hwf.disj x h
    · subst h; exact hnp
  · intro s; simp only; rw [ofSender_append]
    by_cases hs : t.sender = s
    · simp only [hs, if_true]; subst hs
      exact pairwise_push (hwf.sorted _) (fun last hl => (hlast last hl).1)
    · simp [hs]; exact hwf.sorted s
  · intro s a ha b hb; simp only at ha hb; rw [ofSender_append] at ha hb
    by_cases hs : t.sender = s
    · simp only [hs, if_true, List.mem_append, List.mem_singleton] at ha hb
      subst hs
      have key : ∀ x ∈ ofSender p.exec t.sender, x.epoch = t.epoch := by
        intro x hx
        cases hl : (ofSender p.exec t.sender).getLast? with
        | none => simp [List.getLast?_eq_none_iff] at hl; rw [hl] at hx; simp at hx
        | some last =>
          have hlm : last ∈ ofSender p.exec t.sender := by
            obtain ⟨ys, hys⟩ := List.getLast?_eq_some_iff.mp hl; rw [hys]; simp
          rw [(hlast last hl).2]; exact hwf.oneEpoch _ x hx last hlm
      rcases ha with ha | ha <;> rcases hb with hb | hb
      · exact hwf.oneEpoch _ a ha b hb
      · subst hb; exact key a ha
      · subst ha; exact (key b hb).symm
      · subst ha; subst hb; rfl
    · simp [hs] at ha hb; exact hwf.oneEpoch s a ha b hb

theorem wf_push_pend {p : Pool} {t : Tx} (hwf : WF p) (hn : t ∉ p.all) :
    WF { p with pend := p.pend ++ [t], all := p.all ++ [t] } := by
  have hne : t ∉ p.exec := fun h => hn ((hwf.mem t).mpr (Or.inl h))
  have hnp : t ∉ p.pend := fun h => hn ((hwf.mem t).mpr (Or.inr h))
  constructor
  · simp only; rw [List.nodup_append]; refine ⟨hwf.nodupAll, by simp, ?_⟩
    intro a ha b hb; simp at hb; subst hb; intro e; subst e; exact hn ha
  · exact hwf.nodupExec
  · simp only; rw [List.nodup_append]; refine ⟨hwf.nodupPend, by simp, ?_⟩
    intro a ha b hb; simp at hb; subst hb; intro e; subst e; exact hnp ha
  · intro x; simp only [List.mem_append, List.mem_singleton]
    have := hwf.mem x; constructor
    · rintro (h | h)
      · rcases this.mp h with h | h
        · exact Or.inl h
        · exact Or.inr (Or.inl h)
      · exact Or.inr (Or.inr h)
    · rintro (h | h | h)
      · exact Or.inl (this.mpr (Or.inl h))
      · exact Or.inl (this.mpr (Or.inr h))
      · exact Or.inr h
  · intro x hx; simp only [List.mem_append, List.mem_singleton]
    rintro (h | h)
    · exact hwf.disj x hx h
    · subst h; exact hne hx
  · exact hwf.sorted
  · exact hwf.oneEpoch

/-! ## `put`, `add` -/

theorem putToPending_ok {c : Cfg} {p p' : Pool} {t : Tx} (h : putToPending c p t = .ok p') :
    p' = { p with pend := p.pend ++ [t] } := by
  unfold putToPending at h
  simp only at h
  split at h
  · cases h
  · split at h
    · cases h
    · cases h; rfl

theorem putToPending_err {c : Cfg} {p : Pool} {t : Tx} : putToPending c p t ≠ .error .ok := by
  unfold putToPending; simp only
  split
  · simp
  · split <;> simp

theorem put_ok {c : Cfg} {v : View} {p p' : Pool} {t : Tx} (h : put c v p t = .ok p') :
    (p' = { p with exec := p.exec ++ [t], all := p.all ++ [t] } ∧
      sortedAdd c.addrExecLimit (ofSender p.exec t.sender) t = none ∧
      ((ofSender p.exec t.sender) = [] → t.epoch = v.epoch ∧ t.nonce = v.eff t.sender + 1)) ∨
    p' = { p with pend := p.pend ++ [t], all := p.all ++ [t] } := by
  unfold put at h
  simp only at h
  by_cases hexec : (if (ofSender p.exec t.sender).isEmpty = true then (t.epoch == v.epoch && t.nonce == v.eff t.sender + 1) else true) = true
  · rw [if_pos hexec] at h
    cases hadd : sortedAdd c.addrExecLimit (ofSender p.exec t.sender) t with
    | none =>
      rw [hadd] at h; simp only at h; cases h
      left; refine ⟨rfl, rfl, ?_⟩
      intro hnil; simp [hnil] at hexec; exact hexec
    | some e =>
      rw [hadd] at h; simp only at h
      cases hp : putToPending c p t with
      | ok q => rw [hp] at h; simp only at h; cases h; have := putToPending_ok hp; subst this; right; rfl
      | error e => rw [hp] at h; cases h
  · rw [if_neg hexec] at h
    cases hp : putToPending c p t with
    | ok q => rw [hp] at h; simp only at h; cases h; have := putToPending_ok hp; subst this; right; rfl
    | error e => rw [hp] at h; cases h

theorem put_err {c : Cfg} {v : View} {p : Pool} {t : Tx} : put c v p t ≠ .error .ok := by
  unfold put; simp only
  intro h
  by_cases hexec : (if (ofSender p.exec t.sender).isEmpty = true then (t.epoch == v.epoch && t.nonce == v.eff t.sender + 1) else true) = true
  · rw [if_pos hexec] at h
    cases hadd : sortedAdd c.addrExecLimit (ofSender p.exec t.sender) t with
    | none => rw [hadd] at h; simp only at h; cases h
    | some e =>
      rw [hadd] at h; simp only at h
      cases hp : putToPending c p t with
      | ok q => rw [hp] at h; cases h
      | error e => rw [hp] at h; simp only at h; cases h; exact putToPending_err hp
  · rw [if_neg hexec] at h
    cases hp : putToPending c p t with
    | ok q => rw [hp] at h; cases h
    | error e => rw [hp] at h; simp only at h; cases h; exact putToPending_err hp

theorem checkLimits_ne_ok {c : Cfg} {p : Pool} {t : Tx} : checkLimits c p t ≠ some .ok := by
  unfold checkLimits
  simp only
  repeat' split
  all_goals simp

theorem wf_put {c : Cfg} {v : View} {p p' : Pool} {t : Tx} (hwf : WF p) (hn : t ∉ p.all)
    (h : put c v p t = .ok p') : WF p' := by
  rcases put_ok h with ⟨rfl, hadd, _⟩ | rfl
  · exact wf_push_exec hwf hn hadd
  · exact wf_push_pend hwf hn

theorem add_cases (c : Cfg) (v : View) (p : Pool) (t : Tx) (inb : Bool) :
    ((add c v p t inb).1 = p ∧ (add c v p t inb).2 ≠ .ok) ∨
    (t ∉ p.all ∧ validate v inb t = .ok ∧ put c v p t = .ok (add c v p t inb).1 ∧ (add c v p t inb).2 = .ok) := by
  unfold add
  by_cases hd : t ∈ p.all
  · simp [hd]
  · simp only [hd, if_false]
    cases hc : checkLimits c p t with
    | some e =>
      left
      refine ⟨rfl, ?_⟩
      intro he; simp only at he; subst he
      exact checkLimits_ne_ok hc
    | none =>
      simp only
      cases hv : validate v inb t <;> simp
      cases hp : put c v p t with
      | ok p' => simp
      | error e =>
        simp
        intro he; subst he
        exact put_err hp

theorem wf_add {c : Cfg} {v : View} {p : Pool} {t : Tx} {inb : Bool} (hwf : WF p) : WF (add c v p t inb).1 := by
  rcases add_cases c v p t inb with ⟨h, _⟩ | ⟨hn, _, hp, _⟩
  · rw [h]; exact hwf
  · exact wf_put hwf hn hp

theorem wf_of_lists {p q : Pool} (hwf : WF p) (h1 : q.exec = p.exec) (h2 : q.pend = p.pend) (h3 : q.all = p.all) : WF q := by
  constructor
  · rw [h3]; exact hwf.nodupAll
  · rw [h1]; exact hwf.nodupExec
  · rw [h2]; exact hwf.nodupPend
  · rw [h1, h2, h3]; exact hwf.mem
  · rw [h1, h2]; exact hwf.disj
  · rw [h1]; exact hwf.sorted
  · rw [h1]; exact hwf.oneEpoch

theorem addDeferred_lists (c : Cfg) (p : Pool) (t : Tx) (hp : Bool) :
    (addDeferred c p t hp).exec = p.exec ∧ (addDeferred c p t hp).pend = p.pend ∧ (addDeferred c p t hp).all = p.all := by
  unfold addDeferred; split <;> simp

theorem wf_addDeferred {c : Cfg} {p : Pool} {t : Tx} {hp : Bool} (hwf : WF p) : WF (addDeferred c p t hp) :=
  let h := addDeferred_lists c p t hp
  wf_of_lists hwf h.1 h.2.1 h.2.2

theorem wf_addExternal {c : Cfg} {v : View} {p : Pool} {t : Tx} {inb : Bool} (hwf : WF p) :
    WF (addExternal c v p t inb).1 := by
  unfold addExternal; split
  · exact wf_addDeferred hwf
  · exact wf_add hwf

theorem wf_addInternal {c : Cfg} {v : View} {p : Pool} {t : Tx} (hwf : WF p) : WF (addInternal c v p t).1 := by
  unfold addInternal; split
  · exact wf_add (wf_addDeferred hwf)
  · exact wf_add hwf

/-! ## `Remove` -/

theorem find_first_sorted {l : List Tx} {t x : Tx} (hs : l.Pairwise (fun a b => a.nonce < b.nonce)) (ht : t ∈ l)
    (hf : l.find? (fun y => decide (y.nonce ≥ t.nonce)) = some x) : x = t := by
  rw [List.find?_eq_some_iff_append] at hf
  obtain ⟨hx, as, bs, rfl, has⟩ := hf
  simp at hx
  rcases List.mem_append.mp ht with h | h
  · have := has t h; simp at this
  · rcases List.mem_cons.mp h with h | h
    · exact h.symm
    · rw [List.pairwise_append] at hs
      have := hs.2.1
      rw [List.pairwise_cons] at this
      have := this.1 t h
      omega

theorem execRemove_eq_erase {exec : List Tx} (t : Tx)
    (hs : (ofSender exec t.sender).Pairwise (fun a b => a.nonce < b.nonce)) : execRemove exec t = exec.erase t := by
  unfold execRemove
  split
  · rename_i x hf
    split
    · rfl
    · rename_i hne
      by_cases ht : t ∈ exec
      · exact absurd (find_first_sorted hs (mem_ofSender.mpr ⟨ht, rfl⟩) hf) hne
      · exact (List.erase_of_not_mem ht).symm
  · rename_i hf
    have ht : t ∉ exec := by
      intro ht
      have := List.find?_eq_none.mp hf t (mem_ofSender.mpr ⟨ht, rfl⟩)
      simp at this
    exact (List.erase_of_not_mem ht).symm

theorem remove_eq {p : Pool} (hwf : WF p) (t : Tx) :
    remove p t = { p with all := p.all.erase t, exec := p.exec.erase t, pend := p.pend.erase t } := by
  unfold remove; rw [execRemove_eq_erase t (hwf.sorted _)]

theorem wf_remove {p : Pool} (hwf : WF p) (t : Tx) : WF (remove p t) := by
  rw [remove_eq hwf]
  constructor
  · exact hwf.nodupAll.erase t
  · exact hwf.nodupExec.erase t
  · exact hwf.nodupPend.erase t
  · intro x; simp only
    rw [hwf.nodupAll.mem_erase_iff, hwf.nodupExec.mem_erase_iff, hwf.nodupPend.mem_erase_iff, hwf.mem x]
    constructor
    · rintro ⟨hne, h | h⟩
      · exact Or.inl ⟨hne, h⟩
      · exact Or.inr ⟨hne, h⟩
    · rintro (⟨hne, h⟩ | ⟨hne, h⟩)
      · exact ⟨hne, Or.inl h⟩
      · exact ⟨hne, Or.inr h⟩
  · intro x; simp only
    rw [hwf.nodupExec.mem_erase_iff, hwf.nodupPend.mem_erase_iff]
    rintro ⟨_, h⟩ ⟨_, h'⟩; exact hwf.disj x h h'
  · intro s; exact List.Pairwise.sublist (ofSender_erase_sublist _ _ _) (hwf.sorted s)
  · intro s a ha b hb
    exact hwf.oneEpoch s a ((ofSender_erase_sublist _ _ _).subset ha) b ((ofSender_erase_sublist _ _ _).subset hb)

theorem wf_foldl_remove {p : Pool} (hwf : WF p) (l : List Tx) : WF (l.foldl remove p) := by
  induction l generalizing p with
  | nil => exact hwf
  | cons t l ih => exact ih (wf_remove hwf t)

theorem mem_foldl_remove {p : Pool} (hwf : WF p) (l : List Tx) (x : Tx) :
    x ∈ (l.foldl remove p).all ↔ x ∈ p.all ∧ x ∉ l := by
  induction l generalizing p with
  | nil => simp
  | cons t l ih =>
    simp only [List.foldl_cons]
    rw [ih (wf_remove hwf t), remove_eq hwf]
    simp only
    rw [hwf.nodupAll.mem_erase_iff]
    simp only [List.mem_cons, not_or]
    constructor
    · rintro ⟨⟨h1, h2⟩, h3⟩; exact ⟨h2, h1, h3⟩
    · rintro ⟨h2, h1, h3⟩; exact ⟨⟨h1, h2⟩, h3⟩

theorem foldl_remove_flags (p : Pool) (l : List Tx) :
    (l.foldl remove p).syncing = p.syncing ∧ (l.foldl remove p).deferred = p.deferred ∧ (l.foldl remove p).known = p.known := by
  induction l generalizing p with
  | nil => simp
  | cons t l ih => simp only [List.foldl_cons]; rw [(ih _).1, (ih _).2.1, (ih _).2.2]; simp [remove]

/-! ## promotion -/

theorem mem_insertBy (le : Tx → Tx → Bool) (t x : Tx) (l : List Tx) : x ∈ insertBy le t l ↔ x = t ∨ x ∈ l := by
  induction l with
  | nil => simp [insertBy]
  | cons y ys ih =>
    unfold insertBy
    split
    · simp
    · simp [ih]; constructor
      · rintro (h | h | h)
        · exact Or.inr (Or.inl h)
        · exact Or.inl h
        · exact Or.inr (Or.inr h)
      · rintro (h | h | h)
        · exact Or.inr (Or.inl h)
        · exact Or.inl h
        · exact Or.inr (Or.inr h)

theorem mem_sortBy (le : Tx → Tx → Bool) (x : Tx) (l : List Tx) : x ∈ sortBy le l ↔ x ∈ l := by
  induction l with
  | nil => simp [sortBy]
  | cons y ys ih =>
    simp only [sortBy, List.foldr_cons] at ih ⊢
    rw [mem_insertBy, ih]; simp

/-- moving one pending transaction to the executable queue after a successful `sortedTxs.Add` -/
theorem wf_promote {p : Pool} {t : Tx} {limit : Int} (hwf : WF p) (hp : t ∈ p.pend)
    (hadd : sortedAdd limit (ofSender p.exec t.sender) t = none) :
    WF { p with exec := p.exec ++ [t], pend := p.pend.erase t } := by
  have hne : t ∉ p.exec := fun h => hwf.disj t h hp
  have hlast := sortedAdd_none hadd
  -- reuse `wf_push_exec` on the pool without `t`
  have hwf0 : WF { p with pend := p.pend.erase t, all := p.all.erase t } := by
    constructor
    · exact hwf.nodupAll.erase t
    · exact hwf.nodupExec
    · exact hwf.nodupPend.erase t
    · intro x; simp only
      rw [hwf.nodupAll.mem_erase_iff, hwf.nodupPend.mem_erase_iff, hwf.mem x]
      constructor
      · rintro ⟨hne', h | h⟩
        · exact Or.inl h
        · exact Or.inr ⟨hne', h⟩
      · rintro (h | ⟨hne', h⟩)
        · exact ⟨fun e => hne (e ▸ h), Or.inl h⟩
        · exact ⟨hne', Or.inr h⟩
    · intro x hx; simp only; rw [hwf.nodupPend.mem_erase_iff]; rintro ⟨_, h⟩; exact hwf.disj x hx h
    · exact hwf.sorted
    · exact hwf.oneEpoch
  have hn0 : t ∉ ({ p with pend := p.pend.erase t, all := p.all.erase t } : Pool).all := by
    simp only; rw [hwf.nodupAll.mem_erase_iff]; simp
  have h1 := wf_push_exec (limit := limit) hwf0 hn0 hadd
  -- same exec / pend; `all` differs only by a permutation
  constructor
  · exact hwf.nodupAll
  · exact h1.nodupExec
  · exact h1.nodupPend
  · intro x
    have := h1.mem x
    simp only [List.mem_append, List.mem_singleton] at this ⊢
    rw [hwf.nodupAll.mem_erase_iff] at this
    constructor
    · intro hx
      by_cases hxt : x = t
      · exact Or.inl (Or.inr hxt)
      · exact this.mp (Or.inl ⟨hxt, hx⟩)
    · intro hx
      rcases this.mpr hx with ⟨_, h⟩ | h
      · exact h
      · subst h; exact (hwf.mem x).mpr (Or.inr hp)
  · exact h1.disj
  · exact h1.sorted
  · exact h1.oneEpoch

theorem promoteLoop_spec (c : Cfg) (v : View) (s : Nat) (cands : List Tx) (p : Pool) (hwf : WF p)
    (hc : ∀ x ∈ cands, x.sender = s ∧ (x ∈ p.pend ∨ x ∈ p.exec)) :
    WF (promoteLoop c v s cands p) ∧ (promoteLoop c v s cands p).all = p.all ∧
    (promoteLoop c v s cands p).syncing = p.syncing ∧ (promoteLoop c v s cands p).deferred = p.deferred ∧
    (promoteLoop c v s cands p).known = p.known := by
  induction cands generalizing p with
  | nil => exact ⟨hwf, rfl, rfl, rfl, rfl⟩
  | cons t rest ih =>
    unfold promoteLoop
    simp only
    split
    · exact ⟨hwf, rfl, rfl, rfl, rfl⟩
    · split
      · rename_i hadd
        have hts : t.sender = s := (hc t (by simp)).1
        subst hts
        have htp : t ∈ p.pend := by
          rcases (hc t (by simp)).2 with h | h
          · exact h
          · exfalso
            have hm : t ∈ ofSender p.exec t.sender := mem_ofSender.mpr ⟨h, rfl⟩
            cases hl : (ofSender p.exec t.sender).getLast? with
            | none => simp [List.getLast?_eq_none_iff] at hl; rw [hl] at hm; simp at hm
            | some last =>
              have h1 := (sortedAdd_none hadd last hl).1
              have h2 := le_last_of_pairwise (hwf.sorted _) hl t hm
              omega
        have hwf' := wf_promote hwf htp hadd
        have := ih _ hwf' (by
          intro x hx
          refine ⟨(hc x (by simp [hx])).1, ?_⟩
          simp only
          by_cases hxt : x = t
          · right; simp [hxt]
          · rcases (hc x (by simp [hx])).2 with h | h
            · left; rw [hwf.nodupPend.mem_erase_iff]; exact ⟨hxt, h⟩
            · right; simp [h])
        exact this
      · exact ⟨hwf, rfl, rfl, rfl, rfl⟩

/-- an enumeration of a map only yields its entries -/
def SoundEnum (penum : List Tx → List Tx) : Prop := ∀ l, ∀ x ∈ penum l, x ∈ l

theorem movePending_spec (c : Cfg) (v : View) (p : Pool) (sord : List Nat) (penum : List Tx → List Tx)
    (hwf : WF p) (hp : SoundEnum penum) :
    WF (movePending c v p sord penum) ∧ (movePending c v p sord penum).all = p.all ∧
    (movePending c v p sord penum).syncing = p.syncing ∧ (movePending c v p sord penum).deferred = p.deferred ∧
    (movePending c v p sord penum).known = p.known := by
  unfold movePending
  induction sord generalizing p with
  | nil => exact ⟨hwf, rfl, rfl, rfl, rfl⟩
  | cons s rest ih =>
    simp only [List.foldl_cons]
    have h1 := promoteLoop_spec c v s (sortBy pendLe (penum (ofSender p.pend s))) p hwf (by
      intro x hx
      rw [mem_sortBy] at hx
      have := mem_ofSender.mp (hp _ x hx)
      exact ⟨this.2, Or.inl this.1⟩)
    have h2 := ih _ h1.1
    refine ⟨h2.1, ?_, ?_, ?_, ?_⟩
    · rw [h2.2.1, h1.2.1]
    · rw [h2.2.2.1, h1.2.2.1]
    · rw [h2.2.2.2.1, h1.2.2.2.1]
    · rw [h2.2.2.2.2, h1.2.2.2.2]

/-! ## `ResetTo`, `StopSync` -/

theorem wf_resetTo {c : Cfg} {v : View} {p : Pool} {block : List Tx} {sord : List Nat} {penum : List Tx → List Tx}
    (hwf : WF p) (hp : SoundEnum penum) : WF (resetTo c v p block sord penum) := by
  unfold resetTo
  simp only
  have h1 := wf_foldl_remove hwf block
  have h2 := (movePending_spec c v _ sord penum h1 hp).1
  split
  · exact wf_foldl_remove h2 _
  · exact h2

theorem resetTo_flags (c : Cfg) (v : View) (p : Pool) (block : List Tx) (sord : List Nat) (penum : List Tx → List Tx)
    (hwf : WF p) (hp : SoundEnum penum) :
    (resetTo c v p block sord penum).syncing = p.syncing ∧ (resetTo c v p block sord penum).deferred = p.deferred ∧
    (resetTo c v p block sord penum).known = p.known := by
  unfold resetTo
  simp only
  have h1 := wf_foldl_remove hwf block
  have f1 := foldl_remove_flags p block
  have h2 := movePending_spec c v _ sord penum h1 hp
  split
  · have f3 := foldl_remove_flags (movePending c v (block.foldl remove p) sord penum)
      ((movePending c v (block.foldl remove p) sord penum).all.filter (removable v (movePending c v (block.foldl remove p) sord penum).all))
    exact ⟨by rw [f3.1, h2.2.2.1, f1.1], by rw [f3.2.1, h2.2.2.2.1, f1.2.1], by rw [f3.2.2, h2.2.2.2.2, f1.2.2]⟩
  · exact ⟨by rw [h2.2.2.1, f1.1], by rw [h2.2.2.2.1, f1.2.1], by rw [h2.2.2.2.2, f1.2.2]⟩

/-- membership in the hash index after `ResetTo` -/
theorem mem_resetTo {c : Cfg} {v : View} {p : Pool} {block : List Tx} {sord : List Nat} {penum : List Tx → List Tx}
    (hwf : WF p) (hp : SoundEnum penum) (x : Tx) :
    x ∈ (resetTo c v p block sord penum).all ↔
      x ∈ p.all ∧ x ∉ block ∧
      (fullReset c v = true → removable v ((block.foldl remove p).all) x = false) := by
  unfold resetTo
  simp only
  have h1 := wf_foldl_remove hwf block
  have h2 := movePending_spec c v _ sord penum h1 hp
  split
  · rename_i hf
    rw [mem_foldl_remove h2.1, h2.2.1, mem_foldl_remove hwf]
    simp only [List.mem_filter, hf, forall_const]
    constructor
    · rintro ⟨⟨h1, h2⟩, h3⟩
      refine ⟨h1, h2, ?_⟩
      cases hr : removable v (List.foldl remove p block).all x
      · rfl
      · exact absurd ⟨(mem_foldl_remove hwf block x).mpr ⟨h1, h2⟩, hr⟩ h3
    · rintro ⟨h1, h2, h3⟩
      refine ⟨⟨h1, h2⟩, ?_⟩
      rintro ⟨_, hr⟩; rw [h3] at hr; cases hr
  · rename_i hf
    rw [h2.2.1, mem_foldl_remove hwf]
    simp [hf]

theorem foldl_adds_spec (c : Cfg) (v : View) (l : List (Tx × Bool)) (q : Pool) (hwf : WF q) :
    WF (l.foldl (fun q e => if e.2 then (addInternal c v q e.1).1 else (addExternal c v q e.1 false).1) q) := by
  induction l generalizing q with
  | nil => exact hwf
  | cons e l ih =>
    simp only [List.foldl_cons]
    apply ih
    split
    · exact wf_addInternal hwf
    · exact wf_addExternal hwf

theorem wf_stopSync {c : Cfg} {v : View} {p : Pool} {block : List Tx} {sord : List Nat} {penum : List Tx → List Tx}
    (hwf : WF p) (hp : SoundEnum penum) : WF (stopSync c v p block sord penum) := by
  unfold stopSync
  simp only
  have h0 : WF { p with syncing := false } := wf_of_lists hwf rfl rfl rfl
  have h1 := wf_resetTo (c := c) (v := v) (block := block) (sord := sord) h0 hp
  have h2 := foldl_adds_spec c v (resetTo c v { p with syncing := false } block sord penum).deferred
    { resetTo c v { p with syncing := false } block sord penum with deferred := [] } (wf_of_lists h1 rfl rfl rfl)
  exact wf_of_lists h2 rfl rfl rfl

/-! ## block candidate construction -/

/-- invariant of the building context: (blockTxs, blockGas, curNoncesPerSender) -/
structure BInv (v : View) (cap : Nat) (txs : List Tx) (B : List Tx) (G : Nat) (cur : Nat → Nat) : Prop where
  cons : ∀ s, ((ofSender B s).map (·.nonce)) = List.range' (v.eff s + 1) (ofSender B s).length
  cur : ∀ s, cur s = v.eff s + (ofSender B s).length
  gas : G = (B.map (·.gas)).sum
  cap : G ≤ cap
  sub : ∀ t ∈ B, t ∈ txs

theorem upd_same {α : Type} {f : Nat → α} {s : Nat} {x : α} : upd f s x s = x := by simp [upd]
theorem upd_other {α : Type} {f : Nat → α} {s s' : Nat} {x : α} (h : s' ≠ s) : upd f s x s' = f s' := by simp [upd, h]
theorem upd_upd {α : Type} {f : Nat → α} {s : Nat} {x y : α} : upd (upd f s x) s y = upd f s y := by
  funext s'; simp only [upd]; split <;> rfl
theorem upd_self {α : Type} {f : Nat → α} {s : Nat} : upd f s (f s) = f := by
  funext s'; simp only [upd]; split
  · rename_i h; rw [h]
  · rfl

theorem binv_push {v : View} {cap : Nat} {txs B : List Tx} {G : Nat} {cur : Nat → Nat} {t : Tx}
    (h : BInv v cap txs B G cur) (hn : cur t.sender + 1 = t.nonce) (hg : G + t.gas ≤ cap) (ht : t ∈ txs) :
    BInv v cap txs (B ++ [t]) (G + t.gas) (upd cur t.sender t.nonce) := by
  constructor
  · intro s
    rw [ofSender_append]
    by_cases hs : t.sender = s
    · simp only [hs, if_true, List.map_append, List.length_append, List.length_singleton, List.map_singleton]
      rw [List.range'_concat, h.cons s]
      congr 1
      have := h.cur s
      subst hs
      simp; omega
    · simp [hs]; exact h.cons s
  · intro s
    rw [ofSender_append]
    by_cases hs : t.sender = s
    · subst hs
      simp only [upd_same, if_true, List.length_append, List.length_singleton]
      have := h.cur t.sender
      omega
    · rw [upd_other (fun e => hs e.symm)]
      simp [hs]; exact h.cur s
  · rw [List.map_append, List.sum_append, ← h.gas]; simp
  · exact hg
  · intro x hx; simp at hx
    rcases hx with hx | hx
    · exact h.sub x hx
    · subst hx; exact ht

/-- a reached priority transaction: the walk consumed `pre ++ [prio]` -/
theorem prioWalk_reached {feeOk : Tx → Bool} {cap G : Nat} {prio : Tx} {v : View} {txs B : List Tx} {s : Nat} {cur0 : Nat → Nat} :
    ∀ (l : List Tx) (cur : Nat) (acc : List Tx) (g : Nat) (txs' : List Tx) (g' cur' : Nat) (rem : List Tx),
    (∀ t ∈ l, t.sender = s ∧ t ∈ txs) →
    BInv v cap txs (B ++ acc) (G + g) (upd cur0 s cur) →
    prioWalk feeOk cap G prio l cur acc g = some (some (txs', g', cur', rem)) →
    BInv v cap txs (B ++ txs') (G + g') (upd cur0 s cur') ∧ ∃ pre, l = pre ++ prio :: rem ∧ prio ∉ pre := by
  intro l
  induction l with
  | nil => intro cur acc g txs' g' cur' rem _ _ h; simp [prioWalk] at h
  | cons t rest ih =>
    intro cur acc g txs' g' cur' rem hl hinv h
    unfold prioWalk at h
    split at h
    · cases h
    · rename_i hnonce
      split at h
      · cases h
      · split at h
        · cases h
        · rename_i hgas
          have hts := (hl t (by simp)).1
          have hpush : BInv v cap txs (B ++ (acc ++ [t])) (G + (g + t.gas)) (upd cur0 s t.nonce) := by
            have := binv_push (t := t) hinv (by rw [hts, upd_same]; simp at hnonce; exact hnonce) (by omega) (hl t (by simp)).2
            rw [hts, upd_upd] at this
            rw [← List.append_assoc, ← Nat.add_assoc]; exact this
          split at h
          · rename_i hprio
            simp at h
            obtain ⟨rfl, rfl, rfl, rfl⟩ := h
            exact ⟨hpush, [], by simp [hprio], by simp⟩
          · rename_i hprio
            have := ih t.nonce (acc ++ [t]) (g + t.gas) txs' g' cur' rem (fun x hx => hl x (by simp [hx])) hpush h
            obtain ⟨h1, pre, h2, h3⟩ := this
            refine ⟨h1, t :: pre, by simp [h2], ?_⟩
            simp; exact ⟨fun e => hprio e.symm, h3⟩

theorem prioWalk_ne_none {feeOk : Tx → Bool} {cap G : Nat} {prio : Tx} :
    ∀ (l : List Tx) (cur : Nat) (acc : List Tx) (g : Nat), prio ∈ l → prioWalk feeOk cap G prio l cur acc g ≠ none := by
  intro l
  induction l with
  | nil => intro _ _ _ h; simp at h
  | cons t rest ih =>
    intro cur acc g hm
    unfold prioWalk
    split
    · simp
    · split
      · simp
      · split
        · simp
        · split
          · simp
          · rename_i hne
            apply ih
            rcases List.mem_cons.mp hm with h | h
            · exact absurd h.symm hne
            · exact h

theorem sublist_after {pt : Tx} {R pre rem : List Tx} (hn : pt ∉ pre) (h : (pt :: R).Sublist (pre ++ pt :: rem)) :
    R.Sublist rem := by
  induction pre with
  | nil => simpa using h
  | cons a pre ih =>
    simp only [List.cons_append] at h
    rw [List.sublist_cons_iff] at h
    simp at hn
    rcases h with h | ⟨r, hr, _⟩
    · exact ih hn.2 h
    · simp at hr; exact absurd hr.1 hn.1

theorem ofSender_cons (t : Tx) (l : List Tx) (s : Nat) :
    ofSender (t :: l) s = if t.sender = s then t :: ofSender l s else ofSender l s := by
  simp only [ofSender, List.filter_cons]
  by_cases h : t.sender = s <;> simp [h]

/-- the priority phase never panics and keeps the invariant -/
theorem addPrio_spec {feeOk : Tx → Bool} {cap : Nat} {v : View} {txs : List Tx} :
    ∀ (ps : List Tx) (ctx : BCtx),
    BInv v cap txs ctx.blockTxs ctx.blockGas ctx.cur →
    (∀ s, ∀ t ∈ ctx.perSender s, t.sender = s ∧ t ∈ txs) →
    (∀ s, (ofSender ps s).Sublist (ctx.perSender s)) →
    ∃ ctx', addPrio feeOk cap ps ctx = some ctx' ∧ BInv v cap txs ctx'.blockTxs ctx'.blockGas ctx'.cur := by
  intro ps
  induction ps with
  | nil => intro ctx h _ _; exact ⟨ctx, rfl, h⟩
  | cons pt rest ih =>
    intro ctx hinv hper hsub
    unfold addPrio
    have hmem : pt ∈ ctx.perSender pt.sender := by
      have := hsub pt.sender
      rw [ofSender_cons] at this; simp at this
      exact this.subset (by simp)
    have hrest : ∀ s, (ofSender rest s).Sublist (ctx.perSender s) := by
      intro s
      have := hsub s
      rw [ofSender_cons] at this
      split at this
      · exact (List.sublist_cons_self _ _).trans this
      · exact this
    cases hw : prioWalk feeOk cap ctx.blockGas pt (ctx.perSender pt.sender) (ctx.cur pt.sender) [] 0 with
    | none => exact absurd hw (prioWalk_ne_none _ _ _ _ hmem)
    | some r =>
      cases r with
      | none => simp only; exact ih ctx hinv hper hrest
      | some q =>
        obtain ⟨txs', g', cur', rem⟩ := q
        simp only
        have h0 : BInv v cap txs (ctx.blockTxs ++ []) (ctx.blockGas + 0) (upd ctx.cur pt.sender (ctx.cur pt.sender)) := by
          rw [upd_self]; simpa using hinv
        obtain ⟨h1, pre, hpre, hnot⟩ := prioWalk_reached (s := pt.sender) _ _ _ _ _ _ _ _ (hper pt.sender) h0 hw
        apply ih
        · exact h1
        · intro s t ht
          simp only at ht
          by_cases hs : s = pt.sender
          · subst hs; rw [upd_same] at ht
            exact hper _ t (by rw [hpre]; simp [ht])
          · rw [upd_other hs] at ht; exact hper s t ht
        · intro s
          simp only
          by_cases hs : s = pt.sender
          · subst hs; rw [upd_same]
            have := hsub pt.sender
            rw [ofSender_cons, hpre] at this; simp at this
            exact sublist_after hnot this
          · rw [upd_other hs]; exact hrest s

theorem addTxs_spec {feeOk : Tx → Bool} {cap : Nat} {v : View} {txs : List Tx} :
    ∀ (l : List Tx) (ctx : BCtx), (∀ t ∈ l, t ∈ txs) →
    BInv v cap txs ctx.blockTxs ctx.blockGas ctx.cur →
    BInv v cap txs (addTxs feeOk cap l ctx).blockTxs (addTxs feeOk cap l ctx).blockGas (addTxs feeOk cap l ctx).cur := by
  intro l
  induction l with
  | nil => intro ctx _ h; exact h
  | cons t rest ih =>
    intro ctx hl hinv
    unfold addTxs
    have hr : ∀ x ∈ rest, x ∈ txs := fun x hx => hl x (by simp [hx])
    split
    · exact ih ctx hr hinv
    · split
      · exact ih ctx hr hinv
      · split
        · exact hinv
        · rename_i hn hg
          apply ih _ hr
          simp only
          exact binv_push hinv (by simpa using hn) (by omega) (hl t (by simp))

theorem nodup_of_consecutive {f : Nat → Nat} {l : List Tx}
    (h : ∀ s, ((ofSender l s).map (·.nonce)) = List.range' (f s + 1) (ofSender l s).length) : l.Nodup := by
  rw [List.nodup_iff_count]
  intro t
  have h1 : List.count t l = List.count t (ofSender l t.sender) := by
    unfold ofSender; rw [List.count_filter]; simp
  have h2 := List.count_le_count_map (l := ofSender l t.sender) (f := (·.nonce)) (x := t)
  rw [h t.sender] at h2
  have h3 := (List.nodup_iff_count.mp (List.nodup_range' (s := f t.sender + 1) (n := (ofSender l t.sender).length) 1)) t.nonce
  omega

/-! ## gap structure of executable queues (for `exec_consecutive`) -/

/-- successive nonces either continue by one or lie at most one above `e` (a gap left by consumed nonces) -/
def JLink (e : Nat) : Nat → List Nat → Prop
  | _, [] => True
  | a, b :: r => (b = a + 1 ∨ b ≤ e + 1) ∧ JLink e b r

def JChain (e : Nat) : List Nat → Prop
  | [] => True
  | a :: r => a ≤ e + 1 ∧ JLink e a r

theorem jlink_mono {e e' : Nat} (h : e ≤ e') : ∀ (a : Nat) (l : List Nat), JLink e a l → JLink e' a l
  | _, [], _ => trivial
  | a, b :: r, ⟨h1, h2⟩ => ⟨by omega, jlink_mono h b r h2⟩

theorem jchain_mono {e e' : Nat} (h : e ≤ e') : ∀ (l : List Nat), JChain e l → JChain e' l
  | [], _ => trivial
  | a :: r, ⟨h1, h2⟩ => ⟨by omega, jlink_mono h a r h2⟩

theorem jlink_snoc {e : Nat} : ∀ (a : Nat) (l : List Nat) (n : Nat), JLink e a l →
    (∀ last, (a :: l).getLast? = some last → n = last + 1) → JLink e a (l ++ [n])
  | a, [], n, _, hn => ⟨Or.inl (hn a (by simp)), trivial⟩
  | a, b :: r, n, ⟨h1, h2⟩, hn =>
    ⟨h1, jlink_snoc b r n h2 (fun last hl => hn last (by rw [List.getLast?_cons_cons]; exact hl))⟩

theorem jchain_snoc {e : Nat} (l : List Nat) (n : Nat) (h : JChain e l)
    (hn : ∀ last, l.getLast? = some last → n = last + 1) (h0 : l = [] → n = e + 1) : JChain e (l ++ [n]) := by
  cases l with
  | nil => exact ⟨by simp [h0 rfl], trivial⟩
  | cons a r => exact ⟨h.1, jlink_snoc a r n h.2 hn⟩

theorem jlink_erase {e : Nat} (t : Tx) : ∀ (a : Nat) (r : List Tx), JLink e a (r.map (·.nonce)) → (t ∈ r → t.nonce ≤ e) →
    JLink e a ((r.erase t).map (·.nonce))
  | _, [], _, _ => by simp [JLink]
  | a, b :: r', h, ht => by
    by_cases hb : b = t
    · subst hb
      simp only [List.erase_cons_head]
      have hbn : b.nonce ≤ e := ht (by simp)
      cases r' with
      | nil => simp [JLink]
      | cons c r'' =>
        simp only [List.map_cons, JLink] at h ⊢
        exact ⟨Or.inr (by omega), h.2.2⟩
    · have : (b :: r').erase t = b :: r'.erase t := by
        rw [List.erase_cons_tail]; simpa using hb
      rw [this]
      simp only [List.map_cons, JLink] at h ⊢
      exact ⟨h.1, jlink_erase t b.nonce r' h.2 (fun hm => ht (by simp [hm]))⟩

theorem jchain_erase {e : Nat} (t : Tx) (q : List Tx) (h : JChain e (q.map (·.nonce))) (ht : t ∈ q → t.nonce ≤ e) :
    JChain e ((q.erase t).map (·.nonce)) := by
  cases q with
  | nil => simp [JChain]
  | cons a r =>
    by_cases ha : a = t
    · subst ha
      simp only [List.erase_cons_head]
      have han : a.nonce ≤ e := ht (by simp)
      cases r with
      | nil => simp [JChain]
      | cons b r' =>
        simp only [List.map_cons, JChain, JLink] at h ⊢
        exact ⟨by omega, h.2.2⟩
    · have : (a :: r).erase t = a :: r.erase t := by
        rw [List.erase_cons_tail]; simpa using ha
      rw [this]
      simp only [List.map_cons, JChain] at h ⊢
      exact ⟨h.1, jlink_erase t a.nonce r h.2 (fun hm => ht (by simp [hm]))⟩

/-- phase 2: above `e`, a linked strictly increasing list filtered by an upward-closed cut is consecutive -/
theorem consec_filter_link {e : Nat} {K : Nat → Bool} (hup : ∀ n n', K n = false → e < n → n ≤ n' → K n' = false) :
    ∀ (a : Nat) (r : List Nat), e + 1 ≤ a → JLink e a r → (a :: r).Pairwise (· < ·) →
    r.filter K = List.range' (a + 1) (r.filter K).length
  | _, [], _, _, _ => by simp
  | a, b :: r, ha, ⟨h1, h2⟩, hs => by
    rw [List.pairwise_cons] at hs
    have hab : a < b := hs.1 b (by simp)
    have hb : b = a + 1 := by omega
    cases hK : K b with
    | true =>
      simp only [List.filter_cons, hK, if_true, List.length_cons]
      have ih := consec_filter_link hup b r (by omega) h2 hs.2
      rw [List.range'_succ, ← hb, ← ih]
    | false =>
      have : (b :: r).filter K = [] := by
        rw [List.filter_eq_nil_iff]
        intro x hx
        rcases List.mem_cons.mp hx with rfl | hx
        · simp [hK]
        · have := (List.pairwise_cons.mp hs.2).1 x hx
          simp [hup b x hK (by omega) (by omega)]
      rw [this]; simp

/-- a queue whose gaps lie at or below `e`, filtered by a cut that drops every member `≤ e` and is upward closed above
`e`, is exactly `e+1, e+2, …` -/
theorem consec_filter {e : Nat} {K : Nat → Bool}
    (hup : ∀ n n', K n = false → e < n → n ≤ n' → K n' = false) :
    ∀ (l : List Nat), (∀ n ∈ l, n ≤ e → K n = false) → JChain e l → l.Pairwise (· < ·) →
      l.filter K = List.range' (e + 1) (l.filter K).length
  | [], _, _, _ => by simp
  | a :: r, hlow, ⟨h1, h2⟩, hs => by
    by_cases ha : a ≤ e
    · simp only [List.filter_cons, hlow a (by simp) ha]
      simp only [Bool.false_eq_true, if_false]
      apply consec_filter hup r (fun n hn => hlow n (by simp [hn])) _ (List.pairwise_cons.mp hs).2
      cases r with
      | nil => trivial
      | cons b r' => exact ⟨by have := h2.1; omega, h2.2⟩
    · have hae : a = e + 1 := by omega
      cases hK : K a with
      | true =>
        simp only [List.filter_cons, hK, if_true, List.length_cons]
        have := consec_filter_link hup a r (by omega) h2 hs
        rw [List.range'_succ, ← hae, ← this]
      | false =>
        have : (a :: r).filter K = [] := by
          rw [List.filter_eq_nil_iff]
          intro x hx
          rcases List.mem_cons.mp hx with rfl | hx
          · simp [hK]
          · have := (List.pairwise_cons.mp hs).1 x hx
            simp [hup a x hK (by omega) (by omega)]
        rw [this]; simp

/-- invariant behind `exec_consecutive`: executable transactions never lie in a future epoch, have positive nonces, and
the gaps of a current-epoch queue lie at or below the committed nonce -/
structure JInv (v : View) (p : Pool) : Prop where
  epochLe : ∀ t ∈ p.exec, t.epoch ≤ v.epoch
  pos : ∀ t ∈ p.exec, 1 ≤ t.nonce
  chain : ∀ s, (∀ t ∈ ofSender p.exec s, t.epoch = v.epoch) → JChain (v.eff s) ((ofSender p.exec s).map (·.nonce))

theorem jinv_of_exec {v : View} {p q : Pool} (h : JInv v p) (he : q.exec = p.exec) : JInv v q :=
  ⟨by rw [he]; exact h.epochLe, by rw [he]; exact h.pos, by rw [he]; exact h.chain⟩

theorem jinv_empty (v : View) : JInv v Pool.empty := by
  constructor <;> simp [Pool.empty, ofSender, JChain]

theorem getLast?_map_nonce {l : List Tx} {n : Nat} (h : (l.map (·.nonce)).getLast? = some n) :
    ∃ last, l.getLast? = some last ∧ last.nonce = n := by
  rw [List.getLast?_map] at h
  cases hl : l.getLast? with
  | none => rw [hl] at h; simp at h
  | some last => rw [hl] at h; simp at h; exact ⟨last, rfl, h⟩

/-- appending to the executable queue under the conditions `put` / `promoteLoop` check -/
theorem jinv_push {v : View} {p : Pool} {t : Tx} {limit : Int} {pend' all' : List Tx} (h : JInv v p)
    (hadd : sortedAdd limit (ofSender p.exec t.sender) t = none)
    (h0 : ofSender p.exec t.sender = [] → t.epoch = v.epoch ∧ t.nonce = v.eff t.sender + 1) :
    JInv v { p with exec := p.exec ++ [t], pend := pend', all := all' } := by
  have hlast := sortedAdd_none hadd
  have hcases : (ofSender p.exec t.sender = []) ∨ ∃ last, (ofSender p.exec t.sender).getLast? = some last := by
    cases hl : (ofSender p.exec t.sender).getLast? with
    | none => left; simpa [List.getLast?_eq_none_iff] using hl
    | some last => right; exact ⟨last, rfl⟩
  constructor
  · intro x hx; simp only [List.mem_append, List.mem_singleton] at hx
    rcases hx with hx | rfl
    · exact h.epochLe x hx
    · rcases hcases with h1 | ⟨last, hl⟩
      · rw [(h0 h1).1]; exact Nat.le_refl _
      · rw [(hlast last hl).2]
        have hm : last ∈ ofSender p.exec x.sender := by
          obtain ⟨ys, hys⟩ := List.getLast?_eq_some_iff.mp hl; rw [hys]; simp
        exact h.epochLe last (mem_ofSender.mp hm).1
  · intro x hx; simp only [List.mem_append, List.mem_singleton] at hx
    rcases hx with hx | rfl
    · exact h.pos x hx
    · rcases hcases with h1 | ⟨last, hl⟩
      · rw [(h0 h1).2]; omega
      · rw [(hlast last hl).1]; omega
  · intro s hall
    simp only at hall ⊢
    rw [ofSender_append] at hall ⊢
    by_cases hs : t.sender = s
    · subst hs
      simp only [if_true, List.map_append, List.map_singleton] at hall ⊢
      apply jchain_snoc
      · exact h.chain _ (fun x hx => hall x (by simp [hx]))
      · intro n hn
        obtain ⟨last, hl, rfl⟩ := getLast?_map_nonce hn
        exact (hlast last hl).1
      · intro hnil
        simp at hnil
        exact (h0 hnil).2
    · simp only [hs, if_false, List.append_nil] at hall ⊢
      exact h.chain s hall

/-- views only move forward: the epoch does not decrease and, within an epoch, no committed nonce decreases -/
def Mono (v v' : View) : Prop := v.epoch ≤ v'.epoch ∧ (v.epoch = v'.epoch → ∀ s, v.eff s ≤ v'.eff s)

theorem mono_refl (v : View) : Mono v v := ⟨Nat.le_refl _, fun _ _ => Nat.le_refl _⟩

theorem jinv_mono {v v' : View} {p : Pool} (h : JInv v p) (hm : Mono v v') : JInv v' p := by
  constructor
  · intro t ht; exact Nat.le_trans (h.epochLe t ht) hm.1
  · exact h.pos
  · intro s hall
    cases hq : ofSender p.exec s with
    | nil => simp [JChain]
    | cons a r =>
      have ha : a ∈ ofSender p.exec s := by rw [hq]; simp
      have he : v.epoch = v'.epoch := by
        have h1 := hall a ha
        have h2 := h.epochLe a (mem_ofSender.mp ha).1
        have h3 := hm.1
        omega
      rw [← hq]
      exact jchain_mono (hm.2 he s) _ (h.chain s (fun t ht => by rw [he]; exact hall t ht))

theorem ofSender_erase (l : List Tx) (t : Tx) (s : Nat) :
    ofSender (l.erase t) s = if t.sender = s then (ofSender l s).erase t else ofSender l s := by
  induction l with
  | nil => simp [ofSender]
  | cons a r ih =>
    by_cases ha : a = t
    · subst ha
      simp only [List.erase_cons_head, ofSender_cons]
      by_cases hs : a.sender = s <;> simp [hs]
    · have h1 : (a :: r).erase t = a :: r.erase t := by rw [List.erase_cons_tail]; simpa using ha
      rw [h1, ofSender_cons, ofSender_cons, ih]
      by_cases hs : t.sender = s <;> by_cases hs' : a.sender = s <;> simp [hs, hs']
      rw [List.erase_cons_tail]; simpa using ha

/-- consumed nonce or past epoch in the view `v` -/
def Stale (v : View) (t : Tx) : Prop :=
  t.epoch < v.epoch ∨ (t.epoch = v.epoch ∧ v.accEpoch t.sender = v.epoch ∧ t.nonce ≤ v.nonce t.sender)

theorem stale_le_eff {v : View} {t : Tx} (h : Stale v t) (he : t.epoch = v.epoch) : t.nonce ≤ v.eff t.sender := by
  rcases h with h | ⟨_, h2, h3⟩
  · omega
  · unfold View.eff; rw [if_neg (by omega)]; exact h3

/-- removing a transaction the view has consumed keeps the gap structure -/
theorem jinv_remove {v : View} {p : Pool} {t : Tx} (hwf : WF p) (h : JInv v p) (hs : Stale v t) : JInv v (remove p t) := by
  rw [remove_eq hwf]
  constructor
  · intro x hx; exact h.epochLe x (List.erase_sublist.subset hx)
  · intro x hx; exact h.pos x (List.erase_sublist.subset hx)
  · intro s hall
    simp only at hall ⊢
    rw [ofSender_erase] at hall ⊢
    split
    · rename_i hts
      subst hts
      simp only [if_true] at hall
      by_cases htm : t ∈ ofSender p.exec t.sender
      · cases hrest : (ofSender p.exec t.sender).erase t with
        | nil => simp [JChain]
        | cons y r =>
          have hy : y ∈ (ofSender p.exec t.sender).erase t := by rw [hrest]; simp
          have hye := hall y hy
          have hq : ∀ x ∈ ofSender p.exec t.sender, x.epoch = v.epoch := by
            intro x hx
            rw [← hye]; exact hwf.oneEpoch _ x hx y (List.erase_sublist.subset hy)
          rw [← hrest]
          exact jchain_erase t _ (h.chain _ hq) (fun _ => stale_le_eff hs (hq t htm))
      · rw [List.erase_of_not_mem htm]
        rw [List.erase_of_not_mem htm] at hall
        exact h.chain _ hall
    · rename_i hts
      simp only [hts, if_false] at hall
      exact h.chain s hall

theorem jinv_put {c : Cfg} {v : View} {p p' : Pool} {t : Tx} (h : JInv v p) (hp : put c v p t = .ok p') : JInv v p' := by
  rcases put_ok hp with ⟨rfl, hadd, h0⟩ | rfl
  · exact jinv_push h hadd h0
  · exact jinv_of_exec h rfl

theorem jinv_add {c : Cfg} {v : View} {p : Pool} {t : Tx} {inb : Bool} (h : JInv v p) : JInv v (add c v p t inb).1 := by
  rcases add_cases c v p t inb with ⟨he, _⟩ | ⟨_, _, hp, _⟩
  · rw [he]; exact h
  · exact jinv_put h hp

theorem jinv_addExternal {c : Cfg} {v : View} {p : Pool} {t : Tx} {inb : Bool} (h : JInv v p) :
    JInv v (addExternal c v p t inb).1 := by
  unfold addExternal; split
  · exact jinv_of_exec h (addDeferred_lists c p t false).1
  · exact jinv_add h

theorem jinv_addInternal {c : Cfg} {v : View} {p : Pool} {t : Tx} (h : JInv v p) : JInv v (addInternal c v p t).1 := by
  unfold addInternal; split
  · exact jinv_add (jinv_of_exec h (addDeferred_lists c p t true).1)
  · exact jinv_add h

theorem jinv_foldl_adds (c : Cfg) (v : View) (l : List (Tx × Bool)) (q : Pool) (h : JInv v q) :
    JInv v (l.foldl (fun q e => if e.2 then (addInternal c v q e.1).1 else (addExternal c v q e.1 false).1) q) := by
  induction l generalizing q with
  | nil => exact h
  | cons e l ih =>
    simp only [List.foldl_cons]
    apply ih
    split
    · exact jinv_addInternal h
    · exact jinv_addExternal h

theorem jinv_promoteLoop (c : Cfg) (v : View) (s : Nat) (cands : List Tx) (p : Pool) (h : JInv v p)
    (hc : ∀ x ∈ cands, x.sender = s) : JInv v (promoteLoop c v s cands p) := by
  induction cands generalizing p with
  | nil => exact h
  | cons t rest ih =>
    unfold promoteLoop
    simp only
    split
    · exact h
    · rename_i hcond
      split
      · rename_i hadd
        have hts : t.sender = s := hc t (by simp)
        subst hts
        apply ih _ _ (fun x hx => hc x (by simp [hx]))
        apply jinv_push h hadd
        intro hnil
        simp [hnil] at hcond
        exact ⟨hcond.1.symm, hcond.2⟩
      · exact h

theorem jinv_movePending (c : Cfg) (v : View) (p : Pool) (sord : List Nat) (penum : List Tx → List Tx)
    (h : JInv v p) (hp : SoundEnum penum) : JInv v (movePending c v p sord penum) := by
  unfold movePending
  induction sord generalizing p with
  | nil => exact h
  | cons s rest ih =>
    simp only [List.foldl_cons]
    apply ih
    apply jinv_promoteLoop c v s _ p h
    intro x hx
    rw [mem_sortBy] at hx
    exact (mem_ofSender.mp (hp _ x hx)).2

theorem jinv_foldl_remove {v : View} {p : Pool} (hwf : WF p) (h : JInv v p) (l : List Tx) (hl : ∀ t ∈ l, Stale v t) :
    JInv v (l.foldl remove p) := by
  induction l generalizing p with
  | nil => exact h
  | cons t l ih =>
    simp only [List.foldl_cons]
    exact ih (wf_remove hwf t) (jinv_remove hwf h (hl t (by simp))) (fun x hx => hl x (by simp [hx]))

/-- the state of `ResetTo` before its second half -/
def resetHalf (c : Cfg) (v : View) (p : Pool) (block : List Tx) (sord : List Nat) (penum : List Tx → List Tx) : Pool :=
  movePending c v (block.foldl remove p) sord penum

theorem resetTo_eq (c : Cfg) (v : View) (p : Pool) (block : List Tx) (sord : List Nat) (penum : List Tx → List Tx) :
    resetTo c v p block sord penum =
      if fullReset c v then
        ((resetHalf c v p block sord penum).all.filter (removable v (resetHalf c v p block sord penum).all)).foldl remove
          (resetHalf c v p block sord penum)
      else resetHalf c v p block sord penum := rfl

theorem jinv_resetHalf {c : Cfg} {v0 v : View} {p : Pool} {block : List Tx} {sord : List Nat} {penum : List Tx → List Tx}
    (hwf : WF p) (h : JInv v0 p) (hm : Mono v0 v) (hb : ∀ t ∈ block, Stale v t) (hp : SoundEnum penum) :
    JInv v (resetHalf c v p block sord penum) :=
  jinv_movePending c v _ sord penum (jinv_foldl_remove hwf (jinv_mono h hm) block hb) hp

theorem foldl_remove_exec {p : Pool} (hwf : WF p) (l : List Tx) :
    (l.foldl remove p).exec = p.exec.filter (fun x => !l.contains x) := by
  induction l generalizing p with
  | nil => exact (List.filter_eq_self.mpr (by simp)).symm
  | cons t l ih =>
    simp only [List.foldl_cons]
    rw [ih (wf_remove hwf t), remove_eq hwf]
    simp only
    rw [hwf.nodupExec.erase_eq_filter, List.filter_filter]
    apply List.filter_congr
    intro x _
    by_cases hxt : x = t <;> simp [hxt]

theorem ofSender_filter (l : List Tx) (f : Tx → Bool) (s : Nat) : ofSender (l.filter f) s = (ofSender l s).filter f := by
  simp only [ofSender, List.filter_filter]
  apply List.filter_congr
  intro x _; exact Bool.and_comm _ _

/-- an account's epoch never exceeds the global epoch -/
def ViewOk (v : View) : Prop := ∀ s, v.accEpoch s ≤ v.epoch

theorem validate_invalidNonce_iff {v : View} {inb : Bool} {x : Tx} (he : x.epoch = v.epoch) :
    validate v inb x = .invalidNonce ↔ (x.nonce ≤ v.nonce x.sender ∧ v.accEpoch x.sender = v.epoch) := by
  unfold validate
  rw [if_neg (by omega)]
  constructor
  · intro h
    split at h
    · rename_i hc; exact ⟨hc.1, hc.2.1⟩
    · split at h <;> cases h
  · rintro ⟨h1, h2⟩
    rw [if_pos ⟨h1, h2, he⟩]

/-- the cut of the second half of `ResetTo` on the nonces of sender `s`'s current-epoch queue -/
def keepNonce (v : View) (all : List Tx) (s : Nat) (n : Nat) : Bool :=
  !((decide (n ≤ v.nonce s) && decide (v.accEpoch s = v.epoch)) ||
    all.any (fun e => e.epoch == v.epoch && e.sender == s && decide (e.nonce ≤ n) &&
      validate v false e != .ok && validate v false e != .invalidNonce))

theorem removable_eq_keep {v : View} {all : List Tx} {x : Tx} {s : Nat} (he : x.epoch = v.epoch) (hs : x.sender = s) :
    (!removable v all x) = keepNonce v all s x.nonce := by
  subst hs
  unfold removable keepNonce
  have h1 : decide (x.epoch < v.epoch) = false := by simp; omega
  have h2 : (x.epoch == v.epoch) = true := by simp [he]
  have h3 : (validate v false x == Res.invalidNonce) = (decide (x.nonce ≤ v.nonce x.sender) && decide (v.accEpoch x.sender = v.epoch)) := by
    rw [Bool.eq_iff_iff]
    simp only [beq_iff_eq, Bool.and_eq_true, decide_eq_true_eq]
    exact validate_invalidNonce_iff he
  rw [h1, h2, h3]
  simp

theorem keepNonce_up {v : View} {all : List Tx} {s : Nat} (n n' : Nat) (hk : keepNonce v all s n = false)
    (hn : v.eff s < n) (hle : n ≤ n') : keepNonce v all s n' = false := by
  unfold keepNonce at hk ⊢
  simp only [Bool.not_eq_false', Bool.or_eq_true, Bool.and_eq_true, decide_eq_true_eq, List.any_eq_true] at hk ⊢
  rcases hk with ⟨h1, h2⟩ | ⟨e, hm, hc⟩
  · exfalso
    unfold View.eff at hn
    rw [if_neg (by omega)] at hn
    omega
  · right
    refine ⟨e, hm, ?_⟩
    refine ⟨⟨⟨⟨hc.1.1.1.1, hc.1.1.1.2⟩, ?_⟩, hc.1.2⟩, hc.2⟩
    have := hc.1.1.2
    omega

theorem keepNonce_low {v : View} {all : List Tx} {s : Nat} (hv : ViewOk v) (n : Nat) (hpos : 1 ≤ n) (hn : n ≤ v.eff s) :
    keepNonce v all s n = false := by
  unfold keepNonce
  simp only [Bool.not_eq_false', Bool.or_eq_true, Bool.and_eq_true, decide_eq_true_eq]
  left
  unfold View.eff at hn
  split at hn
  · omega
  · have := hv s
    exact ⟨hn, by omega⟩

theorem jlink_range' (e : Nat) : ∀ (k a : Nat), JLink e a (List.range' (a + 1) k)
  | 0, _ => trivial
  | k + 1, a => by rw [List.range'_succ]; exact ⟨Or.inl rfl, jlink_range' e k (a + 1)⟩

theorem jchain_range' (e k : Nat) : JChain e (List.range' (e + 1) k) := by
  cases k with
  | zero => trivial
  | succ k => rw [List.range'_succ]; exact ⟨Nat.le_refl _, jlink_range' e k (e + 1)⟩

/-- every executable queue is gap-free, continues the committed nonce and lies in the current epoch -/
def ExecConsec (v : View) (p : Pool) : Prop :=
  ∀ s, ((ofSender p.exec s).map (·.nonce)) = List.range' (v.eff s + 1) (ofSender p.exec s).length ∧
    ∀ t ∈ ofSender p.exec s, t.epoch = v.epoch

/-- after the second half of `ResetTo`: gap-free queues continuing the committed nonce -/
theorem execConsec_full {v : View} {p2 : Pool} (hwf2 : WF p2) (hj2 : JInv v p2) (hv : ViewOk v) :
    ExecConsec v ((p2.all.filter (removable v p2.all)).foldl remove p2) := by
  intro s
  rw [foldl_remove_exec hwf2, ofSender_filter]
  have hcongr : (ofSender p2.exec s).filter (fun x => !(p2.all.filter (removable v p2.all)).contains x) =
      (ofSender p2.exec s).filter (fun x => !removable v p2.all x) := by
    apply List.filter_congr
    intro x hx
    have hxa : x ∈ p2.all := (hwf2.mem x).mpr (Or.inl (mem_ofSender.mp hx).1)
    cases hr : removable v p2.all x with
    | true => simp [List.mem_filter, hxa, hr]
    | false => simp [List.mem_filter, hr]
  rw [hcongr]
  have hep : ∀ t ∈ (ofSender p2.exec s).filter (fun x => !removable v p2.all x), t.epoch = v.epoch := by
    intro t ht
    rw [List.mem_filter] at ht
    have h1 := hj2.epochLe t (mem_ofSender.mp ht.1).1
    have h2 : removable v p2.all t = false := by simpa using ht.2
    unfold removable at h2
    simp only [Bool.or_eq_false_iff, decide_eq_false_iff_not] at h2
    omega
  refine ⟨?_, hep⟩
  by_cases hall : ∀ t ∈ ofSender p2.exec s, t.epoch = v.epoch
  · have hK : (ofSender p2.exec s).filter (fun x => !removable v p2.all x) =
        (ofSender p2.exec s).filter ((keepNonce v p2.all s) ∘ (·.nonce)) := by
      apply List.filter_congr
      intro x hx
      exact removable_eq_keep (hall x hx) (mem_ofSender.mp hx).2
    rw [hK, ← List.filter_map]
    have hlen : ((ofSender p2.exec s).filter ((keepNonce v p2.all s) ∘ (·.nonce))).length =
        (((ofSender p2.exec s).map (·.nonce)).filter (keepNonce v p2.all s)).length := by
      rw [List.filter_map, List.length_map]
    rw [hlen]
    apply consec_filter (fun n n' => keepNonce_up n n')
    · intro n hn hle
      obtain ⟨x, hx, rfl⟩ := List.mem_map.mp hn
      exact keepNonce_low hv _ (hj2.pos x (mem_ofSender.mp hx).1) hle
    · exact hj2.chain s hall
    · rw [List.pairwise_map]; exact hwf2.sorted s
  · -- an older queue: everything is removed
    have hnil : (ofSender p2.exec s).filter (fun x => !removable v p2.all x) = [] := by
      rw [List.filter_eq_nil_iff]
      intro x hx hk
      apply hall
      intro t ht
      have := hep x (List.mem_filter.mpr ⟨hx, hk⟩)
      rw [← this]; exact hwf2.oneEpoch s t ht x hx
    rw [hnil]; simp

theorem jinv_of_execConsec {v : View} {p : Pool} (h : ExecConsec v p) (hpos : ∀ t ∈ p.exec, 1 ≤ t.nonce) : JInv v p := by
  constructor
  · intro t ht
    exact Nat.le_of_eq ((h t.sender).2 t (mem_ofSender.mpr ⟨ht, rfl⟩))
  · exact hpos
  · intro s _
    rw [(h s).1]; exact jchain_range' _ _

theorem resetHalf_wf {c : Cfg} {v : View} {p : Pool} {block : List Tx} {sord : List Nat} {penum : List Tx → List Tx}
    (hwf : WF p) (hp : SoundEnum penum) : WF (resetHalf c v p block sord penum) :=
  (movePending_spec c v _ sord penum (wf_foldl_remove hwf block) hp).1

/-- `ResetTo` keeps the gap structure when the view follows the chain -/
theorem jinv_resetTo {c : Cfg} {v0 v : View} {p : Pool} {block : List Tx} {sord : List Nat} {penum : List Tx → List Tx}
    (hwf : WF p) (h : JInv v0 p) (hm : Mono v0 v) (hv : ViewOk v) (hb : ∀ t ∈ block, Stale v t) (hp : SoundEnum penum) :
    JInv v (resetTo c v p block sord penum) ∧ (fullReset c v = true → ExecConsec v (resetTo c v p block sord penum)) := by
  have hwf2 := resetHalf_wf (c := c) (v := v) (block := block) (sord := sord) hwf hp
  have hj2 := jinv_resetHalf (c := c) (block := block) (sord := sord) hwf h hm hb hp
  rw [resetTo_eq]
  split
  · have hc := execConsec_full hwf2 hj2 hv
    refine ⟨jinv_of_execConsec hc ?_, fun _ => hc⟩
    intro t ht
    rw [foldl_remove_exec hwf2] at ht
    exact hj2.pos t (List.filter_sublist.subset ht)
  · rename_i hf
    exact ⟨hj2, fun h' => absurd h' hf⟩

end IdenaModel.Mempool
