import IdenaModel.Proofs.LedgerObs
/-! Totals (`total`) after the funds steps; the fee the head view charges is at most the validated one. -/
namespace IdenaModel.Ledger
open State

theorem total_eq_of_funds {s s' : State} (h1 : s'.afunds = s.afunds) (h2 : s'.ifunds = s.ifunds) : total s' = total s := by
  simp [total, h1, h2]

theorem State.Keeps.total {s s' : State} (h : Keeps s s') : total s' = total s := total_eq_of_funds h.afunds h.ifunds

section
variable (s : State) (a : Nat) (x : Int)

theorem total_addBal : total (s.addBal a x) = total s + x := by
  simp only [total, addBal_afunds, addBal_ifunds]
  rw [AMap.sum_upd afVal (by simp [afVal, default])]
  simp only [afVal]; omega

theorem total_addStake : total (s.addStake a x) = total s + x := by
  simp only [total, addStake_afunds, addStake_ifunds]
  rw [AMap.sum_upd ifVal (by simp [ifVal, default])]
  simp only [ifVal]; omega

theorem total_addReplenished : total (s.addReplenished a x) = total s := by
  simp only [total, addReplenished_afunds, addReplenished_ifunds]
  rw [AMap.sum_upd ifVal (by simp [ifVal, default])]
  simp only [ifVal]; omega

theorem total_addLocked : total (s.addLocked a x) = total s := by
  simp only [total, addLocked_afunds, addLocked_ifunds]
  rw [AMap.sum_upd ifVal (by simp [ifVal, default])]
  simp only [ifVal]; omega

theorem total_clearStake : total (s.clearStake a) = total s - s.stake a := by
  unfold clearStake
  simp only [total_addLocked, total_addReplenished, total_addStake, State.stake]
  omega

end

/-- sum of all VM deltas -/
def deltaSum (l : List (Nat × Int)) : Int := l.foldl (fun acc d => acc + d.2) 0

theorem foldl_deltaSum (l : List (Nat × Int)) (z : Int) : l.foldl (fun acc d => acc + d.2) z = z + deltaSum l := by
  unfold deltaSum
  induction l generalizing z with
  | nil => simp
  | cons d t ih => simp only [List.foldl_cons]; rw [ih, ih (0 + d.2)]; omega

theorem total_applyDeltas (s : State) (l : List (Nat × Int)) : total (s.applyDeltas l) = total s + deltaSum l := by
  induction l generalizing s with
  | nil => simp [applyDeltas, deltaSum]
  | cons d t ih =>
    have h1 : (s.applyDeltas (d :: t)) = (s.addBal d.1 d.2).applyDeltas t := rfl
    rw [h1, ih, total_addBal]
    have : deltaSum (d :: t) = (0 + d.2) + deltaSum t := by
      unfold deltaSum; simp only [List.foldl_cons]; exact foldl_deltaSum t _
    omega

theorem total_finish (tx : Tx) (s1 : State) (fee : Int) : total (finish tx s1 fee) = total s1 - fee - tx.tips := by
  have : total (finish tx s1 fee) = total ((s1.addBal tx.sender (-fee)).addBal tx.sender (-tx.tips)) :=
    total_eq_of_funds (finish_afunds tx s1 fee) (by simp)
  rw [this, total_addBal, total_addBal]; omega

/-- the head's validators view charges at most what the checked view validated, provided it is empty
whenever the checked one is (`getTxFee` reads the head state, `blockchain.go:1749`) -/
def HeadOk (s : State) : Prop := s.g.netSize = 0 → s.g.headNetSize = 0

theorem feeRate_head_le {s : State} (h : HeadOk s) (tx : Tx) :
    feeRate s.g.headNetSize s.g.feePerGas tx ≤ feeRate s.g.netSize s.g.feePerGas tx := by
  unfold feeRate
  by_cases hn : s.g.netSize = 0
  · simp [hn, h hn]
  · by_cases hh : s.g.headNetSize = 0
    · simp [hh]
    · simp [hn, hh]

theorem calcFee_head_le {s : State} (h : HeadOk s) (tx : Tx) :
    calcFee s.g.headNetSize s.g.feePerGas tx ≤ calcFee s.g.netSize s.g.feePerGas tx := by
  unfold calcFee
  exact Int.ofNat_le.mpr (Nat.mul_le_mul_right _ (feeRate_head_le h tx))

end IdenaModel.Ledger
