import IdenaModel.Model.Crash
/-!
Helper lemmas for C09 (`Props/C09.lean`): the consistency predicate `WF`, which writes preserve it, how a crash
point splits a write list, `recover` on a consistent store, `EnsureIntegrity`'s search.
-/
namespace IdenaModel.Crash

/-- the store is consistent with head `H`: the head record is `H`, both trees hold version `H.height` with `H`'s
roots, the canonical hash of `H.height` is `H`'s hash (no hole at the head), and the genesis lookup of
`InitializeChain` succeeds -/
structure WF (s : Store) (H : Hdr) : Prop where
  head : s.head = some H
  pos : 1 ≤ H.height
  st : s.st.root H.height = some H.sroot
  idt : s.idt.root H.height = some H.iroot
  canonHead : s.canon H.height = some H.hash
  gen : ∃ g, s.canon 1 = some g ∧ (s.hdrs g).isSome = true

/-- `headerAt` finds `X` for height `t` and the two trees hold version `t` with `X`'s roots -/
structure CanonAt (s : Store) (t : Nat) (X : Hdr) : Prop where
  hdr : headerAt s t = some X
  canon : s.canon t = some X.hash
  height : X.height = t
  st : s.st.root t = some X.sroot
  idt : s.idt.root t = some X.iroot

def rootsMatch (m : Mem) : Prop := m.head.sroot = m.sroot ∧ m.head.iroot = m.iroot

/-- memory of a node freshly started on a consistent store -/
def memOf (s : Store) (H : Hdr) : Mem :=
  { head := H, prelim := s.prelim.isSome, sv := H.height, sroot := H.sroot, iv := H.height, iroot := H.iroot }

/-! ### list plumbing -/

theorem applyAll_append (s : Store) (a b : List W) : applyAll s (a ++ b) = applyAll (applyAll s a) b := by
  simp [applyAll, List.foldl_append]

theorem applyAll_cons (s : Store) (w : W) (ws : List W) : applyAll s (w :: ws) = applyAll (apply s w) ws := rfl

theorem applyAll_nil (s : Store) : applyAll s [] = s := rfl

/-- a predicate preserved by every write of a list holds after any prefix of it -/
theorem applyAll_preserves {P : Store → Prop} {ws : List W}
    (h : ∀ w ∈ ws, ∀ s, P s → P (apply s w)) {s : Store} (hs : P s) : P (applyAll s ws) := by
  induction ws generalizing s with
  | nil => exact hs
  | cons w ws ih =>
    rw [applyAll_cons]
    exact ih (fun w' hw' => h w' (List.mem_cons_of_mem _ hw')) (h w (List.mem_cons_self ..) s hs)

theorem crashAt_preserves {P : Store → Prop} {ws : List W}
    (h : ∀ w ∈ ws, ∀ s, P s → P (apply s w)) {s : Store} (hs : P s) (k : Nat) : P (crashAt k ws s) :=
  applyAll_preserves (fun w hw => h w (List.mem_of_mem_take hw)) hs

/-- a crash point is either inside the first part, or after the middle write inside the rest -/
theorem crashAt_mid (A C : List W) (w : W) (s : Store) (k : Nat) :
    (k ≤ A.length ∧ crashAt k (A ++ w :: C) s = crashAt k A s) ∨
    (A.length < k ∧ crashAt k (A ++ w :: C) s = crashAt (k - A.length - 1) C (apply (applyAll s A) w)) := by
  by_cases hk : k ≤ A.length
  · left
    refine ⟨hk, ?_⟩
    unfold crashAt
    rw [List.take_append_of_le_length hk]
  · right
    have hk' : A.length < k := by omega
    refine ⟨hk', ?_⟩
    unfold crashAt
    rw [List.take_append]
    have h1 : List.take k A = A := List.take_of_length_le (by omega)
    obtain ⟨j, hj⟩ : ∃ j, k - A.length = j + 1 := ⟨k - A.length - 1, by omega⟩
    have h3 : k - A.length - 1 = j := by omega
    rw [h1, h3, hj, List.take_succ_cons, applyAll_append, applyAll_cons]

theorem crashAt_all (ws : List W) (s : Store) : crashAt ws.length ws s = applyAll s ws := by
  simp [crashAt]

theorem crashAt_ge {ws : List W} {k : Nat} (h : ws.length ≤ k) (s : Store) : crashAt k ws s = applyAll s ws := by
  simp [crashAt, List.take_of_length_le h]

/-! ### which writes keep a store consistent with the same head -/

section safe
variable {s : Store} {H : Hdr}

theorem wf_stSave (h : WF s H) {v r : Nat} (hv : v ≠ H.height) : WF (apply s (.stSave v r)) H := by
  refine ⟨h.head, h.pos, ?_, h.idt, h.canonHead, h.gen⟩
  simp [apply, Tree.save, Ne.symm hv, h.st]

theorem wf_idSave (h : WF s H) {v r : Nat} (hv : v ≠ H.height) : WF (apply s (.idSave v r)) H := by
  refine ⟨h.head, h.pos, h.st, ?_, h.canonHead, h.gen⟩
  simp [apply, Tree.save, Ne.symm hv, h.idt]

theorem wf_stDel (h : WF s H) {vs : List Nat} (hv : H.height ∉ vs) : WF (apply s (.stDel vs)) H := by
  refine ⟨h.head, h.pos, ?_, h.idt, h.canonHead, h.gen⟩
  simp [apply, Tree.del, hv, h.st]

theorem wf_idDel (h : WF s H) {vs : List Nat} (hv : H.height ∉ vs) : WF (apply s (.idDel vs)) H := by
  refine ⟨h.head, h.pos, h.st, ?_, h.canonHead, h.gen⟩
  simp [apply, Tree.del, hv, h.idt]

theorem wf_hdr (h : WF s H) (x : Hdr) : WF (apply s (.hdr x)) H := by
  refine ⟨h.head, h.pos, h.st, h.idt, h.canonHead, ?_⟩
  obtain ⟨g, hg, hh⟩ := h.gen
  refine ⟨g, hg, ?_⟩
  simp only [apply, upd]
  split <;> simp_all

theorem wf_canon (h : WF s H) {ht g : Nat} (hne : ht ≠ 1) (hneH : ht ≠ H.height) : WF (apply s (.canon ht g)) H := by
  refine ⟨h.head, h.pos, h.st, h.idt, by simp [apply, upd, Ne.symm hneH, h.canonHead], ?_⟩
  obtain ⟨g', hg, hh⟩ := h.gen
  exact ⟨g', by simp [apply, upd, Ne.symm hne, hg], hh⟩

theorem wf_canonDel (h : WF s H) {ht : Nat} (hne : ht ≠ 1) (hneH : ht ≠ H.height) : WF (apply s (.canonDel ht)) H := by
  refine ⟨h.head, h.pos, h.st, h.idt, by simp [apply, upd, Ne.symm hneH, h.canonHead], ?_⟩
  obtain ⟨g', hg, hh⟩ := h.gen
  exact ⟨g', by simp [apply, upd, Ne.symm hne, hg], hh⟩

theorem wf_hdrDel (h : WF s H) {g : Nat} (hne : s.canon 1 ≠ some g) : WF (apply s (.hdrDel g)) H := by
  refine ⟨h.head, h.pos, h.st, h.idt, h.canonHead, ?_⟩
  obtain ⟨g', hg, hh⟩ := h.gen
  refine ⟨g', hg, ?_⟩
  have : g' ≠ g := fun e => hne (e ▸ hg)
  simp [apply, upd, this, hh]

theorem wf_inert (h : WF s H) {w : W}
    (hw : w = .sec ∨ w = .rmPrelim ∨ (∃ x, w = .prelimHead x) ∨ (∃ c, w = .stage c) ∨ w = .prelimPrefix ∨
      (∃ v r, w = .pidSave v r) ∨ (∃ v r, w = .pstSave v r) ∨ (∃ x, w = .idDiffSet x) ∨ (∃ x, w = .idDiffDel x)) :
    WF (apply s w) H := by
  rcases hw with rfl | rfl | ⟨x, rfl⟩ | ⟨c, rfl⟩ | rfl | ⟨v, r, rfl⟩ | ⟨v, r, rfl⟩ | ⟨x, rfl⟩ | ⟨x, rfl⟩ <;>
    exact ⟨h.head, h.pos, h.st, h.idt, h.canonHead, h.gen⟩

/-- the head pointer alone (ResetTo's `SetHead`): consistent with the new head when both trees hold its version and
the canonical hash of its height is its hash -/
theorem wf_head (h : WF s H) {B : Hdr} (hp : 1 ≤ B.height) (hs : s.st.root B.height = some B.sroot)
    (hi : s.idt.root B.height = some B.iroot) (hc : s.canon B.height = some B.hash) : WF (apply s (.head B)) B :=
  ⟨rfl, hp, hs, hi, hc, h.gen⟩

/-- the head batch of AddBlock (header record + canonical hash + head pointer): consistent with the new head as soon
as both trees hold its version -/
theorem wf_newHead (h : WF s H) {B : Hdr} (hp : 2 ≤ B.height) (hs : s.st.root B.height = some B.sroot)
    (hi : s.idt.root B.height = some B.iroot) : WF (apply s (.newHead B)) B := by
  refine ⟨rfl, by omega, hs, hi, by simp [apply, upd], ?_⟩
  obtain ⟨g, hg, hh⟩ := h.gen
  have : (1 : Nat) ≠ B.height := by omega
  refine ⟨g, by simp [apply, upd, this, hg], ?_⟩
  simp only [apply, upd]
  split <;> simp_all

end safe

/-! ### start-up on a consistent store -/

theorem headerAt_gen {s : Store} {H : Hdr} (h : WF s H) : ∃ x, headerAt s 1 = some x := by
  obtain ⟨g, hg, hh⟩ := h.gen
  unfold headerAt
  rw [hg]
  exact Option.isSome_iff_exists.mp hh

theorem load_pos {t : Tree} {v r : Nat} (hv : 1 ≤ v) (hr : t.root v = some r) : t.load v = some (v, r) := by
  unfold Tree.load
  have : v ≠ 0 := by omega
  simp [this, hr]

theorem healHead_wf {s : Store} {H : Hdr} (h : WF s H) : healHead s H = [] := by
  simp [healHead, h.canonHead]

/-- **no repair needed**: on a consistent store the start-up sequence succeeds, loads the head's versions and
writes nothing -/
theorem recover_of_wf {s : Store} {H : Hdr} (h : WF s H) : recover s = .ok s (memOf s H) [] := by
  obtain ⟨x, hx⟩ := headerAt_gen h
  unfold recover
  simp only [h.head, healHead_wf h, applyAll_nil, hx, loadBoth, load_pos h.pos h.st, load_pos h.pos h.idt]
  simp [ensure, memOf]

/-! ### EnsureIntegrity's search -/

theorem searchDown_found {s : Store} {t : Nat} (ht : 1 ≤ t) (hst : s.st.has t = true) (hid : s.idt.has t = true) :
    ∀ n tries, t ≤ n → n - t < tries →
      (∀ v, t < v → v ≤ n → (s.st.has v && s.idt.has v) = false) → searchDown s n tries = some t := by
  intro n
  induction n with
  | zero => intro tries h1; omega
  | succ n ih =>
    intro tries h1 h2 h3
    cases tries with
    | zero => omega
    | succ tries =>
      unfold searchDown
      by_cases e : t = n + 1
      · subst e; simp [hst, hid]
      · have hlt : t < n + 1 := by omega
        rw [h3 (n + 1) hlt (Nat.le_refl _)]
        simp only [Bool.false_eq_true, if_false]
        exact ih tries (by omega) (by omega) (fun v a b => h3 v a (by omega))

end IdenaModel.Crash
