import IdenaModel.Model.Qualification
/-! Helper lemmas for C17: the answer store as a function of the chain, folds over permutations, the cache. -/
namespace IdenaModel.Qual

/-! ## answer store -/

@[simp] theorem get_init (k : Bool) (a : Nat) : QStore.init.get k a = none := by
  cases k <;> rfl

@[simp] theorem getDb_init (k : Bool) (a : Nat) : QStore.init.getDb k a = none := by
  cases k <;> rfl

theorem get_add (s : QStore) (k : Bool) (a : Nat) (p : Payload) (k' : Bool) (a' : Nat) :
    (s.add k a p).get k' a' = if k' = k ∧ a' = a ∧ s.get k a = none then some p else s.get k' a' := by
  unfold QStore.add
  cases h : s.get k a with
  | some v => simp
  | none =>
    cases k <;> cases k' <;> simp [QStore.get, AMap.set] <;> split <;> simp_all

@[simp] theorem getDb_add (s : QStore) (k : Bool) (a : Nat) (p : Payload) (k' : Bool) (a' : Nat) :
    (s.add k a p).getDb k' a' = s.getDb k' a' := by
  unfold QStore.add; split
  · rfl
  · split <;> rfl

theorem get_remove (s : QStore) (k : Bool) (a : Nat) (k' : Bool) (a' : Nat) :
    (s.remove k a).get k' a' = if k' = k ∧ a' = a then none else s.get k' a' := by
  unfold QStore.remove
  cases h : s.get k a with
  | none =>
    simp only [Option.isNone_none, if_true]
    split
    · next hc => rw [hc.1, hc.2, h]
    · rfl
  | some v =>
    cases k <;> cases k' <;> simp [QStore.get, AMap.set] <;> split <;> simp_all

@[simp] theorem getDb_remove (s : QStore) (k : Bool) (a : Nat) (k' : Bool) (a' : Nat) :
    (s.remove k a).getDb k' a' = s.getDb k' a' := by
  unfold QStore.remove; split
  · rfl
  · split <;> rfl

/-- the flag is only ever cleared together with a write of the whole memory content -/
def Synced (s : QStore) : Prop := s.hasChanges = false → ∀ k a, s.getDb k a = s.get k a

theorem synced_init : Synced QStore.init := by intro _ k a; simp

theorem synced_add {s : QStore} (h : Synced s) (k : Bool) (a : Nat) (p : Payload) : Synced (s.add k a p) := by
  unfold QStore.add
  split
  · exact h
  · split <;> (intro hc; simp at hc)

theorem synced_remove {s : QStore} (h : Synced s) (k : Bool) (a : Nat) : Synced (s.remove k a) := by
  unfold QStore.remove
  split
  · exact h
  · split <;> (intro hc; simp at hc)

theorem persist_spec {s : QStore} (h : Synced s) :
    s.persist.hasChanges = false ∧ (∀ k a, s.persist.get k a = s.get k a) ∧ (∀ k a, s.persist.getDb k a = s.get k a) := by
  unfold QStore.persist
  cases hc : s.hasChanges with
  | false =>
    refine ⟨by simp [hc], fun k a => by simp, fun k a => ?_⟩
    simpa using h hc k a
  | true =>
    refine ⟨by simp, fun k a => ?_, fun k a => ?_⟩ <;> cases k <;> rfl

theorem get_addAll (s : QStore) (txs : List Tx) (k : Bool) (a : Nat) :
    (s.addAll txs).get k a = (s.get k a).or (firstWrite txs k a) := by
  induction txs generalizing s with
  | nil => simp [QStore.addAll, firstWrite]
  | cons t ts ih =>
    have : (s.addAll (t :: ts)) = (s.add t.short t.sender t.payload).addAll ts := rfl
    rw [this, ih, get_add]
    simp only [firstWrite, List.find?_cons]
    by_cases hm : (t.short == k && t.sender == a) = true
    · simp only [Bool.and_eq_true, beq_iff_eq] at hm
      obtain ⟨h1, h2⟩ := hm
      subst h1; subst h2
      cases hg : s.get t.short t.sender <;> simp
    · have hm' : ¬ (k = t.short ∧ a = t.sender ∧ s.get t.short t.sender = none) := by
        intro ⟨h1, h2, _⟩; apply hm; simp [h1, h2]
      simp only [hm', if_false]
      simp only [Bool.not_eq_true] at hm
      simp [hm]

@[simp] theorem getDb_addAll (s : QStore) (txs : List Tx) (k : Bool) (a : Nat) :
    (s.addAll txs).getDb k a = s.getDb k a := by
  induction txs generalizing s with
  | nil => rfl
  | cons t ts ih =>
    have : (s.addAll (t :: ts)) = (s.add t.short t.sender t.payload).addAll ts := rfl
    rw [this, ih, getDb_add]

theorem synced_addAll {s : QStore} (h : Synced s) (txs : List Tx) : Synced (s.addAll txs) := by
  induction txs generalizing s with
  | nil => exact h
  | cons t ts ih => exact ih (synced_add h _ _ _)

theorem firstWrite_append (xs ys : List Tx) (k : Bool) (a : Nat) :
    firstWrite (xs ++ ys) k a = (firstWrite xs k a).or (firstWrite ys k a) := by
  simp only [firstWrite, List.find?_append]
  cases List.find? (fun t => t.short == k && t.sender == a) xs <;> simp

theorem firstWrite_canonical {txs : List Tx} (hc : ∀ t ∈ txs, t.payload.canonical) {k : Bool} {a : Nat} {p : Payload}
    (h : firstWrite txs k a = some p) : p.canonical := by
  simp only [firstWrite, Option.map_eq_some_iff] at h
  obtain ⟨t, ht, rfl⟩ := h
  exact hc t (List.mem_of_find?_eq_some ht)

theorem norm_of_canonical {p : Payload} (h : p.canonical) : p.norm = p := by
  cases p with
  | nil => rfl
  | bytes b => cases b with
    | nil => exact absurd rfl h
    | cons x xs => rfl

/-- the node is between two blocks and holds exactly `f` (in memory and on disk) -/
structure AtBoundary (s : QStore) (f : Bool → Nat → Option Payload) : Prop where
  mem : ∀ k a, s.get k a = f k a
  db : ∀ k a, s.getDb k a = f k a
  clean : s.hasChanges = false

theorem AtBoundary.synced {s : QStore} {f} (h : AtBoundary s f) : Synced s := by
  intro _ k a; rw [h.mem, h.db]

theorem atBoundary_init : AtBoundary QStore.init (fun _ _ => none) := ⟨by simp, by simp, rfl⟩

theorem atBoundary_processBlock {s : QStore} {f} (h : AtBoundary s f) (b : List Tx) :
    AtBoundary (s.processBlock b) (fun k a => (f k a).or (firstWrite b k a)) := by
  have hs := persist_spec (synced_addAll h.synced b)
  refine ⟨?_, ?_, hs.1⟩
  · intro k a; show (s.addAll b).persist.get k a = _; rw [hs.2.1, get_addAll, h.mem]
  · intro k a; show (s.addAll b).persist.getDb k a = _; rw [hs.2.2, get_addAll, h.mem]

theorem get_restart (s : QStore) (k : Bool) (a : Nat) : s.restart.get k a = (s.getDb k a).map Payload.norm := by
  cases k <;> simp [QStore.restart, QStore.fresh, QStore.restore, QStore.get, QStore.getDb, AMap.restoreFrom, AMap.empty] <;>
    split <;> simp_all

@[simp] theorem getDb_restart (s : QStore) (k : Bool) (a : Nat) : s.restart.getDb k a = s.getDb k a := by
  cases k <;> rfl

/-- a crash at any point of a block followed by a restart brings the node back to the last block boundary -/
theorem atBoundary_crash_restart {s : QStore} {f} (h : AtBoundary s f)
    (hcan : ∀ k a p, f k a = some p → p.canonical) (txs : List Tx) :
    AtBoundary (s.addAll txs).restart f := by
  refine ⟨?_, ?_, rfl⟩
  · intro k a
    rw [get_restart, getDb_addAll, h.db]
    cases hf : f k a with
    | none => rfl
    | some p => simp [norm_of_canonical (hcan k a p hf)]
  · intro k a; rw [getDb_restart, getDb_addAll, h.db]

theorem or_or_self (x y : Option Payload) : (x.or y).or y = x.or y := by
  cases x <;> cases y <;> rfl

theorem canonical_or {f : Bool → Nat → Option Payload} {b : List Tx}
    (hf : ∀ k a p, f k a = some p → p.canonical) (hb : ∀ t ∈ b, t.payload.canonical) :
    ∀ k a p, (f k a).or (firstWrite b k a) = some p → p.canonical := by
  intro k a p h
  cases hfa : f k a with
  | some q => rw [hfa] at h; simp at h; subst h; exact hf k a q hfa
  | none => rw [hfa] at h; simp at h; exact firstWrite_canonical hb h

theorem atBoundary_runBlock {s : QStore} {f} (h : AtBoundary s f)
    (hcan : ∀ k a p, f k a = some p → p.canonical) (b : List Tx) (hb : ∀ t ∈ b, t.payload.canonical)
    (sch : BlockSched) :
    AtBoundary (s.runBlock b sch) (fun k a => (f k a).or (firstWrite b k a)) := by
  have h1 : ∀ (ks : List Nat) (s : QStore), AtBoundary s f →
      AtBoundary (ks.foldl (fun s k => (s.addAll (b.take k)).restart) s) f := by
    intro ks
    induction ks with
    | nil => intro s hs; exact hs
    | cons k ks ih => intro s hs; exact ih _ (atBoundary_crash_restart hs hcan _)
  have hcan' := canonical_or hcan hb
  have h3 : ∀ (n : Nat) (s2 : QStore), AtBoundary s2 (fun k a => (f k a).or (firstWrite b k a)) →
      AtBoundary (repeatN (fun s => s.restart.processBlock b) n s2) (fun k a => (f k a).or (firstWrite b k a)) := by
    intro n
    induction n with
    | zero => intro s2 h2; exact h2
    | succ n ih =>
      intro s2 h2
      apply ih
      have h4 : AtBoundary (s2.restart.processBlock b) _ :=
        atBoundary_processBlock (atBoundary_crash_restart h2 hcan' []) b
      refine ⟨?_, ?_, h4.clean⟩
      · intro k a; show (s2.restart.processBlock b).get k a = _; rw [h4.mem]; exact or_or_self _ _
      · intro k a; show (s2.restart.processBlock b).getDb k a = _; rw [h4.db]; exact or_or_self _ _
  exact h3 _ _ (atBoundary_processBlock (h1 sch.crashes s h) b)

theorem atBoundary_runChain (chain : List (List Tx)) (scheds : List BlockSched) {s : QStore} {P : List Tx}
    (h : AtBoundary s (firstWrite P)) (hP : ∀ t ∈ P, t.payload.canonical)
    (hc : ∀ b ∈ chain, ∀ t ∈ b, t.payload.canonical) :
    AtBoundary (s.runChain chain scheds) (firstWrite (P ++ chain.flatten)) := by
  induction chain generalizing s P scheds with
  | nil => simpa [QStore.runChain] using h
  | cons b bs ih =>
    have hb : ∀ t ∈ b, t.payload.canonical := hc b (List.mem_cons_self ..)
    have hbs : ∀ b' ∈ bs, ∀ t ∈ b', t.payload.canonical := fun b' hb' => hc b' (List.mem_cons_of_mem _ hb')
    have hPb : ∀ t ∈ P ++ b, t.payload.canonical := by
      intro t ht; rcases List.mem_append.mp ht with h' | h'
      · exact hP t h'
      · exact hb t h'
    have hfw : (fun k a => (firstWrite P k a).or (firstWrite b k a)) = firstWrite (P ++ b) := by
      funext k a; rw [firstWrite_append]
    cases scheds with
    | nil =>
      have h1 := atBoundary_processBlock h b
      rw [hfw] at h1
      have := ih [] h1 hPb hbs
      simpa [QStore.runChain, List.append_assoc] using this
    | cons sch schs =>
      have h1 := atBoundary_runBlock h (fun k a p hp => firstWrite_canonical hP hp) b hb sch
      rw [hfw] at h1
      have := ih schs h1 hPb hbs
      simpa [QStore.runChain, List.append_assoc] using this

/-- without restarts nothing depends on the payload representation -/
theorem get_runChain_noRestart (chain : List (List Tx)) {s : QStore} {f : Bool → Nat → Option Payload}
    (hs : Synced s) (hm : ∀ k a, s.get k a = f k a) :
    Synced (s.runChain chain []) ∧ ∀ k a, (s.runChain chain []).get k a = (f k a).or (firstWrite chain.flatten k a) := by
  induction chain generalizing s f with
  | nil => exact ⟨hs, by intro k a; simp [QStore.runChain, firstWrite, hm]⟩
  | cons b bs ih =>
    have hp := persist_spec (synced_addAll hs b)
    have hs' : Synced (s.processBlock b) := by
      intro _ k a; show (s.addAll b).persist.getDb k a = (s.addAll b).persist.get k a; rw [hp.2.1, hp.2.2]
    have hm' : ∀ k a, (s.processBlock b).get k a = (f k a).or (firstWrite b k a) := by
      intro k a; show (s.addAll b).persist.get k a = _; rw [hp.2.1, get_addAll, hm]
    have := ih hs' hm'
    refine ⟨this.1, ?_⟩
    intro k a
    have h2 := this.2 k a
    simp only [QStore.runChain, List.flatten_cons]
    rw [h2, firstWrite_append]
    cases f k a <;> cases firstWrite b k a <;> rfl

/-! ### the same, up to the protobuf normalisation (no assumption on payloads) -/

def nrm (x : Option Payload) : Option Payload := x.map Payload.norm

theorem norm_idem (p : Payload) : p.norm.norm = p.norm := by
  cases p with
  | nil => rfl
  | bytes b => cases b <;> rfl

theorem nrm_idem (x : Option Payload) : nrm (nrm x) = nrm x := by
  cases x <;> simp [nrm, norm_idem]

theorem nrm_or (x y : Option Payload) : nrm (x.or y) = (nrm x).or (nrm y) := by
  cases x <;> cases y <;> rfl

theorem viewOf_nrm (x : Option Payload) : viewOf (nrm x) = viewOf x := by
  cases x with
  | none => rfl
  | some p => cases p with
    | nil => rfl
    | bytes b => cases b <;> rfl

theorem viewOf_congr {x y : Option Payload} (h : nrm x = nrm y) : viewOf x = viewOf y := by
  rw [← viewOf_nrm x, ← viewOf_nrm y, h]

def SyncedN (s : QStore) : Prop := s.hasChanges = false → ∀ k a, nrm (s.getDb k a) = nrm (s.get k a)

theorem syncedN_init : SyncedN QStore.init := by intro _ k a; simp

theorem syncedN_add {s : QStore} (h : SyncedN s) (k : Bool) (a : Nat) (p : Payload) : SyncedN (s.add k a p) := by
  unfold QStore.add
  split
  · exact h
  · split <;> (intro hc; simp at hc)

theorem syncedN_remove {s : QStore} (h : SyncedN s) (k : Bool) (a : Nat) : SyncedN (s.remove k a) := by
  unfold QStore.remove
  split
  · exact h
  · split <;> (intro hc; simp at hc)

theorem syncedN_addAll {s : QStore} (h : SyncedN s) (txs : List Tx) : SyncedN (s.addAll txs) := by
  induction txs generalizing s with
  | nil => exact h
  | cons t ts ih => exact ih (syncedN_add h _ _ _)

theorem syncedN_removeAll {s : QStore} (h : SyncedN s) (txs : List Tx) :
    SyncedN (txs.foldl (fun s t => s.remove t.short t.sender) s) := by
  induction txs generalizing s with
  | nil => exact h
  | cons t ts ih => exact ih (syncedN_remove h _ _)

theorem persist_specN {s : QStore} (h : SyncedN s) :
    s.persist.hasChanges = false ∧ (∀ k a, s.persist.get k a = s.get k a) ∧
      (∀ k a, nrm (s.persist.getDb k a) = nrm (s.get k a)) := by
  unfold QStore.persist
  cases hc : s.hasChanges with
  | false =>
    refine ⟨by simp [hc], fun k a => by simp, fun k a => ?_⟩
    simpa using h hc k a
  | true =>
    refine ⟨by simp, fun k a => ?_, fun k a => ?_⟩ <;> cases k <;> rfl

/-- between two blocks the node holds `f` up to normalisation, in memory and on disk -/
structure AtBoundaryN (s : QStore) (f : Bool → Nat → Option Payload) : Prop where
  mem : ∀ k a, nrm (s.get k a) = nrm (f k a)
  db : ∀ k a, nrm (s.getDb k a) = nrm (f k a)
  clean : s.hasChanges = false

theorem AtBoundary.toN {s : QStore} {f} (h : AtBoundary s f) : AtBoundaryN s f :=
  ⟨fun k a => by rw [h.mem], fun k a => by rw [h.db], h.clean⟩

theorem AtBoundaryN.synced {s : QStore} {f} (h : AtBoundaryN s f) : SyncedN s := by
  intro _ k a; rw [h.mem, h.db]

theorem atBoundaryN_processBlock {s : QStore} {f} (h : AtBoundaryN s f) (b : List Tx) :
    AtBoundaryN (s.processBlock b) (fun k a => (f k a).or (firstWrite b k a)) := by
  have hs := persist_specN (syncedN_addAll h.synced b)
  refine ⟨?_, ?_, hs.1⟩
  · intro k a; show nrm ((s.addAll b).persist.get k a) = _
    rw [hs.2.1, get_addAll, nrm_or, nrm_or, h.mem]
  · intro k a; show nrm ((s.addAll b).persist.getDb k a) = _
    rw [hs.2.2, get_addAll, nrm_or, nrm_or, h.mem]

theorem atBoundaryN_crash_restart {s : QStore} {f} (h : AtBoundaryN s f) (txs : List Tx) :
    AtBoundaryN (s.addAll txs).restart f := by
  refine ⟨?_, ?_, rfl⟩
  · intro k a
    rw [get_restart, getDb_addAll]
    show nrm (nrm (s.getDb k a)) = _
    rw [nrm_idem, h.db]
  · intro k a; rw [getDb_restart, getDb_addAll, h.db]

theorem atBoundaryN_runBlock {s : QStore} {f} (h : AtBoundaryN s f) (b : List Tx) (sch : BlockSched) :
    AtBoundaryN (s.runBlock b sch) (fun k a => (f k a).or (firstWrite b k a)) := by
  have h1 : ∀ (ks : List Nat) (s : QStore), AtBoundaryN s f →
      AtBoundaryN (ks.foldl (fun s k => (s.addAll (b.take k)).restart) s) f := by
    intro ks
    induction ks with
    | nil => intro s hs; exact hs
    | cons k ks ih => intro s hs; exact ih _ (atBoundaryN_crash_restart hs _)
  have h3 : ∀ (n : Nat) (s2 : QStore), AtBoundaryN s2 (fun k a => (f k a).or (firstWrite b k a)) →
      AtBoundaryN (repeatN (fun s => s.restart.processBlock b) n s2) (fun k a => (f k a).or (firstWrite b k a)) := by
    intro n
    induction n with
    | zero => intro s2 h2; exact h2
    | succ n ih =>
      intro s2 h2
      apply ih
      have h4 : AtBoundaryN (s2.restart.processBlock b) _ :=
        atBoundaryN_processBlock (atBoundaryN_crash_restart h2 []) b
      refine ⟨?_, ?_, h4.clean⟩
      · intro k a; show nrm ((s2.restart.processBlock b).get k a) = _; rw [h4.mem, or_or_self]
      · intro k a; show nrm ((s2.restart.processBlock b).getDb k a) = _; rw [h4.db, or_or_self]
  exact h3 _ _ (atBoundaryN_processBlock (h1 sch.crashes s h) b)

theorem atBoundaryN_runChain (chain : List (List Tx)) (scheds : List BlockSched) {s : QStore} {P : List Tx}
    (h : AtBoundaryN s (firstWrite P)) :
    AtBoundaryN (s.runChain chain scheds) (firstWrite (P ++ chain.flatten)) := by
  induction chain generalizing s P scheds with
  | nil => simpa [QStore.runChain] using h
  | cons b bs ih =>
    have hfw : (fun k a => (firstWrite P k a).or (firstWrite b k a)) = firstWrite (P ++ b) := by
      funext k a; rw [firstWrite_append]
    cases scheds with
    | nil =>
      have h1 := atBoundaryN_processBlock h b
      rw [hfw] at h1
      simpa [QStore.runChain, List.append_assoc] using ih [] h1
    | cons sch schs =>
      have h1 := atBoundaryN_runBlock h b sch
      rw [hfw] at h1
      simpa [QStore.runChain, List.append_assoc] using ih schs h1

/-! ### reorganisation -/

theorem get_removeAll (s : QStore) (txs : List Tx) (k : Bool) (a : Nat) :
    (txs.foldl (fun s t => s.remove t.short t.sender) s).get k a =
      if (txs.any fun t => t.short == k && t.sender == a) then none else s.get k a := by
  induction txs generalizing s with
  | nil => simp
  | cons t ts ih =>
    simp only [List.foldl_cons, List.any_cons]
    rw [ih, get_remove]
    by_cases h1 : (ts.any fun t => t.short == k && t.sender == a) = true
    · simp [h1]
    · simp only [Bool.not_eq_true] at h1
      simp only [h1, Bool.or_false]
      by_cases h2 : (t.short == k && t.sender == a) = true
      · simp only [Bool.and_eq_true, beq_iff_eq] at h2
        simp [h2.1, h2.2]
      · have : ¬ (k = t.short ∧ a = t.sender) := by
          intro ⟨x, y⟩; apply h2; simp [x, y]
        simp only [Bool.not_eq_true] at h2
        simp [h2, this]

theorem synced_removeAll {s : QStore} (h : Synced s) (txs : List Tx) :
    Synced (txs.foldl (fun s t => s.remove t.short t.sender) s) := by
  induction txs generalizing s with
  | nil => exact h
  | cons t ts ih => exact ih (synced_remove h _ _)

theorem firstWrite_eq_none_iff (txs : List Tx) (k : Bool) (a : Nat) :
    firstWrite txs k a = none ↔ (txs.any fun t => t.short == k && t.sender == a) = false := by
  simp [firstWrite, List.find?_eq_none]

/-- removing the senders of the reverted transactions from the first writes of `P ++ S` leaves the first writes of
`P`, when no sender has two transactions of a kind -/
theorem firstWrite_revert (P S : List Tx) (hnd : ((P ++ S).map fun t => (t.short, t.sender)).Nodup) (k : Bool) (a : Nat) :
    (if (S.any fun t => t.short == k && t.sender == a) then none else firstWrite (P ++ S) k a) = firstWrite P k a := by
  rw [firstWrite_append]
  by_cases hS : (S.any fun t => t.short == k && t.sender == a) = true
  · simp only [hS, if_true]
    symm
    rw [firstWrite_eq_none_iff]
    cases hP : (P.any fun t => t.short == k && t.sender == a) with
    | false => rfl
    | true =>
      exfalso
      simp only [List.any_eq_true, Bool.and_eq_true, beq_iff_eq] at hS hP
      obtain ⟨t, ht, h1, h2⟩ := hS
      obtain ⟨u, hu, h3, h4⟩ := hP
      rw [List.map_append, List.nodup_append] at hnd
      exact hnd.2.2 (u.short, u.sender) (List.mem_map.mpr ⟨u, hu, rfl⟩) (t.short, t.sender)
        (List.mem_map.mpr ⟨t, ht, rfl⟩) (by rw [h1, h2, h3, h4])
  · simp only [Bool.not_eq_true] at hS
    simp only [hS, Bool.false_eq_true, if_false]
    rw [(firstWrite_eq_none_iff S k a).mpr hS]
    cases firstWrite P k a <;> rfl

/-! ## cache -/

theorem length_insertByAddr (x : Nat × CacheValue) (l : List (Nat × CacheValue)) :
    (insertByAddr x l).length = l.length + 1 := by
  induction l with
  | nil => rfl
  | cons y ys ih => simp only [insertByAddr]; split <;> simp [ih]

theorem length_sortByAddr (l : List (Nat × CacheValue)) : (sortByAddr l).length = l.length := by
  induction l with
  | nil => rfl
  | cons x xs ih => simp [sortByAddr, length_insertByAddr, ih]

theorem validatedCount_append (a b : List (Nat × CacheValue)) :
    validatedCount (a ++ b) = validatedCount a + validatedCount b := by
  simp [validatedCount, List.filter_append]

theorem validatedCount_pos_ne_nil {l : List (Nat × CacheValue)} (h : validatedCount l ≠ 0) : l ≠ [] := by
  intro hl; subst hl; exact h rfl

theorem cacheLookup_cons_filter (cache : List (Nat × CacheEntry)) (h : Nat) (e : CacheEntry) :
    cacheLookup ((h, e) :: cache.filter (fun x => x.1 != h)) h = some e := by
  simp [cacheLookup]

theorem cacheLookup_cons_filter_ne (cache : List (Nat × CacheEntry)) (h h' : Nat) (e : CacheEntry) (hne : h' ≠ h) :
    cacheLookup ((h, e) :: cache.filter (fun x => x.1 != h)) h' = cacheLookup cache h' := by
  have h1 : (h == h') = false := by simp; exact fun x => hne x.symm
  simp only [cacheLookup, List.find?_cons, h1]
  congr 1
  induction cache with
  | nil => rfl
  | cons c cs ih =>
    simp only [List.filter_cons]
    by_cases hc : c.1 = h
    · have : (c.1 == h') = false := by simp [hc]; exact fun x => hne x.symm
      simp only [hc, bne_self_eq_false, Bool.false_eq_true, if_false, List.find?_cons]
      rw [hc] at this
      rw [this]; exact ih
    · have : (c.1 != h) = true := by simp [hc]
      simp only [this, if_true, List.find?_cons]
      split
      · rfl
      · exact ih

end IdenaModel.Qual
