import IdenaModel.Model.Determinism
/-! Lemmas for C01 (M-Determinism): order-independence of the sorted-before-use idioms, of per-key / commutative
map loops, the reward cap, the weekday arithmetic. Core Lean only. -/
namespace IdenaModel.Determinism

/-! ### ascending sorted insertion (`addStaker`, `addAuthor`, `addInviter`, `sortAddresses`) -/

theorem insertAsc_comm (a b : Nat) (l : List Nat) :
    insertAsc a (insertAsc b l) = insertAsc b (insertAsc a l) := by
  induction l with
  | nil =>
    by_cases h1 : a < b <;> by_cases h2 : b < a <;> simp [insertAsc, h1, h2] <;> omega
  | cons c cs ih =>
    by_cases h1 : a < c <;> by_cases h2 : b < c <;> by_cases h3 : a < b <;> by_cases h4 : b < a <;>
      simp [insertAsc, h1, h2, h3, h4, ih] <;> omega

theorem perm_insertAsc (a : Nat) (l : List Nat) : (insertAsc a l).Perm (a :: l) := by
  induction l with
  | nil => simp [insertAsc]
  | cons b bs ih =>
    unfold insertAsc
    split
    · exact List.Perm.refl _
    · exact (List.Perm.cons b ih).trans (List.Perm.swap a b bs)

abbrev SAsc : List Nat → Prop := List.Pairwise (· ≤ ·)

theorem sasc_insertAsc (a : Nat) (l : List Nat) (h : SAsc l) : SAsc (insertAsc a l) := by
  induction l with
  | nil => simp [insertAsc, SAsc]
  | cons b bs ih =>
    have hb := List.pairwise_cons.mp h
    unfold insertAsc
    split
    · rename_i hlt
      refine List.pairwise_cons.mpr ⟨?_, h⟩
      intro x hx
      rcases List.mem_cons.mp hx with rfl | hx
      · omega
      · have := hb.1 x hx; omega
    · rename_i hge
      refine List.pairwise_cons.mpr ⟨?_, ih hb.2⟩
      intro x hx
      rcases List.mem_cons.mp ((perm_insertAsc a bs).mem_iff.mp hx) with rfl | hx
      · omega
      · exact hb.1 x hx

theorem foldl_insertAsc (l acc : List Nat) (h : SAsc acc) :
    SAsc (l.foldl (fun acc a => insertAsc a acc) acc) ∧
    (l.foldl (fun acc a => insertAsc a acc) acc).Perm (l ++ acc) := by
  induction l generalizing acc with
  | nil => exact ⟨h, List.Perm.refl _⟩
  | cons a as ih =>
    have := ih (insertAsc a acc) (sasc_insertAsc a acc h)
    refine ⟨this.1, this.2.trans ?_⟩
    have h1 : (as ++ insertAsc a acc).Perm (as ++ a :: acc) := List.Perm.append_left as (perm_insertAsc a acc)
    exact h1.trans (by simp)

/-- the loop really sorts: its result is ascending … -/
theorem sasc_isort (l : List Nat) : SAsc (isort l) := (foldl_insertAsc l [] List.Pairwise.nil).1
/-- … and a rearrangement of what was enumerated -/
theorem perm_isort (l : List Nat) : (isort l).Perm l := by
  simpa [isort] using (foldl_insertAsc l [] List.Pairwise.nil).2

/-- **The sorted-insertion loop does not depend on the enumeration order** (any lists, duplicates allowed). -/
theorem isort_perm {l₁ l₂ : List Nat} (h : l₁.Perm l₂) : isort l₁ = isort l₂ := by
  unfold isort
  exact h.foldl_eq' (fun x _ y _ z => insertAsc_comm y x z) []

/-- two ascending lists with the same elements (as multisets) are equal -/
theorem sasc_perm_eq : ∀ (l₁ l₂ : List Nat), SAsc l₁ → SAsc l₂ → l₁.Perm l₂ → l₁ = l₂
  | [], l₂, _, _, h => (List.Perm.nil_eq h)
  | a :: as, [], _, _, h => by have := h.length_eq; simp at this
  | a :: as, b :: bs, h1, h2, h => by
    have ha := List.pairwise_cons.mp h1
    have hb := List.pairwise_cons.mp h2
    have hab : a = b := by
      have h1' : a ∈ b :: bs := h.mem_iff.mp (by simp)
      have h2' : b ∈ a :: as := h.mem_iff.mpr (by simp)
      rcases List.mem_cons.mp h1' with e | e
      · exact e
      · rcases List.mem_cons.mp h2' with e' | e'
        · exact e'.symm
        · have := hb.1 a e; have := ha.1 b e'; omega
    subst hab
    congr 1
    exact sasc_perm_eq as bs ha.2 hb.2 (List.Perm.cons_inv h)

/-- Whatever correct sorting routine the code uses (`sort.Strings`, `sort.Slice` with a total order, the
`sort.Search` insertion loop): an ascending rearrangement of the enumeration is *the* list `isort enum`. -/
theorem isort_unique {l l' : List Nat} (hs : SAsc l') (hp : l'.Perm l) : l' = isort l :=
  sasc_perm_eq _ _ hs (sasc_isort l) (hp.trans (perm_isort l).symm)

/-! ### descending insertion with duplicate suppression (`sortedAddresses.add`, `getOrderedObjectsKeys`) -/

abbrev SDesc : List Nat → Prop := List.Pairwise (· > ·)

theorem mem_insertDesc (a x : Nat) (l : List Nat) : x ∈ insertDesc a l ↔ x = a ∨ x ∈ l := by
  induction l with
  | nil => simp [insertDesc]
  | cons b bs ih =>
    unfold insertDesc
    split
    · simp
    · split
      · rename_i h1 h2; subst h2; simp
      · simp [ih]; constructor <;> (intro h; rcases h with h | h | h <;> simp [h])

theorem sdesc_insertDesc (a : Nat) (l : List Nat) (h : SDesc l) : SDesc (insertDesc a l) := by
  induction l with
  | nil => simp [insertDesc, SDesc]
  | cons b bs ih =>
    unfold insertDesc
    have hb := List.pairwise_cons.mp h
    split
    · rename_i hlt
      refine List.pairwise_cons.mpr ⟨?_, h⟩
      intro x hx
      rcases List.mem_cons.mp hx with rfl | hx
      · exact hlt
      · have := hb.1 x hx; omega
    · split
      · exact h
      · rename_i h1 h2
        refine List.pairwise_cons.mpr ⟨?_, ih hb.2⟩
        intro x hx
        rcases (mem_insertDesc a x bs).mp hx with rfl | hx
        · omega
        · exact hb.1 x hx

/-- two strictly descending lists with the same members are equal -/
theorem sdesc_ext : ∀ (l₁ l₂ : List Nat), SDesc l₁ → SDesc l₂ → (∀ x, x ∈ l₁ ↔ x ∈ l₂) → l₁ = l₂
  | [], [], _, _, _ => rfl
  | [], b :: _, _, _, h => by have := (h b).mpr (by simp); simp at this
  | a :: _, [], _, _, h => by have := (h a).mp (by simp); simp at this
  | a :: as, b :: bs, h1, h2, h => by
    have ha := List.pairwise_cons.mp h1
    have hb := List.pairwise_cons.mp h2
    have hab : a = b := by
      have h1' := (h a).mp (by simp)
      have h2' := (h b).mpr (by simp)
      rcases List.mem_cons.mp h1' with e | e
      · exact e
      · rcases List.mem_cons.mp h2' with e' | e'
        · exact e'.symm
        · have := hb.1 a e; have := ha.1 b e'; omega
    subst hab
    congr 1
    apply sdesc_ext as bs ha.2 hb.2
    intro x
    constructor
    · intro hx
      have := (h x).mp (List.mem_cons_of_mem _ hx)
      rcases List.mem_cons.mp this with e | e
      · subst e; have := ha.1 x hx; omega
      · exact e
    · intro hx
      have := (h x).mpr (List.mem_cons_of_mem _ hx)
      rcases List.mem_cons.mp this with e | e
      · subst e; have := hb.1 x hx; omega
      · exact e

theorem foldl_insertDesc (l acc : List Nat) (h : SDesc acc) :
    SDesc (l.foldl (fun acc a => insertDesc a acc) acc) ∧
    ∀ x, x ∈ l.foldl (fun acc a => insertDesc a acc) acc ↔ x ∈ l ∨ x ∈ acc := by
  induction l generalizing acc with
  | nil => simp [h]
  | cons a as ih =>
    have := ih (insertDesc a acc) (sdesc_insertDesc a acc h)
    refine ⟨this.1, ?_⟩
    intro x
    rw [List.foldl_cons, this.2 x, mem_insertDesc]
    simp only [List.mem_cons]
    grind

theorem sdesc_isortDesc (l : List Nat) : SDesc (isortDesc l) := (foldl_insertDesc l [] List.Pairwise.nil).1
theorem mem_isortDesc (l : List Nat) (x : Nat) : x ∈ isortDesc l ↔ x ∈ l := by
  have := (foldl_insertDesc l [] List.Pairwise.nil).2 x
  simpa [isortDesc] using this

/-- the descending, duplicate-free list depends only on the *set* that was enumerated -/
theorem isortDesc_ext {l₁ l₂ : List Nat} (h : ∀ x, x ∈ l₁ ↔ x ∈ l₂) : isortDesc l₁ = isortDesc l₂ := by
  apply sdesc_ext _ _ (sdesc_isortDesc l₁) (sdesc_isortDesc l₂)
  intro x
  rw [mem_isortDesc, mem_isortDesc]; exact h x

theorem isortDesc_perm {l₁ l₂ : List Nat} (h : l₁.Perm l₂) : isortDesc l₁ = isortDesc l₂ :=
  isortDesc_ext (fun _ => h.mem_iff)

/-- what `sort.Slice(keys, bytes.Compare(..) == 1)` returns on the keys of a map (distinct): a strictly descending
rearrangement — and there is only one. -/
theorem isortDesc_unique {l l' : List Nat} (hs : SDesc l') (hp : l'.Perm l) : l' = isortDesc l := by
  apply sdesc_ext _ _ hs (sdesc_isortDesc l)
  intro x
  rw [mem_isortDesc]; exact hp.mem_iff

/-! ### commutative map loops -/

/-- folds of pairwise commuting updates do not depend on the order -/
theorem foldl_perm_of_comm {σ α : Type} (f : σ → α → σ) {l₁ l₂ : List α} (h : l₁.Perm l₂)
    (comm : ∀ x ∈ l₁, ∀ y ∈ l₁, ∀ s, f (f s x) y = f (f s y) x) (s : σ) :
    l₁.foldl f s = l₂.foldl f s := h.foldl_eq' comm s

theorem eq_of_fst_eq_of_nodup {V : Type} {l : List (Nat × V)} (hn : (l.map (·.1)).Nodup)
    {x y : Nat × V} (hx : x ∈ l) (hy : y ∈ l) (h : x.1 = y.1) : x = y := by
  induction l with
  | nil => simp at hx
  | cons a t ih =>
    simp only [List.map_cons, List.nodup_cons, List.mem_map, not_exists, not_and] at hn
    rcases List.mem_cons.mp hx with rfl | hx' <;> rcases List.mem_cons.mp hy with rfl | hy'
    · rfl
    · exact absurd h.symm (hn.1 y hy')
    · exact absurd h (hn.1 x hx')
    · exact ih hn.2 hx' hy'

theorem addKV_comm (s : Nat → Int) (x y : Nat × Int) : addKV (addKV s x) y = addKV (addKV s y) x := by
  funext k
  simp only [addKV]
  split <;> split <;> omega

theorem delK_comm {V : Type} (s : Nat → Option V) (x y : Nat) : delK (delK s x) y = delK (delK s y) x := by
  funext k
  simp only [delK]
  split <;> split <;> rfl

/-! ### reward cap -/

theorem foldl_add_init (l : List Nat) (a : Nat) : l.foldl (· + ·) a = a + l.foldl (· + ·) 0 := by
  induction l generalizing a with
  | nil => simp
  | cons b bs ih => simp only [List.foldl_cons]; rw [ih (a + b), ih (0 + b)]; omega

theorem payCommittee_inv (wanted : List Nat) (pool : Nat) :
    (payCommittee wanted pool).1.foldl (· + ·) 0 + (payCommittee wanted pool).2 = pool := by
  induction wanted generalizing pool with
  | nil => simp [payCommittee]
  | cons w ws ih =>
    by_cases hw : w > pool
    · have h := ih (pool - pool)
      simp only [payCommittee, hw, if_true, List.foldl_cons]
      rw [foldl_add_init]
      omega
    · have h := ih (pool - w)
      simp only [payCommittee, hw, if_false, List.foldl_cons]
      rw [foldl_add_init]
      omega

/-! ### weekday -/

theorem weekday_range (ts off : Int) : 0 ≤ weekday ts off ∧ weekday ts off < 7 := by
  unfold weekday
  constructor
  · exact Int.emod_nonneg _ (by decide)
  · exact Int.emod_lt_of_pos _ (by decide)

end IdenaModel.Determinism
