import IdenaModel.Proofs.LedgerEffect
/-!
Structure of `applyTx` (`applyTx_ok`), the common suffix `finish`, `firstFail`, and what a successful
`validateTx` guarantees (`CommonOk`).
-/
namespace IdenaModel.Ledger
open State

/-! ### `firstFail` -/
@[simp] theorem firstFail_nil : firstFail [] = .ok := rfl
@[simp] theorem firstFail_chk (c e t) : firstFail (.chk c e :: t) = .ok ↔ c = false ∧ firstFail t = .ok := by
  cases c <;> simp [firstFail]
@[simp] theorem firstFail_deref (n t) : firstFail (.deref n :: t) = .ok ↔ n = false ∧ firstFail t = .ok := by
  cases n <;> simp [firstFail]
@[simp] theorem firstFail_accept (c t) : firstFail (.accept c :: t) = .ok ↔ c = true ∨ firstFail t = .ok := by
  cases c <;> simp [firstFail]

/-- no clause dereferences a pointer -/
def noDeref : List Clause → Bool
  | [] => true
  | .deref _ :: _ => false
  | _ :: t => noDeref t

theorem firstFail_ne_panic_of_noDeref : ∀ l, noDeref l = true → firstFail l ≠ .panic
  | [], _ => by simp [firstFail]
  | .chk c e :: t, h => by
    cases c
    · simpa [firstFail] using firstFail_ne_panic_of_noDeref t (by simpa [noDeref] using h)
    · simp [firstFail]
  | .accept c :: t, h => by
    cases c
    · simpa [firstFail] using firstFail_ne_panic_of_noDeref t (by simpa [noDeref] using h)
    · simp [firstFail]
  | .deref n :: t, h => by simp [noDeref] at h

theorem firstFail_append_panic (l1 l2 : List Clause) (h : firstFail (l1 ++ l2) = .panic) :
    firstFail l1 = .panic ∨ firstFail l2 = .panic := by
  induction l1 with
  | nil => right; simpa using h
  | cons cl t ih =>
    cases cl with
    | chk c e => cases c <;> simp_all [firstFail]
    | deref n => cases n <;> simp_all [firstFail]
    | accept c => cases c <;> simp_all [firstFail]

/-! ### what the common prefix of `ValidateTx` guarantees -/
structure CommonOk (c : Cfg) (s : State) (tx : Tx) (mode : Mode) : Prop where
  sender : tx.sender ≠ 0
  amount : 0 ≤ tx.amount
  maxFee : 0 ≤ tx.maxFee
  tips : 0 ≤ tx.tips
  epoch : s.g.epoch ≤ tx.epoch
  nonce : ¬ ((s.am tx.sender).nonce ≥ tx.nonce ∧ (s.am tx.sender).epoch = s.g.epoch ∧ tx.epoch = s.g.epoch)
  funds : 0 < txCostForValidation s tx mode → txCostForValidation s tx mode ≤ s.balance tx.sender
  fee : mode = .inBlock → calcFee s.g.netSize s.g.feePerGas tx ≤ tx.maxFee
  typ : firstFail (typeClauses c s tx mode) = .ok

theorem validate_common {c s tx mode m} (h : validateTx c s tx mode m = .ok) : CommonOk c s tx mode := by
  simp only [validateTx, commonClauses, feeClauses, List.cons_append, List.nil_append, firstFail_chk] at h
  obtain ⟨h1, _, h3, h4, h5, h6, h7, _, _, _, h11, h12, h13⟩ := h
  refine ⟨?_, ?_, ?_, ?_, ?_, ?_, ?_, ?_, h13⟩
  · simpa using h1
  · simpa using h3
  · simpa using h4
  · simpa using h5
  · simpa using h6
  · simp at h7; intro ⟨a, b, c⟩; exact absurd (h7 a b) (by omega)
  · intro hp; simp at h12; have := h12 hp; omega
  · intro hm; subst hm; simp at h11; omega

/-! ### the common suffix -/
section
variable (tx : Tx) (s1 : State) (fee : Int)

@[simp] theorem finish_afunds :
    (finish tx s1 fee).afunds = ((s1.addBal tx.sender (-fee)).addBal tx.sender (-tx.tips)).afunds := by
  unfold finish; simp only []; split <;> rfl
@[simp] theorem finish_ifunds : (finish tx s1 fee).ifunds = s1.ifunds := by
  unfold finish; simp only []; split <;> rfl
@[simp] theorem finish_iinfo : (finish tx s1 fee).iinfo = s1.iinfo := by
  unfold finish; simp only []; split <;> rfl
@[simp] theorem finish_reg : (finish tx s1 fee).reg = s1.reg := by
  unfold finish; simp only []; split <;> rfl
@[simp] theorem finish_appr : (finish tx s1 fee).appr = s1.appr := by
  unfold finish; simp only []; split <;> rfl
@[simp] theorem finish_g : (finish tx s1 fee).g = s1.g := by
  unfold finish; simp only []; split <;> rfl

theorem finish_am (a : Nat) :
    (finish tx s1 fee).am a = if a = tx.sender then { nonce := tx.nonce, epoch := tx.epoch } else s1.am a := by
  unfold finish; simp only []
  split
  · simp [State.am]; split <;> rfl
  · rename_i h
    by_cases ha : a = tx.sender
    · subst ha
      simp [State.am] at h ⊢
      rw [← h]
    · simp [State.am, ha]
end

/-! ### structure of a successful application -/
theorem applyTx_ok {c : Cfg} {s : State} {tx : Tx} {s' : State} {fee : Int} (h : applyTx c s tx = .ok s' fee) :
    tx.epoch = s.g.epoch ∧ (curNonce s tx.sender + 1) % 2 ^ 32 = tx.nonce ∧
    ∃ s1, Keeps (fundsEffect c s tx) s1 ∧
      fee = calcFee s.g.headNetSize s.g.feePerGas tx + extraFee s tx ∧ s' = finish tx s1 fee := by
  unfold applyTx at h
  split at h; · simp at h
  split at h; · simp at h
  rename_i h1 h2
  split at h
  · simp at h
  · rename_i s1 e he
    obtain ⟨hk, rfl⟩ := effect_keeps he
    simp only [AOut.ok.injEq] at h
    obtain ⟨rfl, rfl⟩ := h
    exact ⟨by simpa using h1, by simpa using h2, s1, hk, rfl, rfl⟩

theorem calcFee_nonneg (n fpg : Nat) (tx : Tx) : 0 ≤ calcFee n fpg tx := by unfold calcFee; omega
theorem extraFee_nonneg (s : State) (tx : Tx) : 0 ≤ extraFee s tx := by
  unfold extraFee gasCost; split
  · split <;> omega
  · omega

end IdenaModel.Ledger
