import IdenaModel.Model.SyncArtifacts
/-! Lemmas for C11 (core Lean only). Part B first (snapshots), then Part A (identity diffs). -/
namespace IdenaModel.Sync

/-! ## chunking -/

theorem chunksAux_flatten {α : Type} (n : Nat) (hn : 0 < n) :
    ∀ (fuel : Nat) (l : List α), l.length ≤ fuel → (chunksAux fuel n l).flatten = l := by
  intro fuel
  induction fuel with
  | zero => intro l hl; have : l = [] := List.length_eq_zero_iff.mp (by omega); simp [chunksAux, this]
  | succ f ih =>
    intro l hl
    unfold chunksAux
    by_cases h : l = []
    · simp [h]
    · simp only [h, if_false, List.flatten_cons]
      rw [ih (l.drop n) (by rw [List.length_drop]; omega), List.take_append_drop]

theorem chunksAux_bound {α : Type} (n : Nat) :
    ∀ (fuel : Nat) (l : List α), ∀ c ∈ chunksAux fuel n l, c.length ≤ n := by
  intro fuel
  induction fuel with
  | zero => intro l c hc; simp [chunksAux] at hc
  | succ f ih =>
    intro l c hc
    unfold chunksAux at hc
    by_cases h : l = []
    · simp [h] at hc
    · simp only [h, if_false, List.mem_cons] at hc
      rcases hc with rfl | hc
      · rw [List.length_take]; omega
      · exact ih _ c hc

/-! ## wire form -/

/-- ranges in which the Go integer conversions of `WriteTreeTo2` / `ReadTreeFrom2` are the identity and protobuf
keeps the key: what a node of a real tree satisfies -/
def WFENode (n : ENode) : Prop :=
  (∃ x xs, n.key = some (x :: xs)) ∧ 0 ≤ n.version ∧ n.version < 9223372036854775808 ∧ 0 ≤ n.height ∧ n.height < 128

theorem toInt8_ofNat {h : Int} (h0 : 0 ≤ h) (h1 : h < 128) : toInt8 h.toNat = h := by
  unfold toInt8
  have : h.toNat % 256 = h.toNat := Nat.mod_eq_of_lt (by omega)
  rw [this]
  split <;> omega

theorem toInt64_ofNat {v : Int} (h0 : 0 ≤ v) (h1 : v < 9223372036854775808) : toInt64 v.toNat = v := by
  unfold toInt64
  have : v.toNat % 18446744073709551616 = v.toNat := Nat.mod_eq_of_lt (by omega)
  rw [this]
  split <;> omega

theorem fromWire_toWire {n : ENode} (h : WFENode n) : fromWire (toWire n) = n := by
  obtain ⟨⟨x, xs, hk⟩, hv0, hv1, hh0, hh1⟩ := h
  cases n with
  | mk key value version height =>
    simp only at hk hv0 hv1 hh0 hh1
    subst hk
    simp only [fromWire, toWire, wireBytes, toInt8_ofNat hh0 hh1, toInt64_ofNat hv0 hv1]
    congr 1
    cases value with
    | none => simp
    | some v => cases v <;> simp

/-! ## export / import -/

/-- well-formedness of a tree w.r.t. the import version: what `Importer.Add` relies on (child heights below the parent's,
versions in `1..impVer`) plus the wire ranges -/
def WFTree (impVer : Int) : MTree → Prop
  | .leaf k _ ver => k ≠ [] ∧ 0 < ver ∧ ver ≤ impVer ∧ ver < 9223372036854775808
  | .inner k h ver l r =>
    k ≠ [] ∧ 0 < ver ∧ ver ≤ impVer ∧ ver < 9223372036854775808 ∧ h < 128 ∧ l.height < h ∧ r.height < h ∧
    WFTree impVer l ∧ WFTree impVer r

theorem height_nonneg {v : Int} : ∀ {t : MTree}, WFTree v t → 0 ≤ t.height
  | .leaf .., _ => by simp [MTree.height]
  | .inner _ h _ l _, hw => by
    have := height_nonneg hw.2.2.2.2.2.2.2.1
    have := hw.2.2.2.2.2.1
    simp only [MTree.height] at *
    omega

theorem importNodes_export (fixed : Bool) (v : Int) :
    ∀ (t : MTree), WFTree v t → ∀ (stack : List MTree) (added : Nat) (rest : List ENode),
      importNodes fixed v stack added (exportTree t ++ rest) = importNodes fixed v (t :: stack) (added + t.nodeCount) rest := by
  intro t
  induction t with
  | leaf k val ver =>
    intro hw stack added rest
    obtain ⟨_, h0, h1, _⟩ := hw
    have h1' : ¬ ver > v := by omega
    have h0' : ¬ ver ≤ 0 := by omega
    simp [exportTree, importNodes, importerAdd, h1', h0', MTree.nodeCount]
  | inner k h ver l r ihl ihr =>
    intro hw stack added rest
    obtain ⟨_, h0, h1, _, _, hl, hr, wl, wr⟩ := hw
    have hl0 := height_nonneg wl
    have h1' : ¬ ver > v := by omega
    have h0' : ¬ ver ≤ 0 := by omega
    have hne : ¬ h = 0 := by omega
    simp only [exportTree, List.append_assoc]
    rw [ihl wl, ihr wr]
    simp [importNodes, importerAdd, h1', h0', hne, hl, hr, MTree.nodeCount]
    congr 1
    omega

theorem importNodes_exportTree (fixed : Bool) (v : Int) (t : MTree) (hw : WFTree v t) :
    importNodes fixed v [] 0 (exportTree t) = .tree (some t) := by
  have := importNodes_export fixed v t hw [] 0 []
  simp only [List.append_nil] at this
  rw [this]
  simp [importNodes, importerCommit]

theorem wf_export_nodes {v : Int} : ∀ {t : MTree}, WFTree v t → ∀ n ∈ exportTree t, WFENode n
  | .leaf k _ ver, hw, n, hn => by
    simp only [exportTree, List.mem_singleton] at hn
    subst hn
    obtain ⟨hk, h0, _, h2⟩ := hw
    refine ⟨?_, by simp only; omega, h2, by simp, by simp⟩
    cases k with
    | nil => exact absurd rfl hk
    | cons x xs => exact ⟨x, xs, rfl⟩
  | .inner k h ver l r, hw, n, hn => by
    obtain ⟨hk, h0, _, h2, h3, hl, _, wl, wr⟩ := hw
    simp only [exportTree, List.mem_append, List.mem_singleton] at hn
    rcases hn with (hn | hn) | hn
    · exact wf_export_nodes wl n hn
    · exact wf_export_nodes wr n hn
    · subst hn
      have := height_nonneg wl
      refine ⟨?_, by simp only; omega, h2, by simp only; omega, h3⟩
      cases k with
      | nil => exact absurd rfl hk
      | cons x xs => exact ⟨x, xs, rfl⟩

theorem map_fromWire_toWire {v : Int} {t : MTree} (hw : WFTree v t) :
    ((exportTree t).map toWire).map fromWire = exportTree t := by
  rw [List.map_map]
  conv => rhs; rw [← List.map_id (exportTree t)]
  apply List.map_congr_left
  intro n hn
  simpa using fromWire_toWire (wf_export_nodes hw n hn)

/-! ## the importer never panics in the repaired variant -/

theorem importNodes_fixed_no_panic (v : Int) :
    ∀ (ns : List ENode) (stack : List MTree) (added k : Nat), importNodes true v stack added ns ≠ .panic k := by
  intro ns
  induction ns with
  | nil =>
    intro stack added k
    unfold importNodes
    cases stack with
    | nil => simp [importerCommit]
    | cons a t => cases t <;> simp [importerCommit]
  | cons n ns ih =>
    intro stack added k
    unfold importNodes
    cases importerAdd v stack n with
    | ok s' => exact ih s' _ k
    | error => simp
    | panic => simp

/-! ## hashes -/

variable {η : Type}

/-- collision freedom of the node hash on the fields it covers (assumption about SHA-256 + the amino encoding) -/
structure HashInj (H : HashFns η) : Prop where
  leaf : ∀ k v ver k' v' ver', H.leafH k v ver = H.leafH k' v' ver' → k = k' ∧ v = v' ∧ ver = ver'
  inner : ∀ h s ver a b h' s' ver' a' b', H.innerH h s ver a b = H.innerH h' s' ver' a' b' →
    h = h' ∧ s = s' ∧ ver = ver' ∧ a = a' ∧ b = b'
  leaf_ne_inner : ∀ k v ver h s ver' a b, H.leafH k v ver ≠ H.innerH h s ver' a b
  leaf_ne_empty : ∀ k v ver, H.leafH k v ver ≠ H.emptyH
  inner_ne_empty : ∀ h s ver a b, H.innerH h s ver a b ≠ H.emptyH

/-- equal hashes ⇒ the same leaves (keys, values) in the same order: what iteration yields -/
theorem hash_eq_leaves {H : HashFns η} (hi : HashInj H) :
    ∀ (t t0 : MTree), t.hash H = t0.hash H → t.leaves = t0.leaves := by
  intro t
  induction t with
  | leaf k v ver =>
    intro t0 h
    cases t0 with
    | leaf k0 v0 ver0 =>
      obtain ⟨rfl, rfl, _⟩ := hi.leaf _ _ _ _ _ _ h
      rfl
    | inner k0 h0 ver0 l0 r0 => exact absurd h (hi.leaf_ne_inner _ _ _ _ _ _ _ _)
  | inner k h ver l r ihl ihr =>
    intro t0 he
    cases t0 with
    | leaf k0 v0 ver0 => exact absurd he.symm (hi.leaf_ne_inner _ _ _ _ _ _ _ _)
    | inner k0 h0 ver0 l0 r0 =>
      obtain ⟨_, _, _, hl, hr⟩ := hi.inner _ _ _ _ _ _ _ _ _ _ he
      simp [MTree.leaves, ihl l0 hl, ihr r0 hr]

theorem minKey_eq_head_leaves : ∀ (t : MTree), (t.leaves.head?).map (·.1) = some t.minKey
  | .leaf .. => rfl
  | .inner _ _ _ l r => by
    have := minKey_eq_head_leaves l
    simp only [MTree.leaves, MTree.minKey]
    cases hl : l.leaves with
    | nil => simp [hl] at this
    | cons a as => simp [hl] at this ⊢; exact this

/-- equal hashes + verified inner keys on both sides ⇒ the very same tree -/
theorem hash_inj_tree {H : HashFns η} (hi : HashInj H) :
    ∀ (t t0 : MTree), t.innerKeysOk = true → t0.innerKeysOk = true → t.hash H = t0.hash H → t = t0 := by
  intro t
  induction t with
  | leaf k v ver =>
    intro t0 _ _ h
    cases t0 with
    | leaf k0 v0 ver0 =>
      obtain ⟨rfl, rfl, rfl⟩ := hi.leaf _ _ _ _ _ _ h
      rfl
    | inner k0 h0 ver0 l0 r0 => exact absurd h (hi.leaf_ne_inner _ _ _ _ _ _ _ _)
  | inner k h ver l r ihl ihr =>
    intro t0 ok ok0 he
    cases t0 with
    | leaf k0 v0 ver0 => exact absurd he.symm (hi.leaf_ne_inner _ _ _ _ _ _ _ _)
    | inner k0 h0 ver0 l0 r0 =>
      obtain ⟨rfl, _, rfl, hl, hr⟩ := hi.inner _ _ _ _ _ _ _ _ _ _ he
      simp only [MTree.innerKeysOk, Bool.and_eq_true, decide_eq_true_eq] at ok ok0
      have el := ihl l0 ok.1.2 ok0.1.2 hl
      have er := ihr r0 ok.2 ok0.2 hr
      subst el er
      rw [ok.1.1, ok0.1.1]

/-! ## the stack form of the inner-key check (what the Go code runs) agrees with the structural one -/

/-- inner nodes have a height other than 0 (`Importer.Add` builds an inner node only from a node whose height is not 0) -/
def InnerNZ : MTree → Prop
  | .leaf .. => True
  | .inner _ h _ l r => h ≠ 0 ∧ InnerNZ l ∧ InnerNZ r

theorem innerKeysStack_export : ∀ (t : MTree), InnerNZ t → ∀ (st : List Bytes) (rest : List ENode),
    innerKeysStack st (exportTree t ++ rest) = (t.innerKeysOk && innerKeysStack (t.minKey :: st) rest) := by
  intro t
  induction t with
  | leaf k v ver => intro _ st rest; simp [exportTree, innerKeysStack, MTree.innerKeysOk, MTree.minKey]
  | inner k h ver l r ihl ihr =>
    intro hz st rest
    obtain ⟨hne, zl, zr⟩ := hz
    simp only [exportTree, List.append_assoc]
    rw [ihl zl, ihr zr]
    simp only [List.singleton_append, innerKeysStack, hne, if_false, MTree.innerKeysOk, MTree.minKey]
    by_cases hk : k = r.minKey
    · subst hk
      simp [Bool.and_assoc]
    · have : ¬ some k = some r.minKey := by simpa using hk
      simp [hk, this]

theorem innerKeysStack_eq (t : MTree) (hz : InnerNZ t) : innerKeysStack [] (exportTree t) = t.innerKeysOk := by
  have := innerKeysStack_export t hz [] []
  simpa [innerKeysStack] using this

theorem importerAdd_innerNZ {v : Int} {stack s' : List MTree} {n : ENode}
    (hs : ∀ t ∈ stack, InnerNZ t) (h : importerAdd v stack n = .ok s') : ∀ t ∈ s', InnerNZ t := by
  unfold importerAdd at h
  split at h
  · simp at h
  · split at h
    · split at h
      · split at h
        · simp at h
        · simp only [AddRes.ok.injEq] at h
          subst h
          intro t ht
          simp only [List.mem_cons] at ht
          rcases ht with rfl | ht
          · trivial
          · exact hs t ht
      · simp at h
    next hne =>
      split at h
      next r l rest =>
        split at h
        · split at h
          · split at h
            · simp at h
            · simp only [AddRes.ok.injEq] at h
              subst h
              intro t ht
              simp only [List.mem_cons] at ht
              rcases ht with rfl | ht
              · exact ⟨hne, hs l (by simp), hs r (by simp)⟩
              · exact hs t (by simp [ht])
          · simp at h
        · simp at h
      · simp at h

/-- every tree the importer produces has non-zero inner heights, so the Go stack check and `innerKeysOk` agree on it -/
theorem importNodes_innerNZ (fixed : Bool) (v : Int) : ∀ (ns : List ENode) (stack : List MTree) (added : Nat) (t : MTree),
    (∀ x ∈ stack, InnerNZ x) → importNodes fixed v stack added ns = .tree (some t) → InnerNZ t := by
  intro ns
  induction ns with
  | nil =>
    intro stack added t hs h
    unfold importNodes at h
    cases stack with
    | nil => simp [importerCommit] at h
    | cons a as =>
      cases as with
      | nil => simp only [importerCommit, ImpOut.tree.injEq, Option.some.injEq] at h; subst h; exact hs a (by simp)
      | cons b bs => simp [importerCommit] at h
  | cons n ns ih =>
    intro stack added t hs h
    unfold importNodes at h
    cases ha : importerAdd v stack n with
    | ok s' => rw [ha] at h; exact ih s' _ t (importerAdd_innerNZ hs ha) h
    | error =>
      rw [ha] at h
      cases fixed with
      | true => simp at h
      | false => exact ih stack _ t hs h
    | panic => rw [ha] at h; cases fixed <;> simp at h

/-! ## Part A — identity diffs -/

/-- the diff `Precommit` records for a list of dirty objects (in the order it walks them) -/
def diffOf (objs : List DObj) : Diff :=
  objs.map fun o => if o.empty then ⟨o.addr, true, []⟩ else ⟨o.addr, false, o.enc⟩

/-- a non-empty identity object encodes to at least one byte (protobuf of flags ≠ 0; assumption about `ToBytes`) -/
def WFObjs (objs : List DObj) : Prop := ∀ o ∈ objs, o.empty = false → o.enc ≠ []

theorem precommitStep_empty {t : ITree} {d0 : Diff} {o : DObj} (he : o.empty = true) :
    precommitStep (t, d0) o = (t.remove o.addr, d0 ++ [⟨o.addr, true, []⟩]) := by simp [precommitStep, he]

theorem precommitStep_nonempty {t : ITree} {d0 : Diff} {o : DObj} (he : o.empty = false) :
    precommitStep (t, d0) o = (t.set o.addr o.enc, d0 ++ [⟨o.addr, false, o.enc⟩]) := by simp [precommitStep, he]

theorem precommitOrdered_diff : ∀ (objs : List DObj) (t : ITree) (d0 : Diff),
    (objs.foldl precommitStep (t, d0)).2 = d0 ++ diffOf objs := by
  intro objs
  induction objs with
  | nil => intro t d0; simp [diffOf]
  | cons o os ih =>
    intro t d0
    simp only [List.foldl_cons]
    cases he : o.empty with
    | true => rw [precommitStep_empty he, ih]; simp [diffOf, he]
    | false => rw [precommitStep_nonempty he, ih]; simp [diffOf, he]

theorem precommitOrdered_tree : ∀ (objs : List DObj) (t : ITree) (d0 : Diff), WFObjs objs →
    addDiffVals t (diffOf objs) = some (objs.foldl precommitStep (t, d0)).1 := by
  intro objs
  induction objs with
  | nil => intro t d0 _; simp [diffOf, addDiffVals]
  | cons o os ih =>
    intro t d0 hw
    have hw' : WFObjs os := fun x hx => hw x (List.mem_cons_of_mem _ hx)
    simp only [List.foldl_cons]
    cases he : o.empty with
    | true =>
      rw [precommitStep_empty he, ← ih _ _ hw']
      simp [diffOf, he, addDiffVals]
    | false =>
      have hne := hw o (List.mem_cons_self ..) he
      rw [precommitStep_nonempty he, ← ih _ _ hw']
      simp [diffOf, he, addDiffVals, hne]

theorem wfObjs_order {dirty : List DObj} (h : WFObjs dirty) : WFObjs (orderObjs dirty) := by
  intro o ho
  exact h o ((List.mergeSort_perm dirty _).mem_iff.mp ho)

theorem setVirtualVersion_self (t : ITree) : t.setVirtualVersion t.version = t := by
  cases t; rfl

/-- **the diff is complete**: replaying the diff `Precommit` recorded, on the tree `Precommit` started from, gives the
very tree `Precommit` produced (same operation log, same version stamps) -/
theorem precommit_addDiff {t : ITree} {h : Nat} {dirty : List DObj} (hw : WFObjs dirty) (hv : t.version + 1 = h) :
    addDiff t h (precommit t dirty).2 = some (precommit t dirty).1 := by
  have hd : (precommit t dirty).2 = diffOf (orderObjs dirty) := by
    simp [precommit, precommitOrdered, precommitOrdered_diff]
  have ht := precommitOrdered_tree (orderObjs dirty) t [] (wfObjs_order hw)
  unfold addDiff
  rw [hd]
  by_cases he : diffOf (orderObjs dirty) = []
  · have : orderObjs dirty = [] := by simpa [diffOf] using he
    simp [precommit, precommitOrdered, this, diffOf]
  · have hv' : h - 1 = t.version := by omega
    simp only [he, if_false, hv', setVirtualVersion_self]
    rw [ht]; rfl

theorem addDiffVals_log_append : ∀ (d : Diff) (t t' : ITree), addDiffVals t d = some t' →
    t'.version = t.version ∧ ∃ ops, t'.log = t.log ++ ops := by
  intro d
  induction d with
  | nil => intro t t' h; simp [addDiffVals] at h; subst h; exact ⟨rfl, [], by simp⟩
  | cons v vs ih =>
    intro t t' h
    unfold addDiffVals at h
    by_cases hd : v.deleted = true
    · simp only [hd, if_true] at h
      obtain ⟨hv, ops, ho⟩ := ih _ _ h
      exact ⟨hv, TOp.remove (t.version + 1) v.addr :: ops, by simp [ho, ITree.remove]⟩
    · simp only [hd] at h
      by_cases hn : v.value = []
      · simp [hn] at h
      · simp only [hn, if_false] at h
        obtain ⟨hv, ops, ho⟩ := ih _ _ h
        exact ⟨hv, TOp.set (t.version + 1) v.addr v.value :: ops, by simp [ho, ITree.set]⟩

theorem addDiffVals_not_malformed : ∀ (d : Diff) (t t' : ITree), addDiffVals t d = some t' → Diff.malformed d = false := by
  intro d
  induction d with
  | nil => intro _ _ _; rfl
  | cons v vs ih =>
    intro t t' h
    unfold addDiffVals at h
    by_cases hd : v.deleted = true
    · simp only [hd, if_true] at h
      have := ih _ _ h
      simp only [Diff.malformed] at this ⊢
      simp [hd, this]
    · simp only [hd] at h
      by_cases hn : v.value = []
      · simp [hn] at h
      · simp only [hn, if_false] at h
        have := ih _ _ h
        simp only [Diff.malformed] at this ⊢
        simp [hn, this]

theorem addDiff_not_malformed {t t' : ITree} {h : Nat} {d : Diff} (he : addDiff t h d = some t') : Diff.malformed d = false := by
  unfold addDiff at he
  by_cases hd : d = []
  · subst hd; rfl
  · simp only [hd, if_false] at he
    exact addDiffVals_not_malformed _ _ _ he

theorem addDiffVals_not_malformed_some : ∀ (d : Diff) (t : ITree), Diff.malformed d = false → ∃ t', addDiffVals t d = some t' := by
  intro d
  induction d with
  | nil => intro t _; exact ⟨t, rfl⟩
  | cons v vs ih =>
    intro t h
    simp only [Diff.malformed, List.any_cons, Bool.or_eq_false_iff] at h
    unfold addDiffVals
    by_cases hd : v.deleted = true
    · simp only [hd, if_true]; exact ih _ h.2
    · by_cases hn : v.value = []
      · simp [hd, hn] at h
      · simp only [hd, hn, if_false]; exact ih _ h.2

/-- the result of `AddDiff` depends on the tree's history only (thanks to `SetVirtualVersion`), not on the version
the tree happens to be saved at -/
theorem addDiff_log_congr {t t' : ITree} (hl : t'.log = t.log) (h : Nat) (d : Diff) :
    (addDiff t' h d).map (·.log) = (addDiff t h d).map (·.log) := by
  unfold addDiff
  by_cases hd : d = []
  · simp [hd, hl]
  · simp only [hd, if_false]
    have : t'.setVirtualVersion (h - 1) = t.setVirtualVersion (h - 1) := by
      cases t; cases t'; simp_all [ITree.setVirtualVersion]
    rw [this]

end IdenaModel.Sync
