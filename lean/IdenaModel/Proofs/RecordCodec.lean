import IdenaModel.Proofs.ProtoWire
import IdenaModel.Proofs.CodecTable
import IdenaModel.Model.RecordCodec
/-! Round trip of the generic flat-record codec. -/
namespace IdenaModel.Codec
open IdenaModel.ProtoWire

/-! ## association lists with strictly increasing keys -/

theorem lookup_of_mem_sorted {β : Type} : ∀ (l : List (Nat × β)), (l.map (·.1)).Pairwise (· < ·) →
    ∀ p ∈ l, l.lookup p.1 = some p.2 := by
  intro l
  induction l with
  | nil => intro _ p hp; simp at hp
  | cons q t ih =>
    intro hs p hp
    obtain ⟨k, b⟩ := q
    simp only [List.map_cons, List.pairwise_cons] at hs
    simp only [List.mem_cons] at hp
    rcases hp with rfl | hp
    · simp [List.lookup]
    · have hlt : k < p.1 := hs.1 p.1 (List.mem_map.mpr ⟨p, hp, rfl⟩)
      have hne : (p.1 == k) = false := by simp; omega
      simp only [List.lookup, hne]
      exact ih hs.2 p hp

theorem specOK_iff : ∀ (spec : Spec), specOK spec = true ↔
    (spec.map (·.1)).Pairwise (· < ·) ∧ ∀ p ∈ spec, 1 ≤ p.1 := by
  intro spec
  induction spec with
  | nil => simp [specOK]
  | cons p t ih =>
    obtain ⟨f, c⟩ := p
    cases t with
    | nil => simp [specOK]
    | cons q r =>
      obtain ⟨g, c'⟩ := q
      simp only [specOK, Bool.and_eq_true, decide_eq_true_eq, ih, List.map_cons, List.pairwise_cons,
        List.mem_cons, forall_eq_or_imp]
      constructor
      · rintro ⟨⟨h1, h2⟩, ⟨h3, h4⟩, h5, h6⟩
        exact ⟨⟨⟨h2, fun a ha => by have := h3 a ha; omega⟩, h3, h4⟩, h1, h5, h6⟩
      · rintro ⟨⟨⟨h1, _⟩, h3, h4⟩, h5, h6, h7⟩
        exact ⟨⟨h5, h1⟩, ⟨h3, h4⟩, h6, h7⟩

/-! ## the message built from a record -/

theorem recToMsg_keys : ∀ (spec : Spec) (gs : List GoVal) (m : Msg), recToMsg spec gs = some m →
    m.map (·.1) = spec.map (·.1) := by
  intro spec
  induction spec with
  | nil => intro gs m h; cases gs <;> simp [recToMsg] at h; simp [h]
  | cons p s ih =>
    obtain ⟨f, c⟩ := p
    intro gs m h
    cases gs with
    | nil => simp [recToMsg] at h
    | cons g gs =>
      simp only [recToMsg] at h
      cases hv : convEnc c g with
      | none => simp [hv] at h
      | some v =>
        cases hm : recToMsg s gs with
        | none => simp [hv, hm] at h
        | some m' =>
          simp only [hv, hm, Option.some.injEq] at h
          subst h
          simp [ih gs m' hm]

/-- occurrences are never nested messages and have the kind of their conversion -/
theorem convEnc_conf {c : Conv} {g : GoVal} {v : Val} (h : convEnc c g = some v) :
    v.conf (kindOf c) = true ∧ ∀ k, v.sorted k = true := by
  cases c <;> cases g <;> simp [convEnc] at h <;> subst h <;>
    exact ⟨by simp [Val.conf, kindOf], fun k => by cases k <;> rfl⟩

theorem recToMsg_vals : ∀ (spec : Spec) (gs : List GoVal) (m : Msg), recToMsg spec gs = some m →
    ∀ p ∈ m, ∃ c, (p.1, c) ∈ spec ∧ p.2.conf (kindOf c) = true ∧ ∀ k, p.2.sorted k = true := by
  intro spec
  induction spec with
  | nil => intro gs m h; cases gs <;> simp [recToMsg] at h; simp [h]
  | cons q s ih =>
    obtain ⟨f, c⟩ := q
    intro gs m h
    cases gs with
    | nil => simp [recToMsg] at h
    | cons g gs =>
      simp only [recToMsg] at h
      cases hv : convEnc c g with
      | none => simp [hv] at h
      | some v =>
        cases hm : recToMsg s gs with
        | none => simp [hv, hm] at h
        | some m' =>
          simp only [hv, hm, Option.some.injEq] at h
          subst h
          intro p hp
          simp only [List.mem_cons] at hp
          rcases hp with rfl | hp
          · exact ⟨c, by simp, (convEnc_conf hv).1, (convEnc_conf hv).2⟩
          · obtain ⟨c', h1, h2, h3⟩ := ih gs m' hm p hp
            exact ⟨c', by simp [h1], h2, h3⟩

theorem confMsg_of_forall {s : Schema} : ∀ (m : Msg),
    (∀ p ∈ m, ∃ rep k, s.lookup p.1 = some (rep, k) ∧ p.2.conf k = true ∧ 1 ≤ p.1) → confMsg s m = true := by
  intro m
  induction m with
  | nil => intro _; simp [confMsg]
  | cons q t ih =>
    obtain ⟨f, v⟩ := q
    intro h
    obtain ⟨rep, k, hl, hc, hf⟩ := h (f, v) (by simp)
    have := ih fun p hp => h p (by simp [hp])
    simp [confMsg, hl, hc, hf, this]

theorem sortedMsg_of_pairwise {s : Schema} : ∀ (m : Msg), (m.map (·.1)).Pairwise (· < ·) →
    (∀ p ∈ m, ∀ k, p.2.sorted k = true) → sortedMsg s m = true := by
  intro m
  induction m with
  | nil => intro _ _; simp [sortedMsg]
  | cons q t ih =>
    obtain ⟨f, v⟩ := q
    intro hp hv
    simp only [List.map_cons, List.pairwise_cons] at hp
    have iht := ih hp.2 fun p hp' => hv p (by simp [hp'])
    have h1 : (match s.lookup f with | some (_, k) => v.sorted k | none => true) = true := by
      cases s.lookup f with
      | none => rfl
      | some rk => exact hv (f, v) (by simp) rk.2
    cases t with
    | nil => exact sortedMsg_cons_iff.mpr ⟨h1, rfl, iht⟩
    | cons r u =>
      obtain ⟨g, w⟩ := r
      have hfg : f < g := hp.1 g (by simp)
      exact sortedMsg_cons_iff.mpr ⟨h1, by simp [hfg], iht⟩

theorem recSchema_lookup {spec : Spec} (hs : (spec.map (·.1)).Pairwise (· < ·)) {f : Nat} {c : Conv}
    (h : (f, c) ∈ spec) : (recSchema spec).lookup f = some (false, kindOf c) := by
  have hs' : ((recSchema spec).map (·.1)).Pairwise (· < ·) := by
    simpa [recSchema, List.map_map, Function.comp_def] using hs
  have hm : (f, false, kindOf c) ∈ recSchema spec := by
    simp only [recSchema, List.mem_map]
    exact ⟨(f, c), h, rfl⟩
  exact lookup_of_mem_sorted (recSchema spec) hs' (f, false, kindOf c) hm

/-- the message built from a record by an OK spec is well-formed for the record's schema -/
theorem recToMsg_wf {spec : Spec} {gs : List GoVal} {m : Msg} (hok : specOK spec = true)
    (h : recToMsg spec gs = some m) : wfMsg (recSchema spec) m = true := by
  obtain ⟨hs, hf⟩ := (specOK_iff spec).mp hok
  have hk := recToMsg_keys spec gs m h
  have hv := recToMsg_vals spec gs m h
  simp only [wfMsg, Bool.and_eq_true]
  constructor
  · apply confMsg_of_forall
    intro p hp
    obtain ⟨c, hc, hconf, _⟩ := hv p hp
    exact ⟨false, kindOf c, recSchema_lookup hs hc, hconf, hf (p.1, c) hc⟩
  · apply sortedMsg_of_pairwise
    · rw [hk]; exact hs
    · intro p hp; exact (hv p hp).choose_spec.2.2

/-! ## one field -/

theorem b2n_ne_zero (b : Bool) : (b2n b != 0) = b := by cases b <;> simp [b2n]

/-- reading back one converted field through the getters gives the Go value back (semantically) -/
theorem convDec_of_lookup {c : Conv} {g : GoVal} {v : Val} {m : Msg} {f : Nat} (hw : convWF c g)
    (he : convEnc c g = some v) (hl : m.lookup f = some v) : (convDec c m f).sem = g.sem := by
  cases c <;> cases g <;> simp [convEnc] at he <;> subst he <;> simp only [convWF] at hw
  · simp [convDec, getInt, hl]
  · simp [convDec, getInt, hl, i64Dec_i64Enc _ hw.1 hw.2]
  · simp [convDec, getInt, hl, b2n_ne_zero]
  · simp [convDec, getBytes, hl]
  · simp [convDec, getBytes, hl, fixN_of_length hw]
  · simp [convDec, getBytes, hl, optDec_optEnc hw.1 _ hw.2]
  · simp only [convDec, getBytes, hl, GoVal.sem, bigDec_bigEnc _ hw]

/-- the getters (hence `convDec`) do not see normalisation -/
theorem convDec_normMsg {s : Schema} {m : Msg} {f : Nat} {k : Kind} (hl : s.lookup f = some (false, k))
    (hs : sortedMsg s m = true) (c : Conv) : convDec c (normMsg s m) f = convDec c m f := by
  cases c <;> simp only [convDec, getInt_normMsg hl hs, getBytes_normMsg hl hs]

/-! ## the whole record -/

/-- decoding every field from a message `M` that holds the record's occurrences gives the record back -/
theorem recFrom_sem (M : Msg) : ∀ (spec : Spec) (gs : List GoVal) (m : Msg), recToMsg spec gs = some m →
    (∀ p ∈ m, M.lookup p.1 = some p.2) → recWF spec gs →
    (spec.map fun p => (convDec p.2 M p.1).sem) = gs.map GoVal.sem := by
  intro spec
  induction spec with
  | nil => intro gs m h _ _; cases gs <;> simp [recToMsg] at h; simp
  | cons q s ih =>
    obtain ⟨f, c⟩ := q
    intro gs m h hM hw
    cases gs with
    | nil => simp [recToMsg] at h
    | cons g gs =>
      simp only [recToMsg] at h
      cases hv : convEnc c g with
      | none => simp [hv] at h
      | some v =>
        cases hm : recToMsg s gs with
        | none => simp [hv, hm] at h
        | some m' =>
          simp only [hv, hm, Option.some.injEq] at h
          subst h
          simp only [recWF] at hw
          have h1 := convDec_of_lookup hw.1 hv (hM (f, v) (by simp))
          have h2 := ih gs m' hm (fun p hp => hM p (by simp [hp])) hw.2
          simp only [List.map_cons, h1, h2]

theorem convEnc_depth {c : Conv} {g : GoVal} {v : Val} (h : convEnc c g = some v) : v.depth = 0 := by
  cases c <;> cases g <;> simp [convEnc] at h <;> subst h <;> rfl

theorem recToMsg_depth : ∀ (spec : Spec) (gs : List GoVal) (m : Msg), recToMsg spec gs = some m → depthMsg m = 0 := by
  intro spec
  induction spec with
  | nil => intro gs m h; cases gs <;> simp [recToMsg] at h; simp [h, depthMsg]
  | cons q s ih =>
    obtain ⟨f, c⟩ := q
    intro gs m h
    cases gs with
    | nil => simp [recToMsg] at h
    | cons g gs =>
      simp only [recToMsg] at h
      cases hv : convEnc c g with
      | none => simp [hv] at h
      | some v =>
        cases hm : recToMsg s gs with
        | none => simp [hv, hm] at h
        | some m' =>
          simp only [hv, hm, Option.some.injEq] at h
          subst h
          simp [depthMsg, convEnc_depth hv, ih gs m' hm]

/-- decoding from the normal form = decoding from the message itself -/
theorem recFromMsg_normMsg {spec : Spec} {m : Msg} (hs : (spec.map (·.1)).Pairwise (· < ·))
    (hsorted : sortedMsg (recSchema spec) m = true) :
    recFromMsg spec (normMsg (recSchema spec) m) = recFromMsg spec m := by
  simp only [recFromMsg]
  apply List.map_congr_left
  intro p hp
  exact convDec_normMsg (recSchema_lookup hs (f := p.1) (c := p.2) hp) hsorted p.2

end IdenaModel.Codec
