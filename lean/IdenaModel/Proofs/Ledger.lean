import IdenaModel.Model.TxApply
/-!
Helper lemmas for M-Ledger: finite maps with default, how each primitive step acts on each observation,
`firstFail` characterisations.
-/
namespace IdenaModel.Ledger

namespace AMap
variable {α : Type} [Inhabited α]

@[simp] theorem get_upd (m : AMap α) (k k' : Nat) (f : α → α) :
    (m.upd k f).get k' = if k' = k then f (m.get k) else m.get k' := by
  induction m with
  | nil =>
    by_cases h : k' = k
    · subst h; simp [upd, get]
    · have h' : ¬ k = k' := fun e => h e.symm
      simp [upd, get, h, h']
  | cons p t ih =>
    obtain ⟨k0, v⟩ := p
    by_cases h0 : k0 = k
    · subst h0
      by_cases h : k' = k0
      · subst h; simp [upd, get]
      · have h' : ¬ k0 = k' := fun e => h e.symm
        simp [upd, get, h, h']
    · by_cases h : k' = k
      · subst h; simp [upd, get, h0, ih]
      · by_cases h1 : k0 = k'
        · subst h1; simp [upd, get, h0]
        · simp [upd, get, h0, h1, ih, h]

theorem sum_upd (g : α → Int) (hg : g default = 0) (m : AMap α) (k : Nat) (f : α → α) :
    sum g (m.upd k f) = sum g m - g (m.get k) + g (f (m.get k)) := by
  induction m with
  | nil => simp [upd, get, sum, hg]
  | cons p t ih =>
    obtain ⟨k0, v⟩ := p
    by_cases h0 : k0 = k
    · simp [upd, get, sum, h0]; omega
    · simp [upd, get, sum, h0, ih]; omega

/-- every stored value satisfies `P` -/
def All (P : α → Prop) (m : AMap α) : Prop := ∀ p ∈ m, P p.2

theorem all_get {P : α → Prop} {m : AMap α} (h : All P m) (hd : P default) (k : Nat) : P (m.get k) := by
  unfold All at *
  induction m with
  | nil => simpa [get] using hd
  | cons p t ih =>
    obtain ⟨k0, v⟩ := p
    by_cases h0 : k0 = k
    · simp [get, h0]; exact h (k0, v) (by simp)
    · simp [get, h0]; exact ih (fun q hq => h q (by simp [hq]))

theorem all_upd {P : α → Prop} {m : AMap α} (h : All P m) (k : Nat) (f : α → α)
    (hf : P (f (m.get k))) : All P (m.upd k f) := by
  unfold All at *
  induction m with
  | nil => intro p hp; simp [upd] at hp; subst hp; simpa [get] using hf
  | cons p t ih =>
    obtain ⟨k0, v⟩ := p
    by_cases h0 : k0 = k
    · intro q hq
      simp [upd, h0] at hq
      rcases hq with rfl | hq
      · simpa [get, h0] using hf
      · exact h q (by simp [hq])
    · intro q hq
      simp [upd, h0] at hq
      rcases hq with rfl | hq
      · exact h (k0, v) (by simp)
      · exact ih (fun r hr => h r (by simp [hr])) (by simpa [get, h0] using hf) q hq

end AMap

/-! ### map-level effect of every primitive and derived step

Every step is normalised to `upd` chains over the six maps of the original state; steps that only touch
bookkeeping leave `afunds`, `ameta`, `ifunds` untouched by construction. -/
namespace State
section
variable (s : State) (a b : Nat) (x : Int)

@[simp] theorem modAF_afunds (f) : (s.modAF a f).afunds = s.afunds.upd a f := rfl
@[simp] theorem modAF_ameta (f) : (s.modAF a f).ameta = s.ameta := rfl
@[simp] theorem modAF_ifunds (f) : (s.modAF a f).ifunds = s.ifunds := rfl
@[simp] theorem modAF_iinfo (f) : (s.modAF a f).iinfo = s.iinfo := rfl
@[simp] theorem modAF_reg (f) : (s.modAF a f).reg = s.reg := rfl
@[simp] theorem modAF_appr (f) : (s.modAF a f).appr = s.appr := rfl
@[simp] theorem modAF_g (f) : (s.modAF a f).g = s.g := rfl

@[simp] theorem modAM_afunds (f) : (s.modAM a f).afunds = s.afunds := rfl
@[simp] theorem modAM_ameta (f) : (s.modAM a f).ameta = s.ameta.upd a f := rfl
@[simp] theorem modAM_ifunds (f) : (s.modAM a f).ifunds = s.ifunds := rfl
@[simp] theorem modAM_iinfo (f) : (s.modAM a f).iinfo = s.iinfo := rfl
@[simp] theorem modAM_reg (f) : (s.modAM a f).reg = s.reg := rfl
@[simp] theorem modAM_appr (f) : (s.modAM a f).appr = s.appr := rfl
@[simp] theorem modAM_g (f) : (s.modAM a f).g = s.g := rfl

@[simp] theorem modIF_afunds (f) : (s.modIF a f).afunds = s.afunds := rfl
@[simp] theorem modIF_ameta (f) : (s.modIF a f).ameta = s.ameta := rfl
@[simp] theorem modIF_ifunds (f) : (s.modIF a f).ifunds = s.ifunds.upd a f := rfl
@[simp] theorem modIF_iinfo (f) : (s.modIF a f).iinfo = s.iinfo := rfl
@[simp] theorem modIF_reg (f) : (s.modIF a f).reg = s.reg := rfl
@[simp] theorem modIF_appr (f) : (s.modIF a f).appr = s.appr := rfl
@[simp] theorem modIF_g (f) : (s.modIF a f).g = s.g := rfl

@[simp] theorem modII_afunds (f) : (s.modII a f).afunds = s.afunds := rfl
@[simp] theorem modII_ameta (f) : (s.modII a f).ameta = s.ameta := rfl
@[simp] theorem modII_ifunds (f) : (s.modII a f).ifunds = s.ifunds := rfl
@[simp] theorem modII_iinfo (f) : (s.modII a f).iinfo = s.iinfo.upd a f := rfl
@[simp] theorem modII_reg (f) : (s.modII a f).reg = s.reg := rfl
@[simp] theorem modII_appr (f) : (s.modII a f).appr = s.appr := rfl
@[simp] theorem modII_g (f) : (s.modII a f).g = s.g := rfl

@[simp] theorem modAP_afunds (f) : (s.modAP a f).afunds = s.afunds := rfl
@[simp] theorem modAP_ameta (f) : (s.modAP a f).ameta = s.ameta := rfl
@[simp] theorem modAP_ifunds (f) : (s.modAP a f).ifunds = s.ifunds := rfl
@[simp] theorem modAP_iinfo (f) : (s.modAP a f).iinfo = s.iinfo := rfl
@[simp] theorem modAP_reg (f) : (s.modAP a f).reg = s.reg := rfl
@[simp] theorem modAP_appr (f) : (s.modAP a f).appr = s.appr.upd a f := rfl
@[simp] theorem modAP_g (f) : (s.modAP a f).g = s.g := rfl

@[simp] theorem modG_afunds (f) : (s.modG f).afunds = s.afunds := rfl
@[simp] theorem modG_ameta (f) : (s.modG f).ameta = s.ameta := rfl
@[simp] theorem modG_ifunds (f) : (s.modG f).ifunds = s.ifunds := rfl
@[simp] theorem modG_iinfo (f) : (s.modG f).iinfo = s.iinfo := rfl
@[simp] theorem modG_reg (f) : (s.modG f).reg = s.reg := rfl
@[simp] theorem modG_appr (f) : (s.modG f).appr = s.appr := rfl
@[simp] theorem modG_g (f) : (s.modG f).g = f s.g := rfl

/-- a step that leaves balances, contract stakes, identity stakes and replay counters alone -/
structure Keeps (s s' : State) : Prop where
  afunds : s'.afunds = s.afunds
  ameta : s'.ameta = s.ameta
  ifunds : s'.ifunds = s.ifunds
  reg : s'.reg = s.reg
  epoch : s'.g.epoch = s.g.epoch

theorem Keeps.rfl' : Keeps s s := ⟨rfl, rfl, rfl, rfl, rfl⟩
theorem Keeps.trans {s1 s2 s3 : State} (h1 : Keeps s1 s2) (h2 : Keeps s2 s3) : Keeps s1 s3 :=
  ⟨h2.afunds.trans h1.afunds, h2.ameta.trans h1.ameta, h2.ifunds.trans h1.ifunds, h2.reg.trans h1.reg,
   h2.epoch.trans h1.epoch⟩

theorem keeps_modII (f) : Keeps s (s.modII a f) := ⟨rfl, rfl, rfl, rfl, rfl⟩
theorem keeps_modAP (f) : Keeps s (s.modAP a f) := ⟨rfl, rfl, rfl, rfl, rfl⟩
theorem keeps_modG (f : Global → Global) (h : (f s.g).epoch = s.g.epoch) : Keeps s (s.modG f) := ⟨rfl, rfl, rfl, rfl, h⟩
theorem keeps_setIdState (st) : Keeps s (s.setIdState a st) := keeps_modII s a _
theorem keeps_apprRemove : Keeps s (s.apprRemove a) := keeps_modAP s a _
theorem keeps_resetInviter : Keeps s (s.resetInviter a) := keeps_modII s a _
theorem keeps_removeInvitee : Keeps s (s.removeInvitee a b) := keeps_modII s a _
theorem keeps_addInvite : Keeps s (s.addInvite a) := keeps_modII s a _
theorem keeps_incShardSize : Keeps s (s.incShardSize a) := keeps_modG s _ rfl

theorem keeps_decShardSize : Keeps s (s.decShardSize a) := by
  unfold decShardSize; split
  · exact keeps_modG s _ rfl
  · exact Keeps.rfl' s

theorem keeps_leaveShard : Keeps s (s.leaveShard a) := by
  unfold leaveShard; split
  · exact keeps_decShardSize s _
  · exact Keeps.rfl' s

theorem keeps_removeLinkWithInviter : Keeps s (s.removeLinkWithInviter a) := by
  unfold removeLinkWithInviter; split
  · exact Keeps.rfl' s
  · exact (keeps_resetInviter s a).trans (keeps_removeInvitee _ _ _)

theorem keeps_foldl_resetInviter (l : List Nat) : Keeps s (l.foldl (fun st x => st.resetInviter x) s) := by
  induction l generalizing s with
  | nil => exact Keeps.rfl' s
  | cons h t ih => exact (keeps_resetInviter s h).trans (ih _)

theorem keeps_removeLinkWithInvitees : Keeps s (s.removeLinkWithInvitees a) :=
  (keeps_foldl_resetInviter s _).trans (keeps_modII _ _ _)

theorem keeps_removeLinks : Keeps s (s.removeLinks a) :=
  (keeps_removeLinkWithInviter s a).trans (keeps_removeLinkWithInvitees _ a)

@[simp] theorem addBal_afunds : (s.addBal a x).afunds = s.afunds.upd a fun f => { f with balance := f.balance + x } := rfl
@[simp] theorem addBal_ameta : (s.addBal a x).ameta = s.ameta := rfl
@[simp] theorem addBal_ifunds : (s.addBal a x).ifunds = s.ifunds := rfl
@[simp] theorem addBal_iinfo : (s.addBal a x).iinfo = s.iinfo := rfl
@[simp] theorem addBal_reg : (s.addBal a x).reg = s.reg := rfl
@[simp] theorem addBal_appr : (s.addBal a x).appr = s.appr := rfl
@[simp] theorem addBal_g : (s.addBal a x).g = s.g := rfl

@[simp] theorem addStake_afunds : (s.addStake a x).afunds = s.afunds := rfl
@[simp] theorem addStake_ameta : (s.addStake a x).ameta = s.ameta := rfl
@[simp] theorem addStake_ifunds : (s.addStake a x).ifunds = s.ifunds.upd a fun f => { f with stake := f.stake + x } := rfl
@[simp] theorem addStake_iinfo : (s.addStake a x).iinfo = s.iinfo := rfl
@[simp] theorem addStake_reg : (s.addStake a x).reg = s.reg := rfl
@[simp] theorem addStake_g : (s.addStake a x).g = s.g := rfl

@[simp] theorem addLocked_afunds : (s.addLocked a x).afunds = s.afunds := rfl
@[simp] theorem addLocked_ameta : (s.addLocked a x).ameta = s.ameta := rfl
@[simp] theorem addLocked_ifunds : (s.addLocked a x).ifunds = s.ifunds.upd a fun f => { f with locked := f.locked + x } := rfl
@[simp] theorem addLocked_iinfo : (s.addLocked a x).iinfo = s.iinfo := rfl
@[simp] theorem addLocked_reg : (s.addLocked a x).reg = s.reg := rfl
@[simp] theorem addLocked_g : (s.addLocked a x).g = s.g := rfl

@[simp] theorem addReplenished_afunds : (s.addReplenished a x).afunds = s.afunds := rfl
@[simp] theorem addReplenished_ameta : (s.addReplenished a x).ameta = s.ameta := rfl
@[simp] theorem addReplenished_ifunds :
    (s.addReplenished a x).ifunds = s.ifunds.upd a fun f => { f with replenished := f.replenished + x } := rfl
@[simp] theorem addReplenished_iinfo : (s.addReplenished a x).iinfo = s.iinfo := rfl
@[simp] theorem addReplenished_reg : (s.addReplenished a x).reg = s.reg := rfl
@[simp] theorem addReplenished_g : (s.addReplenished a x).g = s.g := rfl

end
end State

namespace State
section
variable (s : State) (a b : Nat) (st : IdState)

@[simp] theorem setIdState_afunds : (s.setIdState a st).afunds = s.afunds := (keeps_setIdState s a st).afunds
@[simp] theorem setIdState_ameta : (s.setIdState a st).ameta = s.ameta := (keeps_setIdState s a st).ameta
@[simp] theorem setIdState_ifunds : (s.setIdState a st).ifunds = s.ifunds := (keeps_setIdState s a st).ifunds
@[simp] theorem setIdState_reg : (s.setIdState a st).reg = s.reg := (keeps_setIdState s a st).reg
@[simp] theorem setIdState_epoch : (s.setIdState a st).g.epoch = s.g.epoch := (keeps_setIdState s a st).epoch
@[simp] theorem apprRemove_afunds : (s.apprRemove a).afunds = s.afunds := (keeps_apprRemove s a).afunds
@[simp] theorem apprRemove_ameta : (s.apprRemove a).ameta = s.ameta := (keeps_apprRemove s a).ameta
@[simp] theorem apprRemove_ifunds : (s.apprRemove a).ifunds = s.ifunds := (keeps_apprRemove s a).ifunds
@[simp] theorem apprRemove_reg : (s.apprRemove a).reg = s.reg := (keeps_apprRemove s a).reg
@[simp] theorem apprRemove_epoch : (s.apprRemove a).g.epoch = s.g.epoch := (keeps_apprRemove s a).epoch
@[simp] theorem resetInviter_afunds : (s.resetInviter a).afunds = s.afunds := (keeps_resetInviter s a).afunds
@[simp] theorem resetInviter_ameta : (s.resetInviter a).ameta = s.ameta := (keeps_resetInviter s a).ameta
@[simp] theorem resetInviter_ifunds : (s.resetInviter a).ifunds = s.ifunds := (keeps_resetInviter s a).ifunds
@[simp] theorem resetInviter_reg : (s.resetInviter a).reg = s.reg := (keeps_resetInviter s a).reg
@[simp] theorem resetInviter_epoch : (s.resetInviter a).g.epoch = s.g.epoch := (keeps_resetInviter s a).epoch
@[simp] theorem removeInvitee_afunds : (s.removeInvitee a b).afunds = s.afunds := (keeps_removeInvitee s a b).afunds
@[simp] theorem removeInvitee_ameta : (s.removeInvitee a b).ameta = s.ameta := (keeps_removeInvitee s a b).ameta
@[simp] theorem removeInvitee_ifunds : (s.removeInvitee a b).ifunds = s.ifunds := (keeps_removeInvitee s a b).ifunds
@[simp] theorem removeInvitee_reg : (s.removeInvitee a b).reg = s.reg := (keeps_removeInvitee s a b).reg
@[simp] theorem removeInvitee_epoch : (s.removeInvitee a b).g.epoch = s.g.epoch := (keeps_removeInvitee s a b).epoch
@[simp] theorem addInvite_afunds : (s.addInvite a).afunds = s.afunds := (keeps_addInvite s a).afunds
@[simp] theorem addInvite_ameta : (s.addInvite a).ameta = s.ameta := (keeps_addInvite s a).ameta
@[simp] theorem addInvite_ifunds : (s.addInvite a).ifunds = s.ifunds := (keeps_addInvite s a).ifunds
@[simp] theorem addInvite_reg : (s.addInvite a).reg = s.reg := (keeps_addInvite s a).reg
@[simp] theorem addInvite_epoch : (s.addInvite a).g.epoch = s.g.epoch := (keeps_addInvite s a).epoch
@[simp] theorem incShardSize_afunds : (s.incShardSize a).afunds = s.afunds := (keeps_incShardSize s a).afunds
@[simp] theorem incShardSize_ameta : (s.incShardSize a).ameta = s.ameta := (keeps_incShardSize s a).ameta
@[simp] theorem incShardSize_ifunds : (s.incShardSize a).ifunds = s.ifunds := (keeps_incShardSize s a).ifunds
@[simp] theorem incShardSize_reg : (s.incShardSize a).reg = s.reg := (keeps_incShardSize s a).reg
@[simp] theorem incShardSize_epoch : (s.incShardSize a).g.epoch = s.g.epoch := (keeps_incShardSize s a).epoch
@[simp] theorem decShardSize_afunds : (s.decShardSize a).afunds = s.afunds := (keeps_decShardSize s a).afunds
@[simp] theorem decShardSize_ameta : (s.decShardSize a).ameta = s.ameta := (keeps_decShardSize s a).ameta
@[simp] theorem decShardSize_ifunds : (s.decShardSize a).ifunds = s.ifunds := (keeps_decShardSize s a).ifunds
@[simp] theorem decShardSize_reg : (s.decShardSize a).reg = s.reg := (keeps_decShardSize s a).reg
@[simp] theorem decShardSize_epoch : (s.decShardSize a).g.epoch = s.g.epoch := (keeps_decShardSize s a).epoch
@[simp] theorem leaveShard_afunds : (s.leaveShard a).afunds = s.afunds := (keeps_leaveShard s a).afunds
@[simp] theorem leaveShard_ameta : (s.leaveShard a).ameta = s.ameta := (keeps_leaveShard s a).ameta
@[simp] theorem leaveShard_ifunds : (s.leaveShard a).ifunds = s.ifunds := (keeps_leaveShard s a).ifunds
@[simp] theorem leaveShard_reg : (s.leaveShard a).reg = s.reg := (keeps_leaveShard s a).reg
@[simp] theorem leaveShard_epoch : (s.leaveShard a).g.epoch = s.g.epoch := (keeps_leaveShard s a).epoch
@[simp] theorem removeLinkWithInviter_afunds : (s.removeLinkWithInviter a).afunds = s.afunds := (keeps_removeLinkWithInviter s a).afunds
@[simp] theorem removeLinkWithInviter_ameta : (s.removeLinkWithInviter a).ameta = s.ameta := (keeps_removeLinkWithInviter s a).ameta
@[simp] theorem removeLinkWithInviter_ifunds : (s.removeLinkWithInviter a).ifunds = s.ifunds := (keeps_removeLinkWithInviter s a).ifunds
@[simp] theorem removeLinkWithInviter_reg : (s.removeLinkWithInviter a).reg = s.reg := (keeps_removeLinkWithInviter s a).reg
@[simp] theorem removeLinkWithInviter_epoch : (s.removeLinkWithInviter a).g.epoch = s.g.epoch := (keeps_removeLinkWithInviter s a).epoch
@[simp] theorem removeLinkWithInvitees_afunds : (s.removeLinkWithInvitees a).afunds = s.afunds := (keeps_removeLinkWithInvitees s a).afunds
@[simp] theorem removeLinkWithInvitees_ameta : (s.removeLinkWithInvitees a).ameta = s.ameta := (keeps_removeLinkWithInvitees s a).ameta
@[simp] theorem removeLinkWithInvitees_ifunds : (s.removeLinkWithInvitees a).ifunds = s.ifunds := (keeps_removeLinkWithInvitees s a).ifunds
@[simp] theorem removeLinkWithInvitees_reg : (s.removeLinkWithInvitees a).reg = s.reg := (keeps_removeLinkWithInvitees s a).reg
@[simp] theorem removeLinkWithInvitees_epoch : (s.removeLinkWithInvitees a).g.epoch = s.g.epoch := (keeps_removeLinkWithInvitees s a).epoch
@[simp] theorem removeLinks_afunds : (s.removeLinks a).afunds = s.afunds := (keeps_removeLinks s a).afunds
@[simp] theorem removeLinks_ameta : (s.removeLinks a).ameta = s.ameta := (keeps_removeLinks s a).ameta
@[simp] theorem removeLinks_ifunds : (s.removeLinks a).ifunds = s.ifunds := (keeps_removeLinks s a).ifunds
@[simp] theorem removeLinks_reg : (s.removeLinks a).reg = s.reg := (keeps_removeLinks s a).reg
@[simp] theorem removeLinks_epoch : (s.removeLinks a).g.epoch = s.g.epoch := (keeps_removeLinks s a).epoch

end
end State

end IdenaModel.Ledger
