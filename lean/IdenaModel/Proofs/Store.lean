import IdenaModel.Model.Store
/-! Helper lemmas for C13 (overlay refinement).  Core Lean only. -/
namespace IdenaModel.Store

theorem kvGet_kvSet (m : KV) (k k' : Nat) (v : Val) :
    kvGet (kvSet m k v) k' = if k' = k then some v else kvGet m k' := by
  induction m with
  | nil => simp [kvSet, kvGet]
  | cons hd t ih =>
    obtain ⟨a, b⟩ := hd
    simp only [kvSet]
    split
    · simp [kvGet]
    · split
      · subst_vars; simp only [kvGet]; split <;> simp_all
      · simp only [kvGet, ih]; split <;> split <;> simp_all <;> omega

theorem mem_keys_of_kvGet {m : KV} {k : Nat} {v : Val} (h : kvGet m k = some v) : (k, v) ∈ m := by
  induction m with
  | nil => simp [kvGet] at h
  | cons hd t ih =>
    obtain ⟨a, b⟩ := hd
    simp only [kvGet] at h
    split at h
    · simp_all
    · exact List.mem_cons_of_mem _ (ih h)

theorem kvGet_of_mem {m : KV} (hs : Sorted m) {k : Nat} {v : Val} (h : (k, v) ∈ m) :
    kvGet m k = some v := by
  induction m with
  | nil => simp at h
  | cons hd t ih =>
    obtain ⟨a, b⟩ := hd
    have hs' := List.pairwise_cons.mp hs
    simp only [kvGet]
    rcases List.mem_cons.mp h with e | e
    · simp_all
    · have := hs'.1 _ e
      simp at this
      have hne : k ≠ a := by omega
      simp [hne, ih hs'.2 e]

theorem mem_iff_kvGet {m : KV} (hs : Sorted m) (k : Nat) (v : Val) :
    (k, v) ∈ m ↔ kvGet m k = some v := ⟨kvGet_of_mem hs, mem_keys_of_kvGet⟩

theorem kvGet_none_of_lt {m : KV} {k : Nat} (h : ∀ p ∈ m, k < p.1) : kvGet m k = none := by
  induction m with
  | nil => rfl
  | cons hd t ih =>
    obtain ⟨a, b⟩ := hd
    have := h (a, b) (by simp)
    simp at this
    simp only [kvGet]
    have hne : k ≠ a := by omega
    simp [hne]
    exact ih (fun p hp => h p (List.mem_cons_of_mem _ hp))

theorem mem_kvSet {m : KV} {k : Nat} {v : Val} {p : Nat × Val} (h : p ∈ kvSet m k v) :
    p = (k, v) ∨ p ∈ m := by
  induction m with
  | nil => simp_all [kvSet]
  | cons hd t ih =>
    obtain ⟨a, b⟩ := hd
    simp only [kvSet] at h
    split at h
    · simp_all
    · split at h
      · rcases List.mem_cons.mp h with e | e <;> simp_all
      · rcases List.mem_cons.mp h with e | e
        · simp_all
        · rcases ih e with e' | e' <;> simp_all

theorem sorted_kvSet {m : KV} (hs : Sorted m) (k : Nat) (v : Val) : Sorted (kvSet m k v) := by
  induction m with
  | nil => simp [kvSet, Sorted]
  | cons hd t ih =>
    obtain ⟨a, b⟩ := hd
    have hs' := List.pairwise_cons.mp hs
    simp only [kvSet]
    split
    · refine List.pairwise_cons.mpr ⟨?_, hs⟩
      intro p hp
      rcases List.mem_cons.mp hp with e | e
      · simp_all
      · have := hs'.1 p e; simp at this ⊢; omega
    · split
      · subst_vars
        exact List.pairwise_cons.mpr ⟨fun p hp => hs'.1 p hp, hs'.2⟩
      · refine List.pairwise_cons.mpr ⟨?_, ih hs'.2⟩
        intro p hp
        rcases mem_kvSet hp with e | e
        · subst e; simp; omega
        · exact hs'.1 p e

theorem mem_kvDel {m : KV} {k : Nat} {p : Nat × Val} (h : p ∈ kvDel m k) : p ∈ m := by
  induction m with
  | nil => simp_all [kvDel]
  | cons hd t ih =>
    obtain ⟨a, b⟩ := hd
    simp only [kvDel] at h
    split at h
    · exact List.mem_cons_of_mem _ h
    · rcases List.mem_cons.mp h with e | e
      · simp_all
      · exact List.mem_cons_of_mem _ (ih e)

theorem sorted_kvDel {m : KV} (hs : Sorted m) (k : Nat) : Sorted (kvDel m k) := by
  induction m with
  | nil => simp [kvDel, Sorted]
  | cons hd t ih =>
    obtain ⟨a, b⟩ := hd
    have hs' := List.pairwise_cons.mp hs
    simp only [kvDel]
    split
    · exact hs'.2
    · exact List.pairwise_cons.mpr ⟨fun p hp => hs'.1 p (mem_kvDel hp), ih hs'.2⟩

theorem kvGet_kvDel {m : KV} (hs : Sorted m) (k k' : Nat) :
    kvGet (kvDel m k) k' = if k' = k then none else kvGet m k' := by
  induction m with
  | nil => simp [kvDel, kvGet]
  | cons hd t ih =>
    obtain ⟨a, b⟩ := hd
    have hs' := List.pairwise_cons.mp hs
    simp only [kvDel]
    split
    · subst_vars
      split
      · subst_vars
        exact kvGet_none_of_lt (fun p hp => by have := hs'.1 p hp; simpa using this)
      · simp [kvGet, *]
    · simp only [kvGet, ih hs'.2]
      split <;> split <;> simp_all

theorem sorted_applyB {m : KV} (hs : Sorted m) (b : BOp) : Sorted (kvApplyB m b) := by
  cases b <;> simp [kvApplyB, sorted_kvSet, sorted_kvDel, hs]

theorem sorted_foldl_applyB {m : KV} (hs : Sorted m) (bs : List BOp) :
    Sorted (bs.foldl kvApplyB m) := by
  induction bs generalizing m with
  | nil => simpa
  | cons b bs ih => exact ih (sorted_applyB hs b)

/-! ### ranges -/

theorem sorted_kvRange {m : KV} (hs : Sorted m) (lo hi : Option Nat) : Sorted (kvRange m lo hi) :=
  List.Pairwise.filter _ hs

theorem mem_kvRange {m : KV} (lo hi : Option Nat) (p : Nat × Val) :
    p ∈ kvRange m lo hi ↔ p ∈ m ∧ inRange lo hi p.1 = true := by
  simp [kvRange, List.mem_filter]

/-! ### direction-generic order -/

def dirLt (rev : Bool) (a b : Nat) : Prop := if rev then b < a else a < b

theorem dirLt_false : dirLt false = fun a b => a < b := by funext a b; simp [dirLt]
theorem dirLt_true : dirLt true = fun a b => b < a := by funext a b; simp [dirLt]

def DSorted (rev : Bool) (m : KV) : Prop := m.Pairwise (fun a b => dirLt rev a.1 b.1)

theorem dsorted_false {m : KV} : DSorted false m ↔ Sorted m := by simp [DSorted, Sorted, dirLt]

theorem dsorted_true_reverse {m : KV} (hs : Sorted m) : DSorted true m.reverse := by
  unfold DSorted; rw [List.pairwise_reverse]; simpa [dirLt, Sorted] using hs

/-- two lists sorted in the same direction with the same members are equal -/
theorem dsorted_ext (rev : Bool) : ∀ {l₁ l₂ : KV}, DSorted rev l₁ → DSorted rev l₂ →
    (∀ p, p ∈ l₁ ↔ p ∈ l₂) → l₁ = l₂
  | [], [], _, _, _ => rfl
  | [], b :: _, _, _, h => by have := (h b).mpr (by simp); simp at this
  | a :: _, [], _, _, h => by have := (h a).mp (by simp); simp at this
  | a :: l₁, b :: l₂, h₁, h₂, h => by
    have h₁' := List.pairwise_cons.mp h₁
    have h₂' := List.pairwise_cons.mp h₂
    have hab : a = b := by
      have ha := (h a).mp (by simp)
      have hb := (h b).mpr (by simp)
      rcases List.mem_cons.mp ha with e | e
      · exact e
      · rcases List.mem_cons.mp hb with e' | e'
        · exact e'.symm
        · have x := h₂'.1 a e
          have y := h₁'.1 b e'
          unfold dirLt at x y
          cases rev <;> simp at x y <;> omega
    subst hab
    congr 1
    apply dsorted_ext rev h₁'.2 h₂'.2
    intro p
    constructor
    · intro hp
      rcases List.mem_cons.mp ((h p).mp (List.mem_cons_of_mem _ hp)) with e | e
      · subst e
        have := h₁'.1 p hp
        unfold dirLt at this; cases rev <;> simp at this
      · exact e
    · intro hp
      rcases List.mem_cons.mp ((h p).mpr (List.mem_cons_of_mem _ hp)) with e | e
      · subst e
        have := h₂'.1 p hp
        unfold dirLt at this; cases rev <;> simp at this
      · exact e

end IdenaModel.Store

namespace IdenaModel.Store

/-! ### the merged iterator -/

theorem mem_merged (rev : Bool) (touched : Nat → Bool) (getv : Nat → Option Val)
    (ik : List Nat) (pm : KV) (ht : ∀ i ∈ ik, touched i = true) (k : Nat) (v : Val) :
    (k, v) ∈ merged rev touched getv ik pm ↔
      (k ∈ ik ∧ v = (getv k).getD "") ∨ ((k, v) ∈ pm ∧ touched k = false) := by
  fun_induction merged rev touched getv ik pm <;> simp_all <;> grind

theorem dsorted_merged (rev : Bool) (touched : Nat → Bool) (getv : Nat → Option Val)
    (ik : List Nat) (pm : KV) (ht : ∀ i ∈ ik, touched i = true)
    (hi : ik.Pairwise (dirLt rev)) (hp : DSorted rev pm) :
    DSorted rev (merged rev touched getv ik pm) := by
  unfold DSorted at *
  fun_induction merged rev touched getv ik pm
  · simp
  · rename_i i iks ih
    have hi' := List.pairwise_cons.mp hi
    have ht' : ∀ j ∈ iks, touched j = true := fun j hj => ht j (List.mem_cons_of_mem _ hj)
    refine List.pairwise_cons.mpr ⟨?_, ih ht' hi'.2 hp⟩
    rintro ⟨x, y⟩ hx
    have := (mem_merged rev touched getv iks [] ht' x y).mp hx
    simp at this
    exact hi'.1 x this.1
  · rename_i p ps _ ih
    exact ih ht hi (List.pairwise_cons.mp hp).2
  · rename_i p ps _ ih
    have hp' := List.pairwise_cons.mp hp
    refine List.pairwise_cons.mpr ⟨?_, ih ht hi hp'.2⟩
    rintro ⟨x, y⟩ hx
    have := (mem_merged rev touched getv [] ps (by simp) x y).mp hx
    simp at this
    exact hp'.1 _ this.1
  · rename_i iks p ps hle ih
    have hi' := List.pairwise_cons.mp hi
    have hp' := List.pairwise_cons.mp hp
    have ht' : ∀ j ∈ iks, touched j = true := fun j hj => ht j (List.mem_cons_of_mem _ hj)
    refine List.pairwise_cons.mpr ⟨?_, ih ht' hi'.2 hp'.2⟩
    rintro ⟨x, y⟩ hx
    rcases (mem_merged rev touched getv iks ps ht' x y).mp hx with h | h
    · exact hi'.1 x h.1
    · exact hp'.1 _ h.1
  · rename_i i iks p ps hle hne ih
    have hi' := List.pairwise_cons.mp hi
    have hp' := List.pairwise_cons.mp hp
    have ht' : ∀ j ∈ iks, touched j = true := fun j hj => ht j (List.mem_cons_of_mem _ hj)
    refine List.pairwise_cons.mpr ⟨?_, ih ht' hi'.2 hp⟩
    rintro ⟨x, y⟩ hx
    rcases (mem_merged rev touched getv iks (p :: ps) ht' x y).mp hx with h | h
    · exact hi'.1 x h.1
    · rcases List.mem_cons.mp h.1 with e | e
      · subst e; cases rev <;> simp [dirLt] at * <;> omega
      · have := hp'.1 _ e; cases rev <;> simp [dirLt] at * <;> omega
  · rename_i i iks p ps hle _ ih
    exact ih ht hi (List.pairwise_cons.mp hp).2
  · rename_i i iks p ps hle _ ih
    have hi' := List.pairwise_cons.mp hi
    have hp' := List.pairwise_cons.mp hp
    refine List.pairwise_cons.mpr ⟨?_, ih ht hi hp'.2⟩
    rintro ⟨x, y⟩ hx
    rcases (mem_merged rev touched getv (i :: iks) ps ht x y).mp hx with h | h
    · rcases List.mem_cons.mp h.1 with e | e
      · subst e; cases rev <;> simp [dirLt] at * <;> omega
      · have := hi'.1 x e; cases rev <;> simp [dirLt] at * <;> omega
    · exact hp'.1 _ h.1

end IdenaModel.Store
