import IdenaModel.Model.ContractEnv
import Mathlib.Tactic.Ring
import Mathlib.Tactic.Linarith
/-!
# Lemmas about M-Contract (helper file of `Props/C15.lean`)
-/
namespace IdenaModel.ContractEnv

/-! ## `getGasLimit`: the decimal division -/

theorem decDivTrunc_ge (d fpg : Nat) (hf : 0 < fpg) : d / fpg ≤ decDivTrunc d fpg := by
  unfold decDivTrunc
  have h1 : d / fpg * 10 ^ 16 ≤ d * 10 ^ 16 / fpg := by
    rw [Nat.le_div_iff_mul_le hf]
    calc d / fpg * 10 ^ 16 * fpg = (fpg * (d / fpg)) * 10 ^ 16 := by ring
      _ ≤ d * 10 ^ 16 := Nat.mul_le_mul_right _ (Nat.mul_div_le d fpg)
  rw [Nat.le_div_iff_mul_le (by norm_num)]
  split <;> omega

/-- below `2·10¹⁶` per gas unit the decimal rounding never lifts the quotient: the limit is the floor -/
theorem decDivTrunc_eq_div (d fpg : Nat) (hf : 0 < fpg) (hsmall : fpg < 2 * 10 ^ 16) :
    decDivTrunc d fpg = d / fpg := by
  apply Nat.le_antisymm _ (decDivTrunc_ge d fpg hf)
  unfold decDivTrunc
  -- d = fpg * k + s
  obtain ⟨k, s, hd, hs⟩ : ∃ k s, d = fpg * k + s ∧ s < fpg := ⟨d / fpg, d % fpg, (Nat.div_add_mod d fpg).symm, Nat.mod_lt _ hf⟩
  have hk : d / fpg = k := by
    subst hd
    rw [Nat.mul_add_div hf, Nat.div_eq_of_lt hs, Nat.add_zero]
  rw [hk]
  set X := d * 10 ^ 16 with hX
  have hqr : fpg * (X / fpg) + X % fpg = X := Nat.div_add_mod X fpg
  have hr : X % fpg < fpg := Nat.mod_lt _ hf
  set q := X / fpg
  set r := X % fpg
  have hXe : X = fpg * (k * 10 ^ 16) + s * 10 ^ 16 := by rw [hX, hd]; ring
  -- q < (k+1) * 10^16, and q + 1 < (k+1) * 10^16 when the remainder rounds up
  have hq_lt : q < (k + 1) * 10 ^ 16 := by
    by_contra hge
    have hge := Nat.le_of_not_lt hge
    have : fpg * ((k + 1) * 10 ^ 16) ≤ fpg * q := Nat.mul_le_mul_left _ hge
    have h2 : fpg * ((k + 1) * 10 ^ 16) = fpg * (k * 10 ^ 16) + fpg * 10 ^ 16 := by ring
    have h3 : s * 10 ^ 16 < fpg * 10 ^ 16 := Nat.mul_lt_mul_of_pos_right hs (by norm_num)
    omega
  apply Nat.le_of_lt_succ
  rw [Nat.div_lt_iff_lt_mul (by norm_num)]
  split
  · rename_i hround
    by_contra hge
    have hge := Nat.le_of_not_lt hge
    have hqe : q + 1 = (k + 1) * 10 ^ 16 := by omega
    have h1 : fpg * (q + 1) = fpg * (k * 10 ^ 16) + fpg * 10 ^ 16 := by rw [hqe]; ring
    have h2 : fpg * (q + 1) = fpg * q + fpg := by ring
    have h3 : (s + 1) * 10 ^ 16 ≤ fpg * 10 ^ 16 := Nat.mul_le_mul_right _ hs
    have h4 : (s + 1) * 10 ^ 16 = s * 10 ^ 16 + 10 ^ 16 := by ring
    omega
  · omega

/-- `fpg * ⌊d / fpg⌋ ≤ d` -/
theorem mul_div_le' (d fpg : Nat) : fpg * (d / fpg) ≤ d := Nat.mul_div_le d fpg


/-! ## Point updates and sums over a duplicate-free domain -/

@[simp] theorem upd_same {α : Type} (f : Addr → α) (a : Addr) (v : α) : upd f a v a = v := by simp [upd]
theorem upd_other {α : Type} (f : Addr → α) (a x : Addr) (v : α) (h : x ≠ a) : upd f a v x = f x := by simp [upd, h]
theorem upd_apply {α : Type} (f : Addr → α) (a x : Addr) (v : α) : upd f a v x = if x = a then v else f x := rfl

def sumOver (dom : List Addr) (f : Addr → Int) : Int := (dom.map f).sum

theorem sumOver_upd_notin (dom : List Addr) (f : Addr → Int) (a : Addr) (v : Int) (h : a ∉ dom) :
    sumOver dom (upd f a v) = sumOver dom f := by
  induction dom with
  | nil => rfl
  | cons x t ih =>
    simp only [List.mem_cons, not_or] at h
    simp only [sumOver, List.map_cons, List.sum_cons] at ih ⊢
    rw [ih h.2, upd_other _ _ _ _ (Ne.symm h.1)]

theorem sumOver_upd (dom : List Addr) (f : Addr → Int) (a : Addr) (v : Int) (hn : dom.Nodup) (h : a ∈ dom) :
    sumOver dom (upd f a v) = sumOver dom f - f a + v := by
  induction dom with
  | nil => simp at h
  | cons x t ih =>
    have hx : x ∉ t := (List.nodup_cons.mp hn).1
    have ht : t.Nodup := (List.nodup_cons.mp hn).2
    simp only [sumOver, List.map_cons, List.sum_cons]
    rcases List.mem_cons.mp h with rfl | hmem
    · have := sumOver_upd_notin t f a v hx
      simp only [sumOver] at this
      rw [this, upd_same]; ring
    · have hne : x ≠ a := fun e => hx (e ▸ hmem)
      have := ih ht hmem
      simp only [sumOver] at this
      rw [this, upd_other _ _ _ _ hne]; ring

theorem sumOver_congr (dom : List Addr) (f g : Addr → Int) (h : ∀ a ∈ dom, f a = g a) : sumOver dom f = sumOver dom g := by
  induction dom with
  | nil => rfl
  | cons x t ih =>
    simp only [sumOver, List.map_cons, List.sum_cons] at ih ⊢
    rw [h x (List.mem_cons_self), ih (fun a ha => h a (List.mem_cons_of_mem _ ha))]

theorem sumOver_add (dom : List Addr) (f g : Addr → Int) : sumOver dom (fun a => f a + g a) = sumOver dom f + sumOver dom g := by
  induction dom with
  | nil => rfl
  | cons x t ih =>
    simp only [sumOver, List.map_cons, List.sum_cons] at ih ⊢
    rw [ih]; ring

/-! ## Embedded environment: the funds-related projection -/

namespace EEnv

/-- everything of an `EEnv` that balances, stakes and the commit of contracts depend on -/
structure Led where
  base : Base
  balC : Addr → Option Int
  deployed : Addr → Option CData
  dropped : Addr → Bool
  stakeC : Addr → Option Int
  burnt : Int
  minted : Int

def led (e : EEnv) : Led := ⟨e.base, e.balC, e.deployed, e.dropped, e.stakeC, e.burnt, e.minted⟩

theorem led_addGas (e : EEnv) (g : Nat) : (e.addGas g).1.led = e.led := by
  unfold addGas; simp only; split <;> rfl

theorem led_writeStore (e : EEnv) (k : SKey) (v : Option Bytes) : (e.writeStore k v).led = e.led := rfl

theorem led_advance : ∀ (fuel : Nat) (e : EEnv) (cur : Cursor), (e.advance cur fuel).1.led = e.led := by
  intro fuel
  induction fuel with
  | zero => intro e cur; rfl
  | succ n ih =>
    intro e cur
    unfold advance
    split
    · split
      · simp only
        have := led_addGas e (ReadStatePerByteGas * byteLen ‹Bytes›)
        split <;> simp_all
      · exact ih _ _
    · split
      · split
        · exact ih _ _
        · split
          · simp only
            have := led_addGas e (ReadStatePerByteGas * byteLen ‹Bytes›)
            split <;> simp_all
          · exact ih _ _
      · rfl

theorem led_terminateLoop (keep : List Bytes) : ∀ (fuel : Nat) (e : EEnv) (cur : Cursor), (e.terminateLoop cur keep fuel).1.led = e.led := by
  intro fuel
  induction fuel with
  | zero => intro e cur; rfl
  | succ n ih =>
    intro e cur
    unfold terminateLoop
    have hadv := led_advance (cur.phase1.length + cur.phase2.length + 1) e cur
    split
    · rename_i h; rw [h] at hadv; exact hadv
    · rename_i h; rw [h] at hadv; exact hadv
    · rename_i e1 cur1 k v h
      rw [h] at hadv
      simp only at hadv
      split
      · rw [ih]; exact hadv
      · simp only
        have hg := led_addGas (e1.writeStore (cur.c, k) none) RemoveStateGas
        rw [led_writeStore] at hg
        split
        · rw [ih, hg, hadv]
        · rw [hg, hadv]


namespace Led
def getBal (l : Led) (a : Addr) : Int := (l.balC a).getD (l.base.bal a)
def setBal (l : Led) (a : Addr) (v : Int) : Led := { l with balC := upd l.balC a (some v) }
def stakeView (l : Led) (a : Addr) : Int :=
  match l.deployed a with
  | some d => d.stake
  | none => match l.stakeC a with
    | some s => s
    | none => stakeOf (l.base.con a)
def conAfter (l : Led) (a : Addr) : Option CData :=
  let c1 := match l.deployed a with | some d => some d | none => l.base.con a
  let c2 := if l.dropped a then none else c1
  match l.stakeC a with
  | some s => some ⟨s, match c2 with | some d => d.code | none => 0⟩
  | none => c2

/-- the effect of a call on the funds-related part when it is not cut short by a panic -/
def step (l : Led) : ECall → Led
  | .send c dest amt =>
    if l.getBal c < amt then l else if amt < 0 then l else
    let l1 := l.setBal c (l.getBal c - amt)
    l1.setBal dest (l1.getBal dest + amt)
  | .mvstake c amt =>
    if l.getBal c < amt then l else if amt < 0 then l else
    let l1 := l.setBal c (l.getBal c - amt)
    match l1.deployed c with
    | some d => { l1 with deployed := upd l1.deployed c (some { d with stake := d.stake + amt }) }
    | none => { l1 with stakeC := upd l1.stakeC c (some (l1.stakeView c + amt)) }
  | .burnAll c => { l.setBal c 0 with burnt := l.burnt + l.getBal c }
  | .deploy c stake code => { l with deployed := upd l.deployed c (some ⟨stake, code⟩), minted := l.minted + (stake - l.stakeView c) }
  | .terminate c dest _ =>
    let stake := stakeOf (l.base.con c)
    if stake = 0 then l else
    let refund := Int.tdiv stake 2
    let l1 := l.setBal dest (l.getBal dest + refund)
    { l1 with dropped := upd l1.dropped c true, burnt := l1.burnt + (stake - refund) }
  | _ => l
end Led

theorem getBal_led (e : EEnv) (a : Addr) : e.getBal a = e.led.getBal a := rfl
theorem stakeView_led (e : EEnv) (a : Addr) : e.stakeView a = e.led.stakeView a := rfl
theorem conAfter_led (e : EEnv) (a : Addr) : e.conAfter a = e.led.conAfter a := rfl
theorem setBal_led (e : EEnv) (a : Addr) (v : Int) : (e.setBal a v).led = e.led.setBal a v := rfl

theorem charge_led (e : EEnv) (g : Nat) (k : EEnv → EEnv × Res) :
    (e.charge g k).1.led = e.led ∨ e.charge g k = k (e.addGas g).1 := by
  unfold charge
  simp only
  split
  · right; rfl
  · left; exact led_addGas e g

theorem charge_id_led (e : EEnv) (g : Nat) (r : Res) : (e.charge g fun e => (e, r)).1.led = e.led := by
  rcases charge_led e g (fun e => (e, r)) with h | h
  · exact h
  · rw [h]; exact led_addGas e g

/-- every call either leaves the funds-related part alone (refused, out of gas) or performs `Led.step` -/
theorem step_led (e : EEnv) (c : ECall) : (e.step c).1.led = e.led ∨ (e.step c).1.led = e.led.step c := by
  cases c with
  | rd g => left; simp only [step]; exact charge_id_led _ _ _
  | set c k v =>
    left; simp only [step]; split
    · rfl
    · rw [charge_id_led, led_writeStore]
  | get a k =>
    left; simp only [step]; split
    · rfl
    · exact charge_id_led _ _ _
    · exact charge_id_led _ _ _
  | rm c k => left; simp only [step]; rw [charge_id_led, led_writeStore]
  | send c dest amt =>
    right; simp only [step, Led.step, ← getBal_led]
    by_cases h1 : e.getBal c < amt
    · simp [h1]
    · by_cases h2 : amt < 0
      · simp [h1, h2]
      · simp only [h1, h2, if_false]
        rw [charge_id_led]; rfl
  | bal a =>
    left; simp only [step]
    rcases charge_led e ReadBalanceGas (fun e => (e, Res.num (e.getBal a))) with h | h
    · exact h
    · rw [h]; exact led_addGas _ _
  | stake a =>
    left; simp only [step]
    rcases charge_led e ReadStateGas (fun e => (e, Res.num (e.stakeView a))) with h | h
    · exact h
    · rw [h]; exact led_addGas _ _
  | mvstake c amt =>
    simp only [step, Led.step, ← getBal_led]
    by_cases h1 : e.getBal c < amt
    · right; simp [h1]
    · by_cases h2 : amt < 0
      · right; simp [h1, h2]
      · simp only [h1, h2, if_false]
        by_cases hnil : ((e.deployed c).isNone && (e.stakeC c).isNone && ((e.base.con c).isNone || e.base.stakeNil c)) = true
        · left; simp only [hnil, if_true]; rfl
        right
        simp only [hnil, Bool.false_eq_true, if_false]
        cases hd : e.deployed c with
        | none =>
          have : (e.led.setBal c (e.getBal c - amt)).deployed c = none := hd
          simp only [this]
          have : (e.setBal c (e.getBal c - amt)).deployed c = none := hd
          simp only [this]
          rfl
        | some d =>
          have : (e.led.setBal c (e.getBal c - amt)).deployed c = some d := hd
          simp only [this]
          have : (e.setBal c (e.getBal c - amt)).deployed c = some d := hd
          simp only [this]
          rfl
  | burnAll c =>
    simp only [step]
    rcases charge_led e BurnAllGas (fun e => ({ e.setBal c 0 with burnt := e.burnt + e.getBal c }, Res.burnt (e.getBal c))) with h | h
    · left; exact h
    · right; rw [h]
      have := led_addGas e BurnAllGas
      simp only [led, Led.step, Led.setBal, setBal, getBal, Led.getBal] at this ⊢
      simp_all
  | event nameOk size =>
    left; simp only [step]; split
    · rfl
    · rcases charge_led e (EmitEventBase + EmitEventPerByteGas * size) (fun e => ({ e with events := e.events + 1 }, Res.ok)) with h | h
      · exact h
      · rw [h]; exact led_addGas _ _
  | deploy c stake code =>
    right; simp only [step]; rw [charge_id_led]; rfl
  | terminate c dest keep =>
    simp only [step, Led.step]
    by_cases h0 : stakeOf (e.base.con c) = 0
    · left; simp [h0]
    · right
      have h0' : ¬ stakeOf (e.led.base.con c) = 0 := h0
      simp only [h0, h0', if_false]
      split <;> (simp only []; rw [led_terminateLoop]; rfl)
  | iter c lo hi => left; rfl
  | item =>
    left; simp only [step]
    split
    · rfl
    · rename_i cur rest _
      have hadv := led_advance (cur.phase1.length + cur.phase2.length + 1) e cur
      split
      · rename_i h; rw [h] at hadv; exact hadv
      · rename_i h; rw [h] at hadv; exact hadv
      · rename_i h; rw [h] at hadv; exact hadv
  | itret stop =>
    left; simp only [step]
    split
    · rfl
    · split <;> rfl


namespace Led

@[simp] theorem getBal_setBal (l : Led) (a x : Addr) (v : Int) : (l.setBal a v).getBal x = if x = a then v else l.getBal x := by
  unfold getBal setBal upd; simp only; split <;> simp

theorem step_base (l : Led) (c : ECall) : (l.step c).base = l.base := by
  cases c <;> simp only [step] <;> (try rfl)
  · split; rfl; split <;> rfl
  · split; rfl; split; rfl; (split <;> rfl)
  · split <;> rfl

/-- no balance the environment shows is negative and no stake in the state is -/
def NonNeg (l : Led) : Prop := (∀ a, 0 ≤ l.getBal a) ∧ (∀ a, 0 ≤ stakeOf (l.base.con a))

theorem step_nonneg (l : Led) (c : ECall) (h : l.NonNeg) : (l.step c).NonNeg := by
  refine ⟨?_, by rw [step_base]; exact h.2⟩
  obtain ⟨hb, hs⟩ := h
  cases c <;> simp only [step] <;> (try exact hb)
  · rename_i c dest amt
    by_cases h1 : l.getBal c < amt
    · simp [h1]; exact hb
    · by_cases h2 : amt < 0
      · simp [h1, h2]; exact hb
      · simp only [h1, h2, if_false]
        intro a
        have := hb a; have := hb c; have := hb dest
        simp only [getBal_setBal]
        split_ifs <;> omega
  · rename_i c amt
    by_cases h1 : l.getBal c < amt
    · simp [h1]; exact hb
    · by_cases h2 : amt < 0
      · simp [h1, h2]; exact hb
      · simp only [h1, h2, if_false]
        intro a
        have := hb a; have := hb c
        split <;> (show 0 ≤ (l.setBal c (l.getBal c - amt)).getBal a; rw [getBal_setBal]; split_ifs <;> omega)
  · rename_i c
    intro a
    have h3 : ({ l.setBal c 0 with burnt := l.burnt + l.getBal c } : Led).getBal a = (l.setBal c 0).getBal a := rfl
    rw [h3, getBal_setBal]; have := hb a; split_ifs <;> omega
  · rename_i c dest keep
    split
    · exact hb
    · intro a
      have hst := hs c
      have h3 : ∀ (d : Addr → Bool) (b : Int) (l1 : Led), ({ l1 with dropped := d, burnt := b } : Led).getBal a = l1.getBal a := fun _ _ _ => rfl
      rw [h3, getBal_setBal]
      have := hb a; have := hb dest
      have : 0 ≤ (stakeOf (l.base.con c)).tdiv 2 := Int.tdiv_nonneg hst (by omega)
      split_ifs <;> omega


end Led

end EEnv

theorem sumOver_point (dom : List Addr) (f g : Addr → Int) (a : Addr) (hn : dom.Nodup) (ha : a ∈ dom)
    (h : ∀ x, x ≠ a → g x = f x) : sumOver dom g = sumOver dom f - f a + g a := by
  have : g = upd f a (g a) := by
    funext x; by_cases hx : x = a
    · subst hx; simp
    · rw [upd_other _ _ _ _ hx, h x hx]
  rw [this, sumOver_upd dom f a (g a) hn ha]; simp

/-- calls a contract body can make: `EnvImp.Deploy` / `EnvImp.Terminate` are not part of `env.Env`; `vm.go` makes them
after the body -/
def ECall.isBody : ECall → Bool
  | .deploy .. => false
  | .terminate .. => false
  | _ => true

/-- the addresses whose funds a call can change -/
def ECall.addrs : ECall → List Addr
  | .send c dest _ => [c, dest]
  | .mvstake c _ => [c]
  | .burnAll c => [c]
  | .deploy c _ _ => [c]
  | .terminate c dest _ => [c, dest]
  | _ => []

namespace EEnv
namespace Led

/-- balances and contract stakes as `Commit` would write them -/
def total (dom : List Addr) (l : Led) : Int := sumOver dom l.getBal + sumOver dom (fun a => stakeOf (l.conAfter a))

/-- during a contract body nothing is deployed or dropped -/
def Body (l : Led) : Prop := (∀ a, l.deployed a = none) ∧ (∀ a, l.dropped a = false)

theorem step_body (l : Led) (c : ECall) (hc : c.isBody = true) (h : l.Body) : (l.step c).Body := by
  cases c with
  | deploy => simp [ECall.isBody] at hc
  | terminate => simp [ECall.isBody] at hc
  | send c dest amt => simp only [step]; split; exact h; split <;> exact h
  | mvstake c amt =>
    simp only [step]
    split; exact h; split; exact h
    have hd : (l.setBal c (l.getBal c - amt)).deployed c = none := h.1 c
    simp only [hd]; exact h
  | burnAll c => exact h
  | _ => exact h

theorem conAfter_body (l : Led) (h : l.Body) (a : Addr) :
    l.conAfter a = match l.stakeC a with
      | some s => some ⟨s, match l.base.con a with | some d => d.code | none => 0⟩
      | none => l.base.con a := by
  unfold conAfter; simp only [h.1 a, h.2 a]; rfl

theorem stakeView_body (l : Led) (h : l.Body) (a : Addr) : l.stakeView a = stakeOf (l.conAfter a) := by
  rw [conAfter_body l h]; unfold stakeView; simp only [h.1 a]
  cases l.stakeC a <;> rfl

theorem step_total_body (dom : List Addr) (hn : dom.Nodup) (l : Led) (c : ECall) (hc : c.isBody = true) (hb : l.Body)
    (hd : ∀ a ∈ c.addrs, a ∈ dom) :
    total dom (l.step c) + (l.step c).burnt = total dom l + l.burnt ∧ (l.step c).minted = l.minted := by
  cases c with
  | deploy => simp [ECall.isBody] at hc
  | terminate => simp [ECall.isBody] at hc
  | rd => exact ⟨rfl, rfl⟩
  | set => exact ⟨rfl, rfl⟩
  | get => exact ⟨rfl, rfl⟩
  | rm => exact ⟨rfl, rfl⟩
  | bal => exact ⟨rfl, rfl⟩
  | stake => exact ⟨rfl, rfl⟩
  | event => exact ⟨rfl, rfl⟩
  | iter => exact ⟨rfl, rfl⟩
  | item => exact ⟨rfl, rfl⟩
  | itret => exact ⟨rfl, rfl⟩
  | send c dest amt =>
    simp only [step]
    by_cases h1 : l.getBal c < amt
    · simp [h1]
    · by_cases h2 : amt < 0
      · simp [h1, h2]
      · simp only [h1, h2, if_false]
        refine ⟨?_, rfl⟩
        have hcd : c ∈ dom := hd c (by simp [ECall.addrs])
        have hdd : dest ∈ dom := hd dest (by simp [ECall.addrs])
        have e1 : sumOver dom ((l.setBal c (l.getBal c - amt)).setBal dest ((l.setBal c (l.getBal c - amt)).getBal dest + amt)).getBal
            = sumOver dom l.getBal := by
          have s1 := sumOver_point dom l.getBal (l.setBal c (l.getBal c - amt)).getBal c hn hcd (by intro x hx; simp [hx])
          have s2 := sumOver_point dom (l.setBal c (l.getBal c - amt)).getBal
            ((l.setBal c (l.getBal c - amt)).setBal dest ((l.setBal c (l.getBal c - amt)).getBal dest + amt)).getBal dest hn hdd
            (by intro x hx; simp [hx])
          rw [s2, s1]; simp only [getBal_setBal]; simp only [if_true]; split_ifs <;> ring
        show sumOver dom _ + sumOver dom (fun a => stakeOf (l.conAfter a)) + l.burnt = _
        rw [e1]; rfl
  | mvstake c amt =>
    simp only [step]
    by_cases h1 : l.getBal c < amt
    · simp [h1]
    · by_cases h2 : amt < 0
      · simp [h1, h2]
      · simp only [h1, h2, if_false]
        have hdep : (l.setBal c (l.getBal c - amt)).deployed c = none := hb.1 c
        simp only [hdep]
        refine ⟨?_, rfl⟩
        have hcd : c ∈ dom := hd c (by simp [ECall.addrs])
        set l1 := l.setBal c (l.getBal c - amt) with hl1
        set l2 : Led := { l1 with stakeC := upd l1.stakeC c (some (l1.stakeView c + amt)) } with hl2
        have hb2 : l2.Body := hb
        have s1 : sumOver dom l2.getBal = sumOver dom l.getBal - amt := by
          have := sumOver_point dom l.getBal l1.getBal c hn hcd (by intro x hx; simp [hl1, hx])
          show sumOver dom l1.getBal = _
          rw [this, hl1]; simp
        have s2 : sumOver dom (fun a => stakeOf (l2.conAfter a)) = sumOver dom (fun a => stakeOf (l.conAfter a)) + amt := by
          have := sumOver_point dom (fun a => stakeOf (l.conAfter a)) (fun a => stakeOf (l2.conAfter a)) c hn hcd (by
            intro x hx
            simp only [conAfter_body l2 hb2, conAfter_body l hb]
            have : l2.stakeC x = l.stakeC x := by simp [hl2, hl1, setBal, upd, hx]
            rw [this]; rfl)
          rw [this]
          have hv : stakeOf (l2.conAfter c) = stakeOf (l.conAfter c) + amt := by
            rw [conAfter_body l2 hb2]
            have : l2.stakeC c = some (l1.stakeView c + amt) := by simp [hl2]
            rw [this]
            have : l1.stakeView c = l.stakeView c := rfl
            rw [this, stakeView_body l hb]; rfl
          rw [hv]; ring
        show sumOver dom l2.getBal + sumOver dom (fun a => stakeOf (l2.conAfter a)) + l2.burnt = _
        rw [s1, s2]; show _ = sumOver dom l.getBal + sumOver dom (fun a => stakeOf (l.conAfter a)) + l.burnt
        have : l2.burnt = l.burnt := rfl
        rw [this]; ring
  | burnAll c =>
    simp only [step]
    refine ⟨?_, rfl⟩
    have hcd : c ∈ dom := hd c (by simp [ECall.addrs])
    have s1 := sumOver_point dom l.getBal (l.setBal c 0).getBal c hn hcd (by intro x hx; simp [hx])
    show sumOver dom (l.setBal c 0).getBal + sumOver dom (fun a => stakeOf (l.conAfter a)) + (l.burnt + l.getBal c) = _
    rw [s1]; simp only [getBal_setBal]; simp only [total]; simp; ring

end Led

namespace Led

theorem step_total_deploy (dom : List Addr) (hn : dom.Nodup) (l : Led) (c : Addr) (st : Int) (code : Nat)
    (hb : l.Body) (hs : l.stakeC c = none) (hc : c ∈ dom) :
    total dom (l.step (.deploy c st code)) = total dom l + (st - stakeOf (l.base.con c))
    ∧ (l.step (.deploy c st code)).minted = l.minted + (st - stakeOf (l.base.con c))
    ∧ (l.step (.deploy c st code)).burnt = l.burnt := by
  simp only [step]
  have hsv : l.stakeView c = stakeOf (l.base.con c) := by unfold stakeView; simp [hb.1 c, hs]
  refine ⟨?_, by rw [hsv], trivial⟩
  set l2 : Led := { l with deployed := upd l.deployed c (some ⟨st, code⟩), minted := l.minted + (st - l.stakeView c) } with hl2
  have s2 := sumOver_point dom (fun a => stakeOf (l.conAfter a)) (fun a => stakeOf (l2.conAfter a)) c hn hc (by
    intro x hx
    show stakeOf (l2.conAfter x) = stakeOf (l.conAfter x)
    unfold conAfter
    have : l2.deployed x = l.deployed x := by simp [hl2, upd, hx]
    rw [this])
  have hv : stakeOf (l2.conAfter c) = st := by
    unfold conAfter
    have h1 : l2.deployed c = some ⟨st, code⟩ := by simp [hl2]
    have h2 : l2.dropped c = false := hb.2 c
    have h3 : l2.stakeC c = none := hs
    simp [h1, h2, h3, stakeOf]
  have hv0 : stakeOf (l.conAfter c) = stakeOf (l.base.con c) := by
    rw [conAfter_body l hb, hs]
  show sumOver dom l2.getBal + sumOver dom (fun a => stakeOf (l2.conAfter a)) = _
  rw [s2]; simp only [hv, hv0]
  show sumOver dom l.getBal + _ = sumOver dom l.getBal + sumOver dom (fun a => stakeOf (l.conAfter a)) + _
  ring

theorem step_total_terminate (dom : List Addr) (hn : dom.Nodup) (l : Led) (c dest : Addr) (keep : List Bytes)
    (hb : l.Body) (hs : l.stakeC c = none) (hc : c ∈ dom) (hd : dest ∈ dom) :
    total dom (l.step (.terminate c dest keep)) + (l.step (.terminate c dest keep)).burnt = total dom l + l.burnt
    ∧ (l.step (.terminate c dest keep)).minted = l.minted := by
  simp only [step]
  by_cases h0 : stakeOf (l.base.con c) = 0
  · simp [h0]
  · simp only [h0, if_false]
    refine ⟨?_, rfl⟩
    set stake := stakeOf (l.base.con c) with hstake
    set l1 := l.setBal dest (l.getBal dest + stake.tdiv 2) with hl1
    set l2 : Led := { l1 with dropped := upd l1.dropped c true, burnt := l1.burnt + (stake - stake.tdiv 2) } with hl2
    have s1 : sumOver dom l2.getBal = sumOver dom l.getBal + stake.tdiv 2 := by
      have := sumOver_point dom l.getBal l1.getBal dest hn hd (by intro x hx; simp [hl1, hx])
      show sumOver dom l1.getBal = _
      rw [this, hl1]; simp; ring
    have s2 := sumOver_point dom (fun a => stakeOf (l.conAfter a)) (fun a => stakeOf (l2.conAfter a)) c hn hc (by
      intro x hx
      show stakeOf (l2.conAfter x) = stakeOf (l.conAfter x)
      unfold conAfter
      have : l2.dropped x = l.dropped x := by simp [hl2, hl1, setBal, upd, hx]
      rw [this]; rfl)
    have hv : stakeOf (l2.conAfter c) = 0 := by
      unfold conAfter
      have h2 : l2.dropped c = true := by simp [hl2]
      have h3 : l2.stakeC c = none := hs
      simp [h2, h3, stakeOf]
    have hv0 : stakeOf (l.conAfter c) = stake := by rw [conAfter_body l hb, hs]
    show sumOver dom l2.getBal + sumOver dom (fun a => stakeOf (l2.conAfter a)) + (l.burnt + (stake - stake.tdiv 2)) = _
    rw [s1, s2]; simp only [hv, hv0]
    show _ = sumOver dom l.getBal + sumOver dom (fun a => stakeOf (l.conAfter a)) + l.burnt
    ring

end Led

/-! ### Lifting to `EEnv.run` -/

theorem run_append (e : EEnv) (t1 t2 : List ECall) : run e (t1 ++ t2) = run (run e t1) t2 := by
  induction t1 generalizing e with
  | nil => rfl
  | cons c t ih => simp only [List.cons_append, run]; exact ih _

/-- a call never changes the state the environment was created on -/
theorem step_base (e : EEnv) (c : ECall) : (e.step c).1.base = e.base := by
  rcases step_led e c with h | h
  · exact congrArg Led.base h
  · have := congrArg Led.base h; rw [Led.step_base] at this; exact this

theorem run_base (e : EEnv) (tr : List ECall) : (run e tr).base = e.base := by
  induction tr generalizing e with
  | nil => rfl
  | cons c t ih => simp only [run]; rw [ih, step_base]

theorem run_nonneg (e : EEnv) (tr : List ECall) (h : e.led.NonNeg) : (run e tr).led.NonNeg := by
  induction tr generalizing e with
  | nil => exact h
  | cons c t ih =>
    simp only [run]; apply ih
    rcases step_led e c with h1 | h1 <;> rw [h1]
    · exact h
    · exact Led.step_nonneg _ _ h

/-- invariant of a contract body: nothing deployed / dropped, balances + stakes + burnt constant, nothing minted -/
structure BodyInv (dom : List Addr) (T : Int) (e : EEnv) : Prop where
  body : e.led.Body
  tot : Led.total dom e.led + e.burnt = T
  mint : e.minted = 0

theorem run_body (dom : List Addr) (hn : dom.Nodup) (T : Int) (e : EEnv) (tr : List ECall)
    (htr : ∀ c ∈ tr, c.isBody = true ∧ ∀ a ∈ c.addrs, a ∈ dom) (h : BodyInv dom T e) : BodyInv dom T (run e tr) := by
  induction tr generalizing e with
  | nil => exact h
  | cons c t ih =>
    simp only [run]
    apply ih _ (fun c' hc' => htr c' (List.mem_cons_of_mem _ hc'))
    obtain ⟨hcb, hca⟩ := htr c List.mem_cons_self
    rcases step_led e c with h1 | h1
    · exact ⟨by rw [h1]; exact h.body, by
        have : (e.step c).1.burnt = e.burnt := congrArg Led.burnt h1
        rw [h1, this]; exact h.tot, by
        have : (e.step c).1.minted = e.minted := congrArg Led.minted h1
        rw [this]; exact h.mint⟩
    · have hst := Led.step_total_body dom hn e.led c hcb h.body hca
      refine ⟨by rw [h1]; exact Led.step_body _ _ hcb h.body, ?_, ?_⟩
      · have : (e.step c).1.burnt = (e.led.step c).burnt := congrArg Led.burnt h1
        rw [h1, this, hst.1]; exact h.tot
      · have : (e.step c).1.minted = (e.led.step c).minted := congrArg Led.minted h1
        rw [this, hst.2]; exact h.mint


end EEnv

/-! ### the wrapper on the ledger -/

/-- the C04/C15 observable restricted to a set of addresses: balances + contract stakes -/
def ledgerTotal (dom : List Addr) (b : Base) : Int := sumOver dom b.bal + sumOver dom (fun a => stakeOf (b.con a))

theorem addBal_total (dom : List Addr) (hn : dom.Nodup) (b : Base) (a : Addr) (d : Int) (ha : a ∈ dom) :
    ledgerTotal dom (b.addBal a d) = ledgerTotal dom b + d := by
  unfold ledgerTotal Base.addBal
  simp only
  rw [sumOver_upd dom b.bal a _ hn ha]; ring

theorem prePay_total (dom : List Addr) (hn : dom.Nodup) (t : TxIn) (b : Base) (hs : t.snd ∈ dom) (hc : t.c ∈ dom) :
    ledgerTotal dom (prePay t b) = ledgerTotal dom b := by
  unfold prePay
  split
  · rw [addBal_total dom hn _ _ _ hc, addBal_total dom hn _ _ _ hs]; ring
  · rfl

theorem settle_total (dom : List Addr) (hn : dom.Nodup) (t : TxIn) (b : Base) (s : Bool) (g ev : Nat) (bu mi : Int)
    (hs : t.snd ∈ dom) (hc : t.c ∈ dom) :
    ledgerTotal dom (settle t b s g ev bu mi).1 = ledgerTotal dom b
      - (if s && !t.pay && (t.kind ≠ .terminate || t.u11) then (t.amt : Int) else 0)
      - (t.txFee + gasCost t.fpg g : Nat) - t.tips := by
  unfold settle
  simp only
  have hnon : ∀ (b' : Base) (n e : Addr → Nat), ledgerTotal dom { b' with nonce := n, epoch := e } = ledgerTotal dom b' := fun _ _ _ => rfl
  rw [hnon, addBal_total dom hn _ _ _ hs, addBal_total dom hn _ _ _ hs]
  have h1 : ledgerTotal dom (if (!s && t.pay) = true then (b.addBal t.snd t.amt).addBal t.c (-(t.amt : Int)) else b) = ledgerTotal dom b := by
    split
    · rw [addBal_total dom hn _ _ _ hc, addBal_total dom hn _ _ _ hs]; ring
    · rfl
  split
  · rw [addBal_total dom hn _ _ _ hs, h1]; push_cast; ring
  · rw [h1]; push_cast; ring


namespace EEnv

theorem step_deploy_led (e : EEnv) (c : Addr) (st : Int) (code : Nat) :
    (e.step (.deploy c st code)).1.led = e.led.step (.deploy c st code) := by
  simp only [step]; rw [charge_id_led]; rfl

theorem step_terminate_led (e : EEnv) (c dest : Addr) (keep : List Bytes) :
    (e.step (.terminate c dest keep)).1.led = e.led.step (.terminate c dest keep) := by
  simp only [step, Led.step]
  by_cases h0 : stakeOf (e.base.con c) = 0
  · have h0' : stakeOf (e.led.base.con c) = 0 := h0
    simp [h0, h0']
  · have h0' : ¬ stakeOf (e.led.base.con c) = 0 := h0
    simp only [h0, h0', if_false]
    split <;> (simp only []; rw [led_terminateLoop]; rfl)

/-- a fresh environment shows the state it was created on -/
theorem total_init (dom : List Addr) (b : Base) (lim : Int) :
    Led.total dom ({ base := b, limit := lim } : EEnv).led = ledgerTotal dom b := rfl

theorem commit_total (dom : List Addr) (e : EEnv) : ledgerTotal dom e.commit = Led.total dom e.led := rfl


end EEnv

/-- the account a call debits (the contract passes its own `ctx`) -/
def ECall.actor : ECall → Option Addr
  | .send c _ _ => some c
  | .mvstake c _ => some c
  | .burnAll c => some c
  | _ => none

namespace EEnv

theorem Led.step_mono (l : Led) (c : ECall) (x : Addr) (hx : ∀ a, c.actor = some a → a ≠ x) (h : l.NonNeg) :
    l.getBal x ≤ (l.step c).getBal x := by
  cases c with
  | send c dest amt =>
    have hcx : c ≠ x := hx c rfl
    simp only [Led.step]
    by_cases h1 : l.getBal c < amt
    · simp [h1]
    · by_cases h2 : amt < 0
      · simp [h1, h2]
      · simp only [h1, h2, if_false, Led.getBal_setBal]
        have : ¬ x = c := fun e => hcx e.symm
        split_ifs <;> simp_all
  | mvstake c amt =>
    have hcx : c ≠ x := hx c rfl
    simp only [Led.step]
    by_cases h1 : l.getBal c < amt
    · simp [h1]
    · by_cases h2 : amt < 0
      · simp [h1, h2]
      · simp only [h1, h2, if_false]
        have : ¬ x = c := fun e => hcx e.symm
        split <;> (show l.getBal x ≤ (l.setBal c (l.getBal c - amt)).getBal x; rw [Led.getBal_setBal]; simp [this])
  | burnAll c =>
    have hcx : c ≠ x := hx c rfl
    have : ¬ x = c := fun e => hcx e.symm
    show l.getBal x ≤ (l.setBal c 0).getBal x
    rw [Led.getBal_setBal]; simp [this]
  | terminate c dest keep =>
    simp only [Led.step]
    split
    · exact Int.le_refl _
    · show l.getBal x ≤ (l.setBal dest (l.getBal dest + (stakeOf (l.base.con c)).tdiv 2)).getBal x
      rw [Led.getBal_setBal]
      have : 0 ≤ (stakeOf (l.base.con c)).tdiv 2 := Int.tdiv_nonneg (h.2 c) (by omega)
      split_ifs with hd
      · subst hd; omega
      · exact Int.le_refl _
  | deploy => exact Int.le_refl _
  | rd => exact Int.le_refl _
  | set => exact Int.le_refl _
  | get => exact Int.le_refl _
  | rm => exact Int.le_refl _
  | bal => exact Int.le_refl _
  | stake => exact Int.le_refl _
  | event => exact Int.le_refl _
  | iter => exact Int.le_refl _
  | item => exact Int.le_refl _
  | itret => exact Int.le_refl _

/-- an account no call of the trace debits never shows less than at the start -/
theorem run_mono (e : EEnv) (tr : List ECall) (x : Addr) (hx : ∀ c ∈ tr, ∀ a, c.actor = some a → a ≠ x) (h : e.led.NonNeg) :
    e.getBal x ≤ (run e tr).getBal x := by
  induction tr generalizing e with
  | nil => exact Int.le_refl _
  | cons c t ih =>
    simp only [run]
    have hstep : e.getBal x ≤ (e.step c).1.getBal x ∧ (e.step c).1.led.NonNeg := by
      rcases step_led e c with h1 | h1
      · rw [getBal_led, getBal_led, h1]; exact ⟨Int.le_refl _, h⟩
      · rw [getBal_led, getBal_led, h1]
        exact ⟨Led.step_mono _ _ _ (hx c List.mem_cons_self) h, Led.step_nonneg _ _ h⟩
    exact Int.le_trans hstep.1 (ih _ (fun c' hc' => hx c' (List.mem_cons_of_mem _ hc')) hstep.2)

end EEnv

namespace EEnv

theorem Led.step_burnt_mono (l : Led) (c : ECall) (h : l.NonNeg) : l.burnt ≤ (l.step c).burnt := by
  cases c with
  | send c dest amt => simp only [Led.step]; split; exact Int.le_refl _; split <;> exact Int.le_refl _
  | mvstake c amt =>
    simp only [Led.step]; split; exact Int.le_refl _; split; exact Int.le_refl _
    split <;> exact Int.le_refl _
  | burnAll c => show l.burnt ≤ l.burnt + l.getBal c; have := h.1 c; omega
  | terminate c dest keep =>
    simp only [Led.step]
    split
    · exact Int.le_refl _
    · show l.burnt ≤ l.burnt + (stakeOf (l.base.con c) - (stakeOf (l.base.con c)).tdiv 2)
      have h0 := h.2 c
      have : (stakeOf (l.base.con c)).tdiv 2 ≤ stakeOf (l.base.con c) := by
        exact Int.tdiv_le_self 2 h0
      omega
  | deploy => exact Int.le_refl _
  | rd => exact Int.le_refl _
  | set => exact Int.le_refl _
  | get => exact Int.le_refl _
  | rm => exact Int.le_refl _
  | bal => exact Int.le_refl _
  | stake => exact Int.le_refl _
  | event => exact Int.le_refl _
  | iter => exact Int.le_refl _
  | item => exact Int.le_refl _
  | itret => exact Int.le_refl _

/-- explicit burns only grow: nothing an execution does un-burns coins -/
theorem run_burnt_mono (e : EEnv) (tr : List ECall) (h : e.led.NonNeg) : e.burnt ≤ (run e tr).burnt := by
  induction tr generalizing e with
  | nil => exact Int.le_refl _
  | cons c t ih =>
    simp only [run]
    have hstep : e.burnt ≤ (e.step c).1.burnt ∧ (e.step c).1.led.NonNeg := by
      rcases step_led e c with h1 | h1
      · have : (e.step c).1.burnt = e.burnt := congrArg Led.burnt h1
        rw [this, h1]; exact ⟨Int.le_refl _, h⟩
      · have : (e.step c).1.burnt = (e.led.step c).burnt := congrArg Led.burnt h1
        rw [this, h1]; exact ⟨Led.step_burnt_mono _ _ h, Led.step_nonneg _ _ h⟩
    exact Int.le_trans hstep.1 (ih _ hstep.2)


end EEnv

/-! ## Wasm environments -/

namespace WEnv

theorem mem_popTo (id : Nat) : ∀ (st : List Frame) (f : Frame), f ∈ popTo id st → f ∈ st := by
  intro st
  induction st with
  | nil => intro f h; exact h
  | cons x t ih =>
    intro f h
    unfold popTo at h
    split at h
    · exact h
    · exact List.mem_cons_of_mem _ (ih f h)

/-- side conditions on a host call: the addresses it credits are in the domain of the sums; credited amounts are
non-negative (the cgo layer builds them with `big.Int.SetBytes`, `callbacks.go:513`) -/
def WCall.ok (dom : List Addr) : WCall → Prop
  | .add a amt => a ∈ dom ∧ 0 ≤ amt
  | .subenv c _ => c ∈ dom
  | _ => True

structure FrameOK (dom : List Addr) (S0 : Int) (f : Frame) : Prop where
  cin : f.contract ∈ dom
  tot : sumOver dom f.bal = S0 + f.mint - f.burnt
  nn : ∀ a, 0 ≤ f.bal a

structure WInv (dom : List Addr) (S0 : Int) (stk : Addr → Int) (w : WEnv) : Prop where
  frames : ∀ f ∈ w.stack, FrameOK dom S0 f
  tot : sumOver dom w.base.bal = S0 + w.mint - w.burnt
  nn : ∀ a, 0 ≤ w.base.bal a
  stakes : ∀ a, stakeOf (w.base.con a) = stk a

theorem onTop_inv (dom : List Addr) (S0 : Int) (stk : Addr → Int) (w : WEnv) (g : Frame → Frame × Res)
    (h : WInv dom S0 stk w) (hg : ∀ f rest, w.stack = f :: rest → FrameOK dom S0 f → FrameOK dom S0 (g f).1) :
    WInv dom S0 stk (w.onTop g).1 := by
  unfold onTop
  cases hst : w.stack with
  | nil => simp only; exact h
  | cons f rest =>
    simp only
    refine ⟨?_, h.tot, h.nn, h.stakes⟩
    intro f' hf'
    rcases List.mem_cons.mp hf' with rfl | hm
    · exact hg f rest hst (h.frames f (by rw [hst]; exact List.mem_cons_self))
    · exact h.frames f' (by rw [hst]; exact List.mem_cons_of_mem _ hm)

theorem commitTop_inv (dom : List Addr) (S0 : Int) (stk : Addr → Int) (w : WEnv) (h : WInv dom S0 stk w) :
    WInv dom S0 stk w.commitTop := by
  unfold commitTop
  cases hst : w.stack with
  | nil => exact h
  | cons f rest =>
    have hf := h.frames f (by rw [hst]; exact List.mem_cons_self)
    cases rest with
    | nil =>
      simp only
      split
      · refine ⟨fun f' hf' => h.frames f' (by rw [hst]; exact hf'), hf.tot, hf.nn, ?_⟩
        intro a
        simp only
        cases hc : f.code a with
        | none => exact h.stakes a
        | some c => simp only [stakeOf]; exact h.stakes a
      · exact h
    | cons p rest' =>
      simp only
      have hp := h.frames p (by rw [hst]; exact List.mem_cons_of_mem _ List.mem_cons_self)
      refine ⟨?_, h.tot, h.nn, h.stakes⟩
      intro f' hf'
      simp only [List.mem_cons] at hf'
      rcases hf' with rfl | rfl | hm
      · split
        · exact ⟨hf.cin, hf.tot, hf.nn⟩
        · exact hf
      · exact ⟨hp.cin, hf.tot, hf.nn⟩
      · exact h.frames f' (by rw [hst]; exact List.mem_cons_of_mem _ (List.mem_cons_of_mem _ hm))

theorem stepTop_inv (dom : List Addr) (hn : dom.Nodup) (S0 : Int) (stk : Addr → Int) (w1 : WEnv) (c : WCall)
    (h1 : WInv dom S0 stk w1) (hc : WCall.ok dom c) : WInv dom S0 stk (w1.stepTop c).1 := by
  unfold stepTop
  cases hst : w1.stack with
  | nil => exact h1
  | cons top rest =>
    have htop := h1.frames top (by rw [hst]; exact List.mem_cons_self)
    simp only
    cases c with
    | rd => exact h1
    | set k v => exact onTop_inv dom S0 stk w1 _ h1 (fun f _ _ hf => ⟨hf.cin, hf.tot, hf.nn⟩)
    | get k => exact h1
    | rcd a k => exact h1
    | rm k => exact onTop_inv dom S0 stk w1 _ h1 (fun f _ _ hf => ⟨hf.cin, hf.tot, hf.nn⟩)
    | bal => exact h1
    | sub amt =>
      simp only
      split; exact h1
      split; exact h1
      rename_i hneg hlt
      apply onTop_inv dom S0 stk w1 _ h1
      intro f rest' hst' hf
      have hft : f = top := by rw [hst] at hst'; exact (List.cons.inj hst').1.symm
      subst hft
      refine ⟨hf.cin, ?_, ?_⟩
      · simp only
        rw [sumOver_upd dom f.bal f.contract _ hn hf.cin, hf.tot]; ring
      · intro x; simp only [upd]; have := hf.nn x
        split_ifs <;> omega
    | add a amt =>
      apply onTop_inv dom S0 stk w1 _ h1
      intro f _ _ hf
      refine ⟨hf.cin, ?_, ?_⟩
      · simp only
        rw [sumOver_upd dom f.bal a _ hn hc.1, hf.tot]; ring
      · intro x; simp only [upd]; have := hf.nn x; have := hf.nn a; have := hc.2
        split_ifs <;> omega
    | burn amt =>
      simp only
      split; exact h1
      split; exact h1
      rename_i hneg hlt
      apply onTop_inv dom S0 stk w1 _ h1
      intro f rest' hst' hf
      have hft : f = top := by rw [hst] at hst'; exact (List.cons.inj hst').1.symm
      subst hft
      refine ⟨hf.cin, ?_, ?_⟩
      · simp only
        rw [sumOver_upd dom f.bal f.contract _ hn hf.cin, hf.tot]; ring
      · intro x; simp only [upd]; have := hf.nn x
        split_ifs <;> omega
    | subenv c pay =>
      simp only
      split; exact h1
      split; exact h1
      rename_i hdepth hpay
      refine ⟨?_, h1.tot, h1.nn, h1.stakes⟩
      intro f hf
      simp only [List.mem_cons] at hf
      rcases hf with rfl | hm
      · refine ⟨hc, ?_, ?_⟩
        · simp only
          rw [sumOver_upd dom top.bal c _ hn hc, htop.tot]; ring
        · intro x; simp only [upd]; have := htop.nn x; have := htop.nn c
          split_ifs <;> omega
      · exact h1.frames f (by rw [hst]; exact List.mem_cons.mpr hm)
    | commit => exact commitTop_inv dom S0 stk w1 h1
    | deploy code => exact onTop_inv dom S0 stk w1 _ h1 (fun f _ _ hf => ⟨hf.cin, hf.tot, hf.nn⟩)
    | code a => exact h1
    | hascode a => exact h1
    | event nameOk =>
      simp only
      split; exact h1
      exact onTop_inv dom S0 stk w1 _ h1 (fun f _ _ hf => ⟨hf.cin, hf.tot, hf.nn⟩)


theorem step_inv (dom : List Addr) (hn : dom.Nodup) (S0 : Int) (stk : Addr → Int) (w : WEnv) (id : Nat) (c : WCall)
    (h : WInv dom S0 stk w) (hc : WCall.ok dom c) : WInv dom S0 stk (w.step id c).1 :=
  stepTop_inv dom hn S0 stk _ c ⟨fun f hf => h.frames f (mem_popTo id _ f hf), h.tot, h.nn, h.stakes⟩ hc

theorem run_inv (dom : List Addr) (hn : dom.Nodup) (S0 : Int) (stk : Addr → Int) (w : WEnv) (tr : List (Nat × WCall))
    (h : WInv dom S0 stk w) (hc : ∀ p ∈ tr, WCall.ok dom p.2) : WInv dom S0 stk (run w tr) := by
  induction tr generalizing w with
  | nil => exact h
  | cons p t ih =>
    obtain ⟨id, c⟩ := p
    simp only [run]
    exact ih _ (step_inv dom hn S0 stk w id c h (hc (id, c) List.mem_cons_self)) (fun p hp => hc p (List.mem_cons_of_mem _ hp))

theorem onTop_base (w : WEnv) (g : Frame → Frame × Res) : (w.onTop g).1.base = w.base ∧ (w.onTop g).1.rootCommits = w.rootCommits := by
  unfold onTop; split <;> exact ⟨rfl, rfl⟩

/-- only a commit of the root environment writes to the state -/
theorem stepTop_base (w : WEnv) (c : WCall) :
    ((w.stepTop c).1.base = w.base ∧ (w.stepTop c).1.rootCommits = w.rootCommits) ∨ (w.stepTop c).1.rootCommits = w.rootCommits + 1 := by
  unfold stepTop
  split
  · left; exact ⟨rfl, rfl⟩
  · cases c with
    | rd => left; exact ⟨rfl, rfl⟩
    | set k v => left; exact onTop_base _ _
    | get k => left; exact ⟨rfl, rfl⟩
    | rcd a k => left; exact ⟨rfl, rfl⟩
    | rm k => left; exact onTop_base _ _
    | bal => left; exact ⟨rfl, rfl⟩
    | sub amt => left; simp only; split; exact ⟨rfl, rfl⟩; split; exact ⟨rfl, rfl⟩; exact onTop_base _ _
    | add a amt => left; exact onTop_base _ _
    | burn amt => left; simp only; split; exact ⟨rfl, rfl⟩; split; exact ⟨rfl, rfl⟩; exact onTop_base _ _
    | subenv c pay => left; simp only; split; exact ⟨rfl, rfl⟩; split <;> exact ⟨rfl, rfl⟩
    | commit =>
      simp only; unfold commitTop
      split
      · left; exact ⟨rfl, rfl⟩
      · split
        · right; rfl
        · left; exact ⟨rfl, rfl⟩
      · left; exact ⟨rfl, rfl⟩
    | deploy code => left; exact onTop_base _ _
    | code a => left; exact ⟨rfl, rfl⟩
    | hascode a => left; exact ⟨rfl, rfl⟩
    | event nameOk => left; simp only; split; exact ⟨rfl, rfl⟩; exact onTop_base _ _

theorem rootCommits_mono (w : WEnv) (tr : List (Nat × WCall)) : w.rootCommits ≤ (run w tr).rootCommits := by
  induction tr generalizing w with
  | nil => exact Nat.le_refl _
  | cons p t ih =>
    obtain ⟨id, c⟩ := p
    simp only [run]
    have := ih (w.step id c).1
    rcases stepTop_base { w with stack := popTo id w.stack } c with h | h
    · have : (w.step id c).1.rootCommits = w.rootCommits := h.2
      omega
    · have : (w.step id c).1.rootCommits = w.rootCommits + 1 := h
      omega

/-- as long as the root environment has not committed, the state is the one the execution started on -/
theorem run_base_of_no_root_commit (w : WEnv) (tr : List (Nat × WCall)) (h : (run w tr).rootCommits = w.rootCommits) :
    (run w tr).base = w.base := by
  induction tr generalizing w with
  | nil => rfl
  | cons p t ih =>
    obtain ⟨id, c⟩ := p
    simp only [run] at h ⊢
    have hm := rootCommits_mono (w.step id c).1 t
    rcases stepTop_base { w with stack := popTo id w.stack } c with h1 | h1
    · have h2 : (w.step id c).1.rootCommits = w.rootCommits := h1.2
      have h3 : (w.step id c).1.base = w.base := h1.1
      rw [ih _ (by rw [h2]; exact h), h3]
    · have h2 : (w.step id c).1.rootCommits = w.rootCommits + 1 := h1
      omega

theorem onTop_cts (w : WEnv) (g : Frame → Frame × Res) : (w.onTop g).1.commitToState = w.commitToState := by
  unfold onTop; split <;> rfl

theorem stepTop_cts (w : WEnv) (c : WCall) : (w.stepTop c).1.commitToState = w.commitToState := by
  unfold stepTop
  split
  · rfl
  · cases c with
    | rd => rfl
    | set k v => exact onTop_cts _ _
    | get k => rfl
    | rcd a k => rfl
    | rm k => exact onTop_cts _ _
    | bal => rfl
    | sub amt => simp only; split; rfl; split; rfl; exact onTop_cts _ _
    | add a amt => exact onTop_cts _ _
    | burn amt => simp only; split; rfl; split; rfl; exact onTop_cts _ _
    | subenv c pay => simp only; split; rfl; split <;> rfl
    | commit =>
      simp only; unfold commitTop
      split
      · rfl
      · split <;> rfl
      · rfl
    | deploy code => exact onTop_cts _ _
    | code a => rfl
    | hascode a => rfl
    | event nameOk => simp only; split; rfl; exact onTop_cts _ _

theorem run_cts (w : WEnv) (tr : List (Nat × WCall)) : (run w tr).commitToState = w.commitToState := by
  induction tr generalizing w with
  | nil => rfl
  | cons p t ih =>
    obtain ⟨id, c⟩ := p
    simp only [run]; rw [ih]; exact stepTop_cts _ _

theorem run_append (w : WEnv) (t1 t2 : List (Nat × WCall)) : run w (t1 ++ t2) = run (run w t1) t2 := by
  induction t1 generalizing w with
  | nil => rfl
  | cons c t ih => obtain ⟨id, c⟩ := c; simp only [List.cons_append, run]; exact ih _


end WEnv

end IdenaModel.ContractEnv
