import IdenaModel.Model.Registry
import IdenaModel.Drivers.Util
/-! Driver for channel C10: the model of `IdentityStateDB` (writes, `Commit(true)`, `AddDiff`) and of `ValidatorsCache`
(`Load`, `UpdateFromIdentityStateDiff`, every getter) answers the op lines the Go harness executed on the real code.

Addresses are decimal naturals (the harness embeds `n` big-endian into the first four bytes of a 20-byte address, so
byte order = numeric order; channel C10H uses the first four bytes of real addresses).  Two caches live side by side:
`inc` (maintained incrementally) and `fresh` (rebuilt).  Channel C10H replays the stored identity diffs of a real chain
through `adddiff` / `upd inc` / `load fresh` and asks the same queries of the node's own cache.

    new                                   reset everything
    w val|onl|dis <a> <0|1>               SetValidated / SetOnline / SetDiscriminated
    w dlg <a> <p>   w undlg <a>   w rm <a>   SetDelegatee / RemoveDelegatee / Remove
    r <a>                                 IsValidated, IsOnline, Delegatee of the (uncommitted) state
    commit                                Commit(true); answers the emitted diff in order
    adddiff <item,...>|-                  AddDiff + CommitTree with the given diff (item = a:D | a:<flags>:<deleg|->)
    tree                                  IterateIdentities dump
    load inc|fresh      upd inc           Load / UpdateFromIdentityStateDiff(last diff)
    clone inc                             inc := inc.Clone() (no effect in the model: a clone is indistinguishable)
    q inc|fresh sizes|sorted|onlineok|a <x>|pool <x>|sub <p> <nonce>|pse <p> <x,..>|com <god> <limit> <perm,..>
-/
namespace IdenaModel.Drv.C10
open IdenaModel.Registry IdenaModel.Drv

structure St where
  ids : IdState := {}
  inc : Cache := {}
  fresh : Cache := {}
  diff : Diff := []

def b2s (b : Bool) : String := if b then "1" else "0"

def parseBool (s : String) : Option Bool := if s = "1" then some true else if s = "0" then some false else none

def showList (l : List Nat) : String := "[" ++ ",".intercalate (l.map toString) ++ "]"

def sortAsc (l : List Nat) : List Nat := l.foldl (fun acc a => insertAsc a acc) []

def showOptAddr : Option Nat → String
  | some p => toString p
  | none => "-"

def flagsOf (e : Entry) : Nat := (if e.validated then 1 else 0) + (if e.online then 2 else 0) + (if e.discr then 4 else 0)

def entryOf (flags : Nat) (dg : Option Nat) : Entry :=
  { validated := flags % 2 = 1, online := (flags / 2) % 2 = 1, discr := (flags / 4) % 2 = 1, deleg := dg }

def showDiffVal (d : DiffVal) : String :=
  if d.deleted then s!"{d.addr}:D" else s!"{d.addr}:{flagsOf d.data}:{showOptAddr d.data.deleg}"

def showDiff (d : Diff) : String := if d.isEmpty then "-" else ",".intercalate (d.map showDiffVal)

def parseNats (s : String) : Option (List Nat) :=
  if s = "-" then some [] else (s.splitOn ",").mapM String.toNat?

def parseDiffVal (s : String) : Option DiffVal :=
  match s.splitOn ":" with
  | [a, "D"] => a.toNat?.map fun a => { addr := a, deleted := true, data := Entry.zero }
  | [a, f, dg] =>
    match a.toNat?, f.toNat? with
    | some a, some f =>
      if f ≥ 8 then none else
      if dg = "-" then some { addr := a, deleted := false, data := entryOf f none }
      else dg.toNat?.map fun p => { addr := a, deleted := false, data := entryOf f (some p) }
    | _, _ => none
  | _ => none

def parseDiff (s : String) : Option Diff :=
  if s = "-" then some [] else (s.splitOn ",").mapM parseDiffVal

def showTree (r : Reg) : String :=
  if r.isEmpty then "-" else ",".intercalate (r.map fun p => s!"{p.1}:{flagsOf p.2}:{showOptAddr p.2.deleg}")

def showSV (sv : StepValidators) : String :=
  s!"orig={showList (sortAsc sv.original)} vals={showList (sortAsc sv.validators)} appr={showList (sortAsc sv.approved)}"

def query (c : Cache) (args : List String) : String :=
  if c.panicked then "panic" else
  match args with
  | ["sizes"] => s!"net={c.networkSize} onl={c.onlineSize} vals={c.validatorsSize} fork={c.forkCommitteeSize}"
  | ["sorted"] => showList c.sorted
  | ["onlineok"] => showList (sortAsc c.onlineNotValidatedNotPool)
  | ["a", x] =>
    match x.toNat? with
    | some a => s!"v{b2s (c.isValidated a)} o{b2s (c.isOnlineIdentity a)} d{b2s (c.isDiscriminated a)} " ++
                s!"p{b2s (c.isPool a)} ps{c.poolSize a} dl{showOptAddr (c.delegator a)}"
    | none => "bad-op"
  | ["pool", x] =>
    match x.toNat? with
    | some a =>
      match lookup c.pools a with
      | some pl => s!"dels={showList pl.delegators} appr={showList (sortAsc pl.approved)}"
      | none => "-"
    | none => "bad-op"
  | ["sub", p, n] =>
    match p.toNat?, n.toNat? with
    | some p, some n =>
      match c.findSubIdentity p n with
      | some (x, k) => s!"{x} {k}"
      | none => "panic"
    | _, _ => "bad-op"
  | ["pse", p, ex] =>
    match p.toNat?, parseNats ex with
    | some p, some ex => toString (c.poolSizeExcept p ex)
    | _, _ => "bad-op"
  | ["com", god, limit, perm] =>
    match god.toNat?, limit.toNat?, parseNats perm with
    | some god, some limit, some perm =>
      match c.getOnlineValidators god perm limit with
      | .nil => "nil"
      | .panic => "panic"
      | .ok sv => showSV sv
    | _, _, _ => "bad-op"
  | _ => "bad-op"

def step (s : St) (line : String) : St × String :=
  match splitSp line with
  | ["new"] => ({}, "ok")
  | ["w", k, a, b] =>
    match a.toNat? with
    | none => (s, "bad-op")
    | some a =>
      if k = "dlg" then
        match b.toNat? with
        | some p => ({ s with ids := s.ids.setDelegatee a p }, "ok")
        | none => (s, "bad-op")
      else
        match parseBool b with
        | none => (s, "bad-op")
        | some b =>
          if k = "val" then ({ s with ids := s.ids.setValidated a b }, "ok")
          else if k = "onl" then ({ s with ids := s.ids.setOnline a b }, "ok")
          else if k = "dis" then ({ s with ids := s.ids.setDiscriminated a b }, "ok")
          else (s, "bad-op")
  | ["w", k, a] =>
    match a.toNat? with
    | none => (s, "bad-op")
    | some a =>
      if k = "undlg" then ({ s with ids := s.ids.removeDelegatee a }, "ok")
      else if k = "rm" then ({ s with ids := s.ids.remove a }, "ok")
      else (s, "bad-op")
  | ["r", a] =>
    match a.toNat? with
    | some a => (s, s!"v{b2s (s.ids.isValidated a)} o{b2s (s.ids.isOnline a)} d{showOptAddr (s.ids.delegatee a)}")
    | none => (s, "bad-op")
  | ["commit"] =>
    let r := s.ids.commit
    ({ s with ids := r.1, diff := r.2 }, showDiff r.2)
  | ["adddiff", items] =>
    match parseDiff items with
    | some d => ({ s with ids := { tree := applyDiff s.ids.tree d, live := [], dirty := [] }, diff := d }, "ok")
    | none => (s, "bad-op")
  | ["tree"] => (s, showTree s.ids.tree)
  | ["load", "inc"] => ({ s with inc := load s.ids.tree }, "ok")
  | ["load", "fresh"] => ({ s with fresh := load s.ids.tree }, "ok")
  | ["clone", "inc"] => (s, "ok")          -- `Clone()` must be indistinguishable from the original
  | ["upd", "inc"] =>
    let c := update s.inc s.diff
    ({ s with inc := c }, if c.panicked then "panic" else "ok")
  | "q" :: "inc" :: args => (s, query s.inc args)
  | "q" :: "fresh" :: args => (s, query s.fresh args)
  | _ => (s, "bad-op")

end IdenaModel.Drv.C10

def main : IO Unit := IdenaModel.Drv.runDriver ({} : IdenaModel.Drv.C10.St) IdenaModel.Drv.C10.step
