import IdenaModel.Model.Chain
import IdenaModel.Drivers.Util
/-! Driver for channel C06: the nonce/epoch discipline of accepted chains.
ops: `new` | `tx s e n` (a transaction the node included) | `epoch` (validation-finishing block) |
`blk` (block boundary: snapshot) | `reset k` (back to the state after the k-th block) |
`acct s` (effective current nonce) | `probe s e n` (would a transaction with these numbers pass the
validation clauses / the application rule now?) -/
namespace IdenaModel.Drv.C06
open IdenaModel.Chain IdenaModel.Drv

structure St where
  cur : CState
  snaps : List CState   -- newest first; state after each block

def init : St := { cur := genesis, snaps := [] }

def av (b : Bool) : String := if b then "acc" else "rej"

def step (st : St) (line : String) : St × String :=
  match splitSp line with
  | ["new"] => (init, "ok")
  | ["tx", s, e, n] =>
    match s.toNat?, e.toNat?, n.toNat? with
    | some s, some e, some n =>
      match applyTx st.cur ⟨s, e, n, 0⟩ with
      | some c => ({ st with cur := c }, "ok")
      | none => (st, "rej")
    | _, _, _ => (st, "bad-op")
  | ["epoch"] => ({ st with cur := { st.cur with epoch := st.cur.epoch + 1 } }, "ok")
  -- an epoch change at which the listed accounts were cleared as dust (their nonce record is gone)
  | ["epochclear", l] =>
    match (l.splitOn ".").mapM (·.toNat?) with
    | some d => ({ st with cur := ((IdenaModel.Chain.step st.cur (Ev.clearEpoch d)).getD st.cur) }, "ok")
    | none => (st, "bad-op")
  | ["blk"] => ({ st with snaps := st.cur :: st.snaps }, "ok")
  | ["reset", k] =>
    match k.toNat? with
    | some k =>
      if k > st.snaps.length then (st, "bad-op")
      else
        let keep := st.snaps.drop (st.snaps.length - k)
        ({ cur := keep.headD genesis, snaps := keep }, "ok")
    | none => (st, "bad-op")
  | ["acct", s] =>
    match s.toNat? with
    | some s => (st, s!"cur {curNonce st.cur s} epoch {st.cur.epoch}")
    | none => (st, "bad-op")
  | ["probe", s, e, n] =>
    match s.toNat?, e.toNat?, n.toNat? with
    | some s, some e, some n =>
      let t : ATx := ⟨s, e, n, 0⟩
      (st, s!"val={av (validateOk st.cur t)} app={av (applyTx st.cur t).isSome}")
    | _, _, _ => (st, "bad-op")
  | _ => (st, "bad-op")

end IdenaModel.Drv.C06

def main : IO Unit := IdenaModel.Drv.runDriver IdenaModel.Drv.C06.init IdenaModel.Drv.C06.step
