import IdenaModel.Model.Crash
import IdenaModel.Drivers.Util
/-! Driver for channel C09 (crash recovery).
ops (ids are interned hashes / roots):
* `new <kind>`; `genesis <height> <hash> <sroot> <iroot>` — the victim's store after genesis generation;
* `ins <height> <hash> <parent> <sroot> <iroot> <diff> <sec1> <sec2>` — AddBlock on the victim: answer = class
  sequence of its write events (secondary index writes as `sec`);
* `reset <t>` — ResetTo; `fsync <S> <hash> <sroot> <iroot> copy= import= importb= forced= clearid= clearst= hdrs=h:hash:diff,…`;
* `decl <op line>` — registers an operation without performing it (used by continuations only);
* `cut <op> <k>` — start-up on the store that survives the first `k` writes of operation `op`;
* `cont <op> <k> <j…>` — then the operations `j…` are performed on the restarted node. -/
namespace IdenaModel.Drv.C09
open IdenaModel.Crash IdenaModel.Drv

inductive OpDesc where
  | ins (b : Blk)
  | reset (t : Nat)
  | fsync (p : FsParams)

structure OpRec where
  pre : Store
  ws : List W
  desc : OpDesc

structure St where
  store : Store
  mem : Mem
  ops : Array OpRec
  ready : Bool

def emptyStore : Store :=
  { st := Tree.empty, idt := Tree.empty, head := none, hdrs := fun _ => none, canon := fun _ => none,
    idDiff := fun _ => false, prelim := none, pidt := Tree.empty, pst := Tree.empty }

def dummyMem : Mem := { head := default, prelim := false, sv := 0, sroot := 0, iv := 0, iroot := 0 }

def init : St := { store := emptyStore, mem := dummyMem, ops := #[], ready := false }

def kv (s : String) (key : String) : Option String :=
  if s.startsWith (key ++ "=") then some (s.drop (key.length + 1)).toString else none

def parseFsHdrs (s : String) : Option (List FsHdr) :=
  (s.splitOn ",").mapM fun item =>
    match item.splitOn ":" with
    | [h, g, d] =>
      match h.toNat?, g.toNat?, d.toNat? with
      | some h, some g, some d => some { hdr := { hash := g, height := h, parent := 0, sroot := 0, iroot := 0 }, diff := d = 1 }
      | _, _, _ => none
    | _ => none

def parseOp (toks : List String) : Option OpDesc :=
  match toks with
  | ["ins", h, g, p, sr, ir, d, s1, s2] =>
    match h.toNat?, g.toNat?, p.toNat?, sr.toNat?, ir.toNat?, d.toNat?, s1.toNat?, s2.toNat? with
    | some h, some g, some p, some sr, some ir, some d, some s1, some s2 =>
      if d > 1 then none
      else some (.ins { hdr := { hash := g, height := h, parent := p, sroot := sr, iroot := ir }, diff := d = 1, sec1 := s1, sec2 := s2 })
    | _, _, _, _, _, _, _, _ => none
  | ["reset", t] => t.toNat?.map .reset
  | ["fsync", h, g, sr, ir, cp, im, _imb, _forced, ci, cs, hs] =>
    match h.toNat?, g.toNat?, sr.toNat?, ir.toNat?, (kv cp "copy").bind (·.toNat?), (kv im "import").bind (·.toNat?),
      (kv ci "clearid").bind (·.toNat?), (kv cs "clearst").bind (·.toNat?), (kv hs "hdrs").bind parseFsHdrs with
    | some h, some g, some sr, some ir, some cp, some im, some ci, some cs, some hs =>
      -- the last header carries the roots
      match hs.reverse with
      | l :: rest =>
        if l.hdr.height = h ∧ l.hdr.hash = g then
          let l' : FsHdr := { l with hdr := { l.hdr with sroot := sr, iroot := ir } }
          some (.fsync { copy := cp, hdrs := (l' :: rest).reverse, importKeys := im, clearId := ci, clearSt := cs })
        else none
      | [] => none
    | _, _, _, _, _, _, _, _, _ => none
  | _ => none

/-- perform an operation on (store, memory): writes, error, memory afterwards -/
def runOp (s : Store) (m : Mem) : OpDesc → OpRes × Mem
  | .ins b =>
    let r := insertOp s m b
    (r, if r.err.isNone then memAfterInsert m b else m)
  | .reset t =>
    let r := resetOp s m t
    let m' := match canonFix s m.head t with
      | some pre => memAfterReset (applyAll s pre) m t
      | none => m
    (r, if r.err.isNone then m' else m)
  | .fsync p =>
    let ws := fastSyncWrites s p
    match lastHdr p.hdrs with
    | some l => (⟨ws, none⟩, { head := l.hdr, prelim := false, sv := l.hdr.height, sroot := l.hdr.sroot, iv := l.hdr.height, iroot := l.hdr.iroot })
    | none => (⟨[], some .other⟩, m)

def primary (l : List String) : List String := l.filter (fun c => !isSecondary c)

def showRec (s : Store) (m : Mem) : String :=
  s!"head={m.head.height}:{m.head.hash} sv={m.sv} iv={m.iv}"

/-- the store of a cut; `hole = some d`: additionally the canonical hash `d` below the head record is deleted -/
def cutStore (st : St) (i k : Nat) (hole : Option Nat) : Option Store :=
  match st.ops[i]? with
  | some o =>
    if k ≤ o.ws.length then
      let cs := crashAt k o.ws o.pre
      match hole, cs.head with
      | some d, some h => some (apply cs (.canonDel (h.height - d)))
      | _, _ => some cs
    else none
  | none => none

def doCut (st : St) (i k : Nat) (hole : Option Nat := none) : Option Outcome :=
  (cutStore st i k hole).map recover

def contLoop (st : St) : Store → Mem → List Nat → List String → String
  | s, m, [], acc => s!"end {showRec s m} w={"|".intercalate acc.reverse}"
  | s, m, j :: js, acc =>
    match st.ops[j]? with
    | none => "bad-op"
    | some o =>
      match o.desc with
      | .fsync _ => "unsupported"
      | d =>
        let (r, m') := runOp s m d
        match r.err with
        | some _ => s!"err@{j}"
        | none => contLoop st (applyAll s r.ws) m' js (joinC (primary (classes s r.ws)) :: acc)

def cutAnswer (st : St) (i k : Nat) (hole : Option Nat) : String :=
  match cutStore st i k hole with
  | none => "bad-op"
  | some pre =>
    match recover pre with
    | .ok s m rep =>
      s!"ok {showRec s m} match={decide (m.head.sroot = m.sroot ∧ m.head.iroot = m.iroot)} w={joinC (primary (classes pre rep))}"
    | _ => "err"

def step (st : St) (line : String) : St × String :=
  match splitSp line with
  | ["new", _] => (init, "ok")
  | ["genesis", h, g, sr, ir] =>
    match h.toNat?, g.toNat?, sr.toNat?, ir.toNat? with
    | some h, some g, some sr, some ir =>
      let hd : Hdr := { hash := g, height := h, parent := 0, sroot := sr, iroot := ir }
      let s := applyAll emptyStore [.stSave h sr, .idSave h ir, .hdr hd, .head hd, .canon h g]
      ({ store := s, mem := { head := hd, prelim := false, sv := h, sroot := sr, iv := h, iroot := ir }, ops := #[], ready := true }, "ok")
    | _, _, _, _ => (st, "bad-op")
  | "decl" :: rest =>
    match parseOp rest with
    | some d => ({ st with ops := st.ops.push { pre := st.store, ws := [], desc := d } }, "ok")
    | none => (st, "bad-op")
  | ["cut", i, k] =>
    match i.toNat?, k.toNat? with
    | some i, some k => (st, cutAnswer st i k none)
    | _, _ => (st, "bad-op")
  | ["cuth", i, k, d] =>
    match i.toNat?, k.toNat?, d.toNat? with
    | some i, some k, some d => (st, cutAnswer st i k (some d))
    | _, _, _ => (st, "bad-op")
  | "cont" :: i :: k :: js =>
    match i.toNat?, k.toNat?, js.mapM (·.toNat?) with
    | some i, some k, some js =>
      match doCut st i k with
      | some (.ok s m _) => (st, contLoop st s m js [])
      | some _ => (st, "err")
      | none => (st, "bad-op")
    | _, _, _ => (st, "bad-op")
  | "conth" :: i :: k :: d :: js =>
    match i.toNat?, k.toNat?, d.toNat?, js.mapM (·.toNat?) with
    | some i, some k, some d, some js =>
      match doCut st i k (some d) with
      | some (.ok s m _) => (st, contLoop st s m js [])
      | some _ => (st, "err")
      | none => (st, "bad-op")
    | _, _, _, _ => (st, "bad-op")
  | toks =>
    if !st.ready then (st, "bad-op")
    else match parseOp toks with
      | some d =>
        let (r, m') := runOp st.store st.mem d
        let ans := match r.err with
          | none => joinC (classes st.store r.ws)
          | some _ => "err:" ++ joinC (classes st.store r.ws)
        ({ st with store := applyAll st.store r.ws, mem := m', ops := st.ops.push { pre := st.store, ws := r.ws, desc := d } }, ans)
      | none => (st, "bad-op")

end IdenaModel.Drv.C09

def main : IO Unit := IdenaModel.Drv.runDriver IdenaModel.Drv.C09.init IdenaModel.Drv.C09.step
