import IdenaModel.Model.Store
import IdenaModel.Drivers.Util
import IdenaModel.Model.KeyEmbed
/-! Driver for channel C13: drives `Overlay.step` (the model of `BackedMemDb`).

Glue that is not in the model (tm-db MemDB argument checks, mirrored literally):
empty key ⇒ `err`; `Set(k, nil)` ⇒ `err`; iterator with a non-nil empty bound ⇒ `err`.
Keys are byte strings of length ≤ 8, embedded order-preservingly into `Nat`
(base-257 digits `b+1`, right-padded with 0). -/
namespace IdenaModel.Drv.C13
open IdenaModel.Store IdenaModel.Drv

def keyLen : Nat := 8

/-- the embedding proved to be an order embedding in `Props/C13Key.lean` (`enc_lt_iff`, `enc_inj`) -/
def encKey (bs : List Nat) : Nat := IdenaModel.KeyEmbed.enc keyLen bs

def decKeyAux : Nat → Nat → List Nat → List Nat
  | 0, _, acc => acc
  | fuel + 1, n, acc =>
    let d := n % 257
    decKeyAux fuel (n / 257) (if d = 0 then acc else (d - 1) :: acc)

def decKey (n : Nat) : List Nat := decKeyAux keyLen n []

def showKV (l : KV) : String :=
  ",".intercalate (l.map fun p => bytesToHex (decKey p.1) ++ "=" ++ p.2)

def showRes : Res → String
  | .val none => "val -"
  | .val (some v) => "val " ++ v
  | .bool b => if b then "bool t" else "bool f"
  | .ok => "ok"
  | .kvs l => "kvs " ++ showKV l

/-- `-` ↦ nil, `x..` ↦ bytes -/
def parseOptKey (s : String) : Option (Option (List Nat)) :=
  if s = "-" then some none else (parseHex s).map some

def parseBase (s : String) : Option KV :=
  if s = "" then some [] else
  (s.splitOn ",").foldl (fun acc item =>
    match acc, item.splitOn "=" with
    | some m, [k, v] => (parseHex k).map fun kb => kvSet m (encKey kb) v
    | _, _ => none) (some [])

def parseBOp (s : String) : Option (Option BOp) :=   -- inner none = entry with empty key (refused, no effect)
  match s.splitOn ":" with
  | ["s", k, v] =>
    (parseHex k).map fun kb =>
      if kb.isEmpty then none else if v = "-" then some (.bad (encKey kb)) else some (.set (encKey kb) v)
  | ["d", k] => (parseHex k).map fun kb => if kb.isEmpty then none else some (.del (encKey kb))
  | _ => none

def bound (b : Option (List Nat)) : Option Nat := b.map encKey

def step1 (o : Overlay) (line : String) : Overlay × String :=
  let apply (op : Op) : Overlay × String := let r := o.step op; (r.1, showRes r.2)
  match splitSp line with
  | ["new"] => (Overlay.init [], "ok")
  | ["new", base] => match parseBase base with
    | some m => (Overlay.init m, "ok")
    | none => (o, "bad-op")
  | ["get", k] => match parseHex k with
    | some [] => (o, "err") | some kb => apply (.get (encKey kb)) | none => (o, "bad-op")
  | ["has", k] => match parseHex k with
    | some [] => (o, "err") | some kb => apply (.has (encKey kb)) | none => (o, "bad-op")
  | ["set", k, v] => match parseHex k with
    | some [] => (o, "err")
    | some kb => if v = "-" then (o, "err") else apply (.set (encKey kb) v)
    | none => (o, "bad-op")
  | ["del", k] => match parseHex k with
    | some [] => (o, "err") | some kb => apply (.del (encKey kb)) | none => (o, "bad-op")
  | ["batch"] => apply (.batch [])
  | ["batch", items] =>
    let ps := (items.splitOn ",").map parseBOp
    if ps.any (·.isNone) then (o, "bad-op")
    else apply (.batch (ps.filterMap (fun x => x.join)))
  | [dir, lo, hi] =>
    if dir ≠ "iter" ∧ dir ≠ "riter" then (o, "bad-op") else
    match parseOptKey lo, parseOptKey hi with
    | some l, some h =>
      if l = some [] ∨ h = some [] then (o, "err")
      else apply (if dir = "iter" then .iter (bound l) (bound h) else .riter (bound l) (bound h))
    | _, _ => (o, "bad-op")
  | _ => (o, "bad-op")

/-- batch objects: `bnew` | `bs k v` (`v = -`: refused) | `bd k` | `bwrite` | `bclose`; everything else goes to `step1` -/
def step (w : Staged Overlay) (line : String) : Staged Overlay × String :=
  let x (op : XOp) : Staged Overlay × String := let r := xstep Overlay.step w op; (r.1, showRes r.2)
  match splitSp line with
  | ["new"] => (⟨Overlay.init [], none⟩, "ok")
  | ["new", base] => match parseBase base with
    | some m => (⟨Overlay.init m, none⟩, "ok")
    | none => (w, "bad-op")
  | ["bnew"] => x .bnew
  | ["bwrite"] => x .bwrite
  | ["bclose"] => x .bclose
  | ["bs", k, v] => match parseHex k with
    | some [] => (w, "err")
    | some kb => if v = "-" then (x (.bstage (.bad (encKey kb)))).map id (fun _ => "err") else x (.bstage (.set (encKey kb) v))
    | none => (w, "bad-op")
  | ["bd", k] => match parseHex k with
    | some [] => (w, "err")
    | some kb => x (.bstage (.del (encKey kb)))
    | none => (w, "bad-op")
  | _ => let r := step1 w.st line; ({ w with st := r.1 }, r.2)

end IdenaModel.Drv.C13

def main : IO Unit := IdenaModel.Drv.runDriver (⟨IdenaModel.Store.Overlay.init [], none⟩ : IdenaModel.Store.Staged IdenaModel.Store.Overlay) IdenaModel.Drv.C13.step
