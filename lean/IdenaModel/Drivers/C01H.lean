import IdenaModel.Model.CeremonyEpoch
import IdenaModel.Model.Shards
import IdenaModel.Model.CeremonyCandidates
import IdenaModel.Drivers.Util
/-! Driver for channel C01 (replica histories): the ceremony records of a node under blocks, resets and restarts.
ops: `new` | `blk <finish 0|1> <tx,tx,…|->` with tx = `sender:kind:payload` | `reset <k>` (the newest k blocks are removed)
| `restart` | `ans` (epoch and the records held, sorted) | `lot <digest>` (the next `blk` starts the flip lottery on a state whose
ceremony candidates have this digest) | `cands` (digest of the candidates the node holds, M-CeremonyCandidates) -/
namespace IdenaModel.Drv.C01H
open IdenaModel.CeremonyEpoch IdenaModel.Drv

structure St where
  n : Node
  keys : List (Nat × Nat)     -- every (sender, kind) seen in this case, for printing the extensional store
  cn : IdenaModel.CeremonyCandidates.Node := IdenaModel.CeremonyCandidates.Node.init
  cpast : List IdenaModel.CeremonyCandidates.Chain := []   -- the chains of the finished epochs (before their finishing block)
  pendingLot : Option Nat := none

def init : St := { n := Node.init, keys := [] }

namespace Cand
open IdenaModel.CeremonyCandidates in
/-- blocks of the running epoch -/
def curLen (c : IdenaModel.CeremonyCandidates.Chain) : Nat := c.before + (match c.lot with | some (_, a) => a + 1 | none => 0)

def blk (st : St) (finish : Bool) : St :=
  if finish then { st with cn := st.cn.step true .finish, cpast := st.cn.chain :: st.cpast, pendingLot := none }
  else match st.pendingLot with
    | some d => { st with cn := st.cn.step true (.lottery d), pendingLot := none }
    | none => { st with cn := st.cn.step true .block }

/-- a reset of k blocks; across a finishing block the reset handler first returns to the previous epoch's ceremony
(`completeEpoch`, then the candidates of that epoch from its database while the state is in a ceremony period) -/
def reset (st : St) (k : Nat) : St :=
  if k ≤ curLen st.cn.chain then { st with cn := st.cn.step true (.reset k) }
  else match st.cpast with
    | [] => st
    | c :: rest =>
      let back : IdenaModel.CeremonyCandidates.Node :=
        { chain := c, cands := IdenaModel.CeremonyCandidates.expected c, db := IdenaModel.CeremonyCandidates.expected c }
      { st with cn := back.step true (.reset (k - curLen st.cn.chain - 1)), cpast := rest }
end Cand

/-- `node.StartWithHeight` as of the pinned source: the calls on the node's components in order.  The harness fixture
`chainfx.Start` re-states the part before the network components (up to `ProvideApplyNewEpochFunc`).  Calls of the node's own
methods declared in node.go are replaced by the calls their bodies make (moving code into a helper method changes nothing). -/
def expectedStartSequence : String :=
  "secStore.AddKey,blockchain.InitializeChain,appState.Initialize,blockchain.Head.Height,appState.Initialize," ++
  "blockchain.EnsureIntegrity,blockchain.Head.Height,blockchain.ResetTo,blockchain.ApplyHotfixToState,txpool.Initialize," ++
  "secStore.GetAddress,flipKeyPool.Initialize,votes.Initialize,fp.Initialize,ceremony.Initialize,blockchain.GetBlock," ++
  "blockchain.Head.Hash,blockchain.ProvideApplyNewEpochFunc,offlineDetector.Start,consensusEngine.Start,pm.Start," ++
  "upgrader.Start,httpListener.Close,httpHandler.Stop,httpServer.Close"

def parseTx (s : String) : Option Tx :=
  match s.splitOn ":" with
  | [a, k, p] => match a.toNat?, k.toNat?, p.toNat? with
    | some a, some k, some p => some ⟨a, k, p⟩
    | _, _, _ => none
  | _ => none

def parseTxs (s : String) : Option (List Tx) :=
  if s = "-" then some [] else (s.splitOn ",").mapM parseTx

def insertKey (ks : List (Nat × Nat)) (k : Nat × Nat) : List (Nat × Nat) :=
  if ks.contains k then ks else
    let (lo, hi) := ks.span (fun x => x.1 < k.1 || (x.1 == k.1 && x.2 < k.2))
    lo ++ k :: hi

def showAns (st : St) : String :=
  let es := st.keys.filterMap (fun (a, k) => (st.n.vc.mem a k).map (fun p => s!"{a}:{k}:{p}"))
  s!"e={st.n.vc.epoch} " ++ (if es.isEmpty then "-" else ",".intercalate es)

def step (st : St) (line : String) : St × String :=
  match splitSp line with
  | ["new"] => (init, "ok")
  | ["blk", f, txs] =>
    match parseTxs txs with
    | none => (st, "bad-op")
    | some l =>
      let keys := l.foldl (fun ks t => insertKey ks (t.sender, t.kind)) st.keys
      if f = "1" then (Cand.blk { st with n := st.n.step true (.finish l), keys := keys } true, "ok")
      else if f = "0" then (Cand.blk { st with n := st.n.step true (.add l), keys := keys } false, "ok")
      else (st, "bad-op")
  | ["reset", k] =>
    match k.toNat? with
    | none => (st, "bad-op")
    | some k =>
      let c := st.n.chain
      if k ≤ c.cur.length then (Cand.reset { st with n := st.n.step true (.reset k) } k, "ok")
      else match c.past with
        | [] => (st, "bad-op")
        | (_, blocks) :: _ =>
          let j := k - c.cur.length - 1
          -- a reset over two finishing blocks is outside the model (and outside what a node keeps data for)
          if j ≤ blocks.length then (Cand.reset { st with n := st.n.step true (.resetAcross j) } k, "ok") else (st, "unsupported")
  | ["restart"] => ({ st with n := st.n.step true .restart, cn := st.cn.step true .restart }, "ok")
  | ["lot", d] =>
    match d.toNat? with
    | some d => ({ st with pendingLot := some d }, "ok")
    | none => (st, "bad-op")
  | ["cands"] => (st, match st.cn.cands with | some d => toString d | none => "none")
  | ["ans"] => (st, showAns st)
  -- the node's start-up sequence as extracted from node/node.go; `chainfx.Start` (harness) re-states exactly this one
  | ["fact", "node-start-sequence", seq] =>
    (st, if seq = expectedStartSequence then "matches-chainfx-start" else "differs-from-what-chainfx-start-restates")
  -- `shards <min> <max> <networkSize> <currentShards>`: common.CalculateShardsNumber (model: Model/Shards.lean)
  | ["shards", mi, ma, n, cur] =>
    match mi.toNat?, ma.toNat?, n.toNat?, cur.toNat? with
    | some mi, some ma, some n, some cur => (st, s!"num {IdenaModel.Shards.shardsNum mi ma n cur}")
    | _, _, _, _ => (st, "bad-op")
  | _ => (st, "bad-op")

end IdenaModel.Drv.C01H

def main : IO Unit := IdenaModel.Drv.runDriver IdenaModel.Drv.C01H.init IdenaModel.Drv.C01H.step
