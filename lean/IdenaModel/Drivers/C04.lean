import IdenaModel.Model.Rewards
import IdenaModel.Drivers.Util
/-! Driver for the channels C04 (real chain histories: ledger sums per block) and C04fn (the real reward
functions on generated arguments).  ops:
`new` | `cfg BR FCR feeBurn stakeRate stakeRateNewbie pStaking pCandidate pFlipBasic pFlipExtra pFlipOld pInvitation
pReports pFoundation pZero u10 u12` (the Go config's constants; `ok` iff they are the model's) |
`blk kind before afterTxs after neg totalFee totalTips epochLen|-` (checkBlockBound) |
`split total newbie` | `pen bal stake penalty secs penTs blockTs` | `share prevState birthday epoch` |
`brw totalFee totalTips blockTs  coinbase stakeDest newbie pen secs ts  m (addr dest request newbie pen secs ts)×m  q…` |
`cat name pool wTotal wScale n (addr dest w newbie stakeOnly)×n q…` | `flat pool` |
`cerk stake locked share` | `cerv stake replenished` | `dust thr balance` -/
namespace IdenaModel.Drv.C04
open IdenaModel.Rewards IdenaModel.Ledger IdenaModel.Drv

structure St where
  cfg : RCfg := {}

def init : St := {}

/-- `"0.18"` ↦ `18/100`, `"5"` ↦ `5/1` -/
def parseDec (s : String) : Option Rate :=
  match s.splitOn "." with
  | [i] => i.toNat?.map fun n => ⟨n, 1⟩
  | [i, f] =>
    match (i ++ f).toNat? with
    | some n => if i.isEmpty ∨ f.isEmpty then none else some ⟨n, 10 ^ f.length⟩
    | none => none
  | _ => none

def rateEq (a b : Rate) : Bool := a.num * b.den == b.num * a.den

/-- a percentage given as a decimal equals `p` hundredths -/
def pctEq (a : Rate) (p : Nat) : Bool := a.num * 100 == p * a.den

def parseBool (s : String) : Option Bool :=
  if s = "1" then some true else if s = "0" then some false else none

def cfgStep (st : St) (t : List String) : St × String :=
  match t with
  | [br, fcr, fb, sr, srn, ps, pc, pfb, pfe, pfo, pi, pr, pf, pz, u10, u12] =>
    match br.toNat?, fcr.toNat?, parseDec fb, parseDec sr, parseDec srn, parseDec ps, parseDec pc, parseDec pfb with
    | some br, some fcr, some fb, some sr, some srn, some ps, some pc, some pfb =>
      match parseDec pfe, parseDec pfo, parseDec pi, parseDec pr, parseDec pf, parseDec pz, parseBool u10, parseBool u12 with
      | some pfe, some pfo, some pi, some pr, some pf, some pz, some u10, some u12 =>
        let d : RCfg := {}
        let c : RCfg := { d with u10 := u10, u12 := u12 }
        let ok := br == d.blockReward && fcr == d.finalCommitteeReward && rateEq fb d.feeBurn && rateEq sr d.stakeRate &&
          rateEq srn d.stakeRateNewbie && pctEq ps d.pStaking && pctEq pc d.pCandidate && pctEq pfb d.pFlipBasic &&
          pctEq pfe d.pFlipExtra && pctEq pfo d.pFlipOld && pctEq pi d.pInvitation && pctEq pr d.pReports &&
          pctEq pf d.pFoundation && pctEq pz d.pZeroWallet
        ({ cfg := c }, if ok then "ok" else "cfg-mismatch")
      | _, _, _, _, _, _, _, _ => (st, "bad-op")
    | _, _, _, _, _, _, _, _ => (st, "bad-op")
  | _ => (st, "bad-op")

def blkStep (st : St) (t : List String) : String :=
  match t with
  | [kind, before, afterTxs, after, neg, fee, tips, el] =>
    let proposed? : Option Bool := if kind = "proposed" then some true else if kind = "empty" then some false else none
    let el? : Option (Option Nat) := if el = "-" then some none else el.toNat?.map some
    match proposed?, before.toInt?, afterTxs.toInt?, after.toInt?, neg.toNat?, fee.toInt?, tips.toInt?, el? with
    | some proposed, some before, some afterTxs, some after, some neg, some fee, some tips, some el =>
      match checkBlockBound st.cfg proposed el before afterTxs after neg fee tips with
      | .ok g => s!"ok growth={g}"
      | .negative => "negative"
      | .txsIncrease => "txs-increase"
      | .exceeds b => s!"exceeds bound={b}"
    | _, _, _, _, _, _, _, _ => "bad-op"
  | _ => "bad-op"

def parsePen (a s t : String) : Option Pen :=
  match a.toInt?, s.toNat?, t.toInt? with
  | some a, some s, some t => some ⟨a, s, t⟩
  | _, _, _ => none

def parseMembers : Nat → List String → Option (List Member × List String)
  | 0, rest => some ([], rest)
  | n + 1, a :: d :: r :: nb :: pa :: ps :: pt :: rest =>
    match a.toNat?, d.toNat?, r.toNat?, parseBool nb, parsePen pa ps pt, parseMembers n rest with
    | some a, some d, some r, some nb, some p, some (ms, rest') => some (⟨a, d, r, nb, p⟩ :: ms, rest')
    | _, _, _, _, _, _ => none
  | _, _ => none

def parsePayees : Nat → List String → Option (List Payee × List String)
  | 0, rest => some ([], rest)
  | n + 1, a :: d :: w :: nb :: so :: rest =>
    match a.toNat?, d.toNat?, w.toNat?, parseBool nb, parseBool so, parsePayees n rest with
    | some a, some d, some w, some nb, some so, some (ps, rest') => some (⟨a, d, w, nb, so⟩ :: ps, rest')
    | _, _, _, _, _, _ => none
  | _, _ => none

def parseNats : List String → Option (List Nat)
  | [] => some []
  | x :: t => match x.toNat?, parseNats t with
    | some n, some l => some (n :: l)
    | _, _ => none

/-- `d <total> a:balance:stake:locked:replenished …` of a state built from the empty one -/
def showState (s : State) (q : List Nat) : String :=
  let parts := q.map fun a =>
    let f := s.idf a
    s!"{a}:{s.balance a}:{f.stake}:{f.locked}:{f.replenished}"
  " ".intercalate (s!"d {total s}" :: parts)

def catPct (c : RCfg) (name : String) : Option Nat :=
  if name = "staking" then some c.pStaking
  else if name = "candidates" then some c.pCandidate
  else if name = "flipBasic" then some c.flipBasic
  else if name = "flipExtra" then some c.flipExtra
  else if name = "invitations" then some c.pInvitation
  else if name = "reports" then some c.pReports
  else none

def step (st : St) (line : String) : St × String :=
  match splitSp line with
  | ["new"] => (init, "ok")
  | "cfg" :: t => cfgStep st t
  | "blk" :: t => (st, blkStep st t)
  | ["split", total, nb] =>
    match total.toInt?, parseBool nb with
    | some total, some nb => let r := splitReward st.cfg total nb; (st, s!"{r.1} {r.2}")
    | _, _ => (st, "bad-op")
  | ["pen", bal, stake, pa, ps, pt, bt] =>
    match bal.toInt?, stake.toInt?, parsePen pa ps pt, bt.toInt? with
    | some bal, some stake, some p, some bt =>
      let o := calculatePenalty bal stake p bt
      let sub := match o.penSub with | some x => toString x | none => "-"
      (st, s!"{o.balAdd} {o.stakeAdd} {sub} {o.secSub}")
    | _, _, _, _ => (st, "bad-op")
  | ["share", prev, bd, ep] =>
    match prev.toNat? >>= IdState.ofNat?, bd.toNat?, ep.toNat? with
    | some prev, some bd, some ep =>
      if bd < 65536 ∧ ep < 65536 then (st, toString (stakeShareToBurn prev bd ep)) else (st, "bad-op")
    | _, _, _ => (st, "bad-op")
  | "brw" :: fee :: tips :: bt :: cb :: sd :: nb :: pa :: ps :: pt :: m :: rest =>
    match fee.toInt?, tips.toInt?, bt.toInt?, cb.toNat?, sd.toNat?, parseBool nb, parsePen pa ps pt, m.toNat? with
    | some fee, some tips, some bt, some cb, some sd, some nb, some p, some m =>
      match parseMembers m rest with
      | some (ms, q) =>
        match parseNats q with
        | some q => (st, showState (applyBlockRewards st.cfg {} fee tips bt ms ⟨cb, sd, nb, p⟩) q)
        | none => (st, "bad-op")
      | none => (st, "bad-op")
    | _, _, _, _, _, _, _, _ => (st, "bad-op")
  | "cat" :: name :: pool :: wt :: ws :: n :: rest =>
    match catPct st.cfg name, pool.toNat?, wt.toNat?, ws.toNat?, n.toNat? with
    | some pct, some pool, some wt, some ws, some n =>
      if ws = 0 then (st, "bad-op") else
      match parsePayees n rest with
      | some (ps, q) =>
        match parseNats q with
        | some q => (st, showState (payCategory st.cfg {} pool pct ⟨wt, ws, ps⟩) q)
        | none => (st, "bad-op")
      | none => (st, "bad-op")
    | _, _, _, _, _ => (st, "bad-op")
  | ["flat", pool] =>
    match pool.toNat? with
    | some pool => (st, s!"{flatPayout pool st.cfg.pFoundation} {flatPayout pool st.cfg.pZeroWallet}")
    | none => (st, "bad-op")
  | ["cerk", stake, locked, share] =>
    match stake.toInt?, locked.toInt?, share.toNat? with
    | some stake, some locked, some share =>
      let s0 : State := (({} : State).addStake 1 stake).addLocked 1 locked
      let s1 := applyCerOp s0 (.killSave 1 share)
      (st, s!"{s1.balance 1} {(killSaveParts (s0.idf 1) share).2}")
    | _, _, _ => (st, "bad-op")
  | ["cerv", stake, repl] =>
    match stake.toInt?, repl.toInt? with
    | some stake, some repl =>
      let s0 : State := (({} : State).addStake 1 stake).addReplenished 1 repl
      let s1 := applyCerOp s0 (.verifiedTransfer 1 2)
      (st, s!"{s1.balance 2} {s1.stake 1}")
    | _, _ => (st, "bad-op")
  | ["dust", thr, bal] =>
    match thr.toInt?, bal.toInt? with
    | some thr, some bal =>
      let s1 := clearDust thr (({} : State).addBal 1 bal) 1
      (st, toString (s1.balance 1))
    | _, _ => (st, "bad-op")
  | _ => (st, "bad-op")

end IdenaModel.Drv.C04

def main : IO Unit := IdenaModel.Drv.runDriver IdenaModel.Drv.C04.init IdenaModel.Drv.C04.step
