import IdenaModel.Model.ContractEnv
import IdenaModel.Drivers.Util
/-! Driver for channel C15: replays one contract transaction per `new` block.

```
new <mode>
tx <deploy|call|terminate> <wasm 0|1> <snd> <c> <amt> <tips> <maxFee> <txFee> <fpg> <u11> <nonce> <epoch>   -> gl <gasLimit>
i bal <id> <n> | i con <id> <stake> <code> | i st <id> <key> <val> | i acct <id> <nonce> <epoch>            -> ok
c <embedded env call>            -> <result> g<gas counter>
c <env id> <wasm host call>      -> <result>
fz <wasm 0|1> <c> <gas limit> … endraw <ok|fail>   synthetic trace on the bare environment (no wrapper) -> ok
end <ok|fail> <raw wasm gas>     -> rc <success> <gasUsed> <gasCost> <fee> ev<events> (b<explicit burns> | m<net host mint>)
q bal|con|st <id> , q acct <id>  -> post state
```
Per-call answers come from `EEnv.step` / `WEnv.step`; the `end` and `q` answers from `applyE` / `applyW` on the
accumulated trace (the functions the theorems are about). -/
namespace IdenaModel.Drv.C15
open IdenaModel.ContractEnv IdenaModel.Drv

structure St where
  t : Option TxIn := none
  base : Base := { bal := fun _ => 0, con := fun _ => none, store := fun _ => none }
  started : Bool := false
  e : EEnv := { base := { bal := fun _ => 0, con := fun _ => none, store := fun _ => none } }
  w : WEnv := { base := { bal := fun _ => 0, con := fun _ => none, store := fun _ => none }, stack := [] }
  etrace : List ECall := []      -- reversed
  wtrace : List (Nat × WCall) := []
  final : Option (Base × Receipt) := none
  raw : Option Int := none       -- synthetic trace on the bare environment (`fz` line): the gas limit, no wrapper

def parseInt (s : String) : Option Int :=
  match s.toList with
  | '-' :: t => (String.ofList t).toNat?.map fun n => -(n : Int)
  | _ => s.toNat?.map fun n => (n : Int)

def parseOptBytes (s : String) : Option (Option Bytes) :=
  if s = "-" then some none else if s.startsWith "x" then some (some s) else none

def isBytes (s : String) : Bool := s = "-" || s.startsWith "x"

def rdCost : String → Option Nat
  | "blocknumber" => some ReadBlockGas
  | "blocktime" => some ReadBlockGas
  | "minfeepergas" => some ReadBlockGas
  | "blockseed" => some ReadBlockGas
  | "networksize" => some ReadBlockGas
  | "epoch" => some ReadGlobalStateGas
  | "state" => some ReadIdentityStateGas
  | "pubkey" => some ReadStateGas
  | "delegatee" => some ReadStateGas
  | "discrimination" => some ReadStateGas   -- followed by `e.Epoch()` (`env.go:204`): a second charge, see `step`
  | _ => none

/-- `^[\x00-\x7F]{1,32}$` (`env.go:24`) on the hex token of the name -/
def nameOk (tok : String) : Option Bool :=
  (parseHex tok).map fun bs => decide (1 ≤ bs.length) && decide (bs.length ≤ 32) && bs.all (· < 128)

def parseECall : List String → Option ECall
  | ["rd", nm] => (rdCost nm).map .rd
  | ["set", c, k, v] => if isBytes k && isBytes v then c.toNat?.map fun c => .set c k v else none
  | ["get", a, k] => if isBytes k then a.toNat?.map fun a => .get a k else none
  | ["rm", c, k] => if isBytes k then c.toNat?.map fun c => .rm c k else none
  | ["send", c, d, amt] => do some (.send (← c.toNat?) (← d.toNat?) (← parseInt amt))
  | ["bal", a] => a.toNat?.map .bal
  | ["stake", a] => a.toNat?.map .stake
  | ["mvstake", c, amt] => do some (.mvstake (← c.toNat?) (← parseInt amt))
  | ["burnall", c] => c.toNat?.map .burnAll
  | ["event", nm, sz] => do some (.event (← nameOk nm) (← sz.toNat?))
  | ["deploy", c, st, code] => do some (.deploy (← c.toNat?) (← parseInt st) (← code.toNat?))
  | ["terminate", c, d, keep] =>
    match keep.splitOn "," with
    | "k" :: ks => if ks.all isBytes then do some (.terminate (← c.toNat?) (← d.toNat?) ks) else none
    | _ => none
  | ["iter", c, lo, hi] => do some (.iter (← c.toNat?) (← parseOptBytes lo) (← parseOptBytes hi))
  | ["item"] => some .item
  | ["itret", "stop"] => some (.itret true)
  | ["itret", "go"] => some (.itret false)
  | _ => none

def parseWCall : List String → Option WCall
  | ["rd", _] => some .rd
  | ["set", k, v] => if isBytes k && isBytes v then some (.set k v) else none
  | ["get", k] => if isBytes k then some (.get k) else none
  | ["rcd", a, k] => if isBytes k then a.toNat?.map fun a => .rcd a k else none
  | ["rm", k] => if isBytes k then some (.rm k) else none
  | ["bal"] => some .bal
  | ["sub", amt] => (parseInt amt).map .sub
  | ["add", a, amt] => do some (.add (← a.toNat?) (← parseInt amt))
  | ["burn", amt] => (parseInt amt).map .burn
  | ["subenv", c, pay, _] => do some (.subenv (← c.toNat?) (← parseInt pay))
  | ["commit"] => some .commit
  | ["deploy", code] => code.toNat?.map .deploy
  | ["code", a] => a.toNat?.map .code
  | ["hascode", a] => a.toNat?.map .hascode
  | ["event", nm, _] => (nameOk nm).map .event
  | _ => none

def showRes : Res → String
  | .ok => "ok" | .err => "err" | .oog => "oog" | .panic => "panic"
  | .num n => s!"n{n}"
  | .val v => "v" ++ v
  | .kv k v => s!"kv {k} {v}"
  | .done => "done"
  | .env id => s!"env {id}"
  | .code c => s!"c{c}"
  | .nocode => "cnil"
  | .burnt n => s!"ok b{n}"
  | .bad => "bad-trace"

def start (s : St) : St :=
  if s.started then s else
  match s.t with
  | none => s
  | some t =>
    let b1 := prePay t s.base
    { s with started := true, e := { base := b1, limit := match s.raw with | some l => l | none => gasLimit t },
             w := { base := b1, stack := [WEnv.rootFrame b1 t.c] } }

def sortKV (l : List (Bytes × Bytes)) : List (Bytes × Bytes) :=
  l.foldr (fun kv acc =>
    let rec ins : List (Bytes × Bytes) → List (Bytes × Bytes)
      | [] => [kv]
      | h :: t => if h.1 < kv.1 then h :: ins t else kv :: h :: t
    ins acc) []

def showStore (b : Base) (id : Nat) : String :=
  let ks := ((b.keys.filter fun k => k.1 = id).map (·.2)).eraseDups
  let kvs := ks.filterMap fun k => (b.store (id, k)).map fun v => (k, v)
  match sortKV kvs with
  | [] => "st"
  | l => "st " ++ ",".intercalate (l.map fun kv => kv.1 ++ "=" ++ kv.2)

def step (s : St) (line : String) : St × String :=
  match splitSp line with
  | ["new", _] => ({}, "ok")
  | ["tx", kind, wasm, snd, c, amt, tips, maxFee, txFee, fpg, u11, nonce, epoch] =>
    let k : Option Kind := match kind with
      | "deploy" => some .deploy | "call" => some .call | "terminate" => some .terminate | _ => none
    match k, wasm.toNat?, snd.toNat?, c.toNat?, amt.toNat?, tips.toNat?, maxFee.toNat?, txFee.toNat?, fpg.toNat?, u11.toNat?, nonce.toNat?, epoch.toNat? with
    | some k, some w, some snd, some c, some amt, some tips, some mf, some tf, some fpg, some u, some n, some ep =>
      let t : TxIn := { kind := k, wasm := w = 1, snd := snd, c := c, amt := amt, tips := tips, maxFee := mf, txFee := tf, fpg := fpg,
                        u11 := u = 1, nonce := n, epoch := ep }
      ({ s with t := some t }, s!"gl {gasLimit t}")
    | _, _, _, _, _, _, _, _, _, _, _, _ => (s, "bad-op")
  | ["fz", wasm, c, limit] =>
    match wasm.toNat?, c.toNat?, parseInt limit with
    | some w, some c, some l =>
      let t : TxIn := { kind := .call, wasm := w = 1, snd := 0, c := c, amt := 0, tips := 0, maxFee := 0, txFee := 0, fpg := 0 }
      ({ s with t := some t, raw := some l }, "ok")
    | _, _, _ => (s, "bad-op")
  | ["endraw", verdict] =>
    let s := start s
    match s.t with
    | some t =>
      if s.raw.isNone || (verdict ≠ "ok" ∧ verdict ≠ "fail") then (s, "bad-op") else
      let b := if t.wasm then s.w.base else if verdict = "ok" && !s.e.dead then s.e.commit else s.e.base
      ({ s with final := some (b, { success := true, gasUsed := 0, gasCost := 0, fee := 0, events := 0 }) }, "ok")
    | none => (s, "bad-op")
  | ["i", "bal", id, n] =>
    match id.toNat?, parseInt n with
    | some id, some n => if s.started then (s, "bad-op") else ({ s with base := { s.base with bal := upd s.base.bal id n } }, "ok")
    | _, _ => (s, "bad-op")
  | ["i", "con", id, st, code] =>
    match id.toNat?, (if st = "nil" then some (0 : Int) else parseInt st), code.toNat? with
    | some id, some stv, some code =>
      if s.started then (s, "bad-op") else
      ({ s with base := { s.base with con := upd s.base.con id (some ⟨stv, code⟩), stakeNil := upd s.base.stakeNil id (st = "nil") } }, "ok")
    | _, _, _ => (s, "bad-op")
  | ["i", "st", id, k, v] =>
    match id.toNat? with
    | some id =>
      if s.started || !isBytes k || !isBytes v then (s, "bad-op") else
      ({ s with base := { s.base with store := updK s.base.store (id, k) (some v), keys := s.base.keys ++ [(id, k)] } }, "ok")
    | none => (s, "bad-op")
  | ["i", "acct", id, n, ep] =>
    match id.toNat?, n.toNat?, ep.toNat? with
    | some id, some n, some ep =>
      if s.started then (s, "bad-op") else
      ({ s with base := { s.base with nonce := upd s.base.nonce id n, epoch := upd s.base.epoch id ep } }, "ok")
    | _, _, _ => (s, "bad-op")
  | "c" :: rest =>
    let s := start s
    match s.t with
    | none => (s, "bad-op")
    | some t =>
      if s.final.isSome then (s, "bad-op") else
      if t.wasm then
        match rest with
        | id :: call =>
          match id.toNat?, parseWCall call with
          | some id, some c =>
            let (w', r) := s.w.step id c
            ({ s with w := w', wtrace := (id, c) :: s.wtrace }, showRes r)
          | _, _ => (s, "bad-op")
        | [] => (s, "bad-op")
      else if rest = ["commit"] then (s, s!"ok g{s.e.gas}")
      else
        match parseECall rest with
        | some c =>
          let (e', r) := s.e.step c
          if rest = ["rd", "discrimination"] && r == .ok then
            -- `DiscriminationFlags` = `AddGas(ReadStateGas)` then `e.Epoch()` = `AddGas(ReadGlobalStateGas)`: two calls
            let c2 := ECall.rd ReadGlobalStateGas
            let (e2, r2) := e'.step c2
            ({ s with e := e2, etrace := c2 :: c :: s.etrace }, s!"{showRes r2} g{e2.gas}")
          else
          ({ s with e := e', etrace := c :: s.etrace }, s!"{showRes r} g{e'.gas}")
        | none => (s, "bad-op")
  | ["end", verdict, raw] =>
    let s := start s
    match s.t, raw.toNat? with
    | some t, some raw =>
      if verdict ≠ "ok" ∧ verdict ≠ "fail" then (s, "bad-op") else
      let v := verdict = "ok"
      let r := if t.wasm then applyW t s.base s.wtrace.reverse v raw else applyE t s.base s.etrace.reverse v
      -- an `ok` verdict after a call that can only fail is not a run of the real VM
      let consistent := t.wasm || !(v && s.e.dead)
      let rc := r.2
      ({ s with final := some r },
        if !consistent then "inconsistent-verdict" else
        s!"rc {if rc.success then 1 else 0} {rc.gasUsed} {rc.gasCost} {rc.fee} ev{rc.events}" ++
          (if t.wasm then s!" m{rc.mint}" else s!" b{rc.burnt}"))
    | _, _ => (s, "bad-op")
  | ["q", what, id] =>
    match s.final, id.toNat? with
    | some (b, _), some id =>
      match what with
      | "bal" => (s, s!"n{b.bal id}")
      | "con" => (s, match b.con id with | some d => s!"con {d.stake} {d.code}" | none => "nocon")
      | "st" => (s, showStore b id)
      | "acct" => (s, s!"{b.nonce id} {b.epoch id}")
      | _ => (s, "bad-op")
    | _, _ => (s, "bad-op")
  | _ => (s, "bad-op")

end IdenaModel.Drv.C15

def main : IO Unit := IdenaModel.Drv.runDriver ({} : IdenaModel.Drv.C15.St) IdenaModel.Drv.C15.step
