import IdenaModel.Model.Determinism
import IdenaModel.Drivers.Util
import IdenaModel.Drivers.C01Census
/-! Driver `oracle_c01` for the C01 channels (stateless: one answer per line).

  `new …`                                         ↦ `ok`
  `site <kind> <file> <func> <expr#n> <guard>`    ↦ class of the reviewed table (`Drivers/C01Census.lean`), `unclassified`
                                                    for an unknown site, `unsorted` / `not-utc` for a `sorted-after` /
                                                    `utc-normalised` site whose function now contains fewer sorting
                                                    calls / `.UTC()` conversions than when reviewed    (channel C01census)
  `np <n>`                                        ↦ `<epochDaysOf n> <satDaysOf n | ->`               (channel C01time)
  `nvt <ts> <off> <n> <base> <u12> <interval>`    ↦ `<days> <next unix>` of the repaired code (`off` is ignored by it)
  `isort <k,k,…>` / `isortdesc <k,k,…>`           ↦ the sorted slice                                  (channel C01order)
  `precommit <acc> <ids> <store> <burnt> <code>`  ↦ op sequence `kind:key:(s|r),…`; each set `k[!],…` in enumeration order,
                                                    `!` marks an object that is empty (removed)
  `idprecommit <ids>`                             ↦ the same for `IdentityStateDB.Precommit` (kind 5)
  `iter <stopKey|-> <cache k[!],…> <tree k,…>`    ↦ keys handed to the callback, in order (`iterateFixed`)
  `pay <pool> <w,w,…>`                            ↦ payments `p,p,…` and what remains
  `epoch <u10> <epoch> <order a,…> <state a:deleg:delegEpoch:pending:undelegEpoch,…> <vals a:validated:prevNonValidated:deleg,…>`
                                                  ↦ the identities after `applyEpoch` in the GIVEN order, `a:deleg:delegEpoch:pending:undelegEpoch:validated,…` -/
namespace IdenaModel.Drv.C01
open IdenaModel.Determinism IdenaModel.Drv

def parseInt (s : String) : Option Int :=
  match s.toList with
  | '-' :: t => (String.ofList t).toNat?.map fun n => -(n : Int)
  | _ => s.toNat?.map fun n => (n : Int)

def parseBool (s : String) : Option Bool := if s = "1" then some true else if s = "0" then some false else none

def classify (key : String) (guard : Nat) : String :=
  match censusTable.find? (·.1 = key) with
  | none => "unclassified"
  | some (_, cls, need) =>
    if cls = "sorted-after" ∧ guard < need then "unsorted"
    else if cls = "utc-normalised" ∧ guard < need then "not-utc"
    else cls

/-- `-` ↦ [], `3,1,2` ↦ [3,1,2] -/
def parseNats (s : String) : Option (List Nat) :=
  if s = "-" then some [] else (s.splitOn ",").mapM (·.toNat?)

/-- `5!,3` ↦ [(5, true), (3, false)] (flag = empty / removed) -/
def parseFlagged (s : String) : Option (List (Nat × Bool)) :=
  if s = "-" then some [] else
  (s.splitOn ",").mapM fun item =>
    let cs := item.toList
    match cs.reverse with
    | '!' :: r => (String.ofList r.reverse).toNat?.map fun n => (n, true)
    | _ => item.toNat?.map fun n => (n, false)

def showNats (l : List Nat) : String := if l.isEmpty then "-" else ",".intercalate (l.map toString)

def objsOf (l : List (Nat × Bool)) : Objs := fun k =>
  match l.find? (·.1 = k) with
  | some (_, true) => none
  | _ => some 0

def parseOptNat (s : String) : Option (Option Nat) := if s = "-" then some none else s.toNat?.map some

def parseState (s : String) : Option IdState :=
  if s = "-" then some [] else
  (s.splitOn ",").mapM fun item =>
    match item.splitOn ":" with
    | [a, d, de, p, ue] =>
      match a.toNat?, parseOptNat d, de.toNat?, parseBool p, ue.toNat? with
      | some a, some d, some de, some p, some ue =>
        some (a, { delegatee := d, delegationEpoch := de, pendingUndelegation := p, undelegationEpoch := ue })
      | _, _, _, _, _ => none
    | _ => none

def parseVals (s : String) : Option EpochVals :=
  if s = "-" then some [] else
  (s.splitOn ",").mapM fun item =>
    match item.splitOn ":" with
    | [a, v, pnv, d] =>
      match a.toNat?, parseBool v, parseBool pnv, parseOptNat d with
      | some a, some v, some pnv, some d => some (a, ⟨v, pnv, d⟩)
      | _, _, _, _ => none
    | _ => none

def showOptNat : Option Nat → String
  | none => "-"
  | some n => toString n

def showB (b : Bool) : String := if b then "1" else "0"

def showState (s : IdState) : String :=
  if s.isEmpty then "-" else ",".intercalate (s.map fun (a, r) =>
    s!"{a}:{showOptNat r.delegatee}:{r.delegationEpoch}:{showB r.pendingUndelegation}:{r.undelegationEpoch}:{showB r.validated}")

def showOp : TreeOp → String
  | .set kind k _ => s!"{kind}:{k}:s"
  | .remove kind k => s!"{kind}:{k}:r"

def step (_ : Unit) (line : String) : Unit × String :=
  let ans : String :=
    match splitSp line with
    | "new" :: _ => "ok"
    | ["site", kind, file, fn, expr, g] =>
      match g.toNat? with
      | some g => classify (" ".intercalate [kind, file, fn, expr]) g
      | none => "bad-op"
    | ["np", n] =>
      match n.toNat? with
      | some n =>
        let d := epochDaysOf n
        s!"{d} " ++ (if d ≥ 21 then toString (satDaysOf n) else "-")
      | none => "bad-op"
    | ["nvt", ts, off, n, base, u12, iv] =>
      match parseInt ts, parseInt off, n.toNat?, base.toNat?, parseBool u12, iv.toNat? with
      | some ts, some off, some n, some base, some u12, some iv =>
        let sat := satDaysOf n
        s!"{epochDays_fixed ts off base u12 sat} {nextValidation_fixed ts off base u12 sat iv}"
      | _, _, _, _, _, _ => "bad-op"
    | ["isort", ks] => match parseNats ks with
      | some l => showNats (isort l)
      | none => "bad-op"
    | ["isortdesc", ks] => match parseNats ks with
      | some l => showNats (isortDesc l)
      | none => "bad-op"
    | ["precommit", a, i, s, b, c] =>
      match parseFlagged a, parseFlagged i, parseFlagged s, parseFlagged b, parseFlagged c with
      | some a, some i, some s, some b, some c =>
        let live : Live := { accounts := objsOf a, identities := objsOf i, store := objsOf s, burnt := objsOf b,
                             code := objsOf c, singletons := [] }
        let ops := precommitOps live ⟨a.map (·.1), i.map (·.1), s.map (·.1), b.map (·.1), c.map (·.1)⟩
        if ops.isEmpty then "-" else ",".intercalate (ops.map showOp)
      | _, _, _, _, _ => "bad-op"
    | ["idprecommit", i] =>
      match parseFlagged i with
      | some i =>
        let ops := identityPrecommitOps (objsOf i) (i.map (·.1))
        if ops.isEmpty then "-" else ",".intercalate (ops.map showOp)
      | none => "bad-op"
    | ["iter", stop, cache, tree] =>
      match (if stop = "-" then some none else stop.toNat?.map some), parseFlagged cache, parseNats tree with
      | some stop, some cache, some tree =>
        let cv : Nat → CacheVal := fun k => match cache.find? (·.1 = k) with
          | some (_, r) => ⟨r, 0⟩
          | none => ⟨false, 0⟩
        let f : List Nat → Nat → Nat → List Nat × Bool := fun t k _ => (t ++ [k], stop = some k)
        showNats (iterateFixed (fun s _ _ => s) f cv (tree.map fun k => (k, 0)) (cache.map (·.1)) [])
      | _, _, _ => "bad-op"
    | ["epoch", u10, ep, order, st, vals] =>
      match parseBool u10, ep.toNat?, parseNats order, parseState st, parseVals vals with
      | some u10, some ep, some order, some st, some vals => showState (applyEpoch u10 ep vals st order)
      | _, _, _, _, _ => "bad-op"
    | ["pay", pool, ws] =>
      match pool.toNat?, parseNats ws with
      | some pool, some ws => let r := payCommittee ws pool; s!"{showNats r.1} {r.2}"
      | _, _ => "bad-op"
    | _ => "bad-op"
  ((), ans)

end IdenaModel.Drv.C01

def main : IO Unit := IdenaModel.Drv.runDriver () IdenaModel.Drv.C01.step
