import IdenaModel.Model.BlockBuild
import IdenaModel.Drivers.Util
import IdenaModel.Model.ProposeHeader
/-! Driver for channel C02.  A case is a table of per-candidate verdicts recorded from the real code
(`cand v a fee tips gas`), `filter` asks for the kept indices and totals, `process` for the strict verdict on the kept list.
The "state" of the executable instance is irrelevant (verdicts are recorded per candidate position), so `S := Unit`
and a transaction is its row. -/
namespace IdenaModel.Drv.C02
open IdenaModel.BlockBuild IdenaModel.Drv

structure Row where
  idx : Nat
  v : Bool
  a : Bool
  fee : Nat
  tips : Nat
  gas : Nat

structure St where
  cap : Nat
  u10 : Bool
  rows : List Row   -- reversed

def init : St := { cap := 0, u10 := true, rows := [] }

def validate : Unit → Row → Bool := fun _ r => r.v
def apply : Unit → Row → Option (Applied Unit) := fun _ r => if r.a then some ((), r.fee, r.tips, r.gas) else none

def runFilter (st : St) : List Row × Acc Unit :=
  let a0 : Acc Unit := ⟨(), 0, 0, 0⟩
  if st.u10 then filterTxs (fun _ => false) validate apply st.cap a0 st.rows.reverse
  else filterTxsLegacy (fun _ => false) validate apply st.cap a0 st.rows.reverse

def showIdx (l : List Row) : String :=
  if l.isEmpty then "-" else ",".intercalate (l.map fun r => toString r.idx)

def step (st : St) (line : String) : St × String :=
  match splitSp line with
  | ["new", cap, u] =>
    match cap.toNat?, u.toNat? with
    | some c, some u => ({ cap := c, u10 := u == 1, rows := [] }, "ok")
    | _, _ => (st, "bad-op")
  | ["cand", v, a, fee, tips, gas] =>
    match v.toNat?, a.toNat?, fee.toNat?, tips.toNat?, gas.toNat? with
    | some v, some a, some f, some t, some g =>
      ({ st with rows := ⟨st.rows.length, v == 1, a == 1, f, t, g⟩ :: st.rows }, "ok")
    | _, _, _, _, _ => (st, "bad-op")
  | ["filter"] =>
    let r := runFilter st
    (st, s!"kept {showIdx r.1} fee={r.2.fee} tips={r.2.tips} gas={r.2.gas}")
  | ["process"] =>
    let r := runFilter st
    let a0 : Acc Unit := ⟨(), 0, 0, 0⟩
    let p := if st.u10 then processTxs validate apply st.cap a0 false r.1
             else processTxsLegacy validate apply st.cap a0 r.1
    match p with
    | some a => (st, s!"ok fee={a.fee} tips={a.tips} gas={a.gas}")
    | none => (st, "err")
  -- extracted fact about ProposeBlock (go/ast, from /repo's current blockchain.go): after filterTxs, when a candidate
  -- was dropped, the kept list is re-applied to a clean check state with processTxs (model: `proposeD`, theorem
  -- `propose_accepted`; without it `propose_as_found_rejected` applies)
  -- `clock <head time> <proposer's clock> <validator's clock>`: the time `ProposeBlock` puts into the header and the verdict
  -- of a correct validator on the same head (M-ProposeHeader + M-BlockValidate; theorem `honest_header_accepted_iff`)
  | ["clock", pt, np, nv] =>
    match pt.toNat?, np.toNat?, nv.toNat? with
    | some pt, some np, some nv =>
      let c := IdenaModel.BlockValidate.clockCtx pt nv
      let ch : IdenaModel.BlockValidate.Choice := ⟨0, 0, 0, 0, 0, 0, np⟩
      let h := IdenaModel.BlockValidate.proposeHeader c ch (0, 0, 0, 0, 0)
      let v := match IdenaModel.BlockValidate.validateBlock c h 0 with
        | .ok => "acc"
        | .err (some .time) => "rej-time"
        | .err _ => "rej-other"
      (st, s!"time={h .time} {v}")
    | _, _, _ => (st, "bad-op")
  | ["fact", "propose-rederives-on-clean-state", v] => (st, if v = "yes" then "matches-proposeD" else "matches-proposeDAsFound:VIOLATED")
  | _ => (st, "bad-op")

end IdenaModel.Drv.C02

def main : IO Unit := IdenaModel.Drv.runDriver IdenaModel.Drv.C02.init IdenaModel.Drv.C02.step
