import IdenaModel.Model.ProtoWire
import IdenaModel.Model.CodecTable
import IdenaModel.Model.CodecObjects
import IdenaModel.Model.RecordCodec
import IdenaModel.Drivers.Util
/-! Driver for channel C18.

Ops (one per line, space separated; every structured argument is one space-free token):

* `new`                                   — start of a case (state is kept: schemas are registered once)
* `schema <Name> <schema>`                — register the schema regenerated from the protobuf descriptors of /repo;
                                            pinned names are compared with the schemas the theorems are stated for
* `enc <Name> <msg>`                      — `x<bytes of encode> <normal form>`; also checks `decode (encode m) = norm m`
* `hvalid <height:x<root>|-> <height:x<root>|->` — header with proposed / empty part: `valid=… hash=p|e|- height=… root=…`
* `certc parent round step voted votes`   — `FullBlockCert.Compress` + `BlockCert.ToBytes` of votes `off:upgrade:x<sig>;…`:
                                            bytes of the compressed certificate (and `expand (compress votes) = votes`)
* `canon <Name> x<bytes>`                 — canonical re-encoding of a NON-canonical input (explicit defaults, over-long
                                            varints): `x<encode (decode bytes)>`
* `sigeq <Name> <msg> <msg>`              — `same` / `diff`: do the two signed messages have the same encoding
* `txsig n e t to amount maxFee tips payload`, `txfull … signature useRlp`, `votesig r s parent voted off upgrade`,
  `phdr <16 header fields>`, `ehdr <7 header fields>` — the Lean message builders of `Model/CodecObjects.lean`
* `rec <Name> <spec> <values>`            — generic flat-record codec (`Model/RecordCodec.lean`): bytes of
                                            `encode (recToMsg spec values)`; spec `1:u,2:i,3:t,4:b,5:f32,6:o20,7:g`,
                                            values `n5,z-3,t1,b0a,b…,o-|o…,g-|g12`
* `big`, `unbig`, `i64`, `uni64`, `fix`   — value conversions
* `field <Type> <Field> enc=.. dec=.. sig=.. signed=0|1 allow=.. unsigned=..` — one row of the regenerated table: `ok`/`FAIL`
* `table-end <n>`                         — `TableOK <n>` iff all `n` rows seen so far satisfy the obligation

Token grammar: schema `{1:i,2:b,3:rb,4:m{…},5:rm{…},6:p}`; message `{1:i5,2:bx0a,4:m{…},6:p[1;2]}` (`b` + hex digits).
Glue not in the model: token parsing/printing, the name ↦ schema map, Msg equality through printing. -/
namespace IdenaModel.Drv.C18
open IdenaModel.ProtoWire IdenaModel.Codec IdenaModel.Drv

abbrev P := List Char

def parseNatAux : P → Nat → Nat → Option (Nat × P)
  | c :: cs, acc, k => if c.isDigit then parseNatAux cs (acc * 10 + (c.toNat - 48)) (k + 1)
                       else if k = 0 then none else some (acc, c :: cs)
  | [], acc, k => if k = 0 then none else some (acc, [])

def parseNat (cs : P) : Option (Nat × P) := parseNatAux cs 0 0

/-- lower-case hex digits only (`b` values are written by the harness in lower case) -/
def lhex (c : Char) : Option Nat :=
  if '0' ≤ c ∧ c ≤ '9' then some (c.toNat - 48)
  else if 'a' ≤ c ∧ c ≤ 'f' then some (c.toNat - 87)
  else none

def parseHexAux : P → List Nat → Option (Bytes × P)
  | a :: b :: t, acc =>
    match lhex a with
    | none => some (acc.reverse, a :: b :: t)
    | some x => match lhex b with
      | some y => parseHexAux t ((x * 16 + y) :: acc)
      | none => none
  | [a], acc => match lhex a with | none => some (acc.reverse, [a]) | some _ => none
  | [], acc => some (acc.reverse, [])

partial def parseNatList (cs : P) (acc : List Nat) : Option (List Nat × P) :=
  match cs with
  | ']' :: r => some (acc.reverse, r)
  | _ =>
    match parseNat cs with
    | some (n, ';' :: r) => parseNatList r (n :: acc)
    | some (n, ']' :: r) => some ((n :: acc).reverse, r)
    | _ => none

mutual
partial def parseVal (cs : P) : Option (Val × P) :=
  match cs with
  | 'i' :: r => (parseNat r).map fun (n, r') => (Val.int n, r')
  | 'b' :: r => (parseHexAux r []).map fun (b, r') => (Val.bytes b, r')
  | 'm' :: r => (parseMsg r).map fun (m, r') => (Val.msg m, r')
  | 'p' :: '[' :: r => (parseNatList r []).map fun (ns, r') => (Val.packed ns, r')
  | _ => none
partial def parseMsg (cs : P) : Option (Msg × P) :=
  match cs with
  | '{' :: '}' :: r => some ([], r)
  | '{' :: r => parseFields r []
  | _ => none
partial def parseFields (cs : P) (acc : Msg) : Option (Msg × P) :=
  match parseNat cs with
  | some (f, ':' :: r) =>
    match parseVal r with
    | some (v, ',' :: r') => parseFields r' ((f, v) :: acc)
    | some (v, '}' :: r') => some (((f, v) :: acc).reverse, r')
    | _ => none
  | _ => none
end

mutual
partial def parseKind (cs : P) : Option ((Bool × Kind) × P) :=
  match cs with
  | 'r' :: 'b' :: r => some ((true, Kind.bytes), r)
  | 'r' :: 'm' :: r => (parseSchema r).map fun (s, r') => ((true, Kind.msg s), r')
  | 'i' :: r => some ((false, Kind.int), r)
  | 'b' :: r => some ((false, Kind.bytes), r)
  | 'p' :: r => some ((true, Kind.packed), r)
  | 'm' :: r => (parseSchema r).map fun (s, r') => ((false, Kind.msg s), r')
  | _ => none
partial def parseSchema (cs : P) : Option (Schema × P) :=
  match cs with
  | '{' :: '}' :: r => some ([], r)
  | '{' :: r => parseSFields r []
  | _ => none
partial def parseSFields (cs : P) (acc : Schema) : Option (Schema × P) :=
  match parseNat cs with
  | some (f, ':' :: r) =>
    match parseKind r with
    | some ((rep, k), ',' :: r') => parseSFields r' ((f, rep, k) :: acc)
    | some ((rep, k), '}' :: r') => some (((f, rep, k) :: acc).reverse, r')
    | _ => none
  | _ => none
end

def parseMsgTok (s : String) : Option Msg :=
  match parseMsg s.toList with
  | some (m, []) => some m
  | _ => none

def parseSchemaTok (s : String) : Option Schema :=
  match parseSchema s.toList with
  | some (m, []) => some m
  | _ => none

def hexOf (bs : Bytes) : String :=
  String.ofList (bs.flatMap fun b => [nibble (b / 16), nibble (b % 16)])

mutual
partial def showVal : Val → String
  | .int n => "i" ++ toString n
  | .bytes b => "b" ++ hexOf b
  | .msg m => "m" ++ showMsg m
  | .packed ns => "p[" ++ ";".intercalate (ns.map toString) ++ "]"
partial def showMsg (m : Msg) : String :=
  "{" ++ ",".intercalate (m.map fun (f, v) => toString f ++ ":" ++ showVal v) ++ "}"
end

mutual
partial def showKind : Bool × Kind → String
  | (_, .int) => "i"
  | (rep, .bytes) => if rep then "rb" else "b"
  | (rep, .msg s) => (if rep then "rm" else "m") ++ showSchema s
  | (_, .packed) => "p"
partial def showSchema (s : Schema) : String :=
  "{" ++ ",".intercalate (s.map fun (f, rk) => toString f ++ ":" ++ showKind rk) ++ "}"
end

/-- the schemas the theorems are stated for (`Model/CodecObjects.lean`) -/
def pinned : List (String × Schema) := pinnedSchemas

structure St where
  schemas : List (String × Schema) := []
  rows : List Row := []

def parseOptBytes (s : String) : Option (Option Bytes) :=
  if s = "-" then some none else (parseHex s).map some

def parseInt (s : String) : Option Int :=
  match s.toList with
  | '-' :: r => match parseNat r with | some (n, []) => some (-(n : Int)) | _ => none
  | r => match parseNat r with | some (n, []) => some (n : Int) | _ => none

def parseOptInt (s : String) : Option (Option Int) :=
  if s = "nil" then some none else (parseInt s).map some

def parseNatTok (s : String) : Option Nat :=
  match parseNat s.toList with | some (n, []) => some n | _ => none

/-- `key=a,b` / `key=-` -/
def parseList (key s : String) : Option (List String) :=
  let pre := key ++ "="
  if s.startsWith pre then
    let v := (s.drop pre.length).toString
    if v = "-" then some [] else some (v.splitOn ",")
  else none

def parseOptStr (key s : String) : Option (Option String) :=
  let pre := key ++ "="
  if s.startsWith pre then
    let v := (s.drop pre.length).toString
    if v = "-" then some none else some (some v)
  else none

def parseConv (s : String) : Option Conv :=
  match s.toList with
  | ['u'] => some .uint
  | ['i'] => some .int64
  | ['t'] => some .bool
  | ['b'] => some .bytes
  | ['g'] => some .big
  | 'f' :: r => match parseNat r with | some (n, []) => some (.fixed n) | _ => none
  | 'o' :: r => match parseNat r with | some (n, []) => some (.optFixed n) | _ => none
  | _ => none

/-- `1:u,2:i,4:f32` -/
def parseSpec (s : String) : Option Spec :=
  (s.splitOn ",").foldr (fun item acc =>
    match acc, item.splitOn ":" with
    | some l, [f, c] => match parseNatTok f, parseConv c with
      | some f, some c => some ((f, c) :: l)
      | _, _ => none
    | _, _ => none) (some [])

def parseGoVal (s : String) : Option GoVal :=
  match s.toList with
  | 'n' :: r => match parseNat r with | some (n, []) => some (.nat n) | _ => none
  | 'z' :: r => (parseInt (String.ofList r)).map .int
  | ['t', '0'] => some (.bool false)
  | ['t', '1'] => some (.bool true)
  | 'b' :: r => match parseHexAux r [] with | some (b, []) => some (.bytes b) | _ => none
  | ['o', '-'] => some (.optBytes none)
  | 'o' :: r => match parseHexAux r [] with | some (b, []) => some (.optBytes (some b)) | _ => none
  | ['g', '-'] => some (.optInt none)
  | 'g' :: r => (parseInt (String.ofList r)).map fun z => .optInt (some z)
  | _ => none

def parseGoVals (s : String) : Option (List GoVal) :=
  (s.splitOn ",").foldr (fun item acc =>
    match acc, parseGoVal item with
    | some l, some v => some (v :: l)
    | _, _ => none) (some [])

/-- every field of the record's schema is a field of the registered message schema, same kind, singular -/
def subSchema (small big : Schema) : Bool :=
  small.all fun (f, rep, k) =>
    match big.lookup f with
    | some rk => showKind rk == showKind (rep, k)
    | none => false

/-- `rec`: the generic record codec; answer = bytes (`x…`), `RT-FAIL` appended if the proven round trip does not hold
on this value (can only happen outside the WF domain) -/
def recAnswer (registered : Schema) (spec : Spec) (vals : List GoVal) : String :=
  if !specOK spec then "bad-spec" else
  let s := recSchema spec
  if !subSchema s registered then "SCHEMA-MISMATCH " ++ showSchema s else
  match recToMsg spec vals with
  | none => "bad-rec"
  | some m =>
    let bs := encode s m
    let rt := match decode 1 s bs with
      | some m' => decide ((recFromMsg spec m').map GoVal.sem = vals.map GoVal.sem) && encode registered m == bs
      | none => false
    "x" ++ hexOf bs ++ (if rt then "" else " RT-FAIL")

def encAnswer (s : Schema) (m : Msg) : String :=
  if !wfMsg s m then "not-wf" else
  let bs := encode s m
  let nm := normMsg s m
  let rt := match decode (depthMsg m + 1) s bs with
    | some m' => showMsg m' == showMsg nm && encode s m' == bs
    | none => false
  "x" ++ hexOf bs ++ " " ++ showMsg nm ++ (if rt then "" else " RT-FAIL")

def step (st : St) (line : String) : St × String :=
  match splitSp line with
  | ["new"] => (st, "ok")
  | ["schema", name, tok] =>
    match parseSchemaTok tok with
    | none => (st, "bad-op")
    | some s =>
      let st' := { st with schemas := (name, s) :: st.schemas.filter (·.1 ≠ name) }
      match pinned.lookup name with
      | some p => (st', if showSchema p == showSchema s then "ok pinned" else "MISMATCH " ++ showSchema p)
      | none => (st', "ok")
  | ["enc", name, tok] =>
    match st.schemas.lookup name, parseMsgTok tok with
    | some s, some m => (st, encAnswer s m)
    | _, _ => (st, "bad-op")
  | ["rec", name, specTok, valsTok] =>
    match st.schemas.lookup name, parseSpec specTok, parseGoVals valsTok with
    | some s, some spec, some vals => (st, recAnswer s spec vals)
    | _, _, _ => (st, "bad-op")
  | ["hvalid", p, e] =>
    -- header with a proposed part `height:x<root>` / `-` and an empty part `height:x<root>` / `-`:
    -- validity, the part the hash is taken over, what Height() and Root() return
    let part (t : String) : Option (Option (Nat × Bytes)) :=
      if t = "-" then some none else
      match t.splitOn ":" with
      | [h, r] => match parseNatTok h, parseHex r with
        | some h, some r => some (some (h, r))
        | _, _ => none
      | _ => none
    match part p, part e with
    | some pp, some ee =>
      let hm : HeaderM :=
        ⟨pp.map fun (h, r) => ⟨[], h, 0, [], [], r, [], 0, [], none, [], [], none, 0, [], []⟩,
         ee.map fun (h, r) => ⟨[], h, r, [], 0, [], 0⟩⟩
      let hp := match hm.hashPart with | .proposed => "p" | .empty => "e" | .none => "-"
      let hh := match hm.height with | some n => toString n | none => "-"
      let rt := match hm.root with | some b => bytesToHex b | none => "-"
      (st, "valid=" ++ (if hm.valid then "1" else "0") ++ " hash=" ++ hp ++ " height=" ++ hh ++ " root=" ++ rt)
    | _, _ => (st, "bad-op")
  | ["certc", parent, r, stp, vh, votesTok] =>
    -- votes over one (round, step, parent, voted hash): `off:upgrade:x<sig>` joined by `;` (`-` = no vote)
    match parseHex parent, parseNatTok r, parseNatTok stp, parseHex vh with
    | some parent, some r, some stp, some vh =>
      let items := if votesTok = "-" then [] else votesTok.splitOn ";"
      let votes := items.foldr (fun item acc =>
        match acc, item.splitOn ":" with
        | some l, [o, u, sg] =>
          match parseNatTok o, parseNatTok u, parseHex sg with
          | some o, some u, some sg => some ((⟨⟨r, stp, parent, vh, o != 0, u⟩, sg⟩ : VoteM) :: l)
          | _, _, _ => none
        | _, _ => none) (some [])
      match votes with
      | none => (st, "bad-op")
      | some votes =>
        let c := compress votes
        let ok := votes.isEmpty || decide (expand parent c = votes)
        (st, "x" ++ hexOf (encode certSchema (certMsg c)) ++ (if ok then "" else " EXPAND-FAIL"))
    | _, _, _, _ => (st, "bad-op")
  | ["canon", name, hexTok] =>
    match st.schemas.lookup name, parseHex hexTok with
    | some s, some bs =>
      match decode 16 s bs with
      | some m => (st, if wfMsg s m then "x" ++ hexOf (encode s m) else "unsupported")
      | none => (st, "undecodable")
    | _, _ => (st, "bad-op")
  | ["sigeq", name, t1, t2] =>
    match st.schemas.lookup name, parseMsgTok t1, parseMsgTok t2 with
    | some s, some m1, some m2 =>
      if !wfMsg s m1 || !wfMsg s m2 then (st, "not-wf")
      else (st, if encode s m1 == encode s m2 then "same" else "diff")
    | _, _, _ => (st, "bad-op")
  | ["txsig", n, e, t, to, am, mf, tp, pl] =>
    match parseNatTok n, parseNatTok e, parseNatTok t, parseOptBytes to, parseOptInt am, parseOptInt mf,
          parseOptInt tp, parseOptBytes pl with
    | some n, some e, some t, some to, some am, some mf, some tp, some pl =>
      (st, "x" ++ hexOf (encode txDataSchema (txDataMsg ⟨n, e, t, to, am, mf, tp, pl.getD []⟩)))
    | _, _, _, _, _, _, _, _ => (st, "bad-op")
  | ["txfull", n, e, t, to, am, mf, tp, pl, sg, rlp] =>
    match parseNatTok n, parseNatTok e, parseNatTok t, parseOptBytes to, parseOptInt am, parseOptInt mf,
          parseOptInt tp, parseOptBytes pl, parseOptBytes sg, parseNatTok rlp with
    | some n, some e, some t, some to, some am, some mf, some tp, some pl, some sg, some rlp =>
      (st, "x" ++ hexOf (encode txSchema (txMsg ⟨⟨n, e, t, to, am, mf, tp, pl.getD []⟩, sg.getD [], rlp != 0⟩)))
    | _, _, _, _, _, _, _, _, _, _ => (st, "bad-op")
  | ["votesig", r, s, ph, vh, off, up] =>
    match parseNatTok r, parseNatTok s, parseHex ph, parseHex vh, parseNatTok off, parseNatTok up with
    | some r, some s, some ph, some vh, some off, some up =>
      (st, "x" ++ hexOf (encode voteDataSchema (voteDataMsg ⟨r, s, ph, vh, off != 0, up⟩)))
    | _, _, _, _, _, _ => (st, "bad-op")
  | ["phdr", a1, a2, a3, a4, a5, a6, a7, a8, a9, a10, a11, a12, a13, a14, a15, a16] =>
    match parseOptBytes a1, parseNatTok a2, parseInt a3, parseOptBytes a4, parseOptBytes a5, parseOptBytes a6,
          parseOptBytes a7, parseNatTok a8 with
    | some ph, some hgt, some tm, some txh, some pk, some root, some idr, some fl =>
      match parseOptBytes a9, parseOptBytes a10, parseOptBytes a11, parseOptBytes a12, parseOptInt a13,
            parseNatTok a14, parseOptBytes a15, parseOptBytes a16 with
      | some ipfs, some off, some bloom, some seed, some fee, some up, some sp, some rc =>
        (st, "x" ++ hexOf (encode proposedSchema (proposedMsg
          ⟨ph.getD [], hgt, tm, txh.getD [], pk.getD [], root.getD [], idr.getD [], fl, ipfs.getD [], off,
           bloom.getD [], seed.getD [], fee, up, sp.getD [], rc.getD []⟩)))
      | _, _, _, _, _, _, _, _ => (st, "bad-op")
    | _, _, _, _, _, _, _, _ => (st, "bad-op")
  | ["ehdr", a1, a2, a3, a4, a5, a6, a7] =>
    match parseOptBytes a1, parseNatTok a2, parseOptBytes a3, parseOptBytes a4, parseInt a5, parseOptBytes a6,
          parseNatTok a7 with
    | some ph, some hgt, some root, some idr, some tm, some seed, some fl =>
      (st, "x" ++ hexOf (encode emptySchema (emptyMsg ⟨ph.getD [], hgt, root.getD [], idr.getD [], tm, seed.getD [], fl⟩)))
    | _, _, _, _, _, _, _ => (st, "bad-op")
  | ["big", v] =>
    match parseOptInt v with
    | some x => (st, "x" ++ hexOf (bigEnc x))
    | none => (st, "bad-op")
  | ["unbig", v] =>
    match parseOptBytes v with
    | some b => (st, match bigDec (b.getD []) with | some z => toString z | none => "nil")
    | none => (st, "bad-op")
  | ["i64", v] =>
    match parseInt v with
    | some z => (st, toString (i64Enc z))
    | none => (st, "bad-op")
  | ["uni64", v] =>
    match parseNatTok v with
    | some n => (st, toString (i64Dec n))
    | none => (st, "bad-op")
  | ["fix", n, v] =>
    match parseNatTok n, parseHex v with
    | some n, some b => (st, "x" ++ hexOf (fixN n b))
    | _, _ => (st, "bad-op")
  | ["field", ty, fld, e, d, sg, sd, al, un] =>
    match parseList "enc" e, parseList "dec" d, parseList "sig" sg, parseOptStr "signed" sd, parseOptStr "allow" al,
          parseOptStr "unsigned" un with
    | some e, some d, some sg, some (some sd), some al, some un =>
      if sd ≠ "0" ∧ sd ≠ "1" then (st, "bad-op") else
      let r : Row := ⟨ty, fld, e, d, sg, sd == "1", al, un⟩
      ({ st with rows := r :: st.rows }, if r.ok then "ok" else "FAIL")
    | _, _, _, _, _, _ => (st, "bad-op")
  | ["table-end", n] =>
    match parseNatTok n with
    | some n => (st, if TableOK st.rows && st.rows.length == n then "TableOK " ++ toString n else "TableFAIL")
    | none => (st, "bad-op")
  | _ => (st, "bad-op")

end IdenaModel.Drv.C18

def main : IO Unit := IdenaModel.Drv.runDriver ({} : IdenaModel.Drv.C18.St) IdenaModel.Drv.C18.step
