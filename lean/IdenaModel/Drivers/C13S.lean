import IdenaModel.Model.Versioned
import IdenaModel.Drivers.Util
/-! Driver for channel C13state: canonical versioned store + one speculative view.
ops: `new <keep>` | `cset k v` (canonical write; `v = -` deletes) | `commit` | `cget k` | `ver` |
`has h` | `rget h k` (read-only view of version h) | `view h` (open a speculative view) |
`vset k v` | `vget k` (on the open view) | `reset` (abandon the canonical working changes) |
`citer` / `viter` (range iteration of the canonical working tree / of the open view, issued when nothing is pending) -/
namespace IdenaModel.Drv.C13S
open IdenaModel.Store IdenaModel.Drv

structure St where
  s : VStore
  view : Option Overlay

def init : St := { s := VStore.init 100, view := none }

def showKV (m : KV) : String := "items " ++ ",".intercalate (m.map fun (k, v) => s!"{k}={v}")

def showV (v : Option Val) : String := match v with | none => "val -" | some x => "val " ++ x

def step (st : St) (line : String) : St × String :=
  match splitSp line with
  | ["new", k] => match k.toNat? with
    | some k => ({ s := VStore.init k, view := none }, "ok")
    | none => (st, "bad-op")
  | ["cset", k, v] => match k.toNat? with
    | some k => ({ st with s := st.s.write (if v = "-" then .del k else .set k v) }, "ok")
    | none => (st, "bad-op")
  | ["commit"] => let s' := st.s.commit; ({ st with s := s' }, s!"ver {s'.version}")
  | ["ver"] => (st, s!"ver {st.s.version}")
  | ["cget", k] => match k.toNat? with
    | some k => (st, showV (kvGet st.s.working k))
    | none => (st, "bad-op")
  | ["has", h] => match h.toNat? with
    | some h => (st, if (st.s.at h).isSome then "bool t" else "bool f")
    | none => (st, "bad-op")
  | ["rget", h, k] => match h.toNat?, k.toNat? with
    | some h, some k => (st, match st.s.at h with | none => "nover" | some m => showV (kvGet m k))
    | _, _ => (st, "bad-op")
  | ["view", h] => match h.toNat? with
    | some h => match st.s.forCheck h with
      | some o => ({ st with view := some o }, "ok")
      | none => ({ st with view := none }, "nover")
    | none => (st, "bad-op")
  | ["vset", k, v] => match k.toNat?, st.view with
    | some k, some o => ({ st with view := some (o.step (if v = "-" then .del k else .set k v)).1 }, "ok")
    | _, _ => (st, "bad-op")
  | ["reset"] => ({ st with s := st.s.reset }, "ok")
  | ["rollto", h] => match h.toNat? with
    | some h => (match st.s.resetTo h with
      | some s' => ({ st with s := s' }, "ok")
      | none => (st, "nover"))
    | none => (st, "bad-op")
  -- range iteration lines cover the balance keys (< 100); the other kinds of keys are compared by point reads
  | ["citer"] => (st, showKV (st.s.iter.filter (·.1 < 100)))
  | ["viter"] => match st.view with
    | some o => (st, showKV ((o.iter false none none).filter (·.1 < 100)))
    | none => (st, "bad-op")
  | ["vget", k] => match k.toNat?, st.view with
    | some k, some o => (st, showV (o.get k))
    | _, _ => (st, "bad-op")
  | _ => (st, "bad-op")

end IdenaModel.Drv.C13S

def main : IO Unit := IdenaModel.Drv.runDriver IdenaModel.Drv.C13S.init IdenaModel.Drv.C13S.step
