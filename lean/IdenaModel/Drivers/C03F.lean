import IdenaModel.Model.Flags
import IdenaModel.Model.FeeRate
import IdenaModel.Model.VrfWindow
import IdenaModel.Drivers.Util
/-! Driver for channel C03flags: derived header flags and the validation-period machine on real chain histories.
`new <flipLotteryNs> <shortNs> <snapshotRange> <statusSwitchRange> <delegationSwitchRange> <discriminationSwitchRange> <genesisAfterUpgrade>`
`sync <period> <nextValidation> <cnt> <shardsNum> <lastSnapshot> <empty>` — the modelled part of the real state (at the start,
after every epoch change — next validation time and shard number are set by `applyNewEpoch` — and after chain resets);
`blk <height> <time> <isEmpty> <hasKill> <longNs> <statusSwitch> <delayedPenalties> <delegations> <discrimination> <prevUpgrade>
<cerShards> <proposer> <proposerShard> <proposerValidated> <onlineSize>` — answers the flags of the block and the state after it;
`vsync <bits>` — the empty-block window as stored; `bits <isEmpty>` — the window and the empty-block count after the block;
`vrfdir` — the direction in which `applyVrfProposerThreshold` moves the threshold for the current count. -/
namespace IdenaModel.Drv.C03F
open IdenaModel.Flags IdenaModel.Drv

structure DSt where
  c : Cfg
  s : St
  w : Nat := 0

def init : DSt := { c := ⟨0, 0, 1, 1, 1, 1, false⟩, s := ⟨0, 0, 0, [], 1, 0⟩ }

def parseNats (s : String) (sep : String) : Option (List Nat) :=
  if s = "-" then some [] else (s.splitOn sep).mapM (·.toNat?)

def parseEmpty (s : String) : Option (List (Nat × List Nat)) :=
  if s = "-" then some [] else
  (s.splitOn ",").mapM fun item =>
    match item.splitOn ":" with
    | [sh, ps] => match sh.toNat?, parseNats ps "." with
      | some sh, some ps => some (sh, ps)
      | _, _ => none
    | _ => none

def insertSorted (l : List (Nat × List Nat)) (p : Nat × List Nat) : List (Nat × List Nat) :=
  let (lo, hi) := l.span (fun x => x.1 < p.1)
  lo ++ p :: hi

def showEmpty (e : List (Nat × List Nat)) : String :=
  let es := (e.foldl insertSorted []).map fun (sh, ps) =>
    s!"{sh}:" ++ (if ps.isEmpty then "-" else ".".intercalate (ps.map toString))
  if es.isEmpty then "-" else ",".intercalate es

def b (s : String) : Bool := s == "1"

def step (st : DSt) (line : String) : DSt × String :=
  match splitSp line with
  | ["new", fl, sh, sr, ssr, dsr, dcr, g] =>
    match fl.toInt?, sh.toInt?, sr.toNat?, ssr.toNat?, dsr.toNat?, dcr.toNat? with
    | some fl, some sh, some sr, some ssr, some dsr, some dcr =>
      ({ st with c := ⟨fl, sh, sr, ssr, dsr, dcr, b g⟩ }, "ok")
    | _, _, _, _, _, _ => (st, "bad-op")
  | ["sync", p, nv, cnt, sn, ls, e] =>
    match p.toNat?, nv.toInt?, cnt.toNat?, sn.toNat?, ls.toNat?, parseEmpty e with
    | some p, some nv, some cnt, some sn, some ls, some e => ({ st with s := ⟨p, nv, cnt, e, sn, ls⟩ }, "ok")
    | _, _, _, _, _, _ => (st, "bad-op")
  | ["blk", h, t, ie, hk, ln, ss, dp, dg, dc, pu, cs, pr, prs, pv, os] =>
    match h.toNat?, t.toInt?, ln.toInt?, parseNats cs ".", pr.toNat?, prs.toNat?, os.toNat? with
    | some h, some t, some ln, some cs, some pr, some prs, some os =>
      let i : In := ⟨h, t, b ie, b hk, ln, b ss, b dp, b dg, b dc, b pu, cs, pr, prs, b pv, os⟩
      let f := flagsNat st.c st.s i
      let s' := applyBlock st.c st.s i
      ({ st with s := s' }, s!"flags={f} period={s'.period} cnt={s'.cnt} snap={s'.lastSnapshot} empty={showEmpty s'.empty}")
    | _, _, _, _, _, _, _ => (st, "bad-op")
  -- `fee <prevFeePerGas> <usedGas> <maxBlockGas> <kNum> <kScale> <networkSize>`: the fee rate the block leaves in the state
  | ["fee", p, u, m, kn, ks, n] =>
    match p.toNat?, u.toNat?, m.toNat?, kn.toNat?, ks.toNat?, n.toNat? with
    | some p, some u, some m, some kn, some ks, some n => (st, s!"fee {IdenaModel.FeeRate.nextFee p u m kn ks n}")
    | _, _, _, _, _, _ => (st, "bad-op")
  | ["vsync", w] =>
    match w.toNat? with
    | some w => ({ st with w := w }, "ok")
    | none => (st, "bad-op")
  | ["bits", e] =>
    let w := IdenaModel.VrfWindow.addBit st.w (b e)
    ({ st with w := w }, s!"bits={w} cnt={IdenaModel.VrfWindow.emptyCount w}")
  | ["vrfdir"] => (st, s!"dir={IdenaModel.VrfWindow.dir (IdenaModel.VrfWindow.emptyCount st.w)}")
  | ["minfee", n] =>
    match n.toNat? with
    | some n => (st, s!"fee {IdenaModel.FeeRate.minFee n}")
    | none => (st, "bad-op")
  | _ => (st, "bad-op")

end IdenaModel.Drv.C03F

def main : IO Unit := IdenaModel.Drv.runDriver IdenaModel.Drv.C03F.init IdenaModel.Drv.C03F.step
