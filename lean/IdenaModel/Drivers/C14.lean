import IdenaModel.Model.Mempool
import IdenaModel.Drivers.Util
/-! Driver for channel C14: drives the mempool model (`Model/Mempool.lean`) on the harness' op lines.

Glue that is not in the model: transactions are referred to by the label given in a `tx` line; the chain view is
assembled from the last `view` line plus the per-line tables of the external predicates (`rest=` / `badM` / `badI` /
`feeBad`, produced by the harness from the real `validation.ValidateTx` / `ValidateFee`).  Map enumeration inputs:
`tie` (labels `txMap.Sorted` met first; then non-priority before priority labels) and the `build` enumeration
(the order of `ctx.sortedTxs`, re-sorted by the model).  `sord` is the order of first appearance in `pend`
(each sender's promotion reads and writes only that sender's queues; the theorems hold for every visiting order, and the
real runs — Go's random map order — are compared against this one on every line). -/
namespace IdenaModel.Drv.C14
open IdenaModel.Mempool IdenaModel.Drv

structure DSt where
  cfg : Cfg
  epoch : Nat
  period : Nat
  acct : List (Nat × Nat × Nat)   -- sender, account epoch, nonce
  txs : List Tx
  pool : Pool

def initCfg : Cfg := ⟨0, 0, 0, 0, false, 0, 0, 100⟩
def init : DSt := ⟨initCfg, 0, 0, [], [], Pool.empty⟩

def parseNat (s : String) : Option Nat := s.toNat?
def parseInt (s : String) : Option Int := s.toInt?
def parseBool (s : String) : Option Bool := if s = "1" then some true else if s = "0" then some false else none

def parseIds (s : String) : Option (List Nat) :=
  if s = "-" then some [] else (s.splitOn ",").mapM parseNat

def findTx (d : DSt) (id : Nat) : Option Tx := d.txs.find? (·.id == id)
def findTxs (d : DSt) (ids : List Nat) : Option (List Tx) := ids.mapM (findTx d)

def parseAcct (s : String) : Option (List (Nat × Nat × Nat)) :=
  if s = "-" then some [] else
  (s.splitOn ",").mapM fun item =>
    match item.splitOn ":" with
    | [a, b, c] => do
      let a ← parseNat a; let b ← parseNat b; let c ← parseNat c
      pure (a, b, c)
    | _ => none

def mkView (d : DSt) (badM badI feeBad : List Nat) : View :=
  { epoch := d.epoch, period := d.period,
    nonce := fun s => match d.acct.find? (·.1 == s) with | some x => x.2.2 | none => 0,
    accEpoch := fun s => match d.acct.find? (·.1 == s) with | some x => x.2.1 | none => 0,
    restOk := fun inbound t => !((if inbound then badI else badM).contains t.id),
    feeOk := fun t => !(feeBad.contains t.id) }

def penumOf (tie : List Nat) (l : List Tx) : List Tx :=
  (tie.filterMap fun i => l.find? (·.id == i)) ++
  l.filter (fun t => !tie.contains t.id && !isPrio t) ++
  l.filter (fun t => !tie.contains t.id && isPrio t)

def sordOf (p : Pool) : List Nat := (p.pend.map (·.sender)).eraseDups

def showRes : Res → String
  | .ok => "nil" | .deferred => "nil"
  | .dup => "dup" | .multi => "multi" | .maxSize => "maxsize" | .mempoolFull => "full" | .addrFull => "addrfull"
  | .invalidEpoch => "epoch" | .invalidNonce => "nonce" | .invalid => "invalid"

def showIds (l : List Nat) : String := if l.isEmpty then "-" else ",".intercalate (l.map toString)

def sortNat (l : List Nat) : List Nat := l.foldr (fun x acc => (acc.takeWhile (· < x)) ++ x :: acc.dropWhile (· < x)) []

def showGroups (l : List Tx) (sorted : Bool) : String :=
  let senders := sortNat ((l.map (·.sender)).eraseDups)
  if senders.isEmpty then "-" else
  ";".intercalate (senders.map fun s =>
    let ids := (ofSender l s).map (·.id)
    toString s ++ ":" ++ showIds (if sorted then sortNat ids else ids))

def dump (p : Pool) : String :=
  "E " ++ showGroups p.exec false ++ " P " ++ showGroups p.pend true ++ " A " ++ showIds (sortNat (p.all.map (·.id))) ++
  " D " ++ (if p.deferred.isEmpty then "-" else ",".intercalate (p.deferred.map fun e => toString e.1.id ++ (if e.2 then "h" else "n"))) ++
  " K " ++ showIds (sortNat (p.known.map (·.id))) ++ " S " ++ (if p.syncing then "1" else "0")

def step (d : DSt) (line : String) : DSt × String :=
  match splitSp line with
  | ["new", es, qs, ael, aql, ric, cap, cb] =>
    match parseInt es, parseInt qs, parseInt ael, parseInt aql, parseBool ric, parseNat cap, parseNat cb with
    | some es, some qs, some ael, some aql, some ric, some cap, some cb =>
      ({ init with cfg := ⟨es, qs, ael, aql, ric, cap, cb, 100⟩ }, "ok")
    | _, _, _, _, _, _, _ => (d, "bad-op")
  | ["view", e, per, tbl] =>
    match parseNat e, parseNat per, parseAcct tbl with
    | some e, some per, some tbl => ({ d with epoch := e, period := per, acct := tbl }, "ok")
    | _, _, _ => (d, "bad-op")
  | ["tx", id, s, n, e, g, ty] =>
    match parseNat id, parseNat s, parseNat n, parseNat e, parseNat g, parseNat ty with
    | some id, some s, some n, some e, some g, some ty =>
      if (findTx d id).isSome then (d, "bad-op") else ({ d with txs := ⟨id, s, n, e, g, ty⟩ :: d.txs }, "ok")
    | _, _, _, _, _, _ => (d, "bad-op")
  | ["ext", id, inb, rest] =>
    match (parseNat id).bind (findTx d), parseBool inb, parseBool rest with
    | some t, some inb, some rest =>
      let bad := if rest then [] else [t.id]
      let r := addExternal d.cfg (mkView d bad bad []) d.pool t inb
      ({ d with pool := r.1 }, showRes r.2)
    | _, _, _ => (d, "bad-op")
  | ["extq", id, inb, rest] =>   -- one transaction of a batched AddExternalTxs call (individual errors are not returned)
    match (parseNat id).bind (findTx d), parseBool inb, parseBool rest with
    | some t, some inb, some rest =>
      let bad := if rest then [] else [t.id]
      let r := addExternal d.cfg (mkView d bad bad []) d.pool t inb
      ({ d with pool := r.1 }, "ok")
    | _, _, _ => (d, "bad-op")
  | ["int", id, rest] =>
    match (parseNat id).bind (findTx d), parseBool rest with
    | some t, some rest =>
      let bad := if rest then [] else [t.id]
      let r := addInternal d.cfg (mkView d bad bad []) d.pool t
      ({ d with pool := r.1 }, showRes r.2)
    | _, _ => (d, "bad-op")
  | ["reset", blk, badM, tie] =>
    match (parseIds blk).bind (findTxs d), parseIds badM, parseIds tie with
    | some blk, some badM, some tie =>
      ({ d with pool := resetTo d.cfg (mkView d badM badM []) d.pool blk (sordOf d.pool) (penumOf tie) }, "ok")
    | _, _, _ => (d, "bad-op")
  | ["stopsync", blk, badM, badI, tie] =>
    match (parseIds blk).bind (findTxs d), parseIds badM, parseIds badI, parseIds tie with
    | some blk, some badM, some badI, some tie =>
      ({ d with pool := stopSync d.cfg (mkView d badM badI []) d.pool blk (sordOf d.pool) (penumOf tie) }, "ok")
    | _, _, _, _ => (d, "bad-op")
  | ["startsync"] => ({ d with pool := StartSync d.pool }, "ok")
  | ["build", enum, feeBad] =>
    match (parseIds enum).bind (findTxs d), parseIds feeBad with
    | some enum, some feeBad =>
      -- the enumeration must be an enumeration of the executable queues (current epoch: `txpool.go:694`)
      let cur := d.pool.exec.filter (·.epoch == d.epoch)
      if enum.length ≠ cur.length || !(enum.all (cur.contains ·)) || !(cur.all (enum.contains ·)) then
        (d, "bad-enum")
      else match build d.cfg (mkView d [] [] feeBad) enum with
        | none => (d, "panic")
        | some l => (d, "txs " ++ showIds (l.map (·.id)))
    | _, _ => (d, "bad-op")
  | ["dump"] => (d, dump d.pool)
  | _ => (d, "bad-op")

end IdenaModel.Drv.C14

def main : IO Unit := IdenaModel.Drv.runDriver IdenaModel.Drv.C14.init IdenaModel.Drv.C14.step
