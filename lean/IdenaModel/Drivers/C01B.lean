import IdenaModel.Model.ShardBalance
import IdenaModel.Drivers.Util
/-! Driver for channel C01balance: `balanceShards`, `appendToTop`, `calculateDiscriminationStakeThreshold` (model: Model/ShardBalance.lean).
ops (one answer line per op):
* `new <prevShards> <totalVerified> <totalNewbies> <totalSuspended>` — a new case
* `case <json>` — the harness' description of the case (for replays); ignored
* `cnt <kind> <shard=count,…|->` — entries of verifiedByShard (kind 0) / newbiesByShard (1) / suspendedByShard (2) as passed
* `ids <kind:shard:stake> …` — the next identities in `IterateOverIdentities` order (the id of an identity is its position)
* `perm <kind> <j,j,…|->` — the next entries of the permutation `rnd.Perm(len(…ForRelocation))` of that kind
* `run` — `num <newShardsNum> sizes <SetShardSize values 1…num> thr <threshold|nil> rel <lenV>,<lenN>,<lenS>`, or `outside-domain`
* `out <from> <n>` — the shards after of the identities at positions from … from+n-1
* `top <limit> <stake,…|->` — the slice after `appendToTop` of each stake in turn, starting from the empty slice
* `thr <stake,…|->` — `calculateDiscriminationStakeThreshold` of that slice -/
namespace IdenaModel.Drv.C01B
open IdenaModel.ShardBalance IdenaModel.Drv

structure DSt where
  prev : Nat := 1
  totV : Nat := 0
  totN : Nat := 0
  totS : Nat := 0
  cnt : Cnt := []
  ids : Array Ident := #[]
  pv : Array Nat := #[]
  pn : Array Nat := #[]
  ps : Array Nat := #[]
  ran : Bool := false
  fin : Array Nat := #[]

def init : DSt := {}

def parseNats (s : String) : Option (List Nat) :=
  if s = "-" then some [] else (s.splitOn ",").mapM String.toNat?

def parseInt (s : String) : Option Int :=
  match s.toList with
  | '-' :: t => (String.ofList t).toNat?.map (fun n => - (n : Int))
  | _ => s.toNat?.map (fun n => (n : Int))

def parseCnt (kind : Nat) (s : String) : Option (List (Key × Int)) :=
  if s = "-" then some [] else
    (s.splitOn ",").mapM (fun e => match e.splitOn "=" with
      | [a, b] => match a.toNat?, parseInt b with
        | some a, some b => some ((kind, a), b)
        | _, _ => none
      | _ => none)

def parseIdent (pos : Nat) (s : String) : Option Ident :=
  match s.splitOn ":" with
  | [k, sh, st] => match k.toNat?, sh.toNat?, st.toNat? with
    | some k, some sh, some st => some ⟨pos, k, sh, st⟩
    | _, _, _ => none
  | _ => none

def parseIdents (start : Nat) : List String → Array Ident → Option (Array Ident)
  | [], acc => some acc
  | t :: ts, acc => match parseIdent (start + acc.size) t with
    | some x => parseIdents start ts (acc.push x)
    | none => none

def showNats (l : List Nat) : String := if l.isEmpty then "-" else ",".intercalate (l.map toString)

def step (st : DSt) (line : String) : DSt × String :=
  match splitSp line with
  | ["new", p, v, n, s] =>
    match p.toNat?, v.toNat?, n.toNat?, s.toNat? with
    | some p, some v, some n, some s => ({ prev := p, totV := v, totN := n, totS := s }, "ok")
    | _, _, _, _ => (st, "bad-op")
  | "case" :: _ => (st, "ok")
  | ["cnt", k, m] =>
    match k.toNat? with
    | some k => match parseCnt k m with
      -- entries of one Go map have distinct keys; `set` keeps the association list a map
      | some es => ({ st with cnt := es.foldl (fun c e => set c e.1 e.2) st.cnt }, "ok")
      | none => (st, "bad-op")
    | none => (st, "bad-op")
  | "ids" :: toks =>
    match parseIdents st.ids.size toks #[] with
    | some a => let ids := st.ids ++ a; ({ st with ids := ids }, s!"ok {ids.size}")
    | none => (st, "bad-op")
  | ["perm", k, l] =>
    match k.toNat?, parseNats l with
    | some 0, some l => let a := st.pv ++ l.toArray; ({ st with pv := a }, s!"ok {a.size}")
    | some 1, some l => let a := st.pn ++ l.toArray; ({ st with pn := a }, s!"ok {a.size}")
    | some 2, some l => let a := st.ps ++ l.toArray; ({ st with ps := a }, s!"ok {a.size}")
    | _, _ => (st, "bad-op")
  | ["run"] =>
    let inp : Input := { prev := st.prev, totV := st.totV, totN := st.totN, totS := st.totS, cnt := st.cnt,
                         ids := st.ids.toList, permV := st.pv.toList, permN := st.pn.toList, permS := st.ps.toList }
    match run inp with
    | none => ({ st with ran := true, fin := #[] }, "outside-domain")
    | some o =>
      let thr := match o.threshold with | some t => toString t | none => "nil"
      ({ st with ran := true, fin := (o.final.map (·.shard)).toArray },
        s!"num {o.newNum} sizes {showNats o.sizes} thr {thr} rel {o.relocated.1},{o.relocated.2.1},{o.relocated.2.2}")
  | ["out", f, n] =>
    match f.toNat?, n.toNat? with
    | some f, some n => if st.ran then (st, showNats (st.fin.extract f (f + n)).toList) else (st, "not-run")
    | _, _ => (st, "bad-op")
  | ["top", lim, l] =>
    match lim.toNat?, parseNats l with
    | some lim, some l => (st, showNats (l.foldl (fun t e => appendToTop t e lim) []))
    | _, _ => (st, "bad-op")
  | ["thr", l] =>
    match parseNats l with
    | some l => (st, match threshold l with | some t => toString t | none => "nil")
    | none => (st, "bad-op")
  | _ => (st, "bad-op")

end IdenaModel.Drv.C01B

def main : IO Unit := IdenaModel.Drv.runDriver IdenaModel.Drv.C01B.init IdenaModel.Drv.C01B.step
