/-! Line-protocol helpers shared by the model drivers (core Lean only). -/
namespace IdenaModel.Drv

def hexDigit (c : Char) : Option Nat :=
  if '0' ≤ c ∧ c ≤ '9' then some (c.toNat - '0'.toNat)
  else if 'a' ≤ c ∧ c ≤ 'f' then some (c.toNat - 'a'.toNat + 10)
  else if 'A' ≤ c ∧ c ≤ 'F' then some (c.toNat - 'A'.toNat + 10)
  else none

def hexToBytesAux : List Char → List Nat → Option (List Nat)
  | [], acc => some acc.reverse
  | [_], _ => none
  | a :: b :: t, acc =>
    match hexDigit a, hexDigit b with
    | some x, some y => hexToBytesAux t ((x * 16 + y) :: acc)
    | _, _ => none

/-- `x6162` ↦ `[0x61,0x62]`, `x` ↦ `[]`; anything else `none` -/
def parseHex (s : String) : Option (List Nat) :=
  match s.toList with
  | 'x' :: t => hexToBytesAux t []
  | _ => none

def nibble (n : Nat) : Char := if n < 10 then Char.ofNat (48 + n) else Char.ofNat (87 + n)

def bytesToHex (bs : List Nat) : String :=
  "x" ++ String.ofList (bs.flatMap fun b => [nibble (b / 16), nibble (b % 16)])

def splitSp (s : String) : List String := (s.splitOn " ").filter (· ≠ "")

def trimNl (s : String) : String :=
  String.ofList ((s.toList.reverse.dropWhile (fun c => c = '\n' || c = '\r')).reverse)

/-- read stdin line by line, thread a state, print one answer line per input line -/
partial def loop {σ : Type} (h : IO.FS.Stream) (out : IO.FS.Stream) (st : σ)
    (step : σ → String → σ × String) : IO Unit := do
  let line ← h.getLine
  if line.isEmpty then
    out.flush
    return ()
  let (st', ans) := step st (trimNl line)
  out.putStrLn ans
  loop h out st' step

def runDriver {σ : Type} (init : σ) (step : σ → String → σ × String) : IO Unit := do
  let i ← IO.getStdin
  let o ← IO.getStdout
  loop i o init step

end IdenaModel.Drv
