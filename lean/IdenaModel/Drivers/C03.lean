import IdenaModel.Model.BlockValidate
import IdenaModel.Drivers.Util
/-! Driver for channel C03.
`field <Struct> <GoFieldName>`: classification of a header field re-extracted from types.go (`derived`, `free`,
`unclassified` — a field the model does not know fails the correspondence).
`tamper proposed <field> <op>` / `body <op> <recomputed>` / `tamper empty <field>`: the model applies the edit to a
concrete accepted block and answers `rej` / `acc`. -/
namespace IdenaModel.Drv.C03
open IdenaModel.BlockValidate IdenaModel.Drv

def ctx : Ctx :=
  { prevHash := 7, prevHeight := 4, prevTime := 100, now := 120, minDelay := 10, maxFuture := 120, stateFee := 3,
    eligible := fun k => k == 1, keyValid := fun k => k != 0, vrf := fun k p => if p = k + 10 then some (k + 20) else none,
    upgradeOk := fun u => u == 0, txHashOf := fun b => b + 1, cidOf := fun b => b + 2,
    exec := fun b _ _ _ => if b ≥ 100 then none else some (b + 3, 0, b + 4, b + 5, b + 6) }

def hdr : Hdr := fun f => match f with
  | .parentHash => 7 | .height => 5 | .time => 115 | .txHash => 3 | .proposerPubKey => 1 | .root => 6
  | .identityRoot => 7 | .flags => 0 | .ipfsHash => 4 | .offlineAddr => 0 | .txBloom => 5 | .blockSeed => 21
  | .feePerGas => 3 | .upgrade => 0 | .seedProof => 11 | .txReceiptsCid => 8

def fieldOf : String → Option Field
  | "ParentHash" => some .parentHash | "Height" => some .height | "Time" => some .time | "TxHash" => some .txHash
  | "ProposerPubKey" => some .proposerPubKey | "Root" => some .root | "IdentityRoot" => some .identityRoot
  | "Flags" => some .flags | "IpfsHash" => some .ipfsHash | "OfflineAddr" => some .offlineAddr
  | "TxBloom" => some .txBloom | "BlockSeed" => some .blockSeed | "FeePerGas" => some .feePerGas
  | "Upgrade" => some .upgrade | "SeedProof" => some .seedProof | "TxReceiptsCid" => some .txReceiptsCid
  | _ => none

/-- fields of `EmptyBlockHeader`: an empty block is accepted iff its hash equals the hash of the block the validator
generates itself, so every field is derived -/
def emptyFields : List String := ["ParentHash", "Height", "Root", "IdentityRoot", "BlockSeed", "Time", "Flags"]

/-- the timestamps the harness tries, as values relative to the model context (prevTime 100, minDelay 10, now 120,
maxFuture 120).  The model's integers are unbounded: every int64 below zero is represented by 0 (all of them lie below the
lower bound `prevTime + minDelay`), and an int64 whose `time.Time` representation wraps by the largest value. -/
def timeOf : String → Option Nat
  | "early" => some 105 | "parent" => some 100 | "parent-plus9" => some 109 | "parent-minus1" => some 99
  | "zero" => some 0 | "negative" => some 0 | "min-int64" => some 0 | "min-int64-wrap9" => some 0
  | "min-int64-wrap10" => some 0 | "min-int64-wrap" => some 0
  | "future" => some 500 | "future-edge" => some 241 | "max-int64" => some 9223372036854775807
  | "max-internal-wrap" => some 9223372036854775807
  | _ => none

def verdict (v : Verdict) : String := match v with | .ok => "acc" | .err _ => "rej"

def step (_ : Unit) (line : String) : Unit × String :=
  match splitSp line with
  | ["new"] => ((), "ok")
  | ["field", "ProposedHeader", name] =>
    match fieldOf name with
    | some f => ((), if f ∈ derived then "derived" else if f ∈ free then "free" else "unclassified")
    | none => ((), "unclassified")
  | ["field", "EmptyBlockHeader", name] => ((), if name ∈ emptyFields then "derived" else "unclassified")
  -- a header with both variants is not the encoding of any valid block: the validator judges it by the part it hashes
  -- and must refuse when that part is inconsistent with the other; the model's blocks have exactly one variant
  | ["tamper", "proposed", "EmptyBlockHeader", _] => ((), "rej")
  | ["tamper", "empty", "ProposedHeader", _] => ((), "rej")
  -- a pair edit: the nil seed together with a proof that does not verify (theorem `unverifiable_proof_rejected`)
  | ["tamper2", "proposed", "BlockSeed+SeedProof", _] =>
    ((), verdict (validateBlock ctx (setField (setField hdr .blockSeed 0) .seedProof 77) 2))
  | ["tamper", "proposed", name, op] =>
    match fieldOf name with
    | none => ((), "bad-op")
    | some f =>
      let h' : Hdr :=
        if f = .time then (match timeOf op with | some t => setField hdr f t | none => hdr)
        else if f = .proposerPubKey then (if op = "ineligible" then setField (setField (setField hdr f 2) .seedProof 12) .blockSeed 22 else setField hdr f 3)
        else setField hdr f (hdr f + 1)
      ((), verdict (validateBlock ctx h' 2))
  | ["body", _, rec] =>
    -- an edited body is another body value; `rec = 1`: txHash and ipfsHash were recomputed for it
    let b' := 50
    let h' : Hdr := if rec = "1" then setField (setField hdr .txHash (ctx.txHashOf b')) .ipfsHash (ctx.cidOf b') else hdr
    ((), verdict (validateBlock ctx h' b'))
  | ["tamper", "empty", name] => ((), if name ∈ emptyFields then "rej" else "bad-op")
  -- a block that is consistent in every derived field but proposed by a key that may not propose (with or without a
  -- transaction in its body that would make the key eligible afterwards): eligibility is judged on the parent state
  | ["outsider", _] =>
    ((), verdict (validateBlock ctx (setField (setField (setField hdr .proposerPubKey 2) .seedProof 12) .blockSeed 22) 2))
  | ["orig"] => ((), verdict (validateBlock ctx hdr 2))
  | _ => ((), "bad-op")

end IdenaModel.Drv.C03

def main : IO Unit := IdenaModel.Drv.runDriver () IdenaModel.Drv.C03.step
