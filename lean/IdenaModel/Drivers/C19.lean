import IdenaModel.Model.RpcGate
import IdenaModel.Drivers.Util
/-! Driver for channel C19: drives `RpcGate.serve` on abstract messages and checks the (G) facts that the
harness extracts from /repo's `rpc` sources at run time.

Lines:
  `new <http|ws|pipe|ipc> <apikey x-hex> <registry>`          → `ok`
       registry = services joined by `;`, service = `<name hex>:<callbacks>:<subscriptions>`,
       callbacks/subscriptions = `,`-joined `<name hex>/<nargs>/<flags>` (flags: `e` returns error, `s` not logged, `-`)
  `garbage` | `single <elem>` | `batch <elem>*`               → `<reply> inv=<log> act=<active subs> conn=<open|closed|->`
       elem = `shape|keys|id|method|tyErr|params`  (see `parseElem`)
  `setkey <flag x-hex> <api.key content x-hex | ->`          → `key=<x-hex|random> file=<=key|x-hex|->`
  `nodekey <cli|mobile|struct> <configured key x-hex> <api.key x-hex | ->`
       → `key=… file=… initial=<outcome of a key-less bcn_syncing on the initial endpoint> keyless=… wrong=… right=…`
  `nodestart <cli|mobile|struct> <configured key x-hex> <dir|symlink|parentfile>`  (api.key location unusable)
       → `start=refused` | `start=ran key=… initial=… keyless=…`
  `gfact nodector <func> <yes|no>` / `gfact rpcstart <callee> <encl> <recv|norecv>` / `gfact initial-order <…>` → `ok`
  `gfact stmt <kind>` / `gfact site <callee> <encl>` / `gfact handle-first <kind>` / `gfact loop <what>`  → `ok`
  `gfact newserver <encl> <kind> <callers>` / `gfact keypass <caller> <callee> <class>`                   → `ok`
  `gfact-check`                                               → `gate-first=<ok|VIOLATED> callgraph=<…> handle-first=<…> loop=<…> keyflow=<…>`

Glue that is not in the model: a message-level error on a persistent connection closes it
(`connCloses`); the harness reconnects, so the driver clears the active-subscription list. -/
namespace IdenaModel.Drv.C19
open IdenaModel.RpcGate IdenaModel.Drv

structure DSt where
  cfg : Cfg := { apiKey := [], services := [], notifier := false }
  http : Bool := true
  st : St := {}
  stmts : List Stmt := []            -- reversed
  sites : List CallSite := []
  handleFirst : List String := []
  loops : List String := []
  newServers : List (String × String × Nat) := []
  keyPass : List String := []
  ctors : List (String × String) := []
  rpcStarts : List String := []
  initialOrder : String := "unknown"

/-- `s<hex>` ↦ bytes (`s` alone = empty string) -/
def parseS (t : String) : Option Str :=
  match t.toList with
  | 's' :: h => hexToBytesAux h []
  | _ => none

def allSome {α : Type} : List (Option α) → Option (List α)
  | [] => some []
  | none :: _ => none
  | some a :: t => (allSome t).map (a :: ·)

def splitNonEmpty (s : String) (sep : String) : List String :=
  if s = "" then [] else s.splitOn sep

def parseKeyVal (t : String) : Option KeyVal :=
  if t = "n" then some .null else if t = "o" then some .nonString else (parseS t).map .str

def parseArg (t : String) : Option Arg :=
  if t = "n" then some .null else if t = "o" then some .other else (parseS t).map .str

def parseParams (t : String) : Option Params :=
  if t = "a" then some .absent
  else if t = "n" then some .null
  else if t = "x" then some .nonArray
  else match t.toList with
    | '[' :: rest =>
      match rest.reverse with
      | ']' :: mid => (allSome ((splitNonEmpty (String.ofList mid.reverse) ",").map parseArg)).map .arr
      | _ => none
    | _ => none

def parseElem (t : String) : Option Elem :=
  match t.splitOn "|" with
  | [sh, ks, idv, m, te, ps] =>
    let shape : Option Shape := if sh = "o" then some .obj else if sh = "n" then some .null
                                else if sh = "x" then some .other else none
    let keys : Option (List KeyVal) := if ks = "-" then some [] else allSome ((ks.splitOn ",").map parseKeyVal)
    let id : Option IdV := if idv = "a" then some .absent else if idv = "k" then some .ok
                           else if idv = "b" then some .bad else none
    let meth : Option (Option Str) := if m = "-" then some none else (parseS m).map some
    let ty : Option Bool := if te = "0" then some false else if te = "1" then some true else none
    match shape, keys, id, meth, ty, parseParams ps with
    | some shape, some keys, some id, some meth, some ty, some ps =>
      some { shape := shape, keys := keys, id := id, method := meth, tyErr := ty, params := ps }
    | _, _, _, _, _, _ => none
  | _ => none

def parseCb (t : String) : Option (Str × Callback) :=
  match t.splitOn "/" with
  | [n, a, f] =>
    match parseHex n, a.toNat? with
    | some nb, some k =>
      if f = "-" then some (nb, { nargs := k })
      else if f = "e" then some (nb, { nargs := k, retErr := true })
      else if f = "s" then some (nb, { nargs := k, logged := false })
      else none
    | _, _ => none
  | _ => none

def parseService (t : String) : Option Service :=
  match t.splitOn ":" with
  | [n, cbs, subs] =>
    match parseHex n, allSome ((splitNonEmpty cbs ",").map parseCb), allSome ((splitNonEmpty subs ",").map parseCb) with
    | some nb, some c, some s => some { name := nb, callbacks := c, subscriptions := s }
    | _, _, _ => none
  | _ => none

def showStr (s : Str) : String := String.ofList (s.map Char.ofNat)

def showOutcome : Outcome → String
  | .served _ _ cbErr => if cbErr then "e" ++ toString codeCallback else "ok"
  | .subscribed _ n => "sub" ++ toString n
  | .subFailed _ => "e" ++ toString codeCallback
  | .unsubscribed n => "unsub" ++ toString n
  | .err c => "e" ++ toString c

def showInv (i : Inv) : String :=
  showStr i.svc ++ "." ++ showStr i.m ++ "(" ++ ";".intercalate (i.args.map bytesToHex) ++ ")"

def invOf : Outcome → List Inv
  | .served i logged _ => if logged then [i] else []
  | .subscribed i _ => [i]
  | .subFailed i => [i]
  | _ => []

def showReply : Reply → String
  | .msgErr c => "msgerr:" ++ toString c
  | .one o => "one:" ++ showOutcome o
  | .many os => "many:" ++ ",".intercalate (os.map showOutcome)

def insertSorted (n : Nat) : List Nat → List Nat
  | [] => [n]
  | a :: t => if n ≤ a then n :: a :: t else a :: insertSorted n t

def sortNat (l : List Nat) : List Nat := l.foldr insertSorted []

def runMsg (d : DSt) (m : Msg) : DSt × String :=
  let r := serve d.cfg d.st m
  let closes := connCloses d.cfg r.2
  let st' : St := if closes then { r.1 with active := [], pending := [] } else r.1
  let inv := r.2.outcomes.flatMap invOf
  let conn := if d.http then "-" else if closes then "closed" else "open"
  ({ d with st := st' },
   showReply r.2 ++ " inv=" ++ ",".intercalate (inv.map showInv) ++
   " act=" ++ ",".intercalate ((sortNat st'.active).map toString) ++ " conn=" ++ conn)

/-- `rpc_modules` / `bcn_syncing` and the registries of the two endpoints of a node as far as `nodekey` asks them -/
def mModules : Str := [114, 112, 99, 95, 109, 111, 100, 117, 108, 101, 115]
def mSyncing : Str := [98, 99, 110, 95, 115, 121, 110, 99, 105, 110, 103]

def fullCfg (k : Str) : Cfg :=
  { apiKey := k
    notifier := false
    services := [{ name := [114, 112, 99]
                   callbacks := [([109, 111, 100, 117, 108, 101, 115], { nargs := 0, logged := false })]
                   subscriptions := [] }] }

def initialCfg (k : Str) : Cfg :=
  { apiKey := k
    notifier := false
    services := [{ name := [98, 99, 110]
                   callbacks := [([115, 121, 110, 99, 105, 110, 103], { nargs := 0, logged := false })]
                   subscriptions := [] }] }

def ask (cfg : Cfg) (m : Str) (ks : List KeyVal) (ps : Params) : String :=
  match (serve cfg {} (.single { keys := ks, method := some m, params := ps })).2 with
  | .one o => showOutcome o
  | .msgErr c => "msgerr:" ++ toString c
  | .many _ => "many"

def parseStmt (t : String) : Stmt :=
  if t = "decl" then .decl else if t = "parseErr" then .parseErr else if t = "gate" then .gate
  else if t = "branch" then .branch else if t = "tail" then .tail else .unclassified

def okv (b : Bool) : String := if b then "ok" else "VIOLATED"

def step (d : DSt) (line : String) : DSt × String :=
  match splitSp line with
  | ["new", tr, key, reg] =>
    if tr ≠ "http" ∧ tr ≠ "ws" ∧ tr ≠ "pipe" ∧ tr ≠ "ipc" then (d, "bad-op") else
    match parseHex key, allSome ((splitNonEmpty reg ";").map parseService) with
    | some k, some svcs =>
      ({ d with cfg := { apiKey := k, services := svcs, notifier := tr ≠ "http" }, http := tr = "http", st := {} }, "ok")
    | _, _ => (d, "bad-op")
  | ["garbage"] => runMsg d .garbage
  | ["single", e] =>
    match parseElem e with
    | some e => runMsg d (.single e)
    | none => (d, "bad-op")
  | "batch" :: es =>
    match allSome (es.map parseElem) with
    | some es => runMsg d (.batch es)
    | none => (d, "bad-op")
  | ["setkey", flag, file] =>
    let f : Option (Option Str) := if file = "-" then some none else (parseHex file).map some
    match parseHex flag, f with
    | some fl, some fi =>
      -- the random key is not predictable: the model is run with a placeholder and the answer says `random`
      let r := setApiKey fl fi [0]
      let isRnd := r.1 == [0]
      let keyTok := if isRnd then "random" else bytesToHex r.1
      let fileTok := if r.2 then "=key" else match fi with
        | none => "-"
        | some c => if c == r.1 then "=key" else bytesToHex c
      (d, "key=" ++ keyTok ++ " file=" ++ fileTok)
    | _, _ => (d, "bad-op")
  | ["nodekey", entry, flag, file] =>
    if entry ≠ "cli" ∧ entry ≠ "mobile" ∧ entry ≠ "struct" then (d, "bad-op") else
    let f : Option (Option Str) := if file = "-" then some none else (parseHex file).map some
    match parseHex flag, f with
    | some fl, some fi =>
      let r := setApiKey fl fi [0]
      let isRnd := r.1 == [0]
      let keyTok := if r.1.isEmpty then "empty" else if isRnd then "random" else bytesToHex r.1
      let fileTok := if r.2 then "=key" else match fi with
        | none => "-"
        | some c => if c == r.1 then "=key" else bytesToHex c
      (d, "key=" ++ keyTok ++ " file=" ++ fileTok ++
          " initial=" ++ ask (initialCfg (initialEndpointKey fl fi [0])) mSyncing [] (.arr []) ++
          " keyless=" ++ ask (fullCfg r.1) mModules [] .absent ++
          " wrong=" ++ ask (fullCfg r.1) mModules [.str r.1.dropLast] .absent ++
          " right=" ++ ask (fullCfg r.1) mModules [.str r.1] .absent)
    | _, _ => (d, "bad-op")
  | ["nodestart", entry, flag, fault] =>
    if entry ≠ "cli" ∧ entry ≠ "mobile" ∧ entry ≠ "struct" then (d, "bad-op") else
    if fault ≠ "dir" ∧ fault ≠ "symlink" ∧ fault ≠ "parentfile" then (d, "bad-op") else
    match parseHex flag with
    | some fl =>
      -- every fault makes api.key unreadable and unwritable
      match effectiveKey fl { file := none, writable := false } [0] with
      | none => (d, "start=refused")
      | some k =>
        (d, "start=ran key=" ++ (if k.isEmpty then "empty" else if k == [0] then "random" else bytesToHex k) ++
            " initial=" ++ ask (initialCfg k) mSyncing [] (.arr []) ++
            " keyless=" ++ ask (fullCfg k) mModules [] .absent)
    | none => (d, "bad-op")
  | ["gfact", "nodector", f, ok] => ({ d with ctors := (f, ok) :: d.ctors }, "ok")
  | ["gfact", "rpcstart", _, _, r] => ({ d with rpcStarts := r :: d.rpcStarts }, "ok")
  | ["gfact", "initial-order", o] => ({ d with initialOrder := o }, "ok")
  | ["gfact", "stmt", k] => ({ d with stmts := parseStmt k :: d.stmts }, "ok")
  | ["gfact", "site", callee, encl] => ({ d with sites := (callee, encl) :: d.sites }, "ok")
  | ["gfact", "handle-first", k] => ({ d with handleFirst := k :: d.handleFirst }, "ok")
  | ["gfact", "loop", k] => ({ d with loops := k :: d.loops }, "ok")
  | ["gfact", "newserver", encl, kind, n] =>
    match n.toNat? with
    | some k => ({ d with newServers := (encl, kind, k) :: d.newServers }, "ok")
    | none => (d, "bad-op")
  | ["gfact", "keypass", _, _, cls] => ({ d with keyPass := cls :: d.keyPass }, "ok")
  | ["gfact-check"] =>
    let ans := "gate-first=" ++ okv (gateFirst d.stmts.reverse) ++
      " callgraph=" ++ okv (callGraphOk d.sites) ++
      " handle-first=" ++ okv (d.handleFirst == ["err-return"]) ++
      " loop=" ++ okv (d.loops == ["range-all-headers"]) ++
      " keyflow=" ++ okv (keyFlowOk d.newServers d.keyPass) ++
      " ctor=" ++ okv (ctorOk d.ctors d.rpcStarts d.initialOrder) ++
      " initial-endpoint=" ++ d.initialOrder ++ "-key-resolution"
    ({ d with stmts := [], sites := [], handleFirst := [], loops := [], newServers := [], keyPass := [],
              ctors := [], rpcStarts := [], initialOrder := "unknown" }, ans)
  | _ => (d, "bad-op")

end IdenaModel.Drv.C19

def main : IO Unit := IdenaModel.Drv.runDriver ({} : IdenaModel.Drv.C19.DSt) IdenaModel.Drv.C19.step
