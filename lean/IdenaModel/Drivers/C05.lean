import IdenaModel.Model.TxApply
import IdenaModel.Drivers.Util
/-! Driver for channel C05 (D-tx): builds a ledger state from set-up lines, then answers
`val` (→ `validateTx`), `apply` (→ `applyTx`, the state advances on success) and `dump` lines.

Line formats (tokens separated by one space; `-` = none / empty list; lists comma separated):
```
new <u10u11u12> <epoch> <god> <godInvites> <feePerGas> <period> <threshold> <shardsNum> <N> <headN>
    <statusSwitch> <delegationSwitch a:b,…> <delayedPenalties> <discriminationSwitch> <shardSizes id:n,…>
acct <id> <balance> <nonce> <epoch> <contract -|stake:embedded>
idn <id> <state> <stake> <locked> <replenished> <invites> <inviter> <invitees> <delegatee> <pending>
    <delegationEpoch> <undelegationEpoch> <penaltySeconds> <flips cid:pair,…> <requiredFlips> <bits> <shard> <profile>
reg <id> <validated online discriminated pool as 4 bits>
appr <id> <validated online as 2 bits>
watch <ids>
val <mode 1|2|3> <minFeePerGas> <TX>
apply <TX>
dump
TX = <type> <sender> <to> <amount> <maxFee> <tips> <nonce> <epoch> <payloadLen> <gas> <ext k=v;…>
```
-/
namespace IdenaModel.Drv.C05
open IdenaModel.Ledger IdenaModel.Drv

structure DState where
  cfg : Cfg := {}
  s : State := {}
  watch : List Nat := []

def pNat (t : String) : Option Nat := t.toNat?
def pInt (t : String) : Option Int := t.toInt?
def pBool (t : String) : Option Bool := if t = "1" then some true else if t = "0" then some false else none
def pOptNat (t : String) : Option (Option Nat) := if t = "-" then some none else (pNat t).map some

def pList {α : Type} (sep : String) (f : String → Option α) (t : String) : Option (List α) :=
  if t = "-" then some [] else (t.splitOn sep).mapM f

def pPair {α β : Type} (sep : String) (f : String → Option α) (g : String → Option β) (t : String) : Option (α × β) :=
  match t.splitOn sep with
  | [a, b] => do let x ← f a; let y ← g b; pure (x, y)
  | _ => none

def pBits (n : Nat) (t : String) : Option (List Bool) :=
  let cs := t.toList
  if cs.length ≠ n then none else cs.mapM fun ch => if ch = '1' then some true else if ch = '0' then some false else none

def pExt (t : String) : Option Ext :=
  if t = "-" then some {} else
  (t.splitOn ";").foldlM (fun (e : Ext) (kv : String) =>
    match kv.splitOn "=" with
    | ["pa", v] => (pNat v).map fun x => { e with payloadAddr := x }
    | ["at", v] => (pBool v).map fun x => { e with attach := x }
    | ["cid", v] => (pNat v).map fun x => { e with cid := x }
    | ["pair", v] => (pNat v).map fun x => { e with pair := x }
    | ["cok", v] => (pBool v).map fun x => { e with cidOk := x }
    | ["on", v] => (pBool v).map fun x => { e with online := x }
    | ["bk", v] => (pBool v).map fun x => { e with keyNonEmpty := x }
    | ["ph", v] => (pNat v).map fun x => { e with profileHash := x }
    | ["ps", v] => (pBool v).map fun x => { e with proofSalt := x }
    | ["vrf", v] => (pBool v).map fun x => { e with vrfOk := x }
    | ["mv", v] => (pBool v).map fun x => { e with markedValid := x }
    | ["emb", v] => (pBool v).map fun x => { e with embedded := x }
    | ["code", v] => (pBool v).map fun x => { e with hasCode := x }
    | ["wasm", v] => (pBool v).map fun x => { e with isWasm := x }
    | ["ca", v] => (pNat v).map fun x => { e with contractAddr := x }
    | ["vs", v] => (pBool v).map fun x => { e with vmSuccess := x }
    | ["vg", v] => (pNat v).map fun x => { e with vmGasUsed := x }
    | ["vd", v] => (pList "/" (pPair ":" pNat pInt) v).map fun x => { e with vmDeltas := x }
    | _ => none) {}

def pTx : List String → Option Tx
  | [ty, snd, to, amt, mf, tips, nonce, epoch, plen, gas, ext] => do
    let ty ← if ty = "u" then some TxType.unknown else (pNat ty).map TxType.ofCode
    let snd ← pNat snd
    let to ← pOptNat to
    let amt ← pInt amt
    let mf ← pInt mf
    let tips ← pInt tips
    let nonce ← pNat nonce
    let epoch ← pNat epoch
    let plen ← pNat plen
    let gas ← pNat gas
    let ext ← pExt ext
    pure { type := ty, sender := snd, to := to, amount := amt, maxFee := mf, tips := tips, nonce := nonce,
           epoch := epoch, payloadLen := plen, gas := gas, ext := ext }
  | _ => none

def showErr : VErr → String
  | .nodeAlreadyActivated => "NodeAlreadyActivated" | .invalidSignature => "InvalidSignature"
  | .invalidNonce => "InvalidNonce" | .invalidEpoch => "InvalidEpoch" | .invalidAmount => "InvalidAmount"
  | .insufficientFunds => "InsufficientFunds" | .insufficientInvites => "InsufficientInvites"
  | .recipientRequired => "RecipientRequired" | .invitationIsMissing => "InvitationIsMissing"
  | .emptyPayload => "EmptyPayload" | .invalidPayload => "InvalidPayload" | .invalidRecipient => "InvalidRecipient"
  | .earlyTx => "EarlyTx" | .lateTx => "LateTx" | .notCandidate => "NotCandidate"
  | .insufficientFlips => "InsufficientFlips" | .isAlreadyOnline => "IsAlreadyOnline"
  | .isAlreadyOffline => "IsAlreadyOffline" | .duplicatedFlip => "DuplicatedFlip"
  | .duplicatedFlipPair => "DuplicatedFlipPair" | .bigFee => "BigFee" | .invalidMaxFee => "InvalidMaxFee"
  | .tooHighMaxFee => "TooHighMaxFee" | .invalidSender => "InvalidSender" | .flipIsMissing => "FlipIsMissing"
  | .duplicatedTx => "DuplicatedTx" | .negativeValue => "NegativeValue" | .senderHasDelegatee => "SenderHasDelegatee"
  | .senderHasNoDelegatee => "SenderHasNoDelegatee" | .wrongEpoch => "WrongEpoch"
  | .invalidDeployAmount => "InvalidDeployAmount" | .senderHasPenalty => "SenderHasPenalty"
  | .unknownType => "UnknownType" | .other => "Other"

def showOutcome : Outcome → String
  | .ok => "ok"
  | .err e => "err:" ++ showErr e
  | .panic => "panic"

def b01 (b : Bool) : String := if b then "1" else "0"
def showOptNat : Option Nat → String
  | none => "-"
  | some n => toString n
def showList {α : Type} (sep : String) (f : α → String) (l : List α) : String :=
  if l.isEmpty then "-" else sep.intercalate (l.map f)

def insertSorted (p : Nat × Nat) : List (Nat × Nat) → List (Nat × Nat)
  | [] => [p]
  | q :: t => if p.1 ≤ q.1 then p :: q :: t else q :: insertSorted p t

def sortPairs (l : List (Nat × Nat)) : List (Nat × Nat) := l.foldl (fun acc p => insertSorted p acc) []

def showAddr (s : State) (a : Nat) : String :=
  let f := s.af a
  let m := s.am a
  let i := s.ii a
  let st := s.idf a
  let pend := i.pendingUndelegation && i.delegatee.isSome
  "A" ++ toString a ++ "=" ++
  ",".intercalate [toString f.balance, toString m.nonce, toString m.epoch,
    (match f.contract with | none => "-" | some c => toString c.stake ++ ":" ++ b01 c.embedded)] ++ "|" ++
  ",".intercalate [toString i.state.toNat, toString st.stake, toString st.locked, toString st.replenished,
    toString i.invites, showOptNat i.inviter, showList "." toString i.invitees, showOptNat i.delegatee, b01 pend,
    toString i.delegationEpoch, toString i.undelegationEpoch, toString i.penaltySeconds,
    showList "." (fun (fl : Flip) => toString fl.cid ++ ":" ++ toString fl.pair) i.flips,
    toString i.requiredFlips, toString i.validationBits, toString i.shardId, toString i.profileHash] ++ "|" ++
  b01 (s.ap a).validated ++ b01 (s.ap a).online

def showGlobal (g : Global) : String :=
  "G=" ++ ",".intercalate [toString g.epoch, toString g.godAddress, toString g.godInvites, toString g.feePerGas,
    toString g.period.toNat, toString g.discriminationThreshold,
    toString (if g.shardsNum = 0 then 1 else g.shardsNum),
    showList "." toString g.statusSwitch,
    showList "." (fun (p : Nat × Nat) => toString p.1 ++ ":" ++ toString p.2) g.delegationSwitch,
    showList "." toString g.delayedPenalties,
    showList "." toString g.discriminationSwitch,
    showList "." (fun (p : Nat × Nat) => toString p.1 ++ ":" ++ toString p.2)
      (sortPairs (g.shardSizes.filter (fun p => p.2 ≠ 0))),
    showList "." (fun (p : Nat × Int) => toString p.1 ++ ":" ++ toString p.2) g.burnt]

def dump (d : DState) : String :=
  " ".intercalate (d.watch.map (showAddr d.s) ++ [showGlobal d.s.g])

def pNew : List String → Option DState
  | [fl, epoch, god, ginv, fpg, per, thr, sn, n, hn, ss, ds, dp, dsw, sz] => do
    let fl ← pBits 3 fl
    let epoch ← pNat epoch
    let god ← pNat god
    let ginv ← pNat ginv
    let fpg ← pNat fpg
    let per ← (pNat per).bind Period.ofNat?
    let thr ← pNat thr
    let sn ← pNat sn
    let n ← pNat n
    let hn ← pNat hn
    let ss ← pList "," pNat ss
    let ds ← pList "," (pPair ":" pNat pNat) ds
    let dp ← pList "," pNat dp
    let dsw ← pList "," pNat dsw
    let sz ← pList "," (pPair ":" pNat pNat) sz
    let cfg : Cfg := { u10 := fl[0]!, u11 := fl[1]!, u12 := fl[2]! }
    let g : Global :=
      { epoch := epoch
        godAddress := god
        godInvites := ginv
        feePerGas := fpg
        period := per
        discriminationThreshold := thr
        shardsNum := sn
        shardSizes := sz
        statusSwitch := ss
        delegationSwitch := ds
        delayedPenalties := dp
        discriminationSwitch := dsw
        netSize := n
        headNetSize := hn }
    pure { cfg := cfg, s := { g := g }, watch := [] }
  | _ => none

def pAcct (s : State) : List String → Option State
  | [id, bal, nonce, epoch, ctr] => do
    let id ← pNat id
    let bal ← pInt bal
    let nonce ← pNat nonce
    let epoch ← pNat epoch
    let ctr ← if ctr = "-" then some none else
      (pPair ":" pInt pBool ctr).map fun p => some ({ stake := p.1, embedded := p.2 } : Contract)
    pure ((s.modAF id fun _ => { balance := bal, contract := ctr }).modAM id fun _ => { nonce := nonce, epoch := epoch })
  | _ => none

def pIdn (s : State) : List String → Option State
  | [id, st, stake, locked, repl, inv, inviter, invitees, deleg, pend, de, ue, pen, flips, req, bits, shard, prof] => do
    let id ← pNat id
    let st ← (pNat st).bind IdState.ofNat?
    let stake ← pInt stake
    let locked ← pInt locked
    let repl ← pInt repl
    let inv ← pNat inv
    let inviter ← pOptNat inviter
    let invitees ← pList "," pNat invitees
    let deleg ← pOptNat deleg
    let pend ← pBool pend
    let de ← pNat de
    let ue ← pNat ue
    let pen ← pNat pen
    let flips ← pList "," (pPair ":" pNat pNat) flips
    let req ← pNat req
    let bits ← pNat bits
    let shard ← pNat shard
    let prof ← pNat prof
    pure ((s.modIF id fun _ => { stake := stake, locked := locked, replenished := repl }).modII id fun _ =>
      { state := st, invites := inv, inviter := inviter, invitees := invitees, delegatee := deleg,
        pendingUndelegation := pend, delegationEpoch := de, undelegationEpoch := ue, penaltySeconds := pen,
        flips := flips.map (fun p => { cid := p.1, pair := p.2 }), requiredFlips := req, validationBits := bits,
        shardId := shard, profileHash := prof })
  | _ => none

def step (d : DState) (line : String) : DState × String :=
  match splitSp line with
  | "new" :: rest => match pNew rest with
    | some d' => (d', "ok")
    | none => (d, "bad-op")
  | "acct" :: rest => match pAcct d.s rest with
    | some s' => ({ d with s := s' }, "ok")
    | none => (d, "bad-op")
  | "idn" :: rest => match pIdn d.s rest with
    | some s' => ({ d with s := s' }, "ok")
    | none => (d, "bad-op")
  | ["reg", id, bits] => match pNat id, pBits 4 bits with
    | some id, some b =>
      ({ d with s := { d.s with reg := d.s.reg.upd id fun _ =>
          { validated := b[0]!, online := b[1]!, discriminated := b[2]!, pool := b[3]! } } }, "ok")
    | _, _ => (d, "bad-op")
  | ["appr", id, bits] => match pNat id, pBits 2 bits with
    | some id, some b => ({ d with s := d.s.modAP id fun _ => { validated := b[0]!, online := b[1]! } }, "ok")
    | _, _ => (d, "bad-op")
  | ["watch", ids] => match pList "," pNat ids with
    | some l => ({ d with watch := l }, "ok")
    | none => (d, "bad-op")
  | ["dump"] => (d, dump d)
  | "val" :: mode :: minFpg :: rest =>
    match (if mode = "1" then some Mode.inBlock else if mode = "2" then some Mode.mempool
           else if mode = "3" then some Mode.inbound else none), pNat minFpg, pTx rest with
    | some m, some mf, some tx => (d, showOutcome (validateTx d.cfg d.s tx m mf))
    | _, _, _ => (d, "bad-op")
  | "apply" :: rest =>
    match pTx rest with
    | some tx =>
      match applyTx d.cfg d.s tx with
      | .ok s' fee => let d' := { d with s := s' }; (d', "ok " ++ toString fee ++ " " ++ dump d')
      | .err .epoch => (d, "err:Epoch")
      | .err .nonce => (d, "err:Nonce")
      | .panic => (d, "panic")
    | none => (d, "bad-op")
  | _ => (d, "bad-op")

end IdenaModel.Drv.C05

def main : IO Unit := IdenaModel.Drv.runDriver ({} : IdenaModel.Drv.C05.DState) IdenaModel.Drv.C05.step
