import IdenaModel.Model.Qualification
import IdenaModel.Drivers.Util
/-! Driver for channel C17.

Line kinds (see harness/cmd/c17):
* `dec …`   one call of `determineNewIdentityState` + `determineIdentityBirthday` (Part A table).  The five score
  comparisons are recomputed float-free from the float32 bit patterns, cross-checked against exact integer ratios
  (`r` scores) and against the booleans the Go side computed with its own float32 comparisons.
* `new store` / `add` / `rm` / `persist` / `restore` / `fresh` / `dump`   the answer store (Part B.1).
* `new node <clearOnReset>` / `data v` / `reset v` / `eval h`   which data version an evaluation at a height is served
  from (Part B.2/B.3, the cache keyed by height).
* `new cer …` / `id …`   rule check of one identity's outcome in a real mini-ceremony (Part C).
-/
namespace IdenaModel.Drv.C17
open IdenaModel.Qual IdenaModel.Drv

def parseBit (s : String) : Option Bool := if s = "1" then some true else if s = "0" then some false else none

/-- `k:n:d:bits` -/
structure RawScore where
  ratio : Bool
  num : Nat
  den : Nat
  bits : Nat

def parseScore (tag : String) (s : String) : Option RawScore :=
  match s.splitOn ":" with
  | [t, k, n, d, b] =>
    if t ≠ tag then none else
    match n.toNat?, d.toNat?, b.toNat? with
    | some n, some d, some b =>
      if k = "r" then some ⟨true, n, d, b⟩ else if k = "x" then some ⟨false, n, d, b⟩ else none
    | _, _, _ => none
  | _ => none

/-- exact comparisons on the ratio; short/long scores are `(num/2)/den`, the total score is `num/den` -/
def ratioFlags (s l t : RawScore) : ScoreFlags :=
  { shortGeMin := decide (5 * s.num ≥ 6 * s.den)
    shortPos := decide (s.num > 0)
    longGeMin := decide (2 * l.num ≥ 3 * l.den)
    totalGeMin := decide (4 * t.num ≥ 3 * t.den)
    totalGeHuman := decide (25 * t.num ≥ 23 * t.den) }

def flagsString (f : ScoreFlags) : String :=
  let c := fun (b : Bool) => if b then "1" else "0"
  c f.shortGeMin ++ c f.shortPos ++ c f.longGeMin ++ c f.totalGeMin ++ c f.totalGeHuman

/-- the ratio cross-check only speaks about the scores given as ratios with a positive denominator; a ratio score
with denominator 0 must be the literal 0 the Go code uses when nothing was qualified -/
def ratioOk (s l t : RawScore) (fb : ScoreFlags) : Bool :=
  let fr := ratioFlags s l t
  let okS := if !s.ratio then true else if s.den = 0 then s.bits = 0
             else fr.shortGeMin = fb.shortGeMin && fr.shortPos = fb.shortPos
  let okL := if !l.ratio then true else if l.den = 0 then l.bits = 0 else fr.longGeMin = fb.longGeMin
  let okT := if !t.ratio then true else if t.den = 0 then false
             else fr.totalGeMin = fb.totalGeMin && fr.totalGeHuman = fb.totalGeHuman
  okS && okL && okT

def stepDec (toks : List String) : String :=
  match toks with
  | [p, f, r, e, b, m, q, l, fx, a, c, tt, ss, s1, s2, s3, bb] =>
    match p.toNat?, f.toNat?, r.toNat?, e.toNat?, b.toNat?, tt.toNat?, ss.toNat? with
    | some p, some f, some r, some e, some b, some tt, some ss =>
      match parseBit m, parseBit q, parseBit l, parseBit fx, parseBit a, parseBit c with
      | some m, some q, some l, some fx, some a, some c =>
        match parseScore "s" s1, parseScore "l" s2, parseScore "t" s3 with
        | some sS, some sL, some sT =>
          let fb := scoreFlagsOfBits sS.bits sL.bits sT.bits
          if !ratioOk sS sL sT fb then "float-mismatch " ++ flagsString fb
          else if bb ≠ "b:" ++ flagsString fb then "bool-mismatch " ++ flagsString fb
          else
            let prev := IdState.ofCode p
            let i : DecIn :=
              { prev := prev, doneFlips := decide (f % 256 ≥ r), sc := fb, totalFlips := tt, shortFlips := ss,
                missed := m, noQualShort := q, nonQualLong := l, fix93 := fx, u10 := a, u12 := c }
            let st := determineNewIdentityState i
            match st.code with
            | some code => toString code ++ " " ++ toString (determineIdentityBirthday e prev b st)
            | none => "no-code"
        | _, _, _ => "bad-op"
      | _, _, _, _, _, _ => "bad-op"
    | _, _, _, _, _, _, _ => "bad-op"
  | _ => "bad-op"

/-! ### store lines -/

def parsePayload (s : String) : Option Payload :=
  if s = "-" then some .nil else (parseHex s).map .bytes

def showPayload : Option Payload → String
  | none => "."
  | some .nil => "-"
  | some (.bytes b) => bytesToHex b

def parseKind (s : String) : Option Bool := if s = "s" then some true else if s = "l" then some false else none

def dumpStore (s : QStore) (n : Nat) : String :=
  let row := fun (f : Nat → Option Payload) => " ".intercalate ((List.range n).map fun a => showPayload (f a))
  -- the database is observed through `ReadAnswers`, i.e. after the protobuf round trip (`Payload.norm`)
  let rd := fun (f : Nat → Option Payload) (a : Nat) => (f a).map Payload.norm
  "mem s[" ++ row s.short ++ "] l[" ++ row s.long ++ "] db s[" ++ row (rd s.dbShort) ++ "] l[" ++ row (rd s.dbLong) ++ "]"

/-! ### node lines: which data version serves an evaluation -/

structure VNode where
  clearOnReset : Bool
  version : Nat
  /-- height ↦ data version the cached result was computed from -/
  cache : List (Nat × Nat)

def VNode.eval (n : VNode) (h : Nat) : VNode × Nat :=
  match (n.cache.find? (fun e => e.1 == h)).map (·.2) with
  | some v => (n, v)
  | none => ({ n with cache := (h, n.version) :: n.cache }, n.version)

/-! ### ceremony lines -/

structure CerCtx where
  epoch : Nat
  u10 : Bool
  u12 : Bool

/-- all outcomes of the decision for a fixed (prev, doneFlips, missed, flags), over every score outcome, flip-count
class and qualification flag -/
def possibleOutcomes (prev : IdState) (done missed fix u10 u12 : Bool) : List IdState :=
  let bs := [false, true]
  (bs.flatMap fun a => bs.flatMap fun b => bs.flatMap fun c => bs.flatMap fun d => bs.flatMap fun e =>
   bs.flatMap fun q => bs.flatMap fun l => [0, 13, 24].flatMap fun tf => [0, 1, 2].map fun sf =>
     determineNewIdentityState
       { prev := prev, doneFlips := done, sc := ⟨a, b, c, d, e⟩, totalFlips := tf,
         shortFlips := sf, missed := missed, noQualShort := q, nonQualLong := l, fix93 := fix, u10 := u10,
         u12 := u12 }).eraseDups

structure St where
  store : QStore := QStore.init
  nAddr : Nat := 0
  node : VNode := ⟨false, 0, []⟩
  cer : CerCtx := ⟨0, false, false⟩

def step (st : St) (line : String) : St × String :=
  match splitSp line with
  | "dec" :: rest => (st, stepDec rest)
  | ["new", "table"] => (st, "ok")
  | ["new", "store", n] =>
    match n.toNat? with
    | some n => ({ st with store := QStore.init, nAddr := n }, "ok")
    | none => (st, "bad-op")
  | ["add", k, a, p] =>
    match parseKind k, a.toNat?, parsePayload p with
    | some k, some a, some p => ({ st with store := st.store.add k a p }, "ok")
    | _, _, _ => (st, "bad-op")
  | ["rm", k, a] =>
    match parseKind k, a.toNat? with
    | some k, some a => ({ st with store := st.store.remove k a }, "ok")
    | _, _ => (st, "bad-op")
  | ["persist"] => ({ st with store := st.store.persist }, "ok")
  | ["restore"] => ({ st with store := st.store.restore }, "ok")
  | ["fresh"] => ({ st with store := st.store.fresh }, "ok")
  | ["dump"] => (st, dumpStore st.store st.nAddr)
  | ["new", "node", c] =>
    match parseBit c with
    | some c => ({ st with node := ⟨c, 0, []⟩ }, "ok")
    | none => (st, "bad-op")
  | ["data", v] =>
    match v.toNat? with
    | some v => ({ st with node := { st.node with version := v } }, "ok")
    | none => (st, "bad-op")
  | ["reset", v] =>
    match v.toNat? with
    | some v => ({ st with node := { st.node with version := v,
                                                  cache := if st.node.clearOnReset then [] else st.node.cache } }, "ok")
    | none => (st, "bad-op")
  | ["eval", h] =>
    match h.toNat? with
    | some h => let r := st.node.eval h; ({ st with node := r.1 }, "ver " ++ toString r.2)
    | none => (st, "bad-op")
  | ["new", "cer", e, a, c] =>
    match e.toNat?, parseBit a, parseBit c with
    | some e, some a, some c => ({ st with cer := ⟨e, a, c⟩ }, "ok")
    | _, _, _ => (st, "bad-op")
  | ["id", p, d, m, b, n, nb] =>
    -- one identity of an epoch result: prior status, doneFlips, missed, prior birthday, new status, new birthday
    match p.toNat?, parseBit d, parseBit m, b.toNat?, n.toNat?, nb.toNat? with
    | some p, some d, some m, some b, some n, some nb =>
      let prev := IdState.ofCode p
      let new := IdState.ofCode n
      let outs := possibleOutcomes prev d m (decide (st.cer.epoch ≥ 93)) st.cer.u10 st.cer.u12
      if !outs.contains new then (st, "not-in-table")
      else if (m || !d) && new.newbieOrBetter then (st, "validated-though-missed")
      else if determineIdentityBirthday st.cer.epoch prev b new ≠ nb then (st, "birthday")
      else (st, "ok")
    | _, _, _, _, _, _ => (st, "bad-op")
  | _ => (st, "bad-op")

end IdenaModel.Drv.C17

def main : IO Unit := IdenaModel.Drv.runDriver ({} : IdenaModel.Drv.C17.St) IdenaModel.Drv.C17.step
