import IdenaModel.Model.PushPull
import IdenaModel.Drivers.Util
/-! Driver for channel C20: drives `PushPull.nodeStep` (one lane per entry type, `PushPull.step` inside a lane).

Op lines (times in ms since the trackers were started; `T` = push type of the lane):
`new <maxPending> <asFound 0|1> <T>:<delay>:<cap> …` · `ann T p h` · `arr T h` · `tick t` · `loop T` · `gc T` · `dlv T` ·
`exp T h` · `fgt T h` · `state T`.  Outputs `kind:type:peer:hash:time`.
Burst ops (full bounded queue of the manager): `mqcap N` · `annq T p h` (announcement while the consumer of
`PushPullManager.requests` is stalled) · `drainq` (the consumer takes everything).

Bounded queues, as found in the unchanged code, stated here as executable glue and compared on the burst scenarios (the
proved model's queues are unbounded): (1) `makeRequest` drops the request when the manager's channel holds `mqcap`
requests, but `addPush` bumps the counter and registers the pull all the same — the driver runs the model's `announce`
unchanged and only withholds the emitted request from the queue; (2) the tracker loop's send blocks on its full
channel and loses nothing — the harness op `loop` with a stalled consumer is the same model event `loop`.

Glue that is not in the model: the harness op `loop` lets the real goroutine run until it is parked in `Sleep` again,
so the driver repeats the model's one-iteration event `loop` until the lane's loop sleeps again (bounded; `diverge`
if it does not); `new` does the same for each goroutine's very first iteration. -/
namespace IdenaModel.Drv.C20
open IdenaModel.PushPull IdenaModel.Drv

def sleeping : Pc → Bool
  | .run => false
  | _ => true

def getLane (n : Node) (typ : Nat) : Option Lane := n.find? (fun l => l.typ == typ)

/-- repeat `loop` events on lane `typ` until its goroutine sleeps; `none` = did not settle within the fuel -/
def settle (typ : Nat) : Nat → Node → List (Nat × Out) → Option (Node × List (Nat × Out))
  | 0, _, _ => none
  | f + 1, n, o =>
    let r := nodeStep n typ .loop
    match getLane r.1 typ with
    | none => none
    | some l => if sleeping l.st.pc then some (r.1, o ++ r.2) else settle typ f r.1 (o ++ r.2)

def showOut : Nat × Out → String
  | (ty, .imm p h t) => s!"imm:{ty}:{p}:{h}:{t}"
  | (ty, .dec p h t) => s!"dec:{ty}:{p}:{h}:{t}"
  | (ty, .fwd p h t) => s!"fwd:{ty}:{p}:{h}:{t}"

def sizes (s : St) : String :=
  s!"P={s.pending.length} A={s.active.length} Q={s.queue.length}"

def answer (n : Node) (typ : Nat) (o : List (Nat × Out)) : String :=
  match getLane n typ with
  | none => "bad-op"
  | some l =>
    if l.st.panicked then "panic" else
    (if o.isEmpty then "-" else " ".intercalate (o.map showOut)) ++ " | " ++ sizes l.st

def sortMap (m : Map) : Map := m.mergeSort (fun a b => a.1 ≤ b.1)

def showState (s : St) : String :=
  let pend := ",".intercalate (s.pending.map fun e => s!"{e.peer}:{e.hash}:{e.time}")
  let act := ",".intercalate ((sortMap s.active).map fun kv => s!"{kv.1}:{kv.2}")
  let held := ",".intercalate ((s.held.mergeSort (· ≤ ·)).map toString)
  let cnt := ",".intercalate ((sortMap s.cnt).map fun kv => s!"{kv.1}:{kv.2}")
  let q := ",".intercalate (s.queue.map fun kv => s!"{kv.1}:{kv.2}")
  let lw : String := match s.pc with
    | .run => "-1" | .sleep w => toString w | .hold _ w => toString w
  s!"now={s.now} pend={pend} act={act} held={held} cnt={cnt} q={q} loop={lw} gc={s.gcWake}"

def loopDue (s : St) : Bool :=
  match s.pc with
  | .run => true
  | .sleep w => decide (w ≤ s.now)
  | .hold _ w => decide (w ≤ s.now)

def parseLane (mp : Nat) (af : Bool) (tok : String) : Option Lane :=
  match (tok.splitOn ":").map String.toNat? with
  | [some ty, some dl, some cp] =>
    some { typ := ty, cfg := { delay := dl, cap := cp, maxPending := mp, asFound := af }, st := init }
  | _ => none

structure DSt where
  node : Node := []
  /-- content of `PushPullManager.requests` while its consumer is stalled (newest first) -/
  mq : List (Nat × Nat × Nat) := []
  mqLen : Nat := 0
  mqCap : Nat := 5000

def stepNode (n : Node) (line : String) : Node × String :=
  let ev (typ : Nat) (e : Ev) : Node × String :=
    match getLane n typ with
    | none => (n, "bad-op")
    | some _ => let r := nodeStep n typ e; (r.1, answer r.1 typ r.2)
  let nat2 (a b : String) (f : Nat → Nat → Node × String) : Node × String :=
    match a.toNat?, b.toNat? with | some x, some y => f x y | _, _ => (n, "bad-op")
  match splitSp line with
  | "new" :: mp :: af :: lanes =>
    match mp.toNat?, af.toNat? with
    | some mp, some af =>
      if af > 1 ∨ lanes.isEmpty then (n, "bad-op") else
      let ls := lanes.map (parseLane mp (af == 1))
      if ls.any (·.isNone) then (n, "bad-op") else
      let node : Node := ls.filterMap id
      if (node.map (·.typ)).eraseDups.length ≠ node.length then (n, "bad-op") else
      -- every tracker's loop goroutine runs its first iteration and goes to sleep
      let r := node.foldl (fun (acc : Option Node) l =>
        match acc with
        | none => none
        | some nd => (settle l.typ 8 nd []).map (·.1)) (some node)
      match r with
      | some nd => (nd, "ok")
      | none => (n, "diverge")
    | _, _ => (n, "bad-op")
  | ["ann", ty, p, h] => match ty.toNat? with
    | some ty => nat2 p h fun p h => ev ty (.announce p h)
    | none => (n, "bad-op")
  | ["arr", ty, h] => nat2 ty h fun ty h => ev ty (.arrive h)
  | ["exp", ty, h] => nat2 ty h fun ty h => ev ty (.expire h)
  | ["fgt", ty, h] => nat2 ty h fun ty h => ev ty (.forget h)
  | ["tick", t] => match t.toNat? with
    | some t => ((nodeStep n 0 (.tick t)).1, "-")
    | none => (n, "bad-op")
  | ["gc", ty] => match ty.toNat? with | some ty => ev ty .gc | none => (n, "bad-op")
  | ["dlv", ty] => match ty.toNat? with | some ty => ev ty .deliver | none => (n, "bad-op")
  | ["loop", ty] => match ty.toNat? with
    | none => (n, "bad-op")
    | some ty =>
      match getLane n ty with
      | none => (n, "bad-op")
      | some l =>
        if loopDue l.st then
          match settle ty (4 * l.st.pending.length + 16) n [] with
          | some (n', o) => (n', answer n' ty o)
          | none => (n, "diverge")
        else (n, answer n ty [])
  | ["state", ty] => match ty.toNat? with
    | none => (n, "bad-op")
    | some ty => match getLane n ty with
      | some l => (n, showState l.st)
      | none => (n, "bad-op")
  | _ => (n, "bad-op")

def stepLine (d : DSt) (line : String) : DSt × String :=
  match splitSp line with
  | ["mqcap", c] => match c.toNat? with
    | some c => ({ d with mqCap := c }, "ok")
    | none => (d, "bad-op")
  | ["annq", ty, p, h] =>
    match ty.toNat?, p.toNat?, h.toNat? with
    | some ty, some p, some h =>
      match getLane d.node ty with
      | none => (d, "bad-op")
      | some _ =>
        let r := nodeStep d.node ty (.announce p h)
        -- makeRequest: queued if there is room, skipped otherwise; the state change is the same
        let d' := r.2.foldl (fun (acc : DSt) (x : Nat × Out) =>
          if acc.mqLen < acc.mqCap then
            { acc with mq := (x.1, match x.2 with | .imm p h _ => (p, h) | .dec p h _ => (p, h) | .fwd p h _ => (p, h)) :: acc.mq,
                       mqLen := acc.mqLen + 1 }
          else acc) { d with node := r.1 }
        match getLane d'.node ty with
        | some l => (d', s!"M={d'.mqLen} | {sizes l.st}")
        | none => (d, "bad-op")
    | _, _, _ => (d, "bad-op")
  | ["drainq"] =>
    let items := d.mq.reverse.map fun x => s!"req:{x.1}:{x.2.1}:{x.2.2}"
    ({ d with mq := [], mqLen := 0 }, s!"n={d.mqLen} " ++ " ".intercalate items)
  | _ => let r := stepNode d.node line; ({ d with node := r.1 }, r.2)

end IdenaModel.Drv.C20

def main : IO Unit :=
  IdenaModel.Drv.runDriver ({} : IdenaModel.Drv.C20.DSt) IdenaModel.Drv.C20.stepLine
