import IdenaModel.Model.PushPull
import IdenaModel.Drivers.Util
/-! Driver for channel C20: drives `PushPull.step`.

Op lines (times in ms since the tracker was started):
`new <delay> <cap> <maxPending> <asFound 0|1>` · `ann p h` · `arr h` · `tick t` · `loop` · `gc` · `dlv` · `exp h` ·
`fgt h` · `state`.

Glue that is not in the model: the harness op `loop` lets the real goroutine run until it is parked in `Sleep` again,
so the driver repeats the model's one-iteration event `loop` until the model's loop sleeps again (bounded; `diverge`
if it does not); `new` does the same for the goroutine's very first iteration. -/
namespace IdenaModel.Drv.C20
open IdenaModel.PushPull IdenaModel.Drv

structure DSt where
  c : Cfg
  s : St

def sleeping : Pc → Bool
  | .run => false
  | _ => true

/-- repeat `loop` events until the goroutine sleeps; `none` = did not settle within the fuel -/
def settle (c : Cfg) : Nat → St → List Out → Option (St × List Out)
  | 0, _, _ => none
  | f + 1, s, o =>
    let r := step c s .loop
    if sleeping r.1.pc then some (r.1, o ++ r.2) else settle c f r.1 (o ++ r.2)

def showOut : Out → String
  | .imm p h t => s!"imm:{p}:{h}:{t}"
  | .dec p h t => s!"dec:{p}:{h}:{t}"
  | .fwd p h t => s!"fwd:{p}:{h}:{t}"

def sizes (s : St) : String :=
  s!"P={s.pending.length} A={s.active.length} Q={s.queue.length}"

def answer (s : St) (o : List Out) : String :=
  if s.panicked then "panic" else
  (if o.isEmpty then "-" else " ".intercalate (o.map showOut)) ++ " | " ++ sizes s

def sortMap (m : Map) : Map := m.mergeSort (fun a b => a.1 ≤ b.1)

def showState (s : St) : String :=
  let pend := ",".intercalate (s.pending.map fun e => s!"{e.peer}:{e.hash}:{e.time}")
  let act := ",".intercalate ((sortMap s.active).map fun kv => s!"{kv.1}:{kv.2}")
  let held := ",".intercalate ((s.held.mergeSort (· ≤ ·)).map toString)
  let cnt := ",".intercalate ((sortMap s.cnt).map fun kv => s!"{kv.1}:{kv.2}")
  let q := ",".intercalate (s.queue.map fun kv => s!"{kv.1}:{kv.2}")
  let lw : String := match s.pc with
    | .run => "-1" | .sleep w => toString w | .hold _ w => toString w
  s!"now={s.now} pend={pend} act={act} held={held} cnt={cnt} q={q} loop={lw} gc={s.gcWake}"

def loopDue (s : St) : Bool :=
  match s.pc with
  | .run => true
  | .sleep w => decide (w ≤ s.now)
  | .hold _ w => decide (w ≤ s.now)

def stepLine (d : DSt) (line : String) : DSt × String :=
  let ev (e : Ev) : DSt × String := let r := step d.c d.s e; ({ d with s := r.1 }, answer r.1 r.2)
  match splitSp line with
  | ["new", dl, cp, mp, af] =>
    match dl.toNat?, cp.toNat?, mp.toNat?, af.toNat? with
    | some dl, some cp, some mp, some af =>
      if af > 1 then (d, "bad-op") else
      let c : Cfg := { delay := dl, cap := cp, maxPending := mp, asFound := af == 1 }
      match settle c 8 init [] with
      | some (s, _) => ({ c := c, s := s }, "ok")
      | none => (d, "diverge")
    | _, _, _, _ => (d, "bad-op")
  | ["ann", p, h] => match p.toNat?, h.toNat? with
    | some p, some h => ev (.announce p h) | _, _ => (d, "bad-op")
  | ["arr", h] => match h.toNat? with | some h => ev (.arrive h) | none => (d, "bad-op")
  | ["exp", h] => match h.toNat? with | some h => ev (.expire h) | none => (d, "bad-op")
  | ["fgt", h] => match h.toNat? with | some h => ev (.forget h) | none => (d, "bad-op")
  | ["tick", t] => match t.toNat? with | some t => ev (.tick t) | none => (d, "bad-op")
  | ["gc"] => ev .gc
  | ["dlv"] => ev .deliver
  | ["loop"] =>
    if loopDue d.s then
      match settle d.c (4 * d.s.pending.length + 16) d.s [] with
      | some (s, o) => ({ d with s := s }, answer s o)
      | none => (d, "diverge")
    else (d, answer d.s [])
  | ["state"] => (d, showState d.s)
  | _ => (d, "bad-op")

end IdenaModel.Drv.C20

def main : IO Unit :=
  IdenaModel.Drv.runDriver
    ({ c := { delay := 10000, cap := 3, maxPending := 20000 }, s := IdenaModel.PushPull.init } : IdenaModel.Drv.C20.DSt)
    IdenaModel.Drv.C20.stepLine
