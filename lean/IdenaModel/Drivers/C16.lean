import IdenaModel.Model.Lottery
import IdenaModel.Drivers.Util
/-! Driver for channel C16: the flip lottery of one shard, step by step.

    new <q> <fl>            shortFlipsCount and flips per candidate (csv, `-` = no candidates)   → ok n= authors= flips=
    authors <p1> <p2>       GetAuthorsDistribution with the rand.Perm streams (perms `;`-separated)  → apc <ll> cpa <ll>
    flips <p3>              GetFlipsDistribution with its permutation                           → short <ll> long <ll>
    solve                   getFlipsToSolve of every candidate, both sessions                    → ts <ll> tl <ll>
    rcp <a>                 PrivateEncryptionKeyCandidates of candidate a                        → err | csv
    badkeys <csv|->         candidates whose stored PubKey does not parse (after `new`)          → ok
    pkg <a>                 layout of a's key package: per position the recipient that opens it, `x` = empty placeholder
    key <c> <a>             package index of c in a's package + extraction + decryption          → idx=<i|-1> ok|no

List of lists: `|`-separated, a list is csv, the empty list is `_`, no lists at all is `-`.
The cipher is instantiated with the ideal one (`enc c k = (c, k)`, only `c` opens it): the law the theorems assume. -/
namespace IdenaModel.Drv.C16
open IdenaModel.Lottery IdenaModel.Drv

structure St where
  q : Nat := 0
  fl : List Nat := []
  apc : Option (List (List Nat)) := none
  cpa : List (List Nat) := []
  short : Option (List (List Nat)) := none
  long : List (List Nat) := []
  bad : List Nat := []      -- candidates whose stored public key does not parse

def parseNat (s : String) : Option Nat := if s.isEmpty then none else s.toNat?

def parseCsv (s : String) : Option (List Nat) :=
  if s = "_" then some [] else
  (s.splitOn ",").foldr (fun t acc => match acc, parseNat t with
    | some l, some v => some (v :: l)
    | _, _ => none) (some [])

def parseLL (sep : String) (s : String) : Option (List (List Nat)) :=
  if s = "-" then some [] else
  (s.splitOn sep).foldr (fun t acc => match acc, parseCsv t with
    | some l, some v => some (v :: l)
    | _, _ => none) (some [])

def showL (l : List Nat) : String := if l.isEmpty then "_" else ",".intercalate (l.map toString)
def showLL (ll : List (List Nat)) : String := if ll.isEmpty then "-" else "|".intercalate (ll.map showL)

def showErr {α : Type} : Res α → String
  | .ok _ => "ok"
  | .panic => "panic"
  | .badInput => "bad-input"
  | .fuel => "fuel"

def idealEnc (c : Nat) (k : Nat) : Nat × Nat := (c, k)
def idealDec (c : Nat) (e : Nat × Nat) : Option Nat := if e.1 = c then some e.2 else none

def step (s : St) (line : String) : St × String :=
  match splitSp line with
  | ["new", q, fl] =>
    match parseNat q, (if fl = "-" then some [] else parseCsv fl) with
    | some q, some fl =>
      ({ q := q, fl := fl }, s!"ok n={fl.length} authors={(authorsIndexes fl).length} flips={fl.sum}")
    | _, _ => (s, "bad-op")
  | ["badkeys", l] =>
    match (if l = "-" then some [] else parseCsv l) with
    | some l => ({ s with bad := l }, "ok")
    | none => (s, "bad-op")
  | ["pkg", a] =>
    match s.apc, parseNat a with
    | some apc, some a =>
      let r : Result := ⟨apc, s.cpa, [], []⟩
      let pkg := keyPackage idealEnc (fun c => s.bad.contains c) r a 77
      (s, if pkg.isEmpty then "_" else ",".intercalate (pkg.map fun e => match e with | some e => toString e.1 | none => "x"))
    | _, _ => (s, "bad-op")
  | ["authors", p1, p2] =>
    match parseLL ";" p1, parseLL ";" p2 with
    | some p1, some p2 =>
      match authorsDistribution s.fl s.q p1 p2 with
      | .ok (apc, cpa) => ({ s with apc := some apc, cpa := cpa, short := none }, s!"apc {showLL apc} cpa {showLL cpa}")
      | e => ({ s with apc := none, short := none }, showErr e)
    | _, _ => (s, "bad-op")
  | ["flips", p3] =>
    match s.apc, (if p3 = "-" then some [] else parseCsv p3) with
    | some apc, some p3 =>
      match flipsDistribution s.fl apc s.q p3 with
      | .ok (short, long) => ({ s with short := some short, long := long }, s!"short {showLL short} long {showLL long}")
      | e => ({ s with short := none }, showErr e)
    | _, _ => (s, "bad-op")
  | ["solve"] =>
    match s.short with
    | some short =>
      let cs := List.range s.fl.length
      (s, s!"ts {showLL (cs.map (flipsToSolve s.fl short))} tl {showLL (cs.map (flipsToSolve s.fl s.long))}")
    | none => (s, "bad-op")
  | ["rcp", a] =>
    match s.apc, parseNat a with
    | some apc, some a =>
      let r : Result := ⟨apc, s.cpa, [], []⟩
      (s, if recipients r a = [] then "err" else showL (recipients r a))
    | _, _ => (s, "bad-op")
  | ["key", c, a] =>
    match s.apc, parseNat c, parseNat a with
    | some apc, some c, some a =>
      let r : Result := ⟨apc, s.cpa, [], []⟩
      let idx := match packageIndex r c a with | some i => toString i | none => "-1"
      let got := obtainKey idealEnc idealDec (fun c => s.bad.contains c) r c a 77
      (s, s!"idx={idx} " ++ (if got = some 77 then "ok" else "no"))
    | _, _, _ => (s, "bad-op")
  | _ => (s, "bad-op")

end IdenaModel.Drv.C16

def main : IO Unit := IdenaModel.Drv.runDriver ({} : IdenaModel.Drv.C16.St) IdenaModel.Drv.C16.step
