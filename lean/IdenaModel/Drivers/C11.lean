import IdenaModel.Model.SyncArtifacts
import IdenaModel.Drivers.Util
/-! Driver for channel C11 (repaired variant of the model: `fixed = true`).

Identity diffs (the root function is the identity on operation logs: two roots agree iff the histories agree):
`new chain <base> <contents>` | `blk <h> <dirty objects, any order>` ⇒ `diff <Precommit's diff> stored <stored diff>` |
`reset <k>` | `fsync <h> <served diff>` ⇒ `stored <stored diff>` (fast sync's applier) | `served <h>` ⇒ stored diff | `replay` ⇒ `ok <head> <contents>` / `mismatch <h>` (fast sync's replay of
everything served from genesis) | `hostile <h> <diff>` ⇒ `addDiff=<panic|differ|same> verdict=<rej|acc|any>`.

Snapshots (the node hash is the symbolic term of what IAVL hashes):
`new snap <height>` | `o <node>`* `oend` (the clean archive's decoded nodes: re-imported, re-exported, re-chunked) |
a corrupted archive's decoded nodes: `csame` | `cdelta <i> <node>` | `c <node>`* `cend full|decodeerr` | `copenerr`
⇒ `ok-same` / `ok-forged` / `err` / `panic`.  `switchwrites` ⇒ number of atomic write groups of the switch.  `<node>` = `<key> <height> <version> <value> <emptyValue>`. -/
namespace IdenaModel.Drv.C11
open IdenaModel.Sync IdenaModel.Drv

/-- symbolic node hash: exactly the fields `writeHashBytes` covers -/
inductive HTerm where
  | leaf (k v : Bytes) (ver : Int)
  | inner (h : Int) (size : Nat) (ver : Int) (l r : HTerm)
  | empty
  deriving DecidableEq

def HT : HashFns HTerm := { leafH := .leaf, innerH := .inner, emptyH := .empty }

abbrev Log := List TOp
def R : Log → Log := id

structure St where
  node : Node Log
  snapHeight : Nat
  orig : Array WNode
  t0 : Option MTree
  root0 : HTerm
  cur : Array WNode

def init : St :=
  { node := Node.init 0 ⟨0, []⟩, snapHeight := 0, orig := #[], t0 := none, root0 := .empty, cur := #[] }

/-! ### tokens -/

def bytesToNat (bs : List Nat) : Nat := bs.foldl (fun a b => a * 256 + b) 0

def natToBytesAux : Nat → Nat → List Nat → List Nat
  | 0, _, acc => acc
  | fuel + 1, n, acc => natToBytesAux fuel (n / 256) (n % 256 :: acc)

/-- addresses: 20 bytes, big-endian (order preserving) -/
def addrTok (a : Nat) : String := String.ofList ((bytesToHex (natToBytesAux 20 a [])).toList.drop 1)

def parseAddr (s : String) : Option Nat :=
  if s.length ≠ 40 then none else (parseHex ("x" ++ s)).map bytesToNat

def diffTok (d : Diff) : String :=
  if d = [] then "none" else
  ",".intercalate (d.map fun v => addrTok v.addr ++ (if v.deleted then ":D" else ":" ++ bytesToHex v.value))

def contentsTok (m : KV) : String :=
  if m = [] then "-" else ",".intercalate (m.map fun p => addrTok p.1 ++ "=" ++ bytesToHex p.2)

def parseList {α : Type} (s : String) (f : String → Option α) : Option (List α) :=
  if s = "-" then some [] else
  (s.splitOn ",").foldr (fun item acc => match acc, f item with
    | some l, some a => some (a :: l)
    | _, _ => none) (some [])

def parseBit (s : String) : Option Bool := if s = "1" then some true else if s = "0" then some false else none

def parseDObj (s : String) : Option DObj :=
  match s.splitOn ":" with
  | [a, v, o, e] =>
    match parseAddr a, parseBit v, parseBit o, parseHex e with
    | some a, some v, some o, some e => some ⟨a, v, o, e⟩
    | _, _, _, _ => none
  | _ => none

def parseDVal (s : String) : Option DVal :=
  match s.splitOn ":" with
  | [a, v] =>
    match parseAddr a with
    | some a => if v = "D" then some ⟨a, true, []⟩ else (parseHex v).map fun b => ⟨a, false, b⟩
    | none => none
  | _ => none

def parseKV (s : String) : Option (Nat × Bytes) :=
  match s.splitOn "=" with
  | [a, v] => match parseAddr a, parseHex v with
    | some a, some v => some (a, v)
    | _, _ => none
  | _ => none

def parseOptBytes (s : String) : Option (Option Bytes) :=
  if s = "-" then some none else (parseHex s).map some

def parseNode : List String → Option WNode
  | [k, h, ver, v, e] =>
    match parseOptBytes k, h.toNat?, ver.toNat?, parseOptBytes v, parseBit e with
    | some k, some h, some ver, some v, some e => some ⟨k, h, v, ver, e⟩
    | _, _, _, _, _ => none
  | _ => none

/-! ### identity diffs -/

/-- first height fast sync refuses, or the replayed tree -/
def replayFrom : ITree → Nat → List (Diff × Log) → Except Nat ITree
  | t, _, [] => .ok t
  | t, h, (d, r) :: rest =>
    match validateIdentityState true R t (h + 1) d r with
    | .acc t' => replayFrom t' (h + 1) rest
    | _ => .error (h + 1)

def hostile (n : Node Log) (h : Nat) (d : Diff) : String :=
  match n.recAt h with
  | none => "bad-op"
  | some rec =>
    let prev := n.treeAt (h - 1)
    let cls := match addDiff prev h d with
      | none => "panic"
      | some t => if t.contents = rec.tree.contents then "same" else "differ"
    let verdict := match validateIdentityState true R prev h d rec.idRoot with
      | .acc _ => "acc"
      | .rej => "rej"
      | .panic => "panic"
    s!"addDiff={cls} verdict={if cls = "same" then "any" else verdict}"

/-! ### snapshots -/

def classify (st : St) (ws : List WNode) (decodeErr : Bool) : String :=
  match importSnap true HT st.snapHeight st.root0 ws decodeErr with
  | .ok t => if t = st.t0 then "ok-same" else "ok-forged"
  | .err => "err"
  | .panic _ => "panic"

def countLeaves : Option MTree → Nat × Nat
  | none => (0, 0)
  | some t => (t.leaves.length, (t.leaves.filter (fun p => p.2 = [])).length)

def step (st : St) (line : String) : St × String :=
  match splitSp line with
  | ["new", "chain", base, contents] =>
    match base.toNat?, parseList contents parseKV with
    | some b, some kvs =>
      let g : ITree := ⟨b, kvs.map fun p => TOp.set b p.1 p.2⟩
      ({ init with node := Node.init b g }, "ok")
    | _, _ => (st, "bad-op")
  | ["blk", h, dirty] =>
    match h.toNat?, parseList dirty parseDObj with
    | some h, some objs =>
      if h ≠ st.node.head + 1 then (st, "bad-op") else
      let n' := st.node.step R true (.add objs)
      if n'.head ≠ h then ({ st with node := n' }, "refused") else
      let d := match n'.recAt h with | some r => r.diff | none => []
      ({ st with node := n' }, s!"diff {diffTok d} stored {diffTok (n'.stored h)}")
    | _, _ => (st, "bad-op")
  | ["fsync", h, d] =>
    -- a canonical block arriving through fast sync's applier; its header root is the canonical one (= the root of the
    -- replayed history when the served diff is the block's own)
    match h.toNat?, parseList d parseDVal with
    | some h, some d =>
      if h ≠ st.node.head + 1 then (st, "bad-op") else
      match addDiff (st.node.treeAt st.node.head) h d with
      | none => (st, "panic")
      | some t' =>
        let n' := st.node.step R true (.sync d t'.log)
        ({ st with node := n' }, s!"stored {diffTok (n'.stored h)}")
    | _, _ => (st, "bad-op")
  | ["reset", k] =>
    match k.toNat? with
    | some k => if st.node.base ≤ k ∧ k ≤ st.node.head then ({ st with node := st.node.step R true (.reset k) }, "ok") else (st, "bad-op")
    | none => (st, "bad-op")
  | ["served", h] =>
    match h.toNat? with
    | some h => (st, diffTok (st.node.stored h))
    | none => (st, "bad-op")
  | ["replay"] =>
    match replayFrom st.node.genesis st.node.base st.node.served with
    | .ok t => (st, s!"ok {st.node.head} {contentsTok t.contents}")
    | .error h => (st, s!"mismatch {h}")
  | ["hostile", h, d] =>
    match h.toNat?, parseList d parseDVal with
    | some h, some d => (st, hostile st.node h d)
    | _, _ => (st, "bad-op")
  | ["new", "snap", h] =>
    match h.toNat? with
    | some h => ({ st with snapHeight := h, orig := #[], cur := #[], t0 := none, root0 := .empty }, "ok")
    | none => (st, "bad-op")
  | "o" :: rest =>
    match parseNode rest with
    | some w => ({ st with orig := st.orig.push w }, "ok")
    | none => (st, "bad-op")
  | ["oend"] =>
    let ws := st.orig.toList
    match importNodes true (st.snapHeight : Int) [] 0 (ws.map fromWire) with
    | .tree t =>
      let (lv, em) := countLeaves t
      let re := (exportOpt t).map toWire
      let sizes := "/".intercalate ((chunks snapshotBlockSize re).map fun c => toString c.length)
      ({ st with t0 := t, root0 := rootOf HT t },
        s!"ok nodes={re.length} leaves={lv} empty={em} chunks={sizes} reexport={if re = ws ∧ (exportSnap t).flatten = ws then "same" else "differs"}")
    | _ => (st, "import-failed")
  | "c" :: rest =>
    match parseNode rest with
    | some w => ({ st with cur := st.cur.push w }, "ok")
    | none => (st, "bad-op")
  | ["cend", flag] =>
    if flag ≠ "full" ∧ flag ≠ "decodeerr" then (st, "bad-op") else
    ({ st with cur := #[] }, classify st st.cur.toList (flag = "decodeerr"))
  | ["csame"] => (st, classify st st.orig.toList false)
  | "cdelta" :: i :: rest =>
    match i.toNat?, parseNode rest with
    | some i, some w => if i < st.orig.size then (st, classify st (st.orig.set! i w).toList false) else (st, "bad-op")
    | _, _ => (st, "bad-op")
  | ["copenerr"] => (st, "err")
  | ["prelimprefix", live, head] =>    -- prefix heights: live identity db, node head ⇒ prefix of the preliminary copy
    match live.toNat?, head.toNat? with
    | some l, some h => (st, s!"prefix {prelimPrefixHeight h} {if prelimPrefixHeight h = l then "same" else "distinct"}")
    | _, _ => (st, "bad-op")
  | ["switchwrites"] => (st, toString switchWriteGroups)   -- database write events of the real AtomicSwitchToPreliminary
  | _ => (st, "bad-op")

end IdenaModel.Drv.C11

def main : IO Unit := IdenaModel.Drv.runDriver IdenaModel.Drv.C11.init IdenaModel.Drv.C11.step
