import IdenaModel.Model.Messages
import IdenaModel.Drivers.Util
/-! Driver for channel C12: the harness describes every modelled case abstractly (which members are absent, heights,
rounds, lengths, by-construction facts about signatures); the model predicts the outcome class and the observable
effect on the peer record.

Lines (answers after `→`):
  `new <section> …`                                  → `ok`   (`new fork <state> <head> <own P/E/? per height from 1>` sets the own chain)
  `cap <n|-> <gate 0/1>`                             → `ok` | `no-cap`      (decoded-length cap found in protocol.Decode)
  `site <fn> <field> <kind field|call|star> <distinct unguarded access paths> <expected> <class>`
                                                     → `ok` | `unclassified` | `count-changed` | `not-modelled`
  `census-end <rows>`                                → `ok` | `stale-model:<fn>|<field>` (a modelled site no longer exists)
  `holders <t,…>`                                    → `ok` | `incomplete`
  `frame <cap> <len> x<first ≤16 bytes> <bodyOk>`    → `rej big=0` | `ok <n> big=<0|1>` | `rej big=<0|1>`
  `msg <kind> …`                                     → `<ok|decode|invalid|panic> k=… p=… m=… s=…`
  `msg-undecodable`                                  → `decode k=- p=- m=- s=-`
  `vb <gated|raw> <hdr>/<body> <preBody>`            → `gate-rej` | `verdict` … | `panic`   (impl `verdict acc|rej` is cut to `verdict`)
  `fork <h:E|P,…> <seedBetter>`                      → `cfs=<ok|err|panic> pb=<rejected|subchain|panic>`
-/
namespace IdenaModel.Drv.C12
open IdenaModel.Msg IdenaModel.Drv

structure DSt where
  holders : List Nat := []
  own : Own := { head := 0, blockAt := fun _ => none, headerKnown := fun _ => false }
  seen : List (String × String) := []

def parseNat? (s : String) : Option Nat := s.toNat?

def parseBool? (s : String) : Option Bool := if s = "1" then some true else if s = "0" then some false else none

def allSome {α : Type} : List (Option α) → Option (List α)
  | [] => some []
  | none :: _ => none
  | some a :: t => (allSome t).map (a :: ·)

def splitList (s : String) : List String := if s = "_" then [] else s.splitOn ","

/-- `n` | `e<h|->p<h|->` -/
def parseHdr (s : String) : Option (Option Header) :=
  if s = "n" then some none else
  match s.toList with
  | 'e' :: rest =>
    let str := String.ofList rest
    match str.splitOn "p" with
    | [e, p] =>
      let eo : Option (Option EHdr) := if e = "-" then some none else (parseNat? e).map fun h => some ⟨h⟩
      let po : Option (Option PHdr) := if p = "-" then some none else (parseNat? p).map fun h => some ⟨h⟩
      match eo, po with
      | some e', some p' => some (some { empty := e', proposed := p' })
      | _, _ => none
    | _ => none
  | _ => none

/-- `<hdr>/<body n|count>` -/
def parseBlock (s : String) : Option Block :=
  match s.splitOn "/" with
  | [h, b] =>
    let bo : Option (Option Nat) := if b = "n" then some none else (parseNat? b).map some
    match parseHdr h, bo with
    | some h', some b' => some { header := h', body := b' }
    | _, _ => none
  | _ => none

def showOpt (o : Option Nat) : String :=
  match o with
  | none => "-"
  | some 0 => "-"
  | some n => toString n

def showM (o : Option Nat) : String :=
  match o with
  | none => "-"
  | some n => toString n

def showOutcome : Outcome → String
  | .decodeErr => "decode k=- p=- m=- s=-"
  | .invalid => "invalid k=- p=- m=- s=-"
  | .panic => "panic"
  | .ok o => s!"ok k={showOpt o.known} p={showOpt o.potential} m={showM o.manifest} s={showOpt o.shard}"

def parseMsg (ws : List String) : Option (Bool × Bool × Msg) :=   -- (processed, batchKnown, msg)
  match ws with
  | ["blocksRange", bk, items] =>
    match parseBool? bk, allSome ((splitList items).map parseHdr) with
    | some b, some hs => some (false, b, .blocksRange (hs.map fun h => ⟨h⟩))
    | _, _ => none
  | ["proposeProof", pr, round] =>
    match parseBool? pr, parseNat? round with
    | some p, some r => some (p, false, .proposeProof r)
    | _, _ => none
  | ["proposeBlock", pr, blk, sl, rec, mt] =>
    let bo : Option (Option Block) := if blk = "n" then some none else (parseBlock blk).map some
    match parseBool? pr, bo, parseNat? sl, parseBool? rec, parseBool? mt with
    | some p, some b, some s, some r, some m =>
      some (p, false, .proposeBlock { block := b, sigLen := s, sigRecovers := r, keyMatches := m })
    | _, _, _, _, _ => none
  | ["vote", pr, round] =>
    let ro : Option (Option Nat) := if round = "n" then some none else (parseNat? round).map some
    match parseBool? pr, ro with
    | some p, some r => some (p, false, .vote ⟨r⟩)
    | _, _ => none
  | ["newTx", pr] => (parseBool? pr).map fun p => (p, false, .newTx)
  | ["getBlockByHash"] => some (false, false, .getBlockByHash)
  | ["getBlocksRange"] => some (false, false, .getBlocksRange)
  | ["getForkBlockRange"] => some (false, false, .getForkBlockRange)
  | ["flipBody", pr, has] =>
    match parseBool? pr, parseBool? has with
    | some p, some h => some (p, false, .flipBody ⟨h⟩)
    | _, _ => none
  | ["flipKey", pr] => (parseBool? pr).map fun p => (p, false, .flipKey)
  | ["batchFlipKey", items] => (allSome ((splitList items).map parseBool?)).map fun l => (false, false, .batchFlipKey l)
  | ["snapshotManifest", h] => (parseNat? h).map fun n => (false, false, .snapshotManifest n)
  | ["flipKeysPackage", pr] => (parseBool? pr).map fun p => (p, false, .flipKeysPackage)
  | ["push", t] => (parseNat? t).map fun n => (false, false, .push n)
  | ["pull", t] => (parseNat? t).map fun n => (false, false, .pull n)
  | ["batchPush", items] =>
    (allSome ((splitList items).map fun s => if s = "u" then some none else (parseNat? s).map some)).map
      fun l => (false, false, .batchPush l)
  | ["block", pr, blk] =>
    match parseBool? pr, parseBlock blk with
    | some p, some b => some (p, false, .block b)
    | _, _ => none
  | ["updateShardId", s] => (parseNat? s).map fun n => (false, false, .updateShardId n)
  | ["disconnect"] => some (false, false, .disconnect)
  | ["other"] => some (false, false, .other)
  | _ => none

def big (n : Nat) : String := if n ≥ 1048576 then "1" else "0"

def frameAnswer (cap : Option Nat) (bytes : List Nat) (total : Nat) (bodyOk : Bool) : String :=
  -- the line carries only the first bytes; the model needs byte 0, the uvarint header and the total length
  match decodeFrame cap bytes with
  | ⟨.reject, _⟩ => "rej big=0"
  | ⟨.plain _, _⟩ => s!"ok {total - 1} big=0"
  | ⟨.s2 n, a⟩ => if bodyOk then s!"ok {n} big={big a}" else s!"rej big={big a}"

def verdictStr : Verdict → String
  | .accept => "verdict"
  | .reject => "verdict"
  | .panic => "panic"

def parseForkBlock (s : String) : Option ForkBlock :=
  match s.splitOn ":" with
  | [h, e] =>
    match parseNat? h with
    | some n => if e = "E" then some ⟨n, true⟩ else if e = "P" then some ⟨n, false⟩ else none
    | none => none
  | _ => none

def ownOf (head : Nat) (desc : String) : Own :=
  let cs := if desc = "_" then [] else desc.toList
  { head := head,
    blockAt := fun h => if h = 0 then none else
      match cs[h - 1]? with
      | some 'P' => some false
      | some 'E' => some true
      | _ => none,
    headerKnown := fun h => decide (1 ≤ h ∧ h ≤ head) }

def forkAnswer (own : Own) (blocks : List ForkBlock) (sb : Bool) : String :=
  let cfs := match sortBlocks blocks with
    | [] => "err"
    | l => match checkForkSize own l sb with
      | .okBigger | .okBetter => "ok"
      | .panic => "panic"
      | _ => "err"
  let pb := match processBlocks own blocks sb with
    | .panic => "panic"
    | _ => "rejected"   -- forged and echoed sub-chains never validate block by block (the harness builds no valid fork)
  s!"cfs={cfs} pb={pb}"

def step (st : DSt) (line : String) : DSt × String :=
  match splitSp line with
  | ["new", "fork", _, head, own] =>
    match parseNat? head with
    | some h => ({ st with own := ownOf h own }, "ok")
    | none => (st, "bad-op")
  | "new" :: _ => (st, "ok")
  | ["cap", c, g] =>
    if c = "-" ∨ g ≠ "1" then (st, "no-cap") else
    match parseNat? c with | some _ => (st, "ok") | none => (st, "bad-op")
  | ["site", fn, field, _kind, cnt, want, cls] =>
    match parseNat? cnt, parseNat? want with
    | some c, some w =>
      if cls = "unclassified" then (st, "unclassified")
      else if !siteClassified fn field cls then (st, "not-modelled")
      else if c > w then (st, "count-changed")   -- fewer unguarded dereferences than pinned is never a regression
      else ({ st with seen := (fn, field) :: st.seen }, "ok")
    | _, _ => (st, "bad-op")
  | ["census-end", _] =>
    match modelledSites.find? (fun s => !st.seen.contains s) with
    | none => ({ st with seen := [] }, "ok")
    | some (f, d) => (st, s!"stale-model:{f}|{d}")
  | ["holders", hs] =>
    match allSome ((splitList hs).map parseNat?) with
    | some l =>
      let st' := { st with holders := l }
      if [1, 2, 3, 4, 5, 6].all (fun t => l.contains t) then (st', "ok") else (st', "incomplete")
    | none => (st, "bad-op")
  | ["frame", cap, len, pre, ok] =>
    let capO : Option (Option Nat) := if cap = "-" then some none else (parseNat? cap).map some
    match capO, parseNat? len, parseHex pre, parseBool? ok with
    | some c, some n, some bs, some b => (st, frameAnswer c bs n b)
    | _, _, _, _ => (st, "bad-op")
  | "msg" :: ws =>
    match parseMsg ws with
    | some (p, bk, m) => (st, showOutcome (handle { processed := p, batchKnown := bk, holders := st.holders } m))
    | none => (st, "bad-op")
  | ["msg-undecodable"] => (st, showOutcome .decodeErr)
  | ["vb", entry, blk, pre] =>
    match parseBlock blk, parseBool? pre with
    | some b, some p =>
      let s : Sem := { emptyHashEq := false, preBody := p, rest := false }
      if entry = "gated" then
        (st, if b.isValid then verdictStr (validateBlock b s) else "gate-rej")
      else if entry = "raw" then (st, verdictStr (validateBlock b s))
      else (st, "bad-op")
    | _, _ => (st, "bad-op")
  | ["fork", blocks, sb] =>
    match allSome ((splitList blocks).map parseForkBlock), parseBool? sb with
    | some l, some b => (st, forkAnswer st.own l b)
    | _, _ => (st, "bad-op")
  | _ => (st, "bad-op")

end IdenaModel.Drv.C12

def main : IO Unit := IdenaModel.Drv.runDriver ({} : IdenaModel.Drv.C12.DSt) IdenaModel.Drv.C12.step
