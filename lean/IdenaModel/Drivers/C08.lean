import IdenaModel.Model.Fork
import IdenaModel.Drivers.Util
/-! Driver for channel C08 (fork adoption).
ops: `new base` | `own id height parent empty seed txs` (the node's canonical chain, genesis first) |
`fb id height parent empty idupd valid seed cert txs` (one bundle of the peer answer, in arrival order;
cert ∈ n|e|ok|bad) | `adv id height parent empty seed txs` (own block added after `process`) | `sort` | `cfs` | `vsc` | `process` | `apply` | `head` | `canon h` | `cert id` (the raw certificate record) | `txidx t` |
`serve storeCertRange askedIds` (ReadBlockForForkedPeer) | `reverted`.
The abstract application state is the list of applied block ids; a block body is valid iff the harness marked it
as an untampered block of its branch; a non-empty certificate is acceptable iff its class is `ok`. -/
namespace IdenaModel.Drv.C08
open IdenaModel.Fork IdenaModel.Drv

abbrev S := List Nat

structure St where
  node : Option (Node S) := none
  valid : List Nat := []
  invalid : List Nat := []
  fork : List Bundle := []
  applicable : Option (Nat × List Bundle) := none
  reverted : List Nat := []

def env (st : St) : Env S :=
  { validBody := fun _ s b => if st.valid.contains b.hash && !st.invalid.contains b.hash then some (s ++ [b.hash]) else none,
    certOk := fun _ _ _ c => c.tag == 1 }

def parseTxs (s : String) : Option (List Nat) :=
  if s = "-" then some [] else (s.splitOn ",").mapM String.toNat?

def parseBool (s : String) : Option Bool :=
  if s = "1" then some true else if s = "0" then some false else none

def parseCert (s : String) : Option (Option Cert) :=
  if s = "n" then some none
  else if s = "e" then some (some ⟨[], 0⟩)
  else if s = "ok" then some (some ⟨[1], 1⟩)
  else if s = "bad" then some (some ⟨[1], 0⟩)
  else none

def showV : Verdict → String
  | .ok => "ok"
  | .err => "err"
  | .panic => "panic"

def showIds (l : List Nat) : String :=
  if l.isEmpty then "-" else ",".intercalate (l.map toString)

/-- what the certificate index holds: `-` no record, `e` a record without signatures, `c` a certificate -/
def certClass : Option Cert → String
  | none => "-"
  | some c => if c.sigs.isEmpty then "e" else "c"

def step (st : St) (line : String) : St × String :=
  match splitSp line with
  | ["new", _] => ({}, "ok")
  | ["own", id, h, p, e, sd, txs] =>
    match id.toNat?, h.toNat?, p.toNat?, parseBool e, sd.toNat?, parseTxs txs with
    | some id, some h, some p, some e, some sd, some txs =>
      let b : Block := ⟨id, h, p, e, false, sd, txs⟩
      let st := { st with valid := id :: st.valid }
      match st.node with
      | none => ({ st with node := some (genesisNode b []) }, "ok")
      | some n =>
        match addBlock (env st) n b with
        | some n' => ({ st with node := some n' }, "ok")
        | none => (st, "bad-op")
    | _, _, _, _, _, _ => (st, "bad-op")
  | ["adv", id, h, p, e, sd, txs] =>
    -- an own block the node adds between fork validation and ApplyFork
    match id.toNat?, h.toNat?, p.toNat?, parseBool e, sd.toNat?, parseTxs txs, st.node with
    | some id, some h, some p, some e, some sd, some txs, some n =>
      let st := { st with valid := id :: st.valid }
      match addBlock (env st) n ⟨id, h, p, e, false, sd, txs⟩ with
      | some n' => ({ st with node := some n' }, "ok")
      | none => (st, "bad-op")
    | _, _, _, _, _, _, _ => (st, "bad-op")
  | ["fb", id, h, p, e, iu, v, sd, c, txs] =>
    match id.toNat?, h.toNat?, p.toNat?, parseBool e, parseBool iu, parseBool v, sd.toNat?, parseCert c, parseTxs txs with
    | some id, some h, some p, some e, some iu, some v, some sd, some c, some txs =>
      let b : Block := ⟨id, h, p, e, iu, sd, txs⟩
      let st := if v then { st with valid := id :: st.valid } else { st with invalid := id :: st.invalid }
      ({ st with fork := st.fork ++ [⟨b, c⟩] }, "ok")
    | _, _, _, _, _, _, _, _, _ => (st, "bad-op")
  | ["sort"] => (st, " ".intercalate ("ids" :: (sortBlocks st.fork).map (fun b => toString b.block.hash)))
  | ["cfs"] =>
    match st.node with
    | some n => (st, showV (checkForkSize fixed n (sortBlocks st.fork)))
    | none => (st, "bad-op")
  | ["vsc"] =>
    match st.node with
    | some n => (st, showV (validateSubChain (env st) fixed n (commonHeight (sortBlocks st.fork)) (sortBlocks st.fork)))
    | none => (st, "bad-op")
  | ["process"] =>
    match st.node with
    | some n =>
      let r := processBlocks (env st) fixed n st.fork
      ({ st with applicable := r.2 }, s!"{showV r.1} {if r.2.isSome then 1 else 0}")
    | none => (st, "bad-op")
  | ["apply"] =>
    match st.node, st.applicable with
    | some n, some (c, f) =>
      let r := applyFork (env st) fixed n c f
      ({ st with node := some r.1, reverted := r.2.2, applicable := none }, showV r.2.1)
    | _, _ => (st, "bad-op")
  | ["head"] =>
    match st.node with
    | some n => (st, toString n.head.hash)
    | none => (st, "bad-op")
  | ["canon", h] =>
    match st.node, h.toNat? with
    | some n, some h =>
      (st, match ownBlock n h with
        | some b => toString b.hash
        | none => "-")
    | _, _ => (st, "bad-op")
  | ["cert", id] =>
    match st.node, id.toNat? with
    | some n, some id => (st, certClass (n.certs id))
    | _, _ => (st, "bad-op")
  | ["txidx", t] =>
    match st.node, t.toNat? with
    | some n, some t =>
      (st, match getTx n t with
        | .notFound => "-"
        | .found bh i => s!"{bh} {i}"
        | .panic => "panic")
    | _, _ => (st, "bad-op")
  | ["serve", scr, asked] =>
    match st.node, scr.toNat?, parseTxs asked with
    | some n, some scr, some asked =>
      (st, " ".intercalate ("srv" :: (serveFork n scr asked).map (fun b => s!"{b.block.hash}:{certClass b.cert}")))
    | _, _, _ => (st, "bad-op")
  | ["reverted"] => (st, showIds st.reverted)
  | _ => (st, "bad-op")

end IdenaModel.Drv.C08

def main : IO Unit := IdenaModel.Drv.runDriver ({} : IdenaModel.Drv.C08.St) IdenaModel.Drv.C08.step
