import IdenaModel.Model.Cert
import IdenaModel.Drivers.Util
/-! Driver for channel C07: drives the M-Cert model (`Model/Cert.lean`).

Line protocol (addresses decimal, `0` = zero address; hashes `h<k>` interned by the harness, `h0` = zero hash;
`-` = absent / nil / empty list; lists comma separated):

* `new <god> <addr:o:v:d:deleg>*`         registry records in ascending address order → `view n=<|sorted|> on=<|online|> net=<|validated|>`
* `tbl size|thr <final> <cnt>` / `tbl sub <v>` → the number the integer model of the float formula gives
* `com <step> <limit|auto> <perm|->`      → `nil` | `sv o=<..> v=<..> a=<..> size=<..> thr=<..> need=<..>`
* `vc <cache> <step> <certRound> <certHash> <height> <blockHash> <prevHash> <perm|-> <sig>*`
      sig = `rec/off/upg/signer/sround/sstep/sparent/svoted/soff/supg/tamper` → `<verdict> need=<n|nil>`
      (` law-violated` appended when an untampered signature over exactly the rebuilt message does not recover to its signer)
* `add <headHeight> <rec/round/step/parent/voted/off/upg>` → `t` | `f`
* `cv <round> <step> <parent> <perm|-> none|found/<i,j,..>` → `none need=<n|nil>` | `found need=<n> cert=possible|impossible` | `panic`

In the driver a signature is represented by what the REAL recovery yields for it under the message the code
rebuilds (`σ := Option Nat`, `recover s _ := s`). -/
namespace IdenaModel.Drv.C07
open IdenaModel.Cert IdenaModel.Drv

structure St where
  view : View
  store : VoteStore (Option Nat)

def init : St := { view := emptyView 0, store := VoteStore.empty }

def recId : Option Nat → Msg → Option Nat := fun s _ => s

def parseBool (s : String) : Option Bool := if s = "1" then some true else if s = "0" then some false else none

def parseOptNat (s : String) : Option (Option Nat) := if s = "-" then some none else s.toNat?.map some

def parseHash (s : String) : Option Nat :=
  match s.toList with
  | 'h' :: t => (String.ofList t).toNat?
  | _ => none

def parseList (s : String) : Option (List Nat) :=
  if s = "-" then some [] else (s.splitOn ",").mapM (·.toNat?)

def parseIdent (s : String) : Option Ident :=
  match s.splitOn ":" with
  | [a, o, v, d, g] => do
    let a ← a.toNat?; let o ← parseBool o; let v ← parseBool v; let d ← parseBool d; let g ← parseOptNat g
    pure { addr := a, online := o, validated := v, discriminated := d, delegatee := g }
  | _ => none

def isPermOfRange (p : List Nat) (n : Nat) : Bool :=
  p.length == n && p.all (· < n) && p.eraseDups.length == n

/-- perm token for a view: `-` only when the code does not draw (`|sorted| ≤ limit` or nobody online) -/
def parsePerm (v : View) (limit : Nat) (s : String) : Option (List Nat) :=
  if s = "-" then
    if v.online.length = 0 ∨ v.sorted.length ≤ limit then some [] else none
  else do
    let p ← parseList s
    if isPermOfRange p v.sorted.length then some p else none

def sortAsc (l : List Nat) : List Nat := l.foldl (fun s a => ascInsert a s) []

def showList (l : List Nat) : String :=
  if l.isEmpty then "-" else ",".intercalate ((sortAsc l).map toString)

def showVerdict : Verdict → String
  | .ok => "ok" | .invalidVoter => "invalid-voter" | .invalidRound => "invalid-round"
  | .invalidHash => "invalid-hash" | .invalidParent => "invalid-parent" | .notEnough => "not-enough" | .panic => "panic"

structure SigTok where
  cs : CertSig (Option Nat)
  signer : Nat
  signed : Msg
  tamper : Bool

def parseSig (s : String) : Option SigTok :=
  match s.splitOn "/" with
  | [rec, off, upg, signer, sr, ss, sp, sv, so, su, tm] => do
    let rec ← parseOptNat rec; let off ← parseBool off; let upg ← upg.toNat?; let signer ← signer.toNat?
    let sr ← sr.toNat?; let ss ← ss.toNat?; let sp ← parseHash sp; let sv ← parseHash sv
    let so ← parseBool so; let su ← su.toNat?; let tm ← parseBool tm
    pure { cs := { off := off, upg := upg, sig := rec }, signer := signer,
           signed := { round := sr, step := ss, parent := sp, voted := sv, off := so, upg := su }, tamper := tm }
  | _ => none

def parseVote (s : String) : Option (Vote (Option Nat)) :=
  match s.splitOn "/" with
  | [rec, r, st, p, v, off, upg] => do
    let rec ← parseOptNat rec; let r ← r.toNat?; let st ← st.toNat?; let p ← parseHash p; let v ← parseHash v
    let off ← parseBool off; let upg ← upg.toNat?
    pure { round := r, step := st, parent := p, voted := v, off := off, upg := upg, sig := rec }
  | _ => none

def needStr (sv : Option StepValidators) (thr : Nat) : String :=
  match sv with
  | none => "nil"
  | some sv => toString (required sv thr)

/-- necessary conditions on a certificate the real `countVotes` may emit from `store` (any enumeration order):
chosen votes are distinct stored votes for one hash with the counted parent/step, from pairwise distinct approved
voters, exactly `max need 1` of them -/
def certPossible (appr : Nat → Bool) (step parentHash : Nat) (need : Int) (store : List (Vote (Option Nat)))
    (idx : List Nat) : Bool :=
  let vs := idx.filterMap (fun i => store[i]?)
  vs.length == idx.length && idx.eraseDups.length == idx.length &&
  (match vs with
   | [] => false
   | v0 :: _ => vs.all (fun v => v.voted == v0.voted && v.parent == parentHash && v.step == step
                    && appr (voterAddr recId v))) &&
  ((vs.map (voterAddr recId)).eraseDups.length == vs.length) &&
  ((vs.length : Int) == max need 1)

def step (st : St) (line : String) : St × String :=
  let bad := (st, "bad-op")
  match splitSp line with
  | "new" :: god :: ids =>
    match god.toNat?, ids.mapM parseIdent with
    | some g, some l =>
      let v := load g l
      ({ view := v, store := VoteStore.empty },
       s!"view n={v.sorted.length} on={v.online.length} net={v.validated.length}")
    | _, _ => bad
  | ["tbl", "size", f, cnt] =>
    match parseBool f, cnt.toNat? with
    | some f, some c => (st, toString (committeeSize c f))
    | _, _ => bad
  | ["tbl", "thr", f, cnt] =>
    match parseBool f, cnt.toNat? with
    | some f, some c => (st, toString (votesThreshold c f))
    | _, _ => bad
  | ["tbl", "sub", v] =>
    match v.toNat? with
    | some v => (st, toString (subtrahend v))
    | none => bad
  | ["com", stp, lim, perm] =>
    match stp.toNat? with
    | none => bad
    | some stp =>
      let v := st.view
      let final := isFinal stp
      let cnt := v.sorted.length
      let limit? : Option Nat := if lim = "auto" then some (committeeSize cnt final) else lim.toNat?
      match limit? with
      | none => bad
      | some limit =>
        match parsePerm v limit perm with
        | none => bad
        | some p =>
          match getOnlineValidators v p limit with
          | none => (st, "nil")
          | some sv =>
            let thr := votesThreshold cnt final
            (st, s!"sv o={showList sv.original} v={showList sv.validators} a={showList sv.approved} size={committeeSize cnt final} thr={thr} need={required sv thr}")
  | "vc" :: cache :: stp :: cr :: ch :: height :: bh :: ph :: perm :: sigs =>
    match parseBool cache, stp.toNat?, cr.toNat?, parseHash ch, height.toNat?, parseHash bh, parseHash ph,
          sigs.mapM parseSig with
    | some cache, some stp, some cr, some ch, some height, some bh, some ph, some sigs =>
      let v := st.view
      let final := isFinal stp
      let cnt := v.sorted.length
      let limit := committeeSize cnt final
      match parsePerm v limit perm with
      | none => bad
      | some p =>
        let c : BlockCert (Option Nat) := { round := cr, step := stp, voted := ch, sigs := sigs.map (·.cs) }
        let sv := getOnlineValidators v p limit
        let thr := votesThreshold cnt final
        let verdict := validateBlockCert recId cache v p c ph bh height
        -- signature law: an untampered signature over exactly the rebuilt message recovers to its signer
        let lawOk := sigs.all (fun s =>
          s.tamper || decide (certMsg c ph s.cs ≠ s.signed) || s.cs.sig == some s.signer)
        (st, s!"{showVerdict verdict} need={needStr sv thr}" ++ (if lawOk then "" else " law-violated"))
    | _, _, _, _, _, _, _, _ => bad
  | ["add", head, vote] =>
    match head.toNat?, parseVote vote with
    | some head, some vote =>
      let r := addVote recId st.view.online head st.store vote
      ({ st with store := r.1 }, if r.2 then "t" else "f")
    | _, _ => bad
  | ["cv", round, stp, parent, perm, result] =>
    match round.toNat?, stp.toNat?, parseHash parent with
    | some round, some stp, some parent =>
      let v := st.view
      let final := isFinal stp
      let cnt := v.sorted.length
      let limit := committeeSize cnt final
      match parsePerm v limit perm with
      | none => bad
      | some p =>
        let sv := getOnlineValidators v p limit
        let thr := votesThreshold cnt final
        let votes := st.store.votesOf round
        match sv with
        | none => (st, "none need=nil")
        | some svv =>
          let need := required svv thr
          let appr := fun a => svv.approved.contains a
          match countVotes recId id sv thr stp parent [votes] with
          | .none => (st, s!"none need={need}")
          | .panic => (st, "panic")
          | .found _ _ =>
            let claimed : Option (List Nat) :=
              match result.splitOn "/" with
              | ["found", idx] => parseList idx
              | _ => none
            match claimed with
            | none => (st, s!"found need={need} cert=unclaimed")
            | some idx =>
              (st, s!"found need={need} cert=" ++
                (if certPossible appr stp parent need votes idx then "possible" else "impossible"))
    | _, _, _ => bad
  | _ => bad

end IdenaModel.Drv.C07

def main : IO Unit := IdenaModel.Drv.runDriver IdenaModel.Drv.C07.init IdenaModel.Drv.C07.step
