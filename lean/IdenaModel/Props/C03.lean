import IdenaModel.Model.BlockValidate
/-!
# C03 — a block with any inconsistent derived field is rejected, side-effect free

`validate_sound`: acceptance implies every derived field equals what the validator recomputes, the timestamp is in
the window and the proposer is eligible.  `tamper_rejected`: changing exactly one derived field of an accepted block
(with the body, key, time and the other fields untouched) is always rejected — for `seedProof`/`blockSeed` under the
uniqueness of the VRF output, which is what `ProofToHash` being a function gives.  `reject_no_effect`,
`original_still_insertable`: a rejected block leaves the node as it was.  `fields_classified`: every header field is
either derived or a named free choice (the field list is re-extracted from types.go by the harness on every run).
-/
namespace IdenaModel.BlockValidate

theorem fields_classified (f : Field) : f ∈ derived ∨ f ∈ free := by
  cases f <;> simp [derived, free]

theorem derived_free_disjoint (f : Field) : ¬ (f ∈ derived ∧ f ∈ free) := by
  cases f <;> simp [derived, free]

/-- what acceptance means -/
structure Accepted (c : Ctx) (h : Hdr) (body : Nat) : Prop where
  height : h .height = c.prevHeight + 1
  parent : h .parentHash = c.prevHash
  notFuture : h .time ≤ c.now + c.maxFuture
  notEarly : c.prevTime + c.minDelay ≤ h .time
  seed : c.vrf (h .proposerPubKey) (h .seedProof) = some (h .blockSeed)
  fee : h .feePerGas = 0 ∨ h .feePerGas = c.stateFee
  eligible : c.eligible (h .proposerPubKey) = true
  txHash : h .txHash = c.txHashOf body
  cid : h .ipfsHash = c.cidOf body
  exec : c.exec body (h .proposerPubKey) (h .time) (h .offlineAddr) =
    some (h .txBloom, h .flags, h .root, h .identityRoot, h .txReceiptsCid)

@[simp] theorem chk_ok (b : Bool) (f : Option Field) (k : Verdict) : chk b f k = .ok ↔ b = true ∧ k = .ok := by
  unfold chk; cases b <;> simp

theorem validate_ok_iff (c : Ctx) (h : Hdr) (body : Nat) :
    validateBlock c h body = .ok ↔
      (h .height = c.prevHeight + 1 ∧ h .parentHash = c.prevHash ∧ h .time ≤ c.now + c.maxFuture ∧
       c.prevTime + c.minDelay ≤ h .time ∧ c.keyValid (h .proposerPubKey) = true ∧
       c.vrf (h .proposerPubKey) (h .seedProof) = some (h .blockSeed) ∧ c.upgradeOk (h .upgrade) = true ∧
       (h .feePerGas = 0 ∨ h .feePerGas = c.stateFee) ∧ c.eligible (h .proposerPubKey) = true ∧
       c.txHashOf body = h .txHash ∧
       c.exec body (h .proposerPubKey) (h .time) (h .offlineAddr) =
         some (h .txBloom, h .flags, h .root, h .identityRoot, h .txReceiptsCid) ∧
       c.cidOf body = h .ipfsHash) := by
  unfold validateBlock
  cases hex : c.exec body (h .proposerPubKey) (h .time) (h .offlineAddr) with
  | none => simp
  | some r =>
    obtain ⟨bloom, flags, root, iroot, rcid⟩ := r
    simp only [chk_ok, beq_iff_eq, decide_eq_true_eq, Bool.or_eq_true, Option.some.injEq, Prod.mk.injEq]
    constructor
    · rintro ⟨a1, a2, a3, a4, a5, a6, a7, a8, a9, a10, a11, a12, a13, a14, a15, a16⟩
      exact ⟨a1, a2, a3, a4, a5, a6, a7, a8, a9, a10, ⟨a11, a12, a13, a14, by simpa using a16⟩, a15⟩
    · rintro ⟨a1, a2, a3, a4, a5, a6, a7, a8, a9, a10, ⟨a11, a12, a13, a14, a16⟩, a15⟩
      exact ⟨a1, a2, a3, a4, a5, a6, a7, a8, a9, a10, a11, a12, a13, a14, a15, by simpa using a16⟩

theorem validate_sound {c : Ctx} {h : Hdr} {body : Nat} (hv : validateBlock c h body = .ok) :
    Accepted c h body := by
  obtain ⟨a1, a2, a3, a4, _, a6, _, a8, a9, a10, a11, a12⟩ := (validate_ok_iff c h body).mp hv
  exact ⟨a1, a2, a3, a4, a6, a8, a9, a10.symm, a12.symm, a11⟩

theorem validate_complete {c : Ctx} {h : Hdr} {body : Nat} (a : Accepted c h body)
    (hk : c.keyValid (h .proposerPubKey) = true) (hu : c.upgradeOk (h .upgrade) = true) :
    validateBlock c h body = .ok :=
  (validate_ok_iff c h body).mpr
    ⟨a.height, a.parent, a.notFuture, a.notEarly, hk, a.seed, hu, a.fee, a.eligible, a.txHash.symm, a.exec, a.cid.symm⟩

/-- **tampering**: one derived field changed, everything else (incl. the body) untouched ⇒ rejected.
`hfee`: the changed fee rate is still a stated (non-zero) one — an absent rate is a free choice. -/
theorem tamper_rejected {c : Ctx} {h : Hdr} {body : Nat} (hv : validateBlock c h body = .ok)
    (f : Field) (hf : f ∈ derived) (v : Nat) (hne : v ≠ h f) (hfee : f = .feePerGas → v ≠ 0)
    (hfee0 : f = .feePerGas → h .feePerGas ≠ 0)
    (hvrf : f = .seedProof → ∀ k p q o, c.vrf k p = some o → c.vrf k q = some o → p = q) :
    validateBlock c (setField h f v) body ≠ .ok := by
  intro hv'
  have a := validate_sound hv
  have a' := validate_sound hv'
  cases f <;> simp [derived] at hf
  · have := a'.parent; simp [setField] at this; have := a.parent; omega
  · have := a'.height; simp [setField] at this; have := a.height; omega
  · have := a'.txHash; simp [setField] at this; have := a.txHash; omega
  · have h1 := a'.exec; have h2 := a.exec
    simp [setField] at h1; rw [h2] at h1; simp at h1; omega
  · have h1 := a'.exec; have h2 := a.exec
    simp [setField] at h1; rw [h2] at h1; simp at h1; omega
  · have h1 := a'.exec; have h2 := a.exec
    simp [setField] at h1; rw [h2] at h1; simp at h1; omega
  · have := a'.cid; simp [setField] at this; have := a.cid; omega
  · have h1 := a'.exec; have h2 := a.exec
    simp [setField] at h1; rw [h2] at h1; simp at h1; omega
  · have h1 := a'.seed; have h2 := a.seed
    simp [setField] at h1; rw [h2] at h1; simp at h1; omega
  · have h1 := a'.fee; have h2 := a.fee
    simp [setField] at h1
    have := hfee rfl; have := hfee0 rfl
    omega
  · have h1 := a'.seed; have h2 := a.seed
    simp [setField] at h1
    exact hne (hvrf rfl _ _ _ _ h1 h2)
  · have h1 := a'.exec; have h2 := a.exec
    simp [setField] at h1; rw [h2] at h1; simp at h1; omega

/-- a rejected block leaves the node exactly as it was -/
theorem reject_no_effect (c : Ctx) (n : Node) (h : Hdr) (body : Nat) (commit : Node → Hdr → Nat → Node)
    (hr : (addBlock c n h body commit).1 ≠ .ok) : (addBlock c n h body commit).2 = n := by
  unfold addBlock at *
  split <;> simp_all

/-- … so the honest original is still insertable afterwards, with the same result as without the attempt -/
theorem original_still_insertable (c : Ctx) (n : Node) (h h' : Hdr) (body body' : Nat)
    (commit : Node → Hdr → Nat → Node) (hr : (addBlock c n h' body' commit).1 ≠ .ok) :
    addBlock c (addBlock c n h' body' commit).2 h body commit = addBlock c n h body commit := by
  rw [reject_no_effect c n h' body' commit hr]

/-- a seed proof that does not verify is refused whatever seed the header states — in particular the nil hash that a failed
`ProofToHash` returns next to its error (the pair edit "seed := 0, proof := garbage") -/
theorem unverifiable_proof_rejected (c : Ctx) (h : Hdr) (body : Nat)
    (hp : c.vrf (h .proposerPubKey) (h .seedProof) = none) : validateBlock c h body ≠ .ok := by
  intro hv
  have := (validate_sound hv).seed
  rw [hp] at this
  cases this

/-- **no combination of edits of derived fields survives**: two accepted headers for the same body that agree on the
proposer's free choices (key, time, offline report) agree on every derived field.  `hvrf`: a key has one verifying proof and one
output per seed input (VRF uniqueness); `hfee`: both state a fee rate (an absent one is a free choice). -/
theorem accepted_derived_unique {c : Ctx} {h h' : Hdr} {body : Nat}
    (hv : validateBlock c h body = .ok) (hv' : validateBlock c h' body = .ok)
    (hkey : h .proposerPubKey = h' .proposerPubKey) (htime : h .time = h' .time) (hoff : h .offlineAddr = h' .offlineAddr)
    (hvrf : ∀ k p q o o', c.vrf k p = some o → c.vrf k q = some o' → p = q ∧ o = o')
    (hfee : h .feePerGas ≠ 0 ∧ h' .feePerGas ≠ 0) :
    ∀ f ∈ derived, h f = h' f := by
  have a := validate_sound hv
  have a' := validate_sound hv'
  have hex : (h .txBloom, h .flags, h .root, h .identityRoot, h .txReceiptsCid) =
      (h' .txBloom, h' .flags, h' .root, h' .identityRoot, h' .txReceiptsCid) := by
    have h1 := a.exec; have h2 := a'.exec
    rw [hkey, htime, hoff] at h1; rw [h1] at h2; exact Option.some.inj h2
  simp only [Prod.mk.injEq] at hex
  have hs := hvrf _ _ _ _ _ a.seed (hkey ▸ a'.seed)
  intro f hf
  cases f <;> simp [derived] at hf
  · rw [a.parent, a'.parent]
  · rw [a.height, a'.height]
  · rw [a.txHash, a'.txHash]
  · exact hex.2.2.1
  · exact hex.2.2.2.1
  · exact hex.2.1
  · rw [a.cid, a'.cid]
  · exact hex.1
  · exact hs.2
  · rcases a.fee with h0 | h1
    · exact absurd h0 hfee.1
    · rcases a'.fee with h0' | h1'
      · exact absurd h0' hfee.2
      · rw [h1, h1']
  · exact hs.1
  · exact hex.2.2.2.2

/-- non-vacuity: a context and a header that is accepted -/
def exCtx : Ctx :=
  { prevHash := 7, prevHeight := 4, prevTime := 100, now := 120, minDelay := 10, maxFuture := 120, stateFee := 3,
    eligible := fun k => k == 1, keyValid := fun _ => true, vrf := fun k p => if p = k + 10 then some (k + 20) else none,
    upgradeOk := fun u => u == 0, txHashOf := fun b => b + 1, cidOf := fun b => b + 2,
    exec := fun b _ _ _ => if b = 9 then none else some (b + 3, 0, b + 4, b + 5, b + 6) }

def exHdr : Hdr := fun f => match f with
  | .parentHash => 7 | .height => 5 | .time => 115 | .txHash => 3 | .proposerPubKey => 1 | .root => 6
  | .identityRoot => 7 | .flags => 0 | .ipfsHash => 4 | .offlineAddr => 0 | .txBloom => 5 | .blockSeed => 21
  | .feePerGas => 3 | .upgrade => 0 | .seedProof => 11 | .txReceiptsCid => 8

example : validateBlock exCtx exHdr 2 = .ok := by decide
example : validateBlock exCtx (setField exHdr .root 99) 2 = .err (some .root) := by decide
/-- the pair edit: nil seed together with a proof that does not verify -/
example : validateBlock exCtx (setField (setField exHdr .blockSeed 0) .seedProof 77) 2 = .err (some .blockSeed) := by decide

end IdenaModel.BlockValidate
