import IdenaModel.Proofs.LedgerObs
/-!
# C05 — a transaction can only spend its signer's funds (transaction level, M-Ledger)

`applyTx_others_not_lowered`: for every configuration, state and transaction, if `ValidateTx` (in-block)
accepts the transaction and `applyTxOnState` applies it, then the balance or stake of an address other than
the signer goes down only (1) for the invitee an inviter terminates, (2) for the delegator a pool terminates,
(3) inside a contract transaction — and `contract_tx_only_vm_lowers` says that in case (3) the wrapper around the
VM lowers nobody but the signer: any other address that ends lower has a negative net VM delta.

`tx.sender` is the address recovered from the signature (`types.Sender`); that the signature binds every signed
field is C18's theorem, the recovery function itself is in the trusted base.
-/
namespace IdenaModel.Ledger
open State

/-- net VM delta of an address -/
def deltaAt (l : List (Nat × Int)) (a : Nat) : Int :=
  l.foldl (fun acc d => if d.1 = a then acc + d.2 else acc) 0

theorem foldl_deltaAt (l : List (Nat × Int)) (a : Nat) (z : Int) :
    l.foldl (fun acc d => if d.1 = a then acc + d.2 else acc) z = z + deltaAt l a := by
  unfold deltaAt
  induction l generalizing z with
  | nil => simp
  | cons d t ih =>
    simp only [List.foldl_cons]
    rw [ih, ih (if d.1 = a then 0 + d.2 else 0)]
    split <;> omega

theorem balance_applyDeltas (s : State) (l : List (Nat × Int)) (a : Nat) :
    (s.applyDeltas l).balance a = s.balance a + deltaAt l a := by
  induction l generalizing s with
  | nil => simp [applyDeltas, deltaAt]
  | cons d t ih =>
    have h1 : (s.applyDeltas (d :: t)) = (s.addBal d.1 d.2).applyDeltas t := rfl
    rw [h1, ih]
    have h2 : deltaAt (d :: t) a = (if d.1 = a then 0 + d.2 else 0) + deltaAt t a := by
      unfold deltaAt; simp only [List.foldl_cons]; exact foldl_deltaAt t a _
    rw [h2, balance_addBal]
    by_cases h : d.1 = a
    · have : a = d.1 := h.symm
      simp [h]; omega
    · have : ¬ a = d.1 := fun e => h e.symm
      simp [h, this]

theorem stake_applyDeltas (s : State) (l : List (Nat × Int)) (a : Nat) : (s.applyDeltas l).stake a = s.stake a := by
  simp [State.stake, State.idf]

/-- activation moves `balance − tips`; the funds check makes it non-negative -/
theorem activation_amount_nonneg {c s tx m} (hv : validateTx c s tx .inBlock m = .ok) (ht : tx.type = .activation)
    (hbal : 0 ≤ s.balance tx.sender) :
    0 ≤ s.balance tx.sender - calcCost s.g.headNetSize s.g.feePerGas tx := by
  have hc := validate_common hv
  have hty := hc.typ
  simp [typeClauses, ht] at hty
  obtain ⟨-, -, -, hamt, -⟩ := hty
  have hf : ∀ n, calcFee n s.g.feePerGas tx = 0 := by
    intro n; simp [calcFee, feeRate, ht, TxType.zeroFee]
  have hfunds := hc.funds
  simp only [txCostForValidation, ht, TxType.isContract, calcCost, hf, hamt] at hfunds ⊢
  have := hc.tips
  simp at hfunds
  by_cases h0 : 0 < tx.tips
  · have := hfunds h0; omega
  · omega

/-- the effect of the transaction on funds lowers nobody but the signer, outside the named exceptions -/
theorem fundsEffect_others {c : Cfg} {s : State} {tx : Tx} {m a : Nat}
    (hv : validateTx c s tx .inBlock m = .ok) (hne : a ≠ tx.sender) (hbal : 0 ≤ s.balance tx.sender)
    (hlow : (fundsEffect c s tx).balance a < s.balance a ∨ (fundsEffect c s tx).stake a < s.stake a) :
    (tx.type = .killInvitee ∧ tx.to = some a ∧ (s.ii a).inviter = some tx.sender) ∨
    (tx.type = .killDelegator ∧ tx.to = some a ∧ (s.ii a).effDelegatee = some tx.sender) ∨
    tx.type.isContract = true := by
  by_cases hct : tx.type.isContract = true
  · exact Or.inr (Or.inr hct)
  have hc := validate_common hv
  have hty := hc.typ
  have hamt := hc.amount
  have hact := activation_amount_nonneg hv
  cases ht : tx.type <;> (try (simp [TxType.isContract, ht] at hct; done)) <;> cases hto : tx.to <;>
    simp only [fundsEffect, ht, hto] at hlow ⊢ <;>
    (try (simp [hne] at hlow; done))
  · -- send
    rename_i r; simp [hne] at hlow; split at hlow <;> omega
  · -- activation
    rename_i r
    have := hact ht hbal
    simp [hne] at hlow; split at hlow <;> omega
  · -- invite
    rename_i r; simp [hne] at hlow; split at hlow <;> omega
  · -- killInvitee
    rename_i r
    simp [typeClauses, ht, hto] at hty
    obtain ⟨-, -, -, -, hinv, -⟩ := hty
    left
    split at hlow
    · simp at hlow
      by_cases har : a = r
      · subst har; exact ⟨trivial, rfl, hinv⟩
      · simp [har] at hlow
    · simp at hlow
  · -- killDelegator
    rename_i r
    simp [typeClauses, ht, hto] at hty
    obtain ⟨-, -, -, hdel⟩ := hty
    right; left
    by_cases har : a = r
    · subst har; exact ⟨trivial, rfl, hdel⟩
    · split at hlow <;> simp [hne, har] at hlow
  · -- replenishStake
    rename_i r; simp [hne] at hlow; split at hlow <;> omega

/-- **C05.** Applying a validated transaction lowers the balance or stake of an address other than the signer
only in the protocol's named exceptions. `hbal` (the signer's balance is not negative) holds in every state
satisfying the ledger invariant of C04. -/
theorem applyTx_others_not_lowered {c : Cfg} {s s' : State} {tx : Tx} {m a : Nat} {fee : Int}
    (hv : validateTx c s tx .inBlock m = .ok) (ha : applyTx c s tx = .ok s' fee) (hne : a ≠ tx.sender)
    (hbal : 0 ≤ s.balance tx.sender)
    (hlow : s'.balance a < s.balance a ∨ s'.stake a < s.stake a) :
    (tx.type = .killInvitee ∧ tx.to = some a ∧ (s.ii a).inviter = some tx.sender) ∨
    (tx.type = .killDelegator ∧ tx.to = some a ∧ (s.ii a).effDelegatee = some tx.sender) ∨
    tx.type.isContract = true := by
  obtain ⟨-, -, s1, hk, -, rfl⟩ := applyTx_ok ha
  rw [finish_balance, finish_stake, hk.balance, hk.stake] at hlow
  simp only [hne, if_false] at hlow
  exact fundsEffect_others hv hne hbal hlow

/-- addresses without a relationship to the signer are untouched or credited: both components are `≥` before -/
theorem applyTx_unrelated_not_lowered {c : Cfg} {s s' : State} {tx : Tx} {m a : Nat} {fee : Int}
    (hv : validateTx c s tx .inBlock m = .ok) (ha : applyTx c s tx = .ok s' fee) (hne : a ≠ tx.sender)
    (hbal : 0 ≤ s.balance tx.sender) (hnc : tx.type.isContract = false)
    (hrel : ¬ (tx.to = some a ∧ ((s.ii a).inviter = some tx.sender ∨ (s.ii a).effDelegatee = some tx.sender))) :
    s.balance a ≤ s'.balance a ∧ s.stake a ≤ s'.stake a := by
  by_cases hlow : s'.balance a < s.balance a ∨ s'.stake a < s.stake a
  · rcases applyTx_others_not_lowered hv ha hne hbal hlow with h | h | h
    · exact absurd ⟨h.2.1, Or.inl h.2.2⟩ hrel
    · exact absurd ⟨h.2.1, Or.inr h.2.2⟩ hrel
    · simp [hnc] at h
  · omega

/-- in a contract transaction the wrapper of `applyTxOnState` itself lowers nobody but the signer: whoever else
ends lower was debited by the VM (net negative VM delta), and no stake changes at all -/
theorem contract_tx_only_vm_lowers {c : Cfg} {s s' : State} {tx : Tx} {a : Nat} {fee : Int}
    (ha : applyTx c s tx = .ok s' fee) (hct : tx.type.isContract = true) (hne : a ≠ tx.sender) :
    s'.stake a = s.stake a ∧ (s'.balance a < s.balance a → deltaAt tx.ext.vmDeltas a < 0) := by
  obtain ⟨-, -, s1, hk, -, rfl⟩ := applyTx_ok ha
  rw [finish_balance, finish_stake, hk.balance, hk.stake]
  simp only [hne, if_false]
  have key : ∀ ca, (contractWrapper c s tx ca).stake a = s.stake a ∧
      ((contractWrapper c s tx ca).balance a < s.balance a → deltaAt tx.ext.vmDeltas a < 0) := by
    intro ca
    unfold contractWrapper
    simp only []
    by_cases hamt : tx.amount > 0 <;> cases hs : tx.ext.vmSuccess <;>
      cases hw : (decide (tx.type = .call) || tx.ext.isWasm) <;>
      simp [hamt, hs, hw, balance_applyDeltas, stake_applyDeltas, hne] <;>
      (try (repeat' split)) <;> (try simp [balance_applyDeltas, stake_applyDeltas, hne]) <;>
      (try (repeat' split)) <;> (try omega)
  cases ht : tx.type <;> simp [TxType.isContract, ht] at hct
  · cases hto : tx.to <;> simp only [fundsEffect, ht, hto] <;> exact key _
  · cases hto : tx.to <;> simp only [fundsEffect, ht, hto]
    · simp
    · exact key _
  · cases hto : tx.to <;> simp only [fundsEffect, ht, hto]
    · simp
    · exact key _

theorem typeClauses_no_panic (c : Cfg) (s : State) (tx : Tx) (mode : Mode) :
    firstFail (typeClauses c s tx mode) ≠ .panic := by
  have hderef : tx.type = .activation ∨ tx.type = .replenishStake → firstFail (typeClauses c s tx mode) ≠ .panic := by
    rintro (ht | ht) <;> simp only [typeClauses, ht] <;> cases hto : tx.to
    · simp only [firstFail, Option.isNone_none, if_true]; split <;> simp
    · simp only [firstFail, Option.isNone_some, Bool.false_eq_true, if_false]
      repeat' split
      all_goals simp
    · simp [firstFail]
    · simp only [firstFail, Option.isNone_some, Bool.false_eq_true, if_false]
      repeat' split
      all_goals simp
  cases ht : tx.type <;>
    first
    | exact hderef (Or.inl ht)
    | exact hderef (Or.inr ht)
    | (simp only [typeClauses, ht, ceremonyClauses, List.cons_append, List.nil_append]
       exact firstFail_ne_panic_of_noDeref _ rfl)

/-- **C12 (transaction part).** `ValidateTx` never dereferences a nil recipient: no verdict is a panic
(every `*tx.To` of every per-type validator sits behind its nil check). -/
theorem validateTx_no_panic (c : Cfg) (s : State) (tx : Tx) (mode : Mode) (m : Nat) :
    validateTx c s tx mode m ≠ .panic := by
  intro h
  rcases firstFail_append_panic _ _ h with h | h
  · exact firstFail_ne_panic_of_noDeref _ rfl h
  · exact typeClauses_no_panic c s tx mode h

/-! ### non-vacuity: concrete states in which the hypotheses hold and each exception fires -/
section Examples

def exState : State :=
  { afunds := [(1, { balance := 1000 }), (2, { balance := 50 })],
    ifunds := [(2, { stake := 70, locked := 0, replenished := 70 }), (3, { stake := 40, locked := 10, replenished := 10 })],
    iinfo := [(1, { state := .verified, invitees := [2] }),
              (2, { state := .candidate, inviter := some 1 }),
              (3, { state := .verified, delegatee := some 1 })],
    g := { epoch := 3, godAddress := 9, feePerGas := 10, netSize := 5, headNetSize := 5 } }

def exCfg : Cfg := { u10 := true, u11 := true, u12 := true }

/-- a Send of 100 from 1 to 2 is valid, applies, and credits 2 -/
example : validateTx exCfg exState { type := .send, sender := 1, to := some 2, amount := 100, maxFee := 50, nonce := 1, epoch := 3, gas := 2 } .inBlock 10 = .ok := by decide
example : (applyTx exCfg exState { type := .send, sender := 1, to := some 2, amount := 100, maxFee := 50, nonce := 1, epoch := 3, gas := 2 }).result.map
    (fun p => (p.1.balance 1, p.1.balance 2, p.2)) = some (880, 150, 20) := by decide

/-- exception (1): inviter 1 terminates its invitee 2 (upgrade 12): 2's stake drops from 70 to 0 -/
example : validateTx exCfg exState { type := .killInvitee, sender := 1, to := some 2, maxFee := 50, nonce := 1, epoch := 3, gas := 2 } .inBlock 10 = .ok := by decide
example : (applyTx exCfg exState { type := .killInvitee, sender := 1, to := some 2, maxFee := 50, nonce := 1, epoch := 3, gas := 2 }).result.map
    (fun p => (p.1.stake 2, exState.stake 2, (exState.ii 2).inviter)) = some (0, 70, some 1) := by decide

/-- exception (2): pool 1 terminates its delegator 3: 3's stake drops from 40 to 0, 30 go to the pool, 10 (locked) are burnt -/
example : validateTx exCfg exState { type := .killDelegator, sender := 1, to := some 3, maxFee := 50, nonce := 1, epoch := 3, gas := 2 } .inBlock 10 = .ok := by decide
example : (applyTx exCfg exState { type := .killDelegator, sender := 1, to := some 3, maxFee := 50, nonce := 1, epoch := 3, gas := 2 }).result.map
    (fun p => (p.1.stake 3, p.1.balance 1)) = some (0, 1010) := by decide

/-- a stranger (4) cannot terminate 2 or 3: the relationship checks reject -/
example : validateTx exCfg exState { type := .killInvitee, sender := 4, to := some 2, nonce := 1, epoch := 3 } .inBlock 10 = .err .invalidRecipient := by decide
example : validateTx exCfg exState { type := .killDelegator, sender := 4, to := some 3, nonce := 1, epoch := 3 } .inBlock 10 = .err .invalidSender := by decide

end Examples

end IdenaModel.Ledger

namespace IdenaModel.Ledger
open State

/-- **C12 (transaction part), application side.** A transaction that `ValidateTx` (in-block) accepted never makes
`applyTxOnState` dereference a nil recipient or a nil attachment (`processTxs` has no `recover`). -/
theorem validated_apply_no_panic {c : Cfg} {s : State} {tx : Tx} {m : Nat}
    (hv : validateTx c s tx .inBlock m = .ok) : ∀ h : applyTx c s tx = .panic, False := by
  intro h
  have hty := (validate_common hv).typ
  have he : effect c s tx = none := by
    unfold applyTx at h
    split at h; · simp at h
    split at h; · simp at h
    split at h
    · assumption
    · simp at h
  revert he
  cases ht : tx.type <;> cases hto : tx.to <;>
    simp [typeClauses, ceremonyClauses, ht, hto] at hty <;>
    simp only [effect, ht, hto] <;>
    (try (repeat' split)) <;> simp_all [validationBit]

end IdenaModel.Ledger
