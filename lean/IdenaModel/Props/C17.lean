import IdenaModel.Proofs.Qualification
/-!
# C17 — validation outcomes follow the published rules and depend only on on-chain data

Part A (decision table, all inputs): `missed_or_noflips_not_validated`, `invite_terminated`, `dead_stay_dead`,
`decision_total`, `decision_range`, `promotion_needs_scores`, `birthday_rules`.
Part B (answer store and per-height cache, all histories): `store_is_function_of_chain`, `store_restart_invisible`,
`store_after_reorg`, `cacheHit_eq_recompute`, `eval_pure_when_cache_cleared`, `eval_pure_without_reset`,
`stale_cache_after_reorg` (witness about the code as found).
-/
namespace IdenaModel.Qual

/-! ## Part A -/

/-- **An identity that missed the session or lacked its required flips is never promoted or left validated**:
for every prior status, score outcome, flip count and upgrade flag. -/
theorem missed_or_noflips_not_validated (i : DecIn) (h : i.missed = true ∨ i.doneFlips = false) :
    (determineNewIdentityState i).newbieOrBetter = false := by
  obtain ⟨prev, done, sc, tf, sf, missed, nqs, nql, fix, u10, u12⟩ := i
  cases prev <;> cases done <;> cases missed <;>
    simp_all [determineNewIdentityState, IdState.newbieOrBetter]

/-- **An invitation that was not activated is terminated.** -/
theorem invite_terminated (i : DecIn) (h : i.prev = .invite) : determineNewIdentityState i = .killed := by
  obtain ⟨prev, done, sc, tf, sf, missed, nqs, nql, fix, u10, u12⟩ := i
  simp only at h; subst h
  cases done <;> simp [determineNewIdentityState]

/-- **Terminated or undefined identities never come back through validation**: the new status is again
terminated/undefined; it is the *same* status whenever the flip requirement is met, and always for `Killed`. -/
theorem dead_stay_dead (i : DecIn) (h : i.prev = .killed ∨ i.prev = .undefined) :
    (determineNewIdentityState i = .killed ∨ determineNewIdentityState i = .undefined) ∧
    (i.doneFlips = true → determineNewIdentityState i = i.prev) ∧
    (i.prev = .killed → determineNewIdentityState i = .killed) := by
  obtain ⟨prev, done, sc, tf, sf, missed, nqs, nql, fix, u10, u12⟩ := i
  rcases h with h | h <;> simp only at h <;> subst h <;> cases done <;> simp [determineNewIdentityState]

/-- the literal reading `new = prev` fails in exactly one corner, which is still "not coming back":
an `Undefined` record whose flip requirement is unmet is written as `Killed` (ceremony.go:1499-1505). -/
theorem undefined_without_flips_is_killed (i : DecIn) (h : i.prev = .undefined) (hd : i.doneFlips = false) :
    determineNewIdentityState i = .killed := by
  obtain ⟨prev, done, sc, tf, sf, missed, nqs, nql, fix, u10, u12⟩ := i
  simp only at h hd; subst h; subst hd
  simp [determineNewIdentityState]

/-- the statuses reachable from each prior status -/
def allowed : IdState → List IdState
  | .undefined => [.undefined, .killed]
  | .invite => [.killed]
  | .candidate => [.killed, .candidate, .newbie]
  | .newbie => [.killed, .newbie, .verified]
  | .verified => [.suspended, .killed, .verified, .human]
  | .suspended => [.zombie, .killed, .suspended, .verified, .human]
  | .zombie => [.killed, .zombie, .verified, .human]
  | .human => [.suspended, .verified, .human]
  | .killed => [.killed]
  | .other => [.undefined, .killed]

/-- **The decision is total and closed**: every input (including status codes the chain never writes) yields one of
the nine named statuses. -/
theorem decision_total (i : DecIn) : (determineNewIdentityState i).code.isSome = true := by
  obtain ⟨prev, done, sc, tf, sf, missed, nqs, nql, fix, u10, u12⟩ := i
  cases prev <;> cases done <;> simp only [determineNewIdentityState] <;>
    (repeat' split) <;> simp_all [IdState.code]

/-- every transition the table can make, per prior status -/
theorem decision_range (i : DecIn) : determineNewIdentityState i ∈ allowed i.prev := by
  obtain ⟨prev, done, sc, tf, sf, missed, nqs, nql, fix, u10, u12⟩ := i
  cases prev <;> cases done <;> simp only [determineNewIdentityState, allowed] <;>
    (repeat' split) <;> simp_all

/-- **Promotion follows the published thresholds**: becoming `Human` needs ≥ 24 qualified flips and a total score
≥ 0.92 (unless already `Human`); `Newbie → Verified` needs ≥ 13 flips, total ≥ 0.75, the short-session check and
long ≥ 0.75; `Candidate → Newbie` without the no-qualification exemptions needs the short check and long ≥ 0.75. -/
theorem promotion_needs_scores (i : DecIn) :
    (i.prev ≠ .human → determineNewIdentityState i = .human →
        i.totalFlips ≥ minFlipsForHuman ∧ i.sc.totalGeHuman = true ∧ i.missed = false ∧ i.doneFlips = true) ∧
    (i.prev = .newbie → determineNewIdentityState i = .verified →
        i.totalFlips ≥ minFlipsForVerified ∧ i.sc.totalGeMin = true ∧ shortCheck i.u12 i.shortFlips i.sc = true ∧ i.sc.longGeMin = true) ∧
    (i.prev = .candidate → determineNewIdentityState i = .newbie → i.noQualShort = false → i.nonQualLong = false →
        shortCheck i.u12 i.shortFlips i.sc = true ∧ i.sc.longGeMin = true) := by
  obtain ⟨prev, done, sc, tf, sf, missed, nqs, nql, fix, u10, u12⟩ := i
  refine ⟨?_, ?_, ?_⟩
  · intro hp
    cases prev <;> cases done <;> simp only [determineNewIdentityState] <;>
      (repeat' split) <;> simp_all
  · intro hp; simp only at hp; subst hp
    cases done <;> simp only [determineNewIdentityState] <;> (repeat' split) <;> simp_all
  · intro hp hn h1 h2; simp only at hp h1 h2; subst hp; subst h1; subst h2; revert hn
    cases done <;> simp only [determineNewIdentityState] <;> (repeat' split) <;> simp_all

/-- **Staying validated needs scores too** (unless nothing could be qualified in the short session): a `Human` that
attended stays `Human` only with total ≥ 0.92 and the short check; a `Verified` stays validated only with total ≥ 0.75
(the flags are independent inputs here, hence the disjunction) and the short check. -/
theorem staying_validated_needs_scores (i : DecIn) (hq : i.noQualShort = false) :
    (i.prev = .human → determineNewIdentityState i = .human →
        i.sc.totalGeHuman = true ∧ shortCheck i.u12 i.shortFlips i.sc = true) ∧
    (i.prev = .verified → (determineNewIdentityState i).newbieOrBetter = true →
        (i.sc.totalGeMin = true ∨ i.sc.totalGeHuman = true) ∧ shortCheck i.u12 i.shortFlips i.sc = true) := by
  obtain ⟨prev, done, sc, tf, sf, missed, nqs, nql, fix, u10, u12⟩ := i
  simp only at hq; subst hq
  refine ⟨?_, ?_⟩
  · intro hp; simp only at hp; subst hp
    cases done <;> simp only [determineNewIdentityState] <;> (repeat' split) <;> simp_all
  · intro hp; simp only at hp; subst hp
    cases done <;> simp only [determineNewIdentityState] <;> (repeat' split) <;> simp_all [IdState.newbieOrBetter]

/-- **Meeting the published thresholds is enough** (the converse direction): an identity that did its flips, attended,
passes the short-session check and has long ≥ 0.75 is not terminated — a candidate becomes `Newbie` (or stays
`Candidate` before the fix/upgrade), a `Newbie` stays or becomes `Verified` (given total ≥ 0.75 once it has 13 flips),
a `Verified` with ≥ 13 flips and total ≥ 0.75 stays validated, a `Human` with total ≥ 0.92 stays `Human`, a
`Suspended`/`Zombie` with total ≥ 0.75 is not killed. -/
theorem passing_scores_keep_status (i : DecIn) (hd : i.doneFlips = true) (hm : i.missed = false)
    (hs : shortCheck i.u12 i.shortFlips i.sc = true) (hl : i.sc.longGeMin = true) :
    (i.prev = .candidate → determineNewIdentityState i = .newbie ∨ determineNewIdentityState i = .candidate) ∧
    (i.prev = .newbie → (i.totalFlips < minFlipsForVerified ∨ i.sc.totalGeMin = true) →
        determineNewIdentityState i = .newbie ∨ determineNewIdentityState i = .verified) ∧
    (i.prev = .verified → i.totalFlips ≥ minFlipsForVerified → i.sc.totalGeMin = true →
        (determineNewIdentityState i).newbieOrBetter = true) ∧
    (i.prev = .human → i.sc.totalGeHuman = true → determineNewIdentityState i = .human) ∧
    ((i.prev = .suspended ∨ i.prev = .zombie) → i.sc.totalGeMin = true → determineNewIdentityState i ≠ .killed) := by
  obtain ⟨prev, done, sc, tf, sf, missed, nqs, nql, fix, u10, u12⟩ := i
  simp only at hd hm hs hl; subst hd; subst hm
  refine ⟨?_, ?_, ?_, ?_, ?_⟩
  · intro hp; simp only at hp; subst hp
    simp only [determineNewIdentityState]; (repeat' split) <;> simp_all
  · intro hp; simp only at hp; subst hp
    simp only [determineNewIdentityState]; (repeat' split) <;> simp_all <;> omega
  · intro hp; simp only at hp; subst hp
    simp only [determineNewIdentityState]; (repeat' split) <;> simp_all [IdState.newbieOrBetter]
  · intro hp; simp only at hp; subst hp
    simp only [determineNewIdentityState]; (repeat' split) <;> simp_all
  · intro hp
    rcases hp with hp | hp <;> simp only at hp <;> subst hp <;>
      simp only [determineNewIdentityState] <;> (repeat' split) <;> simp_all

/-- birthdays: a candidate that becomes `Newbie` is born in the current epoch, any other candidate outcome has no
birthday; established identities keep theirs; the rest have none. -/
theorem birthday_rules (epoch : Nat) (prev : IdState) (b : Nat) (new : IdState) :
    (prev = .candidate → determineIdentityBirthday epoch prev b new = if new = .newbie then epoch else 0) ∧
    (prev ∈ [IdState.newbie, .verified, .human, .suspended, .zombie] → determineIdentityBirthday epoch prev b new = b) ∧
    (prev ∈ [IdState.undefined, .invite, .killed, .other] → determineIdentityBirthday epoch prev b new = 0) := by
  cases prev <;> simp [determineIdentityBirthday]

/-- non-vacuity: both premises of `missed_or_noflips_not_validated` are needed — with the flips done and the session
attended the same identity is promoted. -/
example : determineNewIdentityState
    { prev := .newbie, doneFlips := true, sc := ⟨true, true, true, true, false⟩, totalFlips := 13, shortFlips := 6,
      missed := false, noQualShort := false, nonQualLong := false, fix93 := true, u10 := true, u12 := true }
    = .verified := by decide

example : determineNewIdentityState
    { prev := .newbie, doneFlips := true, sc := ⟨true, true, true, true, false⟩, totalFlips := 13, shortFlips := 6,
      missed := true, noQualShort := false, nonQualLong := false, fix93 := true, u10 := true, u12 := true }
    = .killed := by decide

/-! ## Part B.1 — the answer store is a function of the chain -/

/-- **The answers a node holds are exactly the first writes of the chain's transactions**, in memory and on disk,
whatever the node lived through: for every chain of blocks and every schedule of crashes (at any transaction of
any block, any number of times) and clean restarts.  Payloads are as decoded from blocks (`canonical`). -/
theorem store_is_function_of_chain (chain : List (List Tx)) (scheds : List BlockSched)
    (hc : ∀ b ∈ chain, ∀ t ∈ b, t.payload.canonical) :
    AtBoundary (QStore.init.runChain chain scheds) (firstWrite chain.flatten) := by
  have h0 : AtBoundary QStore.init (firstWrite []) := by
    have : firstWrite [] = fun _ _ => none := by funext k a; rfl
    rw [this]; exact atBoundary_init
  simpa using atBoundary_runChain chain scheds h0 (by simp) hc

/-- two nodes on the same chain hold the same answers, restarted or not -/
theorem store_restart_invisible (chain : List (List Tx)) (s₁ s₂ : List BlockSched)
    (hc : ∀ b ∈ chain, ∀ t ∈ b, t.payload.canonical) (k : Bool) (a : Nat) :
    (QStore.init.runChain chain s₁).get k a = (QStore.init.runChain chain s₂).get k a := by
  rw [(store_is_function_of_chain chain s₁ hc).mem, (store_is_function_of_chain chain s₂ hc).mem]

/-- without restarts the statement needs no assumption on payloads at all -/
theorem store_is_function_of_chain_no_restart (chain : List (List Tx)) (k : Bool) (a : Nat) :
    (QStore.init.runChain chain []).get k a = firstWrite chain.flatten k a := by
  have := (get_runChain_noRestart chain (s := QStore.init) (f := fun _ _ => none) synced_init (by simp)).2 k a
  simpa using this

/-- the `canonical` hypothesis is necessary for the *raw contents*: a non-nil empty payload object (which no decoded
block contains, but a locally created transaction object can) is held as such until the next restart and as nil
afterwards.  What the evaluation reads no longer depends on it: `store_view_is_function_of_chain`. -/
theorem restart_visible_for_noncanonical_payload :
    ∃ (chain : List (List Tx)) (sch : List BlockSched) (k : Bool) (a : Nat),
      (QStore.init.runChain chain sch).get k a ≠ (QStore.init.runChain chain []).get k a :=
  ⟨[[⟨false, 1, .bytes []⟩]], [⟨[], 1⟩], false, 1, by decide⟩

/-- **A reorganisation leaves exactly the answers of the surviving chain**: after the reset handler has processed the
reverted transactions `S`, the node is where a node that only ever saw `P` is — provided a sender has at most one
answers transaction of each kind in the chain (`validateCeremonyTx` refuses a second one, validation.go:226). -/
theorem store_after_reorg (s : QStore) (P S : List Tx) (h : AtBoundary s (firstWrite (P ++ S)))
    (hnd : ((P ++ S).map fun t => (t.short, t.sender)).Nodup) :
    AtBoundary (s.revert S) (firstWrite P) := by
  have hp := persist_spec (synced_removeAll h.synced S)
  have key : ∀ k a, (S.foldl (fun s t => s.remove t.short t.sender) s).get k a = firstWrite P k a := by
    intro k a; rw [get_removeAll, h.mem]; exact firstWrite_revert P S hnd k a
  refine ⟨?_, ?_, hp.1⟩
  · intro k a; show (S.foldl _ s).persist.get k a = _; rw [hp.2.1, key]
  · intro k a; show (S.foldl _ s).persist.getDb k a = _; rw [hp.2.2, key]

/-- … and then continues as that node does (any further blocks, any schedule) -/
theorem store_after_reorg_continues (s : QStore) (P S : List Tx) (chain' : List (List Tx)) (scheds : List BlockSched)
    (h : AtBoundary s (firstWrite (P ++ S)))
    (hnd : ((P ++ S).map fun t => (t.short, t.sender)).Nodup)
    (hP : ∀ t ∈ P, t.payload.canonical) (hc : ∀ b ∈ chain', ∀ t ∈ b, t.payload.canonical) :
    AtBoundary ((s.revert S).runChain chain' scheds) (firstWrite (P ++ chain'.flatten)) :=
  atBoundary_runChain chain' scheds (store_after_reorg s P S h hnd) hP hc

/-- the uniqueness hypothesis is necessary: the handler removes by sender, not by transaction -/
theorem reorg_needs_unique_senders :
    ∃ (P S : List Tx), ((QStore.init.runChain [P, S] []).revert S).get true 1 ≠ firstWrite P true 1 :=
  ⟨[⟨true, 1, .bytes [7]⟩], [⟨true, 1, .bytes [8]⟩], by decide⟩

/-! ### the evaluation-relevant observation needs no assumption on payloads (the code as it is after the repair of F24) -/

/-- **What the epoch evaluation reads from the store is a function of the chain — for every chain, every payload
(nil, empty, non-empty; decoded or locally created objects) and every schedule of crashes and restarts**: since
`qualifyCandidate` treats an empty payload like a missing one (`len(answerBytes) == 0`), the only thing a restart
changes (empty ↦ nil) is invisible.  Holds for the in-memory store and for what a restart would load from disk. -/
theorem store_view_is_function_of_chain (chain : List (List Tx)) (scheds : List BlockSched) (k : Bool) (a : Nat) :
    (QStore.init.runChain chain scheds).view k a = viewOf (firstWrite chain.flatten k a) ∧
    (QStore.init.runChain chain scheds).restart.view k a = viewOf (firstWrite chain.flatten k a) := by
  have h0 : AtBoundaryN QStore.init (firstWrite []) := by
    have : firstWrite [] = fun _ _ => none := by funext k a; rfl
    rw [this]; exact atBoundary_init.toN
  have h := atBoundaryN_runChain chain scheds h0
  simp only [List.nil_append] at h
  refine ⟨viewOf_congr (h.mem k a), ?_⟩
  have h2 := atBoundaryN_crash_restart h []
  exact viewOf_congr (h2.mem k a)

/-- two nodes on the same chain evaluate the same answers, restarted or not, whoever created the transactions -/
theorem store_view_restart_invisible (chain : List (List Tx)) (s₁ s₂ : List BlockSched) (k : Bool) (a : Nat) :
    (QStore.init.runChain chain s₁).view k a = (QStore.init.runChain chain s₂).view k a := by
  rw [(store_view_is_function_of_chain chain s₁ k a).1, (store_view_is_function_of_chain chain s₂ k a).1]

/-- reorganisation, same observation, no assumption on payloads -/
theorem store_view_after_reorg (s : QStore) (P S : List Tx) (chain' : List (List Tx)) (scheds : List BlockSched)
    (h : AtBoundaryN s (firstWrite (P ++ S)))
    (hnd : ((P ++ S).map fun t => (t.short, t.sender)).Nodup) (k : Bool) (a : Nat) :
    ((s.revert S).runChain chain' scheds).view k a = viewOf (firstWrite (P ++ chain'.flatten) k a) := by
  have hp := persist_specN (syncedN_removeAll h.synced S)
  have key : ∀ k a, nrm ((S.foldl (fun s t => s.remove t.short t.sender) s).get k a) = nrm (firstWrite P k a) := by
    intro k a
    rw [get_removeAll, ← firstWrite_revert P S hnd k a]
    split
    · rfl
    · exact h.mem k a
  have hb : AtBoundaryN (s.revert S) (firstWrite P) := by
    refine ⟨?_, ?_, hp.1⟩
    · intro k a; show nrm ((S.foldl _ s).persist.get k a) = _; rw [hp.2.1, key]
    · intro k a; show nrm ((S.foldl _ s).persist.getDb k a) = _; rw [hp.2.2, key]
  exact viewOf_congr ((atBoundaryN_runChain chain' scheds hb).mem k a)

/-- **Witness (finding F24, the code as found before the repair, `answerBytes == nil`)**: a locally created
long-answers transaction with a non-nil empty payload is an answer for its creator until the next restart and no
answer for everybody else — with the repaired reading the same history shows no difference. -/
theorem empty_payload_visible_as_found :
    let chain : List (List Tx) := [[⟨false, 1, .bytes []⟩]]
    (QStore.init.runChain chain []).viewAsFound false 1 = some [] ∧
    (QStore.init.runChain chain [⟨[], 1⟩]).viewAsFound false 1 = none ∧
    (QStore.init.runChain chain []).view false 1 = (QStore.init.runChain chain [⟨[], 1⟩]).view false 1 := by
  decide

/-! ## Part B.2 — cached re-evaluation equals the first evaluation -/

/-- non-candidates are never counted as validated (this is where the cached path, which counts over *all* cached
values, and the first evaluation, which counts candidates only, agree) — a consequence of Part A -/
theorem nonCand_not_validated (e : EvalIn) (c : NonCandIn) : (nonCandValue e c).2.state.newbieOrBetter = false :=
  missed_or_noflips_not_validated _ (Or.inl rfl)

theorem validatedCount_nonCands (e : EvalIn) : validatedCount (e.nonCands.map (nonCandValue e)) = 0 := by
  simp only [validatedCount, List.length_eq_zero_iff, List.filter_eq_nil_iff, List.mem_map]
  rintro v ⟨c, _, rfl⟩
  simp [nonCand_not_validated]

/-- the hit path on the entry the first evaluation stored gives what the first evaluation gave, on the same state -/
theorem hit_eq_miss {S : Type} (applyOne : S → Nat × CacheValue → S) (cache : List (Nat × CacheEntry)) (h : Nat)
    (e : EvalIn) (s : S) (hc : cacheLookup cache h = some (evalMiss applyOne e s).1) :
    applyNewEpoch applyOne cache h e s = (cache, (evalMiss applyOne e s).2) := by
  unfold applyNewEpoch
  simp only [hc]
  unfold evalMiss
  by_cases hz : validatedCount (e.cands.map (candValue e)) = 0
  · simp [hz]
  · have hne : (sortByAddr (e.cands.map (candValue e))).length ≠ 0 := by
      rw [length_sortByAddr]; simpa using validatedCount_pos_ne_nil hz
    have hlen : (sortByAddr (e.cands.map (candValue e)) ++ e.nonCands.map (nonCandValue e)).length > 0 := by
      rw [List.length_append]; omega
    simp only [hz, if_false, Bool.false_eq_true, hlen, if_true, validatedCount_append, validatedCount_nonCands,
      Nat.add_zero, applyAll, List.foldl_append]

/-- **First evaluation vs cached re-evaluation**: evaluating a height, then evaluating the same height again on the
same ceremony data and pre-state, returns the same result (failed flag, validated count) and the same post-state, and
leaves the cache as it is — for every set of candidates and non-candidates, every state-update function. -/
theorem cacheHit_eq_recompute {S : Type} (applyOne : S → Nat × CacheValue → S) (cache : List (Nat × CacheEntry))
    (h : Nat) (e : EvalIn) (s : S) (hmiss : cacheLookup cache h = none) :
    let r₁ := applyNewEpoch applyOne cache h e s
    let r₂ := applyNewEpoch applyOne r₁.1 h e s
    r₁.2 = (evalMiss applyOne e s).2 ∧ r₂ = r₁ := by
  have h1 : applyNewEpoch applyOne cache h e s =
      ((h, (evalMiss applyOne e s).1) :: cache.filter (fun x => x.1 != h), (evalMiss applyOne e s).2) := by
    unfold applyNewEpoch; simp only [hmiss]
  simp only [h1]
  exact ⟨trivial, hit_eq_miss applyOne _ h e s (cacheLookup_cons_filter cache h _)⟩

/-! ## Part B.3 — a node over a growing / reorganising chain -/

def NodeOp.isReset {B : Type} : NodeOp B → Bool
  | .reset _ _ => true
  | _ => false

def entryOf {B S : Type} (cfg : NodeCfg B S) (chain : List B) : CacheEntry :=
  (evalMiss cfg.applyOne (cfg.evalIn chain) (cfg.stateOf chain)).1

/-- every cached entry belongs to a height the chain has not outgrown … and the entry for the next height was
computed from the current chain -/
def NodeInv {B S : Type} (cfg : NodeCfg B S) (n : Node B) : Prop :=
  ∀ h e, cacheLookup n.cache h = some e → h ≤ n.chain.length + 1 ∧ (h = n.chain.length + 1 → e = entryOf cfg n.chain)

theorem nodeInv_step {B S : Type} (cfg : NodeCfg B S) (n : Node B) (op : NodeOp B) (hinv : NodeInv cfg n)
    (hsafe : cfg.clearOnReset = true ∨ op.isReset = false) :
    NodeInv cfg (n.step cfg op).1 ∧ ∀ out, (n.step cfg op).2 = some out → out = pureEval cfg n.chain := by
  cases op with
  | addBlock b =>
    refine ⟨?_, by simp [Node.step]⟩
    intro h e hl
    have := hinv h e hl
    simp only [Node.step, List.length_append, List.length_singleton]
    exact ⟨by omega, by omega⟩
  | reset keep bs =>
    have hclr : cfg.clearOnReset = true := by
      rcases hsafe with h | h
      · exact h
      · simp [NodeOp.isReset] at h
    refine ⟨?_, by simp [Node.step]⟩
    intro h e hl
    simp [Node.step, hclr, cacheLookup] at hl
  | eval =>
    simp only [Node.step]
    cases hl : cacheLookup n.cache (n.chain.length + 1) with
    | some c =>
      have hc := (hinv _ c hl).2 rfl
      have := hit_eq_miss cfg.applyOne n.cache (n.chain.length + 1) (cfg.evalIn n.chain) (cfg.stateOf n.chain)
        (by rw [hl, hc]; rfl)
      rw [this]
      exact ⟨hinv, by intro out ho; simp at ho; exact ho.symm⟩
    | none =>
      have h1 : applyNewEpoch cfg.applyOne n.cache (n.chain.length + 1) (cfg.evalIn n.chain) (cfg.stateOf n.chain) =
          ((n.chain.length + 1, entryOf cfg n.chain) :: n.cache.filter (fun x => x.1 != n.chain.length + 1),
            pureEval cfg n.chain) := by
        unfold applyNewEpoch; simp only [hl]; rfl
      rw [h1]
      refine ⟨?_, by intro out ho; simp at ho; exact ho.symm⟩
      intro h e hle
      by_cases hh : h = n.chain.length + 1
      · subst hh
        rw [cacheLookup_cons_filter] at hle
        simp at hle
        exact ⟨Nat.le_refl _, fun _ => hle.symm⟩
      · rw [cacheLookup_cons_filter_ne _ _ _ _ hh] at hle
        exact ⟨(hinv h e hle).1, fun x => absurd x hh⟩

theorem eval_pure {B S : Type} (cfg : NodeCfg B S) (ops : List (NodeOp B)) (n : Node B) (hinv : NodeInv cfg n)
    (hsafe : cfg.clearOnReset = true ∨ ∀ op ∈ ops, op.isReset = false) :
    ∀ r ∈ Node.run cfg n ops, ∀ out, r.2 = some out → out = pureEval cfg r.1.chain := by
  induction ops generalizing n with
  | nil => simp [Node.run]
  | cons op ops ih =>
    have hs1 : cfg.clearOnReset = true ∨ op.isReset = false := by
      rcases hsafe with h | h
      · exact Or.inl h
      · exact Or.inr (h op (List.mem_cons_self ..))
    have hs2 : cfg.clearOnReset = true ∨ ∀ op' ∈ ops, op'.isReset = false := by
      rcases hsafe with h | h
      · exact Or.inl h
      · exact Or.inr (fun op' h' => h op' (List.mem_cons_of_mem _ h'))
    have hstep := nodeInv_step cfg n op hinv hs1
    intro r hr out ho
    simp only [Node.run, List.mem_cons] at hr
    rcases hr with rfl | hr
    · have := hstep.2 out ho
      -- an evaluation does not change the chain
      cases op with
      | eval => simpa [Node.step] using this
      | addBlock b => simp [Node.step] at ho
      | reset k bs => simp [Node.step] at ho
    · exact ih _ hstep.1 hs2 r hr out ho

/-- **With the cache dropped on a chain reset (the code as it is now), every evaluation a node ever returns — first or
cached, before or after any number of reorganisations — is the result a node that only saw the current chain
computes.** -/
theorem eval_pure_when_cache_cleared {B S : Type} (cfg : NodeCfg B S) (hclr : cfg.clearOnReset = true)
    (ops : List (NodeOp B)) :
    ∀ r ∈ Node.run cfg ⟨[], []⟩ ops, ∀ out, r.2 = some out → out = pureEval cfg r.1.chain :=
  eval_pure cfg ops ⟨[], []⟩ (by intro h e hl; simp [cacheLookup] at hl) (Or.inl hclr)

/-- without a reset the cache is sound whether or not the handler clears it -/
theorem eval_pure_without_reset {B S : Type} (cfg : NodeCfg B S) (ops : List (NodeOp B))
    (hno : ∀ op ∈ ops, op.isReset = false) :
    ∀ r ∈ Node.run cfg ⟨[], []⟩ ops, ∀ out, r.2 = some out → out = pureEval cfg r.1.chain :=
  eval_pure cfg ops ⟨[], []⟩ (by intro h e hl; simp [cacheLookup] at hl) (Or.inr hno)

/-! ### the code as found before the repair of F4: the cache keyed by height only, kept across a reset -/

def witnessCand (a : Nat) (missed : Bool) : CandIn :=
  { addr := a
    dec := { prev := .verified, doneFlips := true, sc := ⟨false, false, false, false, false⟩, totalFlips := 0,
             shortFlips := 0, missed := missed, noQualShort := true, nonQualLong := true, fix93 := true,
             u10 := true, u12 := true }
    birthday := 3, participated := true, delegatee := none, shortPts2 := 0 }

/-- a two-candidate ceremony: identity 1 (Verified) is validated iff its answers are on the chain (`true` block),
identity 2 (Verified, nothing to qualify) always is -/
def witnessCfg (clear : Bool) : NodeCfg Bool (List (Nat × IdState)) where
  evalIn chain :=
    { epoch := 100, networkSize := 2, cands := [witnessCand 1 (!chain.any id), witnessCand 2 false], nonCands := [],
      u10 := true, u12 := true }
  stateOf _ := []
  applyOne s v := s ++ [(v.1, v.2.state)]
  clearOnReset := clear

def witnessOps : List (NodeOp Bool) := [.addBlock true, .eval, .reset 0 [false], .eval]

/-- the evaluations of a run: (chain at that moment, validated count, post-state) -/
def evalsOf (clear : Bool) : List (List Bool × Nat × List (Nat × IdState)) :=
  (Node.run (witnessCfg clear) ⟨[], []⟩ witnessOps).filterMap
    fun r => r.2.map fun o => (r.1.chain, o.identitiesCount, o.post)

/-- **Witness (finding F4, the code as found before the repair): with the cache kept across a reset, the second
evaluation of the same height returns the abandoned branch's result** — identity 1 stays `Verified` and two
identities are counted, although on the new chain it did not answer (a clean node: `Suspended`, one validated);
with the cache dropped the same history gives the clean node's result. -/
theorem stale_cache_after_reorg :
    evalsOf false = [([true], 2, [(1, .verified), (2, .verified)]), ([false], 2, [(1, .verified), (2, .verified)])] ∧
    evalsOf true = [([true], 2, [(1, .verified), (2, .verified)]), ([false], 1, [(1, .suspended), (2, .verified)])] ∧
    (pureEval (witnessCfg false) [false]).identitiesCount = 1 ∧
    (pureEval (witnessCfg false) [false]).post = [(1, .suspended), (2, .verified)] := by
  decide

/-- the same history on the repaired variant is fine (instance of `eval_pure_when_cache_cleared`) -/
example : ∀ r ∈ Node.run (witnessCfg true) ⟨[], []⟩ witnessOps, ∀ out, r.2 = some out →
    out = pureEval (witnessCfg true) r.1.chain :=
  eval_pure_when_cache_cleared (witnessCfg true) rfl witnessOps

/-- non-vacuity of `store_is_function_of_chain`: a chain with a duplicate write, lived through with a crash after the
first transaction of block 2 and a clean restart after it -/
example : (QStore.init.runChain [[⟨true, 1, .bytes [1]⟩], [⟨false, 1, .bytes [2]⟩, ⟨true, 1, .bytes [9]⟩, ⟨true, 2, .nil⟩]]
    [⟨[], 0⟩, ⟨[1], 1⟩]).get true 1 = some (.bytes [1]) := by decide

end IdenaModel.Qual
