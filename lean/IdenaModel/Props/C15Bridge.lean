import IdenaModel.Props.C15
import IdenaModel.Props.C04Tx
/-!
# Bridge C15 → C04/C05: the obligations `VmOk` of the ledger model, established from M-Contract

The ledger model (`Model/TxApply.lean`) takes the VM's verdict, gas and net balance changes as inputs
(`tx.ext.vmSuccess`, `vmGasUsed`, `vmDeltas`) and its C04 theorems assume `Ledger.VmOk`.  This file shows that when
those inputs are what an embedded-contract execution of M-Contract produces (any call trace), the three obligations
hold — for the contract address the wrapper actually uses (`vm.ContractAddr`, here `t.c`).
-/
namespace IdenaModel.ContractEnv
open EEnv

/-- the net balance changes an execution hands to the ledger: the committed view minus the state the run started on,
over the addresses `dom` -/
def vmDeltasOf (dom : List Addr) (b1 : Base) (e : EEnv) (success : Bool) : List (Nat × Int) :=
  if success then dom.map (fun a => (a, e.getBal a - b1.bal a)) else []

theorem deltaAt_map (dom : List Addr) (hn : dom.Nodup) (f : Addr → Int) (x : Addr) :
    Ledger.deltaAt (dom.map (fun a => (a, f a))) x = if x ∈ dom then f x else 0 := by
  induction dom with
  | nil => simp [Ledger.deltaAt]
  | cons d t ih =>
    have hd : d ∉ t := (List.nodup_cons.mp hn).1
    have := ih (List.nodup_cons.mp hn).2
    unfold Ledger.deltaAt at this ⊢
    simp only [List.map_cons, List.foldl_cons]
    rw [Ledger.foldl_deltaAt]
    unfold Ledger.deltaAt
    rw [this]
    by_cases hx : d = x
    · subst hx; simp [hd]
    · have : ¬ x = d := fun e => hx e.symm
      simp [hx, this]


/-- the two models describe the same transaction on the same state -/
structure SameTx (c : Ledger.Cfg) (s : Ledger.State) (tx : Ledger.Tx) (t : TxIn) (b : Base) : Prop where
  snd : t.snd = tx.sender
  amt : (t.amt : Int) = tx.amount
  maxFee : (t.maxFee : Int) = tx.maxFee
  txFee : (t.txFee : Int) = Ledger.calcFee s.g.headNetSize s.g.feePerGas tx
  fpg : t.fpg = s.g.feePerGas
  embedded : t.wasm = false ∧ tx.ext.isWasm = false
  kind : (tx.type = .call ↔ t.kind = .call) ∧ (tx.type = .terminate ↔ t.kind = .terminate)
  u11 : t.u11 = c.u11
  bal : ∀ a, b.bal a = s.balance a

/-- **Bridge**: for every call trace of an embedded contract, the VM inputs M-Contract produces satisfy the three
obligations of `Ledger.VmOk` (at the contract address the wrapper uses). -/
theorem vmOk_of_embedded_execution (c : Ledger.Cfg) (s : Ledger.State) (tx : Ledger.Tx) (t : TxIn) (b : Base)
    (trace : List ECall) (verdict : Bool) (dom : List Addr) (hn : dom.Nodup)
    (hsame : SameTx c s tx t b)
    -- the ledger model's VM inputs are what the execution produced
    (hsucc : tx.ext.vmSuccess = (applyE t b trace verdict).2.success)
    (hgas : tx.ext.vmGasUsed = (applyE t b trace verdict).2.gasUsed)
    (hdel : tx.ext.vmDeltas = vmDeltasOf dom (prePay t b) (run { base := prePay t b, limit := gasLimit t } trace)
      (applyE t b trace verdict).2.success)
    -- side conditions of C15's theorems
    (hnn : b.NonNeg) (hafford : (t.amt : Int) ≤ b.bal t.snd)
    (hown : ∀ cl ∈ trace, ∀ a, cl.actor = some a → a ≠ t.snd)
    (hf : 0 < t.fpg) (hfee : t.txFee ≤ t.maxFee) :
    Ledger.calcFee s.g.headNetSize s.g.feePerGas tx + Ledger.gasCost s.g.feePerGas tx.ext.vmGasUsed ≤ tx.maxFee ∧
    0 ≤ Ledger.deltaAt tx.ext.vmDeltas tx.sender ∧
    ∀ a, a ≠ tx.sender → 0 ≤ (Ledger.contractWrapper c s tx t.c).balance a := by
  set e := run { base := prePay t b, limit := gasLimit t } trace with he
  have hpp := prePay_nonneg t b hnn hafford
  have h0 : ({ base := prePay t b, limit := gasLimit t } : EEnv).led.NonNeg := ⟨hpp.1, hpp.2⟩
  have hrun := (run_nonneg _ trace h0).1
  refine ⟨?_, ?_, ?_⟩
  · -- gas within what maxFee buys
    have h1 := (fee_le_maxFee t hf hfee e.gas 0).1
    have hg : tx.ext.vmGasUsed = usedGasE e.gas (gasLimit t) := hgas
    rw [← hsame.txFee, ← hsame.maxFee, ← hsame.fpg, hg]
    unfold Ledger.gasCost
    rw [if_neg (by omega)]
    unfold gasCost at h1
    exact_mod_cast h1
  · -- the signer is not debited by the VM
    rw [hdel]
    unfold vmDeltasOf
    split
    · rw [deltaAt_map dom hn, ← hsame.snd]
      split
      · have : (prePay t b).bal t.snd ≤ e.getBal t.snd :=
          run_mono { base := prePay t b, limit := gasLimit t } trace t.snd hown h0
        omega
      · exact Int.le_refl _
    · simp [Ledger.deltaAt]
  · -- nobody else is overdrawn
    intro a ha
    have hpay : (decide (tx.amount > 0) && (decide (tx.type = .call) || tx.ext.isWasm)) = t.pay := by
      unfold TxIn.pay
      rw [hsame.embedded.1, hsame.embedded.2, ← hsame.amt]
      have h1 : decide ((t.amt : Int) > 0) = decide (t.amt > 0) := by
        by_cases h : t.amt > 0
        · simp [h]
        · have : t.amt = 0 := by omega
          simp [this]
      rw [h1]
      by_cases hk : tx.type = .call
      · have := hsame.kind.1.mp hk; simp [hk, this]
      · have : ¬ t.kind = .call := fun h => hk (hsame.kind.1.mpr h)
        simp [hk, this]
    have hs1 : ∀ x, (if t.pay then (s.addBal tx.sender (-tx.amount)).addBal t.c tx.amount else s).balance x = (prePay t b).bal x := by
      intro x
      unfold prePay
      split
      · simp only [Ledger.balance_addBal, Base.addBal, upd, ← hsame.bal, ← hsame.amt, ← hsame.snd]
        by_cases h1 : x = t.c <;> by_cases h2 : x = t.snd <;> by_cases h3 : t.c = t.snd <;> simp_all
      · exact (hsame.bal x).symm
    have hane : a ≠ t.snd := by rw [hsame.snd]; exact ha
    unfold Ledger.contractWrapper
    simp only [hpay]
    cases hsc : (applyE t b trace verdict).2.success with
    | true =>
      have hv : tx.ext.vmSuccess = true := by rw [hsucc, hsc]
      have hd : tx.ext.vmDeltas = dom.map (fun x => (x, e.getBal x - (prePay t b).bal x)) := by
        rw [hdel, hsc]; simp [vmDeltasOf]
      simp only [hv, Bool.not_true, Bool.false_and, Bool.false_eq_true, if_false, Bool.true_and]
      have hbal : ((if t.pay then (s.addBal tx.sender (-tx.amount)).addBal t.c tx.amount else s).applyDeltas tx.ext.vmDeltas).balance a
          = if a ∈ dom then e.getBal a else (prePay t b).bal a := by
        rw [Ledger.balance_applyDeltas, hs1, hd, deltaAt_map dom hn]
        split <;> omega
      have hge : 0 ≤ (if a ∈ dom then e.getBal a else (prePay t b).bal a) := by
        split
        · exact hrun a
        · exact hpp.1 a
      split
      · rw [Ledger.balance_addBal, if_neg ha, hbal]; exact hge
      · rw [hbal]; exact hge
    | false =>
      have hv : tx.ext.vmSuccess = false := by rw [hsucc, hsc]
      have hd : tx.ext.vmDeltas = [] := by rw [hdel, hsc]; simp [vmDeltasOf]
      simp only [hv, hd, Bool.not_false, Bool.true_and, Bool.false_and, Bool.false_eq_true, if_false]
      have happ : ∀ st : Ledger.State, st.applyDeltas [] = st := fun _ => rfl
      rw [happ]
      have hsb := hsame.bal a
      have := hnn.1 a
      by_cases hp : t.pay = true
      · simp only [hp, if_true, Ledger.balance_addBal]
        split_ifs <;> omega
      · simp only [hp, Bool.false_eq_true, if_false]
        omega

end IdenaModel.ContractEnv
