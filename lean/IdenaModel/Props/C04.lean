import IdenaModel.Proofs.Rewards
/-!
# C04 (block and epoch level) — no coins from nowhere

`LInv s` (`Proofs/Rewards.lean`): every balance and contract stake is `≥ 0` and `0 ≤ locked ≤ replenished ≤ stake` for
every identity.  `total s`: sum of all balances, contract stakes and identity stakes (`Model/Ledger.lean`).

Per step (`Proofs/Rewards.lean`): `splitReward_sum`, `penalty_no_mint`, `finalCommittee_sum_le`,
`applyBlockRewards_spec`, `catPayouts_sum_le` / `catPayouts_sum_lt`, `paid_le_pool` / `paid_le_pool_eps`,
`applyNewEpoch_spec`, `burnIdentity_spec`, `applyBlockPost_spec`.

Here: the statements of the property.  The transactions of a block are a relation `Step s tx s' fee tips` supplied by the
transaction level (`Props/C04Tx.lean`: `validateTx … = .ok ∧ applyTx … = .ok s' fee`); its two facts are the hypotheses
`StepOk.applyTx_inv` / `StepOk.applyTx_total_le`, named after ledger's theorems that discharge them.

* `blockRewards_minted_le` — transactions + reward step of a proposed block add at most `BlockReward + FinalCommitteeReward`
* `emptyBlock_no_growth` — an empty non-epoch block adds nothing
* `epochRewards_sum_le_pool` — **exact category totals**: the epoch distribution adds at most the pool
* `epochRewards_can_exceed_pool` — **as found** (`float32` totals, `rewards.go:86`): the witness `2²⁴ + 1 + 1 = 2²⁴` pays more
  than the pool; `epochRewards_asFound_le` bounds the excess by the relative shortfall of the totals
* `block_bound`, `chain_bound`, `chain_inv`, `chain_bound_asFound` — lifted to all chains by induction.
-/
namespace IdenaModel.Rewards
open IdenaModel.Ledger

/-! ### constants -/

/-- the percentages of `config/consensus.go:97-104` sum to 100 %, with and without upgrade 10 -/
theorem percent_sum_le_one : ∀ u10 u12 : Bool, ({ u10 := u10, u12 := u12 } : RCfg).percentSum ≤ 100 := by decide

theorem defaultCfg_ok (u10 u12 : Bool) : ({ u10 := u10, u12 := u12 } : RCfg).Ok := by
  cases u10 <;> cases u12 <;>
    exact ⟨by decide, by decide, by decide, by decide, ⟨60000000000000000, by decide⟩⟩

/-! ### transactions as a parameter -/

section chain
variable {τ : Type} (Step : State → τ → State → Int → Int → Prop)

/-- the two facts of the transaction level (`Props/C04Tx.lean`), as hypotheses -/
structure StepOk : Prop where
  applyTx_inv : ∀ s t s' fee tips, LInv s → Step s t s' fee tips → LInv s'
  applyTx_total_le : ∀ s t s' fee tips, LInv s → Step s t s' fee tips →
    total s' + fee + tips ≤ total s ∧ 0 ≤ fee ∧ 0 ≤ tips

/-- `processTxs` (`blockchain.go:1358`): every transaction applies, fees and tips are summed -/
inductive TxsRun : State → List τ → State → Int → Int → Prop
  | nil (s : State) : TxsRun s [] s 0 0
  | cons {s s1 s2 : State} {t : τ} {ts : List τ} {f tp F T : Int} :
      Step s t s1 f tp → TxsRun s1 ts s2 F T → TxsRun s (t :: ts) s2 (f + F) (tp + T)

variable {Step}

theorem TxsRun.spec (hS : StepOk Step) {s s1 : State} {txs : List τ} {F T : Int} (h : TxsRun Step s txs s1 F T)
    (hI : LInv s) : LInv s1 ∧ total s1 + F + T ≤ total s ∧ 0 ≤ F ∧ 0 ≤ T := by
  induction h with
  | nil s => exact ⟨hI, by omega, by omega, by omega⟩
  | cons hstep _ ih =>
    have i1 := hS.applyTx_inv _ _ _ _ _ hI hstep
    obtain ⟨a1, a2, a3⟩ := hS.applyTx_total_le _ _ _ _ _ hI hstep
    obtain ⟨b1, b2, b3, b4⟩ := ih i1
    exact ⟨b1, by omega, by omega, by omega⟩

/-- **transactions themselves never increase the total** -/
theorem txs_no_growth (hS : StepOk Step) {s s1 : State} {txs : List τ} {F T : Int} (h : TxsRun Step s txs s1 F T)
    (hI : LInv s) : total s1 ≤ total s := by
  have := h.spec hS hI; omega

/-- **proposed block**: what the transactions took as fees and tips covers what the reward step hands back, so
transactions + rewards add at most `BlockReward + FinalCommitteeReward` -/
theorem blockRewards_minted_le {c : RCfg} (hc : c.Ok) (hS : StepOk Step) {s s1 : State} {txs : List τ} {F T : Int}
    (h : TxsRun Step s txs s1 F T) (hI : LInv s) (ts : Int) {ms : List Member} {p : Proposer}
    (hms : ∀ m ∈ ms, m.Ok) (hp : 0 ≤ p.pen.amount) :
    total (applyBlockRewards c s1 F T ts ms p) ≤ total s + (c.blockReward + c.finalCommitteeReward : Nat) := by
  obtain ⟨i1, t1, f0, t0⟩ := h.spec hS hI
  obtain ⟨-, r2⟩ := applyBlockRewards_spec hc i1 f0 t0 ts hms hp
  have := (splitFee_bounds hc f0).2.1
  simp only [RCfg.fullReward] at r2
  omega

/-- one block: its transactions, then everything else of `applyBlockOnState`; an empty block has no transactions -/
inductive BlockRun (c : RCfg) : State → List τ × BlockEv → State → Prop
  | mk {s s1 : State} {txs : List τ} {F T : Int} {b : BlockEv} :
      TxsRun Step s txs s1 F T → (b.proposed = false → txs = []) →
      BlockRun c s (txs, b) (applyBlockPost c s1 F T b)

inductive ChainRun (c : RCfg) : State → List (List τ × BlockEv) → State → Prop
  | nil (s : State) : ChainRun c s [] s
  | cons {s s1 s2 : State} {b : List τ × BlockEv} {bs : List (List τ × BlockEv)} :
      BlockRun (Step := Step) c s b s1 → ChainRun c s1 bs s2 → ChainRun c s (b :: bs) s2

theorem TxsRun.nil_inv {s s1 : State} {F T : Int} (h : TxsRun Step s [] s1 F T) : s1 = s ∧ F = 0 ∧ T = 0 := by
  cases h; exact ⟨rfl, rfl, rfl⟩

/-- a block keeps the invariant and adds at most what its reward steps pay (`blockPaid`) — no condition on the weights -/
theorem BlockRun.spec {c : RCfg} (hc : c.Ok) (hS : StepOk Step) {s s' : State} {b : List τ × BlockEv}
    (h : BlockRun (Step := Step) c s b s') (hb : b.2.Ok) (hI : LInv s) :
    LInv s' ∧ total s' ≤ total s + (blockPaid c b.2 : Nat) := by
  cases h with
  | @mk s1 txs F T b htx hempty =>
    obtain ⟨i1, t1, f0, t0⟩ := htx.spec hS hI
    obtain ⟨p1, p2⟩ := applyBlockPost_spec hc i1 f0 t0 hb
    refine ⟨p1, ?_⟩
    show total (applyBlockPost c s1 F T b) ≤ total s + (blockPaid c b : Nat)
    by_cases hp : b.proposed = true
    · simp only [hp, if_true] at p2; omega
    · have hp' : b.proposed = false := by simpa using hp
      have htxs := hempty hp'
      subst htxs
      obtain ⟨rfl, rfl, rfl⟩ := htx.nil_inv
      simp only [hp'] at p2
      simp at p2
      omega

/-- exact category totals: the block pays at most the bound of its kind -/
theorem blockPaid_le_bound {c : RCfg} (hc : c.Ok) {b : BlockEv} (hr : ∀ e, b.epoch = some e → e.rewards.Ok) :
    blockPaid c b ≤ blockBound c b := by
  unfold blockPaid blockBound
  have : epochPaidOpt c b.epoch ≤ epochBound c b.epoch := by
    cases hbe : b.epoch with
    | none => simp [epochPaidOpt, epochBound]
    | some e =>
      simp only [epochPaidOpt, epochBound, epochPaid]
      split
      · omega
      · exact paid_le_pool hc e.epochLen (hr e hbe)
  omega

/-- **the bound of the block kind** (proposed: `BlockReward + FinalCommitteeReward`; validation-finishing: plus one
epoch pool; empty non-epoch: `0`), for exact category totals -/
theorem block_bound {c : RCfg} (hc : c.Ok) (hS : StepOk Step) {s s' : State} {b : List τ × BlockEv}
    (h : BlockRun (Step := Step) c s b s') (hb : b.2.Ok) (hr : ∀ e, b.2.epoch = some e → e.rewards.Ok) (hI : LInv s) :
    total s' ≤ total s + (blockBound c b.2 : Nat) := by
  have := (h.spec hc hS hb hI).2
  have := blockPaid_le_bound hc hr
  omega

/-- **an empty non-epoch block never grows the total** -/
theorem emptyBlock_no_growth {c : RCfg} (hc : c.Ok) (hS : StepOk Step) {s s' : State} {b : List τ × BlockEv}
    (h : BlockRun (Step := Step) c s b s') (hb : b.2.Ok) (hI : LInv s) (he : b.2.proposed = false)
    (hn : b.2.epoch = none) : total s' ≤ total s := by
  have := (h.spec hc hS hb hI).2
  simp [blockPaid, he, hn, epochPaidOpt] at this
  exact this

/-- **every block-level step keeps all components non-negative** -/
theorem nonneg_preserved {c : RCfg} (hc : c.Ok) (hS : StepOk Step) {s s' : State} {b : List τ × BlockEv}
    (h : BlockRun (Step := Step) c s b s') (hb : b.2.Ok) (hI : LInv s) : LInv s' :=
  (h.spec hc hS hb hI).1

def sumBound (c : RCfg) (bs : List (List τ × BlockEv)) : Nat := (bs.map fun b => blockBound c b.2).sum
def sumPaid (c : RCfg) (bs : List (List τ × BlockEv)) : Nat := (bs.map fun b => blockPaid c b.2).sum

theorem chain_spec {c : RCfg} (hc : c.Ok) (hS : StepOk Step) {s s' : State} {bs : List (List τ × BlockEv)}
    (h : ChainRun (Step := Step) c s bs s') (hb : ∀ b ∈ bs, b.2.Ok) (hI : LInv s) :
    LInv s' ∧ total s' ≤ total s + (sumPaid c bs : Nat) := by
  induction h with
  | nil s => exact ⟨hI, by simp [sumPaid]⟩
  | @cons s0 s1 s2 b bs hblk _ ih =>
    obtain ⟨a1, a2⟩ := hblk.spec hc hS (hb b (by simp)) hI
    obtain ⟨b1, b2⟩ := ih (fun x hx => hb x (by simp [hx])) a1
    refine ⟨b1, ?_⟩
    simp only [sumPaid, List.map_cons, List.sum_cons] at b2 ⊢
    push_cast at *
    omega

/-- **invariant of all chains**: every balance, stake (with its locked and replenished parts) and contract stake stays
non-negative at every block boundary -/
theorem chain_inv {c : RCfg} (hc : c.Ok) (hS : StepOk Step) {s s' : State} {bs : List (List τ × BlockEv)}
    (h : ChainRun (Step := Step) c s bs s') (hb : ∀ b ∈ bs, b.2.Ok) (hI : LInv s) : LInv s' :=
  (chain_spec hc hS h hb hI).1

theorem sumPaid_le_sumBound {c : RCfg} (hc : c.Ok) (bs : List (List τ × BlockEv))
    (hr : ∀ b ∈ bs, ∀ e, b.2.epoch = some e → e.rewards.Ok) : sumPaid c bs ≤ sumBound c bs := by
  induction bs with
  | nil => simp [sumPaid, sumBound]
  | cons b t ih =>
    have h1 := blockPaid_le_bound hc (hr b (by simp))
    have h2 := ih (fun x hx => hr x (by simp [hx]))
    simp only [sumPaid, sumBound, List.map_cons, List.sum_cons] at *
    omega

/-- **issuance of all chains** (exact category totals): the total grows by at most the sum of the bounds of the block kinds -/
theorem chain_bound {c : RCfg} (hc : c.Ok) (hS : StepOk Step) {s s' : State} {bs : List (List τ × BlockEv)}
    (h : ChainRun (Step := Step) c s bs s') (hb : ∀ b ∈ bs, b.2.Ok)
    (hr : ∀ b ∈ bs, ∀ e, b.2.epoch = some e → e.rewards.Ok) (hI : LInv s) :
    total s' ≤ total s + (sumBound c bs : Nat) := by
  have := (chain_spec hc hS h hb hI).2
  have := sumPaid_le_sumBound hc bs hr
  omega

/-! ### the code as found: category totals accumulated in `float32` -/

/-- as found: a block pays at most `(1 + k/d)·(bound + 6)` when every category total is at least `d/(d+k)` of the
exact sum of its weights -/
theorem blockPaid_le_bound_eps {c : RCfg} (hc : c.Ok) {b : BlockEv} {d k : Nat} (hd : 0 < d)
    (hr : ∀ e, b.epoch = some e → e.rewards.OkEps d k) : blockPaid c b * d ≤ (d + k) * (blockBound c b + 6) := by
  unfold blockPaid blockBound
  have h1 : epochPaidOpt c b.epoch * d ≤ (d + k) * (epochBound c b.epoch + 6) := by
    cases hbe : b.epoch with
    | none => simp [epochPaidOpt, epochBound]
    | some e =>
      simp only [epochPaidOpt, epochBound, epochPaid]
      split
      · simp
      · exact paid_le_pool_eps hc e.epochLen hd (hr e hbe)
  have h2 : (if b.proposed then c.fullReward else 0) * d ≤ (d + k) * (if b.proposed then c.fullReward else 0) := by
    rw [Nat.mul_comm]; exact Nat.mul_le_mul_right _ (by omega)
  rw [Nat.add_mul]
  have h3 : (d + k) * ((if b.proposed then c.fullReward else 0) + epochBound c b.epoch + 6) =
      (d + k) * (if b.proposed then c.fullReward else 0) + (d + k) * (epochBound c b.epoch + 6) := by ring
  omega

/-- **issuance of all chains, as found**: `(total s' − total s)·d ≤ (d+k)·Σ (bound of the block kind + 6)` -/
theorem chain_bound_asFound {c : RCfg} (hc : c.Ok) (hS : StepOk Step) {s s' : State} {bs : List (List τ × BlockEv)}
    {d k : Nat} (hd : 0 < d) (h : ChainRun (Step := Step) c s bs s') (hb : ∀ b ∈ bs, b.2.Ok)
    (hr : ∀ b ∈ bs, ∀ e, b.2.epoch = some e → e.rewards.OkEps d k) (hI : LInv s) :
    (total s' - total s) * d ≤ ((d + k) * (sumBound c bs + 6 * bs.length) : Nat) := by
  have h1 := (chain_spec hc hS h hb hI).2
  have h2 : sumPaid c bs * d ≤ (d + k) * (sumBound c bs + 6 * bs.length) := by
    clear h1 h
    induction bs with
    | nil => simp [sumPaid, sumBound]
    | cons b t ih =>
      have a1 := blockPaid_le_bound_eps hc hd (hr b (by simp))
      have a2 := ih (fun x hx => hb x (by simp [hx])) (fun x hx => hr x (by simp [hx]))
      simp only [sumPaid, sumBound, List.map_cons, List.sum_cons, List.length_cons] at *
      have e1 : (blockPaid c b.2 + (List.map (fun b => blockPaid c b.2) t).sum) * d =
          blockPaid c b.2 * d + (List.map (fun b => blockPaid c b.2) t).sum * d := by ring
      have e2 : (d + k) * (blockBound c b.2 + (List.map (fun b => blockBound c b.2) t).sum + 6 * (t.length + 1)) =
          (d + k) * (blockBound c b.2 + 6) + (d + k) * ((List.map (fun b => blockBound c b.2) t).sum + 6 * t.length) := by
        ring
      omega
  have hd' : (0 : Int) ≤ d := Int.natCast_nonneg d
  have h3 : (total s' - total s) * d ≤ (sumPaid c bs : Int) * d := Int.mul_le_mul_of_nonneg_right (by omega) hd'
  have h4 : ((sumPaid c bs * d : Nat) : Int) ≤ (((d + k) * (sumBound c bs + 6 * bs.length) : Nat) : Int) := by
    exact_mod_cast h2
  push_cast at h4 ⊢
  omega

end chain

/-! ### the epoch distribution by itself -/

/-- **exact category totals**: for any validation result, `rewardValidIdentities` adds at most the epoch pool -/
theorem epochRewards_sum_le_pool {c : RCfg} (hc : c.Ok) {s : State} (hI : LInv s) (n : Nat) {r : EpochRewardsIn}
    (hr : r.Ok) : total (rewardValidIdentities c s n r) ≤ total s + (epochPool c n : Nat) := by
  have := (rewardValidIdentities_spec hc hI n r).2
  have := paid_le_pool hc n hr
  omega

/-- **as found**: with totals short of the exact weight sums by at most the factor `d/(d+k)` -/
theorem epochRewards_asFound_le {c : RCfg} (hc : c.Ok) {s : State} (hI : LInv s) (n : Nat) {r : EpochRewardsIn}
    {d k : Nat} (hd : 0 < d) (hr : r.OkEps d k) :
    (total (rewardValidIdentities c s n r) - total s) * d ≤ (((d + k) * (epochPool c n + 6) : Nat) : Int) := by
  have h1 := (rewardValidIdentities_spec hc hI n r).2
  have h2 := paid_le_pool_eps hc n hd hr
  have hd' : (0 : Int) ≤ d := Int.natCast_nonneg d
  have h3 := Int.mul_le_mul_of_nonneg_right (show total (rewardValidIdentities c s n r) - total s ≤
    ((paidSum c (epochPool c n) r + flatPayout (epochPool c n) c.pFoundation +
      flatPayout (epochPool c n) c.pZeroWallet : Nat) : Int) by omega) hd'
  have h4 : (((paidSum c (epochPool c n) r + flatPayout (epochPool c n) c.pFoundation +
      flatPayout (epochPool c n) c.pZeroWallet) * d : Nat) : Int) ≤ (((d + k) * (epochPool c n + 6) : Nat) : Int) := by
    exact_mod_cast h2
  push_cast at h3 h4 ⊢
  omega

/-- every category full, and the staking total as `float32` addition produces it: `16777216 + 1 + 1 = 16777216` -/
def excessWitness : EpochRewardsIn :=
  let one : CatIn := { wTotal := 1, wScale := 1, payees := [{ addr := 1, dest := 1, w := 1 }] }
  { staking := { wTotal := 16777216, wScale := 1,
                 payees := [{ addr := 1, dest := 1, w := 16777216 }, { addr := 2, dest := 2, w := 1 }, { addr := 3, dest := 3, w := 1 }] },
    candidates := one, flipBasic := one, flipExtra := one, reports := one, invitations := one, god := 9 }

/-- **the statement "epoch payouts ≤ pool" is false for the code as found**: with a category total that is smaller than
the sum of the weights (what `float32` accumulation yields, `rewards.go:86`), the distribution pays more than the pool -/
theorem epochRewards_can_exceed_pool :
    total (rewardValidIdentities { u10 := true } {} 1 excessWitness) =
      total ({} : State) + (epochPool { u10 := true } 1 : Nat) + 128746032714 := by decide

/-! ### non-vacuity -/

/-- a genesis allocation with three funded identities -/
def exGenesis : State :=
  (((((({} : State).addBal 1 1000).addStake 1 100).addBal 2 500).addStake 2 50).addBal 3 7).addStake 3 5

theorem exGenesis_inv : LInv exGenesis := by
  have h0 : LInv ({} : State) := ⟨fun a => by simp [State.balance, State.af, AMap.get, default],
    fun a => by simp [State.cstake, State.af, AMap.get, default],
    fun a => by simp [State.idf, AMap.get, default]⟩
  unfold exGenesis
  exact (((h0.credit2 1 1 (by omega) (by omega)).credit2 2 2 (by omega) (by omega)).credit2 3 3 (by omega) (by omega))

/-- a proposed block without committee on the example genesis mints exactly the full block reward: the bound is tight -/
example : total (applyBlockPost {} exGenesis 0 0 { rw := { proposer := { coinbase := 1, stakeDest := 1, newbie := false } } }) =
    total exGenesis + 6000000000000000000 := by decide

/-- the step relation that never fires satisfies the transaction-level hypotheses: chains of transaction-free blocks exist -/
example : StepOk (fun (_ : State) (_ : Unit) (_ : State) (_ _ : Int) => False) :=
  ⟨fun _ _ _ _ _ _ h => h.elim, fun _ _ _ _ _ _ h => h.elim⟩

example : (excessWitness.staking.wSum, excessWitness.staking.wTotal) = (16777218, 16777216) := by decide

end IdenaModel.Rewards
