import IdenaModel.Model.FeeRate
/-!
# C01 / C03 — the fee rate of the next block (`calculateNextBlockFeePerGas`)

The header field `FeePerGas` of a block must equal the fee rate in the validator's state, and that rate is recomputed
by every block from the previous rate, the block's gas and the network size.  About that function:

* `nextFee_ge_min`, `minFee_ge_10`: never below the floor of the network size, and the floor never below 10;
* `divRound16_closed`: the library's "quotient, then compare twice the remainder" rounding is `⌊a·10¹⁶/b + ½⌋`;
* `nextFee_mono_gas`: a fuller block never gives a lower next rate (for coefficients k ≤ 2);
* `nextFee_half`: a block filled to exactly half the cap keeps the rate (the fixed point of the controller).
-/
namespace IdenaModel.FeeRate

theorem minFee_ge_10 (n : Nat) : 10 ≤ minFee n := by
  unfold minFee absoluteMin
  exact Nat.le_max_right _ _

theorem nextFee_ge_min (prev usedGas maxGas kNum kScale n : Nat) :
    minFee n ≤ nextFee prev usedGas maxGas kNum kScale n := by
  unfold nextFee
  simp only
  generalize minFee n = mn
  generalize (if prev = 0 ∨ prev < mn then mn else prev) = fee0
  generalize Int.tdiv _ _ = nf
  split
  · exact Nat.le_refl _
  · rename_i h
    have h' := Int.not_lt.mp h
    omega

/-- the rounding of `Decimal.Div` in closed form -/
theorem divRound16_closed (a b : Nat) (hb : 0 < b) : divRound16 a b = (2 * (a * S16) + b) / (2 * b) := by
  unfold divRound16
  simp only
  generalize a * S16 = x
  have hx : b * (x / b) + x % b = x := Nat.div_add_mod x b
  have hrb : x % b < b := Nat.mod_lt _ hb
  generalize x / b = q at *
  generalize x % b = r at *
  have h1 : 2 * x + b = (2 * r + b) + q * (2 * b) := by
    rw [← hx, Nat.mul_add, Nat.mul_comm q (2 * b), Nat.mul_assoc, Nat.mul_left_comm 2 b q]; omega
  rw [h1, Nat.add_mul_div_right _ _ (by omega : 0 < 2 * b)]
  split
  · have : (2 * r + b) / (2 * b) = 1 := by
      apply Nat.div_eq_of_lt_le <;> omega
    omega
  · have : (2 * r + b) / (2 * b) = 0 := Nat.div_eq_of_lt (by omega)
    omega

theorem divRound16_mono (a a' b : Nat) (hb : 0 < b) (h : a ≤ a') : divRound16 a b ≤ divRound16 a' b := by
  rw [divRound16_closed a b hb, divRound16_closed a' b hb]
  apply Nat.div_le_div_right
  have := Nat.mul_le_mul_right S16 h
  omega

/-- a fuller block never lowers the next fee rate -/
theorem nextFee_mono_gas (prev u u' maxGas kNum kScale n : Nat) (hm : 0 < maxGas) (hk : 0 < kScale)
    (hk2 : kNum ≤ 2 * kScale) (h : u ≤ u') :
    nextFee prev u maxGas kNum kScale n ≤ nextFee prev u' maxGas kNum kScale n := by
  have hd := divRound16_mono u u' maxGas hm h
  unfold nextFee
  simp only
  generalize minFee n = mn
  generalize (if prev = 0 ∨ prev < mn then mn else prev) = fee0
  generalize divRound16 u maxGas = q at *
  generalize divRound16 u' maxGas = q' at *
  have hD : (0 : Int) < ((S16 * kScale : Nat) : Int) := by
    have : 0 < S16 * kScale := Nat.mul_pos (by decide) hk
    exact_mod_cast this
  -- the factor is non-negative (k ≤ 2), so truncation is floor division and monotone
  have hS : (S16 : Int) = 10000000000000000 := by decide
  have hfac : ∀ x : Nat, (0 : Int) ≤ ((x : Int) - 5000000000000000) * kNum + ((S16 * kScale : Nat) : Int) := by
    intro x
    have h1 : ((x : Int) - 5000000000000000) * kNum ≥ -5000000000000000 * kNum := by
      have : (x : Int) - 5000000000000000 ≥ -5000000000000000 := by omega
      exact Int.mul_le_mul_of_nonneg_right this (by omega)
    have h2 : ((S16 * kScale : Nat) : Int) = 10000000000000000 * (kScale : Int) := by
      push_cast; rw [hS]
    have h3 : (kNum : Int) ≤ 2 * kScale := by exact_mod_cast hk2
    omega
  have hmono : ((q : Int) - 5000000000000000) * kNum + ((S16 * kScale : Nat) : Int) ≤
      ((q' : Int) - 5000000000000000) * kNum + ((S16 * kScale : Nat) : Int) := by
    have : (q : Int) - 5000000000000000 ≤ (q' : Int) - 5000000000000000 := by omega
    have := Int.mul_le_mul_of_nonneg_right this (by omega : (0 : Int) ≤ (kNum : Int))
    omega
  have hs1 : (0 : Int) ≤ (((q : Int) - 5000000000000000) * kNum + ((S16 * kScale : Nat) : Int)) * fee0 :=
    Int.mul_nonneg (hfac q) (by omega)
  have hs2 : (0 : Int) ≤ (((q' : Int) - 5000000000000000) * kNum + ((S16 * kScale : Nat) : Int)) * fee0 :=
    Int.mul_nonneg (hfac q') (by omega)
  have hle : (((q : Int) - 5000000000000000) * kNum + ((S16 * kScale : Nat) : Int)) * fee0 ≤
      (((q' : Int) - 5000000000000000) * kNum + ((S16 * kScale : Nat) : Int)) * fee0 :=
    Int.mul_le_mul_of_nonneg_right hmono (by omega)
  have hdiv := Int.ediv_le_ediv hD hle
  rw [Int.tdiv_eq_ediv_of_nonneg hs1, Int.tdiv_eq_ediv_of_nonneg hs2]
  split <;> split <;> omega

/-- half of the cap: the rounded load is exactly one half -/
theorem divRound16_half (u : Nat) (hu : 0 < u) : divRound16 u (2 * u) = 5000000000000000 := by
  rw [divRound16_closed u (2 * u) (by omega)]
  have : 2 * (u * S16) + 2 * u = (2 * u) + 5000000000000000 * (2 * (2 * u)) := by
    unfold S16; omega
  rw [this, Nat.add_mul_div_right _ _ (by omega : 0 < 2 * (2 * u))]
  have : 2 * u / (2 * (2 * u)) = 0 := Nat.div_eq_of_lt (by omega)
  omega

/-- **nextFee_half**: a block that uses exactly half of the gas cap keeps the rate (raised to the floor if needed) -/
theorem nextFee_half (prev u kNum kScale n : Nat) (hu : 0 < u) (hk : 0 < kScale) :
    nextFee prev u (2 * u) kNum kScale n = (if prev = 0 ∨ prev < minFee n then minFee n else prev) := by
  unfold nextFee
  simp only
  rw [divRound16_half u hu]
  generalize hmn : minFee n = mn
  generalize hf : (if prev = 0 ∨ prev < mn then mn else prev) = fee0
  have hfee : mn ≤ fee0 := by
    rw [← hf]; split <;> omega
  have hD : ((S16 * kScale : Nat) : Int) ≠ 0 := by
    have : 0 < S16 * kScale := Nat.mul_pos (by decide) hk
    have : (0 : Int) < ((S16 * kScale : Nat) : Int) := by exact_mod_cast this
    omega
  have : (((5000000000000000 : Nat) : Int) - 5000000000000000) * kNum + ((S16 * kScale : Nat) : Int) = ((S16 * kScale : Nat) : Int) := by
    simp
  rw [this, Int.mul_comm, Int.mul_tdiv_cancel _ hD]
  split
  · rename_i h; omega
  · simp

example : nextFee 1000000 2560000 5120000 25 100 100 = 100000000000000 ∧ minFee 100 = 100000000000000 ∧
    nextFee 400000000000000 5120000 5120000 25 100 100 = 450000000000000 ∧
    nextFee 400000000000000 0 5120000 25 100 100 = 350000000000000 ∧ minFee 0 = 10000000000000000 ∧ minFee 3 = 3333333333333300 := by
  decide

end IdenaModel.FeeRate
