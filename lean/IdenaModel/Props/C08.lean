import IdenaModel.Proofs.Fork
/-!
# C08 — a fork is adopted only if valid and certified; adoption equals a clean sync

For every validity predicate / certificate predicate (`Env`), every node and every list of bundles of any length:
* `fork_accept_sound`: an accepted fork is a chain of valid blocks on the state of the common height, its
  identity-update blocks are certified, every non-empty certificate is acceptable, the tip carries a non-empty
  acceptable certificate;
* `fork_missing_or_empty_cert_refused`, `fork_without_certs_refused`;
* `adoption_eq_sync` (with `reverted_txs_eq`): for a node that followed `pre ++ own` from genesis, adopting an
  accepted fork `bs` at the tip of `pre` succeeds, hands back exactly the transactions of `own` in order, and leaves
  head, state, canonical map, header store and every transaction lookup equal to those of a node that followed
  `pre ++ bs` from genesis (hypotheses: distinct blocks have distinct hashes; no transaction of `pre` reappears in
  `own` — C06);
* `adoption_stores_certs`;
* `processBlocks_no_panic`, `checkForkSize_total`: the fixed resolver returns a verdict on every peer answer;
* flagged witnesses of the rules as they were found: `fork_accept_empty_tip_cert` (F3),
  `checkForkSize_asFound_panics` (F15), `applyFork_asFound_nil_cert_panics`.
-/
namespace IdenaModel.Fork

variable {σ : Type}

/-- distinct blocks have distinct hashes (collision-freeness of the header hash), over the blocks in play -/
def HashInj (U : List Block) : Prop := ∀ b ∈ U, ∀ b' ∈ U, b.hash = b'.hash → b = b'

def exEnvC : Env Nat :=
  { validBody := fun _ s b => some (s + b.hash), certOk := fun _ _ _ c => c.tag == 1 }

/-! ## acceptance is sound -/

theorem validateSubChain_ok {E : Env σ} {R : Rules} {n : Node σ} {h : Nat} {bs : List Bundle}
    (hv : validateSubChain E R n h bs = .ok) :
    ∃ prev s0 t, ownBlock n h = some prev ∧ n.vers h = some s0 ∧ vscLoop E prev s0 bs = true ∧
      bs.getLast? = some t ∧ tipRefused R t.cert = false := by
  unfold validateSubChain at hv
  cases h1 : ownBlock n h with
  | none => rw [h1] at hv; cases hv
  | some prev =>
    rw [h1] at hv; simp only at hv
    cases h2 : n.vers h with
    | none => rw [h2] at hv; cases hv
    | some s0 =>
      rw [h2] at hv; simp only at hv
      cases h3 : vscLoop E prev s0 bs with
      | false => rw [h3] at hv; simp at hv
      | true =>
        rw [h3] at hv; simp only [Bool.not_true, Bool.false_eq_true, if_false] at hv
        cases h4 : bs.getLast? with
        | none => rw [h4] at hv; cases hv
        | some t =>
          rw [h4] at hv; simp only at hv
          cases h5 : tipRefused R t.cert with
          | true => rw [h5] at hv; simp at hv
          | false => exact ⟨prev, s0, t, rfl, rfl, h3, rfl, h5⟩

theorem chainValid_append {E : Env σ} {p : Block} {s : σ} {l : List Bundle} {t : Bundle}
    (h : ChainValid E p s (l ++ [t])) :
    ∃ p' s', runChain E p s l = some (p', s') ∧ ChainValid E p s l ∧ ChainValid E p' s' [t] := by
  induction l generalizing p s with
  | nil => exact ⟨p, s, rfl, ChainValid.nil p s, h⟩
  | cons b rest ih =>
    cases h with
    | cons _ _ _ s1 _ hv hid hc hr =>
      obtain ⟨p', s', h1, h2, h3⟩ := ih hr
      exact ⟨p', s', by simp only [runChain, hv]; exact h1, ChainValid.cons p s b s1 rest hv hid hc h2, h3⟩

/-- **fork_accept_sound.**  `validateSubChain … = ok` (current rules) ⇒ the common block and the state of the common
height exist; every block is valid on its predecessor starting from that state, every identity-update block is
certified and every non-empty certificate is acceptable (`ChainValid`); the tip certificate is `some c` with
`c.sigs ≠ []`, acceptable for the validators of the state the tip was built on. -/
theorem fork_accept_sound (E : Env σ) (n : Node σ) (h : Nat) (bs : List Bundle)
    (hv : validateSubChain E fixed n h bs = .ok) :
    ∃ prev s0, ownBlock n h = some prev ∧ n.vers h = some s0 ∧ ChainValid E prev s0 bs ∧
      ∃ init t c p' s', bs = init ++ [t] ∧ t.cert = some c ∧ c.sigs ≠ [] ∧
        runChain E prev s0 init = some (p', s') ∧ E.certOk p' s' t.block c = true := by
  obtain ⟨prev, s0, t, h1, h2, h3, h4, h5⟩ := validateSubChain_ok hv
  have hcv := (vscLoop_iff E _ _ _).1 h3
  refine ⟨prev, s0, h1, h2, hcv, ?_⟩
  have hbs : bs = bs.dropLast ++ [t] := by
    have hne : bs ≠ [] := by intro e; subst e; simp at h4
    have hl := List.getLast?_eq_some_getLast hne
    rw [hl] at h4; injection h4 with h4
    rw [← h4]; exact (List.dropLast_concat_getLast hne).symm
  have htip : certEmpty t.cert = false := by simpa [tipRefused, fixed] using h5
  obtain ⟨c, hc, hs⟩ := (certEmpty_false_iff _).1 htip
  rw [hbs] at hcv
  obtain ⟨p', s', hr, _, ht⟩ := chainValid_append hcv
  refine ⟨bs.dropLast, t, c, p', s', hbs, hc, hs, hr, ?_⟩
  cases ht with
  | cons _ _ _ _ _ _ _ hcert _ => exact hcert c hc hs

/-- **fork_missing_or_empty_cert_refused.**  A fork whose last block carries no certificate (nil) or an empty one is
never accepted. -/
theorem fork_missing_or_empty_cert_refused (E : Env σ) (n : Node σ) (h : Nat) (bs : List Bundle) (t : Bundle)
    (ht : bs.getLast? = some t) (hc : certEmpty t.cert = true) :
    validateSubChain E fixed n h bs ≠ .ok := by
  intro hv
  obtain ⟨_, _, t', _, _, _, h4, h5⟩ := validateSubChain_ok hv
  rw [ht] at h4; injection h4 with h4; subst h4
  simp [tipRefused, fixed, hc] at h5

/-- a fork without any (non-empty) certificate is never accepted, whatever its length (also the empty list) -/
theorem fork_without_certs_refused (E : Env σ) (n : Node σ) (h : Nat) (bs : List Bundle)
    (hc : ∀ b ∈ bs, certEmpty b.cert = true) : validateSubChain E fixed n h bs ≠ .ok := by
  intro hv
  obtain ⟨_, _, t, _, _, _, h4, _⟩ := validateSubChain_ok hv
  exact fork_missing_or_empty_cert_refused E n h bs t h4 (hc t (List.mem_of_getLast? h4)) hv

/-! ## adoption equals a clean sync -/

/-- **adoption_eq_sync** (and `reverted_txs_eq`). -/
theorem adoption_eq_sync (E : Env σ) (g : Block) (s0 : σ) (pre own bs : List Bundle) (n : Node σ)
    (hn : syncFrom E (genesisNode g s0) (pre ++ own) = some n)
    (hinj : HashInj (g :: blocks (pre ++ own ++ bs)))
    (hdisj : ∀ b ∈ pre, ∀ c ∈ own, ∀ t ∈ b.block.txs, t ∉ c.block.txs)
    (hv : validateSubChain E fixed n (lastBlock g pre).height bs = .ok) :
    ∃ n' m, applyFork E fixed n (lastBlock g pre).height bs = (n', .ok, (blocks own).flatMap (·.txs)) ∧
      syncFrom E (genesisNode g s0) (pre ++ bs) = some m ∧ observe n' = observe m := by
  rw [syncFrom_append] at hn
  cases hnp : syncFrom E (genesisNode g s0) pre with
  | none => rw [hnp] at hn; cases hn
  | some np =>
    rw [hnp] at hn
    replace hn : syncFrom E np own = some n := hn
    have sp := syncFrom_spec E pre _ np hnp
    have so := syncFrom_spec E own np n hn
    -- the universe of blocks
    let P : Block → Prop := fun b => b ∈ g :: blocks (pre ++ own ++ bs)
    have hPpre : ∀ b ∈ pre, P b.block := fun b hb =>
      List.mem_cons_of_mem _ (List.mem_map.2 ⟨b, by simp [hb], rfl⟩)
    have hPown : ∀ b ∈ own, P b.block := fun b hb =>
      List.mem_cons_of_mem _ (List.mem_map.2 ⟨b, by simp [hb], rfl⟩)
    have hPbs : ∀ b ∈ bs, P b.block := fun b hb =>
      List.mem_cons_of_mem _ (List.mem_map.2 ⟨b, by simp [hb], rfl⟩)
    have gnp : Good P np := good_sync E P pre _ np (good_genesis P g s0 (List.mem_cons_self ..)) hPpre hnp
    have hhead : np.head = lastBlock g pre := sp.head
    rw [← hhead] at hv ⊢
    -- blocks of `own` are not in np's header store
    have own_fresh : ∀ c ∈ own, np.hdr c.block.hash = none := by
      intro c hc
      cases hh : np.hdr c.block.hash with
      | none => rfl
      | some b =>
        obtain ⟨p1, p2, p3⟩ := gnp.hdrOk _ b hh
        have : b = c.block := hinj b p1 c.block (hPown c hc) p2
        have := (consec_mem so.consec hc).1
        subst b; omega
    have own_inj : ∀ b ∈ own, ∀ b' ∈ own, b.block.hash = b'.block.hash → b.block = b'.block :=
      fun b hb b' hb' he => hinj _ (hPown b hb) _ (hPown b' hb') he
    -- P1: the common block as seen by n
    obtain ⟨hh0, hcH, hhdrH⟩ : ∃ hh0, np.canon np.head.height = some hh0 ∧ np.hdr hh0 = some np.head := by
      have := gnp.ownHead
      unfold ownBlock at this
      cases hc : np.canon np.head.height with
      | none => rw [hc] at this; cases this
      | some hh0 => rw [hc] at this; exact ⟨hh0, rfl, this⟩
    have hhh0 : np.head.hash = hh0 := (gnp.hdrOk _ _ hhdrH).2.1
    have hncanonH : n.canon np.head.height = some hh0 := by
      rw [so.canon, canonW_low own _ _ _ so.consec (Nat.le_refl _), hcH]
    have hnhdrH : n.hdr hh0 = some np.head := by
      rw [so.hdr, hdrW_notin own _ _ ?_, hhdrH]
      intro c hc he
      have := own_fresh c hc
      rw [he, hhdrH] at this; cases this
    have hP1 : ownBlock n np.head.height = some np.head := by
      simp only [ownBlock, hncanonH, Option.bind_some, hnhdrH]
    -- P2: the state of the common height
    obtain ⟨prev, sc, t, h1, h2, h3, _, _⟩ := validateSubChain_ok hv
    rw [hP1] at h1; injection h1 with h1; subst h1
    have hnpv : np.vers np.head.height = some np.cur :=
      sp.versHead (by simp [genesisNode, upd])
    have hsc : sc = np.cur := by
      have := so.versLow _ _ (Nat.le_refl _) h2
      rw [hnpv] at this; injection this with this; exact this.symm
    subst hsc
    -- P3: the reset
    have hcount : n.head.height - np.head.height = own.length := by rw [so.height]; omega
    have hcanonAt : ∀ i (hi : i < own.length), n.canon (np.head.height + 1 + i) = some (own[i]).block.hash := by
      intro i hi; rw [so.canon]; exact canonW_at own _ _ so.consec i hi
    have hrcanon : (dropRange n.canon n.hdr (np.head.height + 1) own.length).1 = np.canon := by
      funext x
      rw [dropRange_canon]
      split
      next hx => exact (gnp.canonHigh x (by omega)).symm
      next hx =>
        rw [so.canon]
        by_cases hlow : x ≤ np.head.height
        · exact canonW_low own _ _ _ so.consec hlow
        · exact canonW_high own _ _ _ so.consec (by omega)
    have hrhdr : (dropRange n.canon n.hdr (np.head.height + 1) own.length).2.1 = np.hdr := by
      funext y
      by_cases hy : ∃ c ∈ own, c.block.hash = y
      · obtain ⟨c, hc, rfl⟩ := hy
        obtain ⟨i, hi, rfl⟩ := List.getElem_of_mem hc
        rw [dropRange_hdr_removed _ _ _ _ _ ⟨np.head.height + 1 + i, by omega, by omega, hcanonAt i hi⟩]
        exact (own_fresh _ hc).symm
      · rw [dropRange_hdr_kept]
        · rw [so.hdr]; exact hdrW_notin own _ _ (fun c hc he => hy ⟨c, hc, he⟩)
        · intro x hx1 hx2 he
          have := hcanonAt (x - (np.head.height + 1)) (by omega)
          rw [show np.head.height + 1 + (x - (np.head.height + 1)) = x by omega, he] at this
          injection this with this
          exact hy ⟨_, List.getElem_mem _, this.symm⟩
    have hrrev : (dropRange n.canon n.hdr (np.head.height + 1) own.length).2.2 = (blocks own).flatMap (·.txs) := by
      have hlen : (blocks own).length = own.length := by simp [blocks]
      rw [← hlen]
      apply dropRange_rev
      · intro i hi
        have hi' : i < own.length := by rw [← hlen]; exact hi
        have hb : (blocks own)[i] = (own[i]).block := by simp [blocks]
        rw [hb]
        exact ⟨hcanonAt i hi', by rw [so.hdr]; exact hdrW_mem own _ own_inj _ (List.getElem_mem hi')⟩
      · intro i j hi hj hij he
        have hi' : i < own.length := by rw [← hlen]; exact hi
        have hj' : j < own.length := by rw [← hlen]; exact hj
        have hbi : (blocks own)[i] = (own[i]).block := by simp [blocks]
        have hbj : (blocks own)[j] = (own[j]).block := by simp [blocks]
        rw [hbi, hbj] at he
        have := own_inj _ (List.getElem_mem hi') _ (List.getElem_mem hj') he
        have h1 := so.consec i hi'
        have h2 := so.consec j hj'
        rw [this] at h1; omega
    -- the reset node has the core of np
    have hreset : resetTo n np.head.height =
        .ok ({ head := np.head, cur := np.cur, canon := np.canon, hdr := np.hdr, txIdx := n.txIdx, certs := n.certs,
                vers := fun x => if np.head.height < x then none else n.vers x }, (blocks own).flatMap (·.txs)) := by
      unfold resetTo ensureCanonical
      simp only [h2, hP1, hcount, hrcanon, hrhdr, hrrev]
    -- P4: the fork blocks are added alike
    obtain ⟨a', m', ha', hm', e1, e2, e3, e4⟩ := syncFrom_core E bs
      ({ head := np.head, cur := np.cur, canon := np.canon, hdr := np.hdr, txIdx := n.txIdx, certs := n.certs,
         vers := fun x => if np.head.height < x then none else n.vers x } : Node σ) np rfl rfl rfl rfl h3
    refine ⟨a', m', ?_, ?_, ?_⟩
    · unfold applyFork
      simp only [hreset, applyBlocks_fixed E bs _ a' ha', if_true]
    · rw [syncFrom_append, hnp]; exact hm'
    · -- P5: observations
      have sa := syncFrom_spec E bs _ a' ha'
      have sm := syncFrom_spec E bs np m' hm'
      have htx : getTx a' = getTx m' := by
        funext t
        have hidxa : a'.txIdx t = idxW bs n.txIdx t := by rw [sa.txIdx]
        have hidxm : m'.txIdx t = idxW bs np.txIdx t := by rw [sm.txIdx]
        by_cases hf : ∃ b ∈ bs, t ∈ b.block.txs
        · have := (idxW_mem bs n.txIdx np.txIdx t hf).1
          unfold getTx; rw [hidxa, hidxm, this, e4]
        · have hf' : ∀ b ∈ bs, t ∉ b.block.txs := fun b hb h => hf ⟨b, hb, h⟩
          rw [idxW_notin bs _ t hf'] at hidxa hidxm
          by_cases ho : ∃ c ∈ own, t ∈ c.block.txs
          · obtain ⟨_, c, hc, htc, j, hj⟩ := idxW_mem own np.txIdx np.txIdx t ho
            rw [← so.txIdx] at hj
            have hnone : a'.hdr c.block.hash = none := by
              rw [e4, sm.hdr, hdrW_notin bs _ _ ?_, own_fresh c hc]
              intro d hd he
              have : d.block = c.block := hinj _ (hPbs d hd) _ (hPown c hc) he
              exact hf' d hd (this ▸ htc)
            have hnpidx : np.txIdx t = none := by
              rw [sp.txIdx]
              rw [idxW_notin pre _ t (fun b hb h => hdisj b hb c hc t h htc)]
              rfl
            unfold getTx
            rw [hidxa, hidxm, hj, hnpidx]
            simp only [hnone]
          · have : n.txIdx t = np.txIdx t := by
              rw [so.txIdx]; exact idxW_notin own _ t (fun c hc h => ho ⟨c, hc, h⟩)
            unfold getTx; rw [hidxa, hidxm, this, e4]
      simp only [observe, e1, e2, e3, e4, htx]

/-- **reverted_txs_eq**: the transactions handed back by an adoption are those of the abandoned blocks, in order. -/
theorem reverted_txs_eq (E : Env σ) (g : Block) (s0 : σ) (pre own bs : List Bundle) (n : Node σ)
    (hn : syncFrom E (genesisNode g s0) (pre ++ own) = some n)
    (hinj : HashInj (g :: blocks (pre ++ own ++ bs)))
    (hdisj : ∀ b ∈ pre, ∀ c ∈ own, ∀ t ∈ b.block.txs, t ∉ c.block.txs)
    (hv : validateSubChain E fixed n (lastBlock g pre).height bs = .ok) :
    (applyFork E fixed n (lastBlock g pre).height bs).2 = (.ok, (blocks own).flatMap (·.txs)) := by
  obtain ⟨n', m, h, _, _⟩ := adoption_eq_sync E g s0 pre own bs n hn hinj hdisj hv
  rw [h]

/-! ## stored certificates -/

def certsW (bs : List Bundle) (m : Nat → Option Cert) : Nat → Option Cert :=
  bs.foldl (fun m b => if certEmpty b.cert then m else upd m b.block.hash b.cert) m

theorem syncFrom_certs (E : Env σ) (bs : List Bundle) (a a' : Node σ) (h : syncFrom E a bs = some a') :
    a'.certs = certsW bs a.certs := by
  induction bs generalizing a with
  | nil => simp only [syncFrom, Option.some.injEq] at h; subst h; rfl
  | cons b rest ih =>
    simp only [syncFrom] at h
    cases h1 : addBlock E a b.block with
    | none => rw [h1] at h; cases h
    | some n1 =>
      rw [h1] at h; simp only at h
      cases h2 : writeCert fixed n1 b with
      | none => rw [h2] at h; cases h
      | some n2 =>
        rw [h2] at h; simp only at h
        rw [ih n2 h]
        obtain ⟨s', _, hn1⟩ := addBlock_some h1
        unfold writeCert at h2
        simp only [fixed, Bool.false_eq_true, if_false] at h2
        show certsW rest n2.certs = certsW rest (if certEmpty b.cert then a.certs else upd a.certs b.block.hash b.cert)
        split at h2 <;> rename_i hce <;> (injection h2 with h2; subst h2; simp [hce, hn1])

theorem certsW_mem (bs : List Bundle) (m : Nat → Option Cert) (b : Bundle) (hb : b ∈ bs)
    (hne : certEmpty b.cert = false)
    (hu : ∀ b' ∈ bs, b'.block.hash = b.block.hash → b'.cert = b.cert) :
    certsW bs m b.block.hash = b.cert := by
  induction bs generalizing m with
  | nil => simp at hb
  | cons c rest ih =>
    show certsW rest (if certEmpty c.cert then m else upd m c.block.hash c.cert) b.block.hash = b.cert
    by_cases hin : b ∈ rest
    · exact ih _ hin (fun b' hb' => hu b' (List.mem_cons_of_mem _ hb'))
    · have hcb : c = b := by rcases List.mem_cons.1 hb with h | h; exact h.symm; exact absurd h hin
      subst hcb
      simp only [hne, Bool.false_eq_true, if_false]
      -- later bundles with the same hash carry the same certificate, the others do not touch the entry
      have : ∀ (l : List Bundle) (m' : Nat → Option Cert), m' c.block.hash = c.cert →
          (∀ b' ∈ l, b'.block.hash = c.block.hash → b'.cert = c.cert) → certsW l m' c.block.hash = c.cert := by
        intro l
        induction l with
        | nil => intro m' hm _; exact hm
        | cons d l ih' =>
          intro m' hm hl
          show certsW l (if certEmpty d.cert then m' else upd m' d.block.hash d.cert) c.block.hash = c.cert
          apply ih' _ _ (fun b' hb' => hl b' (List.mem_cons_of_mem _ hb'))
          split
          · exact hm
          · simp only [upd]
            split
            next he => exact hl d (List.mem_cons_self ..) he.symm
            next => exact hm
      exact this rest _ (by simp [upd]) (fun b' hb' => hu b' (List.mem_cons_of_mem _ hb'))

/-- **adoption_stores_certs**: after an adoption every non-empty certificate of the fork is stored under its block
hash (bundles sharing a hash carry the same certificate). -/
theorem adoption_stores_certs (E : Env σ) (g : Block) (s0 : σ) (pre own bs : List Bundle) (n : Node σ)
    (hn : syncFrom E (genesisNode g s0) (pre ++ own) = some n)
    (hinj : HashInj (g :: blocks (pre ++ own ++ bs)))
    (hdisj : ∀ b ∈ pre, ∀ c ∈ own, ∀ t ∈ b.block.txs, t ∉ c.block.txs)
    (hv : validateSubChain E fixed n (lastBlock g pre).height bs = .ok)
    (b : Bundle) (hb : b ∈ bs) (hne : certEmpty b.cert = false)
    (hu : ∀ b' ∈ bs, b'.block.hash = b.block.hash → b'.cert = b.cert) :
    (applyFork E fixed n (lastBlock g pre).height bs).1.certs b.block.hash = b.cert := by
  obtain ⟨n', m, h, _, _⟩ := adoption_eq_sync E g s0 pre own bs n hn hinj hdisj hv
  -- the node reached is the sync of `bs` from the reset node
  unfold applyFork at h ⊢
  cases hr : resetTo n (lastBlock g pre).height with
  | error n1 => rw [hr] at h; simp at h
  | ok r =>
    obtain ⟨n0, rev⟩ := r
    rw [hr] at h; simp only at h ⊢
    have hok : (applyBlocks E fixed n0 bs).2 = .ok := by
      have := congrArg (fun x => x.2.1) h; simpa using this
    -- applyBlocks ok ⇒ syncFrom some
    have key : ∀ (l : List Bundle) (a : Node σ), (applyBlocks E fixed a l).2 = .ok →
        syncFrom E a l = some (applyBlocks E fixed a l).1 := by
      intro l
      induction l with
      | nil => intro a _; rfl
      | cons c l ih =>
        intro a hk
        unfold applyBlocks at hk ⊢
        simp only [syncFrom]
        cases h1 : addBlock E a c.block with
        | none => rw [h1] at hk; simp at hk
        | some n1 =>
          rw [h1] at hk; simp only at hk ⊢
          cases h2 : writeCert fixed n1 c with
          | none => rw [h2] at hk; simp at hk
          | some n2 => rw [h2] at hk; simp only at hk ⊢; exact ih n2 hk
    rw [syncFrom_certs E bs n0 _ (key bs n0 hok)]
    exact certsW_mem bs _ b hb hne hu

/-! ## the certificate index after an adoption -/

theorem applyBlocks_ok_sync (E : Env σ) (l : List Bundle) (a : Node σ) (hk : (applyBlocks E fixed a l).2 = .ok) :
    syncFrom E a l = some (applyBlocks E fixed a l).1 := by
  induction l generalizing a with
  | nil => rfl
  | cons c l ih =>
    unfold applyBlocks at hk ⊢
    simp only [syncFrom]
    cases h1 : addBlock E a c.block with
    | none => rw [h1] at hk; simp at hk
    | some n1 =>
      rw [h1] at hk; simp only at hk ⊢
      cases h2 : writeCert fixed n1 c with
      | none => rw [h2] at hk; simp at hk
      | some n2 => rw [h2] at hk; simp only at hk ⊢; exact ih n2 hk

theorem ensureCanonical_certs {n n1 : Node σ} {h : Nat} (he : ensureCanonical n h = some n1) :
    n1.certs = n.certs ∧ n1.vers = n.vers ∧ n1.head = n.head ∧ n1.cur = n.cur := by
  unfold ensureCanonical at he
  split at he
  · injection he with he; subst he; exact ⟨rfl, rfl, rfl, rfl⟩
  · split at he
    · split at he
      · injection he with he; subst he; exact ⟨rfl, rfl, rfl, rfl⟩
      · cases he
    · cases he

theorem resetTo_ok_certs {n n0 : Node σ} {c : Nat} {rev : List Nat} (hr : resetTo n c = .ok (n0, rev)) :
    n0.certs = n.certs := by
  unfold resetTo at hr
  cases he : ensureCanonical n c with
  | none => rw [he] at hr; cases hr
  | some n1 =>
    rw [he] at hr; simp only at hr
    cases hv : n1.vers c with
    | none => rw [hv] at hr; cases hr
    | some s =>
      rw [hv] at hr; simp only [Except.ok.injEq, Prod.mk.injEq] at hr
      rw [← hr.1]; exact (ensureCanonical_certs he).1

/-- the certificate index after a completed `applyFork` is the old one plus the non-empty fork certificates -/
theorem applyFork_ok_certs (E : Env σ) (n : Node σ) (c : Nat) (bs : List Bundle)
    (h : (applyFork E fixed n c bs).2.1 = .ok) : (applyFork E fixed n c bs).1.certs = certsW bs n.certs := by
  unfold applyFork at h ⊢
  cases hr : resetTo n c with
  | error n1 => rw [hr] at h; simp at h
  | ok r =>
    obtain ⟨n0, rev⟩ := r
    rw [hr] at h; simp only at h ⊢
    rw [syncFrom_certs E bs n0 _ (applyBlocks_ok_sync E bs n0 h), resetTo_ok_certs hr]

theorem certsW_congr (bs : List Bundle) (m m' : Nat → Option Cert) (y : Nat) (h : m y = m' y) :
    certsW bs m y = certsW bs m' y := by
  induction bs generalizing m m' with
  | nil => exact h
  | cons b rest ih =>
    show certsW rest (if certEmpty b.cert then m else upd m b.block.hash b.cert) y =
      certsW rest (if certEmpty b.cert then m' else upd m' b.block.hash b.cert) y
    apply ih
    split
    · exact h
    · simp only [upd]; split
      · rfl
      · exact h

theorem certsW_notin (bs : List Bundle) (m : Nat → Option Cert) (y : Nat) (hy : ∀ b ∈ bs, b.block.hash ≠ y) :
    certsW bs m y = m y := by
  induction bs generalizing m with
  | nil => rfl
  | cons b rest ih =>
    show certsW rest (if certEmpty b.cert then m else upd m b.block.hash b.cert) y = m y
    rw [ih _ (fun c hc => hy c (List.mem_cons_of_mem _ hc))]
    split
    · rfl
    · have := hy b (List.mem_cons_self ..)
      simp [upd]; intro e; exact absurd e.symm this

theorem certsW_nonempty (bs : List Bundle) (m : Nat → Option Cert)
    (hm : ∀ y c, m y = some c → c.sigs ≠ []) : ∀ y c, certsW bs m y = some c → c.sigs ≠ [] := by
  induction bs generalizing m with
  | nil => exact hm
  | cons b rest ih =>
    show ∀ y c, certsW rest (if certEmpty b.cert then m else upd m b.block.hash b.cert) y = some c → c.sigs ≠ []
    apply ih
    intro y c hc
    split at hc
    · exact hm y c hc
    next hne =>
      simp only [upd] at hc
      split at hc
      · obtain ⟨d, hd, hs⟩ := (certEmpty_false_iff _).1 (by simpa using hne)
        rw [hd] at hc; injection hc with hc; subst hc; exact hs
      · exact hm y c hc

/-- **adoption_certs_eq_sync**: after an adoption the certificate index agrees with that of a node that followed
`pre ++ bs` from genesis at every block hash that is not the hash of an abandoned block (the adopting node keeps the
certificates it had stored for abandoned blocks; nothing else differs). -/
theorem adoption_certs_eq_sync (E : Env σ) (g : Block) (s0 : σ) (pre own bs : List Bundle) (n m : Node σ)
    (hn : syncFrom E (genesisNode g s0) (pre ++ own) = some n)
    (hm : syncFrom E (genesisNode g s0) (pre ++ bs) = some m)
    (hok : (applyFork E fixed n (lastBlock g pre).height bs).2.1 = .ok)
    (y : Nat) (hy : ∀ c ∈ own, c.block.hash ≠ y) :
    (applyFork E fixed n (lastBlock g pre).height bs).1.certs y = m.certs y := by
  rw [applyFork_ok_certs E n _ bs hok]
  rw [syncFrom_append] at hn hm
  cases hnp : syncFrom E (genesisNode g s0) pre with
  | none => rw [hnp] at hn; cases hn
  | some np =>
    rw [hnp] at hn hm
    replace hn : syncFrom E np own = some n := hn
    replace hm : syncFrom E np bs = some m := hm
    rw [syncFrom_certs E bs np m hm, syncFrom_certs E own np n hn]
    exact certsW_congr bs _ _ y (certsW_notin own _ y hy)

/-- **adoption_stores_no_empty_cert**: a node that followed its chain from genesis and then adopts a fork never holds
a certificate record without signatures (an empty non-nil certificate delivered with a fork block leaves no record;
`ReadBlockForForkedPeer` takes any record for "certified"). -/
theorem adoption_stores_no_empty_cert (E : Env σ) (g : Block) (s0 : σ) (chain bs : List Bundle) (n : Node σ) (c : Nat)
    (hn : syncFrom E (genesisNode g s0) chain = some n)
    (hok : (applyFork E fixed n c bs).2.1 = .ok) :
    ∀ y d, (applyFork E fixed n c bs).1.certs y = some d → d.sigs ≠ [] := by
  rw [applyFork_ok_certs E n c bs hok, syncFrom_certs E chain _ n hn]
  apply certsW_nonempty
  apply certsW_nonempty
  intro y d h; simp [genesisNode] at h

/-- flagged witness of the seeded rule `bundle.Cert != nil`: storing every non-nil certificate leaves a record without
signatures for a fork block delivered with the empty certificate shape -/
theorem applyFork_nonNil_rule_stores_empty_cert :
    ∃ (n : Node Nat) (bs : List Bundle), validateSubChain exEnvC fixed n 2 bs = .ok ∧
      (applyFork exEnvC { fixed with writeEveryCert := true } n 2 bs).1.certs 4 = some ⟨[], 0⟩ ∧
      (applyFork exEnvC fixed n 2 bs).1.certs 4 = none :=
  ⟨(syncFrom exEnvC (genesisNode ⟨1, 1, 0, false, false, 0, []⟩ 0)
      [⟨⟨2, 2, 1, false, false, 5, [10]⟩, none⟩]).getD (genesisNode ⟨1, 1, 0, false, false, 0, []⟩ 0),
   [⟨⟨4, 3, 2, false, false, 7, []⟩, some ⟨[], 0⟩⟩, ⟨⟨5, 4, 4, false, false, 7, []⟩, some ⟨[1], 1⟩⟩],
   by decide, by decide, by decide⟩

/-! ## a failed adoption changes nothing -/

/-- **failed_adoption_unchanged**: when the state of the common height is no longer retained (the own chain moved on
between fork validation and `applyFork`, or the ancestor was at the edge of the window) while the canonical block of
that height is there, `applyFork` answers `err`, hands back nothing and leaves the node exactly as it was — head,
loaded state, every repository map, every saved version. -/
theorem failed_adoption_unchanged (E : Env σ) (R : Rules) (n : Node σ) (c : Nat) (bs : List Bundle) (b : Block)
    (hb : ownBlock n c = some b) (hv : n.vers c = none) : applyFork E R n c bs = (n, .err, []) := by
  unfold applyFork resetTo ensureCanonical
  simp only [hb, hv]

/-- whatever makes the rollback fail, the head, the loaded state, the certificates and the saved versions are those
of before (only a missing canonical header of the target may have been restored) -/
theorem failed_reset_keeps_head_and_state (n n1 : Node σ) (c : Nat) (h : resetTo n c = .error n1) :
    n1.head = n.head ∧ n1.cur = n.cur ∧ n1.vers = n.vers ∧ n1.certs = n.certs := by
  unfold resetTo at h
  cases he : ensureCanonical n c with
  | none => rw [he] at h; simp only [Except.error.injEq] at h; subst h; exact ⟨rfl, rfl, rfl, rfl⟩
  | some n2 =>
    rw [he] at h; simp only at h
    obtain ⟨h1, h2, h3, h4⟩ := ensureCanonical_certs he
    cases hv : n2.vers c with
    | none => rw [hv] at h; simp only [Except.error.injEq] at h; subst h; exact ⟨h3, h4, h2, h1⟩
    | some s => rw [hv] at h; cases h

/-- the version of the common height is pruned by the own blocks added after the fork was validated: a node that
followed `chain` and whose head is `keep` or more above `c` has no version `c` -/
theorem saveVersion_prunes (vers : Nat → Option σ) (h c : Nat) (s : σ) (hc : c + keep ≤ h) :
    saveVersion vers h s c = none := by
  unfold saveVersion
  have : c ≠ h := by unfold keep at hc; omega
  simp [this, hc]

/-! ## the resolver returns a verdict on every peer answer -/

theorem cfsLoop_fixed_error (n : Node σ) (f : List Bundle) (k i j fp op : Nat) (v : Verdict)
    (h : cfsLoop fixed n f k i j fp op = .error v) : v = .err := by
  induction k generalizing i j fp op with
  | zero => simp [cfsLoop] at h
  | succ k ih =>
    unfold cfsLoop at h
    split at h
    · simp [fixed] at h; exact h.symm
    · split at h
      · injection h with h; exact h.symm
      · split at h
        · simp [fixed] at h; exact h.symm
        · exact ih _ _ _ _ h

theorem cfsLoop_ok_first (R : Rules) (n : Node σ) (f : List Bundle) (k i j fp op : Nat) (r : Nat × Nat)
    (h : cfsLoop R n f (k + 1) i j fp op = .ok r) : ∃ ob, ownBlock n i = some ob := by
  unfold cfsLoop at h
  split at h
  · cases h
  · split at h
    · cases h
    · split at h
      · cases h
      next ob hob => exact ⟨ob, hob⟩

theorem sorted_head_le_last {l : List Bundle}
    (hp : l.Pairwise (fun a b => (decide (a.block.height ≤ b.block.height)) = true)) {a b : Bundle}
    (ha : l.head? = some a) (hb : l.getLast? = some b) : a.block.height ≤ b.block.height := by
  cases l with
  | nil => simp at ha
  | cons x t =>
    simp only [List.head?_cons, Option.some.injEq] at ha; subst ha
    cases t with
    | nil => simp at hb; subst hb; exact Nat.le_refl _
    | cons y t' =>
      have hmem : b ∈ y :: t' := by
        rw [List.getLast?_cons_cons] at hb; exact List.mem_of_getLast? hb
      have := List.rel_of_pairwise_cons hp hmem
      simpa using this

theorem sortBlocks_sorted (l : List Bundle) :
    (sortBlocks l).Pairwise (fun a b => (decide (a.block.height ≤ b.block.height)) = true) := by
  unfold sortBlocks
  apply List.pairwise_mergeSort
  · intro a b c h1 h2; simp at h1 h2 ⊢; omega
  · intro a b; simp; omega

/-- **checkForkSize_total**: on the (sorted) answer of any peer the fixed `checkForkSize` returns `ok` or `err`,
never the index-out-of-range / nil-dereference outcome. -/
theorem checkForkSize_total (n : Node σ) (l : List Bundle) : checkForkSize fixed n (sortBlocks l) ≠ .panic := by
  unfold checkForkSize
  split
  next first last hf hl =>
    split
    · simp
    · split
      next v hv => rw [cfsLoop_fixed_error _ _ _ _ _ _ _ _ hv]; simp
      next fp op hv =>
        split
        · simp
        · have hle := sorted_head_le_last (sortBlocks_sorted l) hf hl
          have hk : last.block.height + 1 - first.block.height = (last.block.height - first.block.height) + 1 := by omega
          rw [hk] at hv
          obtain ⟨ob, hob⟩ := cfsLoop_ok_first _ _ _ _ _ _ _ _ _ hv
          rw [hob]; simp only
          split <;> simp
  · simp

theorem validateSubChain_no_panic (E : Env σ) (R : Rules) (n : Node σ) (h : Nat) (bs : List Bundle) (hne : bs ≠ []) :
    validateSubChain E R n h bs ≠ .panic := by
  unfold validateSubChain
  split
  · simp
  · split
    · simp
    · split
      · simp
      · split
        next hl => exact absurd (List.getLast?_eq_none_iff.1 hl) hne
        · split <;> simp

/-- **processBlocks_no_panic**: the fixed resolver answers every peer list (any heights, gaps, duplicates, order,
certificate shapes) with `ok` or `err`. -/
theorem processBlocks_no_panic (E : Env σ) (n : Node σ) (l : List Bundle) : (processBlocks E fixed n l).1 ≠ .panic := by
  unfold processBlocks
  split
  · simp
  next hl =>
    have hne : sortBlocks l ≠ [] := by
      intro e
      have := (List.mergeSort_perm l (fun a b => decide (a.block.height ≤ b.block.height))).length_eq
      unfold sortBlocks at e; rw [e] at this
      simp at this hl; exact hl (List.eq_nil_of_length_eq_zero this.symm)
    have h1 := checkForkSize_total n l
    have h2 := validateSubChain_no_panic E fixed n (commonHeight (sortBlocks l)) (sortBlocks l) hne
    cases hc : checkForkSize fixed n (sortBlocks l) with
    | ok =>
      simp only
      cases hv : validateSubChain E fixed n (commonHeight (sortBlocks l)) (sortBlocks l) with
      | ok => simp
      | err => simp
      | panic => exact absurd hv h2
    | err => simp
    | panic => exact absurd hc h1

/-- a fork is found applicable only if `checkForkSize` and `ValidateSubChain` both said ok on the sorted list -/
theorem processBlocks_applicable (E : Env σ) (R : Rules) (n : Node σ) (l : List Bundle) (c : Nat) (f : List Bundle)
    (h : (processBlocks E R n l).2 = some (c, f)) :
    f = sortBlocks l ∧ c = commonHeight f ∧ checkForkSize R n f = .ok ∧ validateSubChain E R n c f = .ok := by
  unfold processBlocks at h
  split at h
  · cases h
  · cases hc : checkForkSize R n (sortBlocks l) with
    | ok =>
      rw [hc] at h; simp only at h
      cases hv : validateSubChain E R n (commonHeight (sortBlocks l)) (sortBlocks l) with
      | ok =>
        rw [hv] at h; simp only [Option.some.injEq, Prod.mk.injEq] at h
        obtain ⟨rfl, rfl⟩ := h
        exact ⟨rfl, rfl, hc, hv⟩
      | err => rw [hv] at h; cases h
      | panic => rw [hv] at h; cases h
    | err => rw [hc] at h; cases h
    | panic => rw [hc] at h; cases h

/-- **resolver_adoption_eq_sync**: end to end through the resolver.  Whatever list a peer sends to a node that
followed `pre ++ own` from genesis: if `processBlocks` stores an applicable fork `(c, f)` whose common height is the
tip of `pre`, then `f` is the height-sorted list, it passed the weight rule and `ValidateSubChain`, and `applyFork`
completes, hands back the transactions of `own` in order and leaves the node observably equal to one that followed
`pre ++ f` from genesis. -/
theorem resolver_adoption_eq_sync (E : Env σ) (g : Block) (s0 : σ) (pre own l : List Bundle) (n : Node σ)
    (c : Nat) (f : List Bundle)
    (hn : syncFrom E (genesisNode g s0) (pre ++ own) = some n)
    (hp : (processBlocks E fixed n l).2 = some (c, f))
    (hc : c = (lastBlock g pre).height)
    (hinj : HashInj (g :: blocks (pre ++ own ++ f)))
    (hdisj : ∀ b ∈ pre, ∀ d ∈ own, ∀ t ∈ b.block.txs, t ∉ d.block.txs) :
    f = sortBlocks l ∧ checkForkSize fixed n f = .ok ∧
    ∃ n' m, applyFork E fixed n c f = (n', .ok, (blocks own).flatMap (·.txs)) ∧
      syncFrom E (genesisNode g s0) (pre ++ f) = some m ∧ observe n' = observe m := by
  obtain ⟨h1, _, h3, h4⟩ := processBlocks_applicable E fixed n l c f hp
  subst hc
  exact ⟨h1, h3, adoption_eq_sync E g s0 pre own f n hn hinj hdisj h4⟩

/-! ## non-vacuity and the flagged witnesses of the rules as found -/

def exEnv : Env Nat :=
  { validBody := fun _ s b => some (s + b.hash), certOk := fun _ _ _ c => c.tag == 1 }
def exG : Block := ⟨1, 1, 0, false, false, 0, []⟩
def exPre : List Bundle := [⟨⟨2, 2, 1, false, false, 5, [10]⟩, none⟩]
def exOwn : List Bundle := [⟨⟨3, 3, 2, false, false, 5, [11]⟩, none⟩, ⟨⟨6, 4, 3, true, false, 1, []⟩, none⟩]
def exFork : List Bundle :=
  [⟨⟨4, 3, 2, false, true, 7, [11, 12]⟩, some ⟨[1], 1⟩⟩, ⟨⟨5, 4, 4, true, false, 0, []⟩, none⟩,
   ⟨⟨7, 5, 5, false, false, 2, [13]⟩, some ⟨[1, 2], 1⟩⟩]

/-- the hypotheses of `adoption_eq_sync` / `fork_accept_sound` are satisfiable (a 3-block fork with an
identity-update block, an uncertified middle block and a transaction shared with the abandoned branch) -/
example : ∃ n, syncFrom exEnv (genesisNode exG 0) (exPre ++ exOwn) = some n ∧
    validateSubChain exEnv fixed n (lastBlock exG exPre).height exFork = .ok ∧
    getTx (applyFork exEnv fixed n 2 exFork).1 11 = .found 4 0 ∧
    getTx (applyFork exEnv fixed n 2 exFork).1 10 = .found 2 0 ∧
    (applyFork exEnv fixed n 2 exFork).2 = (.ok, [11]) :=
  ⟨_, rfl, by decide, by decide, by decide, by decide⟩

example : HashInj (exG :: blocks (exPre ++ exOwn ++ exFork)) := by unfold HashInj; decide

example : ∀ b ∈ exPre, ∀ c ∈ exOwn, ∀ t ∈ b.block.txs, t ∉ c.block.txs := by decide

/-- **fork_accept_empty_tip_cert** (flagged; F3, fixed by c8a5bacb): with the tip rule as it was found (`Cert == nil`)
a fork whose only certificate is an empty non-nil one on the tip is accepted; the current rule refuses it. -/
theorem fork_accept_empty_tip_cert :
    ∃ (n : Node Nat) (bs : List Bundle) (t : Bundle), bs.getLast? = some t ∧ t.cert = some ⟨[], 0⟩ ∧
      validateSubChain exEnv { fixed with tipNilOnly := true } n 2 bs = .ok ∧
      validateSubChain exEnv fixed n 2 bs = .err :=
  ⟨(syncFrom exEnv (genesisNode exG 0) exPre).getD (genesisNode exG 0),
   [⟨⟨4, 3, 2, false, false, 7, []⟩, none⟩, ⟨⟨5, 4, 4, false, false, 7, []⟩, some ⟨[], 0⟩⟩], _, rfl, rfl,
   by decide, by decide⟩

/-- **checkForkSize_asFound_panics** (flagged; F15, fixed by e26aad05): heights {3, 5} with the tip not above the own
head index out of range in the loop as it was found; the current loop answers `err`. -/
theorem checkForkSize_asFound_panics :
    ∃ (n : Node Nat) (f : List Bundle),
      checkForkSize { fixed with cfsUnguarded := true } n f = .panic ∧ checkForkSize fixed n f = .err :=
  ⟨(syncFrom exEnv (genesisNode exG 0) (exPre ++ exOwn ++
      [⟨⟨8, 5, 6, false, false, 1, []⟩, none⟩])).getD (genesisNode exG 0),
   [⟨⟨4, 3, 2, false, false, 7, []⟩, none⟩, ⟨⟨9, 5, 4, false, false, 7, []⟩, none⟩], by decide, by decide⟩

/-- **applyFork_asFound_nil_cert_panics** (flagged; fixed by 1b0d82a6): a fork that `ValidateSubChain` accepts
(middle block without certificate) made `applyFork` dereference the nil certificate after the reset and the first
insertion; with the current rule the same adoption completes. -/
theorem applyFork_asFound_nil_cert_panics :
    ∃ (n : Node Nat), validateSubChain exEnv fixed n 2 exFork = .ok ∧
      (applyFork exEnv { fixed with writeEveryCert := true } n 2 exFork).2.1 = .panic ∧
      (applyFork exEnv { fixed with writeEveryCert := true } n 2 exFork).1.head.hash = 5 ∧
      (applyFork exEnv fixed n 2 exFork).2.1 = .ok :=
  ⟨(syncFrom exEnv (genesisNode exG 0) (exPre ++ exOwn)).getD (genesisNode exG 0), by decide, by decide, by decide,
   by decide⟩

end IdenaModel.Fork
