import IdenaModel.Model.KeyEmbed
/-!
# C13, glue lemma: the driver's embedding of byte-string keys into `Nat` is an order embedding

`enc_lt_iff`: for keys of at most `n` bytes, `bytes.Compare`-less ⇔ numerically less.  `enc_inj`: distinct keys get
distinct numbers.  So the sorted association list over `Nat` keys of the model is the sorted store over byte keys of the
implementation, and range bounds translate exactly.
-/
namespace IdenaModel.KeyEmbed

theorem enc_lt_pow (n : Nat) (bs : List Nat) (h : ∀ b ∈ bs, b < 256) : enc n bs < 257 ^ n := by
  induction n generalizing bs with
  | zero => simp [enc]
  | succ n ih =>
    cases bs with
    | nil => simp [enc]; exact Nat.pow_pos (by decide)
    | cons b bs =>
      have hb : b < 256 := h b (by simp)
      have ih' := ih bs (fun x hx => h x (by simp [hx]))
      simp only [enc]
      have h1 : (b + 1) * 257 ^ n ≤ 256 * 257 ^ n := Nat.mul_le_mul_right _ (by omega)
      have h2 : 257 ^ (n + 1) = 256 * 257 ^ n + 257 ^ n := by rw [Nat.pow_succ]; omega
      omega

theorem enc_lt_iff (n : Nat) (bs cs : List Nat) (hb : IsKey n bs) (hc : IsKey n cs) :
    lexLt bs cs = true ↔ enc n bs < enc n cs := by
  induction n generalizing bs cs with
  | zero =>
    have h1 : bs = [] := List.length_eq_zero_iff.mp (by have := hb.1; omega)
    have h2 : cs = [] := List.length_eq_zero_iff.mp (by have := hc.1; omega)
    subst h1; subst h2; simp [lexLt, enc]
  | succ n ih =>
    cases bs with
    | nil =>
      cases cs with
      | nil => simp [lexLt, enc]
      | cons c cs =>
        simp only [lexLt, enc, true_iff]
        have : 0 < (c + 1) * 257 ^ n := Nat.mul_pos (by omega) (Nat.pow_pos (by decide))
        omega
    | cons b bs =>
      cases cs with
      | nil => simp [lexLt, enc]
      | cons c cs =>
        have hbs : IsKey n bs := ⟨by have := hb.1; simp at this; omega, fun x hx => hb.2 x (by simp [hx])⟩
        have hcs : IsKey n cs := ⟨by have := hc.1; simp at this; omega, fun x hx => hc.2 x (by simp [hx])⟩
        have eb := enc_lt_pow n bs hbs.2
        have ec := enc_lt_pow n cs hcs.2
        simp only [lexLt, enc]
        by_cases hlt : b < c
        · simp only [hlt, if_true, true_iff]
          have h1 : (b + 2) * 257 ^ n ≤ (c + 1) * 257 ^ n := Nat.mul_le_mul_right _ (by omega)
          have h2 : (b + 2) * 257 ^ n = (b + 1) * 257 ^ n + 257 ^ n := by rw [Nat.add_mul, Nat.add_mul]; omega
          omega
        · simp only [hlt, if_false]
          by_cases heq : b = c
          · subst heq
            simp only [if_true]
            rw [ih bs cs hbs hcs]
            omega
          · simp only [heq, if_false]
            have hgt : c < b := by omega
            have h1 : (c + 2) * 257 ^ n ≤ (b + 1) * 257 ^ n := Nat.mul_le_mul_right _ (by omega)
            have h2 : (c + 2) * 257 ^ n = (c + 1) * 257 ^ n + 257 ^ n := by rw [Nat.add_mul, Nat.add_mul]; omega
            constructor
            · intro h; cases h
            · intro h; omega

theorem lexLt_irrefl (bs : List Nat) : lexLt bs bs = false := by
  induction bs with
  | nil => rfl
  | cons b bs ih => simp [lexLt, ih]

theorem lexLt_total (bs cs : List Nat) : bs = cs ∨ lexLt bs cs = true ∨ lexLt cs bs = true := by
  induction bs generalizing cs with
  | nil => cases cs <;> simp [lexLt]
  | cons b bs ih =>
    cases cs with
    | nil => simp [lexLt]
    | cons c cs =>
      simp only [lexLt]
      by_cases h1 : b < c
      · simp [h1]
      · by_cases h2 : b = c
        · subst h2
          rcases ih cs with h | h | h
          · left; rw [h]
          · right; left; simp [h]
          · right; right; simp [h]
        · have : c < b := by omega
          right; right; simp [this]

/-- distinct keys get distinct numbers -/
theorem enc_inj (n : Nat) (bs cs : List Nat) (hb : IsKey n bs) (hc : IsKey n cs) (h : enc n bs = enc n cs) : bs = cs := by
  rcases lexLt_total bs cs with e | l | l
  · exact e
  · have := (enc_lt_iff n bs cs hb hc).mp l; omega
  · have := (enc_lt_iff n cs bs hc hb).mp l; omega

example : lexLt [1, 255] [2] = true ∧ enc 8 [1, 255] < enc 8 [2] ∧ lexLt [1] [1, 0] = true ∧ enc 8 [1] < enc 8 [1, 0] := by
  decide

end IdenaModel.KeyEmbed
