import IdenaModel.Model.Shards
/-!
# C01 — the number of shards after an epoch (`CalculateShardsNumber`)

* `shardsNum_pos`: never 0 for a positive previous number;
* `grow_spec` / `shardsNum_grow_bound`: when shards are added the result `c` satisfies `n < max·c` (every shard below the maximum size
  on average) — the fuel `n + 1` suffices, i.e. the Go loop terminates;
* `shardsNum_stable`: with the protocol's hysteresis `2·min < max` the function is idempotent — evaluating it again with the
  same network size does not change the number (no oscillation between two epochs of equal size).
-/
namespace IdenaModel.Shards

theorem grow_pos (max n fuel c : Nat) (hc : 0 < c) : 0 < grow max n fuel c := by
  induction fuel generalizing c with
  | zero => simpa [grow]
  | succ f ih =>
    simp only [grow]
    split
    · omega
    · exact ih (c * 2) (by omega)

theorem shrink_pos (min n fuel c : Nat) (hc : 0 < c) : 0 < shrink min n fuel c := by
  induction fuel generalizing c with
  | zero => simpa [shrink]
  | succ f ih =>
    simp only [shrink]
    split
    · rename_i h1
      split
      · omega
      · exact ih (c / 2) (by omega)
    · exact hc

theorem shardsNum_pos (min max n cur : Nat) (hc : 0 < cur) : 0 < shardsNum min max n cur := by
  unfold shardsNum
  split
  · exact grow_pos _ _ _ _ hc
  · split
    · exact shrink_pos _ _ _ _ hc
    · exact hc

/-- with enough fuel the doubling loop ends below the bound: `n < max · result` -/
theorem grow_spec (max n : Nat) (hm : 0 < max) : ∀ fuel c, 0 < c → n < max * c * 2 ^ fuel → n < max * grow max n fuel c := by
  intro fuel
  induction fuel with
  | zero => intro c _ h; simpa [grow] using h
  | succ f ih =>
    intro c hc h
    simp only [grow]
    split
    · assumption
    · apply ih (c * 2) (by omega)
      have : max * (c * 2) * 2 ^ f = max * c * 2 ^ (f + 1) := by
        rw [Nat.pow_succ]; simp [Nat.mul_assoc, Nat.mul_comm, Nat.mul_left_comm]
      omega

theorem lt_two_pow (n : Nat) : n < 2 ^ n := Nat.lt_two_pow_self

theorem shardsNum_grow_bound (min max n cur : Nat) (hm : 0 < max) (hc : 0 < cur) (h : n ≥ max * cur) :
    n < max * shardsNum min max n cur := by
  unfold shardsNum
  simp only [h, if_true]
  apply grow_spec max n hm (n + 1) cur hc
  have h1 : n + 1 ≤ 2 ^ (n + 1) := Nat.le_of_lt (lt_two_pow (n + 1))
  have h2 : 1 ≤ max * cur := Nat.mul_pos hm hc
  calc n < n + 1 := by omega
    _ ≤ 2 ^ (n + 1) := h1
    _ = 1 * 2 ^ (n + 1) := by omega
    _ ≤ max * cur * 2 ^ (n + 1) := Nat.mul_le_mul_right _ h2

/-- when the doubling loop ends below the bound, the value before the last doubling was still at or above it:
`max · result ≤ 2 · n` -/
theorem grow_prev (max n : Nat) : ∀ fuel c, n ≥ max * c → n < max * grow max n fuel c → max * grow max n fuel c ≤ 2 * n := by
  intro fuel
  induction fuel with
  | zero => intro c h1 h2; simp [grow] at h2; omega
  | succ f ih =>
    intro c h1 h2
    simp only [grow] at h2 ⊢
    split
    · rename_i hlt
      have : max * (c * 2) = 2 * (max * c) := by
        rw [← Nat.mul_assoc, Nat.mul_comm]
      omega
    · rename_i hge
      simp only [hge, if_false] at h2
      exact ih (c * 2) (by omega) h2

theorem shrink_one (min n fuel : Nat) : shrink min n fuel 1 = 1 := by
  cases fuel <;> simp [shrink]

/-- the halving loop on a power of two: the result is 1 or lies strictly above the lower bound, and the double of the
result was still at or below it -/
theorem shrink_pow (min n : Nat) : ∀ k fuel, k ≤ fuel → n ≤ min * 2 ^ k →
    (shrink min n fuel (2 ^ k) = 1 ∨ n > min * shrink min n fuel (2 ^ k)) ∧ n ≤ min * (2 * shrink min n fuel (2 ^ k)) ∧
      0 < shrink min n fuel (2 ^ k) := by
  intro k
  induction k with
  | zero => intro fuel _ h; simp [shrink_one] at *; omega
  | succ k ih =>
    intro fuel hf h
    cases fuel with
    | zero => omega
    | succ f =>
      have hgt : 2 ^ (k + 1) > 1 := by
        have : 0 < 2 ^ k := Nat.pow_pos (by decide)
        rw [Nat.pow_succ]; omega
      have hhalf : 2 ^ (k + 1) / 2 = 2 ^ k := by rw [Nat.pow_succ]; omega
      simp only [shrink, hgt, if_true, hhalf]
      split
      · rename_i hc
        have hpos : 0 < 2 ^ k := Nat.pow_pos (by decide)
        refine ⟨?_, ?_, hpos⟩
        · rcases hc with h1 | h1
          · right; exact h1
          · left; exact h1
        · rw [Nat.pow_succ] at h
          have : min * (2 * 2 ^ k) = min * (2 ^ k * 2) := by rw [Nat.mul_comm 2]
          omega
      · rename_i hc
        have hle : n ≤ min * 2 ^ k := by
          have := not_or.mp hc
          omega
        exact ih f (by omega) hle

/-- **shardsNum_stable**: with the hysteresis `2·min < max` the number of shards computed from a power of two is a fixed
point for the same network size: computing it again changes nothing (the shard count cannot flip-flop between epochs
of equal size). -/
theorem shardsNum_stable (min max n k : Nat) (hmm : 2 * min < max) :
    shardsNum min max n (shardsNum min max n (2 ^ k)) = shardsNum min max n (2 ^ k) := by
  have hpos : 0 < 2 ^ k := Nat.pow_pos (by decide)
  have hmax : 0 < max := by omega
  by_cases hg : n ≥ max * 2 ^ k
  · -- shards were added
    have hb := shardsNum_grow_bound min max n (2 ^ k) hmax hpos hg
    have hr : shardsNum min max n (2 ^ k) = grow max n (n + 1) (2 ^ k) := by simp [shardsNum, hg]
    have hprev := grow_prev max n (n + 1) (2 ^ k) hg (by rw [← hr]; exact hb)
    rw [← hr] at hprev
    generalize shardsNum min max n (2 ^ k) = r at hb hprev ⊢
    have h1 : ¬ n ≥ max * r := by omega
    have h2 : ¬ n ≤ min * r := by
      intro hle
      have : 2 * (min * r) < max * r ∨ r = 0 := by
        rcases Nat.eq_zero_or_pos r with h0 | h0
        · right; exact h0
        · left
          have := Nat.mul_lt_mul_of_pos_right hmm h0
          simpa [Nat.mul_assoc] using this
      rcases this with h3 | h3
      · omega
      · subst h3; simp at hb
    simp [shardsNum, h1, h2]
  · by_cases hs : n ≤ min * 2 ^ k
    · -- shards were removed
      have hr : shardsNum min max n (2 ^ k) = shrink min n (2 ^ k + 1) (2 ^ k) := by simp [shardsNum, hg, hs]
      have hk : k ≤ 2 ^ k + 1 := by
        have := Nat.lt_two_pow_self (n := k); omega
      obtain ⟨h1, h2, h3⟩ := shrink_pow min n k (2 ^ k + 1) hk hs
      rw [← hr] at h1 h2 h3
      generalize shardsNum min max n (2 ^ k) = r at h1 h2 h3 ⊢
      have hlt : 2 * (min * r) < max * r := by
        have := Nat.mul_lt_mul_of_pos_right hmm h3
        simpa [Nat.mul_assoc] using this
      have hng : ¬ n ≥ max * r := by
        have : min * (2 * r) = 2 * (min * r) := by
          rw [← Nat.mul_assoc, Nat.mul_comm min 2, Nat.mul_assoc]
        omega
      rcases h1 with h1 | h1
      · subst h1
        simp only [shardsNum, hng, if_false]
        split
        · exact shrink_one min n _
        · rfl
      · have hns : ¬ n ≤ min * r := by omega
        simp [shardsNum, hng, hns]
    · have hr : shardsNum min max n (2 ^ k) = 2 ^ k := by simp [shardsNum, hg, hs]
      rw [hr, hr]

example : shardsNum 2400 5000 5000 1 = 2 ∧ shardsNum 2400 5000 4999 1 = 1 ∧ shardsNum 2400 5000 4800 2 = 1 ∧ shardsNum 2400 5000 4801 2 = 2 ∧
    shardsNum 2400 5000 20000 1 = 8 ∧ shardsNum 2400 5000 100 8 = 1 ∧ shardsNum 2400 5000 9600 8 = 2 := by decide

end IdenaModel.Shards
