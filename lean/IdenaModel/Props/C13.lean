import IdenaModel.Proofs.Store
/-!
# C13 — speculative and historical state views are isolated and exact (copy-on-write store part)

`overlay_refines`: for every base content and every sequence of reads, writes, deletes, batches and
forward/reverse range iterations, the copy-on-write store (`BackedMemDb`) answers exactly like an
ordinary store pre-loaded with the base content; `overlay_perm_unchanged`: the base is never written.
-/
namespace IdenaModel.Store

/-- simulation relation between the overlay and the ordinary store -/
structure Sim (o : Overlay) (m : KV) : Prop where
  si : Sorted o.inner
  sp : Sorted o.perm
  sm : Sorted m
  get : ∀ k, o.get k = kvGet m k
  tch : ∀ p ∈ o.inner, o.isTouched p.1 = true

theorem sim_init {perm : KV} (h : Sorted perm) : Sim (Overlay.init perm) perm where
  si := by simp [Overlay.init, Sorted]
  sp := h
  sm := h
  get := by intro k; simp [Overlay.get, Overlay.init, Overlay.isTouched]
  tch := by simp [Overlay.init]

/-- the merged iterator yields exactly the range of the ordinary store, in either direction -/
theorem iter_eq {o : Overlay} {m : KV} (h : Sim o m) (rev : Bool) (lo hi : Option Nat) :
    o.iter rev lo hi = if rev then (kvRange m lo hi).reverse else kvRange m lo hi := by
  have hrng : Sorted (kvRange m lo hi) := sorted_kvRange h.sm lo hi
  have htgt : DSorted rev (if rev then (kvRange m lo hi).reverse else kvRange m lo hi) := by
    cases rev
    · simpa using dsorted_false.mpr hrng
    · simpa using dsorted_true_reverse hrng
  have hik : Sorted (kvRange o.inner lo hi) := sorted_kvRange h.si lo hi
  have hpm : Sorted (kvRange o.perm lo hi) := sorted_kvRange h.sp lo hi
  have hikS : ((kvRange o.inner lo hi).map (·.1)).Pairwise (· < ·) := by
    rw [List.pairwise_map]; exact hik
  have htch : ∀ i ∈ (if rev then ((kvRange o.inner lo hi).map (·.1)).reverse
                      else (kvRange o.inner lo hi).map (·.1)), o.isTouched i = true := by
    intro i hi'
    have : i ∈ (kvRange o.inner lo hi).map (·.1) := by cases rev <;> simpa using hi'
    obtain ⟨p, hp, rfl⟩ := List.mem_map.mp this
    exact h.tch p ((mem_kvRange lo hi p).mp hp).1
  have hikD : (if rev then ((kvRange o.inner lo hi).map (·.1)).reverse
                else (kvRange o.inner lo hi).map (·.1)).Pairwise (dirLt rev) := by
    cases rev
    · simpa [dirLt_false] using hikS
    · simp only [if_true]; rw [List.pairwise_reverse]; simpa [dirLt_true] using hikS
  have hpmD : DSorted rev (if rev then (kvRange o.perm lo hi).reverse else kvRange o.perm lo hi) := by
    cases rev
    · simpa using dsorted_false.mpr hpm
    · simpa using dsorted_true_reverse hpm
  unfold Overlay.iter
  apply dsorted_ext rev (dsorted_merged rev _ _ _ _ htch hikD hpmD) htgt
  rintro ⟨k, v⟩
  rw [mem_merged rev _ _ _ _ htch]
  have key : (k, v) ∈ kvRange m lo hi ↔
      (k ∈ (kvRange o.inner lo hi).map (·.1) ∧ v = (o.get k).getD "") ∨
      ((k, v) ∈ kvRange o.perm lo hi ∧ o.isTouched k = false) := by
    rw [mem_kvRange, mem_iff_kvGet h.sm, ← h.get k]
    constructor
    · rintro ⟨hg, hr⟩
      by_cases ht : o.isTouched k = true
      · left
        have hg' : kvGet o.inner k = some v := by simpa [Overlay.get, ht] using hg
        refine ⟨List.mem_map.mpr ⟨(k, v), (mem_kvRange lo hi _).mpr ⟨mem_keys_of_kvGet hg', hr⟩, rfl⟩, ?_⟩
        simp [hg]
      · right
        have ht' : o.isTouched k = false := by simpa using ht
        have hg' : kvGet o.perm k = some v := by simpa [Overlay.get, ht'] using hg
        exact ⟨(mem_kvRange lo hi _).mpr ⟨mem_keys_of_kvGet hg', hr⟩, ht'⟩
    · rintro (⟨hk, hv⟩ | ⟨hk, ht⟩)
      · obtain ⟨p, hp, hpk⟩ := List.mem_map.mp hk
        have hp' := (mem_kvRange lo hi p).mp hp
        have htk : o.isTouched k = true := by rw [← hpk]; exact h.tch p hp'.1
        have hg' : kvGet o.inner p.1 = some p.2 := kvGet_of_mem h.si hp'.1
        rw [hpk] at hg'
        have : o.get k = some p.2 := by simp [Overlay.get, htk, hg']
        refine ⟨?_, by rw [← hpk]; exact hp'.2⟩
        rw [this]; rw [this] at hv; simp at hv; simp [hv]
      · have hk' := (mem_kvRange lo hi (k, v)).mp hk
        have hg' : kvGet o.perm k = some v := kvGet_of_mem h.sp hk'.1
        exact ⟨by simp [Overlay.get, ht, hg'], hk'.2⟩
  cases rev <;> simp [key]

/-- applying one (accepted or refused) batch entry keeps the simulation -/
theorem sim_applyB {o : Overlay} {m : KV} (h : Sim o m) (b : BOp) :
    Sim { o with inner := kvApplyB o.inner b,
                 touched := (match bopKey b with | some k => [k] | none => []) ++ o.touched }
        (kvApplyB m b) := by
  cases b with
  | bad k => simpa [kvApplyB, bopKey] using h
  | set k v =>
    refine ⟨sorted_kvSet h.si k v, h.sp, sorted_kvSet h.sm k v, ?_, ?_⟩
    · intro k'
      have := h.get k'
      simp only [Overlay.get, Overlay.isTouched, kvApplyB, bopKey, kvGet_kvSet, List.singleton_append,
        List.contains_cons] at *
      by_cases e : k' = k <;> simp_all
    · intro p hp
      simp only [kvApplyB] at hp
      simp only [Overlay.isTouched, bopKey, List.singleton_append, List.contains_cons]
      rcases mem_kvSet hp with e | e
      · simp [e]
      · have := h.tch p e; simp [Overlay.isTouched] at this; simp [this]
  | del k =>
    refine ⟨sorted_kvDel h.si k, h.sp, sorted_kvDel h.sm k, ?_, ?_⟩
    · intro k'
      have := h.get k'
      simp only [Overlay.get, Overlay.isTouched, kvApplyB, bopKey, kvGet_kvDel h.si, kvGet_kvDel h.sm,
        List.singleton_append, List.contains_cons] at *
      by_cases e : k' = k <;> simp_all
    · intro p hp
      simp only [kvApplyB] at hp
      simp only [Overlay.isTouched, bopKey, List.singleton_append, List.contains_cons]
      have := h.tch p (mem_kvDel hp); simp [Overlay.isTouched] at this; simp [this]

/-- `Sim` only looks at membership in `touched`, not at its order or multiplicity -/
theorem sim_congr_touched {o : Overlay} {m : KV} (h : Sim o m) (t : List Nat)
    (ht : ∀ k, t.contains k = o.touched.contains k) : Sim { o with touched := t } m where
  si := h.si
  sp := h.sp
  sm := h.sm
  get := by intro k; have := h.get k; simp only [Overlay.get, Overlay.isTouched, ht] at *; exact this
  tch := by intro p hp; have := h.tch p hp; simp only [Overlay.isTouched, ht] at *; exact this

theorem sim_batch {o : Overlay} {m : KV} (h : Sim o m) (bs : List BOp) :
    Sim { o with inner := bs.foldl kvApplyB o.inner,
                 touched := (bs.filterMap bopKey).reverse ++ o.touched }
        (bs.foldl kvApplyB m) := by
  induction bs generalizing o m with
  | nil => simpa using h
  | cons b bs ih =>
    have h1 := sim_applyB h b
    have h2 := ih h1
    refine sim_congr_touched (o := _) h2 _ ?_ |> fun x => by simpa using x
    intro k
    cases hb : bopKey b <;> simp [hb, List.mem_append] <;> grind

theorem step_sim {o : Overlay} {m : KV} (h : Sim o m) (op : Op) :
    (o.step op).2 = (plainStep m op).2 ∧ Sim (o.step op).1 (plainStep m op).1 := by
  cases op with
  | get k => exact ⟨by simp [Overlay.step, plainStep, h.get], h⟩
  | has k => exact ⟨by simp [Overlay.step, plainStep, h.get], h⟩
  | set k v => exact ⟨rfl, by simpa [kvApplyB, bopKey, Overlay.step, plainStep] using sim_applyB h (.set k v)⟩
  | del k => exact ⟨rfl, by simpa [kvApplyB, bopKey, Overlay.step, plainStep] using sim_applyB h (.del k)⟩
  | batch bs => exact ⟨rfl, sim_batch h bs⟩
  | iter lo hi => exact ⟨by simp [Overlay.step, plainStep, iter_eq h false], h⟩
  | riter lo hi => exact ⟨by simp [Overlay.step, plainStep, iter_eq h true], h⟩

theorem run_sim {o : Overlay} {m : KV} (h : Sim o m) (ops : List Op) :
    o.run ops = plainRun m ops := by
  induction ops generalizing o m with
  | nil => rfl
  | cons op ops ih =>
    have := step_sim h op
    simp only [Overlay.run, plainRun, this.1, ih this.2]

/-- **C13 (store part), full strength.**  Over any base content, for every operation sequence, the
copy-on-write store returns what an ordinary store pre-loaded with the base content returns. -/
theorem overlay_refines (perm : KV) (hs : Sorted perm) (ops : List Op) :
    (Overlay.init perm).run ops = plainRun perm ops :=
  run_sim (sim_init hs) ops

/-- the base store is never written by any operation on the view -/
theorem overlay_perm_unchanged (o : Overlay) (op : Op) : (o.step op).1.perm = o.perm := by
  cases op <;> rfl

theorem overlay_perm_unchanged_run (o : Overlay) (ops : List Op) :
    (ops.foldl (fun o op => (o.step op).1) o).perm = o.perm := by
  induction ops generalizing o with
  | nil => rfl
  | cons op ops ih => simp only [List.foldl_cons, ih, overlay_perm_unchanged]

/-- non-vacuity: a concrete base with shadowed, deleted and re-created keys around range borders -/
example : (Overlay.init [(1, "a"), (3, "c"), (5, "e")]).run
    [.set 2 "b", .del 3, .batch [.set 5 "E", .del 1, .bad 3, .set 1 "A"],
     .iter (some 1) (some 5), .riter none none, .get 3, .has 5] =
    [.ok, .ok, .ok, .kvs [(1, "A"), (2, "b")], .kvs [(5, "E"), (2, "b"), (1, "A")], .val none, .bool true] := by
  rw [overlay_refines _ (by simp [Sorted])]; decide

example : Sorted [(1, "a"), (3, "c"), (5, "e")] := by simp [Sorted]

/-- **the code as found (before the F16 repair) does not satisfy the statement**: a batch entry the
underlying batch refuses (`Set(k, nil)`) still masks `k` once the batch is written. -/
theorem overlay_as_found_counterexample :
    ∃ perm ops, Sorted perm ∧
      ((Overlay.init perm).stepAsFound (.batch ops)).1.get 1 ≠ kvGet (plainStep perm (.batch ops)).1 1 :=
  ⟨[(1, "a")], [.bad 1], by simp [Sorted], by decide⟩

end IdenaModel.Store

namespace IdenaModel.Store

/-- **C13 (store part) with batch objects**: staging, reading in between, writing and abandoning batches in any
interleaving — the copy-on-write store still answers like the ordinary pre-loaded store. -/
theorem overlay_refines_staged (perm : KV) (hs : Sorted perm) (ops : List XOp) :
    xrun Overlay.step ⟨Overlay.init perm, none⟩ ops = xrun plainStep ⟨perm, none⟩ ops := by
  suffices h : ∀ (o : Overlay) (m : KV) (st : Option (List BOp)), Sim o m →
      xrun Overlay.step ⟨o, st⟩ ops = xrun plainStep ⟨m, st⟩ ops from h _ _ _ (sim_init hs)
  induction ops with
  | nil => intros; rfl
  | cons x xs ih =>
    intro o m st hsim
    cases x with
    | op op =>
      have := step_sim hsim op
      simp only [xrun, xstep, this.1]
      exact congrArg _ (ih _ _ _ this.2)
    | bnew => simp only [xrun, xstep]; exact congrArg _ (ih _ _ _ hsim)
    | bstage b =>
      cases st with
      | none => simp only [xrun, xstep]; exact congrArg _ (ih _ _ _ hsim)
      | some l => simp only [xrun, xstep]; exact congrArg _ (ih _ _ _ hsim)
    | bwrite =>
      cases st with
      | none => simp only [xrun, xstep]; exact congrArg _ (ih _ _ _ hsim)
      | some l =>
        have := step_sim hsim (.batch l)
        simp only [xrun, xstep, this.1]
        exact congrArg _ (ih _ _ _ this.2)
    | bclose => simp only [xrun, xstep]; exact congrArg _ (ih _ _ _ hsim)

/-- staged entries are invisible until written: a read between staging and `Write` answers as if the batch did
not exist -/
theorem staged_invisible (o : Overlay) (l : List BOp) (b : BOp) (k : Nat) :
    ((xstep Overlay.step (xstep Overlay.step ⟨o, some l⟩ (.bstage b)).1 (.op (.get k))).2) = .val (o.get k) := by
  simp [xstep, Overlay.step]

end IdenaModel.Store
