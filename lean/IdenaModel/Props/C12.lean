import IdenaModel.Proofs.Messages
import IdenaModel.Props.C05
/-!
# C12 — no message from the network can crash the node

Model: `Model/Messages.lean` (transport frame `Decode`, the gossip handler `handle` branch by branch with its
`IsValid` gates and every field access it performs before handing the object on, `validateBlock` on a block
assembled from individually decodable parts, the fork resolver's `processBlocks`/`checkForkSize`), and, for the
transaction part, `Model/TxValidate.lean` (M-Ledger; its theorem `Ledger.validateTx_no_panic`, proved in
`Props/C05.lean`, is re-exported in the audit list of this property).

* `handler_no_panic` — for every message kind, every decoded shape (any member absent), every node context with
  the constructor's holder table: `handle` ends in accept / reject, never in `panic`.  Per kind:
  `body_no_panic_of_gate` (`isValid m → body m ≠ panic`), `gate_no_panic` (the gates themselves are total, incl. the
  dereference inside `BlockProposal.IsValid`).
* `gates_are_necessary` — for every gated kind there is a decodable object that the gate refuses and on which the
  ungated body panics: removing an `IsValid` test falsifies the property.
* `frame_alloc_bound` — with the decoded-length cap, what `Decode` allocates before looking at the content is
  `≤ cap` (hence `≤ max cap b.length`); `frame_plain_no_alloc`; as found before the cap
  (`frame_alloc_unbounded_without_cap`): a 6-byte frame allocates 2^30 bytes.
* `validateBlock_total` — a block that passed `Block.IsValid` gets a verdict from `validateBlock`, whatever the
  semantic checks say; `validateBlockAssembled_total` — every network entry point returns a verdict for every
  assembly of decodable parts; `validateBlock_needs_gate` — the ungated function does panic on a missing header
  or a missing body (behind a valid header).
* `processBlocks_no_panic` / `checkForkSize_no_panic` — every peer answer to a fork block range request (any
  heights, any order, duplicates, gaps, heights 0 / 1 / 2^64-1) gets a verdict; `forkLoopOld_panics` — the loop as
  found earlier (F15) panics on a gap.
* `deref_census_sound` — what the run-time census check (`siteClassified`) accepts.
-/
namespace IdenaModel.Msg

/-! ## gates -/

theorem Proposal.isValid_no_panic (p : Proposal) : p.isValid ≠ .panic := by
  obtain ⟨blk, sl, rec, km⟩ := p
  cases blk with
  | none => simp [Proposal.isValid]
  | some b =>
    obtain ⟨h, body⟩ := b
    cases h with
    | none => simp [Proposal.isValid, Block.isValid, Header.isValid]
    | some h =>
      obtain ⟨e, pr⟩ := h
      cases e <;> cases pr <;> cases body <;> cases rec <;>
        simp [Proposal.isValid, Block.isValid, Header.isValid, Block.isEmpty] <;>
        (try split) <;> simp_all

/-- what a valid proposal looks like -/
theorem Proposal.shape_of_valid {p : Proposal} (hv : p.isValid = .val true) :
    ∃ b, p.block = some b ∧ p.sigLen ≠ 0 ∧ b.isValid = true ∧ b.isEmpty = false := by
  obtain ⟨blk, sl, rec, km⟩ := p
  cases blk with
  | none => simp [Proposal.isValid] at hv
  | some b =>
    refine ⟨b, rfl, ?_⟩
    simp only [Proposal.isValid] at hv
    split at hv
    · simp at hv
    · rename_i hc
      simp at hc
      exact ⟨hc.1.1, hc.1.2, hc.2⟩

theorem gate_no_panic (m : Msg) : gate m ≠ .panic := by
  cases m <;> simp [gate]
  exact Proposal.isValid_no_panic _

/-! ## the handler -/

/-- **per kind: `isValid m → handle-body m ≠ panic`.** -/
theorem body_no_panic_of_gate (env : Env) (hc : env.holdersComplete) (m : Msg) (hg : gate m = .val true) :
    body env m ≠ .panic := by
  cases m with
  | blocksRange items =>
    simp only [gate, R.val.injEq] at hg
    obtain ⟨hs, hhs⟩ := rangeHeights_ok_of_valid hg
    simp only [body, hhs]; split <;> simp
  | proposeProof round => simp only [body]; split <;> simp
  | proposeBlock p =>
    simp only [gate] at hg
    obtain ⟨b, hb, hsl, hv, _⟩ := Proposal.shape_of_valid hg
    obtain ⟨n, hn⟩ := Block.height_ok_of_valid hv
    simp only [body, hb, hn, Block.hash_ok_of_valid hv]
    split
    · simp
    · simp [hsl]
  | vote v =>
    simp only [gate, R.val.injEq, Vote.isValid] at hg
    cases hr : v.round with
    | none => simp [hr] at hg
    | some r => simp only [body, hr]; split <;> simp
  | newTx => simp only [body]; split <;> simp
  | getBlockByHash => simp [body]
  | getBlocksRange => simp [body]
  | getForkBlockRange => simp [body]
  | flipBody f =>
    simp only [gate, R.val.injEq, Flip.isValid] at hg
    simp only [body, hg]; split <;> simp
  | flipKey => simp only [body]; split <;> simp
  | batchFlipKey ds => simp only [body]; split <;> simp
  | snapshotManifest h => simp [body]
  | flipKeysPackage => simp only [body]; split <;> simp
  | push raw =>
    simp only [gate, R.val.injEq] at hg
    simp [body, addPush_ok hc hg]
  | batchPush items => simp only [body]; exact batchPushRun_no_panic hc items
  | pull raw =>
    simp only [gate, R.val.injEq] at hg
    have h := hc _ hg
    simp only [body, h, if_true]; simp
  | block b =>
    simp only [gate, R.val.injEq] at hg
    simp only [body, Block.hash_ok_of_valid hg]; split <;> simp
  | updateShardId s => simp [body]
  | disconnect => simp [body]
  | other => simp [body]

/-- **`handler_no_panic`**: whatever decodes, in whatever context, is accepted or rejected. -/
theorem handler_no_panic (env : Env) (hc : env.holdersComplete) (m : Msg) : handle env m ≠ .panic := by
  unfold handle
  cases hg : gate m with
  | panic => exact absurd hg (gate_no_panic m)
  | val b =>
    cases b with
    | false => simp
    | true => exact body_no_panic_of_gate env hc m hg

/-- the holder table of `NewIdenaGossipHandler` (gossip.go:118-123) is complete -/
def ctorHolders : List Nat := [1, 2, 3, 4, 5, 6]

theorem ctorHolders_complete (p b : Bool) : ({ processed := p, batchKnown := b, holders := ctorHolders } : Env).holdersComplete := by
  intro t ht
  simp only [pushValid, Bool.and_eq_true, decide_eq_true_eq] at ht
  have : t = 1 ∨ t = 2 ∨ t = 3 ∨ t = 4 ∨ t = 5 ∨ t = 6 := by omega
  rcases this with h | h | h | h | h | h <;> subst h <;> (show ctorHolders.contains _ = true) <;> decide

/-- non-vacuity: the theorem applies to the node's real context, and objects of every gated kind pass their gate
and are accepted -/
example : handle ⟨false, true, ctorHolders⟩ (.blocksRange [⟨some ⟨none, some ⟨7⟩⟩⟩, ⟨some ⟨some ⟨9⟩, none⟩⟩]) =
    .ok { known := some 9, potential := some 9, forwarded := true } := by decide
example : handle ⟨false, false, ctorHolders⟩ (.proposeBlock ⟨some ⟨some ⟨none, some ⟨5⟩⟩, some 0⟩, 65, true, true⟩) =
    .ok { known := some 4, potential := some 4, forwarded := true } := by decide
example : handle ⟨false, false, ctorHolders⟩ (.vote ⟨some 0⟩) =
    .ok { potential := some 18446744073709551615, forwarded := true } := by decide
example : handle ⟨false, false, ctorHolders⟩ (.push 257) = .ok { forwarded := true } := by decide

/-- **the gates are necessary**: for each gated kind a decodable object refused by the gate on which the
ungated body panics (so a removed `IsValid` test breaks the property) -/
theorem gates_are_necessary :
    let env : Env := ⟨false, true, ctorHolders⟩
    (gate (.vote ⟨none⟩) = .val false ∧ body env (.vote ⟨none⟩) = .panic) ∧
    (gate (.block ⟨none, some 0⟩) = .val false ∧ body env (.block ⟨none, some 0⟩) = .panic) ∧
    (gate (.block ⟨some ⟨none, none⟩, some 0⟩) = .val false ∧ body env (.block ⟨some ⟨none, none⟩, some 0⟩) = .panic) ∧
    (gate (.proposeBlock ⟨some ⟨none, some 0⟩, 65, true, true⟩) = .val false ∧
      body env (.proposeBlock ⟨some ⟨none, some 0⟩, 65, true, true⟩) = .panic) ∧
    (gate (.blocksRange [⟨none⟩]) = .val false ∧ body env (.blocksRange [⟨none⟩]) = .panic) ∧
    (gate (.blocksRange [⟨some ⟨none, none⟩⟩]) = .val false ∧ body env (.blocksRange [⟨some ⟨none, none⟩⟩]) = .panic) ∧
    (gate (.flipBody ⟨false⟩) = .val false ∧ body env (.flipBody ⟨false⟩) = .panic) ∧
    (gate (.push 7) = .val false ∧ body env (.push 7) = .panic) ∧
    (gate (.pull 0) = .val false ∧ body env (.pull 0) = .panic) := by decide

/-- an incomplete holder table does make a valid push panic (`holdersComplete` is not a vacuous hypothesis) -/
example : handle ⟨false, false, [1, 2, 3]⟩ (.push 5) = .panic := by decide

/-! ## transport frame -/

/-- **`frame_alloc_bound`**: with the cap, `Decode` allocates at most `cap` bytes on behalf of a frame before its
content has been looked at — for every byte string. -/
theorem frame_alloc_bound (cap : Nat) (b : List Nat) : (decodeFrame (some cap) b).alloc ≤ cap := by
  unfold decodeFrame
  split
  · simp
  · simp
  · simp only
    split
    · simp
    · split
      · simp
      · rename_i h; simp; omega
  · simp

theorem frame_alloc_le_max (cap : Nat) (b : List Nat) : (decodeFrame (some cap) b).alloc ≤ max cap b.length :=
  Nat.le_trans (frame_alloc_bound cap b) (Nat.le_max_left _ _)

/-- an uncompressed frame is a sub-slice: nothing is allocated, whatever the cap -/
theorem frame_plain_no_alloc (cap : Option Nat) (rest : List Nat) :
    decodeFrame cap (0 :: rest) = ⟨.plain rest.length, 0⟩ := by
  simp [decodeFrame]

/-- what is accepted for decompression is within the cap -/
theorem frame_s2_within_cap (cap : Nat) (b : List Nat) (n : Nat) (h : (decodeFrame (some cap) b).kind = .s2 n) :
    n ≤ cap := by
  unfold decodeFrame at h
  split at h
  · simp at h
  · simp at h
  · simp only at h
    split at h
    · simp at h
    · split at h
      · simp at h
      · rename_i hle; simp at h; omega
  · simp at h

/-- as found before the cap (finding F6): six bytes make the decoder allocate 2^30 bytes -/
theorem frame_alloc_unbounded_without_cap :
    ∃ b : List Nat, b.length = 6 ∧ (decodeFrame none b).alloc = 1073741824 :=
  ⟨[1, 0x80, 0x80, 0x80, 0x80, 0x04], by decide⟩

/-- the same frame under the cap of the current source (128 MiB): refused, nothing allocated -/
example : decodeFrame (some 134217728) [1, 0x80, 0x80, 0x80, 0x80, 0x04] = ⟨.reject, 0⟩ := by decide
/-- non-vacuity: a frame within the cap is handed to the decompressor with its claimed length -/
example : decodeFrame (some 134217728) [1, 0x80, 0x08, 0, 0] = ⟨.s2 1024, 1024⟩ := by decide

/-! ## blocks assembled from decodable parts -/

/-- **`validateBlock_total`**: behind `Block.IsValid`, block validation always returns a verdict. -/
theorem validateBlock_total (b : Block) (hv : b.isValid = true) (s : Sem) : validateBlock b s ≠ .panic := by
  obtain ⟨n, hn⟩ := Header.height_ok_of_valid (Block.header_valid_of_valid hv)
  have hb : b.body.isSome = true := by simp [Block.isValid] at hv; exact hv.2
  unfold validateBlock
  split
  · split <;> simp
  · simp only [hn]
    split
    · simp
    · cases hbody : b.body with
      | none => simp [hbody] at hb
      | some _ => simp only; split <;> simp

/-- every assembly of decodable parts, through any entry point of the node, gets a verdict -/
theorem validateBlockAssembled_total (b : Block) (s : Sem) : validateBlockAssembled b s ≠ .panic := by
  unfold validateBlockAssembled
  split
  · rename_i hv; exact validateBlock_total b hv s
  · simp

/-- the gate is what makes it total: the function itself panics on a missing header, on a header without parts,
and — once the header checks pass — on a missing body -/
theorem validateBlock_needs_gate :
    validateBlock ⟨none, some 0⟩ ⟨false, false, false⟩ = .panic ∧
    validateBlock ⟨some ⟨none, none⟩, some 0⟩ ⟨false, false, false⟩ = .panic ∧
    validateBlock ⟨some ⟨none, some ⟨5⟩⟩, none⟩ ⟨false, true, false⟩ = .panic ∧
    validateBlock ⟨some ⟨none, some ⟨5⟩⟩, none⟩ ⟨false, false, false⟩ = .reject := by decide

/-- non-vacuity: valid blocks are accepted or rejected by the semantic parameters alone -/
example : validateBlockAssembled ⟨some ⟨none, some ⟨5⟩⟩, some 3⟩ ⟨false, true, true⟩ = .accept := by decide
example : validateBlockAssembled ⟨some ⟨some ⟨5⟩, some ⟨5⟩⟩, some 3⟩ ⟨true, true, true⟩ = .reject := by decide

/-- accessors of the `EmptyBlockHeader != nil … else ProposedHeader.X` shape (`Flags`, `Seed`, `Root`, `Time`, …)
and `Hash`/`ParentHash` are total behind `Header.IsValid` -/
theorem header_accessors_total (h : Option Header) (hv : Header.isValid h = true) :
    Header.viaEmptyFirst h = .val () ∧ Header.hash h = .val () ∧ ∃ n, Header.height h = .val n :=
  ⟨Header.viaEmptyFirst_ok_of_valid hv, Header.hash_ok_of_valid hv, Header.height_ok_of_valid hv⟩

/-! ## fork block lists -/

theorem checkForkSize_no_panic (own : Own) (fork : List ForkBlock) (hs : SortedH fork) (sb : Bool) :
    checkForkSize own fork sb ≠ .panic := by
  unfold checkForkSize
  cases hl : fork.getLast? with
  | none => simp
  | some last =>
    cases hh : fork.head? with
    | none => simp
    | some first =>
      simp only
      split
      · simp
      · have hfl : first.height ≤ last.height := by
          cases fork with
          | nil => simp at hh
          | cons a t =>
            simp at hh; subst hh
            exact sorted_head_le_last hs hl
        obtain ⟨k, hk⟩ : ∃ k, last.height + 1 - first.height = k + 1 := ⟨last.height - first.height, by omega⟩
        rw [hk]
        cases hloop : forkLoop own fork (k + 1) 0 first.height 0 0 with
        | inl e => simp only; exact forkLoop_inl_ne_panic own fork _ _ _ _ _ e hloop
        | inr r =>
          obtain ⟨fp, op⟩ := r
          simp only
          split
          · simp
          · have := forkLoop_inr_first own fork k 0 first.height 0 0 (fp, op) hloop
            cases hb : own.blockAt first.height with
            | none => simp [hb] at this
            | some _ => simp only; split <;> simp

/-- **every peer answer to a fork block range request gets a verdict** (any heights, order, duplicates, gaps) -/
theorem processBlocks_no_panic (own : Own) (blocks : List ForkBlock) (sb : Bool) :
    processBlocks own blocks sb ≠ .panic := by
  unfold processBlocks
  have hs := sortBlocks_sorted blocks
  cases hsb : sortBlocks blocks with
  | nil => simp
  | cons first rest =>
    simp only
    rw [hsb] at hs
    have := checkForkSize_no_panic own (first :: rest) hs sb
    cases hc : checkForkSize own (first :: rest) sb <;> simp_all <;> split <;> simp

/-- as found before the fix (F15): heights {3, 5} below the own head index past the list -/
theorem forkLoopOld_panics :
    forkLoopOld ⟨10, fun _ => some false, fun _ => true⟩ [⟨3, true⟩, ⟨5, true⟩] 3 0 3 0 0 = .inl .panic := by decide

/-- the same list under the current rule: refused -/
example : processBlocks ⟨10, fun _ => some false, fun _ => true⟩ [⟨5, true⟩, ⟨3, true⟩] true
    = .forkSmaller .notConsecutive := by decide
/-- heights {1, head+1}: the common height 0 is not on the own chain — refused (the crash fixed by c5d81c60) -/
example : processBlocks ⟨10, fun h => if 1 ≤ h ∧ h ≤ 10 then some false else none, fun h => decide (1 ≤ h ∧ h ≤ 10)⟩
    [⟨1, true⟩, ⟨11, true⟩] false = .unknownCommon := by decide
/-- non-vacuity: a longer fork on top of a known block goes on to block-by-block validation -/
example : processBlocks ⟨10, fun h => if 1 ≤ h ∧ h ≤ 10 then some false else none, fun h => decide (1 ≤ h ∧ h ≤ 10)⟩
    [⟨11, false⟩, ⟨10, false⟩] false = .subchain 9 := by decide

/-! ## census -/

/-- what the run-time classification check accepts: a `modelled` row must be an entry of `modelledSites`,
any other row must carry one of the fixed classes (an `unclassified` row is refused) -/
theorem deref_census_sound (fn field cls : String) (h : siteClassified fn field cls = true) :
    (cls = "modelled" ∧ (fn, field) ∈ modelledSites) ∨ (cls ≠ "modelled" ∧ cls ∈ otherClasses) := by
  unfold siteClassified at h
  split at h
  · rename_i hc; exact Or.inl ⟨hc, by simpa using h⟩
  · rename_i hc; exact Or.inr ⟨hc, by simpa using h⟩

/-- the name under which DESIGN.md refers to the census obligation -/
theorem deref_census_classified (fn field cls : String) (h : siteClassified fn field cls = true) :
    (cls = "modelled" ∧ (fn, field) ∈ modelledSites) ∨ (cls ≠ "modelled" ∧ cls ∈ otherClasses) :=
  deref_census_sound fn field cls h

theorem unclassified_refused (fn field : String) : siteClassified fn field "unclassified" = false := by
  simp [siteClassified, otherClasses]

/-! ## the transaction part (proved over the full ledger model by the M-Ledger owner) -/

/-- `ValidateTx` never panics, for every configuration, state, transaction and mode (re-export) -/
theorem validateTx_no_panic (c : Ledger.Cfg) (s : Ledger.State) (tx : Ledger.Tx) (mode : Ledger.Mode) (minFeePerGas : Nat) :
    Ledger.validateTx c s tx mode minFeePerGas ≠ .panic :=
  Ledger.validateTx_no_panic c s tx mode minFeePerGas

end IdenaModel.Msg
