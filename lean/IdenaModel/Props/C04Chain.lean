import IdenaModel.Props.C04
import IdenaModel.Props.C04Tx
/-!
# C04 — the two levels composed

The transaction step of a block is instantiated with the transaction-level model (`Model/TxValidate.lean`,
`Model/TxApply.lean`): in-block validation accepts and the application succeeds.  Its two facts are discharged by
`applyTx_inv` / `applyTx_inv_contract` / `applyTx_total_le` (`Props/C04Tx.lean`), so `chain_inv` and `chain_bound` hold
for all chains of the composed model, with the transaction level's own side conditions per transaction:
`HeadOk` (the fee is computed on the head's validators view, F9) and, for contract transactions, the VM's obligations
`VmOk` and "the VM's net deltas do not create coins" (C15).
-/
namespace IdenaModel.Rewards
open IdenaModel.Ledger

theorem linv_iff_inv (s : State) : LInv s ↔ Inv s := by
  constructor
  · intro h
    exact ⟨h.bal, h.cstake, fun a => by have := h.idf a; omega⟩
  · intro h
    exact ⟨h.bal, h.cstake, fun a => by have := h.idf a; omega⟩

/-- one transaction of a block: `ValidateTx(InBlock)` accepts it on the state built so far and `applyTxOnState` applies it
(`processTxs`, `blockchain.go:1358`); `m` is the minimal fee per gas -/
def LedgerStep (c : Cfg) (m : Nat) (s : State) (tx : Tx) (s' : State) (fee tips : Int) : Prop :=
  HeadOk s ∧ validateTx c s tx .inBlock m = .ok ∧ applyTx c s tx = .ok s' fee ∧ tips = tx.tips ∧
  (tx.type.isContract = true → VmOk c s tx ∧ deltaSum tx.ext.vmDeltas ≤ 0)

/-- the transaction-level theorems discharge the hypotheses of the block level -/
theorem ledgerStep_ok (c : Cfg) (m : Nat) : StepOk (LedgerStep c m) where
  applyTx_inv := by
    intro s tx s' fee tips hI ⟨hH, hv, ha, _, hvm⟩
    rw [linv_iff_inv] at hI ⊢
    by_cases hct : tx.type.isContract = true
    · exact applyTx_inv_contract hI hv ha hct (hvm hct).1
    · exact applyTx_inv hI hH hv ha (by simpa using hct)
  applyTx_total_le := by
    intro s tx s' fee tips hI ⟨_, hv, ha, ht, hvm⟩
    rw [linv_iff_inv] at hI
    obtain ⟨h1, h2, -⟩ := applyTx_total_le hI hv ha (fun hct => (hvm hct).2)
    have := (validate_common hv).tips
    subst ht
    exact ⟨h1, h2, this⟩

/-- **C04, invariant, both levels**: along every chain of the composed model every balance, contract stake and identity
stake (`0 ≤ locked ≤ replenished ≤ stake`) is non-negative at every block boundary -/
theorem ledger_chain_inv {rc : RCfg} (hc : rc.Ok) (c : Cfg) (m : Nat) {s s' : State} {bs : List (List Tx × BlockEv)}
    (h : ChainRun (Step := LedgerStep c m) rc s bs s') (hb : ∀ b ∈ bs, b.2.Ok) (hI : Inv s) : Inv s' :=
  (linv_iff_inv s').1 (chain_inv hc (ledgerStep_ok c m) h hb ((linv_iff_inv s).2 hI))

/-- **C04, issuance, both levels** (exact category totals): the total grows by at most the sum of the bounds of the
block kinds -/
theorem ledger_chain_bound {rc : RCfg} (hc : rc.Ok) (c : Cfg) (m : Nat) {s s' : State} {bs : List (List Tx × BlockEv)}
    (h : ChainRun (Step := LedgerStep c m) rc s bs s') (hb : ∀ b ∈ bs, b.2.Ok)
    (hr : ∀ b ∈ bs, ∀ e, b.2.epoch = some e → e.rewards.Ok) (hI : Inv s) :
    total s' ≤ total s + (sumBound rc bs : Nat) :=
  chain_bound hc (ledgerStep_ok c m) h hb hr ((linv_iff_inv s).2 hI)

/-- non-vacuity: ledger's example state satisfies the invariant, and a real transaction step exists on it -/
example : LInv exState := (linv_iff_inv _).2 exState_inv

end IdenaModel.Rewards
