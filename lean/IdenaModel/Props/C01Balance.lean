import IdenaModel.Model.ShardBalance
import IdenaModel.Props.C01Shards
/-!
# C01 — `balanceShards`: relocation of identities between shards at the epoch transition

Model: `Model/ShardBalance.lean` (the function as written, Go's `rnd.Perm` results as inputs).  `run` is a Lean function, so the
new shard of every identity, the recorded sizes, the new number of shards and the threshold are functions of (identities in IAVL key
order, counters, totals, previous number, the three permutations) — determinism is by construction once the model is tied to the
code (channel C01balance).  What is proved here is what the transition relies on:

* `run_isSome`: defined whenever the previous number of shards is ≥ 1 (what `ShardsNum()` returns) and the permutations are permutations;
* (a) `relocated_in_range`: every `SetShardId` call names a shard `1 … newShardsNum` and every identity put on a relocation slice gets a
  call; `unselected_below`: an identity of the three kinds that is not selected sits strictly below `newShardsNum` (the condition is
  `>=`: shard number `newShardsNum` is emptied and refilled); `all_in_range`: prior shards ≥ 1 ⟹ afterwards EVERY identity of the three
  kinds is in `1 … newShardsNum` (true of the code as written);
* (b) `counters_exact`, `sizes_exact`, `sizes_sum`: if the counters handed in are the actual populations of the shards `1 … newShardsNum`
  (addresses pairwise distinct, fewer than 2³² identities), each `SetShardSize(sh, ·)` value is the number of identities of the three kinds
  in `sh` afterwards, and the values add up to the number of identities of the three kinds;
* (c) `unselected_keep`: identities of other states and identities not selected keep their shard;
* (d) `top_stakes` (+ `_sorted`, `_length`, `_largest`), `topStakes_spec`: any sequence of `appendToTop` calls leaves the first `limit`
  elements of a descending rearrangement of the stakes offered: sorted, of length `min limit n`, the multiset of the `limit` largest;
* `top_stakes_only_relocated`: the statement "the slice holds the largest stakes of ALL validated identities" is FALSE of the code as
  written (kernel-checked witness): only identities being relocated are offered.  Deterministic, so not a C01 violation.
-/
namespace IdenaModel.ShardBalance
open List

theorem get_set (c : Cnt) (k k' : Key) (v : Int) : get (set c k v) k' = if k = k' then v else get c k' := by
  induction c with
  | nil => simp [set, get]
  | cons h t ih =>
    obtain ⟨kh, vh⟩ := h
    by_cases h1 : kh = k
    · subst h1
      simp only [set, get, if_true]
      split <;> rfl
    · by_cases h2 : kh = k'
      · subst h2
        have : ¬ k = kh := fun e => h1 e.symm
        simp [set, get, h1, this]
      · simp [set, get, h1, h2, ih]

theorem get_add (c : Cnt) (k k' : Key) (d : Int) : get (add c k d) k' = get c k' + (if k = k' then d else 0) := by
  unfold add
  rw [get_set]
  split
  · rename_i h; subst h; rfl
  · omega

/-- the identity sits under counter key `k'` -/
def isKey (k' : Key) (x : Ident) : Bool := decide ((x.kind, x.shard) = k')
/-- the call `SetShardId(p.1, p.2)` puts an identity under counter key `k'` -/
def lands (k' : Key) (p : Ident × Nat) : Bool := decide ((p.1.kind, p.2) = k')

theorem select_perm (nn : Nat) (des : Nat → Nat) : ∀ (ids : List Ident) (c : Cnt),
    ((select nn des c ids).sel ++ (select nn des c ids).rest).Perm ids := by
  intro ids
  induction ids with
  | nil => intro c; simp [select]
  | cons x xs ih =>
    intro c
    simp only [select]
    split
    · simpa using ih _
    · exact (List.perm_middle).trans (List.Perm.cons x (ih c))

theorem select_cnt (nn : Nat) (des : Nat → Nat) : ∀ (ids : List Ident) (c : Cnt) (k' : Key),
    get (select nn des c ids).cnt k' = get c k' - (countP (isKey k') (select nn des c ids).sel : Nat) := by
  intro ids
  induction ids with
  | nil => intro c k'; simp [select]
  | cons x xs ih =>
    intro c k'
    simp only [select]
    split
    · simp only [List.countP_cons]
      rw [ih, get_add]
      by_cases h : (x.kind, x.shard) = k'
      · simp [isKey, h]; omega
      · simp [isKey, h]
    · exact ih c k'

theorem select_sel_kind (nn : Nat) (des : Nat → Nat) : ∀ (ids : List Ident) (c : Cnt),
    ∀ x ∈ (select nn des c ids).sel, x.kind < 3 := by
  intro ids
  induction ids with
  | nil => intro c x hx; simp [select] at hx
  | cons y ys ih =>
    intro c x hx
    simp only [select] at hx
    split at hx
    · rename_i hw
      simp only [List.mem_cons] at hx
      rcases hx with rfl | hx
      · simp [wants] at hw; exact hw.1
      · exact ih _ x hx
    · exact ih _ x hx

theorem select_rest_lt (nn : Nat) (des : Nat → Nat) : ∀ (ids : List Ident) (c : Cnt),
    ∀ x ∈ (select nn des c ids).rest, x.kind < 3 → x.shard < nn := by
  intro ids
  induction ids with
  | nil => intro c x hx; simp [select] at hx
  | cons y ys ih =>
    intro c x hx
    simp only [select] at hx
    split at hx
    · exact ih _ x hx
    · rename_i hw
      simp only [List.mem_cons] at hx
      rcases hx with rfl | hx
      · intro hk
        simp [wants, hk] at hw
        omega
      · exact ih _ x hx


/-- the counters `c'` are the counters `c` plus the landings of the calls `a` -/
def Eff (c : Cnt) (a : List (Ident × Nat)) (c' : Cnt) : Prop :=
  ∀ k', get c' k' = get c k' + (countP (lands k') a : Nat)

theorem Eff.rfl' (c : Cnt) : Eff c [] c := by intro k'; simp

theorem Eff.trans {c c' c'' : Cnt} {a b : List (Ident × Nat)} (h1 : Eff c a c') (h2 : Eff c' b c'') : Eff c (a ++ b) c'' := by
  intro k'
  rw [h2 k', h1 k', List.countP_append]
  omega

theorem fillLoop_spec (key : Key) (des : Int) : ∀ (q : List Ident) (c : Cnt), (∀ x ∈ q, x.kind = key.1) →
    (fillLoop key des c q).2.2.map Prod.fst ++ (fillLoop key des c q).2.1 = q ∧
    (∀ p ∈ (fillLoop key des c q).2.2, p.2 = key.2) ∧
    Eff c (fillLoop key des c q).2.2 (fillLoop key des c q).1 := by
  intro q
  induction q with
  | nil => intro c _; simp [fillLoop, Eff.rfl']
  | cons x q ih =>
    intro c hk
    simp only [fillLoop]
    split
    · obtain ⟨h1, h2, h3⟩ := ih (add c key 1) (fun y hy => hk y (List.mem_cons_of_mem _ hy))
      refine ⟨by simp [h1], ?_, ?_⟩
      · intro p hp
        simp only [List.mem_cons] at hp
        rcases hp with rfl | hp
        · rfl
        · exact h2 p hp
      · intro k'
        rw [h3 k', get_add, List.countP_cons]
        have hx : x.kind = key.1 := hk x (List.mem_cons_self ..)
        by_cases h : key = k'
        · subst h
          have : lands key (x, key.2) = true := by simp [lands, hx]
          simp [this]; omega
        · have : lands k' (x, key.2) = false := by
            simp only [lands, decide_eq_false_iff_not]
            intro e; apply h; rw [← e, hx]
          simp [this, h]
    · simp [Eff.rfl']

theorem nextShard_range (nn sh : Nat) (hnn : 1 ≤ nn) : 1 ≤ nextShard nn sh ∧ nextShard nn sh ≤ nn := by
  unfold nextShard; split <;> omega

theorem rrLoop_spec (nn kind : Nat) (hnn : 1 ≤ nn) : ∀ (q : List Ident) (sh : Nat) (c : Cnt), (∀ x ∈ q, x.kind = kind) →
    1 ≤ sh ∧ sh ≤ nn →
    (rrLoop nn kind sh c q).2.2.map Prod.fst = q ∧
    (∀ p ∈ (rrLoop nn kind sh c q).2.2, 1 ≤ p.2 ∧ p.2 ≤ nn) ∧
    (1 ≤ (rrLoop nn kind sh c q).1 ∧ (rrLoop nn kind sh c q).1 ≤ nn) ∧
    Eff c (rrLoop nn kind sh c q).2.2 (rrLoop nn kind sh c q).2.1 := by
  intro q
  induction q with
  | nil => intro sh c _ hs; simp [rrLoop, Eff.rfl', hs]
  | cons x q ih =>
    intro sh c hk hs
    simp only [rrLoop]
    obtain ⟨h1, h2, h3, h4⟩ := ih (nextShard nn sh) (add c (kind, sh) 1) (fun y hy => hk y (List.mem_cons_of_mem _ hy))
      (nextShard_range nn sh hnn)
    refine ⟨by simp [h1], ?_, h3, ?_⟩
    · intro p hp
      simp only [List.mem_cons] at hp
      rcases hp with rfl | hp
      · exact hs
      · exact h2 p hp
    · intro k'
      rw [h4 k', get_add, List.countP_cons]
      have hx : x.kind = kind := hk x (List.mem_cons_self ..)
      by_cases h : (kind, sh) = k'
      · subst h
        have : lands (kind, sh) (x, sh) = true := by simp [lands, hx]
        simp [this]; omega
      · have : lands k' (x, sh) = false := by
          simp only [lands, decide_eq_false_iff_not]
          intro e; apply h; rw [← e, hx]
        simp [this, h]


/-- what the two distribution phases keep true: the queues hold one kind each, the counters follow the calls, every call
names a shard in `1 … nn`, and calls + queues are a rearrangement of the initial queues `Q` -/
structure Inv (nn : Nat) (c0 : Cnt) (Q : List Ident) (s : St) : Prop where
  kv : ∀ x ∈ s.qv, x.kind = 0
  kn : ∀ x ∈ s.qn, x.kind = 1
  ks : ∀ x ∈ s.qs, x.kind = 2
  eff : Eff c0 s.asg s.cnt
  rng : ∀ p ∈ s.asg, 1 ≤ p.2 ∧ p.2 ≤ nn
  all : (s.asg.map Prod.fst ++ (s.qv ++ (s.qn ++ s.qs))).Perm Q

theorem fillShard_inv (nn : Nat) (des : Nat → Nat) (c0 : Cnt) (Q : List Ident) (s : St) (sh : Nat)
    (hs : 1 ≤ sh ∧ sh ≤ nn) (h : Inv nn c0 Q s) : Inv nn c0 Q (fillShard des s sh) := by
  obtain ⟨a1, a2, a3⟩ := fillLoop_spec (0, sh) (des 0) s.qv s.cnt h.kv
  obtain ⟨b1, b2, b3⟩ := fillLoop_spec (1, sh) (des 1) s.qn (fillLoop (0, sh) (des 0) s.cnt s.qv).1 h.kn
  obtain ⟨d1, d2, d3⟩ := fillLoop_spec (2, sh) (des 2) s.qs (fillLoop (1, sh) (des 1) (fillLoop (0, sh) (des 0) s.cnt s.qv).1 s.qn).1 h.ks
  have sub : ∀ {l l' : List Ident} {a : List (Ident × Nat)}, a.map Prod.fst ++ l' = l → ∀ x ∈ l', x ∈ l := by
    intro l l' a e x hx; rw [← e]; exact List.mem_append_right _ hx
  refine ⟨fun x hx => h.kv x (sub a1 x hx), fun x hx => h.kn x (sub b1 x hx), fun x hx => h.ks x (sub d1 x hx), ?_, ?_, ?_⟩
  · simp only [fillShard, List.append_assoc]
    exact h.eff.trans (a3.trans (b3.trans d3))
  · intro p hp
    simp only [fillShard, List.mem_append] at hp
    rcases hp with ((hp | hp) | hp) | hp
    · exact h.rng p hp
    · rw [a2 p hp]; exact hs
    · rw [b2 p hp]; exact hs
    · rw [d2 p hp]; exact hs
  · refine List.Perm.trans ?_ h.all
    rw [List.perm_iff_count]
    intro x
    conv => rhs; rw [← a1, ← b1, ← d1]
    simp only [fillShard, List.map_append, List.count_append]
    omega

theorem fillShards_inv (nn : Nat) (des : Nat → Nat) (c0 : Cnt) (Q : List Ident) : ∀ (l : List Nat) (s : St),
    (∀ sh ∈ l, 1 ≤ sh ∧ sh ≤ nn) → Inv nn c0 Q s → Inv nn c0 Q (l.foldl (fillShard des) s) := by
  intro l
  induction l with
  | nil => intro s _ h; exact h
  | cons sh l ih =>
    intro s hl h
    simp only [List.foldl_cons]
    exact ih _ (fun x hx => hl x (List.mem_cons_of_mem _ hx)) (fillShard_inv nn des c0 Q s sh (hl sh (List.mem_cons_self ..)) h)

theorem remainder_inv (nn : Nat) (hnn : 1 ≤ nn) (c0 : Cnt) (Q : List Ident) (s : St) (h : Inv nn c0 Q s) :
    Inv nn c0 Q (remainder nn s) ∧ (remainder nn s).qv = [] ∧ (remainder nn s).qn = [] ∧ (remainder nn s).qs = [] := by
  obtain ⟨a1, a2, a3, a4⟩ := rrLoop_spec nn 0 hnn s.qv 1 s.cnt h.kv ⟨Nat.le_refl 1, hnn⟩
  obtain ⟨b1, b2, b3, b4⟩ := rrLoop_spec nn 1 hnn s.qn _ (rrLoop nn 0 1 s.cnt s.qv).2.1 h.kn a3
  obtain ⟨d1, d2, _, d4⟩ := rrLoop_spec nn 2 hnn s.qs _ (rrLoop nn 1 (rrLoop nn 0 1 s.cnt s.qv).1 (rrLoop nn 0 1 s.cnt s.qv).2.1 s.qn).2.1 h.ks b3
  refine ⟨⟨by simp [remainder], by simp [remainder], by simp [remainder], ?_, ?_, ?_⟩, rfl, rfl, rfl⟩
  · simp only [remainder, List.append_assoc]
    exact h.eff.trans (a4.trans (b4.trans d4))
  · intro p hp
    simp only [remainder, List.mem_append] at hp
    rcases hp with ((hp | hp) | hp) | hp
    · exact h.rng p hp
    · exact a2 p hp
    · exact b2 p hp
    · exact d2 p hp
  · refine List.Perm.trans ?_ h.all
    simp only [remainder, List.map_append, a1, b1, d1, List.append_nil, List.append_assoc]
    exact List.Perm.refl _

/-- both phases: every queued identity gets exactly one call, into a shard `1 … nn`, and the counters follow -/
theorem distribute_spec (nn : Nat) (hnn : 1 ≤ nn) (des : Nat → Nat) (s : St) (hv : ∀ x ∈ s.qv, x.kind = 0)
    (hn : ∀ x ∈ s.qn, x.kind = 1) (hs : ∀ x ∈ s.qs, x.kind = 2) (ha : s.asg = []) :
    ((distribute nn des s).asg.map Prod.fst).Perm (s.qv ++ (s.qn ++ s.qs)) ∧
    (∀ p ∈ (distribute nn des s).asg, 1 ≤ p.2 ∧ p.2 ≤ nn) ∧
    Eff s.cnt (distribute nn des s).asg (distribute nn des s).cnt := by
  have h0 : Inv nn s.cnt (s.qv ++ (s.qn ++ s.qs)) s :=
    ⟨hv, hn, hs, by rw [ha]; exact Eff.rfl' _, by rw [ha]; simp, by rw [ha]; simp⟩
  have h1 := fillShards_inv nn des s.cnt (s.qv ++ (s.qn ++ s.qs)) (List.range' 1 nn) s
    (by intro sh hsh; simp [List.mem_range'_1] at hsh; omega) h0
  obtain ⟨h2, e1, e2, e3⟩ := remainder_inv nn hnn s.cnt _ _ h1
  refine ⟨?_, h2.rng, h2.eff⟩
  have := h2.all
  rw [e1, e2, e3] at this
  simpa [distribute] using this


theorem shuffle_range (l : List Ident) : shuffle l (List.range l.length) = l := by
  unfold shuffle
  apply List.ext_getElem
  · simp
  · intro j h1 h2
    simp at h1
    simp [h1]

theorem shuffle_perm (l : List Ident) (perm : List Nat) (h : perm.Perm (List.range l.length)) : (shuffle l perm).Perm l := by
  have : (shuffle l perm).Perm (shuffle l (List.range l.length)) := by
    unfold shuffle
    exact h.map _
  rw [shuffle_range] at this
  exact this

theorem validPerm_of_perm (perm : List Nat) (n : Nat) (h : perm.Perm (List.range n)) : validPerm perm n = true := by
  simp only [validPerm, Bool.and_eq_true, decide_eq_true_eq, List.all_eq_true]
  refine ⟨by simpa using h.length_eq, ?_⟩
  intro j hj
  have := (h.mem_iff).1 hj
  simpa using this

theorem find_nodup (l : List (Ident × Nat)) (hnd : (l.map (fun q => q.1.id)).Nodup) :
    ∀ p ∈ l, l.find? (fun q => q.1.id == p.1.id) = some p := by
  induction l with
  | nil => intro p hp; simp at hp
  | cons q t ih =>
    intro p hp
    simp only [List.map_cons, List.nodup_cons] at hnd
    simp only [List.mem_cons] at hp
    by_cases hq : q.1.id = p.1.id
    · rcases hp with rfl | hp
      · simp
      · exfalso
        apply hnd.1
        rw [hq]
        exact List.mem_map.2 ⟨p, hp, rfl⟩
    · rcases hp with rfl | hp
      · exact absurd rfl hq
      · have hb : (q.1.id == p.1.id) = false := by simpa using hq
        rw [List.find?_cons, hb]
        exact ih hnd.2 p hp

theorem shardAfter_mem (asg : List (Ident × Nat)) (hnd : (asg.map (fun q => q.1.id)).Nodup) (p : Ident × Nat) (hp : p ∈ asg) :
    shardAfter asg.reverse p.1 = p.2 := by
  have hnd' : (asg.reverse.map (fun q => q.1.id)).Nodup := by
    rw [List.map_reverse]; exact (List.reverse_perm _).nodup_iff.2 hnd
  have := find_nodup asg.reverse hnd' p (List.mem_reverse.2 hp)
  simp [shardAfter, this]

theorem shardAfter_not_mem (asg : List (Ident × Nat)) (x : Ident) (h : x.id ∉ asg.map (fun q => q.1.id)) :
    shardAfter asg.reverse x = x.shard := by
  have : asg.reverse.find? (fun p => p.1.id == x.id) = none := by
    rw [List.find?_eq_none]
    intro p hp
    simp only [beq_iff_eq]
    intro e
    apply h
    exact List.mem_map.2 ⟨p, List.mem_reverse.1 hp, e⟩
  simp [shardAfter, this]

/-- a call found for an identity is one of the calls -/
theorem shardAfter_cases (asg : List (Ident × Nat)) (x : Ident) :
    (∃ p ∈ asg, p.1.id = x.id ∧ shardAfter asg.reverse x = p.2) ∨
    (x.id ∉ asg.map (fun q => q.1.id) ∧ shardAfter asg.reverse x = x.shard) := by
  by_cases h : x.id ∈ asg.map (fun q => q.1.id)
  · left
    unfold shardAfter
    cases hf : asg.reverse.find? (fun p => p.1.id == x.id) with
    | none =>
      exfalso
      rw [List.find?_eq_none] at hf
      obtain ⟨p, hp, e⟩ := List.mem_map.1 h
      exact hf p (List.mem_reverse.2 hp) (by simpa using e)
    | some p =>
      have h1 := List.mem_of_find?_eq_some hf
      have h2 := List.find?_some hf
      exact ⟨p, List.mem_reverse.1 h1, by simpa using h2, rfl⟩
  · right
    exact ⟨h, shardAfter_not_mem asg x h⟩


/-- the three inputs standing for `rnd.Perm(len(…ForRelocation))` are permutations of `0 … len-1` -/
structure Input.PermsOk (i : Input) : Prop where
  v : i.permV.Perm (List.range (i.rel 0).length)
  n : i.permN.Perm (List.range (i.rel 1).length)
  s : i.permS.Perm (List.range (i.rel 2).length)

theorem newNum_pos (i : Input) (h : 1 ≤ i.prev) : 1 ≤ i.newNum :=
  IdenaModel.Shards.shardsNum_pos _ _ _ _ h

/-- what `run` returns, piece by piece -/
theorem run_spec (i : Input) (o : Output) (h : run i = some o) :
    1 ≤ i.newNum ∧ o.newNum = i.newNum ∧ o.asg = (distribute i.newNum i.des i.start).asg ∧
    o.sizes = (List.range' 1 i.newNum).map (fun sh => toUint32 (get (distribute i.newNum i.des i.start).cnt (1, sh) +
      get (distribute i.newNum i.des i.start).cnt (0, sh) + get (distribute i.newNum i.des i.start).cnt (2, sh))) ∧
    o.final = i.ids.map (after o.asg) ∧
    o.threshold = (if (topStakes i.selection.sel i.topCnt).isEmpty then none else threshold (topStakes i.selection.sel i.topCnt)) := by
  unfold run at h
  split at h
  · cases h
  · rename_i hnn
    split at h
    · injection h with h
      subst h
      exact ⟨by omega, rfl, rfl, rfl, rfl, rfl⟩
    · cases h

/-- the function is defined on every state the node can be in (`ShardsNum() ≥ 1`) -/
theorem run_isSome (i : Input) (hprev : 1 ≤ i.prev) (hp : i.PermsOk) : (run i).isSome = true := by
  have hnn := newNum_pos i hprev
  unfold run
  rw [if_neg (by omega)]
  simp [validPerm_of_perm _ _ hp.v, validPerm_of_perm _ _ hp.n, validPerm_of_perm _ _ hp.s]

theorem rel_kind (i : Input) (k : Nat) : ∀ x ∈ i.rel k, x.kind = k := by
  intro x hx
  simp [Input.rel] at hx
  exact hx.2

theorem selection_kind (i : Input) : ∀ x ∈ i.selection.sel, x.kind < 3 := select_sel_kind _ _ _ _

theorem rel_perm (i : Input) : (i.rel 0 ++ (i.rel 1 ++ i.rel 2)).Perm i.selection.sel := by
  rw [List.perm_iff_count]
  intro x
  simp only [List.count_append, Input.rel]
  by_cases hx : x ∈ i.selection.sel
  · have hk := selection_kind i x hx
    have h3 : x.kind = 0 ∨ x.kind = 1 ∨ x.kind = 2 := by omega
    have no : ∀ k, x.kind ≠ k → count x (filter (fun y => y.kind == k) i.selection.sel) = 0 := by
      intro k hk
      apply List.count_eq_zero.2
      intro hm
      simp at hm
      exact hk hm.2
    have yes : ∀ k, x.kind = k → count x (filter (fun y => y.kind == k) i.selection.sel) = count x i.selection.sel := by
      intro k hk
      exact List.count_filter (by simp [hk])
    rcases h3 with h | h | h
    · rw [yes 0 h, no 1 (by omega), no 2 (by omega)]; omega
    · rw [no 0 (by omega), yes 1 h, no 2 (by omega)]; omega
    · rw [no 0 (by omega), no 1 (by omega), yes 2 h]; omega
  · have z : ∀ k, count x (filter (fun y => y.kind == k) i.selection.sel) = 0 := by
      intro k
      apply List.count_eq_zero.2
      intro hm
      exact hx (List.mem_filter.1 hm).1
    rw [z 0, z 1, z 2, List.count_eq_zero.2 hx]

theorem start_ok (i : Input) (hp : i.PermsOk) :
    (∀ x ∈ i.start.qv, x.kind = 0) ∧ (∀ x ∈ i.start.qn, x.kind = 1) ∧ (∀ x ∈ i.start.qs, x.kind = 2) ∧
    (i.start.qv ++ (i.start.qn ++ i.start.qs)).Perm i.selection.sel := by
  have pv := shuffle_perm _ _ hp.v
  have pn := shuffle_perm _ _ hp.n
  have ps := shuffle_perm _ _ hp.s
  refine ⟨fun x hx => rel_kind i 0 x (pv.mem_iff.1 hx), fun x hx => rel_kind i 1 x (pn.mem_iff.1 hx),
    fun x hx => rel_kind i 2 x (ps.mem_iff.1 hx), ?_⟩
  exact ((pv.append (pn.append ps))).trans (rel_perm i)

/-- the calls: one per selected identity, into shards `1 … newShardsNum`, and the counters follow them -/
theorem calls_spec (i : Input) (o : Output) (h : run i = some o) (hp : i.PermsOk) :
    (o.asg.map Prod.fst).Perm i.selection.sel ∧ (∀ p ∈ o.asg, 1 ≤ p.2 ∧ p.2 ≤ o.newNum) ∧
    Eff i.selection.cnt o.asg (distribute i.newNum i.des i.start).cnt := by
  obtain ⟨hnn, e1, e2, _, _, _⟩ := run_spec i o h
  obtain ⟨kv, kn, ks, pall⟩ := start_ok i hp
  obtain ⟨d1, d2, d3⟩ := distribute_spec i.newNum hnn i.des i.start kv kn ks rfl
  rw [e1, e2]
  exact ⟨d1.trans pall, d2, d3⟩


/-! ## (a) where identities end up -/

/-- **relocated_in_range**: every `SetShardId` call names a shard in `1 … newShardsNum`, and every identity appended to a
relocation slice gets a call — whatever the counters and the prior shards were. -/
theorem relocated_in_range (i : Input) (o : Output) (h : run i = some o) (hp : i.PermsOk) :
    (∀ p ∈ o.asg, 1 ≤ p.2 ∧ p.2 ≤ o.newNum) ∧ (∀ x ∈ i.selection.sel, ∃ p ∈ o.asg, p.1 = x) := by
  obtain ⟨c1, c2, _⟩ := calls_spec i o h hp
  refine ⟨c2, ?_⟩
  intro x hx
  have := c1.mem_iff.2 hx
  obtain ⟨p, hp1, hp2⟩ := List.mem_map.1 this
  exact ⟨p, hp1, hp2⟩

/-- an identity of the three kinds that is NOT selected sits in a shard strictly below `newShardsNum` (the condition is
`shard >= newShardsNum`: the shard numbered `newShardsNum` itself is emptied and refilled) -/
theorem unselected_below (i : Input) : ∀ x ∈ i.selection.rest, x.kind < 3 → x.shard < i.newNum :=
  select_rest_lt _ _ _ _

theorem selection_perm (i : Input) : (i.selection.sel ++ i.selection.rest).Perm i.ids :=
  select_perm i.newNum i.des i.ids i.cnt

theorem mem_sel_or_rest (i : Input) (x : Ident) (hx : x ∈ i.ids) : x ∈ i.selection.sel ∨ x ∈ i.selection.rest := by
  have := (selection_perm i).mem_iff.2 hx
  exact List.mem_append.1 this

theorem after_kind (asg : List (Ident × Nat)) (x : Ident) : (after asg x).kind = x.kind := rfl
theorem after_id (asg : List (Ident × Nat)) (x : Ident) : (after asg x).id = x.id := rfl

/-- **all_in_range**: if every identity of the three kinds sat in a shard ≥ 1 (`ShiftedShardId` never returns 0), then afterwards
EVERY identity of the three kinds is in a shard `1 … newShardsNum` — relocated or not. -/
theorem all_in_range (i : Input) (o : Output) (h : run i = some o) (hp : i.PermsOk)
    (hsh : ∀ x ∈ i.ids, x.kind < 3 → 1 ≤ x.shard) :
    ∀ y ∈ o.final, y.kind < 3 → 1 ≤ y.shard ∧ y.shard ≤ o.newNum := by
  obtain ⟨hnn, e1, _, _, e5, _⟩ := run_spec i o h
  obtain ⟨r1, r2⟩ := relocated_in_range i o h hp
  intro y hy hk
  rw [e5] at hy
  obtain ⟨x, hx, rfl⟩ := List.mem_map.1 hy
  rw [after_kind] at hk
  rcases shardAfter_cases o.asg x with ⟨p, hp1, _, hp3⟩ | ⟨hn, hs⟩
  · show 1 ≤ shardAfter o.asg.reverse x ∧ shardAfter o.asg.reverse x ≤ o.newNum
    rw [hp3]; exact r1 p hp1
  · show 1 ≤ shardAfter o.asg.reverse x ∧ shardAfter o.asg.reverse x ≤ o.newNum
    rw [hs]
    rcases mem_sel_or_rest i x hx with hsel | hrest
    · exfalso
      obtain ⟨p, hp1, hp2⟩ := r2 x hsel
      exact hn (List.mem_map.2 ⟨p, hp1, by rw [hp2]⟩)
    · have := unselected_below i x hrest hk
      have := hsh x hx hk
      omega

/-! ## (c) frame -/

theorem sel_rest_ids (i : Input) (hnd : (i.ids.map (·.id)).Nodup) :
    (i.selection.sel.map (·.id)).Nodup ∧ ∀ x ∈ i.selection.rest, x.id ∉ i.selection.sel.map (·.id) := by
  have p := (selection_perm i).map (·.id)
  have nd := p.nodup_iff.2 hnd
  rw [List.map_append, List.nodup_append] at nd
  refine ⟨nd.1, ?_⟩
  intro x hx hm
  exact nd.2.2 x.id hm x.id (List.mem_map.2 ⟨x, hx, rfl⟩) rfl

theorem asg_ids (i : Input) (o : Output) (h : run i = some o) (hp : i.PermsOk) :
    (o.asg.map (fun q => q.1.id)).Perm (i.selection.sel.map (·.id)) := by
  have := (calls_spec i o h hp).1.map (·.id)
  rw [List.map_map] at this
  exact this

/-- **unselected_keep**: with pairwise distinct addresses, an identity that is not appended to a relocation slice — in particular
every identity of a state outside the three kinds — has the same shard afterwards. -/
theorem unselected_keep (i : Input) (o : Output) (h : run i = some o) (hp : i.PermsOk) (hnd : (i.ids.map (·.id)).Nodup) :
    (∀ x ∈ i.selection.rest, after o.asg x = x) ∧ (∀ x ∈ i.ids, 3 ≤ x.kind → after o.asg x = x) := by
  have hrest : ∀ x ∈ i.selection.rest, after o.asg x = x := by
    intro x hx
    have hn : x.id ∉ o.asg.map (fun q => q.1.id) := by
      intro hm
      exact (sel_rest_ids i hnd).2 x hx ((asg_ids i o h hp).mem_iff.1 hm)
    show ({ x with shard := shardAfter o.asg.reverse x } : Ident) = x
    rw [shardAfter_not_mem o.asg x hn]
  refine ⟨hrest, ?_⟩
  intro x hx hk
  rcases mem_sel_or_rest i x hx with hsel | hr
  · have := selection_kind i x hsel; omega
  · exact hrest x hr

/-! ## (b) bookkeeping -/

/-- the identities under a counter key afterwards: those that stayed there plus the calls landing there -/
theorem final_count (i : Input) (o : Output) (h : run i = some o) (hp : i.PermsOk) (hnd : (i.ids.map (·.id)).Nodup) (k' : Key) :
    countP (isKey k') o.final = countP (isKey k') i.selection.rest + countP (lands k') o.asg := by
  obtain ⟨_, _, _, _, e5, _⟩ := run_spec i o h
  obtain ⟨c1, _, _⟩ := calls_spec i o h hp
  have hndA : (o.asg.map (fun q => q.1.id)).Nodup := (asg_ids i o h hp).nodup_iff.2 (sel_rest_ids i hnd).1
  rw [e5, List.countP_map, ← (selection_perm i).countP_eq, List.countP_append]
  have h1 : countP (isKey k' ∘ after o.asg) i.selection.rest = countP (isKey k') i.selection.rest := by
    apply List.countP_congr
    intro x hx
    simp only [Function.comp, (unselected_keep i o h hp hnd).1 x hx]
  have h2 : countP (isKey k' ∘ after o.asg) i.selection.sel = countP (lands k') o.asg := by
    have : countP (isKey k' ∘ after o.asg) i.selection.sel = countP (isKey k' ∘ after o.asg) (o.asg.map Prod.fst) :=
      (c1.countP_eq _).symm
    rw [this, List.countP_map]
    apply List.countP_congr
    intro p hp1
    simp only [Function.comp, isKey, lands, after, shardAfter_mem o.asg hndA p hp1]
  rw [h1, h2]
  exact Nat.add_comm _ _

/-- the counters at the end of the function are the actual populations, provided they were on entry -/
theorem counters_exact (i : Input) (o : Output) (h : run i = some o) (hp : i.PermsOk) (hnd : (i.ids.map (·.id)).Nodup)
    (k' : Key) (hc : get i.cnt k' = (countP (isKey k') i.ids : Nat)) :
    get (distribute i.newNum i.des i.start).cnt k' = (countP (isKey k') o.final : Nat) := by
  obtain ⟨_, _, c3⟩ := calls_spec i o h hp
  rw [c3 k', final_count i o h hp hnd k']
  have hs : get i.selection.cnt k' = get i.cnt k' - (countP (isKey k') i.selection.sel : Nat) :=
    select_cnt i.newNum i.des i.ids i.cnt k'
  have hsplit : countP (isKey k') i.ids = countP (isKey k') i.selection.sel + countP (isKey k') i.selection.rest := by
    rw [← (selection_perm i).countP_eq, List.countP_append]
  rw [hs, hc, hsplit]
  omega


/-- an identity of the three kinds in shard `sh` -/
def inShard (sh : Nat) (y : Ident) : Bool := decide (y.kind < 3) && decide (y.shard = sh)

theorem three_keys (l : List Ident) (sh : Nat) :
    countP (isKey (1, sh)) l + countP (isKey (0, sh)) l + countP (isKey (2, sh)) l = countP (inShard sh) l := by
  induction l with
  | nil => simp
  | cons y l ih =>
    simp only [List.countP_cons]
    have : (if isKey (1, sh) y = true then 1 else 0) + (if isKey (0, sh) y = true then 1 else 0) +
        (if isKey (2, sh) y = true then 1 else 0) = (if inShard sh y = true then 1 else 0) := by
      by_cases hs : y.shard = sh
      · by_cases h0 : y.kind = 0
        · simp [isKey, inShard, hs, h0]
        · by_cases h1 : y.kind = 1
          · simp [isKey, inShard, hs, h1]
          · by_cases h2 : y.kind = 2
            · simp [isKey, inShard, hs, h2]
            · have : ¬ y.kind < 3 := by omega
              simp [isKey, inShard, h0, h1, h2, this]
      · simp [isKey, inShard, hs]
    omega

theorem toUint32_nat (n : Nat) (h : n < 4294967296) : toUint32 (n : Int) = n := by
  unfold toUint32; omega

theorem final_length (i : Input) (o : Output) (h : run i = some o) : o.final.length = i.ids.length := by
  obtain ⟨_, _, _, _, e5, _⟩ := run_spec i o h
  simp [e5]

/-- **sizes_exact**: if the counters handed in are the actual populations (what `setNewIdentitiesAttributes` computes), the value
given to `SetShardSize(sh, ·)` is the number of identities of the three kinds that are in shard `sh` afterwards, for every
`sh = 1 … newShardsNum`. -/
theorem sizes_exact (i : Input) (o : Output) (h : run i = some o) (hp : i.PermsOk) (hnd : (i.ids.map (·.id)).Nodup)
    (hc : ∀ k sh, k < 3 → 1 ≤ sh → sh ≤ i.newNum → get i.cnt (k, sh) = (countP (isKey (k, sh)) i.ids : Nat))
    (hlen : i.ids.length < 4294967296) :
    o.sizes = (List.range' 1 o.newNum).map (fun sh => countP (inShard sh) o.final) := by
  obtain ⟨_, e2, _, e4, _, _⟩ := run_spec i o h
  rw [e4, e2]
  apply List.map_congr_left
  intro sh hsh
  have hr : 1 ≤ sh ∧ sh ≤ i.newNum := by
    have := List.mem_range'_1.1 hsh; omega
  rw [counters_exact i o h hp hnd (1, sh) (hc 1 sh (by omega) hr.1 hr.2), counters_exact i o h hp hnd (0, sh) (hc 0 sh (by omega) hr.1 hr.2),
    counters_exact i o h hp hnd (2, sh) (hc 2 sh (by omega) hr.1 hr.2)]
  have hb : countP (inShard sh) o.final ≤ o.final.length := List.countP_le_length
  rw [final_length i o h] at hb
  rw [← three_keys] at hb ⊢
  have : ((countP (isKey (1, sh)) o.final : Nat) : Int) + (countP (isKey (0, sh)) o.final : Nat) + (countP (isKey (2, sh)) o.final : Nat) =
      ((countP (isKey (1, sh)) o.final + countP (isKey (0, sh)) o.final + countP (isKey (2, sh)) o.final : Nat) : Int) := by omega
  rw [this, toUint32_nat _ (by omega)]

theorem sum_map_add (L : List Nat) (f g : Nat → Nat) :
    (L.map (fun j => f j + g j)).sum = (L.map f).sum + (L.map g).sum := by
  induction L with
  | nil => simp
  | cons a L ih => simp only [List.map_cons, List.sum_cons, ih]; omega

theorem sum_map_zero (L : List Nat) : (L.map (fun _ => 0)).sum = 0 := by
  induction L with
  | nil => rfl
  | cons a L ih => simp only [List.map_cons, List.sum_cons, ih]

theorem sum_indicator (j : Nat) : ∀ (n s : Nat),
    ((List.range' s n).map (fun sh => if j = sh then 1 else 0)).sum = if s ≤ j ∧ j < s + n then 1 else 0 := by
  intro n
  induction n with
  | zero => intro s; simp
  | succ n ih =>
    intro s
    simp only [List.range'_succ, List.map_cons, List.sum_cons, ih]
    by_cases h : j = s
    · subst h; simp; omega
    · simp only [h, if_false]
      by_cases h2 : s + 1 ≤ j ∧ j < s + 1 + n
      · rw [if_pos h2, if_pos (by omega)]
      · rw [if_neg h2, if_neg (by omega)]

theorem sum_inShard (nn : Nat) (l : List Ident) (hl : ∀ y ∈ l, y.kind < 3 → 1 ≤ y.shard ∧ y.shard ≤ nn) :
    ((List.range' 1 nn).map (fun sh => countP (inShard sh) l)).sum = countP (fun y => decide (y.kind < 3)) l := by
  induction l with
  | nil => simp [sum_map_zero]
  | cons y l ih =>
    simp only [List.countP_cons]
    rw [sum_map_add, ih (fun z hz => hl z (List.mem_cons_of_mem _ hz))]
    congr 1
    by_cases hk : y.kind < 3
    · have := hl y (List.mem_cons_self ..) hk
      have e : (fun sh => if inShard sh y = true then 1 else 0) = (fun sh => if y.shard = sh then 1 else 0) := by
        funext sh; simp [inShard, hk]
      rw [e, sum_indicator]
      simp [hk]; omega
    · have e : (fun sh => if inShard sh y = true then 1 else 0) = (fun _ => 0) := by
        funext sh; simp [inShard, hk]
      rw [e, sum_map_zero]
      simp [hk]

/-- **sizes_sum**: … and, identities sitting in shards ≥ 1 before, the recorded sizes add up to the number of identities of the
three kinds (`totalNewbies + totalVerified + totalSuspended` of an exact caller): nobody is lost or counted twice. -/
theorem sizes_sum (i : Input) (o : Output) (h : run i = some o) (hp : i.PermsOk) (hnd : (i.ids.map (·.id)).Nodup)
    (hc : ∀ k sh, k < 3 → 1 ≤ sh → sh ≤ i.newNum → get i.cnt (k, sh) = (countP (isKey (k, sh)) i.ids : Nat))
    (hlen : i.ids.length < 4294967296) (hsh : ∀ x ∈ i.ids, x.kind < 3 → 1 ≤ x.shard) :
    o.sizes.sum = countP (fun x => decide (x.kind < 3)) i.ids := by
  rw [sizes_exact i o h hp hnd hc hlen, sum_inShard o.newNum o.final (all_in_range i o h hp hsh)]
  obtain ⟨_, _, _, _, e5, _⟩ := run_spec i o h
  rw [e5, List.countP_map]
  rfl


/-! ## (d) the top stakes -/

/-- insertion into a descending list, after the elements that are ≥ the new one -/
def insDesc (e : Nat) : List Nat → List Nat
  | [] => [e]
  | a :: l => if a ≥ e then a :: insDesc e l else e :: a :: l

theorem span_insDesc (e : Nat) (data : List Nat) :
    data.takeWhile (fun d => decide (d ≥ e)) ++ e :: data.dropWhile (fun d => decide (d ≥ e)) = insDesc e data := by
  induction data with
  | nil => rfl
  | cons a l ih =>
    by_cases h : a ≥ e
    · simp [insDesc, h, ih]
    · simp [insDesc, h]

theorem insDesc_length (e : Nat) (l : List Nat) : (insDesc e l).length = l.length + 1 := by
  rw [← span_insDesc]
  have := List.takeWhile_append_dropWhile (p := fun d => decide (d ≥ e)) (l := l)
  have h2 := congrArg List.length this
  simp only [List.length_append, List.length_cons] at h2 ⊢
  omega

/-- one call is: insert, then cut to `limit` -/
theorem appendToTop_eq (data : List Nat) (e limit : Nat) (h : data.length ≤ limit) :
    appendToTop data e limit = (insDesc e data).take limit := by
  unfold appendToTop
  simp only
  by_cases hl : data.length = limit
  · rw [if_pos hl]
    by_cases hlo : (data.dropWhile (fun d => decide (d ≥ e))).isEmpty = true
    · rw [if_pos hlo, ← span_insDesc]
      have hnil : data.dropWhile (fun d => decide (d ≥ e)) = [] := by simpa using hlo
      have htw : data.takeWhile (fun d => decide (d ≥ e)) = data := by
        have := List.takeWhile_append_dropWhile (p := fun d => decide (d ≥ e)) (l := data)
        rw [hnil, List.append_nil] at this
        exact this
      rw [hnil, htw, ← hl]
      simp
    · rw [if_neg hlo]
      have hne : data.dropWhile (fun d => decide (d ≥ e)) ≠ [] := by simpa using hlo
      have hlen := insDesc_length e data
      rw [← span_insDesc] at hlen ⊢
      have : (data.takeWhile (fun d => decide (d ≥ e)) ++ e :: data.dropWhile (fun d => decide (d ≥ e))).dropLast =
          data.takeWhile (fun d => decide (d ≥ e)) ++ e :: (data.dropWhile (fun d => decide (d ≥ e))).dropLast := by
        rw [List.dropLast_append_of_ne_nil (by simp), List.dropLast_cons_of_ne_nil hne]
      rw [← this, List.dropLast_eq_take, hlen, hl]
      simp
  · rw [if_neg hl, span_insDesc]
    have := insDesc_length e data
    rw [List.take_of_length_le (by omega)]

theorem take_insDesc_take (e : Nat) : ∀ (n : Nat) (l : List Nat), (insDesc e (l.take n)).take n = (insDesc e l).take n := by
  intro n
  induction n with
  | zero => intro l; simp
  | succ n ih =>
    intro l
    cases l with
    | nil => rfl
    | cons a l =>
      simp only [List.take_succ_cons, insDesc]
      split
      · simp only [List.take_succ_cons, ih]
      · simp only [List.take_succ_cons]
        congr 1
        cases n with
        | zero => rfl
        | succ m => simp only [List.take_succ_cons, List.take_take]; congr 2; omega

/-- the loop of `appendToTop` calls is insertion sort cut to `limit` -/
theorem foldl_appendToTop (limit : Nat) (xs : List Nat) :
    xs.foldl (fun t e => appendToTop t e limit) [] = (xs.foldl (fun t e => insDesc e t) []).take limit := by
  suffices H : ∀ (xs : List Nat) (t : List Nat),
      xs.foldl (fun t e => appendToTop t e limit) (t.take limit) = (xs.foldl (fun t e => insDesc e t) t).take limit by
    simpa using H xs []
  intro xs
  induction xs with
  | nil => intro t; rfl
  | cons x xs ih =>
    intro t
    simp only [List.foldl_cons]
    rw [appendToTop_eq _ _ _ (by simp; omega), take_insDesc_take, ih]

theorem insDesc_perm (e : Nat) (l : List Nat) : (insDesc e l).Perm (e :: l) := by
  induction l with
  | nil => exact List.Perm.refl _
  | cons a l ih =>
    simp only [insDesc]
    split
    · exact (List.Perm.cons a ih).trans (List.Perm.swap e a l)
    · exact List.Perm.refl _

theorem insDesc_sorted (e : Nat) (l : List Nat) (h : l.Pairwise (· ≥ ·)) : (insDesc e l).Pairwise (· ≥ ·) := by
  induction l with
  | nil => simp [insDesc]
  | cons a l ih =>
    simp only [insDesc]
    rw [List.pairwise_cons] at h
    split
    · rename_i hae
      rw [List.pairwise_cons]
      refine ⟨?_, ih h.2⟩
      intro b hb
      have := (insDesc_perm e l).mem_iff.1 hb
      simp only [List.mem_cons] at this
      rcases this with rfl | hb
      · exact hae
      · exact h.1 b hb
    · rename_i hae
      rw [List.pairwise_cons]
      refine ⟨?_, List.pairwise_cons.2 h⟩
      intro b hb
      simp only [List.mem_cons] at hb
      rcases hb with rfl | hb
      · omega
      · have := h.1 b hb; omega

theorem isort_spec (xs : List Nat) : ∀ (t : List Nat), t.Pairwise (· ≥ ·) →
    (xs.foldl (fun t e => insDesc e t) t).Pairwise (· ≥ ·) ∧ (xs.foldl (fun t e => insDesc e t) t).Perm (xs ++ t) := by
  induction xs with
  | nil => intro t h; exact ⟨h, List.Perm.refl _⟩
  | cons x xs ih =>
    intro t h
    simp only [List.foldl_cons]
    obtain ⟨h1, h2⟩ := ih (insDesc x t) (insDesc_sorted x t h)
    refine ⟨h1, h2.trans ?_⟩
    exact ((insDesc_perm x t).append_left xs).trans (List.perm_middle)

/-- **top_stakes**: after any sequence of `appendToTop` calls (starting from the empty slice) the slice is the first `limit`
elements of a descending rearrangement of all stakes offered — i.e. exactly the multiset of the `limit` largest, sorted. -/
theorem top_stakes (limit : Nat) (xs : List Nat) :
    ∃ s : List Nat, s.Perm xs ∧ s.Pairwise (· ≥ ·) ∧ xs.foldl (fun t e => appendToTop t e limit) [] = s.take limit := by
  obtain ⟨h1, h2⟩ := isort_spec xs [] List.Pairwise.nil
  exact ⟨_, by simpa using h2, h1, foldl_appendToTop limit xs⟩

theorem top_stakes_sorted (limit : Nat) (xs : List Nat) :
    (xs.foldl (fun t e => appendToTop t e limit) []).Pairwise (· ≥ ·) := by
  obtain ⟨s, _, h2, h3⟩ := top_stakes limit xs
  rw [h3]
  exact h2.sublist (List.take_sublist _ _)

theorem top_stakes_length (limit : Nat) (xs : List Nat) :
    (xs.foldl (fun t e => appendToTop t e limit) []).length = min limit xs.length := by
  obtain ⟨s, h1, _, h3⟩ := top_stakes limit xs
  rw [h3, List.length_take, h1.length_eq]

/-- every stake left out is ≤ every stake kept -/
theorem top_stakes_largest (limit : Nat) (xs : List Nat) :
    ∃ out : List Nat, (xs.foldl (fun t e => appendToTop t e limit) [] ++ out).Perm xs ∧
      ∀ a ∈ xs.foldl (fun t e => appendToTop t e limit) [], ∀ b ∈ out, a ≥ b := by
  obtain ⟨s, h1, h2, h3⟩ := top_stakes limit xs
  refine ⟨s.drop limit, ?_, ?_⟩
  · rw [h3, List.take_append_drop]; exact h1
  · rw [h3]
    intro a ha b hb
    have := List.take_append_drop limit s
    rw [← this, List.pairwise_append] at h2
    exact h2.2.2 a ha b hb

/-- the slice the selection loop builds: the stakes of the selected identities of kinds 0 and 1 -/
theorem topStakes_spec (sel : List Ident) (limit : Nat) :
    ∃ s : List Nat, s.Perm ((sel.filter (fun x => decide (x.kind < 2))).map (·.stake)) ∧ s.Pairwise (· ≥ ·) ∧
      topStakes sel limit = s.take limit := by
  have := top_stakes limit ((sel.filter (fun x => decide (x.kind < 2))).map (·.stake))
  rw [List.foldl_map] at this
  exact this


/-! ## a concrete run (non-vacuity of every hypothesis used above) -/

/-- two shards before and after (4801 counted identities as the caller's totals — the theorems put no condition on the totals —, of
which eight are listed): verified are moved by the fill loop, newbies and suspended (desired 0 per shard) by the round-robin loops,
which share the running shard id. -/
def ex : Input where
  prev := 2
  totV := 4801
  totN := 0
  totS := 0
  cnt := [((0, 1), 2), ((0, 2), 1), ((1, 1), 2), ((1, 2), 1), ((2, 1), 1)]
  ids := [⟨0, 0, 1, 500⟩, ⟨1, 0, 2, 7000⟩, ⟨2, 1, 2, 300⟩, ⟨3, 3, 5, 0⟩, ⟨4, 2, 1, 10⟩, ⟨5, 0, 1, 90⟩, ⟨6, 1, 1, 40⟩, ⟨7, 1, 1, 0⟩]
  permV := [0]
  permN := [2, 0, 1]
  permS := [0]

def exOut : Output where
  newNum := 2
  sizes := [5, 2]
  asg := [(⟨1, 0, 2, 7000⟩, 1), (⟨7, 1, 1, 0⟩, 1), (⟨2, 1, 2, 300⟩, 2), (⟨6, 1, 1, 40⟩, 1), (⟨4, 2, 1, 10⟩, 2)]
  final := [⟨0, 0, 1, 500⟩, ⟨1, 0, 1, 7000⟩, ⟨2, 1, 2, 300⟩, ⟨3, 3, 5, 0⟩, ⟨4, 2, 2, 10⟩, ⟨5, 0, 1, 90⟩, ⟨6, 1, 1, 40⟩, ⟨7, 1, 1, 0⟩]
  threshold := some 0
  relocated := (1, 3, 1)

theorem ex_run : run ex = some exOut := by decide

theorem ex_perms : ex.PermsOk := ⟨by decide, by decide, by decide⟩

theorem ex_nodup : (ex.ids.map (·.id)).Nodup := by decide

theorem ex_counters : ∀ k sh, k < 3 → 1 ≤ sh → sh ≤ ex.newNum → get ex.cnt (k, sh) = (countP (isKey (k, sh)) ex.ids : Nat) := by
  intro k sh hk h1 h2
  have hn : ex.newNum = 2 := by decide
  have hk' : k = 0 ∨ k = 1 ∨ k = 2 := by omega
  have hs' : sh = 1 ∨ sh = 2 := by omega
  rcases hk' with rfl | rfl | rfl <;> rcases hs' with rfl | rfl <;> decide

theorem ex_shards : ∀ x ∈ ex.ids, x.kind < 3 → 1 ≤ x.shard := by decide

example : (run ex).isSome = true := run_isSome ex (by decide) ex_perms
example : (∀ p ∈ exOut.asg, 1 ≤ p.2 ∧ p.2 ≤ exOut.newNum) ∧ (∀ x ∈ ex.selection.sel, ∃ p ∈ exOut.asg, p.1 = x) :=
  relocated_in_range ex exOut ex_run ex_perms
example : ∀ y ∈ exOut.final, y.kind < 3 → 1 ≤ y.shard ∧ y.shard ≤ exOut.newNum := all_in_range ex exOut ex_run ex_perms ex_shards
example : exOut.sizes = [countP (inShard 1) exOut.final, countP (inShard 2) exOut.final] :=
  sizes_exact ex exOut ex_run ex_perms ex_nodup ex_counters (by decide)
example : exOut.sizes.sum = 7 := sizes_sum ex exOut ex_run ex_perms ex_nodup ex_counters (by decide) ex_shards
example : after exOut.asg ⟨3, 3, 5, 0⟩ = ⟨3, 3, 5, 0⟩ := (unselected_keep ex exOut ex_run ex_perms ex_nodup).2 _ (by decide) (by decide)
example : ex.selection.rest = [⟨0, 0, 1, 500⟩, ⟨3, 3, 5, 0⟩, ⟨5, 0, 1, 90⟩] := by decide

/-- the remainder loops really share one running shard id: the three newbies go to shards 1, 2, 1 and the suspended identity
continues at 2 (it would go to shard 1 if each loop started again at 1) -/
example : exOut.asg.map (fun p => (p.1.id, p.2)) = [(1, 1), (7, 1), (2, 2), (6, 1), (4, 2)] := by decide

/-- a permutation input that is not one: outside the domain -/
example : run { ex with permN := [0, 1] } = none := by decide
example : run { ex with permN := [0, 1, 3] } = none := by decide
/-- `prevShardsNum = 0` (never returned by `ShardsNum()`): `newShardsNum = 0`, the Go code divides by zero -/
example : run { ex with prev := 0, totV := 0 } = none := by decide

example : [5, 1, 9, 7, 7, 2].foldl (fun t e => appendToTop t e 3) [] = [9, 7, 7] := by decide
example : [5, 1, 9].foldl (fun t e => appendToTop t e 0) [] = [] := by decide
example : threshold [9000, 7000, 7000] = some 35 ∧ threshold [9000, 7001] = some 40 ∧ threshold [] = none := by decide

/-! ## what the code as written does NOT do

The slice of top stakes is fed inside the relocation branch only, so the discrimination threshold is computed from the stakes of the
identities that are being RELOCATED, not from all Newbie/Verified/Human identities.  With one shard every identity is relocated
(`shard >= newShardsNum` holds for shard 1), so the two coincide; with two or more shards they do not. -/

/-- the statement one expects (and upstream's own test computes its expectation from): the slice holds the `limit` largest stakes
of ALL identities of kinds 0 and 1 -/
def topOfAll_statement : Prop :=
  ∀ (nn : Nat) (des : Nat → Nat) (c : Cnt) (ids : List Ident) (limit : Nat),
    ∃ s : List Nat, s.Perm ((ids.filter (fun x => decide (x.kind < 2))).map (·.stake)) ∧ s.Pairwise (· ≥ ·) ∧
      topStakes (select nn des c ids).sel limit = s.take limit

/-- **top_stakes_only_relocated**: false of the code as written.  Two shards, desired one verified identity per shard, shard 1 holds
two: the first one met (stake 10) is relocated, the second (stake 1000) stays — and its stake is never offered to `appendToTop`. -/
theorem top_stakes_only_relocated : ¬ topOfAll_statement := by
  intro h
  obtain ⟨s, h1, _, h3⟩ := h 2 (fun _ => 1) [((0, 1), 2)] [⟨0, 0, 1, 10⟩, ⟨1, 0, 1, 1000⟩] 100
  have e : topStakes (select 2 (fun _ => 1) [((0, 1), 2)] [⟨0, 0, 1, 10⟩, ⟨1, 0, 1, 1000⟩]).sel 100 = [10] := by decide
  have hl := h1.length_eq
  simp at hl
  rw [e, List.take_of_length_le (by omega)] at h3
  have : (1000 : Nat) ∈ s := h1.mem_iff.2 (by simp)
  rw [← h3] at this
  simp at this


end IdenaModel.ShardBalance
