import IdenaModel.Model.VrfWindow
/-!
Theorems about the empty-block window behind the VRF proposer threshold (M-VrfWindow).
The `big.Int` manipulation of `AddBlockBit` is shown to be a sliding window over the last `size` blocks: bit `i` of the
field says whether the `i`-th most recent block was non-empty, blocks before genesis count as empty, and the count the
threshold controller reads is `size` minus the number of non-empty blocks among the last `size`.
-/
namespace IdenaModel.VrfWindow

theorem addBit_eq_mod (w : Nat) (e : Bool) (h : w < 2 ^ size) :
    addBit w e = (w * 2 + (if e then 0 else 1)) % 2 ^ size := by
  unfold addBit
  simp only [size] at *
  simp only [Nat.testBit_eq_decide_div_mod_eq]
  cases e <;> simp only [Bool.false_eq_true, if_false, if_true, decide_eq_true_eq] <;> split <;> omega

theorem addBit_lt (w : Nat) (e : Bool) (h : w < 2 ^ size) : addBit w e < 2 ^ size := by
  rw [addBit_eq_mod w e h]; exact Nat.mod_lt _ (Nat.pow_pos (by decide))

theorem testBit_addBit_zero (w : Nat) (e : Bool) (h : w < 2 ^ size) : (addBit w e).testBit 0 = !e := by
  rw [addBit_eq_mod w e h, Nat.testBit_mod_two_pow]
  cases e <;> simp [size, Nat.testBit_zero] <;> omega

theorem testBit_addBit_succ (w : Nat) (e : Bool) (h : w < 2 ^ size) (i : Nat) :
    (addBit w e).testBit (i + 1) = (decide (i + 1 < size) && w.testBit i) := by
  rw [addBit_eq_mod w e h, Nat.testBit_mod_two_pow, Nat.testBit_succ]
  have : (w * 2 + (if e then 0 else 1)) / 2 = w := by cases e <;> simp <;> omega
  rw [this]

/-- is the `i`-th most recent block of a newest-first history non-empty? (no block: no) -/
def nonEmptyAt (r : List Bool) (i : Nat) : Bool := match r[i]? with | some e => !e | none => false

/-- **the field is the sliding window**: below `2^size`, and bit `i` is the `i`-th most recent block (newest-first history) -/
theorem window_spec (r : List Bool) :
    window r.reverse < 2 ^ size ∧ ∀ i, (window r.reverse).testBit i = (decide (i < size) && nonEmptyAt r i) := by
  induction r with
  | nil => exact ⟨Nat.pow_pos (by decide), fun i => by simp [window, nonEmptyAt]⟩
  | cons e r ih =>
    have hw : window (e :: r).reverse = addBit (window r.reverse) e := by
      simp [window, List.foldl_append]
    rw [hw]
    refine ⟨addBit_lt _ _ ih.1, fun i => ?_⟩
    cases i with
    | zero => rw [testBit_addBit_zero _ _ ih.1]; simp [nonEmptyAt, size]
    | succ i =>
      rw [testBit_addBit_succ _ _ ih.1, ih.2 i]
      simp only [nonEmptyAt, List.getElem?_cons_succ]
      by_cases h : i + 1 < size
      · have : i < size := by omega
        simp [h, this]
      · simp [h]

theorem emptyCount_le (w : Nat) : emptyCount w ≤ size := by
  unfold emptyCount
  exact Nat.le_trans (List.length_filter_le _ _) (by simp)

theorem filter_range_take (r : List Bool) (n : Nat) :
    ((List.range n).filter (fun i => nonEmptyAt r i)).length = ((r.take n).filter (fun e => !e)).length := by
  induction n with
  | zero => simp
  | succ n ih =>
    rw [List.range_succ, List.filter_append, List.length_append, ih, List.take_add_one, List.filter_append, List.length_append]
    congr 1
    cases h : r[n]? with
    | none => simp [nonEmptyAt, h]
    | some e => cases e <;> simp [nonEmptyAt, h]

/-- **the count the controller reads**: `size` minus the non-empty blocks among the last `size` (newest-first history) -/
theorem emptyCount_window (r : List Bool) :
    emptyCount (window r.reverse) + ((r.take size).filter (fun e => !e)).length = size := by
  have hs := window_spec r
  rw [← filter_range_take r size]
  unfold emptyCount
  have hfun : ((List.range size).filter (fun i => !(window r.reverse).testBit i)) =
      ((List.range size).filter (fun i => !nonEmptyAt r i)) := by
    apply List.filter_congr
    intro i hi
    rw [hs.2 i]; simp [List.mem_range.mp hi]
  rw [hfun]
  have := List.length_eq_countP_add_countP (fun i => nonEmptyAt r i) (l := List.range size)
  simp only [List.length_range, List.countP_eq_length_filter] at this
  have hnot : (List.range size).filter (fun i => decide ¬ nonEmptyAt r i = true) =
      (List.range size).filter (fun i => !nonEmptyAt r i) := by
    apply List.filter_congr; intro i _; cases nonEmptyAt r i <;> rfl
  rw [hnot] at this
  omega

/-- the threshold is raised only after `size` consecutive non-empty blocks -/
theorem raise_iff (r : List Bool) :
    dir (emptyCount (window r.reverse)) = 1 ↔ size ≤ r.length ∧ ∀ e ∈ r.take size, e = false := by
  have hc := emptyCount_window r
  have hle : ((r.take size).filter (fun e => !e)).length ≤ (r.take size).length := List.length_filter_le _ _
  have hlen : (r.take size).length = min size r.length := List.length_take
  constructor
  · intro h
    have h0 : emptyCount (window r.reverse) = 0 := by
      unfold dir at h; split at h
      · assumption
      · split at h <;> omega
    have hfull : ((r.take size).filter (fun e => !e)).length = (r.take size).length := by omega
    refine ⟨by omega, fun e he => ?_⟩
    have := (List.length_filter_eq_length_iff.mp hfull) e he
    simpa using this
  · intro ⟨hl, hall⟩
    have hfull : ((r.take size).filter (fun e => !e)).length = (r.take size).length := by
      apply List.length_filter_eq_length_iff.mpr
      intro e he; simp [hall e he]
    have : emptyCount (window r.reverse) = 0 := by omega
    simp [dir, this]

/-- one empty block keeps the threshold from rising for the next `size` blocks -/
theorem empty_blocks_raise (r : List Bool) (h : true ∈ r.take size) : dir (emptyCount (window r.reverse)) ≠ 1 := by
  intro hd
  have := ((raise_iff r).mp hd).2 true h
  exact Bool.noConfusion this

/-- three empty blocks among the last `size` lower it (before clamping); a chain younger than `size − 2` blocks always does -/
theorem lower_iff (r : List Bool) :
    dir (emptyCount (window r.reverse)) = -1 ↔ ((r.take size).filter (fun e => !e)).length + 3 ≤ size := by
  have hc := emptyCount_window r
  unfold dir
  constructor
  · intro h; split at h
    · omega
    · split at h <;> omega
  · intro h
    have : ¬ emptyCount (window r.reverse) = 0 := by omega
    have h2 : ¬ emptyCount (window r.reverse) ≤ 2 := by omega
    simp [this, h2]

/-- premises are met by real histories: 25 full blocks raise, an empty one among them does not, a young chain lowers -/
example : dir (emptyCount (window (List.replicate 25 false).reverse)) = 1 :=
  (raise_iff _).mpr (by decide)
example : dir (emptyCount (window (true :: List.replicate 24 false).reverse)) = 0 := by
  have := emptyCount_window (true :: List.replicate 24 false)
  have h : ((true :: List.replicate 24 false).take size).filter (fun e => !e) = List.replicate 24 false := by decide
  rw [h] at this; simp only [List.length_replicate, size] at this
  have : emptyCount (window (true :: List.replicate 24 false).reverse) = 1 := by omega
  rw [this]; decide
example : dir (emptyCount (window (List.replicate 10 false).reverse)) = -1 :=
  (lower_iff _).mpr (by decide)

end IdenaModel.VrfWindow
