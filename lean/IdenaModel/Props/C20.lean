import IdenaModel.Proofs.PushPull
import IdenaModel.Proofs.PushPullWindow
/-!
# C20 — push/pull fetches each announced item once, falling back to the next announcer

All theorems are about `PushPull.step` / `PushPull.run` (Model/PushPull.lean), for every configuration (pull delay,
`MaxParallelPulls`, `maxPendingPushes`) and every finite sequence of events: announcements by any peers for any hashes,
arrivals, clock ticks, single scheduling slots of the tracker goroutines `loop` and `gc` and of the manager's relay
goroutine, expiry of the holder's cache entries and of the manager's counters — in any interleaving.

Outputs: `imm p h t` (pull request sent at once), `dec p h t` (deferred pull request issued by the tracker at `t`),
`fwd p h t` (that request relayed by the manager loop at `t`).

* `pending_sorted`, `bounded`, `never_panics`, `active_fresh_after_gc` — invariants of the tracker
* `first_announcer_immediate`(`_trace`) — an item the node lacks is requested from the first announcer at once
* `parallel_cap` — at most `max 1 (MaxParallelPulls − 1)` immediate requests per hash per life of its counter
* `window_cap` — in any time window shorter than `pullDelay` at most that many requests (immediate + deferred) per hash
* `deferred_after_delay`, `request_only_when_lacking` — a deferred request is issued only when every earlier request
  for the hash is at least `pullDelay` old, and only for an item that is not stored
* `no_request_after_arrival` — after an arrival and until the cache entry expires no request is issued for the hash
  (the only output possible is the relay `fwd` of a request the tracker issued before; `fwd_relays_dec`)
* `known_announcement_ignored`
* `fallback_progress`, `head_examined` — one slot of the loop on a due head: dropped (stored / no registered pull),
  re-timed to the newer registered pull, or requested
* `pull_type_is_holders_type`, `lanes_isolated`, `lane_runs_model` — several entry types on one manager: each pull
  carries the type of the item's holder, other types' state is untouched, a lane behaves as the single-holder model
* `no_loss` (current code) / `no_loss_as_found_counterexample` + `no_loss_partial` (code before fc3fdbe1)
* `request_once` (current code) / `request_once_as_found_counterexample`
-/
namespace IdenaModel.PushPull

/-! ## invariants -/

/-- the pending list is always ordered by pull time (so `sort.Search` in `Add` is the linear search of the model) -/
theorem pending_sorted (c : Cfg) (evs : List Ev) : TimeSorted (run c init evs).1.pending :=
  (inv_of_reach (reach_run c evs)).sorted

/-- the pending list never exceeds `maxPendingPushes + 1` -/
theorem bounded (c : Cfg) (evs : List Ev) : (run c init evs).1.pending.length ≤ c.maxPending + 1 :=
  (inv_of_reach (reach_run c evs)).bounded

/-- `Remove(0)` / `list[0]` never hit an empty list -/
theorem never_panics (c : Cfg) (evs : List Ev) : (run c init evs).1.panicked = false :=
  (inv_of_reach (reach_run c evs)).noPanic

/-- a pass of `gc` leaves no registered pull older than five minutes (the registry does not keep dead hashes) -/
theorem active_fresh_after_gc (s : St) (hdue : s.gcWake ≤ s.now) :
    ∀ kv ∈ (gcStep s).active, s.now - kv.2 ≤ 300000 := by
  intro kv hkv
  simp only [gcStep, hdue, if_true] at hkv
  have := (List.mem_filter.mp hkv).2
  simp at this
  omega

/-- the manager relays exactly the tracker's requests, in order -/
theorem fwd_relays_dec (c : Cfg) (evs : List Ev) :
    decReqs (run c init evs).2 = fwdReqs (run c init evs).2 ++ (run c init evs).1.queue :=
  (inv_of_reach (reach_run c evs)).relay

/-! ## the first announcer is asked at once -/

/-- in any state: the item is not stored and there is no live counter for it ⇒ exactly one request, to that peer, now -/
theorem first_announcer_immediate (c : Cfg) (s : St) (p h : Nat)
    (hlack : h ∉ s.held) (hfirst : lookup s.cnt h = none) :
    (step c s (.announce p h)).2 = [.imm p h s.now] := by
  simp [step, announce, hlack, hfirst]

theorem step_held (c : Cfg) (s : St) (e : Ev) (h : Nat) (he : e ≠ .arrive h) (hx : e ≠ .expire h) :
    h ∈ (step c s e).1.held ↔ h ∈ s.held := by
  cases e with
  | announce p h' =>
    simp only [step, announce]
    split
    · rfl
    · split
      · rfl
      · split
        · rw [(addPending_cnt_held c _ p h').2.1]
        · rfl
  | arrive h' =>
    have : h ≠ h' := fun e => he (by rw [e])
    simp only [step, arrive]
    split
    · rfl
    · simp [this]
  | tick t => simp only [step]; split <;> rfl
  | loop => simp only [step]; rw [(loopStep_cnt_held c s).2]
  | gc => simp only [step, gcStep]; split <;> rfl
  | deliver => simp only [step, deliver]; split <;> rfl
  | expire h' =>
    have : h ≠ h' := fun e => hx (by rw [e])
    simp [step, this]
  | forget h' => rfl

theorem step_cnt_none (c : Cfg) (s : St) (e : Ev) (h : Nat) (hn : lookup s.cnt h = none)
    (he : ∀ q, e ≠ .announce q h) : lookup (step c s e).1.cnt h = none := by
  cases e with
  | announce p h' =>
    have hne : h' ≠ h := fun e => he p (by rw [e])
    simp only [step, announce]
    split
    · exact hn
    · split
      · simp [lookup_set, hne, hn]
      · split
        · rw [(addPending_cnt_held c _ p h').1]; simp [lookup_set, hne, hn]
        · simp [lookup_set, hne, hn]
  | arrive h' => exact hn
  | tick t => simp only [step]; split <;> exact hn
  | loop => simp only [step]; rw [(loopStep_cnt_held c s).1]; exact hn
  | gc => simp only [step, gcStep]; split <;> exact hn
  | deliver => simp only [step, deliver]; split <;> exact hn
  | expire h' => exact hn
  | forget h' =>
    simp only [step]
    by_cases e : h' = h
    · subst e; exact lookup_erase_self _ _
    · rw [lookup_erase_ne _ e]; exact hn

/-- over traces: nobody has announced `h` yet and it never arrived ⇒ the first announcer is asked at once -/
theorem first_announcer_immediate_trace (c : Cfg) (evs : List Ev) (p h : Nat)
    (hnew : ∀ q, Ev.announce q h ∉ evs) (hlack : Ev.arrive h ∉ evs) :
    (step c (run c init evs).1 (.announce p h)).2 = [.imm p h (run c init evs).1.now] := by
  have key : ∀ (s : St), h ∉ s.held → lookup s.cnt h = none →
      h ∉ (run c s evs).1.held ∧ lookup (run c s evs).1.cnt h = none := by
    induction evs with
    | nil => intro s h1 h2; exact ⟨h1, h2⟩
    | cons e es ih =>
      intro s h1 h2
      simp only [run]
      have hne : ∀ q, e ≠ .announce q h := fun q eq => hnew q (by simp [eq])
      have hna : e ≠ .arrive h := fun eq => hlack (by simp [eq])
      refine ih (fun q hq => hnew q (List.mem_cons_of_mem _ hq)) (fun hq => hlack (List.mem_cons_of_mem _ hq)) _ ?_ ?_
      · by_cases hx : e = .expire h
        · subst hx; simp [step]
        · rw [step_held c s e h hna hx]; exact h1
      · exact step_cnt_none c s e h h2 hne
  obtain ⟨h1, h2⟩ := key init (by simp [init]) (by simp [init, lookup])
  exact first_announcer_immediate c _ p h h1 h2

/-! ## the cap on parallel (immediate) pulls -/

/-- how many more immediate requests the counter value allows -/
def allowance (c : Cfg) : Option Nat → Nat
  | none => max 1 (c.cap - 1)
  | some n => c.cap - 1 - n

theorem afterWake_immCount (s : St) (obj : Entry) (h : Nat) : immCount h (afterWake s obj).2 = 0 := by
  unfold afterWake
  split
  · rfl
  · split
    · rfl
    · split
      · rfl
      · simp [immCount]

theorem loopStep_immCount (c : Cfg) (s : St) (h : Nat) : immCount h (loopStep c s).2 = 0 := by
  unfold loopStep
  split
  · split <;> rfl
  · split
    · exact afterWake_immCount _ _ h
    · rfl
  · split
    · rfl
    · split
      · rfl
      · exact afterWake_immCount _ _ h

theorem immCount_append (h : Nat) (a b : List Out) : immCount h (a ++ b) = immCount h a + immCount h b := by
  simp [immCount, List.countP_append]

theorem parallel_cap_aux (c : Cfg) (h : Nat) (evs : List Ev) (hnf : Ev.forget h ∉ evs) :
    ∀ s : St, immCount h (run c s evs).2 ≤ allowance c (lookup s.cnt h) := by
  induction evs with
  | nil => intro s; simp [run, immCount]
  | cons e es ih =>
    intro s
    have ih' := ih (fun hq => hnf (List.mem_cons_of_mem _ hq)) (step c s e).1
    simp only [run, immCount_append]
    have hstep : immCount h (step c s e).2 + allowance c (lookup (step c s e).1.cnt h)
        ≤ allowance c (lookup s.cnt h) := by
      cases e with
      | announce p h' =>
        simp only [step, announce]
        split
        · simp [immCount]
        · by_cases hh : h' = h
          · subst hh
            split
            · rename_i hn; simp [immCount, lookup_set, hn, allowance]; omega
            · rename_i n hn
              split
              · rw [(addPending_cnt_held c _ p h').1]
                simp [immCount, lookup_set, hn, allowance]; omega
              · simp [immCount, lookup_set, hn, allowance]; omega
          · split
            · simp [immCount, lookup_set, hh]
            · split
              · rw [(addPending_cnt_held c _ p h').1]; simp [immCount, lookup_set, hh]
              · simp [immCount, lookup_set, hh]
      | arrive h' => simp [step, arrive, immCount]
      | tick t => simp only [step]; split <;> simp [immCount]
      | loop => simp only [step]; rw [loopStep_immCount, (loopStep_cnt_held c s).1]; simp
      | gc => simp only [step, gcStep]; split <;> simp [immCount]
      | deliver => simp only [step, deliver]; split <;> simp [immCount]
      | expire h' => simp [step, immCount]
      | forget h' =>
        have : h' ≠ h := fun e => hnf (by simp [e])
        simp [step, immCount, lookup_erase_ne _ this]
    omega

/-- from ANY state, over any event sequence in which the counter of `h` does not expire: at most
`max 1 (MaxParallelPulls − 1)` immediate pull requests for `h` -/
theorem parallel_cap (c : Cfg) (s : St) (h : Nat) (evs : List Ev) (hnf : Ev.forget h ∉ evs) :
    immCount h (run c s evs).2 ≤ max 1 (c.cap - 1) := by
  have := parallel_cap_aux c h evs hnf s
  have hb : allowance c (lookup s.cnt h) ≤ max 1 (c.cap - 1) := by
    cases lookup s.cnt h <;> simp [allowance] <;> omega
  omega

/-! ## deferred requests: only after the delay, only for an item the node lacks -/

/-- every deferred request is at least `pullDelay` later than every earlier request (of any kind) for the same hash -/
theorem deferred_after_delay (c : Cfg) (evs : List Ev) : (run c init evs).2.Pairwise (DelayRel c) :=
  (inv_of_reach (reach_run c evs)).delayOk

/-- the same, by positions in the output sequence -/
theorem deferred_after_delay_idx (c : Cfg) (evs : List Ev) (i j : Nat) (hij : i < j)
    (hj : j < (run c init evs).2.length) (p h t : Nat)
    (hd : (run c init evs).2[j] = .dec p h t) (hh : ((run c init evs).2[i]'(by omega)).hash = h) :
    ((run c init evs).2[i]'(by omega)).time + c.delay ≤ t :=
  (List.pairwise_iff_getElem.mp (deferred_after_delay c evs)) i j (by omega) hj hij p h t hd hh

theorem afterWake_out (s : St) (obj : Entry) (o : Out) (ho : o ∈ (afterWake s obj).2) :
    o = .dec obj.peer obj.hash s.now ∧ obj.hash ∉ s.held := by
  unfold afterWake at ho
  split at ho
  · simp at ho
  · rename_i hh
    split at ho
    · simp at ho
    · split at ho
      · simp at ho
      · simp only [List.mem_singleton] at ho
        exact ⟨by rw [ho, (removeHead_fields s).1], by simpa using hh⟩

theorem loopStep_out (c : Cfg) (s : St) (o : Out) (ho : o ∈ (loopStep c s).2) :
    ∃ p h, o = .dec p h s.now ∧ h ∉ s.held := by
  unfold loopStep at ho
  split at ho
  · split at ho <;> simp at ho
  · split at ho
    · have := afterWake_out { s with pc := .run } _ o ho
      exact ⟨_, _, this⟩
    · simp at ho
  · split at ho
    · simp at ho
    · split at ho
      · simp at ho
      · exact ⟨_, _, afterWake_out s _ o ho⟩

/-- any single event, any state: whatever is requested (at once or deferred) is an item that is not stored, and every
output carries the current time -/
theorem request_only_when_lacking (c : Cfg) (s : St) (e : Ev) (o : Out) (ho : o ∈ (step c s e).2) :
    o.time = s.now ∧ ((∃ p, o = .fwd p o.hash s.now) ∨ o.hash ∉ s.held) := by
  cases e with
  | announce p h =>
    simp only [step, announce] at ho
    split at ho
    · simp at ho
    · rename_i hh
      split at ho
      · simp at ho; subst ho; exact ⟨rfl, Or.inr (by simpa [Out.hash] using hh)⟩
      · split at ho
        · simp at ho
        · simp at ho; subst ho; exact ⟨rfl, Or.inr (by simpa [Out.hash] using hh)⟩
  | arrive h => simp [step] at ho
  | tick t => simp [step] at ho
  | loop =>
    obtain ⟨p, h, rfl, hh⟩ := loopStep_out c s o ho
    exact ⟨rfl, Or.inr hh⟩
  | gc => simp [step] at ho
  | deliver =>
    simp only [step, deliver] at ho
    split at ho
    · simp at ho
    · simp at ho; subst ho; exact ⟨rfl, Or.inl ⟨_, rfl⟩⟩
  | expire h => simp [step] at ho
  | forget h => simp [step] at ho

/-! ## at most the configured number of peers at a time -/

/-- a pull request for `h` decided now: sent at once, or issued by the tracker (`fwd` is the relay of a `dec`) -/
def isReq (h : Nat) (o : Out) : Bool := isImm h o || isDec h o

theorem immCount_eq (h : Nat) (o : List Out) : immCount h o = o.countP (isImm h) := by
  unfold immCount
  congr 1

theorem hash_of_isReq {h : Nat} {o : Out} (hr : isReq h o = true) : o.hash = h := by
  cases o <;> simp_all [isReq, isImm, isDec, Out.hash]

/-- over any trace in which the counter of `h` does not expire, and for any window `[a, a + pullDelay)`: at most
`max 1 (MaxParallelPulls − 1)` pull requests for `h` (to whatever peers, immediate and deferred together) fall into
the window -/
theorem window_cap (c : Cfg) (evs : List Ev) (h : Nat) (hnf : Ev.forget h ∉ evs) (a : Nat) :
    ((run c init evs).2.filter
      (fun o => isReq h o && decide (a ≤ o.time) && decide (o.time < a + c.delay))).length ≤ max 1 (c.cap - 1) := by
  have F1 := deferred_after_delay c evs
  have F2 := parallel_cap c init h evs hnf
  have F3 := run_dec_then_no_imm c h evs hnf init ⟨by simp [init], by simp [init]⟩
  generalize (run c init evs).2 = outs at F1 F2 F3
  generalize hW : outs.filter (fun o => isReq h o && decide (a ≤ o.time) && decide (o.time < a + c.delay)) = W
  have hsub : W.Sublist outs := hW ▸ List.filter_sublist
  have hP : ∀ x ∈ W, isReq h x = true ∧ a ≤ x.time ∧ x.time < a + c.delay := by
    intro x hx
    rw [← hW] at hx
    have := (List.mem_filter.mp hx).2
    simpa [Bool.and_eq_true, and_assoc] using this
  have W1 := F1.sublist hsub
  have W3 := F3.sublist hsub
  cases W with
  | nil => simp
  | cons x rest =>
    have hx := hP x (by simp)
    have hx1 := List.pairwise_cons.mp W1
    have hx3 := List.pairwise_cons.mp W3
    -- nothing behind the first request of the window is a deferred request
    have hnodec : ∀ y ∈ rest, isDec h y = false := by
      intro y hy
      have hyP := hP y (List.mem_cons_of_mem _ hy)
      cases y with
      | dec p h' t =>
        by_cases hh : h' = h
        · subst hh
          have := hx1.1 _ hy p h' t rfl (hash_of_isReq hx.1)
          simp [Out.time] at hyP
          omega
        · simp [isDec, hh]
      | imm p h' t => rfl
      | fwd p h' t => rfl
    have himm : ∀ y ∈ rest, isImm h y = true := by
      intro y hy
      have := (hP y (List.mem_cons_of_mem _ hy)).1
      simpa [isReq, hnodec y hy] using this
    by_cases hd : isDec h x = true
    · have : rest = [] := by
        apply List.eq_nil_iff_forall_not_mem.mpr
        intro y hy
        have := hx3.1 y hy hd
        rw [himm y hy] at this; cases this
      subst this
      simp; omega
    · have hxi : isImm h x = true := by simpa [isReq, hd] using hx.1
      have hall : ∀ y ∈ x :: rest, isImm h y = true := by
        intro y hy
        rcases List.mem_cons.mp hy with rfl | hy
        · exact hxi
        · exact himm y hy
      have h1 : (x :: rest).countP (isImm h) = (x :: rest).length := List.countP_eq_length.mpr hall
      have h2 : (x :: rest).countP (isImm h) ≤ outs.countP (isImm h) := hsub.countP_le
      rw [immCount_eq] at F2
      omega

/-! ## once the item is stored: no further requests, announcements ignored -/

/-- after `h` arrived, and as long as its cache entry does not expire, no request for `h` is issued: the only
possible output for `h` is the manager relaying a request the tracker had issued earlier -/
theorem no_request_after_arrival (c : Cfg) (s : St) (h : Nat) (evs : List Ev) (hne : Ev.expire h ∉ evs) :
    ∀ o ∈ (run c (step c s (.arrive h)).1 evs).2, o.hash = h → ∃ p t, o = .fwd p h t := by
  have key : ∀ (evs : List Ev) (s : St), Ev.expire h ∉ evs → h ∈ s.held →
      ∀ o ∈ (run c s evs).2, o.hash = h → ∃ p t, o = .fwd p h t := by
    intro evs
    induction evs with
    | nil => intro s _ _ o ho; simp [run] at ho
    | cons e es ih =>
      intro s hne hh o ho hoh
      simp only [run, List.mem_append] at ho
      rcases ho with ho | ho
      · obtain ⟨_, h2⟩ := request_only_when_lacking c s e o ho
        rcases h2 with ⟨p, hp⟩ | h2
        · exact ⟨p, s.now, by rw [hp, hoh]⟩
        · rw [hoh] at h2; exact absurd hh h2
      · refine ih (step c s e).1 (fun hq => hne (List.mem_cons_of_mem _ hq)) ?_ o ho hoh
        by_cases ha : e = .arrive h
        · subst ha; simp only [step, arrive]; split <;> simp_all
        · rw [step_held c s e h ha (fun eq => hne (by simp [eq]))]; exact hh
  refine key evs _ hne ?_
  simp only [step, arrive]; split <;> simp_all

/-- announcing a stored item changes nothing and requests nothing -/
theorem known_announcement_ignored (c : Cfg) (s : St) (p h : Nat) (hk : h ∈ s.held) :
    step c s (.announce p h) = (s, []) := by
  simp [step, announce, hk]

/-! ## no announcer is lost; each queued announcement is requested at most once -/

/-- the loop is not holding a peeked entry that is no longer the head -/
def NoStale (s : St) : Prop := ∀ obj w, s.pc = .hold obj w → s.pending.head? = some obj

theorem countReq_cons (p h : Nat) (x : Entry) (l : List Entry) :
    countReq p h (x :: l) = countReq p h l + (if x.peer = p ∧ x.hash = h then 1 else 0) := by
  unfold countReq
  rw [List.countP_cons]
  by_cases hp : x.peer = p <;> by_cases hh : x.hash = h <;> simp [hp, hh]

/-- a due iteration acting on the head it examined: the head's `(peer, hash)` leaves the list only by a request to that
peer, or because the item is stored, or because no pull is registered for the hash; nothing else changes -/
theorem afterWake_head (s : St) (obj : Entry) (rest : List Entry) (hp : s.pending = obj :: rest) (p h : Nat) :
    countReq p h (afterWake s obj).1.pending + decCount p h (afterWake s obj).2
      = countReq p h s.pending
        - (if obj.peer = p ∧ obj.hash = h ∧ (h ∈ s.held ∨ lookup s.active h = none) then 1 else 0) := by
  unfold afterWake
  rw [hp, countReq_cons]
  by_cases hm : obj.peer = p ∧ obj.hash = h
  · obtain ⟨rfl, rfl⟩ := hm
    split
    · rename_i hh
      have hh' : obj.hash ∈ s.held := by simpa using hh
      simp [removeHead, hp, decCount, hh']
    · rename_i hh
      have hh' : obj.hash ∉ s.held := by simpa using hh
      split
      · rename_i hn
        simp [removeHead, hp, decCount, hn]
      · rename_i t ht
        split
        · simp [moveHead, hp, decCount, countReq_insertSorted, hh', ht]
        · simp [removeHead, hp, decCount, hh', ht]
  · have hno : ¬ (obj.peer = p ∧ obj.hash = h ∧ (h ∈ s.held ∨ lookup s.active h = none)) :=
      fun x => hm ⟨x.1, x.2.1⟩
    have hd : (obj.peer == p && obj.hash == h) = false := by
      by_cases h1 : obj.peer = p <;> by_cases h2 : obj.hash = h <;> simp_all
    simp only [hm, hno, if_false, Nat.add_zero, Nat.sub_zero]
    split
    · simp [removeHead, hp, decCount]
    · split
      · simp [removeHead, hp, decCount]
      · split
        · simp [moveHead, hp, decCount, countReq_insertSorted, hm]
        · simp [removeHead, hp, decCount, hd]

theorem addPending_count (c : Cfg) (s : St) (p' h' p h : Nat) :
    countReq p h s.pending ≤ countReq p h (addPending c s p' h').pending ∧
    countReq p h (addPending c s p' h').pending
      ≤ countReq p h s.pending + (if p' = p ∧ h' = h then 1 else 0) := by
  unfold addPending
  split
  · simp
  · split
    · simp only [countReq_insertSorted]
      constructor
      · omega
      · split <;> simp
    · simp

/-- what one event does to the pending `(p, h)` pushes, in a state where the loop does not hold a stale entry -/
theorem step_count (c : Cfg) (s : St) (e : Ev) (p h : Nat) (hns : NoStale s) :
    -- nothing is lost except for the two legitimate reasons …
    ((h ∉ s.held ∧ lookup s.active h ≠ none) →
      countReq p h s.pending ≤ countReq p h (step c s e).1.pending + decCount p h (step c s e).2) ∧
    -- … and every deferred request consumes a queued announcement
    (countReq p h (step c s e).1.pending + decCount p h (step c s e).2
      ≤ countReq p h s.pending + (if e = .announce p h then 1 else 0)) := by
  have aw : ∀ (s' : St) (obj : Entry) (rest : List Entry), s'.pending = s.pending → s'.held = s.held →
      s'.active = s.active → s.pending = obj :: rest →
      ((h ∉ s.held ∧ lookup s.active h ≠ none) →
        countReq p h s.pending ≤ countReq p h (afterWake s' obj).1.pending + decCount p h (afterWake s' obj).2) ∧
      (countReq p h (afterWake s' obj).1.pending + decCount p h (afterWake s' obj).2
        ≤ countReq p h s.pending + 0) := by
    intro s' obj rest h1 h2 h3 h4
    have := afterWake_head s' obj rest (h1.trans h4) p h
    rw [h1, h2, h3] at this
    constructor
    · rintro ⟨hh, ha⟩
      have hno : ¬ (obj.peer = p ∧ obj.hash = h ∧ (h ∈ s.held ∨ lookup s.active h = none)) := by
        rintro ⟨-, -, hx | hx⟩
        · exact hh hx
        · exact ha hx
      simp only [hno, if_false] at this; omega
    · omega
  cases e with
  | announce p' h' =>
    simp only [step, announce]
    split
    · simp [decCount]
    · split
      · simp [decCount]
      · split
        · have := addPending_count c { s with cnt := set s.cnt h' (‹Nat› + 1) } p' h' p h
          simp only [decCount, List.countP_nil, Nat.add_zero, Ev.announce.injEq]
          exact ⟨fun _ => this.1, this.2⟩
        · simp [decCount]
  | arrive h' => simp [step, arrive, decCount]
  | tick t => simp only [step]; split <;> simp [decCount]
  | loop =>
    simp only [step, loopStep]
    split
    · split <;> simp [decCount]
    · rename_i obj w hpc
      split
      · obtain ⟨rest, hp⟩ := List.head?_eq_some_iff.mp (hns obj w hpc)
        simpa using aw { s with pc := .run } obj rest rfl rfl rfl hp
      · simp [decCount]
    · split
      · simp [decCount]
      · rename_i obj rest hp
        split
        · simp [decCount]
        · simpa using aw s obj rest rfl rfl rfl hp
  | gc => simp only [step, gcStep]; split <;> simp [decCount]
  | deliver => simp only [step, deliver]; split <;> simp [decCount]
  | expire h' => simp [step, decCount]
  | forget h' => simp [step, decCount]

/-- `no_loss`, full statement: in every reachable state and for every event, the number of pending pushes of `(p, h)`
plus the requests issued to `p` for `h` in that event does not go down, unless `h` is stored or has no registered pull
(arrival or five-minute expiry) -/
def NoLossStatement (c : Cfg) : Prop :=
  ∀ (evs : List Ev) (e : Ev) (p h : Nat),
    h ∉ (run c init evs).1.held → lookup (run c init evs).1.active h ≠ none →
    countReq p h (run c init evs).1.pending
      ≤ countReq p h (step c (run c init evs).1 e).1.pending + decCount p h (step c (run c init evs).1 e).2

theorem noStale_of_reach {c : Cfg} (hf : c.asFound = false) {s : St} {o : List Out} (h : Reach c s o) :
    NoStale s := fun obj w hw => absurd hw ((inv_of_reach h).noHold hf obj w)

/-- the current code loses no announcer -/
theorem no_loss (c : Cfg) (hf : c.asFound = false) : NoLossStatement c := by
  intro evs e p h hh ha
  exact (step_count c _ e p h (noStale_of_reach hf (reach_run c evs))).1 ⟨hh, ha⟩

/-- code as found (before fc3fdbe1), any state: nothing is lost in a step unless the loop wakes up holding an entry
that is no longer the head of the list -/
theorem no_loss_partial (c : Cfg) (s : St) (e : Ev) (p h : Nat) (hns : NoStale s)
    (hh : h ∉ s.held) (ha : lookup s.active h ≠ none) :
    countReq p h s.pending ≤ countReq p h (step c s e).1.pending + decCount p h (step c s e).2 :=
  (step_count c s e p h hns).1 ⟨hh, ha⟩

/-- the trace of the defect: h1 and h2 each announced by p1, p2 (requested at once), p3 queued for h2, the loop goes to
sleep on that entry, p3's announcement of h1 (older pull time) is queued in front, the loop wakes up -/
def asFoundTrace : List Ev :=
  [.announce 1 1, .announce 2 1, .tick 100, .announce 1 2, .announce 2 2, .announce 3 2, .loop, .tick 110, .loop, .loop,
   .tick 200, .announce 3 1, .tick 600]

def asFoundCfg : Cfg := { delay := 500, cap := 3, maxPending := 20000, asFound := true }

/-- the code as found loses p3's announcement of h1: it disappears from the list without any request to p3, although
h1 is not stored and its pull is still registered -/
theorem no_loss_as_found_counterexample : ¬ NoLossStatement asFoundCfg := by
  intro h
  have := h asFoundTrace .loop 3 1
  revert this
  decide

/-- `request_once`, full statement: requests issued to `p` for `h` plus announcements of `h` by `p` still queued never
exceed the announcements of `h` made by `p` -/
def RequestOnceStatement (c : Cfg) : Prop :=
  ∀ (evs : List Ev) (p h : Nat),
    decCount p h (run c init evs).2 + countReq p h (run c init evs).1.pending ≤ annCount p h evs

theorem decCount_append (p h : Nat) (a b : List Out) :
    decCount p h (a ++ b) = decCount p h a + decCount p h b := by
  simp [decCount, List.countP_append]

/-- the current code asks a peer for a hash at most once per announcement -/
theorem request_once (c : Cfg) (hf : c.asFound = false) : RequestOnceStatement c := by
  intro evs p h
  have key : ∀ (evs : List Ev) (s : St) (o : List Out), Reach c s o →
      decCount p h (run c s evs).2 + countReq p h (run c s evs).1.pending
        ≤ countReq p h s.pending + annCount p h evs := by
    intro evs
    induction evs with
    | nil => intro s o _; simp [run, decCount, annCount]
    | cons e es ih =>
      intro s o hr
      have h1 := (step_count c s e p h (noStale_of_reach hf hr)).2
      have h2 := ih (step c s e).1 _ (Reach.step e hr)
      simp only [run, decCount_append]
      have h3 : annCount p h (e :: es) = annCount p h es + (if e = .announce p h then 1 else 0) := by
        unfold annCount
        rw [List.countP_cons]
        cases e <;> simp
      omega
  have := key evs init [] Reach.init
  simpa [init, countReq] using this

/-- the code as found asks p3 twice for h2 after a single announcement -/
theorem request_once_as_found_counterexample : ¬ RequestOnceStatement asFoundCfg := by
  intro h
  have := h (asFoundTrace ++ [.loop, .loop, .tick 1100, .loop, .loop, .loop]) 3 2
  revert this
  decide

/-! ## several entry types on one manager -/

theorem laneStep_type (typ : Nat) (e : Ev) (n : Node) : ∀ x ∈ (laneStep typ e n).2, x.1 = typ := by
  induction n with
  | nil => simp [laneStep]
  | cons l rest ih =>
    simp only [laneStep]
    split
    · rename_i h; intro x hx; simp at hx; obtain ⟨_, _, rfl⟩ := hx; exact h
    · exact ih

/-- every pull request put on the wire (sent at once, issued by a tracker, or relayed by the manager) carries the
entry type of the holder the event was addressed to, i.e. of the item's own holder -/
theorem pull_type_is_holders_type (n : Node) (typ : Nat) (e : Ev) :
    ∀ x ∈ (nodeStep n typ e).2, x.1 = typ := by
  cases e <;> first | exact laneStep_type typ _ n | simp [nodeStep]

theorem laneStep_others (typ : Nat) (e : Ev) (n : Node) :
    (laneStep typ e n).1.length = n.length ∧
    ∀ i (h : i < n.length), (n[i]).typ ≠ typ → ((laneStep typ e n).1[i]?) = some n[i] := by
  induction n with
  | nil => simp [laneStep]
  | cons l rest ih =>
    simp only [laneStep]
    split
    · rename_i h
      refine ⟨by simp, ?_⟩
      intro i hi hne
      cases i with
      | zero => exact absurd h hne
      | succ j => simp
    · refine ⟨by simp [ih.1], ?_⟩
      intro i hi hne
      cases i with
      | zero => simp
      | succ j => simpa using ih.2 j (by simpa using hi) hne

/-- an event other than `tick` leaves the holders, trackers and counters of every other entry type untouched -/
theorem lanes_isolated (n : Node) (typ : Nat) (e : Ev) (hne : ∀ t, e ≠ .tick t) (i : Nat) (h : i < n.length)
    (hty : (n[i]).typ ≠ typ) : ((nodeStep n typ e).1[i]?) = some n[i] := by
  cases e <;> first | exact (laneStep_others typ _ n).2 i h hty | exact absurd rfl (hne _)

/-- inside its lane an event is exactly a step of the single-holder model (so all theorems above apply per type) -/
theorem lane_runs_model (l : Lane) (rest : Node) (e : Ev) (hne : ∀ t, e ≠ .tick t) :
    nodeStep (l :: rest) l.typ e =
      ({ l with st := (step l.cfg l.st e).1 } :: rest, (step l.cfg l.st e).2.map (fun o => (l.typ, o))) := by
  cases e with
  | tick t => exact absurd rfl (hne t)
  | _ => simp [nodeStep, laneStep]

/-! ## non-vacuity -/

/-- the deferred path is really taken: with the current code the trace of the defect ends with p3 asked for h1 first
(older pull), then for h2 -/
example : (run { asFoundCfg with asFound := false }
    init (asFoundTrace ++ [.loop, .loop, .loop, .loop, .loop])).2 =
    [.imm 1 1 0, .imm 2 1 0, .imm 1 2 100, .imm 2 2 100, .dec 3 1 600, .dec 3 2 600] := by decide

/-- hypotheses of `no_request_after_arrival` / `known_announcement_ignored` are satisfiable and the conclusion bites:
an announcement after arrival emits nothing, before arrival it emits a request -/
example : (run { delay := 500, cap := 3, maxPending := 5 } init [.arrive 7, .announce 1 7]).2 = [] ∧
    (run { delay := 500, cap := 3, maxPending := 5 } init [.announce 1 7]).2 = [.imm 1 7 0] := by decide

/-- the bound of `window_cap` is reached: `MaxParallelPulls = 3` ⇒ two requests for one hash in one window -/
example : ((run { delay := 500, cap := 3, maxPending := 5 } init [.announce 1 1, .announce 2 1, .announce 3 1]).2.filter
    (fun o => isReq 1 o && decide (0 ≤ o.time) && decide (o.time < 0 + 500))).length = 2 := by decide

/-- enabling condition of the fall-back, spelled out: the head is due, the item is not stored, and no pull for the hash
was registered after the entry's pull time ⇒ this slot of the loop issues the request to that peer and registers it -/
theorem fallback_progress (c : Cfg) (s : St) (obj : Entry) (rest : List Entry) (t : Nat)
    (hpc : s.pc = .run) (hp : s.pending = obj :: rest) (hdue : obj.time + c.delay ≤ s.now)
    (hlack : obj.hash ∉ s.held) (hact : lookup s.active obj.hash = some t) (ht : t ≤ obj.time) :
    (step c s .loop).2 = [.dec obj.peer obj.hash s.now] ∧ (step c s .loop).1.pending = rest ∧
    lookup (step c s .loop).1.active obj.hash = some s.now := by
  have h1 : ¬ s.now < obj.time + c.delay := by omega
  have h2 : ¬ obj.time < t := by omega
  simp [step, loopStep, hpc, hp, h1, afterWake, hlack, hact, h2, removeHead, lookup_set]

/-- what a slot of the loop does with a due head, exhaustively: it drops it for one of the two legitimate reasons, or
re-times it to the pull registered meanwhile (so that the delay counts from that pull), or requests it -/
theorem head_examined (c : Cfg) (s : St) (obj : Entry) (rest : List Entry)
    (hpc : s.pc = .run) (hp : s.pending = obj :: rest) (hdue : obj.time + c.delay ≤ s.now) :
    ((obj.hash ∈ s.held ∨ lookup s.active obj.hash = none) ∧
        (step c s .loop).1.pending = rest ∧ (step c s .loop).2 = []) ∨
    (∃ t, lookup s.active obj.hash = some t ∧ obj.time < t ∧
        (step c s .loop).1.pending = insertSorted { obj with time := t } rest ∧ (step c s .loop).2 = []) ∨
    ((step c s .loop).2 = [.dec obj.peer obj.hash s.now] ∧ (step c s .loop).1.pending = rest) := by
  have h1 : ¬ s.now < obj.time + c.delay := by omega
  by_cases hh : obj.hash ∈ s.held
  · left; simp [step, loopStep, hpc, hp, h1, afterWake, hh, removeHead]
  · cases ha : lookup s.active obj.hash with
    | none => left; simp [step, loopStep, hpc, hp, h1, afterWake, hh, ha, removeHead]
    | some t =>
      by_cases ht : obj.time < t
      · right; left
        exact ⟨t, rfl, ht, by simp [step, loopStep, hpc, hp, h1, afterWake, hh, ha, ht, moveHead]⟩
      · right; right
        simp [step, loopStep, hpc, hp, h1, afterWake, hh, ha, ht, removeHead]

/-- the bound of `bounded` is reached -/
example : (run { delay := 500, cap := 1, maxPending := 2 } init
    [.announce 1 1, .announce 2 1, .announce 3 1, .announce 4 1, .announce 5 1, .announce 6 1]).1.pending.length = 3 := by
  decide

end IdenaModel.PushPull
