import IdenaModel.Model.Flags
/-!
# C03 / C01 — the derived header flags and the validation-period machine

The flags of a block are a function of the parent state, the block's time, height and body (`calcFlags`); a validator
recomputes them and refuses a header that carries anything else (C03 `validate_ok_iff`, field `flags`).  About that
function, for every configuration, state and block:

* `transition_cases`: a block makes at most one ceremony transition, and only the one its period allows;
* `finished_needs`: `ValidationFinished` only in the after-long period and only when the completion rule holds, and it
  always comes with `IdentityUpdate`;
* `snapshot_needs`: a snapshot block lies in the None period, is due by height, and is never the block that starts the
  flip lottery or finishes the validation;
* `period_steps_by_one`: whatever the block's time — also hours late — the period moves by at most one step of the
  cycle None → FlipLottery → Short → Long → AfterLong → None, and exactly when the transition flag is set;
* `thresholds_ordered`: with non-negative durations the timing predicates are nested (after-long started ⇒ long started ⇒
  short started ⇒ lottery started), so a late chain walks through every period, one block each;
* `afterlong_counts` / `afterlong_completes`: in the after-long period every non-empty block without ceremonial
  transactions counts, and after `10 · shards` of them in a row the validation can finish — the ceremony cannot hang.
-/
namespace IdenaModel.Flags

theorem bit_cases (b : Bool) (f : Nat) : bit b f = 0 ∨ bit b f = f := by
  cases b <;> simp [bit]

/-- the transition flag is 0 or the one flag of the current period -/
theorem transition_cases (c : Cfg) (s : St) (i : In) :
    transition c s i = 0 ∨
    (s.period = 0 ∧ transition c s i = fFlipLottery) ∨ (s.period = 1 ∧ transition c s i = fShort) ∨
    (s.period = 2 ∧ transition c s i = fLong) ∨ (s.period = 3 ∧ transition c s i = fAfterLong) ∨
    (s.period = 4 ∧ transition c s i = fFinished) := by
  unfold transition
  split
  · rename_i h; rcases bit_cases (isFlipLotteryStarted c s.nextValidation i.time) fFlipLottery with e | e <;> simp [e, h]
  · split
    · rename_i h; rcases bit_cases (isShortStarted s.nextValidation i.time) fShort with e | e <;> simp [e, h]
    · split
      · rename_i h; rcases bit_cases (isLongStarted c s.nextValidation i.time) fLong with e | e <;> simp [e, h]
      · split
        · rename_i h
          rcases bit_cases (isAfterLongStarted c s.nextValidation i.time i.longNs) fAfterLong with e | e <;> simp [e, h]
        · split
          · rename_i h; rcases bit_cases (canComplete s) fFinished with e | e <;> simp [e, h]
          · simp

theorem finished_needs (c : Cfg) (s : St) (i : In) (h : transition c s i = fFinished) :
    s.period = 4 ∧ canComplete s = true := by
  have hp : s.period = 4 := by
    rcases transition_cases c s i with e | ⟨_, e⟩ | ⟨_, e⟩ | ⟨_, e⟩ | ⟨_, e⟩ | ⟨p, _⟩
    · rw [e] at h; simp [fFinished] at h
    · rw [e] at h; simp [fFinished, fFlipLottery] at h
    · rw [e] at h; simp [fFinished, fShort] at h
    · rw [e] at h; simp [fFinished, fLong] at h
    · rw [e] at h; simp [fFinished, fAfterLong] at h
    · exact p
  refine ⟨hp, ?_⟩
  unfold transition at h
  simp only [hp] at h
  cases hc : canComplete s
  · simp [bit, hc, fFinished] at h
  · rfl

/-- `ValidationFinished` always comes with `IdentityUpdate` -/
theorem finished_has_identity_update (c : Cfg) (s : St) (i : In) (h : transition c s i = fFinished) :
    fIdentityUpdate ∈ calcFlags c s i := by
  unfold calcFlags
  simp [h]

theorem snapshot_needs (c : Cfg) (s : St) (i : In) (h : fSnapshot ∈ calcFlags c s i) :
    s.period = 0 ∧ i.height - s.lastSnapshot ≥ c.snapshotRange ∧ transition c s i ≠ fFinished ∧ transition c s i ≠ fFlipLottery := by
  have hs : snapshotDue c s i (transition c s i) = true := by
    unfold calcFlags at h
    simp only [List.mem_append] at h
    rcases h with ((h | h) | h) | h
    · split at h <;> simp [fSnapshot, fIdentityUpdate] at h
    · split at h
      · rename_i hne
        simp at h
        rcases transition_cases c s i with e | ⟨_, e⟩ | ⟨_, e⟩ | ⟨_, e⟩ | ⟨_, e⟩ | ⟨_, e⟩ <;>
          simp [e, fSnapshot, fFlipLottery, fShort, fLong, fAfterLong, fFinished] at h hne
      · simp at h
    · split at h
      · assumption
      · simp at h
    · split at h <;> simp [fSnapshot, fNewGenesis] at h
  unfold snapshotDue at hs
  simp only [Bool.and_eq_true, decide_eq_true_eq] at hs
  exact ⟨hs.1.1.2, hs.1.1.1, hs.1.2, hs.2⟩

/-- the period after the block is the same or the next one of the cycle, and it moves exactly when the transition flag is set -/
theorem period_steps_by_one (c : Cfg) (s : St) (i : In) :
    ((applyBlock c s i).period = s.period ∧ transition c s i = 0) ∨
    ((applyBlock c s i).period = (s.period + 1) % 5 ∧ transition c s i ≠ 0) := by
  have hper : (applyBlock c s i).period = nextPeriod s.period (transition c s i) := by
    unfold applyBlock
    simp only
    split <;> rfl
  rw [hper]
  rcases transition_cases c s i with e | ⟨p, e⟩ | ⟨p, e⟩ | ⟨p, e⟩ | ⟨p, e⟩ | ⟨p, e⟩
  · left; simp [e, nextPeriod, fFlipLottery, fShort, fLong, fAfterLong, fFinished]
  all_goals (right; simp [e, p, nextPeriod, fFlipLottery, fShort, fLong, fAfterLong, fFinished])

/-- nested timing predicates -/
theorem thresholds_ordered (c : Cfg) (nv t longNs : Int) (h2 : 0 ≤ c.shortNs) (h3 : 0 ≤ longNs) :
    (isAfterLongStarted c nv t longNs = true → isLongStarted c nv t = true) ∧
    (isLongStarted c nv t = true → isShortStarted nv t = true) ∧
    (isShortStarted nv t = true → 0 < c.flipLotteryNs → isFlipLotteryStarted c nv t = true) := by
  unfold isAfterLongStarted isLongStarted isShortStarted isFlipLotteryStarted ns
  simp only [decide_eq_true_eq]
  refine ⟨fun h => by omega, fun h => by omega, fun h hp => by omega⟩

/-- in the after-long period a non-empty block without ceremonial transactions is counted … -/
theorem afterlong_counts (c : Cfg) (s : St) (i : In) (hp : s.period = 4) (hne : i.isEmpty = false) (hcer : i.cerShards = [])
    (hnf : transition c s i ≠ fFinished) :
    (applyBlock c s i).cnt = s.cnt + 1 ∧ (applyBlock c s i).shardsNum = s.shardsNum := by
  unfold applyBlock afterLongAccount
  simp only [hnf, if_false, hne, hcer]
  split <;> simp [hp]

/-- … the counter alone makes the epoch completable … -/
theorem cnt_completes (s : St) (h : s.cnt ≥ afterLongRequired * 2 * s.shardsNum) : canComplete s = true := by
  unfold canComplete; simp [h]

/-- … so a run of such blocks ends the validation: after at most `10 · shards` of them the next block carries
`ValidationFinished` (the ceremony cannot hang in the after-long period). -/
theorem afterlong_completes (c : Cfg) (s : St) (blocks : List In) (hp : s.period = 4)
    (hall : ∀ i ∈ blocks, i.isEmpty = false ∧ i.cerShards = [])
    (hlen : blocks.length ≥ afterLongRequired * 2 * s.shardsNum) :
    ∃ k, k ≤ blocks.length ∧
      let sk := (blocks.take k).foldl (applyBlock c) s
      (k < blocks.length → ∀ nxt : In, sk.period = 4 → transition c sk nxt = fFinished) ∧
      (k = blocks.length → sk.period = 4 → canComplete sk = true) := by
  -- strengthen: from a state with counter n in period 4, after m more such blocks either a finishing happened or cnt = n + m
  have key : ∀ (bs : List In) (s : St), s.period = 4 → (∀ i ∈ bs, i.isEmpty = false ∧ i.cerShards = []) →
      (∃ j, j < bs.length ∧ canComplete ((bs.take j).foldl (applyBlock c) s) = true ∧ ((bs.take j).foldl (applyBlock c) s).period = 4) ∨
      (((bs.foldl (applyBlock c) s).period = 4 ∧ (bs.foldl (applyBlock c) s).cnt = s.cnt + bs.length ∧
        (bs.foldl (applyBlock c) s).shardsNum = s.shardsNum)) := by
    intro bs
    induction bs with
    | nil => intro s hp _; right; simp [hp]
    | cons b bs ih =>
      intro s hp hall
      by_cases hc : canComplete s = true
      · left; exact ⟨0, by simp, by simpa using hc, by simpa using hp⟩
      · have hb := hall b (by simp)
        have hc' : canComplete s = false := by simpa using hc
        have htr : transition c s b = 0 := by
          unfold transition; simp [hp, bit, hc']
        have hnf : transition c s b ≠ fFinished := by simp [htr, fFinished]
        have hcnt := afterlong_counts c s b hp hb.1 hb.2 hnf
        have hper : (applyBlock c s b).period = 4 := by
          rcases period_steps_by_one c s b with ⟨h1, _⟩ | ⟨_, h2⟩
          · rw [h1, hp]
          · exact absurd htr h2
        rcases ih (applyBlock c s b) hper (fun i hi => hall i (by simp [hi])) with ⟨j, hj, h1, h2⟩ | ⟨h1, h2, h3⟩
        · left; exact ⟨j + 1, by simp; omega, by simpa using h1, by simpa using h2⟩
        · right
          refine ⟨by simpa using h1, ?_, ?_⟩
          · simp only [List.foldl_cons, List.length_cons]; rw [h2, hcnt.1]; omega
          · simp only [List.foldl_cons]; rw [h3, hcnt.2]
  rcases key blocks s hp hall with ⟨j, hj, h1, h2⟩ | ⟨h1, h2, h3⟩
  · refine ⟨j, by omega, ?_, ?_⟩
    · intro _ nxt hper
      unfold transition; simp [hper, bit, h1]
    · intro hk; omega
  · refine ⟨blocks.length, Nat.le_refl _, ?_, ?_⟩
    · intro hk; omega
    · intro _ _
      simp only [List.take_length]
      apply cnt_completes
      rw [h2, h3]; omega

/-! ### non-vacuity -/

def demoCfg : Cfg := ⟨300 * ns, 120 * ns, 1000, 50, 50, 50, false⟩
def demoIn (h : Nat) (t : Int) : In := ⟨h, t, false, false, 1800 * ns, false, false, false, false, false, [], 7, 1, true, 3⟩

example : calcFlags demoCfg ⟨0, 10000, 0, [], 1, 0⟩ (demoIn 20 9800) = [fFlipLottery] := by decide
example : calcFlags demoCfg ⟨4, 10000, 10, [], 1, 0⟩ (demoIn 90 13000) = [fIdentityUpdate, fFinished] := by decide
example : (applyBlock demoCfg ⟨0, 10000, 0, [], 1, 0⟩ (demoIn 20 99999)).period = 1 := by decide   -- hours late: still one step

end IdenaModel.Flags
