import IdenaModel.Proofs.LedgerTotal
import IdenaModel.Props.C05
/-!
# C04 (transaction level) — no coins from nowhere: transactions keep every component non-negative and
never increase the total

`Inv s`: every balance, contract stake, identity stake, locked and replenished part is `≥ 0` and the locked part
and the replenished part are each within the stake and `locked ≤ replenished` (what the epoch step of
`ceremony.go:997-1006` needs at block boundaries: `0 ≤ locked ≤ replenished ≤ stake`).  `applyTx_inv`: a transaction that `ValidateTx` (in-block) accepts and `applyTxOnState`
applies preserves `Inv`; `applyTx_total_le`: it does not increase `total` (fees, tips, burns, burnt stakes
decrease it; fees and tips are re-issued by the block-level reward step, which is not part of this file).

Hypothesis `HeadOk s`: `getTxFee` reads the validators view of the node's *head* state while `ValidateTx`
reads the view of the state being built (`blockchain.go:1749` vs `validation.go:215`); the theorems need the
head view to be empty whenever the checked one is (they are the same view during block processing).
`applyTx_inv_needs_HeadOk` shows the hypothesis cannot be dropped.

Contract transactions (Deploy / Call / Terminate): the VM is an input of the model; the theorems take the
VM's obligations (`VmOk`: a failed call leaves no balance change, gas within the limit, the signer is not
debited by the VM, nobody is overdrawn, the net deltas do not create coins) as a hypothesis — they are C15's.
-/
namespace IdenaModel.Ledger
open State

structure Inv (s : State) : Prop where
  bal : ∀ a, 0 ≤ s.balance a
  cstake : ∀ a, 0 ≤ s.cstake a
  idf : ∀ a, 0 ≤ (s.idf a).stake ∧ 0 ≤ (s.idf a).locked ∧ (s.idf a).locked ≤ (s.idf a).stake ∧
    0 ≤ (s.idf a).replenished ∧ (s.idf a).replenished ≤ (s.idf a).stake ∧
    (s.idf a).locked ≤ (s.idf a).replenished

theorem stakeToBalance_bounds {f : IFunds}
    (h : 0 ≤ f.stake ∧ 0 ≤ f.locked ∧ f.locked ≤ f.stake ∧ 0 ≤ f.replenished ∧ f.replenished ≤ f.stake ∧
      f.locked ≤ f.replenished) :
    0 ≤ stakeToBalance f ∧ stakeToBalance f ≤ f.stake := by
  unfold stakeToBalance; split <;> omega

/-- the signer can pay amount + tips + the fee that will be charged -/
theorem validated_can_pay {c s tx m} (hI : Inv s) (hH : HeadOk s) (hv : validateTx c s tx .inBlock m = .ok)
    (hnc : tx.type.isContract = false) :
    tx.amount + tx.tips + calcFee s.g.headNetSize s.g.feePerGas tx ≤ s.balance tx.sender := by
  have hc := validate_common hv
  have h1 := calcFee_head_le hH tx
  have h2 := calcFee_nonneg s.g.headNetSize s.g.feePerGas tx
  have h3 := hc.funds
  have h4 := hI.bal tx.sender
  have h5 := hc.amount
  have h6 := hc.tips
  simp only [txCostForValidation, hnc, calcCost] at h3
  simp at h3
  by_cases hp : 0 < tx.amount + tx.tips + calcFee s.g.netSize s.g.feePerGas tx
  · have := h3 hp; omega
  · omega

theorem fundsEffect_inv {c : Cfg} {s : State} {tx : Tx} {m : Nat} (hI : Inv s) (hH : HeadOk s)
    (hv : validateTx c s tx .inBlock m = .ok) (hnc : tx.type.isContract = false) :
    (∀ a, 0 ≤ (fundsEffect c s tx).cstake a) ∧
    (∀ a, 0 ≤ ((fundsEffect c s tx).idf a).stake ∧ 0 ≤ ((fundsEffect c s tx).idf a).locked ∧
      ((fundsEffect c s tx).idf a).locked ≤ ((fundsEffect c s tx).idf a).stake ∧
      0 ≤ ((fundsEffect c s tx).idf a).replenished ∧
      ((fundsEffect c s tx).idf a).replenished ≤ ((fundsEffect c s tx).idf a).stake ∧
      ((fundsEffect c s tx).idf a).locked ≤ ((fundsEffect c s tx).idf a).replenished) ∧
    (∀ a, a ≠ tx.sender → 0 ≤ (fundsEffect c s tx).balance a) ∧
    calcFee s.g.headNetSize s.g.feePerGas tx + tx.tips ≤ (fundsEffect c s tx).balance tx.sender := by
  have hc := validate_common hv
  have hpay := validated_can_pay hI hH hv hnc
  have hamt := hc.amount
  have htips := hc.tips
  have hfee := calcFee_nonneg s.g.headNetSize s.g.feePerGas tx
  have hb := hI.bal
  have hcs := hI.cstake
  have hid := hI.idf
  have hsb := fun a => stakeToBalance_bounds (hid a)
  have hbr := hb (tx.to.getD 0)
  have hidr := hid (tx.to.getD 0)
  have hsbr := hsb (tx.to.getD 0)
  have hbs := hb tx.sender
  have hids := hid tx.sender
  have hsbs := hsb tx.sender
  cases ht : tx.type <;> (try (simp [TxType.isContract, ht] at hnc; done)) <;> cases hto : tx.to <;>
    simp only [fundsEffect, ht, hto] <;>
    simp only [hto, Option.getD_some, Option.getD_none] at hbr hidr hsbr <;>
    refine ⟨fun a => ?_, fun a => ?_, fun a hne => ?_, ?_⟩ <;>
    (try (have h1 := hb a; have h3 := hid a; have h5 := hcs a; have h6 := hsb a
          first | omega | (simp [calcCost, hne] <;> (try (repeat' split)) <;> (try simp_all) <;> (try omega); done))) <;>
    (try (have h1 := hb a; have h3 := hid a; have h5 := hcs a; have h6 := hsb a
          first | omega | (simp [calcCost] <;> (try (repeat' split)) <;> (try simp_all) <;> (try omega); done))) <;>
    (try (first | omega | (simp [calcCost] <;> (try (repeat' split)) <;> (try simp_all) <;> (try omega); done)))
  · -- send, recipient
    have h1 := hb a; simp [hne]; split <;> omega
  · -- activation, recipient
    have h1 := hb a; simp [hne, calcCost]; split <;> omega
  · -- invite, recipient
    have h1 := hb a; simp [hne]; split <;> omega
  · -- kill, signer
    simp; omega
  · simp; omega
  · -- killInvitee
    have h3 := hid a; split <;> (try simp) <;> (try split) <;> (try simp) <;> omega
  · split <;> (try simp) <;> omega
  · -- killDelegator
    have h3 := hid a; split <;> (try simp) <;> (try split) <;> (try simp) <;> omega
  · split <;> (try simp) <;> omega
  · -- replenishStake
    have h3 := hid a; simp; split <;> (try simp) <;> omega

/-- **C04, invariant (all non-contract types).** -/
theorem applyTx_inv {c : Cfg} {s s' : State} {tx : Tx} {m : Nat} {fee : Int} (hI : Inv s) (hH : HeadOk s)
    (hv : validateTx c s tx .inBlock m = .ok) (ha : applyTx c s tx = .ok s' fee)
    (hnc : tx.type.isContract = false) : Inv s' := by
  obtain ⟨-, -, s1, hk, hfee, rfl⟩ := applyTx_ok ha
  obtain ⟨h1, h2, h3, h4⟩ := fundsEffect_inv hI hH hv hnc
  have he : extraFee s tx = 0 := by simp [extraFee, hnc]
  refine ⟨fun a => ?_, fun a => ?_, fun a => ?_⟩
  · rw [finish_balance, hk.balance]
    split
    · rename_i h; subst h; omega
    · rename_i h; exact h3 a h
  · rw [finish_cstake, hk.cstake]; exact h1 a
  · rw [finish_idf, hk.idf]; exact h2 a

/-- what the contract VM owes the ledger (C15's obligations), stated on the inputs of the wrapper -/
structure VmOk (c : Cfg) (s : State) (tx : Tx) : Prop where
  /-- the gas charged stays within what the signer offered: `fee + gasCost ≤ maxFee` (gas limit `getGasLimit`) -/
  gas : calcFee s.g.headNetSize s.g.feePerGas tx + gasCost s.g.feePerGas tx.ext.vmGasUsed ≤ tx.maxFee
  /-- the VM does not debit the signer of the transaction -/
  senderNotDebited : 0 ≤ deltaAt tx.ext.vmDeltas tx.sender
  /-- the VM (together with the payment the wrapper hands to the contract) overdraws nobody -/
  noOverdraft : ∀ ca a, a ≠ tx.sender → 0 ≤ (contractWrapper c s tx ca).balance a

theorem contractWrapper_idf (c : Cfg) (s : State) (tx : Tx) (ca a : Nat) : (contractWrapper c s tx ca).idf a = s.idf a := by
  unfold contractWrapper; simp only []
  repeat' split
  all_goals simp [State.idf]

theorem contractWrapper_cstake (c : Cfg) (s : State) (tx : Tx) (ca a : Nat) :
    (contractWrapper c s tx ca).cstake a = s.cstake a := by
  have hd : ∀ (st : State) l, (st.applyDeltas l).cstake a = st.cstake a := by
    intro st l
    induction l generalizing st with
    | nil => rfl
    | cons d t ih => exact (ih (st.addBal d.1 d.2)).trans (by simp)
  unfold contractWrapper; simp only []
  repeat' split
  all_goals simp [hd]

theorem contractWrapper_sender_balance (c : Cfg) (s : State) (tx : Tx) (ca : Nat) (hamt : 0 ≤ tx.amount) :
    s.balance tx.sender - tx.amount + deltaAt tx.ext.vmDeltas tx.sender ≤ (contractWrapper c s tx ca).balance tx.sender := by
  unfold contractWrapper; simp only []
  by_cases hca : tx.sender = ca <;> by_cases hp : tx.amount > 0 <;> cases hs : tx.ext.vmSuccess <;>
    cases hw : (decide (tx.type = .call) || tx.ext.isWasm) <;>
    simp [hp, hs, hw, balance_applyDeltas, hca] <;>
    (try (repeat' split)) <;> (try simp [balance_applyDeltas, hca]) <;> (try (repeat' split)) <;> omega

/-- **C04, invariant (contract types)** under the VM's obligations. -/
theorem applyTx_inv_contract {c : Cfg} {s s' : State} {tx : Tx} {m : Nat} {fee : Int} (hI : Inv s)
    (hv : validateTx c s tx .inBlock m = .ok) (ha : applyTx c s tx = .ok s' fee)
    (hct : tx.type.isContract = true) (hvm : VmOk c s tx) : Inv s' := by
  obtain ⟨-, -, s1, hk, hfee, rfl⟩ := applyTx_ok ha
  have hc := validate_common hv
  have he : extraFee s tx = gasCost s.g.feePerGas tx.ext.vmGasUsed := by simp [extraFee, hct]
  have hF : ∃ ca, fundsEffect c s tx = contractWrapper c s tx ca ∨ fundsEffect c s tx = s := by
    cases ht : tx.type <;> simp [TxType.isContract, ht] at hct <;> cases hto : tx.to <;>
      simp only [fundsEffect, ht, hto] <;> first | exact ⟨_, Or.inl rfl⟩ | exact ⟨0, Or.inr trivial⟩
  have hfunds := hc.funds
  simp only [txCostForValidation, hct, calcMaxCost] at hfunds
  simp at hfunds
  have h1 := hc.amount; have h2 := hc.tips; have h3 := hc.maxFee
  have h4 := hI.bal tx.sender
  have h5 := hvm.gas; have h6 := hvm.senderNotDebited
  have h7 := calcFee_nonneg s.g.headNetSize s.g.feePerGas tx
  have h8 : 0 ≤ gasCost s.g.feePerGas tx.ext.vmGasUsed := by have := extraFee_nonneg s tx; omega
  have hcan : tx.amount + tx.tips + tx.maxFee ≤ s.balance tx.sender := by
    by_cases hp : 0 < tx.amount + tx.tips + tx.maxFee
    · exact hfunds hp
    · omega
  obtain ⟨ca, hF | hF⟩ := hF
  · refine ⟨fun a => ?_, fun a => ?_, fun a => ?_⟩
    · rw [finish_balance, hk.balance, hF]
      split
      · rename_i h; subst h
        have := contractWrapper_sender_balance c s tx ca h1
        omega
      · rename_i h; exact hvm.noOverdraft ca a h
    · rw [finish_cstake, hk.cstake, hF, contractWrapper_cstake]; exact hI.cstake a
    · rw [finish_idf, hk.idf, hF, contractWrapper_idf]; exact hI.idf a
  · refine ⟨fun a => ?_, fun a => ?_, fun a => ?_⟩
    · rw [finish_balance, hk.balance, hF]
      split
      · rename_i h; subst h; omega
      · exact hI.bal a
    · rw [finish_cstake, hk.cstake, hF]; exact hI.cstake a
    · rw [finish_idf, hk.idf, hF]; exact hI.idf a

/-! ### the total -/
theorem total_contractWrapper_le (c : Cfg) (s : State) (tx : Tx) (ca : Nat) (hamt : 0 ≤ tx.amount) :
    total (contractWrapper c s tx ca) ≤ total s + deltaSum tx.ext.vmDeltas := by
  unfold contractWrapper; simp only []
  repeat' split
  all_goals simp only [total_addBal, total_applyDeltas]
  all_goals omega

theorem fundsEffect_total_le {c : Cfg} {s : State} {tx : Tx} {m : Nat} (hI : Inv s)
    (hv : validateTx c s tx .inBlock m = .ok) (hvm : tx.type.isContract = true → deltaSum tx.ext.vmDeltas ≤ 0) :
    total (fundsEffect c s tx) ≤ total s := by
  have hc := validate_common hv
  have hamt := hc.amount
  have hid := hI.idf
  have hsb := fun a => stakeToBalance_bounds (hid a)
  have hids := hid tx.sender
  have hsbs := hsb tx.sender
  have hidr := hid (tx.to.getD 0)
  have hsbr := hsb (tx.to.getD 0)
  have hw := fun ca => total_contractWrapper_le c s tx ca hamt
  by_cases hct : tx.type.isContract = true
  · have hds := hvm hct
    cases ht : tx.type <;> simp [TxType.isContract, ht] at hct <;> cases hto : tx.to <;>
      simp only [fundsEffect, ht, hto] <;>
      first | omega | (have := hw tx.ext.contractAddr; omega) | (rename_i r; have := hw r; omega)
  · cases ht : tx.type <;> (try (simp [TxType.isContract, ht] at hct; done)) <;> cases hto : tx.to <;>
      simp only [fundsEffect, ht, hto] <;>
      simp only [hto, Option.getD_some, Option.getD_none] at hidr hsbr <;>
      (try split) <;>
      (try simp only [total_addBal, total_addStake, total_addReplenished, total_clearStake, State.stake]) <;>
      omega

/-- **C04, total.** A validated transaction never increases the total of all balances, stakes and contract
stakes; the fee and the tips leave it (the block-level reward step re-issues part of them). -/
theorem applyTx_total_le {c : Cfg} {s s' : State} {tx : Tx} {m : Nat} {fee : Int} (hI : Inv s)
    (hv : validateTx c s tx .inBlock m = .ok) (ha : applyTx c s tx = .ok s' fee)
    (hvm : tx.type.isContract = true → deltaSum tx.ext.vmDeltas ≤ 0) :
    total s' + fee + tx.tips ≤ total s ∧ 0 ≤ fee ∧ total s' ≤ total s := by
  obtain ⟨-, -, s1, hk, hfee, rfl⟩ := applyTx_ok ha
  have h1 := fundsEffect_total_le hI hv hvm
  have h2 := calcFee_nonneg s.g.headNetSize s.g.feePerGas tx
  have h3 := extraFee_nonneg s tx
  have h4 := (validate_common hv).tips
  rw [total_finish, hk.total]
  omega

/-! ### the hypothesis on the head view cannot be dropped (F9) -/

/-- checked view: empty network (fee rate 0), head view: one validated identity (fee charged): a Send of the
whole balance validates, and its application leaves the signer at −20 -/
def f9State : State :=
  { afunds := [(1, { balance := 100 })], g := { epoch := 0, feePerGas := 10, netSize := 0, headNetSize := 1 } }

def f9Tx : Tx := { type := .send, sender := 1, to := some 2, amount := 100, maxFee := 50, nonce := 1, epoch := 0, gas := 2 }

theorem applyTx_inv_needs_HeadOk :
    validateTx {} f9State f9Tx .inBlock 10 = .ok ∧
    (applyTx {} f9State f9Tx).result.map (fun p => p.1.balance 1) = some (-20) := by decide

/-! ### non-vacuity -/
theorem exState_inv : Inv exState := by
  have key : ∀ a, a = 1 ∨ a = 2 ∨ a = 3 ∨ (a ≠ 1 ∧ a ≠ 2 ∧ a ≠ 3) := by intro a; omega
  refine ⟨fun a => ?_, fun a => ?_, fun a => ?_⟩ <;>
    rcases key a with rfl | rfl | rfl | ⟨h1, h2, h3⟩ <;>
    first
    | decide
    | (have e1 : ¬ 1 = a := fun e => h1 e.symm
       have e2 : ¬ 2 = a := fun e => h2 e.symm
       have e3 : ¬ 3 = a := fun e => h3 e.symm
       simp [exState, State.balance, State.cstake, State.af, State.idf, AMap.get, e1, e2, e3, default])

example : HeadOk exState := by intro h; simp [exState] at h

/-- the terminated delegator's locked 10 coins are burnt: the total drops by 10 + fee 20 -/
example : (applyTx exCfg exState { type := .killDelegator, sender := 1, to := some 3, maxFee := 50, nonce := 1, epoch := 3, gas := 2 }).result.map
    (fun p => (total exState, total p.1, p.2)) = some (1160, 1130, 20) := by decide

end IdenaModel.Ledger
