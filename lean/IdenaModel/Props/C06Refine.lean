import IdenaModel.Props.C06
import IdenaModel.Props.C06Tx
/-!
# C06 — refinement: the full transaction model (M-Ledger) refines the nonce/epoch chain model

`applyTx_refines`: every transaction the full ledger model applies (all 23 types, funds, relationships, contracts)
is a step of the abstract chain model of `Model/Chain.lean` under the abstraction
`absState s = (global epoch, account ↦ (epoch, nonce))`.  Hence every chain the ledger model accepts maps to an
accepted abstract chain (`ledger_run_refines`) and inherits the chain-level theorems of `Props/C06.lean`:
consecutive nonces per sender and epoch, no transaction twice, replays rejected.
The epoch-change event bumps the global epoch only (dust clearing resets nonces of accounts whose epoch is older
than the new epoch, which `curNonce` ignores; not modelled here).
-/
namespace IdenaModel.C06Refine
open IdenaModel

def absState (s : Ledger.State) : Chain.CState :=
  { epoch := s.g.epoch, accts := fun a => ⟨(s.am a).epoch, (s.am a).nonce⟩ }

def absTx (tx : Ledger.Tx) : Chain.ATx := ⟨tx.sender, tx.epoch, tx.nonce, 0⟩

theorem curNonce_abs (s : Ledger.State) (a : Nat) : Chain.curNonce (absState s) a = Ledger.curNonce s a := by
  simp only [Chain.curNonce, Ledger.curNonce, absState]; rfl

/-- one applied ledger transaction is one step of the abstract chain -/
theorem applyTx_refines {c : Ledger.Cfg} {s s' : Ledger.State} {tx : Ledger.Tx} {fee : Int}
    (h : Ledger.applyTx c s tx = .ok s' fee) (hw : Ledger.NoWrap s tx.sender) :
    Chain.applyTx (absState s) (absTx tx) = some (absState s') := by
  obtain ⟨he, hn⟩ := Ledger.apply_needs_next_nowrap h hw
  obtain ⟨h1, h2, h3, h4, _⟩ := Ledger.apply_sets_nonce h
  unfold Chain.applyTx
  have hc : (absTx tx).epoch = (absState s).epoch ∧
      (absTx tx).nonce = Chain.curNonce (absState s) (absTx tx).sender + 1 := by
    simp only [absTx, curNonce_abs]; exact ⟨he, hn⟩
  rw [if_pos hc]
  have hacc : (fun a => if a = (absTx tx).sender then (⟨(absTx tx).epoch, (absTx tx).nonce⟩ : Chain.Acct)
      else (absState s).accts a) = (absState s').accts := by
    funext a
    simp only [absState, absTx]
    by_cases ha : a = tx.sender
    · subst ha; simp [h1, h2]
    · simp [ha, h4 a ha]
  simp only [hacc]
  simp only [absState, h3]

/-- events of a ledger chain -/
inductive LEv where
  | tx (t : Ledger.Tx)
  | newEpoch

def absEv : LEv → Chain.Ev
  | .tx t => .tx (absTx t)
  | .newEpoch => .newEpoch

def bumpEpoch (s : Ledger.State) : Ledger.State := { s with g := { s.g with epoch := s.g.epoch + 1 } }

/-- accepted ledger chains (every applied transaction within the uint32 counter range) -/
inductive LRun (c : Ledger.Cfg) : Ledger.State → List LEv → Ledger.State → Prop
  | nil (s) : LRun c s [] s
  | tx {s s1 s2 t fee evs} : Ledger.applyTx c s t = .ok s1 fee → Ledger.NoWrap s t.sender →
      LRun c s1 evs s2 → LRun c s (.tx t :: evs) s2
  | epoch {s s2 evs} : LRun c (bumpEpoch s) evs s2 → LRun c s (.newEpoch :: evs) s2

theorem abs_bump (s : Ledger.State) :
    absState (bumpEpoch s) = { absState s with epoch := (absState s).epoch + 1 } := by
  simp [absState, bumpEpoch, Ledger.State.am]

/-- **refinement**: an accepted ledger chain is an accepted abstract chain -/
theorem ledger_run_refines {c : Ledger.Cfg} {s s' : Ledger.State} {evs : List LEv} (h : LRun c s evs s') :
    Chain.run (absState s) (evs.map absEv) = some (absState s') := by
  induction h with
  | nil s => simp [Chain.run]
  | tx ha hw _ ih =>
    simp only [List.map_cons, absEv, Chain.run, Chain.step, applyTx_refines ha hw]
    exact ih
  | epoch _ ih =>
    simp only [List.map_cons, absEv, Chain.run, Chain.step]
    rw [← abs_bump]; exact ih

theorem txsOf_map (evs : List LEv) :
    Chain.txsOf (evs.map absEv) = (evs.filterMap fun e => match e with | .tx t => some (absTx t) | .newEpoch => none) := by
  induction evs with
  | nil => rfl
  | cons e es ih => cases e <;> simp [absEv, Chain.txsOf, ih]

/-- **C06 for the full ledger model**: on every ledger chain accepted from a genesis state (epoch 0, all counters 0),
each sender's nonces within an epoch are `1, 2, …, k`, no (sender, epoch, nonce) occurs twice, and an included
transaction is refused by the abstract application rule and validation clauses in the state reached. -/
theorem ledger_chain {c : Ledger.Cfg} {s0 s : Ledger.State} {evs : List LEv} (h0 : absState s0 = Chain.genesis)
    (h : LRun c s0 evs s) :
    (∀ a e, Chain.noncesOf a e (Chain.txsOf (evs.map absEv)) =
        List.range' 1 (Chain.noncesOf a e (Chain.txsOf (evs.map absEv))).length) ∧
    ((Chain.txsOf (evs.map absEv)).map Chain.key).Nodup ∧
    (∀ t, Chain.ATx.mk t.sender t.epoch t.nonce 0 ∈ Chain.txsOf (evs.map absEv) →
        Chain.applyTx (absState s) (absTx t) = none ∧ Chain.validateOk (absState s) (absTx t) = false) := by
  have hr := ledger_run_refines h
  rw [h0] at hr
  refine ⟨fun a e => Chain.chain_nonces hr a e, Chain.no_dup hr, ?_⟩
  intro t ht
  exact Chain.applied_rejected (Chain.inv_run hr) ht

/-- … and the full model itself refuses it (contrapositive of the refinement step) -/
theorem ledger_replay_rejected {c c' : Ledger.Cfg} {s0 s : Ledger.State} {evs : List LEv}
    (h0 : absState s0 = Chain.genesis) (h : LRun c s0 evs s) (t : Ledger.Tx)
    (ht : Chain.ATx.mk t.sender t.epoch t.nonce 0 ∈ Chain.txsOf (evs.map absEv))
    (hw : Ledger.NoWrap s t.sender) : ∀ s' fee, Ledger.applyTx c' s t ≠ .ok s' fee := by
  intro s' fee hap
  have h1 := applyTx_refines hap hw
  have h2 := ((ledger_chain h0 h).2.2 t ht).1
  rw [h1] at h2; cases h2

end IdenaModel.C06Refine
