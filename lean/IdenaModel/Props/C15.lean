import IdenaModel.Proofs.ContractEnv
/-!
# C15 — contract execution is atomic, pays for itself and cannot overspend

All statements quantify over every call trace (`List ECall` for embedded contracts, `List (Nat × WCall)` for the
wasm host interface, nested sub-environments included), every prior ledger and every transaction.
-/
namespace IdenaModel.ContractEnv
open EEnv

/-! ## Fee and gas bounds -/

/-- the gas limit is exactly what the fee left after the transaction fee buys -/
theorem gasLimit_eq_floor (t : TxIn) (hf : 0 < t.fpg) (hfee : t.txFee ≤ t.maxFee) :
    gasLimit t = ((t.maxFee - t.txFee) / t.fpg : Nat) := by
  unfold gasLimit
  rw [if_neg (by omega)]
  have h1 : (t.maxFee : Int) - (t.txFee : Int) = ((t.maxFee - t.txFee : Nat) : Int) := by omega
  rw [h1]
  exact (Int.ofNat_tdiv _ _).symm

theorem gasUsed_le_limit_embedded (used : Nat) (limit : Int) (h : 0 ≤ limit) : (usedGasE used limit : Int) ≤ limit := by
  unfold usedGasE; rw [if_pos h]
  have : (min used limit.toNat : Nat) ≤ limit.toNat := Nat.min_le_right _ _
  omega

theorem gasUsed_le_limit_wasm (raw : Nat) (limit : Int) (h : 0 ≤ limit) : (usedGasW raw limit : Int) ≤ limit := by
  unfold usedGasW WasmGasMultiplier
  have h1 : min raw (limit.toNat * 100) / 100 ≤ limit.toNat := by
    apply Nat.div_le_of_le_mul; have := Nat.min_le_right raw (limit.toNat * 100); omega
  omega

/-- **gasUsed_le_limit**: the receipt's gas never exceeds the gas the declared maximum fee buys (both engines) -/
theorem gasUsed_le_limit (t : TxIn) (hf : 0 < t.fpg) (hfee : t.txFee ≤ t.maxFee) (used raw : Nat) :
    usedGasE used (gasLimit t) ≤ (t.maxFee - t.txFee) / t.fpg ∧ usedGasW raw (gasLimit t) ≤ (t.maxFee - t.txFee) / t.fpg := by
  have hl := gasLimit_eq_floor t hf hfee
  have h0 : (0 : Int) ≤ gasLimit t := by rw [hl]; exact Int.natCast_nonneg _
  have h1 := gasUsed_le_limit_embedded used _ h0
  have h2 := gasUsed_le_limit_wasm raw _ h0
  rw [hl] at h1 h2
  rw [hl]
  exact ⟨by exact_mod_cast h1, by exact_mod_cast h2⟩

/-- **fee_le_maxFee**: transaction fee plus gas cost stays within the declared maximum (both engines) -/
theorem fee_le_maxFee (t : TxIn) (hf : 0 < t.fpg) (hfee : t.txFee ≤ t.maxFee) (used raw : Nat) :
    t.txFee + gasCost t.fpg (usedGasE used (gasLimit t)) ≤ t.maxFee ∧
    t.txFee + gasCost t.fpg (usedGasW raw (gasLimit t)) ≤ t.maxFee := by
  obtain ⟨h1, h2⟩ := gasUsed_le_limit t hf hfee used raw
  have hd := Nat.mul_div_le (t.maxFee - t.txFee) t.fpg
  unfold gasCost
  constructor
  · have := Nat.mul_le_mul_left t.fpg h1; omega
  · have := Nat.mul_le_mul_left t.fpg h2; omega

/-- with a zero fee per gas no gas is granted and none is charged -/
theorem fee_le_maxFee_fpg_zero (t : TxIn) (hf : t.fpg = 0) (hfee : t.txFee ≤ t.maxFee) (used : Nat) :
    gasLimit t = 0 ∧ t.txFee + gasCost t.fpg (usedGasE used (gasLimit t)) ≤ t.maxFee := by
  have : gasLimit t = 0 := by unfold gasLimit; rw [if_pos hf]
  refine ⟨this, ?_⟩
  rw [this]; unfold gasCost usedGasE; simp [hf]; exact hfee

/-! ### The limit as found (before fix 8023026d): flagged variant -/

/-- below `2·10¹⁶` per gas unit the decimal division of the code as found agreed with the floor -/
theorem gasLimitAsFound_eq (t : TxIn) (hf : 0 < t.fpg) (hsmall : t.fpg < 2 * 10 ^ 16) (hfee : t.txFee ≤ t.maxFee) :
    gasLimitAsFound t = gasLimit t := by
  rw [gasLimit_eq_floor t hf hfee]
  unfold gasLimitAsFound
  rw [if_neg (by omega), if_pos hfee, decDivTrunc_eq_div _ _ hf hsmall]

/-- the fee bound for the limit as found -/
def fee_le_maxFee_asFound_statement : Prop :=
  ∀ (t : TxIn) (used : Nat), 0 < t.fpg → t.txFee ≤ t.maxFee → t.txFee + gasCost t.fpg (usedGasE used (gasLimitAsFound t)) ≤ t.maxFee

/-- … was false: `decimal.Div` (16 fractional digits, half-up) followed by truncation rounds a remainder within
`fpg / (2·10¹⁶)` of a full gas unit UP, so from `2·10¹⁶` per gas unit on one more unit was granted and charged than the
fee buys (here: maxFee − txFee = 2·10¹⁶ − 1 buys 0 units, 1 was granted).  Reproduced on a real chain (congest mode of
the harness) and fixed in /repo (8023026d). -/
theorem fee_le_maxFee_asFound_counterexample : ¬ fee_le_maxFee_asFound_statement := by
  intro h
  have := h { kind := .call, wasm := false, snd := 1, c := 2, amt := 0, tips := 0, maxFee := 2 * 10 ^ 16 - 1, txFee := 0, fpg := 2 * 10 ^ 16 } 1
    (by norm_num) (by norm_num)
  revert this
  decide

/-! ## Atomicity, embedded contracts -/

/-- what a failed contract transaction leaves behind: fee (tx fee + gas cost) and tips charged to the sender, the
sender's nonce and epoch set; every other balance, every contract, every stored value as before -/
def failedPost (t : TxIn) (b : Base) (gasUsed : Nat) : Base :=
  { b with bal := upd b.bal t.snd (b.bal t.snd - (t.txFee + gasCost t.fpg gasUsed : Nat) - t.tips),
           nonce := upd b.nonce t.snd t.nonce, epoch := upd b.epoch t.snd t.epoch }

theorem settle_failed (t : TxIn) (b : Base) (g ev : Nat) (bu mi : Int) :
    (settle t (prePay t b) false g ev bu mi).1 = failedPost t b g := by
  unfold settle prePay failedPost
  by_cases hp : t.pay = true
  · simp only [hp, Bool.not_false, Bool.true_and, if_true, Bool.false_and, Bool.false_eq_true, if_false]
    congr 1
    funext x
    simp only [Base.addBal, upd]
    by_cases h1 : x = t.snd <;> by_cases h2 : x = t.c <;> by_cases h3 : t.snd = t.c <;> simp_all <;> omega
  · simp only [hp, Bool.not_false, Bool.true_and, if_false, Bool.false_and, Bool.false_eq_true]
    congr 1
    funext x
    simp only [Base.addBal, upd]
    by_cases h1 : x = t.snd <;> simp_all; omega

/-- **failed_no_trace** (embedded): whatever the contract did before failing — any calls, an error returned by the
method, a panic, running out of gas at any point — the ledger afterwards is the prior ledger with only fee + tips
charged and nonce / epoch set -/
theorem failed_no_trace (t : TxIn) (b : Base) (trace : List ECall) (verdict : Bool)
    (hfail : (applyE t b trace verdict).2.success = false) :
    (applyE t b trace verdict).1 = failedPost t b (applyE t b trace verdict).2.gasUsed := by
  unfold applyE at hfail ⊢
  simp only at hfail ⊢
  have hs : (verdict && !(run { base := prePay t b, limit := gasLimit t } trace).dead) = false := hfail
  simp only [hs, Bool.false_eq_true, if_false]
  exact settle_failed t b _ _ _ _

/-- **success_all_applied** (embedded): on success the ledger is exactly the environment's final view — every balance the
buffers show, every contract as `Commit` writes it, every stored value — with the wrapper's charges on the sender -/
theorem success_all_applied (t : TxIn) (b : Base) (trace : List ECall) (verdict : Bool)
    (hok : (applyE t b trace verdict).2.success = true) :
    let e := run { base := prePay t b, limit := gasLimit t } trace
    let r := applyE t b trace verdict
    r.1.store = e.storeView ∧ r.1.con = e.conAfter ∧
    (∀ x, x ≠ t.snd → r.1.bal x = e.getBal x) ∧
    r.1.bal t.snd = e.getBal t.snd - (if !t.pay && (t.kind ≠ .terminate || t.u11) then (t.amt : Int) else 0) - r.2.fee - t.tips ∧
    r.1.nonce t.snd = t.nonce ∧ r.1.epoch t.snd = t.epoch := by
  unfold applyE at hok ⊢
  simp only at hok ⊢
  have hs : (verdict && !(run { base := prePay t b, limit := gasLimit t } trace).dead) = true := hok
  simp only [hs, if_true]
  unfold settle
  simp only [Bool.not_true, Bool.false_and, Bool.false_eq_true, if_false, Bool.true_and]
  refine ⟨?_, ?_, ?_, ?_, ?_, ?_⟩
  · split <;> rfl
  · split <;> rfl
  · intro x hx
    split <;> simp [Base.addBal, upd, hx, EEnv.commit]
  · split <;> simp [Base.addBal, upd, EEnv.commit] <;> omega
  · simp [upd]
  · simp [upd]


/-! ## No overspending, embedded contracts -/

/-- no balance and no contract stake of the ledger is negative -/
def Base.NonNeg (b : Base) : Prop := (∀ a, 0 ≤ b.bal a) ∧ (∀ a, 0 ≤ stakeOf (b.con a))

theorem prePay_nonneg (t : TxIn) (b : Base) (h : b.NonNeg) (hafford : (t.amt : Int) ≤ b.bal t.snd) : (prePay t b).NonNeg := by
  unfold prePay
  split
  · refine ⟨?_, h.2⟩
    intro a
    have := h.1 a; have := h.1 t.c
    simp only [Base.addBal, upd]
    split_ifs <;> simp_all; omega
  · exact h

/-- **send_no_overspend** (embedded): at every point of every execution (every prefix of every trace) every balance the
environment shows is non-negative — `Send` / `MoveToStake` refuse what the contract does not hold (`env.go:97, :354`),
`BurnAll` zeroes, `Terminate` adds half a non-negative stake.  In particular a contract never sends more than it has. -/
theorem send_no_overspend (t : TxIn) (b : Base) (h : b.NonNeg) (hafford : (t.amt : Int) ≤ b.bal t.snd)
    (trace pre : List ECall) (_hpre : pre <+: trace) :
    ∀ a, 0 ≤ (run { base := prePay t b, limit := gasLimit t } pre).getBal a := by
  have h1 := prePay_nonneg t b h hafford
  have h0 : ({ base := prePay t b, limit := gasLimit t } : EEnv).led.NonNeg := ⟨h1.1, h1.2⟩
  exact (run_nonneg _ pre h0).1

/-- the same for what reaches the ledger: if the sender can pay `amt + tips + maxFee` (the validation rule for contract
transactions, `validation.go:213`) and the fee bound holds, no balance is negative afterwards -/
theorem final_nonneg (t : TxIn) (b : Base) (h : b.NonNeg) (trace : List ECall) (verdict : Bool)
    (hown : ∀ c ∈ trace, ∀ a, c.actor = some a → a ≠ t.snd)
    (hafford : (t.amt + t.tips + t.maxFee : Nat) ≤ b.bal t.snd)
    (hfee : (applyE t b trace verdict).2.fee ≤ t.maxFee) :
    ∀ a, 0 ≤ (applyE t b trace verdict).1.bal a := by
  intro a
  have hpp := prePay_nonneg t b h (by omega)
  have h0 : ({ base := prePay t b, limit := gasLimit t } : EEnv).led.NonNeg := ⟨hpp.1, hpp.2⟩
  have hrun := (run_nonneg _ trace h0).1
  cases hs : (applyE t b trace verdict).2.success with
  | false =>
    rw [failed_no_trace t b trace verdict hs]
    unfold failedPost
    have hg : (applyE t b trace verdict).2.fee = t.txFee + gasCost t.fpg (applyE t b trace verdict).2.gasUsed := rfl
    have := h.1 a
    simp only [upd]
    split_ifs with hx
    · subst hx; omega
    · exact this
  | true =>
    obtain ⟨_, _, hoth, hsnd, _, _⟩ := success_all_applied t b trace verdict hs
    by_cases hx : a = t.snd
    · subst hx
      rw [hsnd]
      -- the environment's view of the sender: the prior balance (minus the pay amount) plus whatever contracts sent
      have hm : (prePay t b).bal t.snd ≤ (run { base := prePay t b, limit := gasLimit t } trace).getBal t.snd :=
        run_mono { base := prePay t b, limit := gasLimit t } trace t.snd hown h0
      have hpb : (prePay t b).bal t.snd ≥ b.bal t.snd - (if t.pay then (t.amt : Int) else 0) := by
        unfold prePay
        have := h.1 t.snd
        by_cases hp : t.pay = true
        · simp only [hp, if_true, Base.addBal, upd]
          by_cases hsc : t.snd = t.c
          · simp [hsc]
          · simp [hsc]
        · simp [hp]
      have hfe : ((applyE t b trace verdict).2.fee : Int) ≤ t.maxFee := by exact_mod_cast hfee
      have haf : ((t.amt : Int) + t.tips + t.maxFee) ≤ b.bal t.snd := by exact_mod_cast hafford
      by_cases hp : t.pay = true
      · simp only [hp, if_true] at hpb
        simp only [hp, Bool.not_true, Bool.false_and, Bool.false_eq_true, if_false]
        omega
      · simp only [hp, Bool.false_eq_true, if_false] at hpb
        have hamt : (0 : Int) ≤ t.amt := Int.natCast_nonneg _
        split_ifs <;> omega
    · rw [hoth a hx]; exact hrun a


/-! ## Conservation, embedded contracts -/

/-- what `vm.go` appends to the calls of the contract body (`vm.go:86-88` deploy, `:139-141` terminate) -/
inductive VmTail (t : TxIn) (b : Base) (dom : List Addr) (eb : EEnv) (verdict : Bool) : List ECall → Prop
  /-- a call: nothing -/
  | call : t.kind = .call → VmTail t b dom eb verdict []
  /-- a deployment: `env.Deploy(ctx)` with the transaction amount as stake, on a fresh address -/
  | deploy (code : Nat) : t.kind = .deploy → stakeOf (b.con t.c) = 0 → eb.stakeC t.c = none →
      VmTail t b dom eb verdict [.deploy t.c t.amt code]
  /-- a deployment whose body panicked (`env.Deploy` not reached) -/
  | deployPanicked : t.kind = .deploy → eb.dead = true → VmTail t b dom eb verdict []
  /-- a termination the contract agreed to: `env.Terminate(ctx, keys, dest)`; it carries no amount (validation from upgrade 11
  on), or the chain is before upgrade 11, where the amount of a termination is not debited (`blockchain.go:1697`) -/
  | terminate (dest : Addr) (keep : List Bytes) : t.kind = .terminate → (t.amt = 0 ∨ t.u11 = false) → dest ∈ dom → eb.stakeC t.c = none →
      VmTail t b dom eb verdict [.terminate t.c dest keep]
  /-- a termination the contract refused (or that panicked) -/
  | terminateRefused : t.kind = .terminate → (t.amt = 0 ∨ t.u11 = false) → (verdict = false ∨ eb.dead = true) → VmTail t b dom eb verdict []

/-- **value_conserved** (embedded): over any duplicate-free set of addresses containing the sender, the contract and every
address the calls name, balances + contract stakes change by exactly −(explicit burns) − fee − tips; nothing is created,
and nothing disappears except through `BurnAll` and the unrefunded half of a terminated contract's stake. -/
theorem value_conserved (dom : List Addr) (hn : dom.Nodup) (t : TxIn) (b : Base) (body fin : List ECall) (verdict : Bool)
    (hw : t.wasm = false) (hs : t.snd ∈ dom) (hc : t.c ∈ dom)
    (hbody : ∀ c ∈ body, c.isBody = true ∧ ∀ a ∈ c.addrs, a ∈ dom)
    (hfin : VmTail t b dom (run { base := prePay t b, limit := gasLimit t } body) verdict fin) :
    ledgerTotal dom (applyE t b (body ++ fin) verdict).1 =
      ledgerTotal dom b - (applyE t b (body ++ fin) verdict).2.burnt - (applyE t b (body ++ fin) verdict).2.fee - t.tips := by
  set e0 : EEnv := { base := prePay t b, limit := gasLimit t } with he0
  have hT := prePay_total dom hn t b hs hc
  have hinv0 : BodyInv dom (ledgerTotal dom b) e0 := ⟨⟨fun _ => rfl, fun _ => rfl⟩, by
    show Led.total dom e0.led + 0 = _
    rw [he0, total_init, hT]; ring, rfl⟩
  have hinv := run_body dom hn _ e0 body hbody hinv0
  set eb := run e0 body with heb
  unfold applyE
  simp only
  rw [← he0, run_append, ← heb]
  set ef := run eb fin with hef
  cases hsucc : (verdict && !ef.dead) with
  | false =>
    simp only [Bool.false_eq_true, if_false]
    rw [settle_total dom hn t _ _ _ _ _ _ hs hc, hT]
    simp [settle]
  | true =>
    simp only [if_true]
    rw [settle_total dom hn t _ _ _ _ _ _ hs hc, commit_total]
    have hfee : ∀ (b' : Base) (g ev : Nat) (bu mi : Int), ((settle t b' true g ev bu mi).2.fee : Int) = (t.txFee + gasCost t.fpg g : Nat) := fun _ _ _ _ _ => rfl
    have hbu : ∀ (b' : Base) (g ev : Nat) (bu mi : Int), (settle t b' true g ev bu mi).2.burnt = bu := fun _ _ _ _ _ => rfl
    rw [hfee, hbu]
    cases hfin with
    | call hk =>
      have : ef = eb := rfl
      rw [this]
      have hamt : (if (true && !t.pay && (decide (t.kind ≠ Kind.terminate) || t.u11)) = true then (t.amt : Int) else 0) = 0 := by
        unfold TxIn.pay
        simp only [hk, hw]
        by_cases h0 : t.amt > 0 <;> simp [h0]
        omega
      rw [hamt]
      have := hinv.tot
      omega
    | deploy code hk hfresh hstk =>
      have hef' : ef = (eb.step (.deploy t.c t.amt code)).1 := rfl
      have hl : ef.led = eb.led.step (.deploy t.c t.amt code) := by rw [hef']; exact step_deploy_led _ _ _ _
      have hbase : eb.led.base = prePay t b := by show eb.base = _; rw [heb, run_base]
      have hpay : t.pay = false := by unfold TxIn.pay; simp [hk, hw]
      have hcon : stakeOf (eb.led.base.con t.c) = 0 := by
        rw [hbase]; unfold prePay; rw [hpay]; exact hfresh
      obtain ⟨h1, _, h3⟩ := Led.step_total_deploy dom hn eb.led t.c t.amt code hinv.body hstk hc
      rw [hl, h1, hcon]
      have hb2 : ef.burnt = eb.burnt := by
        have : ef.burnt = (eb.led.step (.deploy t.c t.amt code)).burnt := congrArg Led.burnt hl
        rw [this, h3]; rfl
      rw [hb2]
      have hamt : (if (true && !t.pay && (decide (t.kind ≠ Kind.terminate) || t.u11)) = true then (t.amt : Int) else 0) = t.amt := by
        simp [hpay, hk]
      rw [hamt]
      have := hinv.tot
      omega
    | deployPanicked hk hdead =>
      have : ef = eb := rfl
      rw [this] at hsucc
      simp [hdead] at hsucc
    | terminate dest keep hk hamt0 hdest hstk =>
      have hef' : ef = (eb.step (.terminate t.c dest keep)).1 := rfl
      have hl : ef.led = eb.led.step (.terminate t.c dest keep) := by rw [hef']; exact step_terminate_led _ _ _ _
      obtain ⟨h1, _⟩ := Led.step_total_terminate dom hn eb.led t.c dest keep hinv.body hstk hc hdest
      have hb2 : ef.burnt = (eb.led.step (.terminate t.c dest keep)).burnt := congrArg Led.burnt hl
      rw [hl]
      rw [hb2]
      have hamt : (if (true && !t.pay && (decide (t.kind ≠ Kind.terminate) || t.u11)) = true then (t.amt : Int) else 0) = 0 := by
        rcases hamt0 with h0 | h0
        · simp [h0]
        · simp [hk, h0]
      rw [hamt]
      have := hinv.tot
      have hbb : eb.led.burnt = eb.burnt := rfl
      omega
    | terminateRefused hk hamt0 hv =>
      have : ef = eb := rfl
      rw [this] at hsucc
      rcases hv with hv | hv <;> simp [hv] at hsucc


/-- **no coins from nowhere** (embedded; corollary of `value_conserved`): the burnt amount a receipt stands for is
non-negative, so balances + stakes never grow by a contract transaction -/
theorem burnt_nonneg (t : TxIn) (b : Base) (h : b.NonNeg) (hafford : (t.amt : Int) ≤ b.bal t.snd)
    (trace : List ECall) (verdict : Bool) : 0 ≤ (applyE t b trace verdict).2.burnt := by
  unfold applyE settle
  simp only
  split
  · have hpp := prePay_nonneg t b h hafford
    exact run_burnt_mono { base := prePay t b, limit := gasLimit t } trace ⟨hpp.1, hpp.2⟩
  · exact Int.le_refl _


/-! ## Blocks: one VM object for all transactions of a block (`blockchain.go:1365 processTxs`, `:2158 filterTxs`) -/

/-- one embedded contract transaction of a block: the transaction, what the contract did, its verdict -/
structure ERun where
  t : TxIn
  trace : List ECall
  verdict : Bool

/-- the transactions of a block in order; each run gets a fresh environment over the ledger the previous one left
(`VmImpl.Run` resets the shared `EnvImp` before every run: `vm.go:186-187 gasCounter.Reset; env.Reset()`) -/
def applyBlockE (b : Base) : List ERun → Base
  | [] => b
  | x :: rest => applyBlockE (applyE x.t b x.trace x.verdict).1 rest

/-- **every run starts from empty buffers**: before its first call a run shows exactly the ledger it was started on —
no balance, stake, contract or stored value buffered by an earlier (failed) run of the same VM object -/
theorem run_starts_empty (b : Base) (l : Int) :
    ({ base := b, limit := l } : EEnv).getBal = b.bal ∧ ({ base := b, limit := l } : EEnv).storeView = b.store ∧
    ({ base := b, limit := l } : EEnv).conAfter = b.con ∧ ({ base := b, limit := l } : EEnv).events = 0 ∧
    ({ base := b, limit := l } : EEnv).gas = 0 :=
  ⟨rfl, rfl, rfl, rfl, rfl⟩

/-- **failed_no_trace inside a block**: whatever a failed transaction wrote into the environment's buffers, the rest of the
block runs exactly as on the prior ledger with that transaction's fee + tips charged and nonce / epoch set — nothing of
its trace reaches a later transaction of the same block -/
theorem block_failed_no_trace (b : Base) (x : ERun) (rest : List ERun)
    (hfail : (applyE x.t b x.trace x.verdict).2.success = false) :
    applyBlockE b (x :: rest) = applyBlockE (failedPost x.t b (applyE x.t b x.trace x.verdict).2.gasUsed) rest := by
  show applyBlockE (applyE x.t b x.trace x.verdict).1 rest = _
  rw [failed_no_trace x.t b x.trace x.verdict hfail]

open WEnv

/-! ## Wasm contracts -/

def w0 (t : TxIn) (b : Base) : WEnv := { base := prePay t b, stack := [WEnv.rootFrame (prePay t b) t.c] }

theorem applyW_eq (t : TxIn) (b : Base) (trace : List (Nat × WCall)) (verdict : Bool) (raw : Nat) :
    applyW t b trace verdict raw =
      settle t (WEnv.run (w0 t b) trace).base verdict (usedGasW raw (gasLimit t)) (WEnv.run (w0 t b) trace).rootEvents
        (WEnv.run (w0 t b) trace).burnt (WEnv.run (w0 t b) trace).mint := rfl

/-- **failed_no_trace** (wasm): a failed execution during which the root environment never committed leaves the prior
ledger with only fee + tips charged and nonce / epoch set — whatever the sub-environments did and committed to
their parents -/
theorem wasm_failed_no_trace (t : TxIn) (b : Base) (trace : List (Nat × WCall)) (raw : Nat)
    (hroot : (WEnv.run (w0 t b) trace).rootCommits = 0) :
    (applyW t b trace false raw).1 = failedPost t b (applyW t b trace false raw).2.gasUsed := by
  rw [applyW_eq]
  have hb : (WEnv.run (w0 t b) trace).base = prePay t b := run_base_of_no_root_commit (w0 t b) trace hroot
  rw [hb]
  exact settle_failed t b _ _ _ _

/-- the statement without the side condition -/
def wasm_failed_no_trace_statement : Prop :=
  ∀ (t : TxIn) (b : Base) (trace : List (Nat × WCall)) (raw : Nat),
    (applyW t b trace false raw).1.store = b.store

/-- … does not follow from the Go code: `WasmEnv.Commit` of the ROOT environment writes to the state
(`wasm_env.go:415-431`), and the binding calls it on the calling environment after every successful sub-call
(`callbacks.go:383 api.host.Commit()`), i.e. in the middle of the execution.  If the runtime then reports a failure,
`WasmVM.Run` does not commit again but nothing is rolled back.  (No such run was observed with the bundled contracts:
the wasm runtime is part of the trusted base for this half of the property.) -/
theorem wasm_failed_no_trace_needs_runtime : ¬ wasm_failed_no_trace_statement := by
  intro h
  have := h { kind := .call, wasm := true, snd := 1, c := 2, amt := 0, tips := 0, maxFee := 0, txFee := 0, fpg := 0 }
    { bal := fun _ => 0, con := fun _ => none, store := fun _ => none }
    [(1, .set "x6b" "x76"), (1, .commit)] 0
  have h2 := congrFun this (2, "x6b")
  revert h2
  decide


theorem w0_inv (dom : List Addr) (t : TxIn) (b : Base) (h : (prePay t b).NonNeg) (hc : t.c ∈ dom) :
    WInv dom (sumOver dom (prePay t b).bal) (fun a => stakeOf ((prePay t b).con a)) (w0 t b) := by
  refine ⟨?_, by simp [w0], h.1, fun _ => rfl⟩
  intro f hf
  simp only [w0, List.mem_singleton] at hf
  subst hf
  exact ⟨hc, by simp [rootFrame], h.1⟩

/-- **send_no_overspend** (wasm): at every point of every execution, in every live environment (nested ones included)
and in the state, no balance is negative: `SubBalance` / `Burn` refuse what the contract does not hold
(`wasm_env.go:172`), credits are non-negative. -/
theorem wasm_no_overspend (dom : List Addr) (hn : dom.Nodup) (t : TxIn) (b : Base) (h : b.NonNeg)
    (hafford : (t.amt : Int) ≤ b.bal t.snd) (hc : t.c ∈ dom)
    (trace pre : List (Nat × WCall)) (_hpre : pre <+: trace) (hok : ∀ p ∈ pre, WCall.ok dom p.2) :
    (∀ f ∈ (WEnv.run (w0 t b) pre).stack, ∀ a, 0 ≤ f.bal a) ∧ (∀ a, 0 ≤ (WEnv.run (w0 t b) pre).base.bal a) := by
  have hinv := run_inv dom hn _ _ (w0 t b) pre (w0_inv dom t b (prePay_nonneg t b h hafford) hc) hok
  exact ⟨fun f hf => (hinv.frames f hf).nn, hinv.nn⟩

/-- **value_conserved** (wasm): over any duplicate-free set of addresses containing sender, contract and every credited
address, balances + contract stakes change by exactly `mint − burnt − fee − tips`, where `mint` is the net amount the
host calls that reached the state created (`AddBalance` and sub-environment pay amounts minus `SubBalance`) and
`burnt` what `Burn` destroyed.  The Go code conserves value iff the runtime pairs its debits and credits (`mint = 0`):
that pairing is checked on every recorded execution (the `m0` token of the receipt line). -/
theorem wasm_value_conserved (dom : List Addr) (hn : dom.Nodup) (t : TxIn) (b : Base) (h : b.NonNeg)
    (hafford : (t.amt : Int) ≤ b.bal t.snd) (hs : t.snd ∈ dom) (hc : t.c ∈ dom) (hwasm : t.wasm = true)
    (trace : List (Nat × WCall)) (verdict : Bool) (raw : Nat) (hok : ∀ p ∈ trace, WCall.ok dom p.2) :
    ledgerTotal dom (applyW t b trace verdict raw).1 =
      ledgerTotal dom b + (applyW t b trace verdict raw).2.mint - (applyW t b trace verdict raw).2.burnt
        - (applyW t b trace verdict raw).2.fee - t.tips := by
  have hinv := run_inv dom hn _ _ (w0 t b) trace (w0_inv dom t b (prePay_nonneg t b h hafford) hc) hok
  rw [applyW_eq]
  set w := WEnv.run (w0 t b) trace
  rw [settle_total dom hn t _ _ _ _ _ _ hs hc]
  have hfee : ∀ (b' : Base) (s : Bool) (g ev : Nat) (bu mi : Int),
      ((settle t b' s g ev bu mi).2.fee : Int) = (t.txFee + gasCost t.fpg g : Nat) ∧ (settle t b' s g ev bu mi).2.burnt = bu ∧
      (settle t b' s g ev bu mi).2.mint = mi := fun _ _ _ _ _ _ => ⟨rfl, rfl, rfl⟩
  rw [(hfee _ _ _ _ _ _).1, (hfee _ _ _ _ _ _).2.1, (hfee _ _ _ _ _ _).2.2]
  have htot : ledgerTotal dom w.base = ledgerTotal dom (prePay t b) + w.mint - w.burnt := by
    unfold ledgerTotal
    rw [hinv.tot]
    have : sumOver dom (fun a => stakeOf (w.base.con a)) = sumOver dom (fun a => stakeOf ((prePay t b).con a)) :=
      sumOver_congr dom _ _ (fun a _ => hinv.stakes a)
    rw [this]; ring
  rw [htot, prePay_total dom hn t b hs hc]
  have hamt : (if (verdict && !t.pay && (decide (t.kind ≠ Kind.terminate) || t.u11)) = true then (t.amt : Int) else 0) = 0 := by
    unfold TxIn.pay
    by_cases h0 : t.amt > 0
    · simp [h0, hwasm]
    · have : t.amt = 0 := by omega
      simp [this]
  rw [hamt]; ring


/-- **success_all_applied** (wasm): the final `InternalCommit` of the root environment (`wasm/vm.go:90-92`) makes the
state equal to the root environment's view: every balance, every stored value, the code of every deployed contract —
including everything sub-environments committed into it -/
theorem wasm_success_all_applied (t : TxIn) (b : Base) (tr : List (Nat × WCall)) (raw : Nat) (f : Frame)
    (hroot : popTo 1 (WEnv.run (w0 t b) tr).stack = [f]) :
    let r := applyW t b (tr ++ [(1, .commit)]) true raw
    r.1.store = f.store ∧
    (∀ a, (r.1.con a).map (·.code) = match f.code a with | some c => some c | none => ((WEnv.run (w0 t b) tr).base.con a).map (·.code)) ∧
    (∀ x, x ≠ t.snd → r.1.bal x = f.bal x) ∧
    r.1.bal t.snd = f.bal t.snd - (if !t.pay && (t.kind ≠ .terminate || t.u11) then (t.amt : Int) else 0) - r.2.fee - t.tips := by
  simp only
  rw [applyW_eq, WEnv.run_append]
  set w := WEnv.run (w0 t b) tr with hw
  have hcts : w.commitToState = true := by rw [hw, run_cts]; rfl
  have hstep : (WEnv.run w [(1, WCall.commit)]).base =
      { w.base with bal := f.bal, store := f.store, keys := f.storeKeys ++ w.base.keys,
                    con := fun a => match f.code a with
                      | some c => some ⟨stakeOf (w.base.con a), c⟩
                      | none => w.base.con a } := by
    simp only [WEnv.run, WEnv.step, WEnv.stepTop, hroot, commitTop, hcts, if_true]
    rfl
  rw [hstep]
  unfold settle
  simp only [Bool.not_true, Bool.false_and, Bool.false_eq_true, if_false, Bool.true_and]
  refine ⟨?_, ?_, ?_, ?_⟩
  · split <;> rfl
  · intro a
    split <;> (simp only [Base.addBal]; cases f.code a <;> rfl)
  · intro x hx
    split <;> simp [Base.addBal, upd, hx]
  · split <;> simp [Base.addBal, upd] <;> omega


/-! ## Non-vacuity: the hypotheses of the conservation theorems are satisfiable by real-shaped executions -/

/-- a TimeLock-like call: the contract (2) sends 5 coins to 3, with a pay amount of 7 from the sender (1) -/
example :
    let t : TxIn := { kind := .call, wasm := false, snd := 1, c := 2, amt := 7, tips := 1, maxFee := 1000, txFee := 10, fpg := 1 }
    let b : Base := { bal := fun a => if a = 1 then 5000 else 0, con := fun a => if a = 2 then some ⟨300, 1⟩ else none, store := fun _ => none }
    let r := applyE t b ([.bal 2, .send 2 3 5] ++ []) true
    r.2.success = true ∧ r.2.gasUsed = 35 ∧ r.1.bal 1 = 5000 - 7 - 45 - 1 ∧ r.1.bal 2 = 2 ∧ r.1.bal 3 = 5 := by decide

/-- a termination: half of the stake (301) goes to 3, the other half (151, rounded up) is the explicit burn -/
example :
    let t : TxIn := { kind := .terminate, wasm := false, snd := 1, c := 2, amt := 0, tips := 0, maxFee := 1000, txFee := 10, fpg := 1 }
    let b : Base := { bal := fun a => if a = 1 then 5000 else 0, con := fun a => if a = 2 then some ⟨301, 1⟩ else none, store := fun _ => none }
    let r := applyE t b ([] ++ [.terminate 2 3 []]) true
    r.2.success = true ∧ r.2.burnt = 151 ∧ r.1.bal 3 = 150 ∧ r.1.con 2 = none := by decide

/-- before upgrade 11 (`u11 := false`) a successful termination carrying an amount does not debit it: the sender pays
the fee only (10 + 0 gas), half the stake goes to 3 -/
example :
    let t : TxIn := { kind := .terminate, wasm := false, snd := 1, c := 2, amt := 5000, tips := 0, maxFee := 1000, txFee := 10, fpg := 1, u11 := false }
    let b : Base := { bal := fun a => if a = 1 then 9000 else 0, con := fun a => if a = 2 then some ⟨300, 1⟩ else none, store := fun _ => none }
    let r := applyE t b ([] ++ [.terminate 2 3 []]) true
    r.2.success = true ∧ r.1.bal 1 = 9000 - 10 ∧ r.1.bal 3 = 150 ∧ r.2.burnt = 150 := by decide

/-- a nested wasm execution: the root (contract 2) pays 4 coins into a sub-call of contract 3, which commits -/
example :
    let t : TxIn := { kind := .call, wasm := true, snd := 1, c := 2, amt := 9, tips := 0, maxFee := 1000, txFee := 10, fpg := 1 }
    let b : Base := { bal := fun a => if a = 1 then 5000 else 0, con := fun a => if a = 2 ∨ a = 3 then some ⟨0, 100⟩ else none, store := fun _ => none }
    let r := applyW t b [(1, .sub 4), (1, .subenv 3 4), (2, .set "x6b" "x76"), (2, .commit), (1, .commit), (1, .commit)] true 700
    r.2.success = true ∧ r.2.mint = 0 ∧ r.2.gasUsed = 7 ∧ r.1.bal 2 = 5 ∧ r.1.bal 3 = 4 ∧ r.1.store (3, "x6b") = some "x76" := by decide

end IdenaModel.ContractEnv
