import IdenaModel.Proofs.LedgerTotal
import IdenaModel.Props.C05
/-!
# C06 (transaction level) — a transaction is applied only as the signer's next one of the current epoch,
and never twice

* `apply_needs_next`: `applyTxOnState` succeeds only if `tx.epoch` is the current epoch and `tx.nonce` is the
  signer's current nonce (0 when its account was last used in an earlier epoch) plus one — in `uint32`
  arithmetic, as in the Go code; `apply_needs_next_nowrap` is the statement without the wrap-around for accounts
  below `2³² − 1` transactions in the epoch (`NoWrap`).
* `apply_sets_nonce`: afterwards the signer's counters are `(tx.nonce, tx.epoch)`, nobody else's counters and
  not the global epoch change.
* `curNonce_mono`: the current nonce of every account never decreases under any applied transaction.
* `replay_rejected_tx` / `replay_rejected_later_epoch`: in any later state of the same epoch in which the
  signer's current nonce is at least `tx.nonce`, and in any state of a later epoch, both `applyTxOnState` and
  `ValidateTx` (all three modes) refuse the transaction; `replay_after_steps` discharges the "later state"
  hypothesis for every state reachable by applying further transactions.
* `EpochInv` (`account epoch ≤ global epoch`) is preserved by `applyTx`.
-/
namespace IdenaModel.Ledger
open State

/-- the signer's counter does not wrap around `uint32` (fewer than `2³² − 1` transactions per epoch) -/
def NoWrap (s : State) (a : Nat) : Prop := curNonce s a + 1 < 2 ^ 32

theorem apply_needs_next {c : Cfg} {s s' : State} {tx : Tx} {fee : Int} (h : applyTx c s tx = .ok s' fee) :
    tx.epoch = s.g.epoch ∧ tx.nonce = (curNonce s tx.sender + 1) % 2 ^ 32 := by
  obtain ⟨h1, h2, -⟩ := applyTx_ok h
  exact ⟨h1, h2.symm⟩

theorem apply_needs_next_nowrap {c : Cfg} {s s' : State} {tx : Tx} {fee : Int} (h : applyTx c s tx = .ok s' fee)
    (hw : NoWrap s tx.sender) : tx.epoch = s.g.epoch ∧ tx.nonce = curNonce s tx.sender + 1 := by
  obtain ⟨h1, h2⟩ := apply_needs_next h
  refine ⟨h1, ?_⟩
  unfold NoWrap at hw
  rw [h2, Nat.mod_eq_of_lt hw]

theorem apply_sets_nonce {c : Cfg} {s s' : State} {tx : Tx} {fee : Int} (h : applyTx c s tx = .ok s' fee) :
    (s'.am tx.sender).nonce = tx.nonce ∧ (s'.am tx.sender).epoch = tx.epoch ∧ s'.g.epoch = s.g.epoch ∧
    (∀ a, a ≠ tx.sender → s'.am a = s.am a) ∧ curNonce s' tx.sender = tx.nonce := by
  obtain ⟨h1, -, s1, hk, -, rfl⟩ := applyTx_ok h
  have hg : (finish tx s1 fee).g.epoch = s.g.epoch := by
    rw [finish_g, hk.epoch]
    have : ∀ (c : Cfg) (s : State) (tx : Tx), (fundsEffect c s tx).g.epoch = s.g.epoch := by
      intro c s tx
      have hw : ∀ ca, (contractWrapper c s tx ca).g = s.g := by
        intro ca; unfold contractWrapper; simp only []
        repeat' split
        all_goals simp
      cases ht : tx.type <;> cases hto : tx.to <;> simp only [fundsEffect, ht, hto] <;>
        (try split) <;> simp [hw]
    exact this c s tx
  refine ⟨by simp [finish_am], by simp [finish_am], hg, fun a ha => ?_, ?_⟩
  · rw [finish_am, if_neg ha, hk.am]
    have : ∀ (c : Cfg) (s : State) (tx : Tx), (fundsEffect c s tx).ameta = s.ameta := by
      intro c s tx
      have hw : ∀ ca, (contractWrapper c s tx ca).ameta = s.ameta := by
        intro ca; unfold contractWrapper; simp only []
        repeat' split
        all_goals simp
      cases ht : tx.type <;> cases hto : tx.to <;> simp only [fundsEffect, ht, hto] <;>
        (try split) <;> simp [hw]
    simp [State.am, this]
  · unfold curNonce
    rw [hg]
    simp [finish_am, h1]

/-- the per-account replay invariant: an account's epoch is never ahead of the global epoch -/
def EpochInv (s : State) : Prop := ∀ a, (s.am a).epoch ≤ s.g.epoch

theorem applyTx_epochInv {c : Cfg} {s s' : State} {tx : Tx} {fee : Int} (hE : EpochInv s)
    (h : applyTx c s tx = .ok s' fee) : EpochInv s' := by
  obtain ⟨h1, h2, h3, h4, -⟩ := apply_sets_nonce h
  obtain ⟨h5, -⟩ := apply_needs_next h
  intro a
  by_cases ha : a = tx.sender
  · subst ha; rw [h2, h3, h5]; exact Nat.le_refl _
  · rw [h4 a ha, h3]; exact hE a

/-- **monotonicity**: under any applied transaction the current nonce of every account stays or grows -/
theorem curNonce_mono {c : Cfg} {s s' : State} {tx : Tx} {fee : Int} (h : applyTx c s tx = .ok s' fee)
    (hw : NoWrap s tx.sender) (a : Nat) : curNonce s a ≤ curNonce s' a := by
  obtain ⟨-, -, h3, h4, h5⟩ := apply_sets_nonce h
  obtain ⟨-, h7⟩ := apply_needs_next_nowrap h hw
  by_cases ha : a = tx.sender
  · subst ha; omega
  · unfold curNonce; rw [h4 a ha, h3]; exact Nat.le_refl _

/-- `applyTxOnState` refuses a transaction whose nonce is not above the signer's current nonce -/
theorem apply_rejects_old_nonce {c : Cfg} {s2 : State} {tx : Tx} (hn : tx.nonce ≤ curNonce s2 tx.sender)
    (hw : NoWrap s2 tx.sender) : ∀ s' fee, applyTx c s2 tx ≠ .ok s' fee := by
  intro s' fee h
  obtain ⟨-, h2⟩ := apply_needs_next_nowrap h hw
  omega

/-- `ValidateTx` (any mode) refuses it as well -/
theorem validate_rejects_old_nonce {c : Cfg} {s2 : State} {tx : Tx} {mode : Mode} {m : Nat}
    (hE : EpochInv s2) (he : tx.epoch = s2.g.epoch) (hn : tx.nonce ≤ curNonce s2 tx.sender) (h1 : 1 ≤ tx.nonce) :
    validateTx c s2 tx mode m ≠ .ok := by
  intro h
  have hc := validate_common h
  apply hc.nonce
  unfold curNonce at hn
  have := hE tx.sender
  split at hn
  · omega
  · exact ⟨hn, by omega, he⟩

/-- **no replay within the epoch**: once `tx` has been applied in state `s`, every state `s2` of the same epoch
whose current nonce for the signer is at least `tx.nonce` refuses `tx`, at application and at validation -/
theorem replay_rejected_tx {c : Cfg} {s s' s2 : State} {tx : Tx} {fee : Int} {mode : Mode} {m : Nat}
    (h : applyTx c s tx = .ok s' fee) (hw : NoWrap s tx.sender)
    (hE2 : EpochInv s2) (he2 : s2.g.epoch = s.g.epoch) (hn2 : tx.nonce ≤ curNonce s2 tx.sender)
    (hw2 : NoWrap s2 tx.sender) :
    (∀ s3 fee3, applyTx c s2 tx ≠ .ok s3 fee3) ∧ validateTx c s2 tx mode m ≠ .ok := by
  obtain ⟨h1, h2⟩ := apply_needs_next_nowrap h hw
  exact ⟨apply_rejects_old_nonce hn2 hw2, validate_rejects_old_nonce hE2 (by omega) hn2 (by omega)⟩

/-- in particular the state right after the application refuses it -/
theorem replay_rejected_immediately {c : Cfg} {s s' : State} {tx : Tx} {fee : Int} {mode : Mode} {m : Nat}
    (h : applyTx c s tx = .ok s' fee) (hw : NoWrap s tx.sender) (hE : EpochInv s) (hw' : NoWrap s' tx.sender) :
    (∀ s3 fee3, applyTx c s' tx ≠ .ok s3 fee3) ∧ validateTx c s' tx mode m ≠ .ok := by
  obtain ⟨-, -, h3, -, h5⟩ := apply_sets_nonce h
  exact replay_rejected_tx h hw (applyTx_epochInv hE h) h3 (by omega) hw'

/-- **no replay after an epoch change**: a state of a later epoch refuses `tx` by the epoch tests -/
theorem replay_rejected_later_epoch {c : Cfg} {s2 : State} {tx : Tx} {mode : Mode} {m : Nat}
    (he : tx.epoch < s2.g.epoch) :
    (∀ s3 fee3, applyTx c s2 tx ≠ .ok s3 fee3) ∧ validateTx c s2 tx mode m ≠ .ok := by
  constructor
  · intro s3 fee3 h; have := (apply_needs_next h).1; omega
  · intro h; have := (validate_common h).epoch; omega

/-- states reachable by applying further transactions (each below the `uint32` wrap) -/
inductive Steps (c : Cfg) : State → State → Prop
  | refl (s) : Steps c s s
  | step {s s1 s2 : State} {tx : Tx} {fee : Int} : Steps c s s1 → NoWrap s1 tx.sender →
      applyTx c s1 tx = .ok s2 fee → Steps c s s2

theorem Steps.mono {c : Cfg} {s s2 : State} (h : Steps c s s2) :
    s2.g.epoch = s.g.epoch ∧ (EpochInv s → EpochInv s2) ∧ ∀ a, curNonce s a ≤ curNonce s2 a := by
  induction h with
  | refl => exact ⟨rfl, id, fun _ => Nat.le_refl _⟩
  | step _ hw ha ih =>
    obtain ⟨i1, i2, i3⟩ := ih
    exact ⟨(apply_sets_nonce ha).2.2.1.trans i1, fun hE => applyTx_epochInv (i2 hE) ha,
      fun a => Nat.le_trans (i3 a) (curNonce_mono ha hw a)⟩

/-- **no replay at any later point of the epoch**: after `tx` was applied, whatever transactions are applied
next, `tx` is refused again -/
theorem replay_after_steps {c : Cfg} {s s' s2 : State} {tx : Tx} {fee : Int} {mode : Mode} {m : Nat}
    (h : applyTx c s tx = .ok s' fee) (hw : NoWrap s tx.sender) (hE : EpochInv s)
    (hs : Steps c s' s2) (hw2 : NoWrap s2 tx.sender) :
    (∀ s3 fee3, applyTx c s2 tx ≠ .ok s3 fee3) ∧ validateTx c s2 tx mode m ≠ .ok := by
  obtain ⟨-, -, h3, -, h5⟩ := apply_sets_nonce h
  obtain ⟨m1, m2, m3⟩ := hs.mono
  exact replay_rejected_tx h hw (m2 (applyTx_epochInv hE h)) (m1.trans h3) (by have := m3 tx.sender; omega) hw2

/-! ### at the wrap-around the statement fails (why `NoWrap` is a hypothesis) -/

/-- an account at nonce `2³² − 1` accepts nonce 0 next, and its counter restarts -/
theorem nonce_wraps_at_uint32 :
    (applyTx {} { ameta := [(1, { nonce := 4294967295, epoch := 0 })], afunds := [(1, { balance := 5 })] }
      { type := .send, sender := 1, to := some 2, amount := 1, nonce := 0, epoch := 0 }).result.map
      (fun p => (p.1.am 1).nonce) = some 0 := by decide

/-! ### non-vacuity -/
example : (applyTx exCfg exState { type := .send, sender := 1, to := some 2, amount := 100, maxFee := 50, nonce := 1, epoch := 3, gas := 2 }).result.map
    (fun p => ((p.1.am 1).nonce, (p.1.am 1).epoch, curNonce p.1 1)) = some (1, 3, 1) := by decide
example : NoWrap exState 1 := by unfold NoWrap; decide
example : EpochInv exState := by
  intro a
  simp [exState, State.am, AMap.get, default]

end IdenaModel.Ledger
