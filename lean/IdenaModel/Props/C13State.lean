import IdenaModel.Props.C13
import IdenaModel.Model.Versioned

/-! ## state level: versions, read-only views, speculative views -/
namespace IdenaModel.Store

theorem write_versions (s : VStore) (b : BOp) : (s.write b).versions = s.versions := rfl
theorem writes_versions (s : VStore) (ws : List BOp) : (ws.foldl VStore.write s).versions = s.versions := by
  induction ws generalizing s with
  | nil => rfl
  | cons w ws ih => simp [List.foldl_cons, ih, write_versions]
theorem writes_keep (s : VStore) (ws : List BOp) : (ws.foldl VStore.write s).keep = s.keep := by
  induction ws generalizing s with
  | nil => rfl
  | cons w ws ih => simp only [List.foldl_cons, ih]; rfl

/-- **readonly_exact (one step)**: right after a commit, the view of the new version is exactly the working tree
that was committed -/
theorem at_commit_self (s : VStore) (hk : 0 < s.keep) : s.commit.at (s.version + 1) = some s.working := by
  unfold VStore.commit VStore.at
  cases hkk : s.keep with
  | zero => omega
  | succ n => simp [List.take]

/-- heights of saved versions are strictly decreasing (newest first) -/
def Desc (s : VStore) : Prop := s.versions.Pairwise (fun a b => b.1 < a.1)

theorem desc_commit {s : VStore} (h : Desc s) : Desc s.commit := by
  unfold Desc VStore.commit at *
  apply List.Pairwise.sublist (List.take_sublist _ _)
  refine List.pairwise_cons.mpr ⟨?_, h⟩
  intro a ha
  unfold VStore.version
  cases hv : s.versions with
  | nil => simp [hv] at ha
  | cons x xs =>
    simp only
    rw [hv] at ha h
    rcases List.mem_cons.mp ha with e | e
    · subst e; omega
    · have := (List.pairwise_cons.mp h).1 a e; omega

theorem desc_writes {s : VStore} (h : Desc s) (ws : List BOp) : Desc (ws.foldl VStore.write s) := by
  unfold Desc at *; rw [writes_versions]; exact h

theorem find_of_mem_desc (l : List (Nat × KV)) (hd : l.Pairwise (fun a b => b.1 < a.1)) (p : Nat × KV)
    (hp : p ∈ l) : l.find? (·.1 == p.1) = some p := by
  induction l with
  | nil => simp at hp
  | cons x xs ih =>
    have hx := List.pairwise_cons.mp hd
    simp only [List.find?_cons]
    rcases List.mem_cons.mp hp with e | e
    · subst e; simp
    · have hlt := hx.1 p e
      have : (x.1 == p.1) = false := by simp; omega
      simp only [this]
      exact ih hx.2 e

/-- **readonly_exact**: a later commit does not change what an older retained version returns: if `h'` is still
retained after the commit, its content is what it was before -/
theorem at_commit_older (s : VStore) (hd : Desc s) (h' : Nat) (c : KV) (hr : s.commit.at h' = some c)
    (hne : h' ≠ s.version + 1) : s.at h' = some c := by
  unfold VStore.at VStore.commit at *
  simp only [Option.map_eq_some_iff] at *
  obtain ⟨p, hp, rfl⟩ := hr
  have hmem := List.mem_of_find?_eq_some hp
  have hpk := List.find?_some hp
  simp at hpk
  have hmem' : p ∈ (s.version + 1, s.working) :: s.versions := List.mem_of_mem_take hmem
  rcases List.mem_cons.mp hmem' with e | e
  · subst e; simp at hpk; omega
  · exact ⟨p, by rw [← hpk]; exact find_of_mem_desc _ hd p e, rfl⟩

/-- **retention**: never more than `keep` versions are stored -/
theorem retention_commit (s : VStore) : s.commit.versions.length ≤ s.keep := by
  unfold VStore.commit; simp [List.length_take]; omega

/-- **view_isolated**: whatever is done on a speculative view of any version — reads, writes, deletes, batches,
iterations — the stored version it was opened on is untouched (the view never writes its base), and the canonical
store is a different value altogether. -/
theorem view_isolated (s : VStore) (h : Nat) (o : Overlay) (ho : s.forCheck h = some o) (ops : List Op) :
    some (ops.foldl (fun o op => (o.step op).1) o).perm = s.at h := by
  unfold VStore.forCheck at ho
  cases hat : s.at h with
  | none => simp [hat] at ho
  | some base =>
    simp [hat] at ho; subst ho
    simp [overlay_perm_unchanged_run, Overlay.init]

/-- a speculative view answers like an ordinary store pre-loaded with the version it was opened on -/
theorem view_refines (s : VStore) (h : Nat) (o : Overlay) (base : KV) (hb : s.at h = some base) (hs : Sorted base)
    (ho : s.forCheck h = some o) (ops : List Op) : o.run ops = plainRun base ops := by
  unfold VStore.forCheck at ho; simp [hb] at ho; subst ho
  exact overlay_refines base hs ops

example : ((VStore.init 2).applyBlocks [[.set 1 "a"], [.set 2 "b"], [.del 1]]).at 2 = some [(1, "a"), (2, "b")] := by decide
example : ((VStore.init 2).applyBlocks [[.set 1 "a"], [.set 2 "b"], [.del 1]]).at 1 = none := by decide


/-! ### abandoned block attempts: `Reset` -/

/-- **reset_discards**: whatever was written into the canonical working tree since the last commit, a `Reset` brings
back exactly what a `Reset` without those writes gives — nothing of an abandoned attempt stays visible, neither to
point reads nor to range iteration (`iter` is the whole working content). -/
theorem reset_discards (s : VStore) (ws : List BOp) :
    ((ws.foldl VStore.write s).reset).iter = s.reset.iter := by
  unfold VStore.reset VStore.iter
  simp only [writes_versions]

/-- **reset_is_last_commit**: after a commit (retention ≥ 1) a `Reset` — with or without writes in between — shows
exactly the committed content -/
theorem reset_is_last_commit (s : VStore) (hk : 0 < s.keep) (ws : List BOp) :
    ((ws.foldl VStore.write s.commit).reset).iter = s.working := by
  rw [reset_discards]
  unfold VStore.reset VStore.iter VStore.commit
  cases hkk : s.keep with
  | zero => omega
  | succ n => simp [List.take]

/-- a `Reset` never touches the saved versions -/
theorem reset_versions (s : VStore) : s.reset.versions = s.versions := rfl

/-- non-vacuity: a committed store, an abandoned attempt (a write and a delete), a reset -/
def resetDemo : VStore := (VStore.write (VStore.write (VStore.init 3) (.set 2 "b")).commit (.set 1 "a")).write (.del 2)
example : resetDemo.iter = [(1, "a")] ∧ resetDemo.reset.iter = [(2, "b")] := by decide

/-! ### rollback of committed versions (`AppState.ResetTo`) -/

/-- after a rollback to `h` the working tree is the version `h` … -/
theorem resetTo_working (s s' : VStore) (h : Nat) (hr : s.resetTo h = some s') : s.at h = some s'.working := by
  unfold VStore.resetTo at hr
  cases ha : s.at h with
  | none => simp [ha] at hr
  | some m => simp [ha] at hr; rw [← hr]

/-- … the versions up to `h` read as before … -/
theorem resetTo_at_le (s s' : VStore) (h h' : Nat) (hr : s.resetTo h = some s') (hle : h' ≤ h) : s'.at h' = s.at h' := by
  unfold VStore.resetTo at hr
  cases ha : s.at h with
  | none => simp [ha] at hr
  | some m =>
    simp [ha] at hr; rw [← hr]
    unfold VStore.at
    simp only [List.find?_filter]
    have hf : (fun a : Nat × KV => decide (decide (a.1 ≤ h) = true ∧ (a.1 == h') = true)) = (fun a => a.1 == h') := by
      funext v
      by_cases hv : v.1 = h'
      · simp [hv, hle]
      · simp [hv]
    rw [hf]

/-- … and no version above `h` is left: what the abandoned blocks had saved cannot be read any more, at any height -/
theorem resetTo_at_gt (s s' : VStore) (h h' : Nat) (hr : s.resetTo h = some s') (hgt : h < h') : s'.at h' = none := by
  unfold VStore.resetTo at hr
  cases ha : s.at h with
  | none => simp [ha] at hr
  | some m =>
    simp [ha] at hr; rw [← hr]
    unfold VStore.at
    simp only [List.find?_filter, Option.map_eq_none_iff, List.find?_eq_none]
    intro v _
    by_cases hv : v.1 = h'
    · simp [hv]; omega
    · simp [hv]

/-- a rollback keeps the version list descending and within the retention -/
theorem desc_resetTo {s s' : VStore} (hd : Desc s) (h : Nat) (hr : s.resetTo h = some s') : Desc s' := by
  unfold VStore.resetTo at hr
  cases ha : s.at h with
  | none => simp [ha] at hr
  | some m =>
    simp [ha] at hr; rw [← hr]
    exact List.Pairwise.sublist List.filter_sublist hd

/-- **another block at an abandoned height**: after a rollback to `h`, new writes and a commit, the height above the new
head shows the new block (`h` being the head then needs `h` retained and the list descending) -/
theorem resetTo_then_commit (s s' : VStore) (h : Nat) (hk : 0 < s.keep) (hr : s.resetTo h = some s') (ws : List BOp) :
    ((ws.foldl VStore.write s').commit).at ((ws.foldl VStore.write s').version + 1) =
      some (ws.foldl VStore.write s').working := by
  have hk' : 0 < (ws.foldl VStore.write s').keep := by
    rw [writes_keep]
    unfold VStore.resetTo at hr
    cases ha : s.at h with
    | none => simp [ha] at hr
    | some m => simp [ha] at hr; rw [← hr]; exact hk
  exact at_commit_self _ hk'

end IdenaModel.Store
