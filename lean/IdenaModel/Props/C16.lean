import IdenaModel.Proofs.Lottery
/-!
# C16 — the flip lottery is deterministic, in range, duplicate-free; keys reach solvers

Everything is about `lottery fl q p1 p2 p3` (`Model/Lottery.lean`): the lottery of one shard whose candidates
submitted `fl[i]` flips, with short-session quota `q`, for ARBITRARY permutation streams `p1 p2 p3` (what Go's
`math/rand` delivers is an input; the correspondence run feeds the streams derived from the lottery seed exactly as
`lottery.go:299,88,155` derive them).  `h : lottery … = .ok r` is not a restriction: `lottery_total` shows that the
only other outcome is `badInput`, `lottery_ok_of_valid_streams` that `badInput` needs a stream `rand.Perm` cannot
produce (wrong length, entry out of range, too few permutations); in particular the code never panics
(`lottery_ne_panic`) and the recursion measures suffice (`lottery_ne_fuel`).

Two theorems need named hypotheses:
* `hsize : p3.length * q < 999999` — `getMinUsedAuthor` (lottery.go:159) starts its minimum search at the literal
  `999999`; an author used that often would be skipped.  `p3.length` is the number of candidates.
* `hperm : ∀ c < n, c ∈ p3` — the law of `rand.Perm(n)` actually used: it hits every candidate.
* `recipient_decrypts` / `nonrecipient_cannot_decrypt`: the ECIES laws `henc` (decrypting with the right key gives the
  plaintext back) and `hwrong` (decrypting with another candidate's key fails).
-/
namespace IdenaModel.Lottery

variable {fl : List Nat} {q : Nat} {p1 p2 : List (List Nat)} {p3 : List Nat} {r : Result}

/-- the facts that hold for every `ok` result, whatever the streams -/
theorem lottery_facts (h : lottery fl q p1 p2 p3 = .ok r) :
    MapsInv fl.length (IsAuthor fl) r.apc r.cpa ∧
    ∃ long0 : List (List Nat),
      distLoop fl r.apc q p3 (List.replicate fl.length 0) (List.replicate fl.length 0)
        (List.replicate fl.length []) (List.replicate fl.length []) = .ok (r.short, long0) ∧
      r.long = long0.map (placeholder fl.sum) ∧ r.short.length = fl.length ∧ long0.length = fl.length ∧
      ∀ c, Sound fl q (look r.short c) (look long0 c) := by
  obtain ⟨ha, long0, hd, hl⟩ := lottery_inv h
  have hinv : MapsInv fl.length (IsAuthor fl) r.apc r.cpa := by
    rcases authorsDistribution_spec fl q p1 p2 with hb | ⟨apc, cpa, e, hi⟩
    · rw [hb] at ha; cases ha
    · rw [e] at ha
      simp only [Res.ok.injEq, Prod.mk.injEq] at ha
      obtain ⟨rfl, rfl⟩ := ha
      exact hi
  obtain ⟨l1, l2, hs⟩ := distLoop_sound _ _ _ _ _ _ _ hd (by
    intro c; rw [look_replicate]; exact Sound.nil fl q)
  exact ⟨hinv, long0, hd, hl, by simpa using l1, by simpa using l2, hs⟩

theorem look_long (_h : lottery fl q p1 p2 p3 = .ok r) {long0 : List (List Nat)}
    (hl : r.long = long0.map (placeholder fl.sum)) (hlen : long0.length = fl.length) (c : Nat) :
    look r.long c = if c < fl.length then placeholder fl.sum (look long0 c) else [] := by
  rw [hl, look_map, hlen]

/-! ## the lists -/

/-- only existing flips are assigned -/
theorem flips_in_range (h : lottery fl q p1 p2 p3 = .ok r) (c f : Nat)
    (hf : f ∈ look r.short c ∨ f ∈ look r.long c) : f < fl.sum := by
  obtain ⟨_, long0, _, hl, _, hlen, hs⟩ := lottery_facts h
  rcases hf with hf | hf
  · exact (hs c).2.2.2.1 f hf
  · rw [look_long h hl hlen] at hf
    split at hf
    · unfold placeholder at hf
      split at hf
      · rename_i hp; simp at hf; omega
      · exact (hs c).2.2.2.2 f hf
    · simp at hf

/-- a shard without flips assigns nothing, neither in the distribution nor in what clients are told to solve -/
theorem none_when_no_flips (h : lottery fl q p1 p2 p3 = .ok r) (h0 : fl.sum = 0) (c : Nat) :
    look r.short c = [] ∧ look r.long c = [] ∧ flipsToSolve fl r.short c = [] ∧ flipsToSolve fl r.long c = [] := by
  have hs : look r.short c = [] := by
    cases hl : look r.short c with
    | nil => rfl
    | cons f t => have := flips_in_range h c f (Or.inl (by simp [hl])); omega
  have hl : look r.long c = [] := by
    cases hl : look r.long c with
    | nil => rfl
    | cons f t => have := flips_in_range h c f (Or.inr (by simp [hl])); omega
  simp [hs, hl, flipsToSolve, h0]

/-- a flip is never listed twice for the same candidate in the short session -/
theorem short_nodup (h : lottery fl q p1 p2 p3 = .ok r) (c : Nat) : (look r.short c).Nodup := by
  obtain ⟨_, long0, _, _, _, _, hs⟩ := lottery_facts h
  exact (hs c).1

/-- … nor in the long session -/
theorem long_nodup (h : lottery fl q p1 p2 p3 = .ok r) (c : Nat) : (look r.long c).Nodup := by
  obtain ⟨_, long0, _, hl, _, hlen, hs⟩ := lottery_facts h
  rw [look_long h hl hlen]
  split
  · unfold placeholder
    split
    · simp
    · exact (hs c).2.1
  · simp

/-- the short-session quota is never exceeded -/
theorem short_le_quota (h : lottery fl q p1 p2 p3 = .ok r) (c : Nat) : (look r.short c).length ≤ q := by
  obtain ⟨_, long0, _, _, _, _, hs⟩ := lottery_facts h
  exact (hs c).2.2.1

/-- every candidate has a non-empty long-session list whenever the shard has flips -/
theorem long_nonempty_if_flips (h : lottery fl q p1 p2 p3 = .ok r) (hpos : 0 < fl.sum) (c : Nat)
    (hc : c < fl.length) : look r.long c ≠ [] := by
  obtain ⟨_, long0, _, hl, _, hlen, _⟩ := lottery_facts h
  rw [look_long h hl hlen, if_pos hc]
  unfold placeholder
  split
  · simp
  · rename_i hn
    intro he
    exact hn ⟨he, hpos⟩

/-- what a client is told to solve (`getFlipsToSolve`) is exactly its assigned list -/
theorem toSolve_eq_assigned (h : lottery fl q p1 p2 p3 = .ok r) (hpos : 0 < fl.sum) (c : Nat) :
    flipsToSolve fl r.short c = look r.short c ∧ flipsToSolve fl r.long c = look r.long c := by
  have hlen : fl.length ≠ 0 := by
    intro h0
    have : fl = [] := List.eq_nil_of_length_eq_zero h0
    subst this; simp at hpos
  have key : ∀ l : List Nat, (∀ f ∈ l, f < fl.sum) → l.map (· % fl.sum) = l := by
    intro l hl
    induction l with
    | nil => rfl
    | cons x t ih =>
      simp only [List.map_cons]
      rw [Nat.mod_eq_of_lt (hl x (by simp)), ih (fun f hf => hl f (by simp [hf]))]
  unfold flipsToSolve
  rw [if_neg (by omega), if_neg (by omega)]
  exact ⟨key _ (fun f hf => flips_in_range h c f (Or.inl hf)), key _ (fun f hf => flips_in_range h c f (Or.inr hf))⟩

/-! ## authors and candidates -/

/-- the two maps of the authors distribution are each other's transpose -/
theorem authors_symmetric (h : lottery fl q p1 p2 p3 = .ok r) (c a : Nat) :
    a ∈ look r.apc c ↔ c ∈ look r.cpa a :=
  (lottery_facts h).1.sym c a

/-- only authors (candidates with flips) are handed out, only to candidates -/
theorem authors_are_authors (h : lottery fl q p1 p2 p3 = .ok r) (c a : Nat) (ha : a ∈ look r.apc c) :
    c < fl.length ∧ a < fl.length ∧ 0 < fl.getD a 0 :=
  ⟨(lottery_facts h).1.lt_of_mem ha, ((lottery_facts h).1.auth c a ha).1, ((lottery_facts h).1.auth c a ha).2⟩

/-- the structural placeholder test (DESIGN 2.7): the long list is the literal `[0]` and the short list already
holds every flip of every author of the candidate -/
def PlaceholderLong (fl : List Nat) (r : Result) (c : Nat) : Prop :=
  look r.long c = [0] ∧ ∀ a ∈ look r.apc c, ∀ i, i < fl.getD a 0 → flipIdx fl a i ∈ look r.short c

theorem lottery_tied (h : lottery fl q p1 p2 p3 = .ok r) (hsize : p3.length * q < 999999) :
    ∃ long0 : List (List Nat), r.long = long0.map (placeholder fl.sum) ∧ long0.length = fl.length ∧
      (∀ c, Tied fl (look r.apc c) (look r.short c) (look long0 c)) ∧
      (∀ c, c ∈ p3 → Complete fl (look r.apc c) (look r.short c) (look long0 c)) := by
  obtain ⟨hinv, long0, hd, hl, _, hlen, _⟩ := lottery_facts h
  obtain ⟨s', l', e, t1, t2⟩ := distLoop_tied (q := q) hinv p3 (List.replicate fl.length 0) (List.replicate fl.length 0)
    (List.replicate fl.length []) (List.replicate fl.length []) 0 (fun _ => False)
    (by intro x; simp [List.getD_eq_getElem?_getD, List.getElem?_replicate]; split <;> simp) (by omega) (by simp) (by simp)
    (by intro c; rw [look_replicate]; exact Tied.nil _ _) (by intro c hc; exact hc.elim)
  rw [e] at hd
  simp only [Res.ok.injEq, Prod.mk.injEq] at hd
  obtain ⟨rfl, rfl⟩ := hd
  exact ⟨_, hl, hlen, t1, fun c hc => t2 c (Or.inr hc)⟩

/-- apart from the placeholder, a candidate is assigned a flip of author `a` iff it is among the recipients for
whom `a` encrypts its key -/
theorem assigned_iff_recipient (h : lottery fl q p1 p2 p3 = .ok r) (hsize : p3.length * q < 999999)
    (hperm : ∀ c, c < fl.length → c ∈ p3) (c a : Nat) :
    (∃ f, (f ∈ look r.short c ∨ (f ∈ look r.long c ∧ ¬ PlaceholderLong fl r c)) ∧ authorOf fl f = some a) ↔
    c ∈ recipients r a := by
  obtain ⟨long0, hl, hlen, htied, hcompl⟩ := lottery_tied h hsize
  have hsym := authors_symmetric h
  unfold recipients
  constructor
  · rintro ⟨f, hf, hauth⟩
    have fromA : ∀ l : List Nat, FromAuthors fl (look r.apc c) l → f ∈ l → c ∈ look r.cpa a := by
      intro l hfa hfl
      obtain ⟨a', i, ha', hi, rfl⟩ := hfa f hfl
      rw [authorOf_flipIdx hi] at hauth
      cases hauth
      exact (hsym c _).mp ha'
    rcases hf with hf | ⟨hf, hnp⟩
    · exact fromA _ (htied c).1 hf
    · have hlook := look_long h hl hlen c
      by_cases hc : c < fl.length
      · rw [if_pos hc] at hlook
        unfold placeholder at hlook
        split at hlook
        · rename_i hp
          exfalso; apply hnp
          exact ⟨hlook, fun a' ha' i hi => (hcompl c (hperm c hc)).2 hp.1 a' ha' i hi⟩
        · rw [hlook] at hf
          exact fromA _ (htied c).2 hf
      · rw [if_neg hc] at hlook; rw [hlook] at hf; simp at hf
  · intro hc
    have ha : a ∈ look r.apc c := (hsym c a).mpr hc
    have hcn : c < fl.length := (lottery_facts h).1.lt_of_mem ha
    obtain ⟨i, hi, hin⟩ := (hcompl c (hperm c hcn)).1 a ha
    by_cases hph : PlaceholderLong fl r c
    · exact ⟨flipIdx fl a i, Or.inl (hph.2 a ha i hi), authorOf_flipIdx hi⟩
    · rcases hin with hin | hin
      · exact ⟨flipIdx fl a i, Or.inl hin, authorOf_flipIdx hi⟩
      · refine ⟨flipIdx fl a i, Or.inr ⟨?_, hph⟩, authorOf_flipIdx hi⟩
        rw [look_long h hl hlen c, if_pos hcn]
        unfold placeholder
        split
        · rename_i hp; rw [hp.1] at hin; simp at hin
        · exact hin

/-! ## key packages -/

theorem indexOfAux_some {l : List Nat} {c base i : Nat} (h : indexOfAux l c base = some i) :
    ∃ j, i = base + j ∧ l[j]? = some c := by
  induction l generalizing base with
  | nil => simp [indexOfAux] at h
  | cons x t ih =>
    simp only [indexOfAux] at h
    split at h
    · rename_i hx; simp at h; exact ⟨0, by omega, by simp [hx]⟩
    · obtain ⟨j, h1, h2⟩ := ih h
      exact ⟨j + 1, by omega, by simpa using h2⟩

theorem indexOfAux_of_mem {l : List Nat} {c : Nat} (h : c ∈ l) (base : Nat) : ∃ i, indexOfAux l c base = some i := by
  induction l generalizing base with
  | nil => simp at h
  | cons x t ih =>
    simp only [indexOfAux]
    split
    · exact ⟨_, rfl⟩
    · rename_i hx
      have : c ∈ t := by
        rcases List.mem_cons.mp h with e | e
        · exact absurd e.symm hx
        · exact e
      exact ih this _

theorem indexOfAux_of_not_mem {l : List Nat} {c : Nat} (h : c ∉ l) (base : Nat) : indexOfAux l c base = none := by
  induction l generalizing base with
  | nil => rfl
  | cons x t ih =>
    simp only [indexOfAux]
    have hx : ¬ x = c := fun e => h (by simp [e])
    rw [if_neg hx]
    exact ih (fun hc => h (by simp [hc])) _

/-- a recipient finds its own slot in the author's package -/
theorem recipient_index_valid (r : Result) (c a : Nat) (hc : c ∈ recipients r a) :
    ∃ i, packageIndex r c a = some i ∧ (recipients r a)[i]? = some c := by
  obtain ⟨i, hi⟩ := indexOfAux_of_mem hc 0
  obtain ⟨j, h1, h2⟩ := indexOfAux_some hi
  refine ⟨i, hi, ?_⟩
  have : i = j := by omega
  rw [this]; exact h2

/-- a non-recipient has no slot (`getPrivateKeyPackageIndex` = -1, `GetFlipKeys` fails) -/
theorem nonrecipient_no_index (r : Result) (c a : Nat) (hc : c ∉ recipients r a) : packageIndex r c a = none :=
  indexOfAux_of_not_mem hc 0

/-- the package is positional: as long as the recipient list, entry `i` is recipient `i`'s — the empty placeholder of
a recipient without a usable public key included (dropping it would shift every later recipient) -/
theorem package_positional {K E : Type} (enc : Nat → K → E) (bad : Nat → Bool) (r : Result) (a : Nat) (key : K) :
    (keyPackage enc bad r a key).length = (recipients r a).length ∧
    ∀ (i c : Nat), (recipients r a)[i]? = some c →
      (keyPackage enc bad r a key)[i]? = some (if bad c then none else some (enc c key)) := by
  refine ⟨by simp [keyPackage], ?_⟩
  intro i c hc
  simp [keyPackage, List.getElem?_map, hc]

/-- a recipient with a usable public key extracts its entry from the package and decrypts the author's key, given the
ECIES round-trip law — whatever the public keys of the OTHER recipients look like -/
theorem recipient_decrypts {K E : Type} (enc : Nat → K → E) (dec : Nat → E → Option K) (bad : Nat → Bool)
    (henc : ∀ c k, dec c (enc c k) = some k) (r : Result) (c a : Nat) (key : K) (hc : c ∈ recipients r a)
    (hb : bad c = false) : obtainKey enc dec bad r c a key = some key := by
  obtain ⟨i, hi, hget⟩ := recipient_index_valid r c a hc
  unfold obtainKey
  rw [hi]
  unfold keyFromPackage
  simp only
  rw [(package_positional enc bad r a key).2 i c hget, hb]
  exact henc c key

/-- a non-recipient gets nothing: no slot, and no entry of the package opens with its key (ECIES wrong-key law) -/
theorem nonrecipient_cannot_decrypt {K E : Type} (enc : Nat → K → E) (dec : Nat → E → Option K) (bad : Nat → Bool)
    (hwrong : ∀ c c' k, c ≠ c' → dec c' (enc c k) = none) (r : Result) (c a : Nat) (key : K)
    (hc : c ∉ recipients r a) :
    obtainKey enc dec bad r c a key = none ∧ ∀ e, some e ∈ keyPackage enc bad r a key → dec c e = none := by
  constructor
  · unfold obtainKey
    rw [nonrecipient_no_index r c a hc]
  · intro e he
    obtain ⟨c', hc', heq⟩ := List.mem_map.mp he
    split at heq
    · cases heq
    · cases heq
      exact hwrong c' c key (fun e => hc (e ▸ hc'))

/-- keys reach solvers: whoever is assigned a (non-placeholder) flip of author `a` and has a usable public key obtains
`a`'s key -/
theorem assigned_obtains_key {K E : Type} (enc : Nat → K → E) (dec : Nat → E → Option K) (bad : Nat → Bool)
    (henc : ∀ c k, dec c (enc c k) = some k)
    (h : lottery fl q p1 p2 p3 = .ok r) (hsize : p3.length * q < 999999) (hperm : ∀ c, c < fl.length → c ∈ p3)
    (c a f : Nat) (key : K) (hf : f ∈ look r.short c ∨ (f ∈ look r.long c ∧ ¬ PlaceholderLong fl r c))
    (ha : authorOf fl f = some a) (hb : bad c = false) : obtainKey enc dec bad r c a key = some key :=
  recipient_decrypts enc dec bad henc r c a key ((assigned_iff_recipient h hsize hperm c a).mp ⟨f, hf, ha⟩) hb

/-- … and nobody else does -/
theorem unassigned_obtains_nothing {K E : Type} (enc : Nat → K → E) (dec : Nat → E → Option K) (bad : Nat → Bool)
    (hwrong : ∀ c c' k, c ≠ c' → dec c' (enc c k) = none)
    (h : lottery fl q p1 p2 p3 = .ok r) (hsize : p3.length * q < 999999) (hperm : ∀ c, c < fl.length → c ∈ p3)
    (c a : Nat) (key : K)
    (hno : ¬ ∃ f, (f ∈ look r.short c ∨ (f ∈ look r.long c ∧ ¬ PlaceholderLong fl r c)) ∧ authorOf fl f = some a) :
    obtainKey enc dec bad r c a key = none ∧ ∀ e, some e ∈ keyPackage enc bad r a key → dec c e = none :=
  nonrecipient_cannot_decrypt enc dec bad hwrong r c a key
    (fun hc => hno ((assigned_iff_recipient h hsize hperm c a).mpr hc))

/-! ## determinism, termination, no panic -/

/-- the lottery is a function of candidates, flips, quota and the permutation streams; the streams are a function
of the seed (`prng` = Go's seeded `math/rand`), hence so is the result -/
theorem lottery_deterministic {Seed : Type} (prng : Seed → List (List Nat) × List (List Nat) × List Nat)
    (s₁ s₂ : Seed) (hs : s₁ = s₂) :
    lottery fl q (prng s₁).1 (prng s₁).2.1 (prng s₁).2.2 = lottery fl q (prng s₂).1 (prng s₂).2.1 (prng s₂).2.2 := by
  rw [hs]

/-- the recursion measures are the ones the Go loops decrease: fuel never runs out -/
theorem lottery_ne_fuel : lottery fl q p1 p2 p3 ≠ .fuel := by
  unfold lottery
  rcases authorsDistribution_spec fl q p1 p2 with hb | ⟨apc, cpa, e, _⟩
  · rw [hb]; simp
  · rw [e]
    simp only
    unfold flipsDistribution
    simp only
    rcases distLoop_ok_or_panic (fl := fl) (apc := apc) (q := q) p3 (List.replicate fl.length 0)
      (List.replicate fl.length 0) (List.replicate fl.length []) (List.replicate fl.length []) with hp | ⟨x, hx⟩
    · rw [hp]; simp
    · rw [hx]; simp

/-- the lottery does not panic (no `Pop` of an empty queue, no index out of range) -/
theorem lottery_ne_panic (hsize : p3.length * q < 999999) : lottery fl q p1 p2 p3 ≠ .panic := by
  unfold lottery
  rcases authorsDistribution_spec fl q p1 p2 with hb | ⟨apc, cpa, e, hinv⟩
  · rw [hb]; simp
  · rw [e]
    simp only
    unfold flipsDistribution
    simp only
    obtain ⟨s', l', e2, _, _⟩ := distLoop_tied (q := q) hinv p3 (List.replicate fl.length 0) (List.replicate fl.length 0)
      (List.replicate fl.length []) (List.replicate fl.length []) 0 (fun _ => False)
      (by intro x; simp [List.getD_eq_getElem?_getD, List.getElem?_replicate]; split <;> simp) (by omega) (by simp) (by simp)
      (by intro c; rw [look_replicate]; exact Tied.nil _ _) (by intro c hc; exact hc.elim)
    rw [e2]; simp

/-- so the only way not to get a result is a permutation stream `math/rand` cannot deliver -/
theorem lottery_total (hsize : p3.length * q < 999999) :
    lottery fl q p1 p2 p3 = .badInput ∨ ∃ r, lottery fl q p1 p2 p3 = .ok r := by
  cases hr : lottery fl q p1 p2 p3 with
  | ok r => right; exact ⟨r, rfl⟩
  | panic => exact absurd hr (lottery_ne_panic hsize)
  | badInput => left; rfl
  | fuel => exact absurd hr lottery_ne_fuel

/-- with permutation streams as `math/rand.Perm` delivers them (and in the quantity the harness supplies: enough
author permutations to fill the queue, 14 candidate permutations when the top-up runs) the lottery returns a result:
the hypothesis `h : lottery … = .ok r` of the theorems above is met by every real run -/
theorem lottery_ok_of_valid_streams (hsize : p3.length * q < 999999)
    (h1v : ∀ p ∈ p1, ValidPerm (authorsIndexes fl).length p)
    (h1n : authorsIndexes fl ≠ [] → p1 ≠ [] ∧ fl.length * q ≤ p1.length * (authorsIndexes fl).length)
    (h2v : ∀ p ∈ p2, ValidPerm fl.length p) (h2n : 7 < (authorsIndexes fl).length → 14 ≤ p2.length) :
    ∃ r, lottery fl q p1 p2 p3 = .ok r := by
  rcases lottery_total (fl := fl) (q := q) (p1 := p1) (p2 := p2) (p3 := p3) hsize with hb | h
  · exfalso
    unfold lottery at hb
    have hne := authorsDistribution_ne_bad fl q p1 p2 h1v h1n h2v h2n
    rcases authorsDistribution_spec fl q p1 p2 with hb' | ⟨apc, cpa, e, _⟩
    · exact hne hb'
    · rw [e] at hb
      simp only at hb
      unfold flipsDistribution at hb
      simp only at hb
      rcases distLoop_ok_or_panic (fl := fl) (apc := apc) (q := q) p3 (List.replicate fl.length 0)
        (List.replicate fl.length 0) (List.replicate fl.length []) (List.replicate fl.length []) with hp | ⟨x, hx⟩
      · rw [hp] at hb; cases hb
      · rw [hx] at hb; cases hb
  · exact h

/-! ## non-vacuity: concrete shards on which every hypothesis above is met (kernel-evaluated) -/

/-- 3 candidates, candidates 0 and 2 submitted one flip each, quota 2: both flips are used up by the short session,
every long list is the placeholder -/
def exFl : List Nat := [1, 0, 1]
def exR : Result := ⟨[[2,0],[2,0],[0,2]], [[2,0,1],[],[0,1,2]], [[1,0],[1,0],[0,1]], [[0],[0],[0]]⟩
theorem ex_small : lottery exFl 2 [[0,1],[1,0],[0,1]] [] [2,0,1] = .ok exR := by decide

/-- 9 candidates with one flip each, quota 1: more than 7 authors, so `appendAdditionalCandidates` tops every
author up (with the queue-rotation fallback: authors end up among their own candidates) -/
def exFl2 : List Nat := [1,1,1,1,1,1,1,1,1]
def exP2 : List (List Nat) :=
  [[5,8,7,4,2,3,6,1,0],[7,8,0,1,2,3,4,6,5],[2,4,3,1,6,7,0,5,8],[1,7,6,4,2,5,3,8,0],[8,7,5,3,6,1,4,0,2],
   [0,7,3,4,2,6,8,5,1],[8,4,2,3,6,0,7,1,5],[1,4,0,8,6,3,2,5,7],[3,6,5,2,8,7,4,1,0],[4,8,6,5,2,3,0,1,7]]
def exR2 : Result := ⟨
  [[7,0,1,2,3,4,5,6,7,8],[2,0,1,2,3,4,5,6,7,8],[3,0,1,2,3,4,5,6,7,8],[6,0,1,2,3,4,5,6,7,8],[1,0,1,2,3,4,5,6,7,8],
   [8,0,1,2,3,4,5,6,7,8],[4,0,1,2,3,4,5,6,7,8],[0,0,1,2,3,4,5,6,7,8],[5,0,1,2,3,4,5,6,7,8]],
  [[7,5,8,4,2,3,6,1,0,7],[4,7,8,0,2,3,6,5,1,4],[1,4,3,6,7,0,5,8,2,1],[2,1,7,6,4,5,8,0,2,3],[6,8,7,5,3,1,0,2,6,4],
   [8,0,7,3,4,2,6,1,8,5],[3,8,4,2,0,7,1,5,3,6],[0,1,4,8,6,3,2,5,7,0],[5,3,6,2,7,4,1,0,5,8]],
  [[7],[2],[3],[6],[1],[8],[4],[0],[5]],
  [[0,1,2,3,4,5,6,8],[0,1,3,4,5,6,7,8],[0,1,2,4,5,6,7,8],[0,1,2,3,4,5,7,8],[0,2,3,4,5,6,7,8],[0,1,2,3,4,5,6,7],
   [0,1,2,3,5,6,7,8],[1,2,3,4,5,6,7,8],[0,1,2,3,4,6,7,8]]⟩
set_option maxRecDepth 100000 in
theorem ex_topup : lottery exFl2 1 [[7,2,3,6,1,8,4,0,5]] exP2 [1,8,7,0,4,5,6,2,3] = .ok exR2 := by decide

/-- a shard of 3 candidates without flips: nothing is assigned (this is the statement F12 violated before the repair) -/
theorem ex_empty : lottery [0,0,0] 8 [] [] [1,2,0] = .ok ⟨[[],[],[]], [[],[],[]], [[],[],[]], [[],[],[]]⟩ := by decide

example : ∃ r, lottery exFl2 1 [[7,2,3,6,1,8,4,0,5]] (exP2 ++ exP2) [1,8,7,0,4,5,6,2,3] = .ok r :=
  lottery_ok_of_valid_streams (by decide) (by decide) (by decide) (by decide) (by decide)
example : (1 : Nat) < exFl.sum := flips_in_range ex_small 0 1 (Or.inl (by decide))
example : look exR.long 1 ≠ [] := long_nonempty_if_flips ex_small (by decide) 1 (by decide)
example : look (⟨[[],[],[]], [[],[],[]], [[],[],[]], [[],[],[]]⟩ : Result).long 1 = [] :=
  (none_when_no_flips ex_empty (by decide) 1).2.1
example : (2 : Nat) ∈ look exR.cpa 0 := (authors_symmetric ex_small 2 0).mp (by decide)
-- hsize / hperm are satisfiable, and `assigned_iff_recipient` fires in both directions on the top-up shard
example : (3 : Nat) ∈ recipients exR2 4 :=
  (assigned_iff_recipient ex_topup (by decide) (by decide) 3 4).mp ⟨4, Or.inr ⟨by decide, fun hp => by
    have := hp.1; revert this; decide⟩, by decide⟩
example : ∃ f, (f ∈ look exR2.short 0 ∨ (f ∈ look exR2.long 0 ∧ ¬ PlaceholderLong exFl2 exR2 0)) ∧
    authorOf exFl2 f = some 7 :=
  (assigned_iff_recipient ex_topup (by decide) (by decide) 0 7).mpr (by decide)
-- the ideal cipher satisfies both ECIES laws
example : obtainKey (fun c (k : Nat) => (c, k)) (fun c e => if e.1 = c then some e.2 else none) (· == 0) exR 1 0 77 = some 77 :=
  recipient_decrypts _ _ _ (by intro c k; simp) exR 1 0 77 (by decide) (by decide)
-- candidate 0 has no usable public key: its slot (position 1 of author 0's package) is the empty placeholder and
-- candidate 1 still finds its own entry at position 2
example : keyPackage (fun c (k : Nat) => (c, k)) (· == 0) exR 0 77 = [some (2, 77), none, some (1, 77)] := by decide
example : obtainKey (fun c (k : Nat) => (c, k)) (fun c e => if e.1 = c then some e.2 else none) (· == 0) exR 1 1 77 = none :=
  (nonrecipient_cannot_decrypt _ _ _ (by intro c c' k h; simp [h]) exR 1 1 77 (by decide)).1

/-- the placeholder exemption in the property text is necessary: with three one-flip authors and quota 1 candidate 1
is handed the placeholder flip 0 (author: candidate 0) in its long list without being a key recipient of candidate 0 -/
theorem placeholder_exemption_needed :
    ∃ (fl : List Nat) (r : Result), lottery fl 1 [[0,1,2]] [] [0,1,2] = .ok r ∧
      0 ∈ look r.long 1 ∧ authorOf fl 0 = some 0 ∧ 1 ∉ recipients r 0 ∧ PlaceholderLong fl r 1 :=
  ⟨[1,1,1], ⟨[[1],[2],[0]], [[2],[0],[1]], [[1],[2],[0]], [[0],[0],[0]]⟩, by decide, by decide, by decide, by decide,
    by decide, by
      intro a ha i hi
      have ha' : a = 2 := by simpa [look] using ha
      subst ha'
      have hi' : i = 0 := by simp at hi; omega
      subst hi'
      decide⟩

end IdenaModel.Lottery
