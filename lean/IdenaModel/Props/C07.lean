import IdenaModel.Proofs.CertCommittee
/-!
# C07 — a certificate is accepted iff it holds a quorum of distinct committee votes

Model: `Model/Cert.lean` (`validateCore`/`validateBlockCert` = `Blockchain.ValidateBlockCert`, `countVotes` =
`Engine.countVotes`, `getOnlineValidators` = `ValidatorsCache.GetOnlineValidators`, `addVote` = `Votes.AddVote`).
Signature recovery is a parameter `recover : σ → Msg → Option Nat`; a signature *is* a valid vote of `v` over a
message `m` exactly when `recover σ m = some v` (this is what the Go code uses: it never verifies a signature against
a claimed key, it recovers the key).

What the code does (and what is proved here): a certificate is accepted **iff** the committee exists, **every**
signature that is looked at recovers — under the header rebuilt from the certificate's round/step/hash, the
parent's hash and the signature's flags — to an approved member of the committee drawn for (parent seed, block
height, certificate step) *and* the certificate's round and hash are the block's, and the number of *distinct*
such voters is at least `required = threshold − subtrahend`.  A duplicate never raises the count; a forged,
outsider, non-approved or other-round/other-hash signature makes the verdict an error (the property's "never
count towards the quorum" is met by rejecting outright).  On the fast-sync path (`pubKeyToAddrCache ≠ nil`) a
signature whose key cannot be recovered is skipped instead.
-/
namespace IdenaModel.Cert

section Validate
variable {σ : Type} (recover : σ → Msg → Option Nat) (useCache : Bool)

/-- **Acceptance predicate of `ValidateBlockCert`, exactly.** -/
theorem cert_ok_iff (sv : Option StepValidators) (thr : Nat) (c : BlockCert σ) (prevHash blockHash height : Nat) :
    validateCore recover useCache sv thr c prevHash blockHash height = .ok ↔
      ∃ svv, sv = some svv ∧
        (∀ s ∈ c.sigs, countedB recover useCache c prevHash s = true →
            svv.approved.contains (sigAddr recover c prevHash s) = true ∧ c.round = height ∧ c.voted = blockHash) ∧
        required svv thr ≤ (distinctCount (countedAddrs recover useCache c prevHash c.sigs) : Int) := by
  cases sv with
  | none => simp [validateCore]
  | some svv =>
    simp only [validateCore, Option.some.injEq, exists_eq_left']
    by_cases hall : ∀ s ∈ c.sigs, countedB recover useCache c prevHash s = true →
        SigGood recover (fun a => svv.approved.contains a) c prevHash blockHash height s
    · rw [certLoop_ok recover _ useCache c prevHash blockHash height c.sigs [] hall]
      simp only [distinctCount]
      constructor
      · intro h
        refine ⟨hall, ?_⟩
        by_cases hlt : ((insertAll [] (countedAddrs recover useCache c prevHash c.sigs)).length : Int) < required svv thr
        · simp [hlt] at h
        · omega
      · rintro ⟨_, hq⟩
        have : ¬ ((insertAll [] (countedAddrs recover useCache c prevHash c.sigs)).length : Int) < required svv thr := by
          omega
        simp [this]
    · have hex : ∃ s ∈ c.sigs, countedB recover useCache c prevHash s = true ∧
          ¬ SigGood recover (fun a => svv.approved.contains a) c prevHash blockHash height s := by
        apply Classical.byContradiction
        intro hne
        apply hall
        intro s hs hc
        apply Classical.byContradiction
        intro hb
        exact hne ⟨s, hs, hc, hb⟩
      obtain ⟨e, he, hcls⟩ := certLoop_err recover _ useCache c prevHash blockHash height c.sigs [] hex
      rw [he]
      constructor
      · intro h
        rcases hcls with rfl | rfl | rfl <;> cases h
      · rintro ⟨h1, _⟩
        exact absurd h1 hall

/-- **`cert_sound`.**  An accepted certificate holds at least `required` *distinct* approved committee members,
each of which is the voter recovered from one of the certificate's signatures under the header
`(cert.round, cert.step, parent hash, cert.votedHash, flags of that signature)`; every signature that was looked at
is from an approved member; and as soon as one signature was looked at (in particular whenever `required ≥ 1`) the
certificate's round and hash are the block's height and hash. -/
theorem cert_sound (sv : Option StepValidators) (thr : Nat) (c : BlockCert σ) (prevHash blockHash height : Nat)
    (h : validateCore recover useCache sv thr c prevHash blockHash height = .ok) :
    ∃ svv, sv = some svv ∧ ∃ vs : List Nat, vs.Nodup ∧ required svv thr ≤ (vs.length : Int) ∧
      (∀ v ∈ vs, svv.approved.contains v = true ∧
          ∃ s ∈ c.sigs, countedB recover useCache c prevHash s = true ∧
            (recover s.sig (certMsg c prevHash s)).getD 0 = v) ∧
      (∀ s ∈ c.sigs, countedB recover useCache c prevHash s = true →
          svv.approved.contains (sigAddr recover c prevHash s) = true) ∧
      ((∃ s ∈ c.sigs, countedB recover useCache c prevHash s = true) → c.round = height ∧ c.voted = blockHash) ∧
      ((0 : Int) < required svv thr → c.round = height ∧ c.voted = blockHash) := by
  obtain ⟨svv, rfl, hall, hq⟩ := (cert_ok_iff recover useCache sv thr c prevHash blockHash height).mp h
  have hmem : ∀ v, v ∈ insertAll [] (countedAddrs recover useCache c prevHash c.sigs) →
      ∃ s ∈ c.sigs, countedB recover useCache c prevHash s = true ∧ sigAddr recover c prevHash s = v := by
    intro v hv
    rw [mem_insertAll] at hv
    rcases hv with hv | hv
    · cases hv
    · simp only [countedAddrs, List.mem_map, List.mem_filter] at hv
      obtain ⟨s, ⟨hs, hc⟩, rfl⟩ := hv
      exact ⟨s, hs, hc, rfl⟩
  have hhdr : (∃ s ∈ c.sigs, countedB recover useCache c prevHash s = true) → c.round = height ∧ c.voted = blockHash := by
    rintro ⟨s, hs, hc⟩; exact (hall s hs hc).2
  refine ⟨svv, rfl, insertAll [] (countedAddrs recover useCache c prevHash c.sigs),
    nodup_insertAll List.nodup_nil, hq, ?_, fun s hs hc => (hall s hs hc).1, hhdr, ?_⟩
  · intro v hv
    obtain ⟨s, hs, hc, rfl⟩ := hmem v hv
    exact ⟨(hall s hs hc).1, s, hs, hc, rfl⟩
  · intro hpos
    cases hl : insertAll [] (countedAddrs recover useCache c prevHash c.sigs) with
    | nil => simp [distinctCount, hl] at hq; omega
    | cons v t =>
      obtain ⟨s, hs, hc, _⟩ := hmem v (by rw [hl]; exact List.mem_cons_self)
      exact hhdr ⟨s, hs, hc⟩

/-- acceptance depends on the signatures only through the *set* of voters that are looked at: two certificates
with the same header whose looked-at signatures recover to the same set of voters get the same accept/reject
decision (so order and multiplicity of signatures are irrelevant) -/
theorem cert_ok_congr (sv : Option StepValidators) (thr : Nat) (c : BlockCert σ) (sigs' : List (CertSig σ))
    (prevHash blockHash height : Nat)
    (hset : ∀ a, a ∈ countedAddrs recover useCache c prevHash c.sigs ↔
                 a ∈ countedAddrs recover useCache c prevHash sigs') :
    validateCore recover useCache sv thr { c with sigs := sigs' } prevHash blockHash height = .ok ↔
    validateCore recover useCache sv thr c prevHash blockHash height = .ok := by
  have key : ∀ (l : List (CertSig σ)) (svv : StepValidators),
      (∀ s ∈ l, countedB recover useCache c prevHash s = true →
        svv.approved.contains (sigAddr recover c prevHash s) = true ∧ c.round = height ∧ c.voted = blockHash) ↔
      (∀ a ∈ countedAddrs recover useCache c prevHash l,
        svv.approved.contains a = true ∧ c.round = height ∧ c.voted = blockHash) := by
    intro l svv
    simp only [countedAddrs, List.mem_map, List.mem_filter]
    constructor
    · rintro h a ⟨s, ⟨hs, hc⟩, rfl⟩; exact h s hs hc
    · intro h s hs hc; exact h _ ⟨s, ⟨hs, hc⟩, rfl⟩
  rw [cert_ok_iff, cert_ok_iff]
  have e1 : ∀ s, countedB recover useCache { c with sigs := sigs' } prevHash s = countedB recover useCache c prevHash s :=
    fun _ => rfl
  have e2 : ∀ s, sigAddr recover { c with sigs := sigs' } prevHash s = sigAddr recover c prevHash s := fun _ => rfl
  have e3 : ∀ l, countedAddrs recover useCache { c with sigs := sigs' } prevHash l
      = countedAddrs recover useCache c prevHash l := fun _ => rfl
  simp only [e1, e2, e3]
  constructor
  · rintro ⟨svv, rfl, hall, hq⟩
    refine ⟨svv, rfl, ?_, ?_⟩
    · rw [key]; intro a ha; exact (key sigs' svv).mp hall a ((hset a).mp ha)
    · rw [distinctCount_congr hset]; exact hq
  · rintro ⟨svv, rfl, hall, hq⟩
    refine ⟨svv, rfl, ?_, ?_⟩
    · show ∀ s ∈ sigs', _
      rw [key]; intro a ha; exact (key c.sigs svv).mp hall a ((hset a).mpr ha)
    · show required svv thr ≤ (distinctCount (countedAddrs recover useCache c prevHash sigs') : Int)
      rw [← distinctCount_congr hset]; exact hq

/-- **`dup_forged_outsider_dont_count`.**
(1) appending a copy of a signature that is already in the certificate — more generally any signature whose voter
is already among the looked-at voters — never changes the decision (a duplicate does not raise the count);
(2) a looked-at signature whose recovered voter is not an approved committee member (forged bytes, an outsider's
key, a discriminated member, a vote signed for another round/step/parent/hash: all of these recover to a
non-member) makes the verdict an error; (3) so does a certificate whose round or hash is not the block's as soon as
one signature is looked at. -/
theorem dup_forged_outsider_dont_count (sv : Option StepValidators) (thr : Nat) (c : BlockCert σ)
    (prevHash blockHash height : Nat) :
    (∀ s, (countedB recover useCache c prevHash s = true →
            sigAddr recover c prevHash s ∈ countedAddrs recover useCache c prevHash c.sigs) →
        (validateCore recover useCache sv thr { c with sigs := c.sigs ++ [s] } prevHash blockHash height = .ok ↔
         validateCore recover useCache sv thr c prevHash blockHash height = .ok)) ∧
    ((∃ s ∈ c.sigs, countedB recover useCache c prevHash s = true ∧
        ∀ svv, sv = some svv → svv.approved.contains (sigAddr recover c prevHash s) = false) →
        validateCore recover useCache sv thr c prevHash blockHash height ≠ .ok) ∧
    ((∃ s ∈ c.sigs, countedB recover useCache c prevHash s = true) → (c.round ≠ height ∨ c.voted ≠ blockHash) →
        validateCore recover useCache sv thr c prevHash blockHash height ≠ .ok) := by
  refine ⟨?_, ?_, ?_⟩
  · intro s hs
    apply cert_ok_congr
    intro a
    simp only [countedAddrs, List.filter_append, List.map_append, List.mem_append]
    constructor
    · exact Or.inl
    · rintro (h | h)
      · exact h
      · by_cases hc : countedB recover useCache c prevHash s = true
        · simp only [List.filter_cons, hc, if_true, List.filter_nil, List.map_cons, List.map_nil,
            List.mem_singleton] at h
          subst h; exact hs hc
        · simp [List.filter_cons, hc] at h
  · rintro ⟨s, hs, hc, hna⟩ hok
    obtain ⟨svv, rfl, hall, _⟩ := (cert_ok_iff recover useCache sv thr c prevHash blockHash height).mp hok
    have := (hall s hs hc).1
    rw [hna svv rfl] at this
    cases this
  · rintro ⟨s, hs, hc⟩ hne hok
    obtain ⟨svv, rfl, hall, _⟩ := (cert_ok_iff recover useCache sv thr c prevHash blockHash height).mp hok
    have := (hall s hs hc).2
    omega

/-- a genuine vote of key `x.1` with flags `x.2` for (round, step, parent, hash), as carried in a certificate -/
def genuineSig {κ : Type} (sign : κ → Msg → σ) (round step prevHash voted : Nat) (x : κ × Bool × Nat) : CertSig σ :=
  { off := x.2.1, upg := x.2.2,
    sig := sign x.1 { round := round, step := step, parent := prevHash, voted := voted, off := x.2.1, upg := x.2.2 } }

/-- **`cert_complete`** (under the signature law `recover (sign k m) m = addr k`): a certificate made of genuine
votes — every signature is `sign k` of the header (this round, this step, this parent, this hash, the flags carried
next to it) by a key whose address is an approved member of the drawn committee — with at least `required`
distinct signers is accepted for the block of that height and hash, on both paths. -/
theorem cert_complete {κ : Type} (sign : κ → Msg → σ) (addrOf : κ → Nat)
    (hlaw : ∀ k m, recover (sign k m) m = some (addrOf k))
    (svv : StepValidators) (thr round step voted prevHash : Nat)
    (votes : List (κ × Bool × Nat))
    (happr : ∀ x ∈ votes, svv.approved.contains (addrOf x.1) = true)
    (hq : required svv thr ≤ (distinctCount (votes.map (fun x => addrOf x.1)) : Int)) :
    validateCore recover useCache (some svv) thr
      { round := round, step := step, voted := voted, sigs := votes.map (genuineSig sign round step prevHash voted) }
      prevHash voted round = .ok := by
  rw [cert_ok_iff]
  refine ⟨svv, rfl, ?_, ?_⟩
  · intro s hs _
    simp only [List.mem_map] at hs
    obtain ⟨x, hx, rfl⟩ := hs
    refine ⟨?_, rfl, rfl⟩
    simp only [sigAddr, certMsg, genuineSig, hlaw, Option.getD_some]
    exact happr x hx
  · have : ∀ (l : List (κ × Bool × Nat)) (c : BlockCert σ), c.round = round → c.step = step → c.voted = voted →
        countedAddrs recover useCache c prevHash (l.map (genuineSig sign round step prevHash voted))
        = l.map (fun x => addrOf x.1) := by
      intro l c h1 h2 h3
      induction l with
      | nil => rfl
      | cons x t ih =>
        have hc : countedB recover useCache c prevHash (genuineSig sign round step prevHash voted x) = true := by
          simp [countedB, certMsg, genuineSig, h1, h2, h3, hlaw]
        have ha : sigAddr recover c prevHash (genuineSig sign round step prevHash voted x) = addrOf x.1 := by
          simp [sigAddr, certMsg, genuineSig, h1, h2, h3, hlaw]
        simp only [countedAddrs] at ih ⊢
        simp only [List.map_cons, List.filter_cons, hc, if_true, ha, ih]
    rw [this votes _ rfl rfl rfl]; exact hq

end Validate

/-! ## The vote counter emits only valid certificates -/

section Count
variable {σ : Type} (recover : σ → Msg → Option Nat)

/-- `Emitted` is invariant under reordering the emitted list (the Go code builds it by ranging over a map) -/
theorem emitted_perm {appr : Nat → Bool} {step parentHash : Nat} {need : Int} {P : Vote σ → Prop} {h : Nat}
    {l l' : List (Vote σ)} (hp : l'.Perm l) (he : Emitted recover appr step parentHash need P h l) :
    Emitted recover appr step parentHash need P h l' := by
  obtain ⟨h1, h2, h3⟩ := he
  refine ⟨fun x hx => h1 x (hp.mem_iff.mp hx), ?_, ?_⟩
  · exact ((hp.map (voterAddr recover)).nodup_iff).mpr h2
  · rw [hp.length_eq]; exact h3

/-- a list of votes with the `Emitted` shape, all of round `round`, compresses to a certificate that
`ValidateBlockCert` accepts for (parent `parentHash`, block hash `h`, height `round`) -/
theorem emitted_validates (useCache : Bool) (svv : StepValidators) (thr step parentHash round h : Nat)
    (list : List (Vote σ))
    (he : Emitted recover (fun a => svv.approved.contains a) step parentHash (required svv thr)
            (fun v => v.round = round) h list)
    (h0 : useCache = true → svv.approved.contains 0 = false) :
    validateCore recover useCache (some svv) thr (compress list) parentHash h round = .ok := by
  obtain ⟨h1, h2, h3⟩ := he
  rw [cert_ok_iff]
  refine ⟨svv, rfl, ?_⟩
  cases list with
  | nil =>
    refine ⟨(by intro s hs; cases hs), ?_⟩
    simpa [compress, countedAddrs, distinctCount, insertAll] using h3
  | cons v0 t =>
    obtain ⟨a1, a2, a3, a4, a5⟩ := h1 v0 List.mem_cons_self
    -- the header rebuilt by the validator for the signature of vote `x` is `x`'s own header
    have hmsg : ∀ x ∈ v0 :: t,
        certMsg (compress (v0 :: t)) parentHash { off := x.off, upg := x.upg, sig := x.sig } = x.msg := by
      intro x hx
      obtain ⟨b1, b2, b3, _, b5⟩ := h1 x hx
      have a5' : v0.round = round := a5
      have b5' : x.round = round := b5
      simp only [certMsg, compress, Vote.msg, Msg.mk.injEq, and_true]
      exact ⟨by rw [a5', b5'], by rw [a3, b3], b2.symm, by rw [a1, b1]⟩
    have haddr : ∀ x ∈ v0 :: t,
        sigAddr recover (compress (v0 :: t)) parentHash { off := x.off, upg := x.upg, sig := x.sig }
          = voterAddr recover x := by
      intro x hx; simp only [sigAddr, voterAddr, hmsg x hx]
    have hcnt : ∀ x ∈ v0 :: t,
        countedB recover useCache (compress (v0 :: t)) parentHash { off := x.off, upg := x.upg, sig := x.sig }
          = true := by
      intro x hx
      simp only [countedB, hmsg x hx]
      cases hu : useCache with
      | false => simp
      | true =>
        cases hr : recover x.sig x.msg with
        | some _ => simp
        | none =>
          exfalso
          have hap := (h1 x hx).2.2.2.1
          simp only [voterAddr, hr, Option.getD_none] at hap
          rw [h0 hu] at hap
          cases hap
    have hsigs : (compress (v0 :: t)).sigs = (v0 :: t).map (fun x => { off := x.off, upg := x.upg, sig := x.sig }) := rfl
    have hca : ∀ l : List (Vote σ), (∀ x ∈ l, x ∈ v0 :: t) →
        countedAddrs recover useCache (compress (v0 :: t)) parentHash
          (l.map (fun x => { off := x.off, upg := x.upg, sig := x.sig })) = l.map (voterAddr recover) := by
      intro l hl
      induction l with
      | nil => rfl
      | cons x r ih =>
        have hx := hl x List.mem_cons_self
        simp only [countedAddrs] at ih ⊢
        simp only [List.map_cons, List.filter_cons, hcnt x hx, if_true, haddr x hx]
        rw [ih (fun y hy => hl y (List.mem_cons_of_mem _ hy))]
    refine ⟨?_, ?_⟩
    · intro s hs _
      rw [hsigs] at hs
      obtain ⟨x, hx, rfl⟩ := List.mem_map.mp hs
      rw [haddr x hx]
      refine ⟨(h1 x hx).2.2.2.1, ?_, ?_⟩
      · show v0.round = round
        exact a5
      · show v0.voted = h
        exact a1
    · rw [hsigs, hca (v0 :: t) (fun x hx => hx), distinctCount_of_nodup h2]
      simpa using h3

/-- **`countVotes_emits_valid`.**  For every sequence of polls, every enumeration order of the round's vote map
at each poll (`polls`), every iteration order of the per-hash voter maps (`iterOrder`, only required to be a
permutation) and every order in which the emitted list ends up (`list'`): if the votes offered to the counter are
votes of round `round` (the invariant of the vote store, `addVote_store_round`), the certificate `countVotes`
returns, compressed, is accepted by `ValidateBlockCert` for the block with the returned hash at height `round`
on the parent the counter was given — with the same committee (same seed, round, step) and the threshold for
`final = (step = Final)`, as all call sites pass it.  On the fast-sync path this needs the zero address not to be
an approved committee member.  The emitted list is never empty. -/
theorem countVotes_emits_valid (useCache : Bool) (iterOrder : RoundVotes σ → RoundVotes σ)
    (hperm : ∀ l, (iterOrder l).Perm l)
    (v : View) (perm : List Nat) (step parentHash round : Nat) (polls : List (List (Vote σ)))
    (hround : ∀ enum ∈ polls, ∀ x ∈ enum, x.round = round)
    (h0 : useCache = true → ∀ svv, getOnlineValidators v perm (committeeSize v.sorted.length (isFinal step)) = some svv →
            svv.approved.contains 0 = false)
    (h : Nat) (list list' : List (Vote σ))
    (hres : countVotes recover iterOrder (getOnlineValidators v perm (committeeSize v.sorted.length (isFinal step)))
              (votesThreshold v.sorted.length (isFinal step)) step parentHash polls = .found h list)
    (hl : list'.Perm list) :
    validateBlockCert recover useCache v perm (compress list') parentHash h round = .ok ∧ list ≠ [] := by
  cases hsv : getOnlineValidators v perm (committeeSize v.sorted.length (isFinal step)) with
  | none => rw [hsv] at hres; simp [countVotes] at hres
  | some svv =>
    rw [hsv] at hres
    simp only [countVotes] at hres
    have hbb : BBInv recover (fun a => svv.approved.contains a) step parentHash (fun x => x.round = round)
        ([] : ByBlock σ) := by intro p hp; cases hp
    obtain ⟨hem, hne⟩ := (countLoop_spec recover (fun a => svv.approved.contains a) iterOrder step parentHash
      (required svv (votesThreshold v.sorted.length (isFinal step))) (fun x => x.round = round) hperm polls hround
      [] hbb).1 h list hres
    refine ⟨?_, hne⟩
    have hem' := emitted_perm recover hl hem
    have hval := emitted_validates recover useCache svv (votesThreshold v.sorted.length (isFinal step)) step
      parentHash round h list' hem' (fun hu => h0 hu svv hsv)
    cases hl' : list' with
    | nil =>
      exfalso; apply hne
      exact List.length_eq_zero_iff.mp (by rw [← hl.length_eq, hl']; rfl)
    | cons x t =>
      have hs : (compress list').step = step := by
        rw [hl']; exact (hem'.1 x (by rw [hl']; exact List.mem_cons_self)).2.2.1
      rw [hl'] at hs hval
      simp only [validateBlockCert, hs, hsv]; exact hval

/-- the only panic site of the counter (`make(…, 0, necessaryVotesCount)` with a negative capacity) needs a negative
`required` *and* a vote of an approved voter -/
theorem countVotes_panic_only_if (iterOrder : RoundVotes σ → RoundVotes σ)
    (hperm : ∀ l, (iterOrder l).Perm l) (svv : StepValidators) (thr step parentHash : Nat)
    (polls : List (List (Vote σ)))
    (hres : countVotes recover iterOrder (some svv) thr step parentHash polls = .panic) :
    required svv thr < 0 ∧ svv.approved ≠ [] := by
  simp only [countVotes] at hres
  have hbb : BBInv recover (fun a => svv.approved.contains a) step parentHash (fun _ => True)
      ([] : ByBlock σ) := by intro p hp; cases hp
  obtain ⟨h1, a, ha⟩ := (countLoop_spec recover (fun a => svv.approved.contains a) iterOrder step parentHash
    (required svv thr) (fun _ => True) hperm polls (fun _ _ _ _ => trivial) [] hbb).2 hres
  refine ⟨h1, ?_⟩
  intro hnil
  rw [hnil] at ha
  simp at ha

end Count

/-! ## The committee is a function of (validator set, seed permutation, limit) -/

/-- the law assumed of Go's `rand.Perm(n)`: it returns a permutation of `0 … n-1` -/
def PermLaw (perm : List Nat) (n : Nat) : Prop := perm.Perm (List.range n)

/-- **`committee_deterministic`** (1): the sorted validator list does not depend on the order in which the online
set is enumerated (a Go map in `UpdateFromIdentityStateDiff`, tree order in `loadValidNodes`), nor on how often a
node is met: equal member sets give the *same list*. -/
theorem committee_deterministic (v : View) (nodes₁ nodes₂ : List Nat) (h : ∀ n, n ∈ nodes₁ ↔ n ∈ nodes₂) :
    buildSorted v nodes₁ = buildSorted v nodes₂ := by
  apply strictDesc_ext (strictDesc_buildSorted v nodes₁) (strictDesc_buildSorted v nodes₂)
  intro x
  rw [mem_buildSorted, mem_buildSorted]
  constructor
  · rintro ⟨n, hn, hc⟩; exact ⟨n, (h n).mp hn, hc⟩
  · rintro ⟨n, hn, hc⟩; exact ⟨n, (h n).mpr hn, hc⟩

/-- **`committee_deterministic`** (2): `determineValidators` ranges over `set.ToSlice()` (arbitrary order); the
resulting voter set and approved set have the same members for every enumeration of the same drawn set. -/
theorem determine_order_irrelevant (v : View) (set₁ set₂ : List Nat) (h : ∀ a, a ∈ set₁ ↔ a ∈ set₂) :
    (∀ x, x ∈ (determineValidators v set₁).1 ↔ x ∈ (determineValidators v set₂).1) ∧
    (∀ x, x ∈ (determineValidators v set₁).2 ↔ x ∈ (determineValidators v set₂).2) := by
  refine ⟨fun x => ?_, fun x => ?_⟩
  · rw [mem_determine_validators, mem_determine_validators]
    constructor
    · rintro ⟨a, ha, e⟩; exact ⟨a, (h a).mp ha, e⟩
    · rintro ⟨a, ha, e⟩; exact ⟨a, (h a).mpr ha, e⟩
  · rw [mem_determine_approved, mem_determine_approved]
    constructor
    · rintro ⟨a, ha, e⟩; exact ⟨a, (h a).mp ha, e⟩
    · rintro ⟨a, ha, e⟩; exact ⟨a, (h a).mpr ha, e⟩

/-- the validator list a view gets from `load` is strictly descending (no duplicates) -/
theorem load_sorted_strictDesc (god : Nat) (ids : List Ident) : StrictDesc (load god ids).sorted := by
  simp only [load]; exact strictDesc_buildSorted _ _

/-- god-only mode: nobody online ⇒ the committee is the god address, whatever the limit -/
theorem committee_god_mode (v : View) (perm : List Nat) (limit : Nat) (h : v.online.length = 0) :
    getOnlineValidators v perm limit = some ⟨[v.god], [v.god], [v.god]⟩ := by
  simp [getOnlineValidators, h]

/-- the drawn set, as a list before it is turned into a set -/
theorem getOnlineValidators_shape (v : View) (perm : List Nat) (limit : Nat) (sv : StepValidators)
    (hon : v.online.length ≠ 0) (h : getOnlineValidators v perm limit = some sv) :
    limit ≤ v.sorted.length ∧
    ∃ drawn : List Nat,
      ((v.sorted.length = limit ∧ drawn = v.sorted) ∨
        (limit < v.sorted.length ∧ drawn = (perm.take limit).map (fun i => v.sorted.getD i 0))) ∧
      sv.original = listToSet drawn ∧ sv.validators = (determineValidators v (listToSet drawn)).1 ∧
      sv.approved = (determineValidators v (listToSet drawn)).2 := by
  unfold getOnlineValidators at h
  rw [if_neg hon] at h
  by_cases h1 : v.sorted.length = limit
  · rw [if_pos h1] at h
    simp only [Option.some.injEq] at h
    subst h
    exact ⟨by omega, v.sorted, Or.inl ⟨h1, rfl⟩, rfl, rfl, rfl⟩
  · rw [if_neg h1] at h
    by_cases h2 : v.sorted.length < limit
    · rw [if_pos h2] at h; cases h
    · rw [if_neg h2] at h
      simp only [Option.some.injEq] at h
      subst h
      exact ⟨by omega, _, Or.inr ⟨by omega, rfl⟩, rfl, rfl, rfl⟩

/-- **`committee_subset`.**  Every drawn member is a validator of the list; every approved voter is a voter; every
voter is the (pool of a) drawn member; there are at most as many approved voters as drawn members (so the
subtraction in `VotesCountSubtrahend` never goes negative). -/
theorem committee_subset (v : View) (perm : List Nat) (limit : Nat) (sv : StepValidators)
    (hlaw : PermLaw perm v.sorted.length) (hon : v.online.length ≠ 0)
    (h : getOnlineValidators v perm limit = some sv) :
    (∀ a ∈ sv.original, a ∈ v.sorted) ∧
    (∀ x ∈ sv.approved, x ∈ sv.validators) ∧
    (∀ x ∈ sv.validators, ∃ a ∈ sv.original, voterOf v a = x) ∧
    (∀ x ∈ sv.approved, ∃ a ∈ sv.original, voterOf v a = x ∧ approvedOf v a = true) ∧
    sv.approved.length ≤ sv.original.length := by
  obtain ⟨_, drawn, hdr, ho, hv, ha⟩ := getOnlineValidators_shape v perm limit sv hon h
  have hsub : ∀ a ∈ drawn, a ∈ v.sorted := by
    rcases hdr with ⟨_, rfl⟩ | ⟨_, rfl⟩
    · exact fun a ha => ha
    · intro a ha
      obtain ⟨i, hi, rfl⟩ := List.mem_map.mp ha
      have : i ∈ List.range v.sorted.length := (hlaw.mem_iff).mp (List.mem_of_mem_take hi)
      exact getD_mem (List.mem_range.mp this)
  refine ⟨?_, ?_, ?_, ?_, ?_⟩
  · intro a hao
    rw [ho, listToSet_eq, mem_insertAll] at hao
    rcases hao with hao | hao
    · cases hao
    · exact hsub a hao
  · intro x hx
    rw [ha, mem_determine_approved] at hx
    obtain ⟨a, has, e, _⟩ := hx
    rw [hv, mem_determine_validators]; exact ⟨a, has, e⟩
  · intro x hx
    rw [hv, mem_determine_validators] at hx
    rw [ho]; exact hx
  · intro x hx
    rw [ha, mem_determine_approved] at hx
    rw [ho]; exact hx
  · rw [ha, ho]; exact determine_approved_length_le v _

/-- **`|Original| = limit`.**  When somebody is online and the view's validator list is duplicate-free (it always
is, `load_sorted_strictDesc`), the drawn set has exactly `limit` distinct members — under the law of `rand.Perm`. -/
theorem original_card (v : View) (perm : List Nat) (limit : Nat) (sv : StepValidators)
    (hs : StrictDesc v.sorted) (hlaw : PermLaw perm v.sorted.length) (hon : v.online.length ≠ 0)
    (h : getOnlineValidators v perm limit = some sv) :
    sv.original.length = limit ∧ sv.original.Nodup := by
  obtain ⟨hle, drawn, hdr, ho, _, _⟩ := getOnlineValidators_shape v perm limit sv hon h
  have hnd : v.sorted.Nodup := strictDesc_nodup hs
  have hdrawn : drawn.Nodup ∧ drawn.length = limit := by
    rcases hdr with ⟨h1, rfl⟩ | ⟨hlt, rfl⟩
    · exact ⟨hnd, h1⟩
    · have hpn : perm.Nodup := (hlaw.nodup_iff).mpr List.nodup_range
      have hplen : perm.length = v.sorted.length := by rw [hlaw.length_eq, List.length_range]
      have htn : (perm.take limit).Nodup := List.Nodup.sublist (List.take_sublist _ _) hpn
      have hlt' : ∀ i ∈ perm.take limit, i < v.sorted.length := by
        intro i hi
        exact List.mem_range.mp ((hlaw.mem_iff).mp (List.mem_of_mem_take hi))
      refine ⟨nodup_map_on ?_ htn, ?_⟩
      · intro i hi j hj e
        exact nodup_getD_inj hnd (hlt' i hi) (hlt' j hj) e
      · rw [List.length_map, List.length_take, hplen]; omega
  rw [ho, listToSet_eq]
  refine ⟨?_, nodup_insertAll List.nodup_nil⟩
  have := distinctCount_of_nodup hdrawn.1
  simp only [distinctCount] at this
  rw [this, hdrawn.2]

/-- **`block_cert_sound`** — `cert_sound` at the level of `ValidateBlockCert(prevBlock, block, cert, cache, …)`
with the committee spelled out: an accepted certificate holds `required` distinct voters, each recovered from one
of its signatures under the rebuilt header, and each of them is the god address (nobody online) or the voter
(`voterOf`: the identity itself or its pool) of an approved validator `a` drawn from the view's validator list for
(parent seed, block height, certificate step). -/
theorem block_cert_sound {σ : Type} (recover : σ → Msg → Option Nat) (useCache : Bool) (v : View) (perm : List Nat)
    (c : BlockCert σ) (prevHash blockHash height : Nat) (hlaw : PermLaw perm v.sorted.length)
    (h : validateBlockCert recover useCache v perm c prevHash blockHash height = .ok) :
    ∃ svv, getOnlineValidators v perm (committeeSize v.sorted.length (isFinal c.step)) = some svv ∧
      ∃ vs : List Nat, vs.Nodup ∧ required svv (votesThreshold v.sorted.length (isFinal c.step)) ≤ (vs.length : Int) ∧
        ∀ x ∈ vs,
          (∃ s ∈ c.sigs, countedB recover useCache c prevHash s = true ∧
              (recover s.sig (certMsg c prevHash s)).getD 0 = x) ∧
          ((v.online.length = 0 ∧ x = v.god) ∨
           (∃ a ∈ svv.original, a ∈ v.sorted ∧ voterOf v a = x ∧ approvedOf v a = true)) := by
  simp only [validateBlockCert] at h
  obtain ⟨svv, hsv, vs, hnd, hq, hvs, _, _, _⟩ := cert_sound recover useCache _ _ c prevHash blockHash height h
  refine ⟨svv, hsv, vs, hnd, hq, ?_⟩
  intro x hx
  obtain ⟨hap, hs⟩ := hvs x hx
  refine ⟨hs, ?_⟩
  have hxa : x ∈ svv.approved := by simpa using hap
  by_cases hon : v.online.length = 0
  · left
    rw [committee_god_mode v perm _ hon] at hsv
    simp only [Option.some.injEq] at hsv
    subst hsv
    simp only [List.mem_singleton] at hxa
    exact ⟨hon, hxa⟩
  · right
    obtain ⟨h1, _, _, h4, _⟩ := committee_subset v perm _ svv hlaw hon hsv
    obtain ⟨a, ha, e1, e2⟩ := h4 x hxa
    exact ⟨a, ha, h1 a ha, e1, e2⟩

/-! ## `required` can be zero or negative (finding F11: documented, not a violation of the statement) -/

/-- with `required ≤ 0` the certificate without signatures passes, whatever round and hash it names: the round /
hash comparison sits inside the loop over the signatures -/
theorem empty_cert_ok_of_required_le_zero {σ : Type} (recover : σ → Msg → Option Nat) (useCache : Bool)
    (svv : StepValidators) (thr : Nat) (hreq : required svv thr ≤ 0)
    (round step voted prevHash blockHash height : Nat) :
    validateCore recover useCache (some svv) thr { round := round, step := step, voted := voted, sigs := [] }
      prevHash blockHash height = .ok := by
  rw [cert_ok_iff]
  refine ⟨svv, rfl, (by intro s hs; cases hs), ?_⟩
  simp only [countedAddrs, List.filter_nil, List.map_nil, distinctCount, insertAll, List.foldl_nil, List.length_nil]
  exact hreq

/-- five online validators, four of them discriminated (F11) -/
def f11Registry : List Ident :=
  [⟨1, true, true, false, none⟩, ⟨2, true, true, true, none⟩, ⟨3, true, true, true, none⟩,
   ⟨4, true, true, true, none⟩, ⟨5, true, true, true, none⟩]

/-- seven online validators, all discriminated -/
def allDiscriminated7 : List Ident :=
  [⟨1, true, true, true, none⟩, ⟨2, true, true, true, none⟩, ⟨3, true, true, true, none⟩,
   ⟨4, true, true, true, none⟩, ⟨5, true, true, true, none⟩, ⟨6, true, true, true, none⟩,
   ⟨7, true, true, true, none⟩]

/-- **`required_can_be_zero`.**  5 validators, 4 discriminated: threshold 3, subtrahend `round(4·0.65) = 3`, so
`required = 0` and the empty certificate is accepted for every round and hash; 7 validators, all discriminated:
`required = 4 − round(7·0.65) = −1`. -/
theorem required_can_be_zero :
    ((getOnlineValidators (load 0 f11Registry) [] (committeeSize 5 false)).map
        (fun sv => required sv (votesThreshold 5 false)) = some 0) ∧
    (∀ round voted prevHash blockHash height : Nat,
      validateBlockCert (σ := Unit) (fun _ _ => none) false (load 0 f11Registry) []
        { round := round, step := 1, voted := voted, sigs := [] } prevHash blockHash height = .ok) ∧
    ((getOnlineValidators (load 0 allDiscriminated7) [] (committeeSize 7 false)).map
        (fun sv => required sv (votesThreshold 7 false)) = some (-1)) := by
  refine ⟨by decide, ?_, by decide⟩
  intro round voted prevHash blockHash height
  have hlen : (load 0 f11Registry).sorted.length = 5 := by decide
  have hsv : ∃ svv, getOnlineValidators (load 0 f11Registry) [] (committeeSize 5 false) = some svv ∧
      required svv (votesThreshold 5 false) = 0 := by
    have h : (getOnlineValidators (load 0 f11Registry) [] (committeeSize 5 false)).map
        (fun sv => required sv (votesThreshold 5 false)) = some 0 := by decide
    cases hg : getOnlineValidators (load 0 f11Registry) [] (committeeSize 5 false) with
    | none => rw [hg] at h; cases h
    | some svv => rw [hg] at h; exact ⟨svv, rfl, by simpa using h⟩
  obtain ⟨svv, hg, hr⟩ := hsv
  have hfin : isFinal 1 = false := by decide
  simp only [validateBlockCert, hlen, hfin, hg]
  exact empty_cert_ok_of_required_le_zero _ _ svv _ (by omega) _ _ _ _ _ _

/-! ## `ValidateBlockCert` never dereferences a nil committee -/

theorem committeeSize_le (cnt : Nat) (final : Bool) : committeeSize cnt final ≤ cnt := by
  by_cases h8 : cnt ≤ 8
  · simp [committeeSize, h8]
  · by_cases h100 : 100 ≤ cnt
    · simp only [committeeSize, h8, if_false, maxCommitteeSize]
      split <;> split <;> omega
    · have key : ∀ c : Fin 100, ∀ f : Bool, committeeSize c.val f ≤ c.val := by decide
      exact key ⟨cnt, by omega⟩ final

/-- the committee `ValidateBlockCert`/`countVotes` ask for always exists: the limit they pass never exceeds the
number of validators -/
theorem committee_exists (v : View) (perm : List Nat) (final : Bool) :
    (getOnlineValidators v perm (committeeSize v.sorted.length final)).isSome = true := by
  unfold getOnlineValidators
  have := committeeSize_le v.sorted.length final
  split
  · rfl
  · split
    · rfl
    · split
      · omega
      · rfl

theorem validate_never_panics {σ : Type} (recover : σ → Msg → Option Nat) (useCache : Bool) (v : View)
    (perm : List Nat) (c : BlockCert σ) (prevHash blockHash height : Nat) :
    validateBlockCert recover useCache v perm c prevHash blockHash height ≠ .panic := by
  simp only [validateBlockCert]
  have hex := committee_exists v perm (isFinal c.step)
  cases hsv : getOnlineValidators v perm (committeeSize v.sorted.length (isFinal c.step)) with
  | none => rw [hsv] at hex; cases hex
  | some svv =>
    simp only [validateCore]
    by_cases hall : ∀ s ∈ c.sigs, countedB recover useCache c prevHash s = true →
        SigGood recover (fun a => svv.approved.contains a) c prevHash blockHash height s
    · rw [certLoop_ok recover _ useCache c prevHash blockHash height c.sigs [] hall]
      simp only []
      split <;> simp
    · have hex : ∃ s ∈ c.sigs, countedB recover useCache c prevHash s = true ∧
          ¬ SigGood recover (fun a => svv.approved.contains a) c prevHash blockHash height s := by
        apply Classical.byContradiction
        intro hne
        apply hall
        intro s hs hc
        apply Classical.byContradiction
        intro hb
        exact hne ⟨s, hs, hc, hb⟩
      obtain ⟨e, he, hcls⟩ := certLoop_err recover _ useCache c prevHash blockHash height c.sigs [] hex
      rw [he]
      rcases hcls with rfl | rfl | rfl <;> simp

/-! ## `required` is non-negative whenever somebody is approved, so the vote counter never panics -/

theorem subtrahend_step : ∀ a : Fin 100, subtrahend a.val ≤ subtrahend (a.val + 1) := by decide

theorem subtrahend_mono {a b : Nat} (hab : a ≤ b) (hb : b ≤ 100) : subtrahend a ≤ subtrahend b := by
  induction b with
  | zero =>
    have : a = 0 := by omega
    subst this; exact Nat.le_refl _
  | succ n ih =>
    rcases Nat.lt_or_eq_of_le hab with h | h
    · have h1 := ih (by omega) (by omega)
      have h2 := subtrahend_step ⟨n, by omega⟩
      simp only [] at h2
      omega
    · subst h; exact Nat.le_refl _

theorem committeeSize_le_max (cnt : Nat) (final : Bool) (h : 8 < cnt) : committeeSize cnt final ≤ 100 := by
  have h8 : ¬ cnt ≤ 8 := by omega
  simp only [committeeSize, h8, if_false, maxCommitteeSize]
  split <;> split <;> omega

/-- with the protocol's formulas, `d` non-approved members out of a committee of `committeeSize cnt final`, at least
one approved: the subtrahend does not exceed the threshold -/
theorem subtrahend_le_threshold (cnt : Nat) (final : Bool) (d : Nat) (hd : d < committeeSize cnt final) :
    subtrahend d ≤ votesThreshold cnt final := by
  by_cases h8 : cnt ≤ 8
  · have key : ∀ c : Fin 9, ∀ f : Bool, ∀ x : Fin 9, x.val < committeeSize c.val f →
        subtrahend x.val ≤ votesThreshold c.val f := by decide
    have hsz : committeeSize cnt final = cnt := by simp [committeeSize, h8]
    exact key ⟨cnt, by omega⟩ final ⟨d, by omega⟩ hd
  · have hmax := committeeSize_le_max cnt final (by omega)
    have hthr : votesThreshold cnt final = subtrahend (committeeSize cnt final) := by
      have h1 : ¬ cnt ≤ 1 := by omega
      have h3 : ¬ cnt ≤ 3 := by omega
      have h5 : ¬ cnt ≤ 5 := by omega
      have h7 : ¬ cnt ≤ 7 := by omega
      have h8' : ¬ cnt = 8 := by omega
      simp [votesThreshold, subtrahend, h1, h3, h5, h7, h8']
    rw [hthr]
    exact subtrahend_mono (by omega) hmax

/-- **`required_nonneg_of_approved`**: for the committee the code draws, `required ≥ 0` as soon as one voter is
approved (`required` is `−1` only for seven validators that are all discriminated). -/
theorem required_nonneg_of_approved (v : View) (perm : List Nat) (final : Bool) (svv : StepValidators)
    (hs : StrictDesc v.sorted) (hlaw : PermLaw perm v.sorted.length)
    (h : getOnlineValidators v perm (committeeSize v.sorted.length final) = some svv) (hne : svv.approved ≠ []) :
    0 ≤ required svv (votesThreshold v.sorted.length final) := by
  by_cases hon : v.online.length = 0
  · rw [committee_god_mode v perm _ hon] at h
    simp only [Option.some.injEq] at h
    subst h
    have h0 : subtrahend 0 = 0 := by decide
    simp only [required, List.length_cons, List.length_nil, Nat.sub_self, h0]
    omega
  · obtain ⟨hcard, _⟩ := original_card v perm _ svv hs hlaw hon h
    have hle := (committee_subset v perm _ svv hlaw hon h).2.2.2.2
    have hpos : 0 < svv.approved.length := by
      cases ha : svv.approved with
      | nil => exact absurd ha hne
      | cons _ _ => simp
    have := subtrahend_le_threshold v.sorted.length final (svv.original.length - svv.approved.length) (by omega)
    simp only [required]
    omega

/-- **`countVotes_never_panics`**: with the committee and threshold the call sites pass, the vote counter never
reaches `make` with a negative capacity. -/
theorem countVotes_never_panics {σ : Type} (recover : σ → Msg → Option Nat) (iterOrder : RoundVotes σ → RoundVotes σ)
    (hperm : ∀ l, (iterOrder l).Perm l) (v : View) (perm : List Nat) (hs : StrictDesc v.sorted)
    (hlaw : PermLaw perm v.sorted.length) (step parentHash : Nat) (polls : List (List (Vote σ))) :
    countVotes recover iterOrder (getOnlineValidators v perm (committeeSize v.sorted.length (isFinal step)))
      (votesThreshold v.sorted.length (isFinal step)) step parentHash polls ≠ .panic := by
  intro hres
  cases hsv : getOnlineValidators v perm (committeeSize v.sorted.length (isFinal step)) with
  | none => rw [hsv] at hres; simp [countVotes] at hres
  | some svv =>
    rw [hsv] at hres
    obtain ⟨hneg, hne⟩ := countVotes_panic_only_if recover iterOrder hperm svv _ step parentHash polls hres
    have := required_nonneg_of_approved v perm (isFinal step) svv hs hlaw hsv hne
    omega

/-! ## Vote admission keeps the store's round discipline -/

section Admission
variable {σ : Type} (recover : σ → Msg → Option Nat)

/-- every vote filed under round `r` has `Header.Round = r` -/
def StoreInv (st : VoteStore σ) : Prop := ∀ p ∈ st.byRound, ∀ x ∈ p.2, x.round = p.1

theorem storeInv_empty : StoreInv (VoteStore.empty : VoteStore σ) := by
  intro p hp; cases hp

theorem votesOf_round {st : VoteStore σ} (h : StoreInv st) (r : Nat) : ∀ x ∈ st.votesOf r, x.round = r := by
  intro x hx
  simp only [VoteStore.votesOf] at hx
  cases hl : st.byRound.lookup r with
  | none => rw [hl] at hx; cases hx
  | some vs => rw [hl] at hx; exact h (r, vs) (lookup_mem hl) x hx

/-- **`addVote_store_round`**: `AddVote` preserves the discipline `countVotes_emits_valid` relies on, and an
admitted vote is inside the round window and (when anybody is online) from an online identity. -/
theorem addVote_store_round (online : List Nat) (head : Nat) (st : VoteStore σ) (v : Vote σ) (h : StoreInv st) :
    StoreInv (addVote recover online head st v).1 ∧
    ((addVote recover online head st v).2 = true →
      ¬ (head > 3 ∧ v.round < head - 3) ∧ ¬ (head < v.round ∧ v.round - head > 30) ∧
      (online.length = 0 ∨ online.contains (voterAddr recover v) = true) ∧
      v ∈ (addVote recover online head st v).1.votesOf v.round) := by
  unfold addVote
  split
  · exact ⟨h, by intro hh; cases hh⟩
  · split
    · exact ⟨h, by intro hh; cases hh⟩
    · simp only []
      split
      · exact ⟨h, by intro hh; cases hh⟩
      · split
        · exact ⟨h, by intro hh; cases hh⟩
        · rename_i h1 h2 h3 h4
          refine ⟨?_, ?_⟩
          · intro p hp x hx
            rcases mem_assocSet hp with rfl | hp
            · rcases List.mem_append.mp hx with hx | hx
              · exact votesOf_round h v.round x hx
              · simp only [List.mem_singleton] at hx; subst hx; rfl
            · exact h p hp x hx
          · intro _
            refine ⟨h1, h2, ?_, ?_⟩
            · cases hc : online.contains (voterAddr recover v) with
              | true => exact Or.inr rfl
              | false =>
                left
                apply Classical.byContradiction
                intro hne
                exact h4 ⟨by omega, hc⟩
            · simp only [VoteStore.votesOf]
              rw [lookup_assocSet_self]
              simp

end Admission

/-! ## Non-vacuity: concrete instances of the hypotheses (toy signature scheme satisfying the law) -/

namespace Witness

/-- toy scheme: a signature is the pair (key, message); recovery under another message yields a garbage address,
recovery of key 0 fails -/
def sign (k : Nat) (m : Msg) : Nat × Msg := (k, m)
def recover (s : Nat × Msg) (m : Msg) : Option Nat :=
  if s.1 = 0 then none else if s.2 = m then some s.1 else some (s.1 + 1000)

theorem law : ∀ k m, k ≠ 0 → recover (sign k m) m = some k := by
  intro k m hk; simp [recover, sign, hk]

/-- four online validated identities 1..4 (threshold 3), god = 9 -/
def reg4 : List Ident :=
  [⟨1, true, true, false, none⟩, ⟨2, true, true, false, none⟩, ⟨3, true, true, false, none⟩,
   ⟨4, true, true, false, none⟩]

def msg (_k : Nat) : Msg := { round := 7, step := 1, parent := 11, voted := 22, off := false, upg := 0 }
def sg (k : Nat) : CertSig (Nat × Msg) := { off := false, upg := 0, sig := sign k (msg k) }
def cert (ks : List Nat) : BlockCert (Nat × Msg) := { round := 7, step := 1, voted := 22, sigs := ks.map sg }

-- `cert_sound` / `cert_ok_iff` are not vacuous: a quorum of three distinct members is accepted on both paths
example : validateBlockCert recover false (load 9 reg4) [] (cert [1, 2, 3]) 11 22 7 = .ok := by decide
example : validateBlockCert recover true (load 9 reg4) [] (cert [3, 1, 4, 1]) 11 22 7 = .ok := by decide
-- a duplicate does not raise the count; two distinct members are not enough
example : validateBlockCert recover false (load 9 reg4) [] (cert [1, 1, 2, 2, 1]) 11 22 7 = .notEnough := by decide
-- an outsider's (valid) signature, or a member's vote signed for another round, rejects the certificate
example : validateBlockCert recover false (load 9 reg4) [] (cert [1, 2, 3, 8]) 11 22 7 = .invalidVoter := by decide
example : validateBlockCert recover false (load 9 reg4) []
    { cert [1, 2, 3] with sigs := (cert [1, 2]).sigs ++ [{ off := false, upg := 0, sig := sign 3 { msg 3 with round := 6 } }] }
    11 22 7 = .invalidVoter := by decide
-- the certificate of a quorum for another height / another hash is rejected
example : validateBlockCert recover false (load 9 reg4) [] (cert [1, 2, 3]) 11 22 8 = .invalidRound := by decide
example : validateBlockCert recover false (load 9 reg4) [] (cert [1, 2, 3]) 11 23 7 = .invalidHash := by decide
-- an unrecoverable signature: zero address (rejected) on the full path, skipped on the fast-sync path
example : validateBlockCert recover false (load 9 reg4) [] (cert [1, 2, 3, 0]) 11 22 7 = .invalidVoter := by decide
example : validateBlockCert recover true (load 9 reg4) [] (cert [1, 2, 3, 0]) 11 22 7 = .ok := by decide

-- the hypotheses of `cert_complete` are satisfiable with a non-trivial vote list
example : ∃ svv, getOnlineValidators (load 9 reg4) [] (committeeSize 4 false) = some svv ∧
    (∀ x ∈ [(1, false, 0), (2, true, 1), (4, false, 2)], svv.approved.contains (id x.1) = true) ∧
    required svv (votesThreshold 4 false) ≤
      (distinctCount (([(1, false, 0), (2, true, 1), (4, false, 2)] : List (Nat × Bool × Nat)).map (fun x => id x.1)) : Int) := by
  cases h : getOnlineValidators (load 9 reg4) [] (committeeSize 4 false) with
  | none => exact absurd h (by decide)
  | some svv =>
    refine ⟨svv, rfl, ?_, ?_⟩
    · have : (getOnlineValidators (load 9 reg4) [] (committeeSize 4 false)).map
          (fun sv => [1, 2, 4].all (fun a => sv.approved.contains a)) = some true := by decide
      rw [h] at this
      simp only [Option.map_some, Option.some.injEq, List.all_cons, List.all_nil, Bool.and_true,
        Bool.and_eq_true] at this
      intro x hx
      simp only [List.mem_cons, List.mem_nil_iff, or_false] at hx
      rcases hx with rfl | rfl | rfl
      · exact this.1
      · exact this.2.1
      · exact this.2.2
    · have : (getOnlineValidators (load 9 reg4) [] (committeeSize 4 false)).map
          (fun sv => required sv (votesThreshold 4 false)) = some 3 := by decide
      rw [h] at this
      simp only [Option.map_some, Option.some.injEq] at this
      rw [this]; decide

def vote (k hsh : Nat) : Vote (Nat × Msg) :=
  { round := 7, step := 1, parent := 11, voted := hsh, off := false, upg := 0,
    sig := sign k { round := 7, step := 1, parent := 11, voted := hsh, off := false, upg := 0 } }

/-- found hash and the validator's verdict on the compressed certificate (fast-sync path) -/
def _root_.IdenaModel.Cert.CountRes.verdict (r : CountRes (Nat × Msg)) : Option (Nat × Verdict) :=
  match r with
  | .found h l => some (h, validateBlockCert recover true (load 9 reg4) [] (compress l) 11 h 7)
  | _ => none

-- `countVotes_emits_valid` is not vacuous: with equivocation, an outsider and a duplicate in the map, the counter
-- finds a certificate for hash 22 (in the second poll), and it validates
example : (countVotes recover id (getOnlineValidators (load 9 reg4) [] (committeeSize 4 false))
    (votesThreshold 4 false) 1 11
    [[vote 1 22, vote 2 33, vote 8 22], [vote 1 22, vote 2 33, vote 8 22, vote 2 22, vote 1 22, vote 3 22]]).verdict
    = some (22, .ok) := by decide
-- `original_card` / `committee_subset`: a drawn committee (10 validators, limit 3, some permutation)
def reg10 : List Ident := (List.range 10).map (fun i => ⟨i + 1, true, true, i % 3 == 0, none⟩)
example : ((getOnlineValidators (load 9 reg10) [4, 9, 0, 2, 1, 3, 5, 6, 7, 8] (committeeSize 10 false)).map
    (fun sv => (sv.original.length, sv.approved.length))) = some (3, 1) := by decide

end Witness

end IdenaModel.Cert
