import IdenaModel.Proofs.RpcGate
/-!
# C19 — with an API key configured, no RPC request without it reaches any method

Model: `Model/RpcGate.lean` (json.go `parseRequest`/`parseBatchRequest`, server.go `readRequest`/`handle`/
`exec`/`execBatch`), for an arbitrary service registry, any transport (`Cfg.notifier` = pub-sub capable or
not) and any connection state.

* `gate` / `gate_batch` — a request (alone / at any position of a batch) whose effective `key` member is not
  exactly the configured key is answered with an error, no method body runs for it, no subscription is
  created or cancelled, the connection state is what it would be without it.
* `gate_no_member` — the same under the strictest reading: no `key` member of the request has the configured
  key as its value (whatever duplicates / nulls / case variants of the member name there are).
* `wellformed_gets_invalid_key_error` (+ `_batch`) — an otherwise well-formed request gets exactly −32800.
* `batch_pointwise` — a batch that parses is executed element by element; `unkeyed_elements_inert` — deleting
  the elements without the key from it changes neither the outcome of the others nor the final state;
  `keyed_in_batch_served_as_alone` — an element with the key placed after elements without it is answered
  exactly as if it had been sent alone; `keyed_as_ungated` — it is resolved as by a server without a key.
* `unkeyed_session_inert` — any sequence of messages none of whose elements carries the key leaves the
  connection state untouched and is refused element by element.
* `node_key_nonempty` / `node_gate` — `config.SetApiKey` never leaves the node without a key.
* `effectiveKey_never_empty` / `persist_failure_refuses_start` / `effectiveKey_gate` — start-up clause: the node
  either refuses to start (key cannot be persisted) or runs with a non-empty key that gates every request.
* `initial_endpoint_gated` — with the repaired constructor ordering the *initial* endpoint is gated by the resolved
  key too; `initial_endpoint_ungated_as_found` — the witness of finding F34 (ordering before the repair).
* `gate_before_every_branch` — for every statement list of the `readRequest` loop body that passes
  `gateFirst` (checked at run time on the list regenerated from /repo's source), whatever the guards of the
  other branches are, the statement that decides a key-less request is the gate.
-/
namespace IdenaModel.RpcGate

/-- the reply is an error for every element and nothing ran -/
def Reply.Refused : Reply → Prop
  | .msgErr _ => True
  | .one o => ∃ c, o = .err c
  | .many os => ∀ o ∈ os, ∃ c, o = .err c

theorem err_no_effect (c : Int) :
    (Outcome.err c).isError = true ∧ (Outcome.err c).invocations = 0 ∧ (Outcome.err c).subsDelta = 0 := by
  simp [Outcome.isError, Outcome.code, Outcome.invocations, Outcome.subsDelta]

/-- **gate, single request.**  With a key configured, a request whose effective key is not exactly that key
is answered with one error (message-level, or the element's own), the state of the connection is unchanged,
and the outcome is an `err`: no invocation, no subscription change. -/
theorem gate (cfg : Cfg) (st : St) (e : Elem) (hk : cfg.apiKey ≠ [])
    (hu : effKey e.keys ≠ some cfg.apiKey) (hp : st.pending = []) :
    (serve cfg st (.single e)).1 = st ∧
    ((∃ c, (serve cfg st (.single e)).2 = .msgErr c) ∨ (∃ c, (serve cfg st (.single e)).2 = .one (.err c))) := by
  cases hpr : parseRequest e with
  | error c => simp [serve, hpr]
  | ok r =>
    have hr : r.key ≠ cfg.apiKey := by
      unfold parseRequest at hpr
      split at hpr
      · cases hpr
      · rename_i j hj
        split at hpr
        · cases hpr
        · rw [classify_ok_key hpr]; exact decode_unkeyed hj hk hu
    simp [serve, hpr, resolve_gate hk hr, handle_err, activate_idle hp]

/-- every outcome of the reply to such a request is an error without invocation or subscription change -/
theorem gate_outcomes (cfg : Cfg) (st : St) (e : Elem) (hk : cfg.apiKey ≠ [])
    (hu : effKey e.keys ≠ some cfg.apiKey) (hp : st.pending = []) :
    ∀ o ∈ (serve cfg st (.single e)).2.outcomes, o.isError = true ∧ o.invocations = 0 ∧ o.subsDelta = 0 := by
  intro o ho
  rcases (gate cfg st e hk hu hp).2 with ⟨c, h⟩ | ⟨c, h⟩
  · rw [h] at ho; simp [Reply.outcomes] at ho
  · rw [h] at ho; simp [Reply.outcomes] at ho; subst ho; exact err_no_effect c

/-- strict reading of "does not carry the key": no `key` member has the configured key as its value -/
theorem effKey_of_no_member {ks : List KeyVal} {k : Str} (hk : k ≠ []) (h : KeyVal.str k ∉ ks) :
    effKey ks ≠ some k := by
  have aux : ∀ (ks : List KeyVal) (cur : Str), cur ≠ k → KeyVal.str k ∉ ks → foldKey cur ks ≠ some k := by
    intro ks
    induction ks with
    | nil => intro cur hc _; simpa [foldKey] using hc
    | cons a t ih =>
      intro cur hc hm
      have hm' : KeyVal.str k ∉ t := fun x => hm (List.mem_cons_of_mem _ x)
      cases a with
      | null => simpa [foldKey] using ih cur hc hm'
      | nonString => simp [foldKey]
      | str s =>
        have hs : s ≠ k := fun x => hm (by simp [x])
        simpa [foldKey] using ih s hs hm'
  exact aux ks [] (fun x => hk x.symm) h

theorem gate_no_member (cfg : Cfg) (st : St) (e : Elem) (hk : cfg.apiKey ≠ [])
    (hu : KeyVal.str cfg.apiKey ∉ e.keys) (hp : st.pending = []) :
    (serve cfg st (.single e)).1 = st ∧
    ((∃ c, (serve cfg st (.single e)).2 = .msgErr c) ∨ (∃ c, (serve cfg st (.single e)).2 = .one (.err c))) :=
  gate cfg st e hk (effKey_of_no_member hk hu) hp

/-- **batch_pointwise.**  A batch that parses is executed element by element: each element is resolved on
its own (`resolve` looks at nothing but the element) and handled in the state left by its predecessors;
subscriptions created by the batch are activated after the response. -/
theorem batch_pointwise (cfg : Cfg) (st : St) (es : List Elem) (rs : List RpcReq)
    (h : parseBatch es = .ok rs) :
    serve cfg st (.batch es) = (activate (runElems cfg st rs).1, .many (runElems cfg st rs).2) ∧
    (runElems cfg st rs).2.length = es.length ∧ All2 ElemRel es rs := by
  refine ⟨?_, ?_, parseBatch_rel h⟩
  · simp [serve, h, handleAll_map_resolve]
  · rw [runElems_length, (parseBatch_rel h).length_eq]

/-- the parsed form of a batch element that does not carry the key has a different key -/
theorem elemRel_unkeyed {cfg : Cfg} {e : Elem} {r : RpcReq} (hk : cfg.apiKey ≠ []) (h : ElemRel e r)
    (hu : effKey e.keys ≠ some cfg.apiKey) : r.key ≠ cfg.apiKey := by
  obtain ⟨j, hj, _, hc⟩ := h
  rw [classify_ok_key hc]; exact decode_unkeyed hj hk hu

/-- **gate, batch, any position.**  Either the whole message is refused with one message-level error, or
there is one outcome per element and the outcome at every position whose element does not carry the key is
an error (so: no invocation, no subscription change for it), namely the invalid-key error unless the method
name of that element does not even have the form `service_method` (−32601, json.go:267). -/
theorem gate_batch (cfg : Cfg) (st : St) (es : List Elem) (hk : cfg.apiKey ≠ []) :
    ((serve cfg st (.batch es)).1 = st ∧ ∃ c, (serve cfg st (.batch es)).2 = .msgErr c) ∨
    (∃ os, (serve cfg st (.batch es)).2 = .many os ∧ os.length = es.length ∧
      ∀ (i : Nat) (e : Elem) (o : Outcome), es[i]? = some e → os[i]? = some o →
        effKey e.keys ≠ some cfg.apiKey → o = .err codeInvalidKey ∨ o = .err codeMethodNotFound) := by
  cases hpb : parseBatch es with
  | error c => left; simp [serve, hpb]
  | ok rs =>
    right
    obtain ⟨hs, hl, hrel⟩ := batch_pointwise cfg st es rs hpb
    refine ⟨_, by rw [hs], hl, ?_⟩
    -- position i: split the run at i
    intro i e o he ho hu
    have hrl : rs.length = es.length := hrel.length_eq.symm
    have hi : i < rs.length := by
      have : i < es.length := by
        rcases Nat.lt_or_ge i es.length with h | h
        · exact h
        · simp [List.getElem?_eq_none h] at he
      omega
    have hr := hrel.get i e rs[i] he (by simp [hi])
    have hkey := elemRel_unkeyed hk hr hu
    -- rs = take i ++ rs[i] :: drop (i+1)
    have hsplit : rs = rs.take i ++ rs[i] :: rs.drop (i + 1) := by simp
    have hrun := runElems_append cfg st (rs.take i) (rs[i] :: rs.drop (i + 1))
    rw [← hsplit] at hrun
    rw [hrun] at ho
    simp only [runElems, elemStep_unkeyed _ hk hkey] at ho
    have hlen : (runElems cfg st (rs.take i)).2.length = i := by
      rw [runElems_length]; simp; omega
    rw [List.getElem?_append_right (by omega)] at ho
    simp [hlen] at ho
    subst ho
    cases hre : rs[i].err with
    | none => left; simp
    | some c =>
      right
      obtain ⟨j, _, _, hc⟩ := hr
      simp [classify_err_code hc hre]

/-- a batch none of whose elements carries the key: nothing runs, the state is unchanged -/
theorem gate_batch_all (cfg : Cfg) (st : St) (es : List Elem) (hk : cfg.apiKey ≠ [])
    (hu : ∀ e ∈ es, effKey e.keys ≠ some cfg.apiKey) (hp : st.pending = []) :
    (serve cfg st (.batch es)).1 = st ∧ (serve cfg st (.batch es)).2.Refused := by
  cases hpb : parseBatch es with
  | error c => simp [serve, hpb, Reply.Refused]
  | ok rs =>
    obtain ⟨hs, _, hrel⟩ := batch_pointwise cfg st es rs hpb
    have hall : ∀ r ∈ rs, r.key ≠ cfg.apiKey := by
      intro r hr
      obtain ⟨e, he, hre⟩ := hrel.mem_left r hr
      exact elemRel_unkeyed hk hre (hu e he)
    rw [hs, runElems_all_unkeyed hk st rs hall]
    refine ⟨activate_idle hp, ?_⟩
    simp only [Reply.Refused]
    intro o ho
    simp at ho
    obtain ⟨r, _, rfl⟩ := ho
    exact ⟨_, rfl⟩

/-! ### whole sessions -/

def Msg.elems : Msg → List Elem
  | .garbage => []
  | .single e => [e]
  | .batch es => es

/-- a connection's history: messages served one after the other -/
def serveAll (cfg : Cfg) : St → List Msg → St × List Reply
  | st, [] => (st, [])
  | st, m :: t =>
    let x := serve cfg st m
    let rest := serveAll cfg x.1 t
    (rest.1, x.2 :: rest.2)

/-- **a session without the key is inert.**  Whatever sequence of messages (single requests, batches,
garbage) is sent on a connection, if none of their elements carries the key then every reply refuses every
element and the connection state (active subscriptions, subscription counter) at the end is the initial one:
nothing ran, nothing was created, nothing was cancelled. -/
theorem unkeyed_session_inert (cfg : Cfg) (hk : cfg.apiKey ≠ []) : ∀ (ms : List Msg) (st : St),
    st.pending = [] → (∀ m ∈ ms, ∀ e ∈ m.elems, effKey e.keys ≠ some cfg.apiKey) →
    (serveAll cfg st ms).1 = st ∧ ∀ r ∈ (serveAll cfg st ms).2, r.Refused
  | [], st, _, _ => by simp [serveAll]
  | m :: t, st, hp, hu => by
    have hm : ∀ e ∈ m.elems, effKey e.keys ≠ some cfg.apiKey := hu m (by simp)
    have ht : ∀ m' ∈ t, ∀ e ∈ m'.elems, effKey e.keys ≠ some cfg.apiKey := fun m' h => hu m' (by simp [h])
    have h1 : (serve cfg st m).1 = st ∧ (serve cfg st m).2.Refused := by
      cases m with
      | garbage => simp [serve, Reply.Refused]
      | single e =>
        obtain ⟨hs, hr⟩ := gate cfg st e hk (hm e (by simp [Msg.elems])) hp
        refine ⟨hs, ?_⟩
        rcases hr with ⟨c, h⟩ | ⟨c, h⟩ <;> rw [h] <;> simp [Reply.Refused]
      | batch es => exact gate_batch_all cfg st es hk (fun e he => hm e (by simpa [Msg.elems] using he)) hp
    have ih := unkeyed_session_inert cfg hk t st hp ht
    simp only [serveAll, h1.1]
    refine ⟨ih.1, ?_⟩
    intro r hr
    rcases List.mem_cons.mp hr with rfl | hr'
    · exact h1.2
    · exact ih.2 r hr'

/-- **unkeyed elements are inert.**  In a batch that parses, deleting the elements that do not carry the key
changes neither the state after the batch nor the outcome of any element that does carry it. -/
theorem unkeyed_elements_inert (cfg : Cfg) (st : St) (rs : List RpcReq) (hk : cfg.apiKey ≠ []) :
    (runElems cfg st (rs.filter fun r => r.key = cfg.apiKey)).1 = (runElems cfg st rs).1 ∧
    (runElems cfg st (rs.filter fun r => r.key = cfg.apiKey)).2 =
      ((rs.zip (runElems cfg st rs).2).filter fun p => p.1.key = cfg.apiKey).map (·.2) :=
  runElems_filter_keyed hk st rs

/-- a request that carries the key is resolved exactly as by a server that has no key configured -/
theorem keyed_as_ungated (cfg : Cfg) (r : RpcReq) (h : r.key = cfg.apiKey) :
    resolve cfg r = resolve { cfg with apiKey := [] } r := resolve_keyed h

/-- **keyed elements are still served.**  An element that parses on its own, placed in a batch after
elements none of which carries the key (and before arbitrary others), gets exactly the outcome it gets
when sent alone in the same connection state. -/
theorem keyed_in_batch_served_as_alone (cfg : Cfg) (st : St) (pre post : List Elem) (e : Elem)
    (rs : List RpcReq) (r : RpcReq) (hk : cfg.apiKey ≠ [])
    (hpre : ∀ x ∈ pre, effKey x.keys ≠ some cfg.apiKey)
    (hb : parseBatch (pre ++ e :: post) = .ok rs) (hs : parseRequest e = .ok r) :
    ∃ os o, (serve cfg st (.batch (pre ++ e :: post))).2 = .many os ∧
      (serve cfg st (.single e)).2 = .one o ∧ os[pre.length]? = some o := by
  obtain ⟨hsv, _, hrel⟩ := batch_pointwise cfg st _ rs hb
  -- the single parse and the batch parse of `e` agree
  have hlen : rs.length = pre.length + (post.length + 1) := by
    rw [← hrel.length_eq]; simp
  have hi : pre.length < rs.length := by omega
  have hr : rs[pre.length] = r := by
    have := hrel.get pre.length e rs[pre.length] (by simp) (by simp [hi])
    obtain ⟨j, hj, hid, hc⟩ := this
    unfold parseRequest at hs
    rw [hj] at hs
    simp only [hid] at hs
    have := classify_single_batch (by simpa using hs)
    rw [hc] at this
    cases this; rfl
  have hsplit : rs = rs.take pre.length ++ rs[pre.length] :: rs.drop (pre.length + 1) := by simp
  have hpk : ∀ x ∈ rs.take pre.length, x.key ≠ cfg.apiKey := by
    intro x hx
    obtain ⟨i, hi', hxi⟩ := List.getElem_of_mem hx
    have hi2 : i < pre.length := by simp at hi'; omega
    have hxi' : rs[i]? = some x := by
      have : (rs.take pre.length)[i]? = some x := by simp [← hxi, hi2]
      rw [List.getElem?_take] at this
      simpa [hi2] using this
    have hrel_i := hrel.get i pre[i] x (by simp [List.getElem?_append_left hi2]) hxi'
    exact elemRel_unkeyed hk hrel_i (hpre _ (List.getElem_mem hi2))
  have hrun := runElems_append cfg st (rs.take pre.length) (rs[pre.length] :: rs.drop (pre.length + 1))
  rw [← hsplit, runElems_all_unkeyed hk st _ hpk] at hrun
  refine ⟨_, (elemStep cfg st r).2, by rw [hsv], ?_, ?_⟩
  · simp [serve, hs, elemStep]
  · rw [hrun]
    have hl : (List.map (fun r : RpcReq => Outcome.err (r.err.getD codeInvalidKey)) (rs.take pre.length)).length
        = pre.length := by simp; omega
    simp only [runElems]
    rw [List.getElem?_append_right (by omega)]
    have hm : min pre.length rs.length = pre.length := by omega
    simp [hm, hr]

/-! ### well-formed requests get exactly the invalid-key error -/

/-- the method name has one of the three accepted forms (json.go:184, :201, :206) -/
def MethodWF (m : Str) (p : Params) : Prop :=
  if hasSuffix m sufSubscribe then p ≠ .absent ∧ firstString p ≠ none
  else if hasSuffix m sufUnsubscribe then True
  else ∃ a b, split sepByte m = [a, b]

/-- "otherwise well-formed": a JSON object whose members have usable types, with a valid id and a method name
of an accepted form.  Nothing is required of the key beyond being a string or null when present. -/
structure WellFormed (e : Elem) : Prop where
  shape : e.shape = .obj
  ty : e.tyErr = false
  id : e.id = .ok
  key : effKey e.keys ≠ none
  meth : MethodWF (e.method.getD []) e.params

theorem wellFormed_classify {e : Elem} (b : Bool) (h : WellFormed e) :
    ∃ j r, decode e = some j ∧ j.id = .ok ∧ classify b j = .ok r ∧ r.err = none ∧ effKey e.keys = some r.key := by
  obtain ⟨hs, ht, hi, hk, hm⟩ := h
  cases hek : effKey e.keys with
  | none => exact absurd hek hk
  | some k =>
    refine ⟨{ key := k, method := e.method.getD [], id := e.id, payload := e.params }, ?_⟩
    have hd : decode e = some { key := k, method := e.method.getD [], id := e.id, payload := e.params } := by
      simp [decode, hs, ht, hek]
    unfold MethodWF at hm
    by_cases h1 : hasSuffix (e.method.getD []) sufSubscribe = true
    · rw [if_pos h1] at hm
      obtain ⟨hp, hf⟩ := hm
      cases hfs : firstString e.params with
      | none => exact absurd hfs hf
      | some m =>
        exact ⟨{ key := k, isPubSub := true, service := trimSuffix (e.method.getD []) sufSubscribe,
                 method := m, params := e.params }, hd, hi, by simp [classify, h1, hp, hfs], rfl, rfl⟩
    · rw [if_neg h1] at hm
      by_cases h2 : hasSuffix (e.method.getD []) sufUnsubscribe = true
      · exact ⟨{ key := k, isPubSub := true, method := e.method.getD [], params := e.params }, hd, hi,
          by simp [classify, h1, h2], rfl, rfl⟩
      · rw [if_neg h2] at hm
        obtain ⟨a, c, hsp⟩ := hm
        exact ⟨{ key := k, service := a, method := c, params := e.params }, hd, hi,
          by simp [classify, h1, h2, hsp], rfl, rfl⟩

/-- **wellformed_gets_invalid_key_error** (single request) -/
theorem wellformed_gets_invalid_key_error (cfg : Cfg) (st : St) (e : Elem) (hk : cfg.apiKey ≠ [])
    (hu : effKey e.keys ≠ some cfg.apiKey) (hw : WellFormed e) (hp : st.pending = []) :
    serve cfg st (.single e) = (st, .one (.err codeInvalidKey)) := by
  obtain ⟨j, r, hd, hid, hc, hre, hkey⟩ := wellFormed_classify true hw
  have hpr : parseRequest e = .ok r := by simp [parseRequest, hd, hid, hc]
  have hr : r.key ≠ cfg.apiKey := fun x => hu (by rw [hkey, x])
  simp [serve, hpr, resolve_gate hk hr, hre, handle_err, activate_idle hp]

theorem wellFormed_parseBatch : ∀ (es : List Elem), (∀ e ∈ es, WellFormed e) →
    ∃ rs, parseBatch es = .ok rs ∧ All2 (fun e r => r.err = none ∧ effKey e.keys = some r.key) es rs
  | [], _ => ⟨[], by simp [parseBatch, decodeAll, parseBatchLoop], .nil⟩
  | e :: t, h => by
    obtain ⟨rs, hrs, hall⟩ := wellFormed_parseBatch t (fun x hx => h x (by simp [hx]))
    obtain ⟨j, r, hd, hid, hc, hre, hkey⟩ := wellFormed_classify false (h e (by simp))
    unfold parseBatch at hrs
    split at hrs
    · cases hrs
    · rename_i js hjs
      refine ⟨r :: rs, ?_, .cons ⟨hre, hkey⟩ hall⟩
      simp [parseBatch, decodeAll, hd, hjs, parseBatchLoop, hid, hc, hrs]

/-- **wellformed_gets_invalid_key_error** (batch): in a batch of well-formed requests every element that
does not carry the key is answered with −32800, at any position, whatever the other elements carry. -/
theorem wellformed_gets_invalid_key_error_batch (cfg : Cfg) (st : St) (es : List Elem) (hk : cfg.apiKey ≠ [])
    (hw : ∀ e ∈ es, WellFormed e) :
    ∃ os, (serve cfg st (.batch es)).2 = .many os ∧ os.length = es.length ∧
      ∀ (i : Nat) (e : Elem) (o : Outcome), es[i]? = some e → os[i]? = some o →
        effKey e.keys ≠ some cfg.apiKey → o = .err codeInvalidKey := by
  obtain ⟨rs, hpb, hall⟩ := wellFormed_parseBatch es hw
  rcases gate_batch cfg st es hk with ⟨_, c, hc⟩ | ⟨os, hos, hl, hpt⟩
  · simp [serve, hpb] at hc
  · refine ⟨os, hos, hl, ?_⟩
    intro i e o he ho hu
    rcases hpt i e o he ho hu with h | h
    · exact h
    · -- −32601 at element level needs r.err ≠ none, impossible for a well-formed element
      exfalso
      obtain ⟨hs, _, _⟩ := batch_pointwise cfg st es rs hpb
      rw [hs] at hos
      cases hos
      have hi : i < rs.length := by
        have : i < es.length := by
          rcases Nat.lt_or_ge i es.length with h' | h'
          · exact h'
          · simp [List.getElem?_eq_none h'] at he
        rw [← hall.length_eq]; exact this
      obtain ⟨hre, hkey⟩ := hall.get i e rs[i] he (by simp [hi])
      have hkey' : rs[i].key ≠ cfg.apiKey := fun x => hu (by rw [hkey, x])
      have hsplit : rs = rs.take i ++ rs[i] :: rs.drop (i + 1) := by simp
      have hrun := runElems_append cfg st (rs.take i) (rs[i] :: rs.drop (i + 1))
      rw [← hsplit] at hrun
      rw [hrun] at ho
      simp only [runElems, elemStep_unkeyed _ hk hkey', hre] at ho
      have hlen : (runElems cfg st (rs.take i)).2.length = i := by
        rw [runElems_length]; simp; omega
      rw [List.getElem?_append_right (by omega)] at ho
      simp [hlen] at ho
      rw [← ho] at h
      simp [codeInvalidKey, codeMethodNotFound] at h

/-! ### the node always runs with a key -/

/-- **node_key_nonempty.**  Whatever is configured and whatever `api.key` contains, the key the node hands to
the RPC server is non-empty (the freshly generated key is 16 random bytes in hex), so the hypothesis
`cfg.apiKey ≠ []` of the gate theorems always holds for a running node. -/
theorem node_key_nonempty (flag : Str) (file : Option Str) (rnd : Str) (hr : rnd ≠ []) :
    (setApiKey flag file rnd).1 ≠ [] := by
  unfold setApiKey
  split
  · assumption
  · simp only
    split
    · exact hr
    · assumption

/-- the gate for the key the node actually runs with -/
theorem node_gate (flag : Str) (file : Option Str) (rnd : Str) (hr : rnd ≠ []) (services : List Service)
    (notifier : Bool) (st : St) (e : Elem) (hp : st.pending = [])
    (hu : effKey e.keys ≠ some (setApiKey flag file rnd).1) :
    let cfg : Cfg := { apiKey := (setApiKey flag file rnd).1, services := services, notifier := notifier }
    (serve cfg st (.single e)).1 = st ∧
    ((∃ c, (serve cfg st (.single e)).2 = .msgErr c) ∨ (∃ c, (serve cfg st (.single e)).2 = .one (.err c))) :=
  gate _ st e (node_key_nonempty flag file rnd hr) hu hp

/-- **effectiveKey_never_empty** (start-up clause): whatever is configured, whatever is at `api.key` and whether
or not it can be written, the node either does not start (`none`) or runs with a non-empty key. -/
theorem effectiveKey_never_empty (flag : Str) (fs : KeyFs) (rnd : Str) (hr : rnd ≠ []) :
    effectiveKey flag fs rnd ≠ some [] := by
  unfold effectiveKey
  simp only
  split
  · simp
  · intro h
    exact node_key_nonempty flag fs.file rnd hr (Option.some.inj h)

/-- a key that has to be generated and cannot be persisted: the start is refused -/
theorem persist_failure_refuses_start (fs : KeyFs) (rnd : Str) (hf : trimSpace (fs.file.getD []) = [])
    (hw : fs.writable = false) : effectiveKey [] fs rnd = none := by
  simp [effectiveKey, setApiKey, hf, hw]

/-- a node that starts is gated by its effective key -/
theorem effectiveKey_gate (flag : Str) (fs : KeyFs) (rnd k : Str) (hr : rnd ≠ []) (hk : effectiveKey flag fs rnd = some k)
    (services : List Service) (notifier : Bool) (st : St) (e : Elem) (hp : st.pending = [])
    (hu : effKey e.keys ≠ some k) :
    let cfg : Cfg := { apiKey := k, services := services, notifier := notifier }
    (serve cfg st (.single e)).1 = st ∧
    ((∃ c, (serve cfg st (.single e)).2 = .msgErr c) ∨ (∃ c, (serve cfg st (.single e)).2 = .one (.err c))) := by
  have hne : k ≠ [] := fun h => effectiveKey_never_empty flag fs rnd hr (by rw [hk, h])
  exact gate _ st e hne hu hp

example : effectiveKey [] { file := none, writable := false } [120] = none := by decide
example : effectiveKey [] { file := some [97], writable := false } [120] = some [97] := by decide
example : effectiveKey [] { file := none, writable := true } [120] = some [120] := by decide

/-- **as found before the repair, falsifying the property for the start-up window** (finding F34, snapshot
8023026d: `startInitialRPC` at node.go:152 before `SetApiKey` at :170): the initial endpoint was opened with
the key as configured, not as resolved.  Witness: nothing configured, `api.key` holds `"ab"`; the node's key is
`"ab"`, yet the initial endpoint had no key and a request without key ran its method.  Observed on the real
constructor by the harness (`nodekey … initial=ok`); repaired in /repo by 1048d0bd; the check now reports the
signature `C19:initial-endpoint-before-key-resolution:<entry>` if the ordering ever returns. -/
theorem initial_endpoint_ungated_as_found :
    ∃ (flag : Str) (file : Option Str) (rnd : Str) (svc : Service) (e : Elem) (i : Inv),
      rnd ≠ [] ∧ (setApiKey flag file rnd).1 ≠ [] ∧ effKey e.keys ≠ some (setApiKey flag file rnd).1 ∧
      (serve { apiKey := initialEndpointKeyAsFound flag file, services := [svc], notifier := false } {} (.single e)).2
        = .one (.served i true false) :=
  ⟨[], some [97, 98], [120],
   { name := [98, 99, 110], callbacks := [([115], { nargs := 0 })], subscriptions := [] },
   { method := some [98, 99, 110, 95, 115] }, ⟨[98, 99, 110], [115], []⟩,
   by decide, by decide, by decide, by decide⟩

/-- **initial_endpoint_gated** (repaired ordering): the initial endpoint is created with the resolved key, which
is never empty, so every request that does not carry exactly the node's key is refused by it as well — for any
configured value, any `api.key` content, any registry of the initial endpoint. -/
theorem initial_endpoint_gated (flag : Str) (file : Option Str) (rnd : Str) (hr : rnd ≠ []) (services : List Service)
    (notifier : Bool) (st : St) (e : Elem) (hp : st.pending = [])
    (hu : effKey e.keys ≠ some (setApiKey flag file rnd).1) :
    let cfg : Cfg := { apiKey := initialEndpointKey flag file rnd, services := services, notifier := notifier }
    (serve cfg st (.single e)).1 = st ∧
    ((∃ c, (serve cfg st (.single e)).2 = .msgErr c) ∨ (∃ c, (serve cfg st (.single e)).2 = .one (.err c))) :=
  node_gate flag file rnd hr services notifier st e hp hu

/-- the same witness under the repaired ordering: refused with the invalid-key error -/
example : (serve { apiKey := initialEndpointKey [] (some [97, 98]) [120],
                   services := [{ name := [98, 99, 110], callbacks := [([115], { nargs := 0 })], subscriptions := [] }],
                   notifier := false } {} (.single { method := some [98, 99, 110, 95, 115] })).2
    = .one (.err codeInvalidKey) := by decide

example : setApiKey [] (some [32, 97, 98, 10]) [120] = ([97, 98], false) := by decide
example : setApiKey [] (some [32, 10]) [120] = ([120], true) := by decide
example : setApiKey [107] (some [97]) [120] = ([107], true) := by decide

/-! ### (G) the key test precedes every branch of the `readRequest` loop body -/

/-- **gate_before_every_branch.**  For a statement list that passes `gateFirst`, whatever the guards of the
other branches evaluate to, the first statement that fires for a request without parse error and without
the key is the gate. -/
theorem gate_before_every_branch (stmts : List Stmt) (h : gateFirst stmts = true) (guard : Nat → Bool) :
    ∀ i0, ∃ i, firstFiring guard i0 stmts = some (i, .gate) := by
  induction stmts with
  | nil => simp [gateFirst] at h
  | cons s t ih =>
    intro i0
    cases s with
    | decl => exact ih (by simpa [gateFirst] using h) (i0 + 1)
    | parseErr => exact ih (by simpa [gateFirst] using h) (i0 + 1)
    | gate => exact ⟨i0, rfl⟩
    | branch => simp [gateFirst] at h
    | tail => simp [gateFirst] at h
    | unclassified => simp [gateFirst] at h

/-- the statement list of the loop body as extracted from the unchanged tree (server.go:380-446) -/
def stmtsAsFound : List Stmt :=
  [.decl, .decl, .parseErr, .gate, .branch, .branch, .branch, .branch, .tail]

example : gateFirst stmtsAsFound = true := by decide
/-- a branch hoisted above the gate is rejected -/
example : gateFirst [.decl, .decl, .parseErr, .branch, .gate, .branch, .tail] = false := by decide

/-! ### non-vacuity: concrete instances -/

def sEcho : Str := [101, 99, 104, 111]            -- "echo"
def sProbe : Str := [112, 114, 111, 98, 101]      -- "probe"
def sSub : Str := [115, 117, 98]                  -- "sub"
def sSecret : Str := [115, 101, 99, 114, 101, 116]
def mEcho : Str := sProbe ++ [95] ++ sEcho        -- "probe_echo"
def mSubscribe : Str := sProbe ++ sufSubscribe    -- "probe_subscribe"
def mUnsubscribe : Str := sProbe ++ sufUnsubscribe

def demoCfg : Cfg :=
  { apiKey := sSecret, notifier := true,
    services := [{ name := sProbe, callbacks := [(sEcho, { nargs := 1 })], subscriptions := [(sSub, { nargs := 0 })] }] }

def echoReq (ks : List KeyVal) : Elem :=
  { keys := ks, method := some mEcho, params := .arr [.str [120]] }
def subReq (ks : List KeyVal) : Elem :=
  { keys := ks, method := some mSubscribe, params := .arr [.str sSub] }
def unsubReq (ks : List KeyVal) : Elem :=
  { keys := ks, method := some mUnsubscribe, params := .arr [.str [64, 48]] }   -- "@0"

/-- with the key: served, subscribed, unsubscribed (the hypotheses of `gate` are not what makes things fail) -/
example : (serve demoCfg {} (.single (echoReq [.str sSecret]))).2 = .one (.served ⟨sProbe, sEcho, [[120]]⟩ true false) := by
  decide
example : serve demoCfg {} (.single (subReq [.str sSecret])) =
    ({ active := [0], pending := [], next := 1 }, .one (.subscribed ⟨sProbe, sSub, []⟩ 0)) := by decide
example : serve demoCfg { active := [0], next := 1 } (.single (unsubReq [.str sSecret])) =
    ({ active := [], pending := [], next := 1 }, .one (.unsubscribed 0)) := by decide
/-- without it / wrong / prefix / duplicate ending wrong / null: −32800 and nothing changes -/
example : serve demoCfg { active := [0], next := 1 } (.single (unsubReq [])) =
    ({ active := [0], next := 1 }, .one (.err codeInvalidKey)) := by decide
example : (serve demoCfg {} (.single (echoReq [.str (sSecret.take 5)]))).2 = .one (.err codeInvalidKey) := by decide
example : (serve demoCfg {} (.single (echoReq [.str sSecret, .str []]))).2 = .one (.err codeInvalidKey) := by decide
example : (serve demoCfg {} (.single (echoReq [.null]))).2 = .one (.err codeInvalidKey) := by decide
/-- `null` after the key does not erase it (encoding/json), a later string does -/
example : effKey [.str sSecret, .null] = some sSecret := by decide
example : effKey [.str sSecret, .nonString] = none := by decide
/-- a non-string key fails the message; in a batch it fails every element, keyed ones included -/
example : (serve demoCfg {} (.single (echoReq [.nonString]))).2 = .msgErr codeInvalidMessage := by decide
example : (serve demoCfg {} (.batch [echoReq [.str sSecret], echoReq [.nonString]])).2 = .msgErr codeInvalidMessage := by
  decide
/-- mixed batch: positions 0 and 2 refused, 1 and 3 served; the subscription of position 3 is active afterwards -/
example : serve demoCfg {} (.batch [echoReq [], echoReq [.str sSecret], subReq [.str [120]], subReq [.str sSecret]]) =
    ({ active := [0], pending := [], next := 1 },
     .many [.err codeInvalidKey, .served ⟨sProbe, sEcho, [[120]]⟩ true false, .err codeInvalidKey,
            .subscribed ⟨sProbe, sSub, []⟩ 0]) := by decide
/-- the one element-level error that precedes the gate: a method name without separator inside a batch -/
example : (serve demoCfg {} (.batch [{ method := some sEcho }])).2 = .many [.err codeMethodNotFound] := by decide
example : WellFormed (subReq []) :=
  ⟨rfl, rfl, rfl, by decide, by unfold MethodWF; rw [if_pos (by decide)]; exact ⟨by decide, by decide⟩⟩
/-- a key-less session: three messages, every element refused, state as at the start -/
example : serveAll demoCfg { active := [0], next := 1 }
    [.single (subReq []), .batch [unsubReq [], echoReq [.str [120]]], .garbage] =
    ({ active := [0], next := 1 },
     [.one (.err codeInvalidKey), .many [.err codeInvalidKey, .err codeInvalidKey], .msgErr codeInvalidRequest]) := by
  decide
/-- no key configured: the same key-less request is served (the gate is what refuses it above) -/
example : (serve { demoCfg with apiKey := [] } {} (.single (echoReq []))).2 =
    .one (.served ⟨sProbe, sEcho, [[120]]⟩ true false) := by decide

end IdenaModel.RpcGate
