import IdenaModel.Proofs.SyncArtifacts
/-!
# C11 — sync artifacts (identity diffs, snapshots) reproduce the canonical state

Part A (identity diffs), for every history of blocks and reorganisations (`Node.run`, any root function `R`):
`precommit_diff_complete`, `add_accepts`, `diff_replay_root` (per height), `replay_all` (fast sync's replay of
everything the node serves, from genesis), `validate_no_panic`; as found: `stale_diff_after_reorg`,
`validate_panics_as_found`.

Part B (snapshots), for every tree / node list / hash function: `chunks_concat`, `chunks_bounded`, `emptyValue_roundtrip`,
`import_export`, `import_accept_sound`, `import_accept_same_entries`, `import_accept_exact`, `import_reject_clears`,
`import_no_panic`, `import_refuse_or_exact`; as found: `import_accepts_forged_inner_key`, `import_panics_as_found`.
-/
set_option linter.unusedSectionVars false
set_option linter.unusedSimpArgs false

namespace IdenaModel.Sync

/-! ## Part A -/

section Diffs
variable {ρ : Type} [DecidableEq ρ]

/-- **the diff is the operation list**: replaying the recorded diff on the tree `Precommit` started from rebuilds the
tree `Precommit` built — same operations, same order, same version stamps, hence the same root for every root function -/
theorem precommit_diff_complete (R : List TOp → ρ) {t : ITree} {h : Nat} {dirty : List DObj}
    (hw : WFObjs dirty) (hv : t.version + 1 = h) :
    (addDiff t h (precommit t dirty).2).map (ITree.root R) = some ((precommit t dirty).1.root R) := by
  rw [precommit_addDiff hw hv]; rfl

/-- the tree after the last record (the node's working tree) -/
def lastTree : ITree → List (Rec ρ) → ITree
  | t, [] => t
  | _, r :: rs => lastTree r.tree rs

/-- the records continue tree `t` (of height `h`) block by block: each record's tree is saved at its height, its header
root is the root of that tree, and that tree's history is `AddDiff` of the record's diff on the previous tree -/
def Linked (R : List TOp → ρ) : ITree → Nat → List (Rec ρ) → Prop
  | _, _, [] => True
  | t, h, r :: rs =>
    r.tree.version = h + 1 ∧ r.idRoot = R r.tree.log ∧
    (addDiff t (h + 1) r.diff).map (·.log) = some r.tree.log ∧ Linked R r.tree (h + 1) rs

/-- what is stored for each canonical height is that block's own diff (`[]` = nothing stored) -/
def StoredOk (stored : DiffStore) : Nat → List (Rec ρ) → Prop
  | _, [] => True
  | h, r :: rs => stored (h + 1) = r.diff ∧ StoredOk stored (h + 1) rs

theorem lastTree_append (t : ITree) (rs : List (Rec ρ)) (r : Rec ρ) : lastTree t (rs ++ [r]) = r.tree := by
  induction rs generalizing t with
  | nil => rfl
  | cons a as ih => simp [lastTree, ih]

theorem linked_append (R : List TOp → ρ) : ∀ (rs : List (Rec ρ)) (t : ITree) (h : Nat) (r : Rec ρ),
    Linked R t h rs → r.tree.version = h + rs.length + 1 → r.idRoot = R r.tree.log →
    (addDiff (lastTree t rs) (h + rs.length + 1) r.diff).map (·.log) = some r.tree.log →
    Linked R t h (rs ++ [r]) := by
  intro rs
  induction rs with
  | nil => intro t h r _ hv hr ha; exact ⟨by simpa using hv, hr, by simpa [lastTree] using ha, trivial⟩
  | cons a as ih =>
    intro t h r hl hv hr ha
    obtain ⟨h1, h2, h3, h4⟩ := hl
    refine ⟨h1, h2, h3, ?_⟩
    apply ih a.tree (h + 1) r h4
    · simp only [List.length_cons] at hv; omega
    · exact hr
    · simp only [List.length_cons, lastTree] at ha
      have : h + 1 + as.length + 1 = h + (as.length + 1) + 1 := by omega
      rw [this]; exact ha

theorem linked_take (R : List TOp → ρ) : ∀ (rs : List (Rec ρ)) (t : ITree) (h m : Nat),
    Linked R t h rs → Linked R t h (rs.take m) := by
  intro rs
  induction rs with
  | nil => intro t h m _; simp [Linked]
  | cons a as ih =>
    intro t h m hl
    cases m with
    | zero => simp [Linked]
    | succ m => exact ⟨hl.1, hl.2.1, hl.2.2.1, ih _ _ m hl.2.2.2⟩

theorem storedOk_take (stored : DiffStore) : ∀ (rs : List (Rec ρ)) (h m : Nat),
    StoredOk stored h rs → StoredOk stored h (rs.take m) := by
  intro rs
  induction rs with
  | nil => intro h m _; simp [StoredOk]
  | cons a as ih =>
    intro h m hs
    cases m with
    | zero => simp [StoredOk]
    | succ m => exact ⟨hs.1, ih _ m hs.2⟩

theorem storedOk_congr {s s' : DiffStore} : ∀ (rs : List (Rec ρ)) (h : Nat),
    (∀ x, h < x → x ≤ h + rs.length → s' x = s x) → StoredOk s h rs → StoredOk s' h rs := by
  intro rs
  induction rs with
  | nil => intro h _ _; trivial
  | cons a as ih =>
    intro h hx hs
    refine ⟨by rw [hx (h + 1) (by omega) (by simp)]; exact hs.1, ih (h + 1) ?_ hs.2⟩
    intro x h1 h2
    exact hx x (by omega) (by simp only [List.length_cons]; omega)

theorem storedOk_append {s : DiffStore} : ∀ (rs : List (Rec ρ)) (h : Nat) (r : Rec ρ),
    StoredOk s h rs → s (h + rs.length + 1) = r.diff → StoredOk s h (rs ++ [r]) := by
  intro rs
  induction rs with
  | nil => intro h r _ hr; exact ⟨by simpa using hr, trivial⟩
  | cons a as ih =>
    intro h r hs hr
    refine ⟨hs.1, ih (h + 1) r hs.2 ?_⟩
    simp only [List.length_cons] at hr
    have : h + 1 + as.length + 1 = h + (as.length + 1) + 1 := by omega
    rw [this]; exact hr

theorem getLast_lastTree : ∀ (rs : List (Rec ρ)) (t : ITree),
    lastTree t rs = ((rs.getLast?).map (·.tree)).getD t := by
  intro rs
  induction rs with
  | nil => intro t; rfl
  | cons a as ih =>
    intro t
    simp only [lastTree]
    rw [ih, List.getLast?_cons]
    cases as.getLast? <;> rfl

theorem treeAt_head (n : Node ρ) : n.treeAt n.head = lastTree n.genesis n.chain := by
  rw [getLast_lastTree]
  unfold Node.treeAt Node.recAt Node.head
  cases hc : n.chain with
  | nil => simp
  | cons a as =>
    have h1 : ¬ n.base + (a :: as).length ≤ n.base := by simp
    simp only [h1, if_false]
    have : n.base + (a :: as).length - n.base - 1 = (a :: as).length - 1 := by omega
    rw [this, List.getLast?_eq_getElem?]

/-- the invariant of every reachable node state -/
structure Inv (R : List TOp → ρ) (fixed : Bool) (n : Node ρ) : Prop where
  gver : n.genesis.version = n.base
  linked : Linked R n.genesis n.base n.chain
  stored : fixed = true → StoredOk n.stored n.base n.chain

theorem lastTree_version (R : List TOp → ρ) : ∀ (rs : List (Rec ρ)) (t : ITree) (h : Nat),
    t.version = h → Linked R t h rs → (lastTree t rs).version = h + rs.length := by
  intro rs
  induction rs with
  | nil => intro t h hv _; simpa [lastTree] using hv
  | cons a as ih =>
    intro t h _ hl
    simp only [lastTree, List.length_cons]
    rw [ih a.tree (h + 1) hl.1 hl.2.2.2]; omega

theorem inv_init (R : List TOp → ρ) (fixed : Bool) (base : Nat) (g : ITree) : Inv R fixed (Node.init base g : Node ρ) :=
  ⟨rfl, trivial, fun _ => trivial⟩

theorem writeDiff_fixed_at (s : DiffStore) (h : Nat) (d : Diff) : writeDiff true s h d h = d := by
  unfold writeDiff
  by_cases hd : d = [] <;> simp [hd]

theorem writeDiff_other (fixed : Bool) (s : DiffStore) (h x : Nat) (d : Diff) (hx : x ≠ h) : writeDiff fixed s h d x = s x := by
  unfold writeDiff
  by_cases hd : d = [] <;> cases fixed <;> simp [hd, hx]

theorem inv_step (R : List TOp → ρ) (fixed : Bool) (n : Node ρ) (e : Ev ρ) (hi : Inv R fixed n) : Inv R fixed (n.step R fixed e) := by
  cases e with
  | reset k =>
    simp only [Node.step]
    split
    · exact ⟨hi.gver, linked_take R _ _ _ _ hi.linked, fun hf => storedOk_take _ _ _ _ (hi.stored hf)⟩
    · exact hi
  | sync d r =>
    simp only [Node.step]
    split
    · exact hi
    next t' hadd =>
      split
      · exact hi
      next hroot =>
        have hroot' : t'.root R = r := by simpa using hroot
        refine ⟨hi.gver, ?_, ?_⟩
        · apply linked_append R _ _ _ _ hi.linked
          · simp [ITree.saveVersionAt, Node.head]
          · simp only [ITree.saveVersionAt]; rw [← hroot']; rfl
          · rw [← treeAt_head]
            show (addDiff (n.treeAt n.head) (n.head + 1) d).map (·.log) = some t'.log
            rw [hadd]; rfl
        · intro hf
          subst hf
          apply storedOk_append
          · apply storedOk_congr _ _ _ (hi.stored rfl)
            intro x _ h2
            exact writeDiff_other _ _ _ _ _ (by simp only [Node.head]; omega)
          · simp only [Node.head]
            exact writeDiff_fixed_at _ _ _
  | add dirty =>
    simp only [Node.step]
    split
    · exact hi
    next t' hadd =>
      split
      · exact hi
      next hroot =>
        have hroot' : t'.root R = (precommit (n.treeAt n.head) dirty).1.root R := by
          simpa using hroot
        refine ⟨hi.gver, ?_, ?_⟩
        · apply linked_append R _ _ _ _ hi.linked
          · simp [ITree.saveVersionAt, Node.head]
          · simp only [ITree.saveVersionAt]; rw [← hroot']; rfl
          · rw [← treeAt_head]
            show (addDiff (n.treeAt n.head) (n.head + 1) (precommit (n.treeAt n.head) dirty).2).map (·.log) = some t'.log
            rw [hadd]; rfl
        · intro hf
          subst hf
          apply storedOk_append
          · apply storedOk_congr _ _ _ (hi.stored rfl)
            intro x _ h2
            exact writeDiff_other _ _ _ _ _ (by simp only [Node.head]; omega)
          · simp only [Node.head]
            exact writeDiff_fixed_at _ _ _

theorem inv_run (R : List TOp → ρ) (fixed : Bool) : ∀ (evs : List (Ev ρ)) (n : Node ρ), Inv R fixed n → Inv R fixed (n.run R fixed evs) := by
  intro evs
  induction evs with
  | nil => intro n h; exact h
  | cons e es ih => intro n h; exact ih _ (inv_step R fixed n e h)

/-- a block whose dirty identity objects are well formed is never refused by the node's own `AddDiff` + root comparison
(and never crashes it) -/
theorem add_accepts (R : List TOp → ρ) (fixed : Bool) (n : Node ρ) (dirty : List DObj) (hi : Inv R fixed n) (hw : WFObjs dirty) :
    (n.step R fixed (.add dirty)).head = n.head + 1 := by
  have hv : (n.treeAt n.head).version + 1 = n.head + 1 := by
    rw [treeAt_head, lastTree_version R _ _ _ hi.gver hi.linked]; rfl
  simp only [Node.step, precommit_addDiff hw hv]
  simp [Node.head, ITree.root]
  omega

/-- replay from any tree with the same history as the canonical one -/
theorem replay_linked (R : List TOp → ρ) (stored : DiffStore) : ∀ (rs : List (Rec ρ)) (t t' : ITree) (h : Nat),
    Linked R t h rs → StoredOk stored h rs → t'.log = t.log →
    ∃ t'', fsReplay true R t' h (servedFrom stored h rs) = .acc t'' ∧ t''.log = (lastTree t rs).log := by
  intro rs
  induction rs with
  | nil => intro t t' h _ _ hl; exact ⟨t', rfl, hl⟩
  | cons r rs ih =>
    intro t t' h hl hs hlog
    obtain ⟨hv, hr, ha, hrest⟩ := hl
    obtain ⟨hst, hsrest⟩ := hs
    -- the canonical AddDiff succeeded, so the diff is well formed and the replayed AddDiff gives the same history
    cases hc : addDiff t (h + 1) r.diff with
    | none => simp [hc] at ha
    | some tc =>
      have hnm := addDiff_not_malformed hc
      have hcong := addDiff_log_congr hlog (h + 1) r.diff
      rw [hc] at hcong ha
      cases hc' : addDiff t' (h + 1) r.diff with
      | none => simp [hc'] at hcong
      | some tr =>
        rw [hc'] at hcong
        simp only [Option.map_some, Option.some.injEq] at hcong ha
        have hroot : R tr.log = r.idRoot := by rw [hcong, ha, hr]
        let tn : ITree := if r.diff = [] then tr else tr.saveVersionAt (h + 1)
        have htn : tn.log = r.tree.log := by
          show (if r.diff = [] then tr else tr.saveVersionAt (h + 1)).log = _
          split <;> simp [ITree.saveVersionAt, hcong, ha]
        obtain ⟨t'', h1, h2⟩ := ih r.tree tn (h + 1) hrest hsrest htn
        refine ⟨t'', ?_, by simpa [lastTree] using h2⟩
        simp only [servedFrom, fsReplay, validateIdentityState, hst, hnm, Bool.and_false, hc', hroot]
        exact h1

/-- **fast sync's replay reproduces the canonical state**: for every history of blocks and reorganisations of the
repaired node, replaying everything it serves (stored diff + header identity root for each canonical height) from
genesis with `validateIdentityState` is accepted at every height and ends with the history — hence the root, for every
root function, and the contents — of the node's identity tree -/
theorem replay_all (R : List TOp → ρ) (base : Nat) (g : ITree) (evs : List (Ev ρ)) :
    let n := (Node.init base g : Node ρ).run R true evs
    ∃ t, fsReplay true R n.genesis n.base n.served = .acc t ∧ t.log = (n.treeAt n.head).log ∧
      t.root R = (n.treeAt n.head).root R ∧ t.contents = (n.treeAt n.head).contents := by
  intro n
  have hi : Inv R true n := inv_run R true evs _ (inv_init R true base g)
  obtain ⟨t, h1, h2⟩ := replay_linked R n.stored n.chain n.genesis n.genesis n.base hi.linked (hi.stored rfl) rfl
  rw [← treeAt_head] at h2
  exact ⟨t, h1, h2, by simp [ITree.root, h2], by simp [ITree.contents, h2]⟩

/-- per-height form over the records: the stored diff of a canonical height, replayed on the canonical tree of the
previous height, gives the root committed in that height's header -/
theorem linked_stored_root (R : List TOp → ρ) (stored : DiffStore) : ∀ (rs : List (Rec ρ)) (t : ITree) (h : Nat),
    Linked R t h rs → StoredOk stored h rs →
    ∀ (i : Nat) (r : Rec ρ), rs[i]? = some r →
      (addDiff (lastTree t (rs.take i)) (h + i + 1) (stored (h + i + 1))).map (ITree.root R) = some r.idRoot := by
  intro rs
  induction rs with
  | nil => intro t h _ _ i r hr; simp at hr
  | cons a as ih =>
    intro t h hl hs i r hr
    cases i with
    | zero =>
      simp only [List.getElem?_cons_zero, Option.some.injEq] at hr
      subst hr
      simp only [List.take_zero, lastTree, Nat.add_zero]
      rw [hs.1, hl.2.1]
      have := hl.2.2.1
      cases hc : addDiff t (h + 1) a.diff with
      | none => simp [hc] at this
      | some tc => simp [hc] at this; simp [ITree.root, this]
    | succ i =>
      simp only [List.getElem?_cons_succ] at hr
      have := ih a.tree (h + 1) hl.2.2.2 hs.2 i r hr
      simp only [List.take_succ_cons, lastTree]
      have e : h + (i + 1) + 1 = h + 1 + i + 1 := by omega
      rw [e]; exact this

/-- **diff_replay_root**: for every canonical height `h` of every history (reorganisations included) of the repaired
node: `root (AddDiff (treeAt (h-1)) (storedDiff h)) = header(h).identityRoot` -/
theorem diff_replay_root (R : List TOp → ρ) (base : Nat) (g : ITree) (evs : List (Ev ρ)) :
    let n := (Node.init base g : Node ρ).run R true evs
    ∀ (i : Nat) (r : Rec ρ), n.chain[i]? = some r →
      (addDiff (lastTree n.genesis (n.chain.take i)) (n.base + i + 1) (n.stored (n.base + i + 1))).map (ITree.root R)
        = some r.idRoot := by
  intro n
  have hi : Inv R true n := inv_run R true evs _ (inv_init R true base g)
  exact linked_stored_root R n.stored n.chain n.genesis n.base hi.linked (hi.stored rfl)

theorem treeAt_take (n : Node ρ) (i : Nat) (hi : i ≤ n.chain.length) :
    n.treeAt (n.base + i) = lastTree n.genesis (n.chain.take i) := by
  rw [getLast_lastTree]
  unfold Node.treeAt Node.recAt
  cases i with
  | zero => simp
  | succ j =>
    have h1 : ¬ n.base + (j + 1) ≤ n.base := by omega
    have h2 : n.base + (j + 1) - n.base - 1 = j := by omega
    simp only [h1, if_false, h2]
    rw [List.getLast?_eq_getElem?, List.length_take, List.getElem?_take]
    have h3 : min (j + 1) n.chain.length - 1 = j := by omega
    simp [h3]

/-- **diff_replay_root**, stated with the node's own accessors: for every canonical height `h` (above genesis, up to the
head) of every history of the repaired node, reorganisations included,
`root (AddDiff (treeAt (h-1)) h (storedDiff h)) = header(h).identityRoot` -/
theorem diff_replay_root_at (R : List TOp → ρ) (base : Nat) (g : ITree) (evs : List (Ev ρ)) :
    let n := (Node.init base g : Node ρ).run R true evs
    ∀ h, n.base < h → h ≤ n.head →
      (addDiff (n.treeAt (h - 1)) h (n.stored h)).map (ITree.root R) = (n.recAt h).map (·.idRoot) := by
  intro n h hlo hhi
  have hlen : h - n.base - 1 < n.chain.length := by simp only [Node.head] at hhi; omega
  have hrec : n.recAt h = n.chain[h - n.base - 1]? := by
    unfold Node.recAt
    have : ¬ h ≤ n.base := by omega
    simp [this]
  obtain ⟨r, hr⟩ : ∃ r, n.chain[h - n.base - 1]? = some r := ⟨n.chain[h - n.base - 1], by simp [hlen]⟩
  have := diff_replay_root R base g evs (h - n.base - 1) r hr
  have e1 : n.base + (h - n.base - 1) + 1 = h := by omega
  have e2 : h - 1 = n.base + (h - n.base - 1) := by omega
  rw [e1] at this
  rw [hrec, hr, e2, treeAt_take n _ (by omega)]
  simpa using this

/-- the preliminary copy of a fast sync never aliases the live identity database: every live prefix height is at most
the head (0, a snapshot height, or an earlier copy's `head' + 1 ≤ head`), the copy goes to `head + 1` — so dropping the
copy (a given-up sync) or clearing the replaced database (a completed one) cannot touch the state the node lives on -/
theorem prelim_prefix_fresh (live head : Nat) (h : live ≤ head) : prelimPrefixHeight head ≠ live := by
  unfold prelimPrefixHeight; omega

/-- the repaired `validateIdentityState` never panics, whatever a peer serves -/
theorem validate_no_panic (R : List TOp → ρ) (t : ITree) (h : Nat) (d : Diff) (r : ρ) :
    validateIdentityState true R t h d r ≠ .panic := by
  unfold validateIdentityState
  cases hm : Diff.malformed d with
  | true => simp
  | false =>
    simp only [Bool.and_false, Bool.false_eq_true, if_false]
    unfold addDiff
    by_cases hd : d = []
    · simp only [hd, if_true]; split <;> simp
    · simp only [hd, if_false]
      obtain ⟨t', ht'⟩ := addDiffVals_not_malformed_some d (t.setVirtualVersion (h - 1)) hm
      rw [ht']; simp only; split <;> simp

/-- as found: a served diff entry that neither deletes nor carries a value crashes the syncing node -/
theorem validate_panics_as_found (R : List TOp → ρ) (t : ITree) (h : Nat) (r : ρ) :
    validateIdentityState false R t h [⟨7, false, []⟩] r = .panic := by
  simp [validateIdentityState, addDiff, addDiffVals]

/-- the witness history of finding F5: block 1 kills the validated identity 7 (diff stored), the node resets to
genesis and adopts a block 1 that leaves the identity state alone -/
def f5Events : List (Ev ρ) := [.add [⟨7, false, false, []⟩], .reset 0, .add []]
def f5Genesis : ITree := ⟨0, [.set 0 7 [32, 1]]⟩

theorem orderObjs_nil : orderObjs [] = [] := by simp [orderObjs]
theorem orderObjs_singleton (o : DObj) : orderObjs [o] = [o] := by simp [orderObjs]

/-- **stale_diff_after_reorg** (the code as found, `fixed = false`): after that history the node serves for height 1
the abandoned block's diff; replaying it removes identity 7, which the canonical state still has; any root function
that commits to the contents therefore refuses it — while the repaired node serves nothing for height 1 -/
theorem stale_diff_after_reorg (R : List TOp → ρ) (hR : ∀ a b, R a = R b → contentsOf a = contentsOf b) :
    let n := (Node.init 0 f5Genesis : Node ρ).run R false f5Events
    n.head = 1 ∧ n.stored 1 = [⟨7, true, []⟩] ∧ (n.chain.map (·.diff)) = [[]] ∧
    fsReplay false R n.genesis n.base n.served = .rej ∧
    ((Node.init 0 f5Genesis : Node ρ).run R true f5Events).stored 1 = [] := by
  have hne : ¬ R [TOp.set 0 7 [32, 1], TOp.remove 1 7] = R [TOp.set 0 7 [32, 1]] := by
    intro h
    have := hR _ _ h
    simp [contentsOf, TOp.apply, kvSet, kvDel] at this
  simp [Node.run, Node.step, Node.init, f5Events, f5Genesis, Node.head, Node.treeAt, Node.recAt, precommit,
    precommitOrdered, orderObjs_nil, orderObjs_singleton, precommitStep, DObj.empty, addDiff, addDiffVals,
    ITree.remove, ITree.setVirtualVersion, ITree.root, ITree.saveVersionAt, writeDiff, Node.served, servedFrom,
    fsReplay, validateIdentityState, hne]

end Diffs

/-! ## Part B -/

section Snapshots
variable {η : Type} [DecidableEq η]

/-- re-joining the chunks gives back the list, for every block size > 0 and every list -/
theorem chunks_concat {α : Type} (n : Nat) (hn : 0 < n) (l : List α) : (chunks n l).flatten = l :=
  chunksAux_flatten n hn l.length l (Nat.le_refl _)

/-- no chunk is longer than the block size -/
theorem chunks_bounded {α : Type} (n : Nat) (l : List α) : ∀ c ∈ chunks n l, c.length ≤ n :=
  chunksAux_bound n l.length l

/-- the wire form loses nothing of a real node: empty values survive through the `EmptyValue` flag, heights and
versions through the integer conversions -/
theorem emptyValue_roundtrip {n : ENode} (h : WFENode n) : fromWire (toWire n) = n := fromWire_toWire h

theorem emptyValue_flag_needed : fromWire { toWire ⟨some [1], some [], 1, 0⟩ with emptyValue := false } ≠ ⟨some [1], some [], 1, 0⟩ := by
  decide

/-- **import_export**: importing the export of any well-formed tree (in both variants; for the repaired one the tree's
inner keys must be what IAVL maintains) accepts and rebuilds exactly that tree -/
theorem import_export (fixed : Bool) (H : HashFns η) (height : Nat) (t : MTree) (hw : WFTree height t)
    (hk : fixed = true → t.innerKeysOk = true) :
    importSnap fixed H height (rootOf H (some t)) (exportSnap (some t)).flatten false = .ok (some t) := by
  unfold exportSnap
  rw [chunks_concat _ (by decide)]
  unfold importSnap
  simp only [exportOpt, map_fromWire_toWire hw, importNodes_exportTree fixed height t hw]
  cases fixed with
  | false => simp
  | true => simp [innerKeysOkOpt, hk rfl]

theorem import_export_empty (fixed : Bool) (H : HashFns η) (height : Nat) :
    importSnap fixed H height (rootOf H none) (exportSnap none).flatten false = .ok none := by
  cases fixed <;> simp [exportSnap, chunks, chunksAux, exportOpt, importSnap, importNodes, importerCommit, innerKeysOkOpt]

/-- **import_accept_sound**: whatever node list arrives, an accepted import has exactly the advertised root -/
theorem import_accept_sound (fixed : Bool) (H : HashFns η) (height : Nat) (root : η) (ws : List WNode) (de : Bool)
    (t : Option MTree) (h : importSnap fixed H height root ws de = .ok t) : rootOf H t = root := by
  unfold importSnap at h
  split at h
  · simp at h
  · simp at h
  · split at h
    · simp at h
    · split at h
      · simp at h
      next hr =>
        split at h
        · simp at h
        · simp only [SnapOut.ok.injEq] at h
          subst h
          simpa using hr

/-- accepted ⇒ iteration over the imported tree yields exactly the exported entries (both variants; needs the hash to
be collision free on what it covers) -/
theorem import_accept_same_entries (fixed : Bool) (H : HashFns η) (hi : HashInj H) (height : Nat) (t0 : MTree)
    (ws : List WNode) (de : Bool) (t : Option MTree)
    (h : importSnap fixed H height (rootOf H (some t0)) ws de = .ok t) :
    ∃ t', t = some t' ∧ t'.leaves = t0.leaves := by
  have hr := import_accept_sound fixed H height _ ws de t h
  cases t with
  | none =>
    simp only [rootOf] at hr
    cases t0 with
    | leaf k v ver => exact absurd hr.symm (hi.leaf_ne_empty _ _ _)
    | inner k hh ver l r => exact absurd hr.symm (hi.inner_ne_empty _ _ _ _ _)
  | some t' => exact ⟨t', rfl, hash_eq_leaves hi t' t0 hr⟩

/-- **import_accept_exact** (repaired variant): whatever node list arrives — altered, truncated, re-ordered — an
accepted import is node for node the exported tree (inner keys included, hence every lookup agrees) -/
theorem import_accept_exact (H : HashFns η) (hi : HashInj H) (height : Nat) (t0 : MTree) (hk : t0.innerKeysOk = true)
    (ws : List WNode) (de : Bool) (t : Option MTree)
    (h : importSnap true H height (rootOf H (some t0)) ws de = .ok t) : t = some t0 := by
  have hr := import_accept_sound true H height _ ws de t h
  have hkeys : innerKeysOkOpt t = true := by
    unfold importSnap at h
    split at h
    · simp at h
    · simp at h
    · split at h
      · simp at h
      · split at h
        · simp at h
        · split at h
          · simp at h
          next hko =>
            simp only [SnapOut.ok.injEq] at h
            subst h
            simpa using hko
  cases t with
  | none =>
    simp only [rootOf] at hr
    cases t0 with
    | leaf k v ver => exact absurd hr.symm (hi.leaf_ne_empty _ _ _)
    | inner k hh ver l r => exact absurd hr.symm (hi.inner_ne_empty _ _ _ _ _)
  | some t' => rw [hash_inj_tree hi t' t0 hkeys hk hr]

/-- the inner-key check as the Go code runs it (`validateInnerKeys`: a stack over the post-order export) decides exactly
`innerKeysOk` on every tree the importer can produce -/
theorem inner_key_check_as_coded (fixed : Bool) (v : Int) (ns : List ENode) (t : MTree)
    (h : importNodes fixed v [] 0 ns = .tree (some t)) : innerKeysStack [] (exportTree t) = t.innerKeysOk :=
  innerKeysStack_eq t (importNodes_innerNZ fixed v ns [] 0 t (by simp) h)

/-- **import_reject_clears**: a refused import leaves nothing in the target (every error path of the model of
`ReadTreeFrom2` runs `ClearDb`) -/
theorem import_reject_clears (fixed : Bool) (H : HashFns η) (height : Nat) (root : η) (ws : List WNode) (de : Bool)
    (h : importSnap fixed H height root ws de = .err) : keysLeft (importSnap fixed H height root ws de) = 0 := by
  rw [h]; rfl

/-- the repaired import never panics, whatever arrives -/
theorem import_no_panic (H : HashFns η) (height : Nat) (root : η) (ws : List WNode) (de : Bool) (k : Nat) :
    importSnap true H height root ws de ≠ .panic k := by
  unfold importSnap
  split
  next n hn => exact absurd hn (importNodes_fixed_no_panic _ _ _ _ _)
  · simp
  · split
    · simp
    · split
      · simp
      · split <;> simp

/-- the property for snapshots, repaired variant: **any** byte sequence that decodes to **any** node list is either
accepted with exactly the exported tree (root, entries, lookups) or refused leaving no key behind -/
theorem import_refuse_or_exact (H : HashFns η) (hi : HashInj H) (height : Nat) (t0 : MTree) (hk : t0.innerKeysOk = true)
    (ws : List WNode) (de : Bool) :
    importSnap true H height (rootOf H (some t0)) ws de = .ok (some t0) ∨
    (importSnap true H height (rootOf H (some t0)) ws de = .err ∧
      keysLeft (importSnap true H height (rootOf H (some t0)) ws de) = 0) := by
  cases hc : importSnap true H height (rootOf H (some t0)) ws de with
  | ok t => left; rw [import_accept_exact H hi height t0 hk ws de t hc]
  | err => right; exact ⟨rfl, rfl⟩
  | panic k => exact absurd hc (import_no_panic H height _ ws de k)

/-- witness trees: the exported one and the same tree with a forged inner key -/
def witT0 : MTree := .inner [2] 1 1 (.leaf [1] [7] 1) (.leaf [2] [8] 1)
def witT : MTree := .inner [3] 1 1 (.leaf [1] [7] 1) (.leaf [2] [8] 1)

theorem witT_wf : WFTree 1 witT := by
  simp [witT, WFTree, MTree.height]

/-- **as found**: for *every* hash function, the export of the forged tree is accepted against the root of the genuine
one (the hash does not cover inner keys), and a lookup that succeeds in the genuine tree fails in the accepted one -/
theorem import_accepts_forged_inner_key (H : HashFns η) :
    importSnap false H 1 (rootOf H (some witT0)) (exportSnap (some witT)).flatten false = .ok (some witT) ∧
    witT0.get [2] = some [8] ∧ witT.get [2] = none ∧ witT.leaves = witT0.leaves := by
  refine ⟨?_, by decide, by decide, by decide⟩
  have : rootOf H (some witT0) = rootOf H (some witT) := rfl
  rw [this]
  exact import_export false H 1 witT witT_wf (by simp)

/-- the repaired import refuses that archive -/
theorem import_refuses_forged_inner_key (H : HashFns η) :
    importSnap true H 1 (rootOf H (some witT0)) (exportSnap (some witT)).flatten false = .err := by
  have hw : WFTree ((1 : Nat) : Int) witT := witT_wf
  unfold exportSnap
  rw [chunks_concat _ (by decide)]
  unfold importSnap
  rw [show exportOpt (some witT) = exportTree witT from rfl, map_fromWire_toWire hw, importNodes_exportTree true _ witT hw]
  have : rootOf H (some witT) = rootOf H (some witT0) := rfl
  simp [this, innerKeysOkOpt, witT, MTree.innerKeysOk, MTree.minKey]

/-- **as found**: an inner node arriving when the stack does not hold two lower nodes crashes the importer
(`_hash()` runs before `validate()`), the repaired import refuses it -/
theorem import_panics_as_found (H : HashFns η) (root : η) :
    importSnap false H 1 root [⟨some [1], 1, none, 1, false⟩] false = .panic 0 ∧
    importSnap true H 1 root [⟨some [1], 1, none, 1, false⟩] false = .err := by
  constructor <;> simp [importSnap, importNodes, importerAdd, fromWire, toInt64, toInt8]

end Snapshots

/-! ### non-vacuity -/

/-- `HashInj` is satisfiable (the symbolic term hash) -/
inductive HTermW where
  | leaf (k v : Bytes) (ver : Int)
  | inner (h : Int) (s : Nat) (ver : Int) (l r : HTermW)
  | empty
  deriving DecidableEq

example : HashInj (⟨.leaf, .inner, .empty⟩ : HashFns HTermW) where
  leaf := by intro _ _ _ _ _ _ h; cases h; exact ⟨rfl, rfl, rfl⟩
  inner := by intro _ _ _ _ _ _ _ _ _ _ h; cases h; exact ⟨rfl, rfl, rfl, rfl, rfl⟩
  leaf_ne_inner := by intro _ _ _ _ _ _ _ _ h; cases h
  leaf_ne_empty := by intro _ _ _ h; cases h
  inner_ne_empty := by intro _ _ _ _ _ h; cases h

example : WFTree 1 witT0 ∧ witT0.innerKeysOk = true := ⟨by simp [witT0, WFTree, MTree.height], by decide⟩
example : WFENode ⟨some [1], some [], 1, 0⟩ := ⟨⟨1, [], rfl⟩, by decide, by decide, by decide, by decide⟩
example : WFObjs [⟨7, true, false, [32, 1]⟩, ⟨9, false, false, []⟩] := by
  intro o ho h; simp at ho; rcases ho with rfl | rfl <;> simp_all [DObj.empty]

end IdenaModel.Sync
