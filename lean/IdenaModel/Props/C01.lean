import IdenaModel.Proofs.Determinism
/-!
# C01 — the state transition is a pure function of (prior state, block)

Every Lean function is a function; the theorems below are about the places where the Go code depends on something
node-local, with that node-local input (`enum…` = Go's enumeration order of a map or set, `off` = host zone offset)
as an explicit argument.  A `…_perm` / `…_indep` theorem says the repaired code's result does not depend on it;
an `…_order_dependent` / `…_tz_dep` theorem is a machine-checked witness that the code **as found** did (F1, F8, F14).

Trusted (stated in checks/props/C01.py): Go's `sort.Slice/SliceStable/Strings` return a sorted rearrangement and
`sort.Search` the least index of a monotone predicate (then `isort_unique` / `isortDesc_unique` say the result is the
list the model computes); an IAVL root is a function of the sequence of tree operations; byte-string keys embed
order-preservingly into `Nat`.
-/
namespace IdenaModel.Determinism

/-! ## (a)/(b) sorted before use -/

/-- (b) `addStaker` / `addAuthor` / `addInviter` / `sortAddresses`: the slice built by sorted insertion while ranging
over a set is the same for every enumeration order (duplicates allowed). -/
theorem C01_isort_perm {l₁ l₂ : List Nat} (h : l₁.Perm l₂) : isort l₁ = isort l₂ := isort_perm h

/-- the form asked for in the design (keys of a Go map are distinct) -/
theorem C01_isort_perm_nodup {l₁ l₂ : List Nat} (h : l₁.Perm l₂) (_ : l₁.Nodup) : isort l₁ = isort l₂ := isort_perm h

/-- (b) `sortedAddresses.add` (the validator list the committee PRNG indexes): depends only on the set enumerated -/
theorem C01_isortDesc_perm {l₁ l₂ : List Nat} (h : l₁.Perm l₂) : isortDesc l₁ = isortDesc l₂ := isortDesc_perm h

/-- (a) the tree operations of one dirty set do not depend on the enumeration order of the dirty map -/
theorem commitOps_perm (kind : Nat) (objs : Objs) {l₁ l₂ : List Nat} (h : l₁.Perm l₂) :
    commitOps kind objs l₁ = commitOps kind objs l₂ := by
  unfold commitOps; rw [isortDesc_perm h]

/-- (a) `StateDB.Precommit`: the whole operation sequence is independent of the enumeration order of all five maps -/
theorem precommitOps_perm (live : Live) (d₁ d₂ : Dirty)
    (ha : d₁.accounts.Perm d₂.accounts) (hi : d₁.identities.Perm d₂.identities) (hs : d₁.store.Perm d₂.store)
    (hb : d₁.burnt.Perm d₂.burnt) (hc : d₁.code.Perm d₂.code) :
    precommitOps live d₁ = precommitOps live d₂ := by
  unfold precommitOps
  rw [commitOps_perm 0 _ ha, commitOps_perm 1 _ hi, commitOps_perm 2 _ hs, commitOps_perm 3 _ hb, commitOps_perm 4 _ hc]

/-- (a) `IdentityStateDB.Precommit` -/
theorem identityPrecommitOps_perm (objs : Objs) {l₁ l₂ : List Nat} (h : l₁.Perm l₂) :
    identityPrecommitOps objs l₁ = identityPrecommitOps objs l₂ := commitOps_perm 5 objs h

/-- the root is a function of the operation sequence (definitional once the tree is a function of its operations):
equal enumerated *sets* give equal roots, for any `root` -/
theorem root_eq_of_ops_eq {ρ : Type} (root : List TreeOp → ρ) (live : Live) (d₁ d₂ : Dirty)
    (ha : d₁.accounts.Perm d₂.accounts) (hi : d₁.identities.Perm d₂.identities) (hs : d₁.store.Perm d₂.store)
    (hb : d₁.burnt.Perm d₂.burnt) (hc : d₁.code.Perm d₂.code) :
    root (precommitOps live d₁) = root (precommitOps live d₂) := by
  rw [precommitOps_perm live d₁ d₂ ha hi hs hb hc]

/-- (b) `prepareBlockRewardCtx`: the committee slice handed to `rewardFinalCommittee` -/
theorem committee_perm {β : Type} (holderOf : Nat → β) {l₁ l₂ : List Nat} (h : l₁.Perm l₂) :
    committee holderOf l₁ = committee holderOf l₂ := by
  unfold committee; rw [isort_perm h]

/-- the commit order is the strictly descending one, and contains exactly the dirty keys (not some other function) -/
theorem commitOps_keys (l : List Nat) :
    SDesc (isortDesc l) ∧ ∀ x, x ∈ isortDesc l ↔ x ∈ l := ⟨sdesc_isortDesc l, mem_isortDesc l⟩

-- non-vacuity: a concrete Precommit with two enumerations of the same dirty sets
def exLive : Live where
  accounts := fun k => if k = 7 then none else some (k * 10)
  identities := fun k => some k
  store := fun _ => none
  burnt := fun k => some k
  code := fun k => some k
  singletons := [.set 9 0 1]

example :
    precommitOps exLive ⟨[3, 7, 5], [2, 1], [4], [], [8, 6]⟩ = precommitOps exLive ⟨[7, 5, 3], [1, 2], [4], [], [6, 8]⟩ ∧
    precommitOps exLive ⟨[3, 7, 5], [2, 1], [4], [], [8, 6]⟩ =
      [.remove 0 7, .set 0 5 50, .set 0 3 30, .set 1 2 2, .set 1 1 1, .remove 2 4, .set 4 8 8, .set 4 6 6, .set 9 0 1] := by
  decide
example : isort [3, 1, 2, 3] = [1, 2, 3, 3] ∧ isortDesc [3, 1, 2, 3] = [3, 2, 1] := by decide

/-! ## (f) map loops whose bodies commute -/

/-- (f) a loop `for k, v := range m { state[k] = v }` (keys of a map: pairwise distinct): same final store for every
enumeration order.  Used to classify census sites whose body writes only state keyed by the loop key
(`EnvImp.Commit`, `WasmEnv.Commit`, `generateGenesis`, `switchPoolsToOffline`, …). -/
theorem perKeyWrites_perm {V : Type} {l₁ l₂ : List (Nat × V)} (h : l₁.Perm l₂) (hn : (l₁.map (·.1)).Nodup)
    (s : Nat → V) : l₁.foldl writeKV s = l₂.foldl writeKV s := by
  apply foldl_perm_of_comm writeKV h
  intro x hx y hy st
  by_cases hxy : x.1 = y.1
  · rw [eq_of_fst_eq_of_nodup hn hx hy hxy]
  · funext k
    simp only [writeKV]
    split <;> split <;> simp_all

/-- (f) a loop whose body is `AddBalance(dest, amount)` / `AddStake` with amounts that do not depend on the loop
state: integer additions commute — no distinctness needed (several reporters may share a pool as destination). -/
theorem addWrites_perm {l₁ l₂ : List (Nat × Int)} (h : l₁.Perm l₂) (s : Nat → Int) :
    l₁.foldl addKV s = l₂.foldl addKV s :=
  foldl_perm_of_comm addKV h (fun x _ y _ st => addKV_comm st x y) s

/-- (f) a loop whose body deletes keys (`delete(goodAuthors, author)`, `reportersToReward.deleteReporter/deleteFlip`) -/
theorem delKeys_perm {V : Type} {l₁ l₂ : List Nat} (h : l₁.Perm l₂) (s : Nat → Option V) :
    l₁.foldl delK s = l₂.foldl delK s :=
  foldl_perm_of_comm delK h (fun x _ y _ st => delK_comm st x y) s

/-- the general shape: any loop whose iterations pairwise commute -/
theorem commutingLoop_perm {σ α : Type} (body : σ → α → σ) {l₁ l₂ : List α} (h : l₁.Perm l₂)
    (comm : ∀ x ∈ l₁, ∀ y ∈ l₁, ∀ s, body (body s x) y = body (body s y) x) (s : σ) :
    l₁.foldl body s = l₂.foldl body s := foldl_perm_of_comm body h comm s

-- non-vacuity, and why distinct keys are needed: with a repeated key the last writer wins
example : ([(1, 10), (2, 20)].foldl writeKV (fun _ => 0)) 1 = 10 ∧ ([(2, 20), (1, 10)].foldl writeKV (fun _ => 0)) 1 = 10 := by
  decide
example : ([(1, 10), (1, 11)].foldl writeKV (fun _ => 0)) 1 ≠ ([(1, 11), (1, 10)].foldl writeKV (fun _ => 0)) 1 := by decide
example : ([(1, 10), (1, 5)].foldl addKV (fun _ => 0)) 1 = 15 := by decide

/-! ## (c) epoch result application (F8) -/

/-- (c) repaired code: results applied in address order — the state after `ApplyNewEpoch` does not depend on the
enumeration order of the Go map `epochApplyingValues` -/
theorem applyEpoch_sorted_perm (u10 : Bool) (epoch : Nat) (vals : EpochVals) (s : IdState) {l₁ l₂ : List Nat}
    (h : l₁.Perm l₂) : applyEpochFixed u10 epoch vals s l₁ = applyEpochFixed u10 epoch vals s l₂ := by
  unfold applyEpochFixed; rw [isort_perm h]

/-- (c) including the non-candidates pass over the Go map `shardCandidates` (shards by id) -/
theorem applyEpochFull_perm (u10 : Bool) (epoch : Nat) (vals : EpochVals) (validatedOf : IdRec → Bool)
    (nonCands : Nat → List Nat) (s : IdState) {c₁ c₂ sh₁ sh₂ : List Nat} (hc : c₁.Perm c₂) (hs : sh₁.Perm sh₂) :
    applyEpochFull u10 epoch vals validatedOf nonCands s c₁ sh₁ =
      applyEpochFull u10 epoch vals validatedOf nonCands s c₂ sh₂ := by
  unfold applyEpochFull applyNonCandidates
  rw [applyEpoch_sorted_perm u10 epoch vals s hc, isort_perm hs]

/-- four Suspended identities 1→2→3→4 (delegation chain), all promoted in the same epoch -/
def chainState : IdState :=
  [(1, { delegatee := some 2 }), (2, { delegatee := some 3 }), (3, { delegatee := some 4 }), (4, {})]
def chainVals : EpochVals :=
  [(1, ⟨true, true, some 2⟩), (2, ⟨true, true, some 3⟩), (3, ⟨true, true, some 4⟩), (4, ⟨true, true, none⟩)]

/-- (c) **the code as found was not a function of (state, block)**: with the Go map's order as the application order,
two enumerations of the same results give different states (identity 1 keeps or loses its delegation) — F8. -/
theorem applyEpoch_order_dependent :
    ∃ (u10 : Bool) (epoch : Nat) (vals : EpochVals) (s : IdState) (l₁ l₂ : List Nat), l₁.Perm l₂ ∧
      applyEpochAsFound u10 epoch vals s l₁ ≠ applyEpochAsFound u10 epoch vals s l₂ := by
  refine ⟨true, 7, chainVals, chainState, [1, 2, 3, 4], [4, 3, 2, 1], ?_, ?_⟩
  · exact List.reverse_perm [4, 3, 2, 1]
  · decide

/-- … and the difference is observable: the delegatee of identity 1 -/
theorem applyEpoch_order_dependent_observable :
    (getRec (applyEpochAsFound true 7 chainVals chainState [1, 2, 3, 4]) 1).delegatee = none ∧
    (getRec (applyEpochAsFound true 7 chainVals chainState [4, 3, 2, 1]) 1).delegatee = some 2 := by decide

-- the repaired code on the witness: both enumerations give the address-order result
example : applyEpochFixed true 7 chainVals chainState [4, 3, 2, 1] = applyEpochFixed true 7 chainVals chainState [2, 4, 1, 3] ∧
    (getRec (applyEpochFixed true 7 chainVals chainState [4, 3, 2, 1]) 1).delegatee = none ∧
    (getRec (applyEpochFixed true 7 chainVals chainState [4, 3, 2, 1]) 3).delegatee = some 4 := by decide

-- the pre-Upgrade10 branch (pending undelegation instead of removal) was order dependent in the same way: a pending
-- undelegation hides the delegatee from the next reader
example : (getRec (applyEpochAsFound false 7 chainVals chainState [1, 2, 3, 4]) 1).pendingUndelegation = true ∧
    (getRec (applyEpochAsFound false 7 chainVals chainState [4, 3, 2, 1]) 1).pendingUndelegation = false := by decide

/-! ## (d) final committee rewards -/

/-- (d) whatever the stake weights (hence the wanted amounts) are, the committee is never paid more than the pool
`BlockReward + FinalCommitteeReward`, and nothing is lost: paid + remaining = pool -/
theorem finalCommitteeRewards_sum_le (wanted : List Nat) (pool : Nat) : paidTotal wanted pool ≤ pool := by
  have := payCommittee_inv wanted pool
  unfold paidTotal; omega

theorem finalCommitteeRewards_conserved (wanted : List Nat) (pool : Nat) :
    paidTotal wanted pool + (payCommittee wanted pool).2 = pool := payCommittee_inv wanted pool

example : payCommittee [40, 50, 30] 100 = ([40, 50, 10], 0) ∧ paidTotal [40, 50, 30] 100 = 100 := by decide

/-! ## (e) next validation time (F1) -/

/-- (e) repaired code (`validationTime.UTC()` before `Weekday()`): the next validation time does not depend on the
zone of the `time.Time` value, i.e. on the host's time zone -/
theorem nextValidationTime_tz_indep (ts off₁ off₂ : Int) (base : Nat) (u12 : Bool) (satDays interval : Nat) :
    nextValidation_fixed ts off₁ base u12 satDays interval = nextValidation_fixed ts off₂ base u12 satDays interval := rfl

theorem epochDays_tz_indep (ts off₁ off₂ : Int) (base : Nat) (u12 : Bool) (satDays : Nat) :
    epochDays_fixed ts off₁ base u12 satDays = epochDays_fixed ts off₂ base u12 satDays := rfl

/-- the fixed variant is the as-found computation performed in UTC (so the repair changed nothing for UTC hosts) -/
theorem nextValidation_fixed_eq_asFound_utc (ts off : Int) (base : Nat) (u12 : Bool) (satDays interval : Nat) :
    nextValidation_fixed ts off base u12 satDays interval = nextValidation_asFound ts 0 base u12 satDays interval := rfl

/-- (e) **the code as found depended on the host zone**: validation on Saturday 2023-01-07 15:00 UTC
(unix 1673103600), network size 3000 (base 14 days), Upgrade12: a UTC host schedules the next validation 14 days
later (1674313200), a host at +9h (Asia/Tokyo — there it is already Sunday) 13 days later (1674226800) — F1. -/
theorem nextValidationTime_local_tz_dep :
    ∃ (ts off₁ off₂ : Int) (base : Nat) (u12 : Bool) (satDays interval : Nat),
      nextValidation_asFound ts off₁ base u12 satDays interval ≠ nextValidation_asFound ts off₂ base u12 satDays interval :=
  ⟨1673103600, 0, 32400, 14, true, 21, 0, by decide⟩

example : nextValidation_asFound 1673103600 0 14 true 21 0 = 1674313200 ∧
    nextValidation_asFound 1673103600 32400 14 true 21 0 = 1674226800 ∧
    nextValidation_fixed 1673103600 32400 14 true 21 0 = 1674313200 := by decide

/-- the weekday arithmetic on known dates: 1970-01-01 Thursday, 2023-01-07 15:00 UTC Saturday (Sunday at +9h),
1969-12-31 23:59:59 Wednesday (floor division below zero) -/
example : weekday 0 0 = 4 ∧ weekday 1673103600 0 = 6 ∧ weekday 1673103600 32400 = 0 ∧ weekday (-1) 0 = 3 := by decide

theorem weekday_is_a_weekday (ts off : Int) : 0 ≤ weekday ts off ∧ weekday ts off < 7 := weekday_range ts off

/-! ## (h) contract store iteration (F14) -/

/-- (h) repaired code (cached keys visited in sorted order): what the contract's callback does — events, transfers,
gas, early stop — does not depend on the enumeration order of the same-block cache -/
theorem iterate_sorted_perm {σ : Type} (pre : σ → Nat → CacheVal → σ) (f : σ → Nat → Nat → σ × Bool)
    (cache : Nat → CacheVal) (tree : List (Nat × Nat)) {l₁ l₂ : List Nat} (h : l₁.Perm l₂) (s : σ) :
    iterateFixed pre f cache tree l₁ s = iterateFixed pre f cache tree l₂ s := by
  unfold iterateFixed; rw [isort_perm h]

/-- a callback that emits one event per entry (`RefundableOracleLock.refund`: `Send` + `Event` per deposit) -/
def emitKey (trace : List Nat) (k _v : Nat) : List Nat × Bool := (trace ++ [k], false)

/-- (h) **the code as found handed same-block writes to the callback in map order**: two cached keys, an
event-emitting callback, two enumerations — two different event lists, hence two receipts (F14) -/
theorem iterate_order_dependent :
    ∃ (cache : Nat → CacheVal) (tree : List (Nat × Nat)) (l₁ l₂ : List Nat), l₁.Perm l₂ ∧
      iterateAsFound (fun s _ _ => s) emitKey cache tree l₁ [] ≠ iterateAsFound (fun s _ _ => s) emitKey cache tree l₂ [] := by
  refine ⟨fun k => ⟨false, k * 100⟩, [(1, 1), (3, 3)], [1, 2], [2, 1], List.Perm.swap 2 1 [], ?_⟩
  decide

-- the repaired iteration on the witness: cache in key order, then the tree keys not shadowed by the cache; and an
-- early stop (callback returns true at key 2) is honoured
example : iterateFixed (fun s _ _ => s) emitKey (fun k => ⟨false, k * 100⟩) [(1, 1), (3, 3)] [2, 1] [] = [1, 2, 3] := by decide
example : iterateFixed (fun s _ _ => s) (fun (t : List Nat) k _ => (t ++ [k], k == 2)) (fun k => ⟨k == 1, k⟩)
    [(3, 3)] [2, 1] [] = [2] := by decide

end IdenaModel.Determinism
