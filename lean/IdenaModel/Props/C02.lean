import IdenaModel.Model.BlockBuild
/-!
# C02 — every block built by an honest proposer is accepted by every honest validator (transaction part)

`process_filter_ok`: for ANY verdict functions (skip / validate / apply), any check state and any candidate list —
whatever the mempool holds — the strict validating path accepts exactly the list the building path kept and ends in
the same state with the same fee, tips and gas totals.  `filter_sublist`: the block body is a sub-list of the
candidates in their order.  `filter_gas_bound`: at most the last kept transaction crosses the cap.
The legacy (pre-Upgrade10) regime keeps the *totals* in agreement (`process_filter_legacy_ok`), but the building path's
check state runs ahead of the block by the transaction that hit the cap (`legacy_state_runs_ahead`); no configuration
reachable through `ApplyConsensusVersion` since v10 uses it, so this is documentation, not a finding.
-/
namespace IdenaModel.BlockBuild

variable {S Tx : Type}

theorem process_filter_ok (skip : Tx → Bool) (validate : S → Tx → Bool) (apply : S → Tx → Option (Applied S))
    (cap : Nat) (a : Acc S) (txs : List Tx) (h : a.gas ≤ cap) :
    processTxs validate apply cap a false (filterTxs skip validate apply cap a txs).1
      = some (filterTxs skip validate apply cap a txs).2 := by
  induction txs generalizing a with
  | nil => simp [filterTxs, processTxs]
  | cons tx rest ih =>
    unfold filterTxs
    split
    · exact ih a h
    · split
      · exact ih a h
      · rename_i hv
        split
        · exact ih a h
        · rename_i r hap
          split
          · rename_i hgt
            simp [processTxs, hv, hap, hgt]
          · rename_i hle
            have hle' : (a.add r).gas ≤ cap := by omega
            have := ih (a.add r) hle'
            simp only [processTxs, hap]
            simp at hv
            simp [hv, hle, this]

theorem filter_sublist (skip : Tx → Bool) (validate : S → Tx → Bool) (apply : S → Tx → Option (Applied S))
    (cap : Nat) (a : Acc S) (txs : List Tx) :
    (filterTxs skip validate apply cap a txs).1.Sublist txs := by
  induction txs generalizing a with
  | nil => simp [filterTxs]
  | cons tx rest ih =>
    unfold filterTxs
    split
    · exact (ih a).cons _
    · split
      · exact (ih a).cons _
      · split
        · exact (ih a).cons _
        · split
          · simp
          · exact (ih _).cons_cons _

/-- the accumulated gas exceeds the cap by at most the gas of one (the last) transaction: every proper prefix of the
block stays within the cap -/
theorem filter_gas_bound (skip : Tx → Bool) (validate : S → Tx → Bool) (apply : S → Tx → Option (Applied S))
    (cap : Nat) (a : Acc S) (txs : List Tx) (h : a.gas ≤ cap) :
    (filterTxs skip validate apply cap a txs).2.gas ≤ cap ∨
      ∃ (pre : Acc S) (r : Applied S), pre.gas ≤ cap ∧ (filterTxs skip validate apply cap a txs).2 = pre.add r := by
  induction txs generalizing a with
  | nil => left; simpa [filterTxs]
  | cons tx rest ih =>
    unfold filterTxs
    split
    · exact ih a h
    · split
      · exact ih a h
      · split
        · exact ih a h
        · rename_i r hap
          split
          · right; exact ⟨a, r, h, rfl⟩
          · rename_i hle
            exact ih (a.add r) (by omega)

/-- legacy regime: totals of the two paths agree … -/
theorem process_filter_legacy_ok (skip : Tx → Bool) (validate : S → Tx → Bool) (apply : S → Tx → Option (Applied S))
    (cap : Nat) (a : Acc S) (txs : List Tx) (h : a.gas ≤ cap) :
    ∃ fin, processTxsLegacy validate apply cap a (filterTxsLegacy skip validate apply cap a txs).1 = some fin ∧
      fin.fee = (filterTxsLegacy skip validate apply cap a txs).2.fee ∧
      fin.tips = (filterTxsLegacy skip validate apply cap a txs).2.tips ∧
      fin.gas = (filterTxsLegacy skip validate apply cap a txs).2.gas := by
  induction txs generalizing a with
  | nil => exact ⟨a, by simp [filterTxsLegacy, processTxsLegacy]⟩
  | cons tx rest ih =>
    unfold filterTxsLegacy
    split
    · exact ih a h
    · split
      · exact ih a h
      · rename_i hv
        split
        · exact ih a h
        · rename_i r hap
          split
          · exact ⟨a, by simp [processTxsLegacy]⟩
          · rename_i hle
            obtain ⟨fin, hf, h1⟩ := ih (a.add r) (by omega)
            refine ⟨fin, ?_, h1⟩
            simp only [processTxsLegacy, hap]
            simp at hv
            simp [hv, hle, hf]

/-- … but the building path's state is not the block's state (witness: one transaction that crosses the cap) -/
theorem legacy_state_runs_ahead :
    ∃ (apply : Nat → Unit → Option (Applied Nat)) (a : Acc Nat),
      (filterTxsLegacy (fun _ => false) (fun _ _ => true) apply 5 a [()]).1 = [] ∧
      (filterTxsLegacy (fun _ => false) (fun _ _ => true) apply 5 a [()]).2.st ≠ a.st :=
  ⟨fun s _ => some (s + 1, 0, 0, 10), ⟨0, 0, 0, 0⟩, by decide, by decide⟩

/-- non-vacuity: a candidate list with an invalid, a failing and a cap-crossing transaction -/
example :
    let validate : Nat → Nat → Bool := fun _ tx => tx != 7
    let apply : Nat → Nat → Option (Applied Nat) := fun s tx => if tx = 9 then none else some (s + tx, 1, 0, tx)
    (filterTxs (fun _ => false) validate apply 10 ⟨0, 0, 0, 0⟩ [3, 7, 9, 4, 5, 6]).1 = [3, 4, 5] := by
  decide

/-! ### side-effecting validation: the proposer's header state is the validator's state -/

theorem filterD_length_le (skip : Tx → Bool) (validateD : S → Tx → Bool × S) (applyD : S → Tx → Option (Applied S) × S)
    (cap : Nat) (a : Acc S) (txs : List Tx) : (filterTxsD skip validateD applyD cap a txs).1.length ≤ txs.length := by
  induction txs generalizing a with
  | nil => simp [filterTxsD]
  | cons tx rest ih =>
    unfold filterTxsD
    split
    · exact Nat.le_succ_of_le (ih a)
    · simp only
      split
      · exact Nat.le_succ_of_le (ih _)
      · split
        · exact Nat.le_succ_of_le (ih _)
        · split
          · simp
          · simp; exact ih _

/-- when nothing was dropped, the building path itself is a run of the strict path: same list, same final state and
totals (the traces validation leaves are the same on both sides because the same calls were made) -/
theorem filterD_all_kept (skip : Tx → Bool) (validateD : S → Tx → Bool × S) (applyD : S → Tx → Option (Applied S) × S)
    (cap : Nat) (a : Acc S) (txs : List Tx) (hg : a.gas ≤ cap)
    (hall : (filterTxsD skip validateD applyD cap a txs).1.length = txs.length) :
    (filterTxsD skip validateD applyD cap a txs).1 = txs ∧
    processTxsD validateD applyD cap a false txs = some (filterTxsD skip validateD applyD cap a txs).2 := by
  induction txs generalizing a with
  | nil => simp [filterTxsD, processTxsD]
  | cons tx rest ih =>
    unfold filterTxsD at hall ⊢
    split at hall
    · have := filterD_length_le skip validateD applyD cap a rest; simp at hall; omega
    · rename_i hs
      simp only [hs] at ⊢
      simp only at hall ⊢
      split at hall
      · have := filterD_length_le skip validateD applyD cap { a with st := (validateD a.st tx).2 } rest
        simp at hall; omega
      · rename_i hv
        split at hall
        · rename_i s2 hap
          have := filterD_length_le skip validateD applyD cap { a with st := s2 } rest
          simp at hall; omega
        · rename_i r s2 hap
          split at hall
          · rename_i hgt
            -- the cap-crossing transaction ends the list: everything was kept only if nothing follows
            have hrest : rest = [] := by
              cases rest with
              | nil => rfl
              | cons _ _ => simp at hall
            subst hrest
            simp at hv
            simp [hv, hap, hgt, processTxsD]
          · rename_i hle
            have hle' : (({ a with st := (validateD a.st tx).2 } : Acc S).add r).gas ≤ cap := by omega
            have hlen : (filterTxsD skip validateD applyD cap (({ a with st := (validateD a.st tx).2 } : Acc S).add r) rest).1.length = rest.length := by
              simp at hall; exact hall
            obtain ⟨h1, h2⟩ := ih _ hle' hlen
            simp at hv
            simp [hv, hap, hle, h1, h2, processTxsD]

/-- **propose_accepted**: whatever traces refused candidates leave on the building state, the block `ProposeBlock`
emits — its kept list together with the state and totals its header is derived from — is exactly what the strict path
computes from a clean state for that list. -/
theorem propose_accepted (skip : Tx → Bool) (validateD : S → Tx → Bool × S) (applyD : S → Tx → Option (Applied S) × S)
    (cap : Nat) (clean : Acc S) (txs : List Tx) (hg : clean.gas ≤ cap) :
    processTxsD validateD applyD cap clean false (proposeD skip validateD applyD cap clean txs).1
      = some (proposeD skip validateD applyD cap clean txs).2 := by
  unfold proposeD
  simp only
  split
  · split
    · rename_i a h; simpa using h
    · simp [processTxsD]
  · rename_i hlt
    have hlen := filterD_length_le skip validateD applyD cap clean txs
    have heq : (filterTxsD skip validateD applyD cap clean txs).1.length = txs.length := by omega
    obtain ⟨h1, h2⟩ := filterD_all_kept skip validateD applyD cap clean txs hg heq
    rw [h1]; exact h2

/-- **F18 witness**: with the code as found (header derived from the building state) one refused candidate whose
validation leaves a trace makes the proposer's state differ from what every validator computes -/
theorem propose_as_found_rejected :
    ∃ (validateD : Nat → Nat → Bool × Nat) (applyD : Nat → Nat → Option (Applied Nat) × Nat) (txs : List Nat),
      processTxsD validateD applyD 100 ⟨0, 0, 0, 0⟩ false
          (proposeDAsFound (fun _ => false) validateD applyD 100 ⟨0, 0, 0, 0⟩ txs).1
        ≠ some (proposeDAsFound (fun _ => false) validateD applyD 100 ⟨0, 0, 0, 0⟩ txs).2 :=
  ⟨fun s tx => if tx = 7 then (false, s + 1000) else (true, s), fun s tx => (some (s + tx, 1, 0, 1), s), [7, 3], by decide⟩

example :
    (proposeD (fun _ => false) (fun (s : Nat) (tx : Nat) => if tx = 7 then (false, s + 1000) else (true, s))
      (fun s tx => (some (s + tx, 1, 0, 1), s)) 100 ⟨0, 0, 0, 0⟩ [7, 3]) = ([3], ⟨3, 1, 0, 1⟩) := by decide

end IdenaModel.BlockBuild
