import IdenaModel.Model.BlockBuild
/-!
# C02 — every block built by an honest proposer is accepted by every honest validator (transaction part)

`process_filter_ok`: for ANY verdict functions (skip / validate / apply), any check state and any candidate list —
whatever the mempool holds — the strict validating path accepts exactly the list the building path kept and ends in
the same state with the same fee, tips and gas totals.  `filter_sublist`: the block body is a sub-list of the
candidates in their order.  `filter_gas_bound`: at most the last kept transaction crosses the cap.
The legacy (pre-Upgrade10) regime keeps the *totals* in agreement (`process_filter_legacy_ok`), but the building path's
check state runs ahead of the block by the transaction that hit the cap (`legacy_state_runs_ahead`); no configuration
reachable through `ApplyConsensusVersion` since v10 uses it, so this is documentation, not a finding.
-/
namespace IdenaModel.BlockBuild

variable {S Tx : Type}

theorem process_filter_ok (skip : Tx → Bool) (validate : S → Tx → Bool) (apply : S → Tx → Option (Applied S))
    (cap : Nat) (a : Acc S) (txs : List Tx) (h : a.gas ≤ cap) :
    processTxs validate apply cap a false (filterTxs skip validate apply cap a txs).1
      = some (filterTxs skip validate apply cap a txs).2 := by
  induction txs generalizing a with
  | nil => simp [filterTxs, processTxs]
  | cons tx rest ih =>
    unfold filterTxs
    split
    · exact ih a h
    · split
      · exact ih a h
      · rename_i hv
        split
        · exact ih a h
        · rename_i r hap
          split
          · rename_i hgt
            simp [processTxs, hv, hap, hgt]
          · rename_i hle
            have hle' : (a.add r).gas ≤ cap := by omega
            have := ih (a.add r) hle'
            simp only [processTxs, hap]
            simp at hv
            simp [hv, hle, this]

theorem filter_sublist (skip : Tx → Bool) (validate : S → Tx → Bool) (apply : S → Tx → Option (Applied S))
    (cap : Nat) (a : Acc S) (txs : List Tx) :
    (filterTxs skip validate apply cap a txs).1.Sublist txs := by
  induction txs generalizing a with
  | nil => simp [filterTxs]
  | cons tx rest ih =>
    unfold filterTxs
    split
    · exact (ih a).cons _
    · split
      · exact (ih a).cons _
      · split
        · exact (ih a).cons _
        · split
          · simp
          · exact (ih _).cons_cons _

/-- the accumulated gas exceeds the cap by at most the gas of one (the last) transaction: every proper prefix of the
block stays within the cap -/
theorem filter_gas_bound (skip : Tx → Bool) (validate : S → Tx → Bool) (apply : S → Tx → Option (Applied S))
    (cap : Nat) (a : Acc S) (txs : List Tx) (h : a.gas ≤ cap) :
    (filterTxs skip validate apply cap a txs).2.gas ≤ cap ∨
      ∃ (pre : Acc S) (r : Applied S), pre.gas ≤ cap ∧ (filterTxs skip validate apply cap a txs).2 = pre.add r := by
  induction txs generalizing a with
  | nil => left; simpa [filterTxs]
  | cons tx rest ih =>
    unfold filterTxs
    split
    · exact ih a h
    · split
      · exact ih a h
      · split
        · exact ih a h
        · rename_i r hap
          split
          · right; exact ⟨a, r, h, rfl⟩
          · rename_i hle
            exact ih (a.add r) (by omega)

/-- legacy regime: totals of the two paths agree … -/
theorem process_filter_legacy_ok (skip : Tx → Bool) (validate : S → Tx → Bool) (apply : S → Tx → Option (Applied S))
    (cap : Nat) (a : Acc S) (txs : List Tx) (h : a.gas ≤ cap) :
    ∃ fin, processTxsLegacy validate apply cap a (filterTxsLegacy skip validate apply cap a txs).1 = some fin ∧
      fin.fee = (filterTxsLegacy skip validate apply cap a txs).2.fee ∧
      fin.tips = (filterTxsLegacy skip validate apply cap a txs).2.tips ∧
      fin.gas = (filterTxsLegacy skip validate apply cap a txs).2.gas := by
  induction txs generalizing a with
  | nil => exact ⟨a, by simp [filterTxsLegacy, processTxsLegacy]⟩
  | cons tx rest ih =>
    unfold filterTxsLegacy
    split
    · exact ih a h
    · split
      · exact ih a h
      · rename_i hv
        split
        · exact ih a h
        · rename_i r hap
          split
          · exact ⟨a, by simp [processTxsLegacy]⟩
          · rename_i hle
            obtain ⟨fin, hf, h1⟩ := ih (a.add r) (by omega)
            refine ⟨fin, ?_, h1⟩
            simp only [processTxsLegacy, hap]
            simp at hv
            simp [hv, hle, hf]

/-- … but the building path's state is not the block's state (witness: one transaction that crosses the cap) -/
theorem legacy_state_runs_ahead :
    ∃ (apply : Nat → Unit → Option (Applied Nat)) (a : Acc Nat),
      (filterTxsLegacy (fun _ => false) (fun _ _ => true) apply 5 a [()]).1 = [] ∧
      (filterTxsLegacy (fun _ => false) (fun _ _ => true) apply 5 a [()]).2.st ≠ a.st :=
  ⟨fun s _ => some (s + 1, 0, 0, 10), ⟨0, 0, 0, 0⟩, by decide, by decide⟩

/-- non-vacuity: a candidate list with an invalid, a failing and a cap-crossing transaction -/
example :
    let validate : Nat → Nat → Bool := fun _ tx => tx != 7
    let apply : Nat → Nat → Option (Applied Nat) := fun s tx => if tx = 9 then none else some (s + tx, 1, 0, tx)
    (filterTxs (fun _ => false) validate apply 10 ⟨0, 0, 0, 0⟩ [3, 7, 9, 4, 5, 6]).1 = [3, 4, 5] := by
  decide

end IdenaModel.BlockBuild
