import IdenaModel.Model.CeremonyCandidates
/-!
# C01 — the ceremony candidates a node holds are a function of its canonical chain (M-CeremonyCandidates)

With the repaired reset handler every node-local history (blocks, resets of any depth within the epoch, restarts, epoch
changes) leaves the node with exactly the candidates of the flip-lottery block that is in its chain — so two nodes on the same
chain evaluate the validation with the same candidates.  With the handler as found, one reset over the flip-lottery block is
enough to break it (finding F38, replayed on the real code by the replica channel).
-/
namespace IdenaModel.CeremonyCandidates

/-- what the node holds is what its chain says, and while a ceremony is running the persisted identities are the chain's too -/
def Inv (n : Node) : Prop := n.cands = expected n.chain ∧ ∀ i a, n.chain.lot = some (i, a) → n.db = some i

theorem inv_init : Inv Node.init := ⟨rfl, fun _ _ h => by simp [Node.init] at h⟩

/-- one step of the repaired node keeps the invariant -/
theorem inv_step (n : Node) (op : Op) (h : Inv n) : Inv (n.step true op) := by
  obtain ⟨hc, hd⟩ := h
  unfold expected at hc
  cases op with
  | block =>
    cases hl : n.chain.lot with
    | none =>
      simp only [Node.step, hl]
      exact ⟨by simpa [expected, hl] using hc, fun i a h => by simp [hl] at h⟩
    | some p =>
      obtain ⟨i, a⟩ := p
      simp only [Node.step, hl]
      refine ⟨by simpa [expected, hl] using hc, fun i' a' h => ?_⟩
      simp only [Option.some.injEq, Prod.mk.injEq] at h
      exact h.1 ▸ hd i a hl
  | lottery ids =>
    cases hl : n.chain.lot with
    | none =>
      have hn : n.cands = none := by simpa [hl] using hc
      simp only [Node.step, hl, hn]
      refine ⟨by simp [expected], fun i' a' h => ?_⟩
      simp only [Option.some.injEq, Prod.mk.injEq] at h
      simp [h.1]
    | some p =>
      obtain ⟨i, a⟩ := p
      simp only [Node.step, hl]
      refine ⟨by simpa [expected, hl] using hc, fun i' a' h => ?_⟩
      simp only [Option.some.injEq, Prod.mk.injEq] at h
      exact h.1 ▸ hd i a hl
  | finish => exact ⟨by simp [Node.step, expected], fun i a h => by simp [Node.step] at h⟩
  | reset k =>
    cases hl : n.chain.lot with
    | none =>
      simp only [Node.step, hl]
      exact ⟨by simp [expected, hl], fun i a h => by simp [hl] at h⟩
    | some p =>
      obtain ⟨i, a⟩ := p
      simp only [Node.step, hl]
      split
      · refine ⟨by simpa [expected, hl] using hc, fun i' a' h => ?_⟩
        simp only [Option.some.injEq, Prod.mk.injEq] at h
        exact h.1 ▸ hd i a hl
      · exact ⟨by simp [expected], fun i' a' h => by simp at h⟩
  | restart =>
    cases hl : n.chain.lot with
    | none =>
      simp only [Node.step, hl]
      exact ⟨by simp [expected, hl], fun i a h => by simp [hl] at h⟩
    | some p =>
      obtain ⟨i, a⟩ := p
      have hdb := hd i a hl
      simp only [Node.step, hl, hdb]
      exact ⟨by simp [expected, hl], fun i' a' h => by simp [hl] at h; exact h.1 ▸ rfl⟩

/-- **candidates_function_of_chain**: after any history the repaired node holds what its chain says -/
theorem candidates_function_of_chain (ops : List Op) : Inv (Node.init.run true ops) := by
  have : ∀ (n : Node), Inv n → Inv (n.run true ops) := by
    induction ops with
    | nil => intro n h; exact h
    | cons op ops ih => intro n h; exact ih _ (inv_step n op h)
  exact this _ inv_init

/-- **same_chain_same_candidates**: two nodes with different histories but the same chain hold the same candidates -/
theorem same_chain_same_candidates (ops₁ ops₂ : List Op)
    (hc : (Node.init.run true ops₁).chain = (Node.init.run true ops₂).chain) :
    (Node.init.run true ops₁).cands = (Node.init.run true ops₂).cands := by
  have h1 := (candidates_function_of_chain ops₁).1
  have h2 := (candidates_function_of_chain ops₂).1
  rw [h1, h2, hc]

/-- **F38 witness**: with the reset handler as found, a node that saw a flip-lottery block on identities 1, was reset below it
and then adopted a flip-lottery block on identities 2 keeps the candidates of the abandoned branch — and a restart does not heal
it, the abandoned branch's identities are what the epoch database holds; a node that only ever saw the adopted chain holds the others -/
theorem as_found_counterexample :
    let ops := [Op.block, Op.lottery 1, Op.reset 1, Op.lottery 2]
    (Node.init.run false ops).chain = (Node.init.run false [Op.block, Op.lottery 2]).chain ∧
    (Node.init.run false ops).cands = some 1 ∧
    (Node.init.run false [Op.block, Op.lottery 2]).cands = some 2 ∧
    ((Node.init.run false ops).step false Op.restart).cands = some 1 := by decide

/-- the same history on the repaired node -/
example : (Node.init.run true [Op.block, Op.lottery 1, Op.reset 1, Op.lottery 2]).cands = some 2 := by decide
/-- … and across a restart at any point of it -/
example : (Node.init.run true [Op.block, Op.lottery 1, Op.restart, Op.reset 1, Op.restart, Op.lottery 2, Op.restart]).cands = some 2 := by
  decide
/-- a reset that stays above the flip-lottery block keeps the candidates (they are still the chain's) -/
example : (Node.init.run true [Op.lottery 7, Op.block, Op.block, Op.reset 2]).cands = some 7 := by decide

end IdenaModel.CeremonyCandidates
