import IdenaModel.Proofs.Crash
/-!
# C09 — a crash at any point leaves a node that restarts into a consistent chain

All statements are about the model `Model/Crash.lean` (write lists of `AddBlock`, `ResetTo`, the fast-sync
hand-over in the code's order; a crash keeps the first `k` atomic writes; `recover` = the start-up sequence).
They quantify over every store that is consistent with its head (`WF`), every block / target / header list,
and **every** crash point `k`.

* `recover_consistent` (AddBlock), `recover_consistent_reset`, `recover_consistent_fastsync`: start-up succeeds,
  the head's roots are the loaded roots, the head is the interrupted block or the previous head (AddBlock),
  the old head or the target (ResetTo), the old head or the snapshot block (fast sync).
  For AddBlock and fast sync the start-up *writes nothing* (no repair is ever needed).
* `clean_restart_id`: start-up after the complete write list returns the store unchanged and exactly the memory
  the live node has.
* `recover_then_continue`: after a crash at any point of `AddBlock(b)`, feeding the same blocks (`b :: rest` or
  `rest`, depending on where the node restarted) is accepted and ends in the same memory (head, loaded
  versions, roots) as the never-crashed run, for block lists of any length.
* counter-theorems: `head_before_trees_needs_repair` / `head_before_trees_breaks` (the reordered AddBlock),
  `unbatched_switch_breaks` (fast-sync switch split into two writes), `insert_crash_can_leave_hole` +
  `reset_on_hole_breaks` (what the missing canonical hash of a crash between head and canonical write does to
  a later `ResetTo` onto that height).
-/
namespace IdenaModel.Crash

/-! ## AddBlock -/

theorem saveW_cases (t : Tree) (v r : Nat) (mk : Nat → Nat → W) :
    (t.root v = none ∧ saveW t v r mk = .ok [mk v r]) ∨ (t.root v = some r ∧ saveW t v r mk = .ok []) ∨
    (∃ r', t.root v = some r' ∧ r' ≠ r ∧ saveW t v r mk = .error .differentHash) := by
  unfold saveW
  cases h : t.root v with
  | none => simp
  | some r' =>
    by_cases e : r' = r
    · subst e; simp
    · right; right; exact ⟨r', rfl, e, by simp [e]⟩

/-- a write list `A ++ w :: C` (w = the head write) whose first part keeps the store consistent with `H`, whose head write makes it
consistent with `B`, and whose rest keeps that: every crash point is consistent with `H` or with `B` -/
theorem crash_shape {s : Store} {H B : Hdr} {A C : List W} {w : W} (hwf : WF s H)
    (hA : ∀ w ∈ A, ∀ s', WF s' H → WF (apply s' w) H)
    (hT : WF (apply (applyAll s A) w) B)
    (hC : ∀ w ∈ C, ∀ s', WF s' B → WF (apply s' w) B) (k : Nat) :
    WF (crashAt k (A ++ w :: C) s) H ∨ WF (crashAt k (A ++ w :: C) s) B := by
  rcases crashAt_mid A C w s k with ⟨_, e⟩ | ⟨_, e⟩
  · left; rw [e]; exact crashAt_preserves hA hwf k
  · right; rw [e]; exact crashAt_preserves hC hT _

/-- first part of AddBlock's writes: the trees (saves + pruning batches) -/
def insA (w1 w2 : List W) (b : Blk) (sd idl : List Nat) : List W :=
  w1 ++ sd.map (fun v => .stDel [v]) ++ w2 ++ idl.map (fun v => .idDel [v])

/-- the writes after the head batch -/
def insC (s : Store) (m : Mem) (b : Blk) : List W :=
    (if b.diff then [.idDiffSet b.hdr.height] else if s.idDiff b.hdr.height then [.idDiffDel b.hdr.height] else []) ++
    List.replicate b.sec1 .sec ++ (if m.prelim then [.rmPrelim] else []) ++ List.replicate b.sec2 .sec

theorem insertWrites_ok {s : Store} {m : Mem} {b : Blk} {sd idl : List Nat} {w1 w2 : List W}
    (hp : ¬(b.hdr.height ≠ m.head.height + 1 ∨ b.hdr.parent ≠ m.head.hash))
    (h1 : saveW s.st b.hdr.height b.hdr.sroot .stSave = .ok w1)
    (h2 : saveW s.idt b.hdr.height b.hdr.iroot .idSave = .ok w2) :
    insertWrites s m b sd idl = ⟨insA w1 w2 b sd idl ++ .newHead b.hdr :: insC s m b, none⟩ := by
  unfold insertWrites insertWritesG
  rw [if_neg hp]
  simp [h1, h2, insA, insC, headerWrites, List.append_assoc]

theorem insC_safe {s0 : Store} {m : Mem} {b : Blk} :
    ∀ w ∈ insC s0 m b, ∀ s', WF s' b.hdr → WF (apply s' w) b.hdr := by
  intro w hw s' h
  simp only [insC, List.mem_append, List.mem_replicate] at hw
  rcases hw with ((hw | hw) | hw) | hw
  · split at hw
    · simp at hw; subst hw; exact wf_inert h (by simp)
    · split at hw
      · simp at hw; subst hw; exact wf_inert h (by simp)
      · simp at hw
  · exact wf_inert h (Or.inl hw.2)
  · split at hw
    · simp at hw; subst hw; exact wf_inert h (by simp)
    · simp at hw
  · exact wf_inert h (Or.inl hw.2)

/-- every write of the first part keeps the store consistent with the previous head -/
theorem insA_safe {H : Hdr} {b : Blk} {sd idl : List Nat} {w1 w2 : List W}
    (hh : b.hdr.height = H.height + 1)
    (hw1 : ∀ w ∈ w1, w = .stSave b.hdr.height b.hdr.sroot) (hw2 : ∀ w ∈ w2, w = .idSave b.hdr.height b.hdr.iroot)
    (hsd : ∀ v ∈ sd, v < H.height) (hid : ∀ v ∈ idl, v < H.height) :
    ∀ w ∈ insA w1 w2 b sd idl, ∀ s', WF s' H → WF (apply s' w) H := by
  intro w hw s' h
  simp only [insA, List.mem_append, List.mem_map] at hw
  rcases hw with ((hw | ⟨v, hv, rfl⟩) | hw) | ⟨v, hv, rfl⟩
  · rw [hw1 w hw]; exact wf_stSave h (by omega)
  · exact wf_stDel h (by have := hsd v hv; simp; omega)
  · rw [hw2 w hw]; exact wf_idSave h (by omega)
  · exact wf_idDel h (by have := hid v hv; simp; omega)

/-- after the first part both trees hold the new version with the block's roots -/
theorem insA_trees {s : Store} {H : Hdr} {b : Blk} {sd idl : List Nat} {w1 w2 : List W}
    (hh : b.hdr.height = H.height + 1)
    (h1 : (s.st.root b.hdr.height = none ∧ w1 = [.stSave b.hdr.height b.hdr.sroot]) ∨ (s.st.root b.hdr.height = some b.hdr.sroot ∧ w1 = []))
    (h2 : (s.idt.root b.hdr.height = none ∧ w2 = [.idSave b.hdr.height b.hdr.iroot]) ∨ (s.idt.root b.hdr.height = some b.hdr.iroot ∧ w2 = []))
    (hsd : ∀ v ∈ sd, v < H.height) (hid : ∀ v ∈ idl, v < H.height) :
    (applyAll s (insA w1 w2 b sd idl)).st.root b.hdr.height = some b.hdr.sroot ∧
    (applyAll s (insA w1 w2 b sd idl)).idt.root b.hdr.height = some b.hdr.iroot := by
  -- the state tree: established by `w1`, kept by everything after it
  have stKeep : ∀ (l : List W), (∀ w ∈ l, (∃ v, v < H.height ∧ w = .stDel [v]) ∨ (∃ v r, w = .idSave v r) ∨ (∃ vs, w = .idDel vs) ∨ (∃ x, w = .hdr x)) →
      ∀ s', s'.st.root b.hdr.height = some b.hdr.sroot → (applyAll s' l).st.root b.hdr.height = some b.hdr.sroot := by
    intro l hl s' hs'
    refine applyAll_preserves (P := fun x => x.st.root b.hdr.height = some b.hdr.sroot) ?_ hs'
    intro w hw x hx
    rcases hl w hw with ⟨v, hv, rfl⟩ | ⟨v, r, rfl⟩ | ⟨vs, rfl⟩ | ⟨y, rfl⟩
    · have : b.hdr.height ≠ v := by omega
      simpa [apply, Tree.del, this] using hx
    · simpa [apply] using hx
    · simpa [apply] using hx
    · simpa [apply] using hx
  have idKeep : ∀ (l : List W), (∀ w ∈ l, (∃ v, v < H.height ∧ w = .idDel [v]) ∨ (∃ x, w = .hdr x)) →
      ∀ s', s'.idt.root b.hdr.height = some b.hdr.iroot → (applyAll s' l).idt.root b.hdr.height = some b.hdr.iroot := by
    intro l hl s' hs'
    refine applyAll_preserves (P := fun x => x.idt.root b.hdr.height = some b.hdr.iroot) ?_ hs'
    intro w hw x hx
    rcases hl w hw with ⟨v, hv, rfl⟩ | ⟨y, rfl⟩
    · have : b.hdr.height ≠ v := by omega
      simpa [apply, Tree.del, this] using hx
    · simpa [apply] using hx
  have hst1 : (applyAll s w1).st.root b.hdr.height = some b.hdr.sroot := by
    rcases h1 with ⟨_, rfl⟩ | ⟨h, rfl⟩
    · simp [applyAll, apply, Tree.save]
    · simpa [applyAll] using h
  have hw2shape : ∀ w ∈ w2, ∃ v r, w = .idSave v r := by
    intro w hw
    rcases h2 with ⟨_, rfl⟩ | ⟨_, rfl⟩
    · simp at hw; exact ⟨_, _, hw⟩
    · simp at hw
  constructor
  · have : insA w1 w2 b sd idl = w1 ++ (sd.map (fun v => W.stDel [v]) ++ w2 ++ idl.map (fun v => W.idDel [v])) := by
      simp [insA, List.append_assoc]
    rw [this, applyAll_append s w1]
    refine stKeep (sd.map (fun v => W.stDel [v]) ++ w2 ++ idl.map (fun v => W.idDel [v])) ?_ _ hst1
    intro w hw
    simp only [List.mem_append, List.mem_map] at hw
    rcases hw with (⟨v, hv, rfl⟩ | hw) | ⟨v, hv, rfl⟩
    · exact Or.inl ⟨v, hsd v hv, rfl⟩
    · exact Or.inr (Or.inl (hw2shape w hw))
    · exact Or.inr (Or.inr (Or.inl ⟨_, rfl⟩))
  · have : insA w1 w2 b sd idl = (w1 ++ sd.map (fun v => W.stDel [v])) ++ w2 ++ (idl.map (fun v => W.idDel [v])) := by
      simp [insA, List.append_assoc]
    rw [this, applyAll_append s (w1 ++ sd.map (fun v => W.stDel [v]) ++ w2), applyAll_append s (w1 ++ sd.map (fun v => W.stDel [v])) w2]
    refine idKeep (idl.map (fun v => W.idDel [v])) ?_ _ ?_
    · intro w hw
      simp only [List.mem_map] at hw
      obtain ⟨v, hv, rfl⟩ := hw
      exact Or.inl ⟨v, hid v hv, rfl⟩
    · -- the identity tree is untouched by the state-tree part, then `w2` establishes the version
      have hpre : (applyAll s (w1 ++ sd.map (fun v => W.stDel [v]))).idt = s.idt := by
        refine applyAll_preserves (P := fun x => x.idt = s.idt) ?_ rfl
        intro w hw x hx
        simp only [List.mem_append, List.mem_map] at hw
        rcases hw with hw | ⟨v, _, rfl⟩
        · rcases h1 with ⟨_, rfl⟩ | ⟨_, rfl⟩
          · simp at hw; subst hw; simpa [apply] using hx
          · simp at hw
        · simpa [apply] using hx
      rcases h2 with ⟨_, rfl⟩ | ⟨h, rfl⟩
      · simp [applyAll, apply, Tree.save]
      · simp only [applyAll_nil, hpre]; exact h

/-- the complete write list (no error): every crash point is consistent with the old head or with the block -/
theorem insert_crash_main {s : Store} {m : Mem} {b : Blk} {sd idl : List Nat} {H : Hdr} {w1 w2 : List W} (hwf : WF s H)
    (hh : b.hdr.height = H.height + 1)
    (h1 : (s.st.root b.hdr.height = none ∧ w1 = [.stSave b.hdr.height b.hdr.sroot]) ∨ (s.st.root b.hdr.height = some b.hdr.sroot ∧ w1 = []))
    (h2 : (s.idt.root b.hdr.height = none ∧ w2 = [.idSave b.hdr.height b.hdr.iroot]) ∨ (s.idt.root b.hdr.height = some b.hdr.iroot ∧ w2 = []))
    (hsd : ∀ v ∈ sd, v < H.height) (hid : ∀ v ∈ idl, v < H.height) (k : Nat) :
    WF (crashAt k (insA w1 w2 b sd idl ++ .newHead b.hdr :: insC s m b) s) H ∨
    WF (crashAt k (insA w1 w2 b sd idl ++ .newHead b.hdr :: insC s m b) s) b.hdr := by
  have hpos := hwf.pos
  have hw1 : ∀ w ∈ w1, w = .stSave b.hdr.height b.hdr.sroot := by
    intro w hw; rcases h1 with ⟨_, rfl⟩ | ⟨_, rfl⟩ <;> simp_all
  have hw2 : ∀ w ∈ w2, w = .idSave b.hdr.height b.hdr.iroot := by
    intro w hw; rcases h2 with ⟨_, rfl⟩ | ⟨_, rfl⟩ <;> simp_all
  have hA := insA_safe (H := H) (b := b) (sd := sd) (idl := idl) hh hw1 hw2 hsd hid
  have hT := insA_trees (s := s) (H := H) (b := b) (sd := sd) (idl := idl) hh h1 h2 hsd hid
  have hwfA : WF (applyAll s (insA w1 w2 b sd idl)) H := applyAll_preserves (P := fun x => WF x H) hA hwf
  exact crash_shape hwf hA (wf_newHead hwfA (by omega) hT.1 hT.2) (insC_safe (s0 := s) (m := m)) k

/-- **Every crash point of AddBlock leaves a consistent store**: consistent with the previous head `H`, or with the
new block (then the block extends `H`).  `sd`/`idl` are the pruned versions; pruning never reaches the previous
head's version (`pruneList_lt` below shows this for the code's pruning rule). -/
theorem insert_crash_wf {s : Store} {m : Mem} {b : Blk} {sd idl : List Nat} {H : Hdr} (hwf : WF s H) (hm : m.head = H)
    (hsd : ∀ v ∈ sd, v < H.height) (hid : ∀ v ∈ idl, v < H.height) (k : Nat) :
    WF (crashAt k (insertWrites s m b sd idl).ws s) H ∨
    (WF (crashAt k (insertWrites s m b sd idl).ws s) b.hdr ∧ b.hdr.height = H.height + 1 ∧ b.hdr.parent = H.hash) := by
  have hpos := hwf.pos
  by_cases hp : b.hdr.height ≠ m.head.height + 1 ∨ b.hdr.parent ≠ m.head.hash
  · left
    have : (insertWrites s m b sd idl).ws = [] := by unfold insertWrites insertWritesG; rw [if_pos hp]
    rw [this]; simpa [crashAt, applyAll] using hwf
  · have hh : b.hdr.height = H.height + 1 := by rw [← hm]; exact Classical.not_not.mp (fun h => hp (Or.inl h))
    have hpar : b.hdr.parent = H.hash := by rw [← hm]; exact Classical.not_not.mp (fun h => hp (Or.inr h))
    have stOnly : ∀ (l : List W), (∀ w ∈ l, w = .stSave b.hdr.height b.hdr.sroot ∨ ∃ v ∈ sd, w = .stDel [v]) →
        WF (crashAt k l s) H := by
      intro l hl
      refine crashAt_preserves (P := fun x => WF x H) ?_ hwf k
      intro w hw s' h
      rcases hl w hw with rfl | ⟨v, hv, rfl⟩
      · exact wf_stSave h (by omega)
      · exact wf_stDel h (by have := hsd v hv; simp; omega)
    rcases saveW_cases s.st b.hdr.height b.hdr.sroot .stSave with ⟨r1, e1⟩ | ⟨r1, e1⟩ | ⟨r', _, _, e1⟩
    · rcases saveW_cases s.idt b.hdr.height b.hdr.iroot .idSave with ⟨r2, e2⟩ | ⟨r2, e2⟩ | ⟨r'', _, _, e2⟩
      · rw [insertWrites_ok hp e1 e2]
        rcases insert_crash_main (m := m) hwf hh (Or.inl ⟨r1, rfl⟩) (Or.inl ⟨r2, rfl⟩) hsd hid k with h | h
        · exact Or.inl h
        · exact Or.inr ⟨h, hh, hpar⟩
      · rw [insertWrites_ok hp e1 e2]
        rcases insert_crash_main (m := m) hwf hh (Or.inl ⟨r1, rfl⟩) (Or.inr ⟨r2, rfl⟩) hsd hid k with h | h
        · exact Or.inl h
        · exact Or.inr ⟨h, hh, hpar⟩
      · left
        have : (insertWrites s m b sd idl).ws = [.stSave b.hdr.height b.hdr.sroot] ++ sd.map (fun v => .stDel [v]) := by
          unfold insertWrites insertWritesG; rw [if_neg hp]; simp [e1, e2]
        rw [this]
        refine stOnly _ ?_
        intro w hw
        simp only [List.mem_append, List.mem_map, List.mem_cons, List.not_mem_nil, or_false] at hw
        rcases hw with rfl | ⟨v, hv, rfl⟩
        · exact Or.inl rfl
        · exact Or.inr ⟨v, hv, rfl⟩
    · rcases saveW_cases s.idt b.hdr.height b.hdr.iroot .idSave with ⟨r2, e2⟩ | ⟨r2, e2⟩ | ⟨r'', _, _, e2⟩
      · rw [insertWrites_ok hp e1 e2]
        rcases insert_crash_main (m := m) hwf hh (Or.inr ⟨r1, rfl⟩) (Or.inl ⟨r2, rfl⟩) hsd hid k with h | h
        · exact Or.inl h
        · exact Or.inr ⟨h, hh, hpar⟩
      · rw [insertWrites_ok hp e1 e2]
        rcases insert_crash_main (m := m) hwf hh (Or.inr ⟨r1, rfl⟩) (Or.inr ⟨r2, rfl⟩) hsd hid k with h | h
        · exact Or.inl h
        · exact Or.inr ⟨h, hh, hpar⟩
      · left
        have : (insertWrites s m b sd idl).ws = sd.map (fun v => .stDel [v]) := by
          unfold insertWrites insertWritesG; rw [if_neg hp]; simp [e1, e2]
        rw [this]
        refine stOnly _ ?_
        intro w hw
        simp only [List.mem_map] at hw
        obtain ⟨v, hv, rfl⟩ := hw
        exact Or.inr ⟨v, hv, rfl⟩
    · left
      have : (insertWrites s m b sd idl).ws = [] := by unfold insertWrites insertWritesG; rw [if_neg hp]; simp [e1]
      rw [this]; simpa [crashAt, applyAll] using hwf

/-- **C09 (AddBlock)** for every crash point `k` of `AddBlock(b)` on a consistent store: the start-up sequence
succeeds, writes nothing, the head's roots are the loaded roots, and the head is the previous head or the
interrupted block (which then extends the previous head). -/
theorem recover_consistent {s : Store} {m : Mem} {b : Blk} {sd idl : List Nat} {H : Hdr} (hwf : WF s H) (hm : m.head = H)
    (hsd : ∀ v ∈ sd, v < H.height) (hid : ∀ v ∈ idl, v < H.height) (k : Nat) :
    ∃ m', recover (crashAt k (insertWrites s m b sd idl).ws s) = .ok (crashAt k (insertWrites s m b sd idl).ws s) m' [] ∧
      rootsMatch m' ∧ m'.sv = m'.head.height ∧ m'.iv = m'.head.height ∧
      (m'.head = H ∨ (m'.head = b.hdr ∧ b.hdr.height = H.height + 1 ∧ b.hdr.parent = H.hash)) := by
  rcases insert_crash_wf (b := b) hwf hm hsd hid k with h | ⟨h, h2⟩
  · exact ⟨_, recover_of_wf h, ⟨rfl, rfl⟩, rfl, rfl, Or.inl rfl⟩
  · exact ⟨_, recover_of_wf h, ⟨rfl, rfl⟩, rfl, rfl, Or.inr ⟨rfl, h2⟩⟩

/-- an error-free AddBlock has the complete write list -/
theorem insertWrites_err_none {s : Store} {m : Mem} {b : Blk} {sd idl : List Nat}
    (hok : (insertWrites s m b sd idl).err = none) :
    b.hdr.height = m.head.height + 1 ∧ b.hdr.parent = m.head.hash ∧ ∃ w1 w2,
      ((s.st.root b.hdr.height = none ∧ w1 = [.stSave b.hdr.height b.hdr.sroot]) ∨ (s.st.root b.hdr.height = some b.hdr.sroot ∧ w1 = [])) ∧
      ((s.idt.root b.hdr.height = none ∧ w2 = [.idSave b.hdr.height b.hdr.iroot]) ∨ (s.idt.root b.hdr.height = some b.hdr.iroot ∧ w2 = [])) ∧
      insertWrites s m b sd idl = ⟨insA w1 w2 b sd idl ++ .newHead b.hdr :: insC s m b, none⟩ := by
  by_cases hp : b.hdr.height ≠ m.head.height + 1 ∨ b.hdr.parent ≠ m.head.hash
  · simp [insertWrites, insertWritesG, hp] at hok
  · have hh : b.hdr.height = m.head.height + 1 := Classical.not_not.mp (fun h => hp (Or.inl h))
    have hpar : b.hdr.parent = m.head.hash := Classical.not_not.mp (fun h => hp (Or.inr h))
    refine ⟨hh, hpar, ?_⟩
    rcases saveW_cases s.st b.hdr.height b.hdr.sroot .stSave with ⟨r1, e1⟩ | ⟨r1, e1⟩ | ⟨r', _, _, e1⟩
    · rcases saveW_cases s.idt b.hdr.height b.hdr.iroot .idSave with ⟨r2, e2⟩ | ⟨r2, e2⟩ | ⟨r'', _, _, e2⟩
      · exact ⟨_, _, Or.inl ⟨r1, rfl⟩, Or.inl ⟨r2, rfl⟩, insertWrites_ok hp e1 e2⟩
      · exact ⟨_, _, Or.inl ⟨r1, rfl⟩, Or.inr ⟨r2, rfl⟩, insertWrites_ok hp e1 e2⟩
      · simp [insertWrites, insertWritesG, hp, e1, e2] at hok
    · rcases saveW_cases s.idt b.hdr.height b.hdr.iroot .idSave with ⟨r2, e2⟩ | ⟨r2, e2⟩ | ⟨r'', _, _, e2⟩
      · exact ⟨_, _, Or.inr ⟨r1, rfl⟩, Or.inl ⟨r2, rfl⟩, insertWrites_ok hp e1 e2⟩
      · exact ⟨_, _, Or.inr ⟨r1, rfl⟩, Or.inr ⟨r2, rfl⟩, insertWrites_ok hp e1 e2⟩
      · simp [insertWrites, insertWritesG, hp, e1, e2] at hok
    · simp [insertWrites, insertWritesG, hp, e1] at hok

/-- the complete, error-free AddBlock leaves a store consistent with the block -/
theorem insert_done_wf {s : Store} {m : Mem} {b : Blk} {sd idl : List Nat} {H : Hdr} (hwf : WF s H) (hm : m.head = H)
    (hsd : ∀ v ∈ sd, v < H.height) (hid : ∀ v ∈ idl, v < H.height) (hok : (insertWrites s m b sd idl).err = none) :
    WF (applyAll s (insertWrites s m b sd idl).ws) b.hdr := by
  have hpos := hwf.pos
  obtain ⟨hh, _, w1, w2, h1, h2, e⟩ := insertWrites_err_none hok
  rw [hm] at hh
  rw [e]
  have hw1 : ∀ w ∈ w1, w = .stSave b.hdr.height b.hdr.sroot := by
    intro w hw; rcases h1 with ⟨_, rfl⟩ | ⟨_, rfl⟩ <;> simp_all
  have hw2 : ∀ w ∈ w2, w = .idSave b.hdr.height b.hdr.iroot := by
    intro w hw; rcases h2 with ⟨_, rfl⟩ | ⟨_, rfl⟩ <;> simp_all
  have hA := insA_safe (H := H) (b := b) (sd := sd) (idl := idl) hh hw1 hw2 hsd hid
  have hT := insA_trees (s := s) (H := H) (b := b) (sd := sd) (idl := idl) hh h1 h2 hsd hid
  have hwfA : WF (applyAll s (insA w1 w2 b sd idl)) H := applyAll_preserves (P := fun x => WF x H) hA hwf
  show WF (applyAll s (insA w1 w2 b sd idl ++ .newHead b.hdr :: insC s m b)) b.hdr
  rw [applyAll_append, applyAll_cons]
  exact applyAll_preserves (P := fun x => WF x b.hdr) (insC_safe (s0 := s) (m := m)) (wf_newHead hwfA (by omega) hT.1 hT.2)

/-- writes that touch the `preliminary-head` record -/
def touchesPrelim : W → Bool
  | .rmPrelim | .prelimHead _ | .switch _ | .switchHead _ => true
  | _ => false

theorem apply_prelim {y : Store} {w : W} (h : touchesPrelim w = false) : (apply y w).prelim = y.prelim := by
  cases w <;> simp_all [apply, touchesPrelim]

theorem applyAll_prelim {l : List W} (h : ∀ w ∈ l, touchesPrelim w = false) (y : Store) : (applyAll y l).prelim = y.prelim := by
  induction l generalizing y with
  | nil => rfl
  | cons w l ih =>
    rw [applyAll_cons, ih (fun w' hw' => h w' (List.mem_cons_of_mem _ hw')), apply_prelim (h w (List.mem_cons_self ..))]

/-- **C09 (clean restart)** a restart after the complete AddBlock changes nothing: the start-up sequence returns
the store unchanged, writes nothing, and its memory is exactly the live node's memory after the block
(head, loaded versions and roots, preliminary-head flag). -/
theorem clean_restart_id {s : Store} {m : Mem} {b : Blk} {sd idl : List Nat} {H : Hdr} (hwf : WF s H) (hm : m.head = H)
    (hpre : m.prelim = s.prelim.isSome)
    (hsd : ∀ v ∈ sd, v < H.height) (hid : ∀ v ∈ idl, v < H.height) (hok : (insertWrites s m b sd idl).err = none) :
    recover (applyAll s (insertWrites s m b sd idl).ws) =
      .ok (applyAll s (insertWrites s m b sd idl).ws) (memAfterInsert m b) [] := by
  rw [recover_of_wf (insert_done_wf hwf hm hsd hid hok)]
  have hprelim : (applyAll s (insertWrites s m b sd idl).ws).prelim = none := by
    obtain ⟨_, _, w1, w2, h1, h2, e⟩ := insertWrites_err_none hok
    rw [e]
    show (applyAll s (insA w1 w2 b sd idl ++ .newHead b.hdr :: insC s m b)).prelim = none
    have hA : ∀ w ∈ insA w1 w2 b sd idl ++ [.newHead b.hdr] ++
        (if b.diff then [.idDiffSet b.hdr.height] else if s.idDiff b.hdr.height then [.idDiffDel b.hdr.height] else []) ++
        List.replicate b.sec1 .sec, touchesPrelim w = false := by
      intro w hw
      simp only [insA, List.mem_append, List.mem_map, List.mem_cons, List.mem_replicate, List.not_mem_nil, or_false] at hw
      rcases hw with (((((hw | ⟨v, _, rfl⟩) | hw) | ⟨v, _, rfl⟩) | rfl) | hw) | hw
      · rcases h1 with ⟨_, rfl⟩ | ⟨_, rfl⟩ <;> simp_all [touchesPrelim]
      · rfl
      · rcases h2 with ⟨_, rfl⟩ | ⟨_, rfl⟩ <;> simp_all [touchesPrelim]
      · rfl
      · rfl
      · split at hw
        · simp at hw; subst hw; rfl
        · split at hw
          · simp at hw; subst hw; rfl
          · simp at hw
      · rw [hw.2]; rfl
    have hsec : ∀ w ∈ List.replicate b.sec2 W.sec, touchesPrelim w = false := by
      intro w hw; rw [(List.mem_replicate.mp hw).2]; rfl
    have hsplit : insA w1 w2 b sd idl ++ .newHead b.hdr :: insC s m b =
        (insA w1 w2 b sd idl ++ [.newHead b.hdr] ++
        (if b.diff then [.idDiffSet b.hdr.height] else if s.idDiff b.hdr.height then [.idDiffDel b.hdr.height] else []) ++
        List.replicate b.sec1 .sec) ++ ((if m.prelim then [.rmPrelim] else []) ++ List.replicate b.sec2 .sec) := by
      simp [insC, List.append_assoc]
    rw [hsplit, applyAll_append, applyAll_append, applyAll_prelim hsec]
    by_cases hpm : m.prelim = true
    · simp [hpm, applyAll, apply]
    · have hs : s.prelim = none := by
        rw [hpre] at hpm
        cases h : s.prelim <;> simp_all
      simp only [hpm, Bool.false_eq_true, if_false, applyAll_nil]
      rw [applyAll_prelim hA, hs]
  simp [memOf, memAfterInsert, hprelim]

/-! ## continuing after a crash -/

/-- above height `h` the trees hold nothing, except possibly the version of block `b` with `b`'s roots (what an
interrupted `AddBlock(b)` leaves behind) -/
def Left (s : Store) (h : Nat) (b : Blk) : Prop :=
  ∀ v, h < v →
    (s.st.root v = none ∨ (v = b.hdr.height ∧ s.st.root v = some b.hdr.sroot)) ∧
    (s.idt.root v = none ∨ (v = b.hdr.height ∧ s.idt.root v = some b.hdr.iroot))

/-- no tree version above `h` (a store that never crashed, or whose interrupted block was re-applied) -/
def TopClean (s : Store) (h : Nat) : Prop := ∀ v, h < v → s.st.root v = none ∧ s.idt.root v = none

theorem left_of_topClean {s : Store} {h : Nat} (hc : TopClean s h) (b : Blk) : Left s h b :=
  fun v hv => ⟨Or.inl (hc v hv).1, Or.inl (hc v hv).2⟩

/-- the write kinds of `AddBlock(b)` -/
def insKind (b : Blk) : W → Prop
  | .stSave v r => v = b.hdr.height ∧ r = b.hdr.sroot
  | .idSave v r => v = b.hdr.height ∧ r = b.hdr.iroot
  | .stDel _ | .idDel _ | .newHead _ | .idDiffSet _ | .idDiffDel _ | .sec | .rmPrelim => True
  | _ => False

theorem left_apply {x : Store} {h : Nat} {b : Blk} {w : W} (hk : insKind b w) (hl : Left x h b) : Left (apply x w) h b := by
  intro v hv
  have := hl v hv
  cases w <;> simp only [insKind] at hk <;> try exact this
  · -- stSave
    obtain ⟨rfl, rfl⟩ := hk
    refine ⟨?_, this.2⟩
    simp only [apply, Tree.save]
    split
    · right; exact ⟨by assumption, rfl⟩
    · exact this.1
  · obtain ⟨rfl, rfl⟩ := hk
    refine ⟨this.1, ?_⟩
    simp only [apply, Tree.save]
    split
    · right; exact ⟨by assumption, rfl⟩
    · exact this.2
  · refine ⟨?_, this.2⟩
    simp only [apply, Tree.del]
    split
    · left; rfl
    · exact this.1
  · refine ⟨this.1, ?_⟩
    simp only [apply, Tree.del]
    split
    · left; rfl
    · exact this.2

theorem insKind_ws {s : Store} {m : Mem} {b : Blk} {sd idl : List Nat} {w1 w2 : List W}
    (h1 : (s.st.root b.hdr.height = none ∧ w1 = [.stSave b.hdr.height b.hdr.sroot]) ∨ (s.st.root b.hdr.height = some b.hdr.sroot ∧ w1 = []))
    (h2 : (s.idt.root b.hdr.height = none ∧ w2 = [.idSave b.hdr.height b.hdr.iroot]) ∨ (s.idt.root b.hdr.height = some b.hdr.iroot ∧ w2 = [])) :
    ∀ w ∈ insA w1 w2 b sd idl ++ .newHead b.hdr :: insC s m b, insKind b w := by
  intro w hw
  simp only [insA, insC, List.mem_append, List.mem_map, List.mem_cons, List.mem_replicate] at hw
  rcases hw with (((hw | ⟨v, _, rfl⟩) | hw) | ⟨v, _, rfl⟩) | rfl | (((hw | hw) | hw) | hw)
  · rcases h1 with ⟨_, rfl⟩ | ⟨_, rfl⟩ <;> simp_all [insKind]
  · trivial
  · rcases h2 with ⟨_, rfl⟩ | ⟨_, rfl⟩ <;> simp_all [insKind]
  · trivial
  · trivial
  · split at hw
    · simp at hw; subst hw; trivial
    · split at hw
      · simp at hw; subst hw; trivial
      · simp at hw
  · rw [hw.2]; trivial
  · split at hw
    · simp at hw; subst hw; trivial
    · simp at hw
  · rw [hw.2]; trivial

/-- with nothing (or only `b`'s own leftover) above the head, `AddBlock(b)` of the linked block is error-free -/
theorem insert_ok_of_left {s : Store} {m : Mem} {b : Blk} {sd idl : List Nat}
    (hh : b.hdr.height = m.head.height + 1) (hpar : b.hdr.parent = m.head.hash) (hl : Left s m.head.height b) :
    (insertWrites s m b sd idl).err = none := by
  have hp : ¬(b.hdr.height ≠ m.head.height + 1 ∨ b.hdr.parent ≠ m.head.hash) := by simp [hh, hpar]
  have := hl b.hdr.height (by omega)
  rcases saveW_cases s.st b.hdr.height b.hdr.sroot .stSave with ⟨r1, e1⟩ | ⟨r1, e1⟩ | ⟨r', hr, hne, e1⟩
  · rcases saveW_cases s.idt b.hdr.height b.hdr.iroot .idSave with ⟨r2, e2⟩ | ⟨r2, e2⟩ | ⟨r'', hr2, hne2, e2⟩
    · rw [insertWrites_ok hp e1 e2]
    · rw [insertWrites_ok hp e1 e2]
    · rcases this.2 with h | ⟨_, h⟩ <;> simp_all
  · rcases saveW_cases s.idt b.hdr.height b.hdr.iroot .idSave with ⟨r2, e2⟩ | ⟨r2, e2⟩ | ⟨r'', hr2, hne2, e2⟩
    · rw [insertWrites_ok hp e1 e2]
    · rw [insertWrites_ok hp e1 e2]
    · rcases this.2 with h | ⟨_, h⟩ <;> simp_all
  · rcases this.1 with h | ⟨_, h⟩ <;> simp_all

/-- pruning oracle: which versions `CommitTree` deletes (state, identity); `insertOp` uses `pruneList` -/
abbrev Pruner := Store → Blk → List Nat × List Nat

/-- pruning stays below the previous head's version -/
def PrunesBelow (pr : Pruner) : Prop :=
  ∀ s b h, Left s h b → b.hdr.height = h + 1 → ∀ v, (v ∈ (pr s b).1 ∨ v ∈ (pr s b).2) → v < h

/-- feed blocks one after the other; `none` as soon as one is refused -/
def runBlocks (pr : Pruner) : Store → Mem → List Blk → Option (Store × Mem)
  | s, m, [] => some (s, m)
  | s, m, b :: bs =>
    if (insertWrites s m b (pr s b).1 (pr s b).2).err.isSome then none
    else runBlocks pr (applyAll s (insertWrites s m b (pr s b).1 (pr s b).2).ws) (memAfterInsert m b) bs

/-- each block extends the previous one -/
def Linked : Hdr → List Blk → Prop
  | _, [] => True
  | H, b :: bs => b.hdr.height = H.height + 1 ∧ b.hdr.parent = H.hash ∧ Linked b.hdr bs

/-- what is compared between two nodes: head, loaded versions and roots -/
def obs (m : Mem) : Hdr × Nat × Nat × Nat × Nat := (m.head, m.sv, m.sroot, m.iv, m.iroot)

def lastOf : Blk → List Blk → Blk
  | b, [] => b
  | _, c :: cs => lastOf c cs

theorem left_done {s : Store} {m : Mem} {b : Blk} {sd idl : List Nat} (hok : (insertWrites s m b sd idl).err = none)
    (hl : Left s m.head.height b) (k : Nat) : Left (crashAt k (insertWrites s m b sd idl).ws s) m.head.height b := by
  obtain ⟨_, _, w1, w2, h1, h2, e⟩ := insertWrites_err_none hok
  rw [e]
  exact crashAt_preserves (P := fun x => Left x m.head.height b) (fun w hw x hx => left_apply (insKind_ws h1 h2 w hw) hx) hl k

/-- a linked block list is accepted from any consistent store that has at most the first block's own leftover
above its head, and ends with the last block's head, versions and roots -/
theorem run_ok {pr : Pruner} (hpr : PrunesBelow pr) :
    ∀ (bs : List Blk) (s : Store) (m : Mem) (H : Hdr) (b : Blk), WF s H → m.head = H → Left s H.height b →
      Linked H (b :: bs) → ∃ sE mE, runBlocks pr s m (b :: bs) = some (sE, mE) ∧
        obs mE = ((lastOf b bs).hdr, (lastOf b bs).hdr.height, (lastOf b bs).hdr.sroot, (lastOf b bs).hdr.height, (lastOf b bs).hdr.iroot) ∧
        WF sE (lastOf b bs).hdr := by
  intro bs
  induction bs with
  | nil =>
    intro s m H b hwf hm hl hlk
    obtain ⟨hh, hpar, _⟩ := hlk
    subst hm
    have hok : (insertWrites s m b (pr s b).1 (pr s b).2).err = none := insert_ok_of_left hh hpar hl
    refine ⟨applyAll s (insertWrites s m b (pr s b).1 (pr s b).2).ws, memAfterInsert m b, by simp [runBlocks, hok], rfl, ?_⟩
    exact insert_done_wf hwf rfl (fun v hv => hpr s b _ hl hh v (Or.inl hv))
      (fun v hv => hpr s b _ hl hh v (Or.inr hv)) hok
  | cons c cs ih =>
    intro s m H b hwf hm hl hlk
    obtain ⟨hh, hpar, hlk'⟩ := hlk
    subst hm
    have hok : (insertWrites s m b (pr s b).1 (pr s b).2).err = none := insert_ok_of_left hh hpar hl
    have hwf' := insert_done_wf hwf rfl (fun v hv => hpr s b _ hl hh v (Or.inl hv))
      (fun v hv => hpr s b _ hl hh v (Or.inr hv)) hok
    have hl' := left_done hok hl (insertWrites s m b (pr s b).1 (pr s b).2).ws.length
    rw [crashAt_all] at hl'
    have htc : Left (applyAll s (insertWrites s m b (pr s b).1 (pr s b).2).ws) b.hdr.height c := by
      apply left_of_topClean
      intro v hv
      have := hl' v (by omega)
      constructor
      · rcases this.1 with h | ⟨h, _⟩
        · exact h
        · omega
      · rcases this.2 with h | ⟨h, _⟩
        · exact h
        · omega
    obtain ⟨sE, mE, hr, ho, hw⟩ := ih _ (memAfterInsert m b) b.hdr c hwf' rfl htc hlk'
    refine ⟨sE, mE, ?_, ho, hw⟩
    simp only [runBlocks, hok, Option.isSome_none, Bool.false_eq_true, if_false]
    exact hr

/-- **C09 (continue)** crash `AddBlock(b)` at any write `k`; restart; feed the same blocks (`b :: rest` when the node
restarted on the previous head, `rest` when it restarted on `b`): every block is accepted and the node ends with the
same head, loaded versions and roots as the node that never crashed — for block lists of any length. -/
theorem recover_then_continue {pr : Pruner} (hpr : PrunesBelow pr) {s : Store} {m : Mem} {H : Hdr} {b : Blk} {rest : List Blk}
    (hwf : WF s H) (hm : m.head = H) (hclean : TopClean s H.height) (hlk : Linked H (b :: rest)) (k : Nat) :
    let ws := (insertWrites s m b (pr s b).1 (pr s b).2).ws
    ∃ m' todo sE mE sE' mE',
      recover (crashAt k ws s) = .ok (crashAt k ws s) m' [] ∧
      ((m'.head = H ∧ todo = b :: rest) ∨ (m'.head = b.hdr ∧ todo = rest)) ∧
      runBlocks pr s m (b :: rest) = some (sE, mE) ∧
      runBlocks pr (crashAt k ws s) m' todo = some (sE', mE') ∧
      obs mE' = obs mE ∧ rootsMatch mE := by
  intro ws
  have hl0 : Left s H.height b := left_of_topClean hclean b
  have hsd : ∀ v ∈ (pr s b).1, v < H.height := fun v hv => hpr s b _ hl0 hlk.1 v (Or.inl hv)
  have hid : ∀ v ∈ (pr s b).2, v < H.height := fun v hv => hpr s b _ hl0 hlk.1 v (Or.inr hv)
  obtain ⟨sE, mE, hrun, hobs, _⟩ := run_ok hpr rest s m H b hwf hm hl0 hlk
  have hrm : rootsMatch mE := by
    simp only [obs, Prod.mk.injEq] at hobs
    obtain ⟨h1, _, h3, _, h5⟩ := hobs
    exact ⟨by rw [h1, h3], by rw [h1, h5]⟩
  have hok : (insertWrites s m b (pr s b).1 (pr s b).2).err = none :=
    insert_ok_of_left (hm ▸ hlk.1) (hm ▸ hlk.2.1) (hm ▸ hl0)
  have hlk' := left_done hok (hm ▸ hl0) k
  rw [hm] at hlk'
  rcases insert_crash_wf (b := b) hwf hm hsd hid k with h | ⟨h, _, _⟩
  · -- restarted on the previous head: the whole list is fed again
    obtain ⟨sE', mE', hrun', hobs', _⟩ := run_ok hpr rest (crashAt k ws s) (memOf (crashAt k ws s) H) H b h rfl hlk' hlk
    exact ⟨_, b :: rest, sE, mE, sE', mE', recover_of_wf h, Or.inl ⟨rfl, rfl⟩, hrun, hrun', by rw [hobs', hobs], hrm⟩
  · -- restarted on the block itself
    cases rest with
    | nil =>
      refine ⟨_, [], sE, mE, _, _, recover_of_wf h, Or.inr ⟨rfl, rfl⟩, hrun, rfl, ?_, hrm⟩
      rw [hobs]; rfl
    | cons c cs =>
      have htc : Left (crashAt k ws s) b.hdr.height c := by
        apply left_of_topClean
        intro v hv
        have hb := hlk.1
        have := hlk' v (by omega)
        constructor
        · rcases this.1 with h | ⟨h, _⟩
          · exact h
          · omega
        · rcases this.2 with h | ⟨h, _⟩
          · exact h
          · omega
      obtain ⟨sE', mE', hrun', hobs', _⟩ := run_ok hpr cs (crashAt k ws s) (memOf (crashAt k ws s) b.hdr) b.hdr c h rfl htc hlk.2.2
      exact ⟨_, c :: cs, sE, mE, sE', mE', recover_of_wf h, Or.inr ⟨rfl, rfl⟩, hrun, hrun', by rw [hobs', hobs]; rfl, hrm⟩

/-! ### the code's pruning rule stays below the previous head -/

theorem length_le_one_of_all_eq {l : List Nat} {c : Nat} (hn : l.Nodup) (h : ∀ x ∈ l, x = c) : l.length ≤ 1 := by
  match l, hn, h with
  | [], _, _ => simp
  | [_], _, _ => simp
  | a :: b :: t, hn, h =>
    have ha := h a (by simp)
    have hb := h b (by simp)
    subst ha; subst hb
    simp at hn

theorem versions_nodup (t : Tree) : t.versions.Nodup :=
  List.Nodup.sublist List.filter_sublist List.nodup_range

theorem mem_versions {t : Tree} {v : Nat} (h : v ∈ t.versions) : t.has v = true := by
  unfold Tree.versions at h
  exact (List.mem_filter.mp h).2

/-- `CommitTree` never prunes the previous head's version (nor anything above it), provided nothing but the block's
own version lies above the previous head -/
theorem pruneList_lt {t : Tree} {h r : Nat}
    (htop : ∀ v, h < v → t.root v = none ∨ v = h + 1) :
    ∀ v ∈ pruneList ((t.save (h + 1) r).versions) (h + 1), v < h := by
  intro v hv
  unfold pruneList at hv
  split at hv
  · obtain ⟨_, hc⟩ := List.mem_filter.mp hv
    simp only [decide_eq_true_eq] at hc
    refine Classical.byContradiction fun hge => ?_
    have hall : ∀ u ∈ (t.save (h + 1) r).versions.filter (· > v), u = h + 1 := by
      intro u hu
      obtain ⟨hu1, hu2⟩ := List.mem_filter.mp hu
      simp only [decide_eq_true_eq] at hu2
      have hhas := mem_versions hu1
      rcases htop u (by omega) with hn | he
      · by_cases e : u = h + 1
        · exact e
        · simp [Tree.has, Tree.save, e, hn] at hhas
      · exact he
    have := length_le_one_of_all_eq (List.Nodup.sublist List.filter_sublist (versions_nodup _)) hall
    unfold MaxSavedStatesCount at hc
    omega
  · simp at hv

/-- the pruning the code performs (`insertOp`) -/
def codePruner : Pruner := fun s b =>
  (pruneList ((s.st.save b.hdr.height b.hdr.sroot).versions) b.hdr.height,
   pruneList ((s.idt.save b.hdr.height b.hdr.iroot).versions) b.hdr.height)

theorem insertOp_eq (s : Store) (m : Mem) (b : Blk) :
    insertOp s m b = insertWrites s m b (codePruner s b).1 (codePruner s b).2 := rfl

theorem codePruner_prunesBelow : PrunesBelow codePruner := by
  intro s b h hl hh v hv
  rcases hv with hv | hv
  · simp only [codePruner, hh] at hv
    refine pruneList_lt (t := s.st) ?_ v hv
    intro u hu
    rcases (hl u hu).1 with hn | ⟨he, _⟩
    · exact Or.inl hn
    · exact Or.inr (by omega)
  · simp only [codePruner, hh] at hv
    refine pruneList_lt (t := s.idt) ?_ v hv
    intro u hu
    rcases (hl u hu).2 with hn | ⟨he, _⟩
    · exact Or.inl hn
    · exact Or.inr (by omega)

/-- `recover_then_continue` for the write lists the executable model produces (`insertOp`) -/
theorem recover_then_continue_code {s : Store} {m : Mem} {H : Hdr} {b : Blk} {rest : List Blk}
    (hwf : WF s H) (hm : m.head = H) (hclean : TopClean s H.height) (hlk : Linked H (b :: rest)) (k : Nat) :
    ∃ m' todo sE mE sE' mE',
      recover (crashAt k (insertOp s m b).ws s) = .ok (crashAt k (insertOp s m b).ws s) m' [] ∧
      ((m'.head = H ∧ todo = b :: rest) ∨ (m'.head = b.hdr ∧ todo = rest)) ∧
      runBlocks codePruner s m (b :: rest) = some (sE, mE) ∧
      runBlocks codePruner (crashAt k (insertOp s m b).ws s) m' todo = some (sE', mE') ∧
      obs mE' = obs mE ∧ rootsMatch mE :=
  recover_then_continue codePruner_prunesBelow hwf hm hclean hlk k

/-! ## ResetTo -/

theorem latestLe_has (t : Tree) : ∀ n, t.latestLe n ≠ 0 → t.has (t.latestLe n) = true := by
  intro n
  induction n with
  | zero => simp [Tree.latestLe]
  | succ n ih =>
    unfold Tree.latestLe
    split
    · intro _; assumption
    · exact ih

/-- `LoadVersion(0)` never fails -/
theorem load_zero (t : Tree) : ∃ x, t.load 0 = some x := by
  unfold Tree.load
  simp only [if_true]
  by_cases h : t.latestLe t.hi = 0
  · simp [h]
  · have := latestLe_has t t.hi h
    simp only [h, if_false]
    unfold Tree.has at this
    obtain ⟨r, hr⟩ := Option.isSome_iff_exists.mp this
    exact ⟨_, by rw [hr]; rfl⟩

theorem removeAbove_mem (s : Store) (t : Nat) : ∀ n, ∀ w ∈ removeAbove s t n,
    (∃ v g, t < v ∧ s.canon v = some g ∧ w = .hdrDel g) ∨ (∃ v, t < v ∧ w = .canonDel v) := by
  intro n
  induction n with
  | zero => intro w hw; simp [removeAbove] at hw
  | succ n ih =>
    intro w hw
    unfold removeAbove at hw
    rcases List.mem_append.mp hw with hw | hw
    · exact ih w hw
    · split at hw
      · rename_i g hg
        simp only [List.mem_cons, List.not_mem_nil, or_false] at hw
        rcases hw with rfl | rfl
        · exact Or.inl ⟨t + n + 1, g, by omega, hg, rfl⟩
        · exact Or.inr ⟨t + n + 1, by omega, rfl⟩
      · simp at hw

theorem canonFix_found {s : Store} {head X : Hdr} {t : Nat} (hx : headerAt s t = some X) : canonFix s head t = some [] := by
  simp [canonFix, hx]

theorem ensure_match {fuel : Nat} {s : Store} {m : Mem} {acc : List W}
    (h : m.head.sroot = m.sroot ∧ m.head.iroot = m.iroot) : ensure (fuel + 1) s m acc = .ok s m acc := by
  rw [ensure, if_pos h]

theorem ensure_reset {fuel : Nat} {s : Store} {m : Mem} {acc : List W} {t : Nat} {X : Hdr}
    (h : ¬(m.head.sroot = m.sroot ∧ m.head.iroot = m.iroot))
    (hs : searchDown s (m.head.height - 1) (MaxSavedStatesCount + 1) = some t) (hx : headerAt s t = some X) :
    ensure (fuel + 1) s m acc =
      ensure fuel (applyAll s (resetWrites s m.head.height t)) (memAfterReset s m t) (acc ++ resetWrites s m.head.height t) := by
  rw [ensure, if_neg h]
  simp only [hs, canonFix_found hx, applyAll_nil, List.append_nil]

theorem ensure_corrupted {fuel : Nat} {s : Store} {m : Mem} {acc : List W}
    (h : ¬(m.head.sroot = m.sroot ∧ m.head.iroot = m.iroot))
    (hs : searchDown s (m.head.height - 1) (MaxSavedStatesCount + 1) = none) :
    ensure (fuel + 1) s m acc = .errCorrupted := by
  rw [ensure, if_neg h]
  simp only [hs]

/-- `recover` up to the call of `EnsureIntegrity`, when the head's canonical hash is in place, `Initialize(head)` fails
and `Initialize(0)` loads `(sv, sr)`, `(iv, ir)` -/
theorem recover_fallback {s : Store} {H g : Hdr} {sv sr iv ir : Nat} (hh : s.head = some H)
    (hcan : s.canon H.height = some H.hash) (hg : headerAt s 1 = some g)
    (hno : loadBoth s H.height = none) (hl0 : loadBoth s 0 = some ((sv, sr), (iv, ir))) :
    recover s = ensure (H.height + 1) s { head := H, prelim := s.prelim.isSome, sv := sv, sroot := sr, iv := iv, iroot := ir } [] := by
  unfold recover
  simp only [hh, healHead, hcan, if_true, applyAll_nil, hg, hno, hl0]

/-- start-up on a store whose head `H` is above a state tree that was cut down to `t` (the crash states of `ResetTo`
between the first tree batch and the head write): either the loaded roots happen to equal the head's, or
`EnsureIntegrity` finds `t`, resets to it and ends on the canonical header of `t` -/
theorem recover_truncated {c : Store} {H X : Hdr} {t : Nat} (hhead : c.head = some H)
    (hcan : c.canon H.height = some H.hash)
    (hgen : ∃ x, headerAt c 1 = some x) (ht1 : 1 ≤ t) (hlt : t < H.height) (hwin : H.height ≤ t + 101)
    (hcut : ∀ v, t < v → c.st.root v = none) (hst : c.st.root t = some X.sroot) (hid : c.idt.root t = some X.iroot)
    (hx : headerAt c t = some X) :
    ∃ s' m' rep, recover c = .ok s' m' rep ∧ rootsMatch m' ∧ (m'.head = H ∨ m'.head = X) := by
  obtain ⟨g, hg⟩ := hgen
  obtain ⟨⟨sv, sr⟩, hls⟩ := load_zero c.st
  obtain ⟨⟨iv, ir⟩, hli⟩ := load_zero c.idt
  have hno : loadBoth c H.height = none := by
    have : c.st.load H.height = none := by
      unfold Tree.load
      have : H.height ≠ 0 := by omega
      simp [this, hcut H.height hlt]
    simp [loadBoth, this]
  have hl0 : loadBoth c 0 = some ((sv, sr), (iv, ir)) := by simp [loadBoth, hls, hli]
  rw [recover_fallback hhead hcan hg hno hl0]
  by_cases hm : H.sroot = sr ∧ H.iroot = ir
  · exact ⟨_, _, _, ensure_match (by exact hm), hm, Or.inl rfl⟩
  · have hsearch : searchDown c (H.height - 1) (MaxSavedStatesCount + 1) = some t := by
      refine searchDown_found ht1 (by simp [Tree.has, hst]) (by simp [Tree.has, hid]) _ _ (by omega) (by unfold MaxSavedStatesCount; omega) ?_
      intro v hv _
      simp [Tree.has, hcut v hv]
    obtain ⟨n, hn⟩ : ∃ n, H.height = n + 1 := ⟨H.height - 1, by omega⟩
    rw [ensure_reset (by exact hm) hsearch hx, hn]
    have hmatch : rootsMatch (memAfterReset c { head := H, prelim := c.prelim.isSome, sv := sv, sroot := sr, iv := iv, iroot := ir } t) := by
      simp [rootsMatch, memAfterReset, hx, hst, hid]
    exact ⟨_, _, _, ensure_match hmatch, hmatch, Or.inr (by simp [memAfterReset, hx])⟩

/-- with the canonical header of the target in place `ResetTo` needs no `ensureCanonicalHeader` repair: its write
list is the plain one -/
theorem resetOp_canon {s : Store} {m : Mem} {t : Nat} {X : Hdr} (hc : CanonAt s t X) :
    resetOp s m t = ⟨resetWrites s m.head.height t, none⟩ := by
  simp [resetOp, canonFix_found hc.hdr, Tree.has, hc.st, hc.idt, applyAll_nil]

/-- **C09 (ResetTo)** for every crash point `k` of `ResetTo(t)` (target inside the retained window, with its canonical
header `X`): start-up succeeds, the head's roots are the loaded roots, and the head is the old head or `X` (height `t`).
Hypotheses: `hwin` — the target is at most 101 below the head (the code keeps ≤ 100 consecutive versions; this is
the reach of `EnsureIntegrity`'s search); `hgen` — no removed header shares its hash with the genesis header. -/
theorem recover_consistent_reset {s : Store} {m : Mem} {H X : Hdr} {t : Nat} (hwf : WF s H) (hm : m.head = H)
    (ht1 : 1 ≤ t) (hlt : t < H.height)
    (hc : CanonAt s t X) (hwin : H.height ≤ t + 101)
    (hgen : ∀ v g, t < v → s.canon v = some g → s.canon 1 ≠ some g) (k : Nat) :
    (resetOp s m t).err = none ∧
    ∃ s' m' rep, recover (crashAt k (resetOp s m t).ws s) = .ok s' m' rep ∧ rootsMatch m' ∧
      (m'.head = H ∨ m'.head = X) := by
  rw [resetOp_canon hc, hm]
  refine ⟨rfl, ?_⟩
  have hws : resetWrites s H.height t = [.stTrunc t, .idTrunc t] ++ .head X :: removeAbove s t (H.height - t) := by
    simp [resetWrites, hc.hdr]
  show ∃ s' m' rep, recover (crashAt k (resetWrites s H.height t) s) = _ ∧ _
  rw [hws]
  obtain ⟨g1, hg1⟩ := headerAt_gen hwf
  rcases crashAt_mid [.stTrunc t, .idTrunc t] (removeAbove s t (H.height - t)) (.head X) s k with ⟨hk, e⟩ | ⟨hk, e⟩
  · rw [e]
    simp only [List.length_cons, List.length_nil] at hk
    have hk3 : k = 0 ∨ k = 1 ∨ k = 2 := by omega
    rcases hk3 with rfl | rfl | rfl
    · exact ⟨_, _, _, recover_of_wf (by simpa [crashAt, applyAll] using hwf), ⟨rfl, rfl⟩, Or.inl rfl⟩
    · refine recover_truncated (c := crashAt 1 [.stTrunc t, .idTrunc t] s) (X := X) (t := t) ?_ ?_ ?_ ht1 hlt hwin ?_ ?_ ?_ ?_
      · simpa [crashAt, applyAll, apply] using hwf.head
      · simpa [crashAt, applyAll, apply] using hwf.canonHead
      · exact ⟨g1, by simpa [crashAt, applyAll, apply, headerAt] using hg1⟩
      · intro v hv; simp [crashAt, applyAll, apply, Tree.trunc]; omega
      · simpa [crashAt, applyAll, apply, Tree.trunc] using hc.st
      · simpa [crashAt, applyAll, apply] using hc.idt
      · simpa [crashAt, applyAll, apply, headerAt] using hc.hdr
    · refine recover_truncated (c := crashAt 2 [.stTrunc t, .idTrunc t] s) (X := X) (t := t) ?_ ?_ ?_ ht1 hlt hwin ?_ ?_ ?_ ?_
      · simpa [crashAt, applyAll, apply] using hwf.head
      · simpa [crashAt, applyAll, apply] using hwf.canonHead
      · exact ⟨g1, by simpa [crashAt, applyAll, apply, headerAt] using hg1⟩
      · intro v hv; simp [crashAt, applyAll, apply, Tree.trunc]; omega
      · simpa [crashAt, applyAll, apply, Tree.trunc] using hc.st
      · simpa [crashAt, applyAll, apply, Tree.trunc] using hc.idt
      · simpa [crashAt, applyAll, apply, headerAt] using hc.hdr
  · rw [e]
    -- the head record is `X`; the removals above `t` keep the store consistent with `X`
    have hbase : WF (apply (applyAll s [.stTrunc t, .idTrunc t]) (.head X)) X ∧
        (apply (applyAll s [.stTrunc t, .idTrunc t]) (.head X)).canon 1 = s.canon 1 := by
      refine ⟨⟨rfl, by rw [hc.height]; exact ht1, ?_, ?_, ?_, ?_⟩, rfl⟩
      · simpa [applyAll, apply, Tree.trunc, hc.height] using hc.st
      · simpa [applyAll, apply, Tree.trunc, hc.height] using hc.idt
      · simpa [applyAll, apply, hc.height] using hc.canon
      · simpa [applyAll, apply] using hwf.gen
    have hinv := crashAt_preserves (P := fun x => WF x X ∧ x.canon 1 = s.canon 1)
      (ws := removeAbove s t (H.height - t)) ?_ hbase (k - [W.stTrunc t, W.idTrunc t].length - 1)
    · exact ⟨_, _, _, recover_of_wf hinv.1, ⟨rfl, rfl⟩, Or.inr rfl⟩
    · intro w hw x hx
      rcases removeAbove_mem s t _ w hw with ⟨v, g, hv, hcv, rfl⟩ | ⟨v, hv, rfl⟩
      · exact ⟨wf_hdrDel hx.1 (by rw [hx.2]; exact hgen v g hv hcv), by simpa [apply] using hx.2⟩
      · exact ⟨wf_canonDel hx.1 (by omega) (by rw [hc.height]; omega), by
          have : (1 : Nat) ≠ v := by omega
          simpa [apply, upd, this] using hx.2⟩

/-! ## the fast-sync hand-over -/

theorem fsHeaderWrites_append (s : Store) (a b : List FsHdr) :
    fsHeaderWrites s (a ++ b) = fsHeaderWrites s a ++ fsHeaderWrites s b := by
  induction a with
  | nil => rfl
  | cons f a ih => simp [fsHeaderWrites, ih, List.append_assoc]

/-- the kinds of writes issued before the switch batch; all of them leave the current trees and the head alone -/
def stagingKind (lo : Nat) : W → Prop
  | .stage _ | .prelimPrefix | .pidSave _ _ | .pstSave _ _ | .hdr _ | .prelimHead _ | .idDiffSet _ | .idDiffDel _ => True
  | .canon h _ => lo ≤ h
  | _ => False

theorem wf_staging {s : Store} {H : Hdr} {w : W} (h : WF s H) (hk : stagingKind (H.height + 1) w) : WF (apply s w) H := by
  have hpos := h.pos
  cases w <;> simp only [stagingKind] at hk
  case hdr x => exact wf_hdr h x
  case canon ht g => exact wf_canon h (by omega) (by omega)
  all_goals exact wf_inert h (by simp)

theorem fsHeaderWrites_kind (s : Store) (lo : Nat) : ∀ l : List FsHdr, (∀ f ∈ l, lo ≤ f.hdr.height) →
    ∀ w ∈ fsHeaderWrites s l, stagingKind lo w := by
  intro l
  induction l with
  | nil => intro _ w hw; simp [fsHeaderWrites] at hw
  | cons f l ih =>
    intro hl w hw
    simp only [fsHeaderWrites, List.mem_append, List.mem_cons, List.not_mem_nil, or_false] at hw
    rcases hw with ((hw | hw) | hw) | hw
    · split at hw
      · simp at hw; subst hw; trivial
      · simp at hw
    · rcases hw with rfl | rfl | rfl
      · trivial
      · exact hl f (List.mem_cons_self ..)
      · trivial
    · split at hw
      · simp at hw; subst hw; trivial
      · split at hw
        · simp at hw; subst hw; trivial
        · simp at hw
    · exact ih (fun f hf => hl f (List.mem_cons_of_mem _ hf)) w hw

/-- writes that touch the preliminary identity tree -/
def touchesPidt : W → Bool
  | .prelimPrefix | .pidSave _ _ | .switch _ | .switchTrees => true
  | _ => false

theorem applyAll_pidt {l : List W} (h : ∀ w ∈ l, touchesPidt w = false) (y : Store) : (applyAll y l).pidt = y.pidt := by
  induction l generalizing y with
  | nil => rfl
  | cons w l ih =>
    rw [applyAll_cons, ih (fun w' hw' => h w' (List.mem_cons_of_mem _ hw'))]
    have := h w (List.mem_cons_self ..)
    cases w <;> simp_all [apply, touchesPidt]

def touchesPst : W → Bool
  | .pstSave _ _ => true
  | _ => false

theorem applyAll_pst {l : List W} (h : ∀ w ∈ l, touchesPst w = false) (y : Store) : (applyAll y l).pst = y.pst := by
  induction l generalizing y with
  | nil => rfl
  | cons w l ih =>
    rw [applyAll_cons, ih (fun w' hw' => h w' (List.mem_cons_of_mem _ hw'))]
    have := h w (List.mem_cons_self ..)
    cases w <;> simp_all [apply, touchesPst]

/-- writes that touch the canonical-hash index -/
def touchesCanon : W → Bool
  | .canon _ _ | .canonDel _ | .newHead _ => true
  | _ => false

theorem applyAll_canon {l : List W} (h : ∀ w ∈ l, touchesCanon w = false) (y : Store) : (applyAll y l).canon = y.canon := by
  induction l generalizing y with
  | nil => rfl
  | cons w l ih =>
    rw [applyAll_cons, ih (fun w' hw' => h w' (List.mem_cons_of_mem _ hw'))]
    have := h w (List.mem_cons_self ..)
    cases w <;> simp_all [apply, touchesCanon]

/-- the writes before the switch batch -/
def fsA (s : Store) (p : FsParams) (l : FsHdr) : List W :=
  List.replicate p.copy (.stage "id-other-key") ++ [.prelimPrefix] ++ fsHeaderWrites s p.hdrs ++
    List.replicate p.importKeys (.stage "st-other-key") ++ [.pstSave l.hdr.height l.hdr.sroot] ++
    (if l.diff then [] else [.pidSave l.hdr.height l.hdr.iroot])

def fsC (p : FsParams) : List W :=
  List.replicate p.clearId (.stage "id-other-key-del") ++ List.replicate p.clearSt (.stage "st-other-key-del")

theorem fastSyncWrites_eq {s : Store} {p : FsParams} {l : FsHdr} (hl : lastHdr p.hdrs = some l) :
    fastSyncWrites s p = fsA s p l ++ .switch (some l.hdr) :: fsC p := by
  simp [fastSyncWrites, hl, fsA, fsC, List.append_assoc]

theorem fsA_kind {s : Store} {p : FsParams} {l : FsHdr} {lo : Nat} (hh : ∀ f ∈ p.hdrs, lo ≤ f.hdr.height) :
    ∀ w ∈ fsA s p l, stagingKind lo w := by
  intro w hw
  simp only [fsA, List.mem_append, List.mem_cons, List.mem_replicate, List.not_mem_nil, or_false] at hw
  rcases hw with ((((hw | rfl) | hw) | hw) | rfl) | hw
  · rw [hw.2]; trivial
  · trivial
  · exact fsHeaderWrites_kind s lo _ hh w hw
  · rw [hw.2]; trivial
  · trivial
  · split at hw
    · simp at hw
    · simp at hw; subst hw; trivial

/-- after the staging writes the imported state tree and the preliminary identity tree hold the snapshot height
with the last header's roots, and the canonical hash of that height is the last header's hash -/
theorem fsA_trees {s : Store} {p : FsParams} {l : FsHdr} (hl : lastHdr p.hdrs = some l) :
    (applyAll s (fsA s p l)).pst.root l.hdr.height = some l.hdr.sroot ∧
    (applyAll s (fsA s p l)).pidt.root l.hdr.height = some l.hdr.iroot ∧
    (applyAll s (fsA s p l)).canon l.hdr.height = some l.hdr.hash := by
  obtain ⟨ini, hini⟩ : ∃ ini, p.hdrs = ini ++ [l] := List.getLast?_eq_some_iff.mp hl
  refine ⟨?_, ?_, ?_⟩
  · -- pst: written once, never touched afterwards
    have : fsA s p l = (List.replicate p.copy (.stage "id-other-key") ++ [.prelimPrefix] ++ fsHeaderWrites s p.hdrs ++
        List.replicate p.importKeys (.stage "st-other-key")) ++ [.pstSave l.hdr.height l.hdr.sroot] ++
        (if l.diff then [] else [.pidSave l.hdr.height l.hdr.iroot]) := by simp [fsA, List.append_assoc]
    rw [this, applyAll_append, applyAll_pst, applyAll_append]
    · simp [applyAll, apply, Tree.save, Tree.empty]
    · intro w hw
      split at hw
      · simp at hw
      · simp at hw; subst hw; rfl
  · by_cases hd : l.diff = true
    · -- the last header carried a diff: its own save of the preliminary tree is the last write touching it
      have hsplit : fsA s p l = (List.replicate p.copy (.stage "id-other-key") ++ [.prelimPrefix] ++ fsHeaderWrites s ini) ++
          [.pidSave l.hdr.height l.hdr.iroot] ++
          ([.hdr l.hdr, .canon l.hdr.height l.hdr.hash, .prelimHead l.hdr, .idDiffSet l.hdr.height] ++
            List.replicate p.importKeys (.stage "st-other-key") ++ [.pstSave l.hdr.height l.hdr.sroot]) := by
        simp [fsA, hini, fsHeaderWrites_append, fsHeaderWrites, hd, List.append_assoc]
      rw [hsplit, applyAll_append, applyAll_pidt, applyAll_append]
      · simp [applyAll, apply, Tree.save]
      · intro w hw
        simp only [List.mem_append, List.mem_cons, List.mem_replicate, List.not_mem_nil, or_false] at hw
        rcases hw with ((rfl | rfl | rfl | rfl) | hw) | rfl
        · rfl
        · rfl
        · rfl
        · rfl
        · rw [hw.2]; rfl
        · rfl
    · have hsplit : fsA s p l = (List.replicate p.copy (.stage "id-other-key") ++ [.prelimPrefix] ++ fsHeaderWrites s p.hdrs ++
          List.replicate p.importKeys (.stage "st-other-key") ++ [.pstSave l.hdr.height l.hdr.sroot]) ++
          [.pidSave l.hdr.height l.hdr.iroot] := by
        simp [fsA, hd, List.append_assoc]
      rw [hsplit, applyAll_append]
      simp [applyAll, apply, Tree.save]
  · -- the canonical hash of the last header: nothing after it touches the index
    have hsplit : fsA s p l = (List.replicate p.copy (.stage "id-other-key") ++ [.prelimPrefix] ++ fsHeaderWrites s ini ++
        (if l.diff then [.pidSave l.hdr.height l.hdr.iroot] else []) ++ [.hdr l.hdr]) ++ [.canon l.hdr.height l.hdr.hash] ++
        ([.prelimHead l.hdr] ++
          (if l.diff then [.idDiffSet l.hdr.height] else if s.idDiff l.hdr.height then [.idDiffDel l.hdr.height] else []) ++
          List.replicate p.importKeys (.stage "st-other-key") ++ [.pstSave l.hdr.height l.hdr.sroot] ++
          (if l.diff then [] else [.pidSave l.hdr.height l.hdr.iroot])) := by
      simp [fsA, hini, fsHeaderWrites_append, fsHeaderWrites, List.append_assoc]
    rw [hsplit, applyAll_append, applyAll_canon, applyAll_append]
    · simp [applyAll, apply, upd]
    · intro w hw
      simp only [List.mem_append, List.mem_cons, List.mem_replicate, List.not_mem_nil, or_false] at hw
      rcases hw with (((rfl | hw) | hw) | rfl) | hw
      · rfl
      · split at hw
        · simp at hw; subst hw; rfl
        · split at hw
          · simp at hw; subst hw; rfl
          · simp at hw
      · rw [hw.2]; rfl
      · rfl
      · split at hw
        · simp at hw
        · simp at hw; subst hw; rfl

/-- **C09 (fast sync)** for every crash point `k` of the fast-sync sequence (copy of the identity tree, header chain
above the head, snapshot import, the single switch batch, clearing of the abandoned trees): start-up succeeds,
writes nothing, the head's roots are the loaded roots, and the head is the old head or the snapshot block. -/
theorem recover_consistent_fastsync {s : Store} {H : Hdr} {p : FsParams} {l : FsHdr} (hwf : WF s H)
    (hl : lastHdr p.hdrs = some l) (hh : ∀ f ∈ p.hdrs, H.height + 1 ≤ f.hdr.height) (k : Nat) :
    ∃ m', recover (crashAt k (fastSyncWrites s p) s) = .ok (crashAt k (fastSyncWrites s p) s) m' [] ∧
      rootsMatch m' ∧ (m'.head = H ∨ m'.head = l.hdr) := by
  rw [fastSyncWrites_eq hl]
  have hA : ∀ w ∈ fsA s p l, ∀ s', WF s' H → WF (apply s' w) H := fun w hw s' h => wf_staging h (fsA_kind hh w hw)
  have hwfA : WF (applyAll s (fsA s p l)) H := applyAll_preserves (P := fun x => WF x H) hA hwf
  have hT := fsA_trees (s := s) hl
  have hlpos : 1 ≤ l.hdr.height := by
    have := hh l (List.mem_of_getLast? hl); omega
  have hsw : WF (apply (applyAll s (fsA s p l)) (.switch (some l.hdr))) l.hdr :=
    ⟨rfl, hlpos, by simpa [apply] using hT.1, by simpa [apply] using hT.2.1, by simpa [apply] using hT.2.2,
      by simpa [apply] using hwfA.gen⟩
  have hC : ∀ w ∈ fsC p, ∀ s', WF s' l.hdr → WF (apply s' w) l.hdr := by
    intro w hw s' h
    simp only [fsC, List.mem_append, List.mem_replicate] at hw
    rcases hw with hw | hw <;> (rw [hw.2]; exact wf_inert h (by simp))
  rcases crashAt_mid (fsA s p l) (fsC p) (.switch (some l.hdr)) s k with ⟨_, e⟩ | ⟨_, e⟩
  · rw [e]
    have := crashAt_preserves (P := fun x => WF x H) hA hwf k
    exact ⟨_, recover_of_wf this, ⟨rfl, rfl⟩, Or.inl rfl⟩
  · rw [e]
    have := crashAt_preserves (P := fun x => WF x l.hdr) hC hsw (k - (fsA s p l).length - 1)
    exact ⟨_, recover_of_wf this, ⟨rfl, rfl⟩, Or.inr rfl⟩

/-! ## counter-theorems: what atomicity, the write order and the canonical index are needed for -/

theorem latestLe_eq {t : Tree} {v : Nat} (hv : t.has v = true) (habove : ∀ u, v < u → t.has u = false) :
    ∀ n, v ≤ n → t.latestLe n = v := by
  intro n
  induction n with
  | zero => intro h; simp [Tree.latestLe]; omega
  | succ n ih =>
    intro h
    unfold Tree.latestLe
    by_cases e : v = n + 1
    · subst e; simp [hv]
    · rw [habove (n + 1) (by omega)]
      simp only [Bool.false_eq_true, if_false]
      exact ih (by omega)

/-- `LoadVersion(0)` loads the top version -/
theorem load_zero_eq {t : Tree} {v r : Nat} (h1 : 1 ≤ v) (hr : t.root v = some r) (habove : ∀ u, v < u → t.root u = none)
    (hhi : v ≤ t.hi) : t.load 0 = some (v, r) := by
  have hl : t.latestLe t.hi = v :=
    latestLe_eq (by simp [Tree.has, hr]) (fun u hu => by simp [Tree.has, habove u hu]) _ hhi
  unfold Tree.load
  have : v ≠ 0 := by omega
  simp [hl, this, hr]

theorem searchDown_none {s : Store} : ∀ n tries, (∀ v, v ≤ n → s.st.has v = false) → searchDown s n tries = none := by
  intro n
  induction n with
  | zero => intro tries _; cases tries <;> simp [searchDown]
  | succ n ih =>
    intro tries h
    cases tries with
    | zero => simp [searchDown]
    | succ tries =>
      unfold searchDown
      rw [h (n + 1) (Nat.le_refl _)]
      simp only [Bool.false_and, Bool.false_eq_true, if_false]
      exact ih tries (fun v hv => h v (by omega))

theorem fsA_pst {s : Store} {p : FsParams} {l : FsHdr} :
    (applyAll s (fsA s p l)).pst = Tree.empty.save l.hdr.height l.hdr.sroot := by
  have : fsA s p l = (List.replicate p.copy (.stage "id-other-key") ++ [.prelimPrefix] ++ fsHeaderWrites s p.hdrs ++
      List.replicate p.importKeys (.stage "st-other-key")) ++ [.pstSave l.hdr.height l.hdr.sroot] ++
      (if l.diff then [] else [.pidSave l.hdr.height l.hdr.iroot]) := by simp [fsA, List.append_assoc]
  rw [this, applyAll_append, applyAll_pst, applyAll_append]
  · simp [applyAll, apply]
  · intro w hw
    split at hw
    · simp at hw
    · simp at hw; subst hw; rfl

/-- **the switch must be one batch**: if the tree prefixes and the head were written separately, a crash between the
two writes leaves a head whose version the (imported, single-version) state tree does not contain and no common
version below it — start-up fails with "state db is corrupted". -/
theorem unbatched_switch_breaks {s : Store} {H : Hdr} {p : FsParams} {l : FsHdr} (hwf : WF s H)
    (hl : lastHdr p.hdrs = some l) (hh : ∀ f ∈ p.hdrs, H.height + 1 ≤ f.hdr.height)
    (hne : H.sroot ≠ l.hdr.sroot) :
    recover (crashAt ((fsA s p l).length + 1) (fastSyncWritesUnbatched s p) s) = .errCorrupted := by
  have hlt : H.height < l.hdr.height := by have := hh l (List.mem_of_getLast? hl); omega
  have hws : fastSyncWritesUnbatched s p = fsA s p l ++ .switchTrees :: [.switchHead (some l.hdr)] := by
    simp [fastSyncWritesUnbatched, hl, fsA, List.append_assoc]
  have hA : ∀ w ∈ fsA s p l, ∀ s', WF s' H → WF (apply s' w) H := fun w hw s' h => wf_staging h (fsA_kind hh w hw)
  have hwfA : WF (applyAll s (fsA s p l)) H := applyAll_preserves (P := fun x => WF x H) hA hwf
  rcases crashAt_mid (fsA s p l) [.switchHead (some l.hdr)] .switchTrees s ((fsA s p l).length + 1) with ⟨hk, _⟩ | ⟨_, e⟩
  · omega
  · rw [hws, e]
    have hz : (fsA s p l).length + 1 - (fsA s p l).length - 1 = 0 := by omega
    rw [hz]
    simp only [crashAt, List.take_zero, applyAll_nil]
    have hpos := hwf.pos
    have hst : (apply (applyAll s (fsA s p l)) .switchTrees).st = Tree.empty.save l.hdr.height l.hdr.sroot := by
      simp [apply, fsA_pst]
    obtain ⟨g, hg⟩ := headerAt_gen hwfA
    obtain ⟨⟨iv, ir⟩, hli⟩ := load_zero (apply (applyAll s (fsA s p l)) .switchTrees).idt
    have hno : loadBoth (apply (applyAll s (fsA s p l)) .switchTrees) H.height = none := by
      have : (apply (applyAll s (fsA s p l)) .switchTrees).st.load H.height = none := by
        rw [hst]
        unfold Tree.load
        have h1 : H.height ≠ 0 := by omega
        have h2 : H.height ≠ l.hdr.height := by omega
        simp [h1, Tree.save, Tree.empty, h2]
      simp [loadBoth, this]
    have hl0 : loadBoth (apply (applyAll s (fsA s p l)) .switchTrees) 0 = some ((l.hdr.height, l.hdr.sroot), (iv, ir)) := by
      have : (apply (applyAll s (fsA s p l)) .switchTrees).st.load 0 = some (l.hdr.height, l.hdr.sroot) := by
        rw [hst]
        refine load_zero_eq (by omega) (by simp [Tree.save]) ?_ (by simp [Tree.save, Tree.empty])
        intro u hu
        have : u ≠ l.hdr.height := by omega
        simp [Tree.save, Tree.empty, this]
      simp [loadBoth, this, hli]
    rw [recover_fallback (H := H) (by simpa [apply] using hwfA.head) (by simpa [apply] using hwfA.canonHead)
      (g := g) (by simpa [apply, headerAt] using hg) hno hl0]
    refine ensure_corrupted (by simp [hne]) ?_
    refine searchDown_none _ _ ?_
    intro v hv
    rw [hst]
    have : v ≠ l.hdr.height := by simp only at hv; omega
    simp [Tree.has, Tree.save, Tree.empty, this]

/-! ### the order as found before the repair (flagged variants `…AsFound`) -/

theorem insertWritesAsFound_ok {s : Store} {m : Mem} {b : Blk} {sd idl : List Nat} {w1 w2 : List W}
    (hp : ¬(b.hdr.height ≠ m.head.height + 1 ∨ b.hdr.parent ≠ m.head.hash))
    (h1 : saveW s.st b.hdr.height b.hdr.sroot .stSave = .ok w1)
    (h2 : saveW s.idt b.hdr.height b.hdr.iroot .idSave = .ok w2) :
    insertWritesAsFound s m b sd idl =
      ⟨(insA w1 w2 b sd idl ++ [.hdr b.hdr]) ++ .head b.hdr :: (.canon b.hdr.height b.hdr.hash :: insC s m b), none⟩ := by
  unfold insertWritesAsFound insertWritesG
  rw [if_neg hp]
  simp [h1, h2, insA, insC, headerWrites, List.append_assoc]

/-- **as found, a crash between the head write and the canonical-hash write leaves a hole**: at that crash point the
head record is the new block and both trees hold its version, but the height index has no entry for it — and nothing
ever wrote it later (the next AddBlock only writes its own height). -/
theorem insert_crash_can_leave_hole {s : Store} {m : Mem} {b : Blk} {sd idl : List Nat} {H : Hdr} (hwf : WF s H) (hm : m.head = H)
    (hsd : ∀ v ∈ sd, v < H.height) (hid : ∀ v ∈ idl, v < H.height)
    (hlink : b.hdr.height = H.height + 1 ∧ b.hdr.parent = H.hash)
    (hs1 : s.st.root b.hdr.height = none) (hs2 : s.idt.root b.hdr.height = none)
    (hfresh : s.canon b.hdr.height = none) :
    (insertWritesAsFound s m b sd idl).err = none ∧
    ∃ k, let cs := crashAt k (insertWritesAsFound s m b sd idl).ws s
      cs.head = some b.hdr ∧ cs.st.root b.hdr.height = some b.hdr.sroot ∧ cs.idt.root b.hdr.height = some b.hdr.iroot ∧
      cs.canon b.hdr.height = none := by
  have hp : ¬(b.hdr.height ≠ m.head.height + 1 ∨ b.hdr.parent ≠ m.head.hash) := by simp [hm, hlink.1, hlink.2]
  have e1 : saveW s.st b.hdr.height b.hdr.sroot .stSave = .ok [.stSave b.hdr.height b.hdr.sroot] := by simp [saveW, hs1]
  have e2 : saveW s.idt b.hdr.height b.hdr.iroot .idSave = .ok [.idSave b.hdr.height b.hdr.iroot] := by simp [saveW, hs2]
  rw [insertWritesAsFound_ok hp e1 e2]
  refine ⟨rfl, (insA [.stSave b.hdr.height b.hdr.sroot] [.idSave b.hdr.height b.hdr.iroot] b sd idl ++ [W.hdr b.hdr]).length + 1, ?_⟩
  rcases crashAt_mid (insA [.stSave b.hdr.height b.hdr.sroot] [.idSave b.hdr.height b.hdr.iroot] b sd idl ++ [W.hdr b.hdr])
    (.canon b.hdr.height b.hdr.hash :: insC s m b) (.head b.hdr) s
    ((insA [.stSave b.hdr.height b.hdr.sroot] [.idSave b.hdr.height b.hdr.iroot] b sd idl ++ [W.hdr b.hdr]).length + 1) with ⟨hk, _⟩ | ⟨_, e⟩
  · omega
  · simp only
    rw [e]
    have hz : ∀ n : Nat, n + 1 - n - 1 = 0 := by intro n; omega
    rw [hz]
    simp only [crashAt, List.take_zero, applyAll_nil, applyAll_append]
    have hT := insA_trees (s := s) (H := H) (b := b) (sd := sd) (idl := idl) hlink.1 (Or.inl ⟨hs1, rfl⟩) (Or.inl ⟨hs2, rfl⟩) hsd hid
    have hcan : (applyAll s (insA [.stSave b.hdr.height b.hdr.sroot] [.idSave b.hdr.height b.hdr.iroot] b sd idl)).canon = s.canon := by
      refine applyAll_canon ?_ s
      intro w hw
      simp only [insA, List.mem_append, List.mem_map, List.mem_cons, List.not_mem_nil, or_false] at hw
      rcases hw with ((rfl | ⟨v, _, rfl⟩) | rfl) | ⟨v, _, rfl⟩ <;> rfl
    refine ⟨by simp [applyAll, apply], by simpa [applyAll, apply] using hT.1, by simpa [applyAll, apply] using hT.2, ?_⟩
    have := congrFun hcan b.hdr.height
    rw [hfresh] at this
    simpa [applyAll, apply] using this

theorem ensureAsFound_hang {fuel : Nat} {s : Store} {m : Mem} {acc : List W} {t : Nat}
    (h : ¬(m.head.sroot = m.sroot ∧ m.head.iroot = m.iroot))
    (hs : searchDown s (m.head.height - 1) (MaxSavedStatesCount + 1) = some t) (hx : headerAt s t = none) :
    ensureAsFound (fuel + 1) s m acc = .hang := by
  rw [ensureAsFound, if_neg h]
  simp only [hs, hx]

theorem ensureAsFound_match {fuel : Nat} {s : Store} {m : Mem} {acc : List W}
    (h : m.head.sroot = m.sroot ∧ m.head.iroot = m.iroot) : ensureAsFound (fuel + 1) s m acc = .ok s m acc := by
  rw [ensureAsFound, if_pos h]

theorem ensureAsFound_reset {fuel : Nat} {s : Store} {m : Mem} {acc : List W} {t : Nat} {X : Hdr}
    (h : ¬(m.head.sroot = m.sroot ∧ m.head.iroot = m.iroot))
    (hs : searchDown s (m.head.height - 1) (MaxSavedStatesCount + 1) = some t) (hx : headerAt s t = some X) :
    ensureAsFound (fuel + 1) s m acc =
      ensureAsFound fuel (applyAll s (resetWrites s m.head.height t)) (memAfterReset s m t) (acc ++ resetWrites s m.head.height t) := by
  rw [ensureAsFound, if_neg h]
  simp only [hs, hx]

theorem recoverAsFound_fallback {s : Store} {H g : Hdr} {sv sr iv ir : Nat} (hh : s.head = some H) (hg : headerAt s 1 = some g)
    (hno : loadBoth s H.height = none) (hl0 : loadBoth s 0 = some ((sv, sr), (iv, ir))) :
    recoverAsFound s = ensureAsFound (H.height + 1) s { head := H, prelim := s.prelim.isSome, sv := sv, sroot := sr, iv := iv, iroot := ir } [] := by
  unfold recoverAsFound
  simp only [hh, hg, hno, hl0]

/-- **as found, a hole makes a later `ResetTo` onto that height fatal**: when the canonical hash of the target height
is missing, the complete (uncrashed) `ResetTo(t)` truncates both trees but cannot move the head (`SetHead` silently
does nothing), returns no error, and the next start-up never terminates: `EnsureIntegrity` selects `t` again and
again.  (Reproduced on the real code before the repair: signature `C09:canon-hole:fork-switch-fails`.) -/
theorem reset_on_hole_breaks {s : Store} {m : Mem} {H : Hdr} {t rs ri : Nat} (hwf : WF s H) (hm : m.head = H)
    (ht1 : 1 ≤ t) (hlt : t < H.height) (hwin : H.height ≤ t + 101)
    (hst : s.st.root t = some rs) (hid : s.idt.root t = some ri) (hsh : t ≤ s.st.hi) (hih : t ≤ s.idt.hi)
    (hhole : s.canon t = none) (hne : ¬(H.sroot = rs ∧ H.iroot = ri))
    (hgen : ∀ v g, t < v → s.canon v = some g → s.canon 1 ≠ some g) :
    (resetOpAsFound s m t).err = none ∧ (memAfterReset s m t).head = H ∧
      recoverAsFound (applyAll s (resetOpAsFound s m t).ws) = .hang := by
  have hop : resetOpAsFound s m t = ⟨[.stTrunc t, .idTrunc t] ++ removeAbove s t (H.height - t), none⟩ := by
    simp [resetOpAsFound, Tree.has, hst, hid, resetWrites, headerAt, hhole, hm]
  have hmem : (memAfterReset s m t).head = H := by simp [memAfterReset, headerAt, hhole, hm]
  refine ⟨by rw [hop], hmem, ?_⟩
  rw [hop]
  simp only [applyAll_append]
  have hbase : (fun x : Store => x.head = some H ∧ x.st = s.st.trunc t ∧ x.idt = s.idt.trunc t ∧ x.canon 1 = s.canon 1 ∧
      x.canon t = none ∧ (∃ g, x.canon 1 = some g ∧ (x.hdrs g).isSome = true)) (applyAll s [.stTrunc t, .idTrunc t]) := by
    refine ⟨by simpa [applyAll, apply] using hwf.head, by simp [applyAll, apply], by simp [applyAll, apply],
      by simp [applyAll, apply], by simpa [applyAll, apply] using hhole, by simpa [applyAll, apply] using hwf.gen⟩
  have hinv := applyAll_preserves (P := fun x : Store => x.head = some H ∧ x.st = s.st.trunc t ∧ x.idt = s.idt.trunc t ∧ x.canon 1 = s.canon 1 ∧
      x.canon t = none ∧ (∃ g, x.canon 1 = some g ∧ (x.hdrs g).isSome = true)) (ws := removeAbove s t (H.height - t)) ?_ hbase
  · obtain ⟨hhead, hxs, hxi, _, hct, g, hg1, hg2⟩ := hinv
    have hgen' : ∃ x, headerAt (applyAll (applyAll s [.stTrunc t, .idTrunc t]) (removeAbove s t (H.height - t))) 1 = some x := by
      unfold headerAt; rw [hg1]; exact Option.isSome_iff_exists.mp hg2
    obtain ⟨g0, hg0⟩ := hgen'
    have hno : loadBoth (applyAll (applyAll s [.stTrunc t, .idTrunc t]) (removeAbove s t (H.height - t))) H.height = none := by
      have : (applyAll (applyAll s [.stTrunc t, .idTrunc t]) (removeAbove s t (H.height - t))).st.load H.height = none := by
        rw [hxs]; unfold Tree.load
        have h1 : H.height ≠ 0 := by omega
        have h2 : ¬ H.height ≤ t := by omega
        simp [h1, Tree.trunc, h2]
      simp [loadBoth, this]
    have hl0 : loadBoth (applyAll (applyAll s [.stTrunc t, .idTrunc t]) (removeAbove s t (H.height - t))) 0 = some ((t, rs), (t, ri)) := by
      have a : (applyAll (applyAll s [.stTrunc t, .idTrunc t]) (removeAbove s t (H.height - t))).st.load 0 = some (t, rs) := by
        rw [hxs]
        refine load_zero_eq ht1 (by simp [Tree.trunc, hst]) ?_ (by simpa [Tree.trunc] using hsh)
        intro u hu
        have : ¬ u ≤ t := by omega
        simp [Tree.trunc, this]
      have b : (applyAll (applyAll s [.stTrunc t, .idTrunc t]) (removeAbove s t (H.height - t))).idt.load 0 = some (t, ri) := by
        rw [hxi]
        refine load_zero_eq ht1 (by simp [Tree.trunc, hid]) ?_ (by simpa [Tree.trunc] using hih)
        intro u hu
        have : ¬ u ≤ t := by omega
        simp [Tree.trunc, this]
      simp [loadBoth, a, b]
    rw [recoverAsFound_fallback hhead hg0 hno hl0]
    refine ensureAsFound_hang (t := t) (by simpa using hne) ?_ (by simp [headerAt, hct])
    refine searchDown_found ht1 (by rw [hxs]; simp [Tree.has, Tree.trunc, hst]) (by rw [hxi]; simp [Tree.has, Tree.trunc, hid]) _ _
      (by simp only; omega) (by unfold MaxSavedStatesCount; simp only; omega) ?_
    intro v hv _
    rw [hxs]
    have : ¬ v ≤ t := by omega
    simp [Tree.has, Tree.trunc, this]
  · intro w hw x hx
    obtain ⟨h1, h2, h3, h4, h5, g, h6, h7⟩ := hx
    rcases removeAbove_mem s t _ w hw with ⟨v, g', hv, hcv, rfl⟩ | ⟨v, hv, rfl⟩
    · refine ⟨by simpa [apply] using h1, by simpa [apply] using h2, by simpa [apply] using h3, by simpa [apply] using h4,
        by simpa [apply] using h5, g, by simpa [apply] using h6, ?_⟩
      have : g ≠ g' := by
        intro e; subst e
        exact hgen v g hv hcv (by rw [← h4]; exact h6)
      simp [apply, upd, this, h7]
    · have n1 : (1 : Nat) ≠ v := by omega
      have nt : t ≠ v := by omega
      exact ⟨by simpa [apply] using h1, by simpa [apply] using h2, by simpa [apply] using h3,
        by simpa [apply, upd, n1] using h4, by simpa [apply, upd, nt] using h5, g, by simpa [apply, upd, n1] using h6,
        by simpa [apply] using h7⟩

/-- **after the repair the same situation heals itself**: on a store with a hole at `t` whose header chain from the
head down to `t` is intact, `ResetTo(t)` first restores the canonical records (`ensureCanonicalHeader`) and then
moves the head: its write list starts with the restored header + canonical hash and contains the head write. -/
theorem reset_heals_hole {s : Store} {m : Mem} {t : Nat} {X : Hdr} (hhole : headerAt s t = none)
    (hwalk : walkDown s t (m.head.height - t + 1) m.head = some X)
    (hst : s.st.has t = true) (hid : s.idt.has t = true) :
    (resetOp s m t).err = none ∧
    (resetOp s m t).ws = [.hdr X, .canon t X.hash] ++ [.stTrunc t, .idTrunc t] ++ .head X ::
      removeAbove (applyAll s [.hdr X, .canon t X.hash]) t (m.head.height - t) := by
  have hx : headerAt (applyAll s [.hdr X, .canon t X.hash]) t = some X := by
    simp [applyAll, apply, headerAt, upd]
  have h1 : (applyAll s [.hdr X, .canon t X.hash]).st = s.st := by simp [applyAll, apply]
  have h2 : (applyAll s [.hdr X, .canon t X.hash]).idt = s.idt := by simp [applyAll, apply]
  simp [resetOp, canonFix, hhole, hwalk, hst, hid, resetWrites, hx]

/-- the reordered AddBlock: head record first, trees afterwards -/
def insertWritesHeadFirst (b : Blk) : List W :=
  [.head b.hdr, .stSave b.hdr.height b.hdr.sroot, .idSave b.hdr.height b.hdr.iroot, .hdr b.hdr,
   .canon b.hdr.height b.hdr.hash]

theorem headFirst_setup {s : Store} {H : Hdr} {b : Blk} (hwf : WF s H) (hclean : TopClean s H.height)
    (hsh : H.height ≤ s.st.hi) (hih : H.height ≤ s.idt.hi) (hh : b.hdr.height = H.height + 1) :
    recoverAsFound (crashAt 1 (insertWritesHeadFirst b) s) =
      ensureAsFound (b.hdr.height + 1) (apply s (.head b.hdr))
        { head := b.hdr, prelim := s.prelim.isSome, sv := H.height, sroot := H.sroot, iv := H.height, iroot := H.iroot } [] ∧
    searchDown (apply s (.head b.hdr)) (b.hdr.height - 1) (MaxSavedStatesCount + 1) = some H.height := by
  have hpos := hwf.pos
  obtain ⟨g, hg⟩ := headerAt_gen hwf
  have hx : crashAt 1 (insertWritesHeadFirst b) s = apply s (.head b.hdr) := by
    simp [crashAt, insertWritesHeadFirst, applyAll]
  have hno : loadBoth (apply s (.head b.hdr)) b.hdr.height = none := by
    have : (apply s (.head b.hdr)).st.load b.hdr.height = none := by
      unfold Tree.load
      have h1 : b.hdr.height ≠ 0 := by omega
      simp [h1, apply, (hclean b.hdr.height (by omega)).1]
    simp [loadBoth, this]
  have hl0 : loadBoth (apply s (.head b.hdr)) 0 = some ((H.height, H.sroot), (H.height, H.iroot)) := by
    have a : (apply s (.head b.hdr)).st.load 0 = some (H.height, H.sroot) :=
      load_zero_eq hpos (by simpa [apply] using hwf.st) (fun u hu => by simpa [apply] using (hclean u hu).1) (by simpa [apply] using hsh)
    have c : (apply s (.head b.hdr)).idt.load 0 = some (H.height, H.iroot) :=
      load_zero_eq hpos (by simpa [apply] using hwf.idt) (fun u hu => by simpa [apply] using (hclean u hu).2) (by simpa [apply] using hih)
    simp [loadBoth, a, c]
  refine ⟨?_, ?_⟩
  · rw [hx, recoverAsFound_fallback (H := b.hdr) (by simp [apply]) (g := g) (by simpa [apply, headerAt] using hg) hno hl0]
    simp [apply]
  · refine searchDown_found hpos (by simp [apply, Tree.has, hwf.st]) (by simp [apply, Tree.has, hwf.idt]) _ _ (by omega)
      (by unfold MaxSavedStatesCount; omega) ?_
    intro v hv hv2
    omega

/-- **head before trees needs the repair path** (with the start-up sequence as found): with the head record written
first, a crash right after it is a store whose head is above both trees; start-up only succeeds because
`EnsureIntegrity` resets to the previous height — which needs that height's canonical header.  (With the code's order
no crash point needs any repair: `recover_consistent` returns the empty repair list.) -/
theorem head_before_trees_needs_repair {s : Store} {H : Hdr} {b : Blk} (hwf : WF s H) (hclean : TopClean s H.height)
    (hsh : H.height ≤ s.st.hi) (hih : H.height ≤ s.idt.hi) (hh : b.hdr.height = H.height + 1)
    (hne : ¬(b.hdr.sroot = H.sroot ∧ b.hdr.iroot = H.iroot)) (hc : CanonAt s H.height H) :
    ∃ s' m' rep, recoverAsFound (crashAt 1 (insertWritesHeadFirst b) s) = .ok s' m' rep ∧ rep ≠ [] ∧ m'.head = H ∧ rootsMatch m' := by
  obtain ⟨hrec, hsearch⟩ := headFirst_setup (b := b) hwf hclean hsh hih hh
  have hx : headerAt (apply s (.head b.hdr)) H.height = some H := by simpa [apply, headerAt] using hc.hdr
  rw [hrec, ensureAsFound_reset (X := H) (by simpa using hne) (by simpa using hsearch) hx]
  obtain ⟨n, hn⟩ : ∃ n, b.hdr.height = n + 1 := ⟨H.height, hh⟩
  have hmatch : rootsMatch (memAfterReset (apply s (.head b.hdr))
      { head := b.hdr, prelim := s.prelim.isSome, sv := H.height, sroot := H.sroot, iv := H.height, iroot := H.iroot } H.height) := by
    unfold rootsMatch memAfterReset
    rw [hx]
    simp [apply, hwf.st, hwf.idt]
  rw [hn, ensureAsFound_match hmatch]
  refine ⟨_, _, _, rfl, ?_, by unfold memAfterReset; rw [hx]; rfl, hmatch⟩
  simp [resetWrites]

/-- **head before trees breaks on a hole** (start-up as found): if the previous height has no canonical hash (the hole
of `insert_crash_can_leave_hole`), the same crash point makes start-up hang forever, whereas with the code's order
every crash point recovers without reading the canonical index of any lower height (`recover_consistent`). -/
theorem head_before_trees_breaks {s : Store} {H : Hdr} {b : Blk} (hwf : WF s H) (hclean : TopClean s H.height)
    (hsh : H.height ≤ s.st.hi) (hih : H.height ≤ s.idt.hi) (hh : b.hdr.height = H.height + 1)
    (hne : ¬(b.hdr.sroot = H.sroot ∧ b.hdr.iroot = H.iroot)) (hhole : headerAt s H.height = none) :
    recoverAsFound (crashAt 1 (insertWritesHeadFirst b) s) = .hang := by
  obtain ⟨hrec, hsearch⟩ := headFirst_setup (b := b) hwf hclean hsh hih hh
  rw [hrec]
  exact ensureAsFound_hang (t := H.height) (by simpa using hne) (by simpa using hsearch) (by simpa [apply, headerAt] using hhole)

/-! ## non-vacuity: concrete instances of the hypotheses -/

/-- a three-block chain (heights 1..3, hashes 1..3, roots 10h+1 / 10h+2) -/
def exHdr (h : Nat) : Hdr := ⟨h, h, h - 1, 10 * h + 1, 10 * h + 2⟩

def exStore3 : Store :=
  { st := ⟨fun v => if 1 ≤ v ∧ v ≤ 3 then some (10 * v + 1) else none, 3⟩,
    idt := ⟨fun v => if 1 ≤ v ∧ v ≤ 3 then some (10 * v + 2) else none, 3⟩,
    head := some (exHdr 3), hdrs := fun x => if 1 ≤ x ∧ x ≤ 3 then some (exHdr x) else none,
    canon := fun x => if 1 ≤ x ∧ x ≤ 3 then some x else none,
    idDiff := fun _ => false, prelim := none, pidt := Tree.empty, pst := Tree.empty }

theorem exStore3_wf : WF exStore3 (exHdr 3) :=
  ⟨rfl, by decide, by simp [exStore3, exHdr], by simp [exStore3, exHdr], by simp [exStore3, exHdr],
    ⟨1, by simp [exStore3], by simp [exStore3]⟩⟩

theorem exStore3_clean : TopClean exStore3 (exHdr 3).height := by
  intro v hv
  have : ¬ v ≤ 3 := by simp [exHdr] at hv; omega
  simp [exStore3, this]

def exBlk : Blk := { hdr := ⟨4, 4, 3, 41, 42⟩, diff := true, sec1 := 2, sec2 := 0 }
def exMem : Mem := memOf exStore3 (exHdr 3)

/-- `recover_consistent` / `clean_restart_id` / `recover_then_continue`: the hypotheses hold for the example chain and
the block is accepted (the write list is the full 6-write list: two tree batches, the head batch, the identity diff,
two index writes) -/
example : WF exStore3 (exHdr 3) ∧ exMem.head = exHdr 3 ∧ (insertWrites exStore3 exMem exBlk [] []).err = none ∧
    (insertWrites exStore3 exMem exBlk [] []).ws.length = 6 ∧ Linked (exHdr 3) [exBlk] := by
  refine ⟨exStore3_wf, rfl, ?_, ?_, ?_⟩
  · simp [insertWrites, insertWritesG, exBlk, exMem, memOf, exHdr, saveW, exStore3]
  · simp [insertWrites, insertWritesG, headerWrites, exBlk, exMem, memOf, exHdr, saveW, exStore3]
  · simp [Linked, exBlk, exHdr]

/-- `recover_consistent_reset`: target 2 of the example chain satisfies every hypothesis -/
example : CanonAt exStore3 2 (exHdr 2) ∧ (exHdr 3).height ≤ 2 + 101 ∧
    (∀ v g, 2 < v → exStore3.canon v = some g → exStore3.canon 1 ≠ some g) := by
  refine ⟨⟨by simp [headerAt, exStore3], by simp [exStore3, exHdr], rfl, by simp [exStore3, exHdr], by simp [exStore3, exHdr]⟩,
    by simp [exHdr], ?_⟩
  intro v g hv hc
  simp only [exStore3] at hc ⊢
  split at hc
  · simp at hc; subst hc; simp; omega
  · simp at hc

/-- `reset_on_hole_breaks` / `reset_heals_hole`: the example chain with the canonical hash of height 2 removed; the
parent walk from the head finds the header of height 2 -/
example : let s := apply exStore3 (.canonDel 2)
    WF s (exHdr 3) ∧ s.canon 2 = none ∧ s.st.root 2 = some 21 ∧ s.idt.root 2 = some 22 ∧
    ¬((exHdr 3).sroot = 21 ∧ (exHdr 3).iroot = 22) ∧ walkDown s 2 ((exHdr 3).height - 2 + 1) (exHdr 3) = some (exHdr 2) := by
  refine ⟨wf_canonDel exStore3_wf (by decide) (by decide), by simp [apply, upd], by simp [apply, exStore3], by simp [apply, exStore3],
    by simp [exHdr], ?_⟩
  simp [walkDown, exHdr, apply, exStore3]

/-- `recover_consistent_fastsync` / `unbatched_switch_breaks`: a header list above the genesis-only example store -/
example : lastHdr [⟨⟨2, 2, 1, 21, 22⟩, true⟩, ⟨⟨3, 3, 2, 31, 32⟩, false⟩] = some ⟨⟨3, 3, 2, 31, 32⟩, false⟩ ∧
    (1 : Nat) + 1 ≤ 2 ∧ (11 : Nat) ≠ 31 := by
  simp [lastHdr]

end IdenaModel.Crash
