import IdenaModel.Model.CeremonyEpoch
/-!
# C01 (node history part): the ceremony answers a node holds are a function of its canonical chain

For every history of a node — ordinary blocks, validation-finishing blocks, chain resets inside the running epoch,
resets over the last validation-finishing block, restarts, in any order and number — the answer store the node
evaluates the epoch with equals `expected chain`, a function of the canonical chain alone.  Two nodes on the same
chain therefore evaluate the validation-finishing block with the same answers, whatever they went through.

Admissibility of a history (`Adm`): a block's answers transactions are new for the running epoch (validation refuses a
second answers transaction of the same kind and sender: `DuplicatedTx`); a reset removes blocks that exist; a reset over
a finishing block is admissible when the finished epoch's data is still there, i.e. the node has not already gone back
over a finishing block since the last one it inserted (data is kept for one epoch).

`as_found_counterexample`: with the behaviour as found (the finished epoch's database cleared at once) a three-step
history makes the node differ from `expected` — finding F33.
-/
namespace IdenaModel.CeremonyEpoch

/-! ### pointwise characterisations -/

theorem removeAll_apply (r : List Tx) (m : AMap) (a : Nat) (s : Nat) :
    (m.removeAll r) a s = if r.any (fun t => t.hits a s) then none else m a s := by
  induction r generalizing m with
  | nil => simp [AMap.removeAll]
  | cons t r ih =>
    simp only [AMap.removeAll, List.foldl_cons, List.any_cons] at *
    rw [ih]
    unfold AMap.remove
    by_cases h1 : t.hits a s = true <;> by_cases h2 : (r.any fun t => t.hits a s) = true <;> simp [h1, h2]

theorem addAll_apply (l : List Tx) (m : AMap) (a : Nat) (s : Nat) :
    (m.addAll l) a s = match m a s with
      | some p => some p
      | none => (l.find? (fun t => t.hits a s)).map (·.payload) := by
  induction l generalizing m with
  | nil => simp [AMap.addAll]; cases m a s <;> rfl
  | cons t l ih =>
    simp only [AMap.addAll, List.foldl_cons] at *
    rw [ih]
    unfold AMap.add
    cases h1 : t.hits a s <;> cases h2 : m a s <;> simp [h1]

theorem addAll_empty_apply (l : List Tx) (a : Nat) (s : Nat) :
    (AMap.empty.addAll l) a s = (l.find? (fun t => t.hits a s)).map (·.payload) := by
  rw [addAll_apply]; rfl

theorem addAll_append (m : AMap) (l1 l2 : List Tx) : m.addAll (l1 ++ l2) = (m.addAll l1).addAll l2 := by
  simp [AMap.addAll, List.foldl_append]

/-- no two transactions of the list write the same entry -/
def NoDup (l : List Tx) : Prop := l.Pairwise (fun t u => ¬ (t.sender = u.sender ∧ t.kind = u.kind))

theorem hits_iff (t : Tx) (a : Nat) (s : Nat) : t.hits a s = true ↔ t.sender = a ∧ t.kind = s := by
  simp [Tx.hits]

/-- **the key lemma**: removing (in any order) exactly the transactions of the newer part of a duplicate-free history
gives what the older part alone produces -/
theorem remove_newer (l1 l2 r : List Tx) (hnd : NoDup (l1 ++ l2)) (hr : ∀ t, t ∈ r ↔ t ∈ l2) :
    (AMap.empty.addAll (l1 ++ l2)).removeAll r = AMap.empty.addAll l1 := by
  funext a s
  rw [removeAll_apply, addAll_empty_apply, addAll_empty_apply]
  have hcross := (List.pairwise_append.mp hnd).2.2
  by_cases hany : r.any (fun t => t.hits a s) = true
  · simp only [hany, if_true]
    obtain ⟨t, ht, hhit⟩ := List.any_eq_true.mp hany
    have ht2 : t ∈ l2 := (hr t).mp ht
    have hk := (hits_iff t a s).mp hhit
    have : l1.find? (fun t => t.hits a s) = none := by
      apply List.find?_eq_none.mpr
      intro u hu hhu
      have hku := (hits_iff u a s).mp (by simpa using hhu)
      exact hcross u hu t ht2 ⟨hku.1.trans hk.1.symm, hku.2.trans hk.2.symm⟩
    simp [this]
  · have hany' : r.any (fun t => t.hits a s) = false := by simpa using hany
    simp only [hany', Bool.false_eq_true, if_false]
    have h2 : l2.find? (fun t => t.hits a s) = none := by
      apply List.find?_eq_none.mpr
      intro u hu hhu
      have : r.any (fun t => t.hits a s) = true := List.any_eq_true.mpr ⟨u, (hr u).mpr hu, by simpa using hhu⟩
      simp [hany'] at this
    rw [List.find?_append, h2]
    simp

/-! ### the invariant -/

theorem txsOf_cons (b : List Tx) (bs : List (List Tx)) : txsOf (b :: bs) = txsOf bs ++ b := by
  simp [txsOf]

theorem txsOf_split (bs : List (List Tx)) (k : Nat) : txsOf bs = txsOf (bs.drop k) ++ txsOf (bs.take k) := by
  unfold txsOf
  rw [← List.flatten_append, ← List.reverse_append, List.take_append_drop]

theorem mem_txsOf (bs : List (List Tx)) (t : Tx) : t ∈ txsOf bs ↔ t ∈ bs.flatten := by
  simp [txsOf, List.mem_flatten]

/-- what the database of a finished epoch must hold: all answers of that epoch, the finishing block's included -/
def finishedAnswers (f : List Tx) (blocks : List (List Tx)) : AMap := AMap.empty.addAll (txsOf blocks ++ f)

/-- node state together with the ghost flag "the finished epoch's data is still there" -/
structure G where
  n : Node
  prevOk : Bool

def G.init : G := { n := Node.init, prevOk := false }

def G.step (g : G) (op : Op) : G :=
  { n := g.n.step true op,
    prevOk := match op with
      | .finish _ => true
      | .resetAcross _ => false
      | _ => g.prevOk }

/-- admissible next operation -/
def Adm (g : G) : Op → Prop
  | .add txs => NoDup (txsOf g.n.chain.cur ++ txs)
  | .finish txs => NoDup (txsOf g.n.chain.cur ++ txs)
  | .reset k => k ≤ g.n.chain.cur.length
  | .resetAcross j => g.prevOk = true ∧ ∃ f blocks rest, g.n.chain.past = (f, blocks) :: rest ∧ j ≤ blocks.length
  | .restart => True

structure Inv (g : G) : Prop where
  epoch : g.n.vc.epoch = g.n.chain.epoch
  mem : g.n.vc.mem = expected g.n.chain
  db : g.n.vc.db g.n.vc.epoch = some g.n.vc.mem
  nodup : NoDup (txsOf g.n.chain.cur)
  prev : g.prevOk = true → ∀ f blocks rest, g.n.chain.past = (f, blocks) :: rest →
    g.n.vc.db rest.length = some (finishedAnswers f blocks) ∧ NoDup (txsOf blocks ++ f)

theorem inv_init : Inv G.init := by
  refine ⟨rfl, ?_, ?_, ?_, ?_⟩
  · funext a s; simp [G.init, Node.init, VC.init, expected, Chain.init, txsOf, AMap.addAll]
  · simp [G.init, Node.init, VC.init]
  · simp [G.init, Node.init, Chain.init, txsOf, NoDup]
  · intro h; simp [G.init] at h

theorem setDb_same (db : Nat → Option AMap) (e : Nat) (v : Option AMap) : setDb db e v e = v := by simp [setDb]
theorem setDb_other (db : Nat → Option AMap) (e x : Nat) (v : Option AMap) (h : x ≠ e) : setDb db e v x = db x := by
  simp [setDb, h]

theorem nodup_sublist_left {l1 l2 : List Tx} (h : NoDup (l1 ++ l2)) : NoDup l1 := (List.pairwise_append.mp h).1

/-- **one step preserves the invariant** -/
theorem inv_step (g : G) (op : Op) (hi : Inv g) (ha : Adm g op) : Inv (g.step op) := by
  obtain ⟨he, hm, hd, hn, hp⟩ := hi
  cases op with
  | add txs =>
    simp only [Adm] at ha
    refine ⟨?_, ?_, ?_, ?_, ?_⟩
    · simp [G.step, Node.step, VC.addBlock, Chain.epoch] at *; exact he
    · simp only [G.step, Node.step, VC.addBlock, expected, txsOf_cons, addAll_append]
      simp only [Bool.false_eq_true, if_false]
      rw [hm]; rfl
    · simp [G.step, Node.step, VC.addBlock, setDb]
    · simpa [G.step, Node.step, txsOf_cons] using ha
    · intro hok f blocks rest hpast
      have hok' : g.prevOk = true := by simpa [G.step] using hok
      have hpast' : g.n.chain.past = (f, blocks) :: rest := by simpa [G.step, Node.step] using hpast
      obtain ⟨h1, h2⟩ := hp hok' f blocks rest hpast'
      refine ⟨?_, h2⟩
      have hne : rest.length ≠ g.n.vc.epoch := by
        rw [he]; simp [Chain.epoch, hpast']
      simp only [G.step, Node.step, VC.addBlock, Bool.false_eq_true, if_false]
      rw [setDb_other _ _ _ _ hne]; exact h1
  | finish txs =>
    simp only [Adm] at ha
    refine ⟨?_, ?_, ?_, ?_, ?_⟩
    · simp [G.step, Node.step, VC.addBlock, VC.complete, Chain.epoch] at *; exact he
    · funext a s
      simp [G.step, Node.step, VC.addBlock, VC.complete, expected, txsOf, AMap.addAll, AMap.empty]
    · simp only [G.step, Node.step, VC.addBlock, VC.complete, if_true]
      by_cases h0 : g.n.vc.epoch = 0
      · simp [h0, setDb]
      · simp only [h0, if_false]
        rw [setDb_other _ _ _ _ (by omega), setDb_same]
    · simp [G.step, Node.step, txsOf, NoDup]
    · intro _ f blocks rest hpast
      simp only [G.step, Node.step] at hpast
      have hf : f = txs ∧ blocks = g.n.chain.cur ∧ rest = g.n.chain.past := by
        simp at hpast; exact ⟨hpast.1.1.symm, hpast.1.2.symm, hpast.2.symm⟩
      obtain ⟨rfl, rfl, rfl⟩ := hf
      refine ⟨?_, ha⟩
      have hlen : g.n.chain.past.length = g.n.vc.epoch := by rw [he]; rfl
      simp only [G.step, Node.step, VC.addBlock, VC.complete, if_true]
      have hval : (g.n.vc.mem.addAll f) = finishedAnswers f g.n.chain.cur := by
        rw [hm]; simp [finishedAnswers, expected, addAll_append]
      by_cases h0 : g.n.vc.epoch = 0
      · simp only [h0, if_true]
        rw [hlen, h0, setDb_other _ _ _ _ (by omega), setDb_same, hval]
      · simp only [h0, if_false]
        rw [hlen, setDb_other _ _ _ _ (by omega), setDb_other _ _ _ _ (by omega), setDb_same, hval]
  | reset k =>
    simp only [Adm] at ha
    have hsplit := txsOf_split g.n.chain.cur k
    have hnd' : NoDup (txsOf (g.n.chain.cur.drop k) ++ txsOf (g.n.chain.cur.take k)) := by rw [← hsplit]; exact hn
    have hmem : (g.n.vc.mem.removeAll (g.n.chain.cur.take k).flatten) = AMap.empty.addAll (txsOf (g.n.chain.cur.drop k)) := by
      rw [hm, expected, hsplit]
      exact remove_newer _ _ _ hnd' (fun t => (mem_txsOf _ t).symm)
    have hlt : ¬ (g.n.chain.epoch < g.n.vc.epoch) := by omega
    refine ⟨?_, ?_, ?_, ?_, ?_⟩
    · simp only [G.step, Node.step, VC.reset, hlt, if_false]; exact he
    · simp only [G.step, Node.step, VC.reset, hlt, if_false, expected]; exact hmem
    · simp [G.step, Node.step, VC.reset, hlt, setDb]
    · exact nodup_sublist_left hnd'
    · intro hok f blocks rest hpast
      have hok' : g.prevOk = true := by simpa [G.step] using hok
      have hpast' : g.n.chain.past = (f, blocks) :: rest := by simpa [G.step, Node.step] using hpast
      obtain ⟨h1, h2⟩ := hp hok' f blocks rest hpast'
      refine ⟨?_, h2⟩
      have hne : rest.length ≠ g.n.vc.epoch := by rw [he]; simp [Chain.epoch, hpast']
      simp only [G.step, Node.step, VC.reset, hlt, if_false]
      rw [setDb_other _ _ _ _ hne]; exact h1
  | resetAcross j =>
    obtain ⟨hok, f, blocks, rest, hpast, hj⟩ := ha
    obtain ⟨hdb, hnd⟩ := hp hok f blocks rest hpast
    have hlt : rest.length < g.n.vc.epoch := by rw [he]; simp [Chain.epoch, hpast]
    have hsplit := txsOf_split blocks j
    have hnd' : NoDup (txsOf (blocks.drop j) ++ (txsOf (blocks.take j) ++ f)) := by
      rw [← List.append_assoc, ← hsplit]; exact hnd
    have hmem : ((finishedAnswers f blocks).removeAll (f ++ (blocks.take j).flatten)) = AMap.empty.addAll (txsOf (blocks.drop j)) := by
      unfold finishedAnswers
      rw [hsplit, List.append_assoc]
      apply remove_newer _ _ _ hnd'
      intro t
      simp only [List.mem_append, mem_txsOf]
      exact Or.comm
    refine ⟨?_, ?_, ?_, ?_, ?_⟩
    · simp [G.step, Node.step, hpast, VC.reset, hlt, Chain.epoch]
    · simp only [G.step, Node.step, hpast, VC.reset, hlt, if_true, expected, hdb, Option.getD_some]; exact hmem
    · simp [G.step, Node.step, hpast, VC.reset, hlt, setDb]
    · simp only [G.step, Node.step, hpast]; exact nodup_sublist_left hnd'
    · intro h; simp [G.step] at h
  | restart =>
    refine ⟨?_, ?_, ?_, ?_, ?_⟩
    · simpa [G.step, Node.step, VC.restart] using he
    · simp only [G.step, Node.step, VC.restart, hd, Option.getD_some]; exact hm
    · simp only [G.step, Node.step, VC.restart, hd, Option.getD_some]
    · simpa [G.step, Node.step] using hn
    · intro hok f blocks rest hpast
      have hok' : g.prevOk = true := by simpa [G.step] using hok
      have hpast' : g.n.chain.past = (f, blocks) :: rest := by simpa [G.step, Node.step] using hpast
      simpa [G.step, Node.step, VC.restart] using hp hok' f blocks rest hpast'

/-- a whole history is admissible -/
def AdmRun (g : G) : List Op → Prop
  | [] => True
  | op :: ops => Adm g op ∧ AdmRun (g.step op) ops

def G.run (g : G) (ops : List Op) : G := ops.foldl G.step g

theorem inv_run (g : G) (ops : List Op) (hi : Inv g) (ha : AdmRun g ops) : Inv (g.run ops) := by
  induction ops generalizing g with
  | nil => exact hi
  | cons op ops ih => exact ih (g.step op) (inv_step g op hi ha.1) ha.2

theorem run_node (g : G) (ops : List Op) : (g.run ops).n = g.n.run true ops := by
  induction ops generalizing g with
  | nil => rfl
  | cons op ops ih => simp only [G.run, List.foldl_cons, Node.run] at *; rw [ih]; rfl

/-- **answers_function_of_chain**: after every admissible history from a fresh node, the answer store the node holds
(and evaluates the epoch with) is `expected` of its canonical chain, its epoch is the chain's, and the store is what
its database would give back after a restart. -/
theorem answers_function_of_chain (ops : List Op) (ha : AdmRun G.init ops) :
    let n := Node.init.run true ops
    n.vc.mem = expected n.chain ∧ n.vc.epoch = n.chain.epoch ∧ n.vc.restart.mem = n.vc.mem := by
  have h := inv_run G.init ops inv_init ha
  rw [← show (G.init.run ops).n = Node.init.run true ops from run_node G.init ops]
  refine ⟨h.mem, h.epoch, ?_⟩
  simp [VC.restart, h.db]

/-- **same_chain_same_answers**: two nodes with different (admissible) histories that end on the same canonical chain
hold the same answers -/
theorem same_chain_same_answers (ops1 ops2 : List Op) (h1 : AdmRun G.init ops1) (h2 : AdmRun G.init ops2)
    (hc : (Node.init.run true ops1).chain = (Node.init.run true ops2).chain) :
    (Node.init.run true ops1).vc.mem = (Node.init.run true ops2).vc.mem := by
  rw [(answers_function_of_chain ops1 h1).1, (answers_function_of_chain ops2 h2).1, hc]

/-! ### non-vacuity and the behaviour as found -/

def t1 : Tx := ⟨1, 1, 10⟩
def t2 : Tx := ⟨2, 0, 20⟩
def t3 : Tx := ⟨3, 1, 30⟩

/-- a history with a side block, a rollback over the finishing block and a restart -/
def demoOps : List Op := [.add [t1], .add [t2], .reset 1, .finish [t3], .resetAcross 0, .restart, .finish [t3], .add [t1]]

example : AdmRun G.init demoOps := by
  simp [demoOps, AdmRun, Adm, G.step, G.init, Node.step, Node.init, Chain.init, txsOf, NoDup, t1, t2, t3]

/-- after `add [t1]; finish [t3]; resetAcross 0` the chain is `[t1]` in epoch 0 again: the node must hold t1's answer -/
def f33Ops : List Op := [.add [t1], .finish [t3], .resetAcross 0]

/-- with the repaired behaviour it does … -/
example : (Node.init.run true f33Ops).vc.mem 1 1 = some 10 := by decide

/-- **as_found_counterexample** (finding F33): with the finished epoch's database cleared at once, the same admissible
history leaves the node without the answer its chain contains -/
theorem as_found_counterexample :
    AdmRun G.init f33Ops ∧ (Node.init.run false f33Ops).chain = (Node.init.run true f33Ops).chain ∧
    (Node.init.run false f33Ops).vc.mem 1 1 = none ∧ expected (Node.init.run false f33Ops).chain 1 1 = some 10 := by
  refine ⟨?_, rfl, by decide, by decide⟩
  simp [f33Ops, AdmRun, Adm, G.step, G.init, Node.step, Node.init, Chain.init, txsOf, NoDup, t1, t3]


/-! ### evaluating a fork (finding F37)

`ValidateSubChain` evaluates the blocks of a fork on a check state of the common block, but the epoch evaluation inside
it (`ApplyNewEpoch`) reads the answers the node's ceremony object holds — those of the node's OWN branch. -/

/-- the chain a fork stands for: the newest `k` blocks of the running epoch replaced by the fork's blocks (oldest first) -/
def forkChain (c : Chain) (k : Nat) (fork : List (List Tx)) : Chain :=
  { c with cur := fork.reverse ++ c.cur.drop k }

theorem txsOf_append (a b : List (List Tx)) : txsOf (a ++ b) = txsOf b ++ txsOf a := by
  simp [txsOf, List.reverse_append, List.flatten_append]

theorem txsOf_nil_of_flatten {bs : List (List Tx)} (h : bs.flatten = []) : txsOf bs = [] := by
  unfold txsOf
  apply List.eq_nil_of_length_eq_zero
  have : bs.reverse.flatten.length = bs.flatten.length := by
    simp [List.length_flatten, List.map_reverse, List.sum_reverse]
  rw [this, h]; rfl

/-- **fork_eval_same_content**: when neither the abandoned blocks of the node's branch nor the fork's blocks carry a
recorded ceremony transaction, what the node holds IS what the fork's chain determines — the fork is evaluated as a node
on that chain would evaluate it. -/
theorem fork_eval_same_content (g : G) (hi : Inv g) (k : Nat) (fork : List (List Tx))
    (hown : (g.n.chain.cur.take k).flatten = []) (hfork : fork.flatten = []) :
    g.n.vc.mem = expected (forkChain g.n.chain k fork) := by
  rw [hi.mem]
  unfold expected forkChain
  simp only
  rw [txsOf_append, txsOf_split g.n.chain.cur k, txsOf_nil_of_flatten hown]
  have : txsOf fork.reverse = [] := txsOf_nil_of_flatten (by
    have : fork.reverse.flatten.length = fork.flatten.length := by
      simp [List.length_flatten, List.map_reverse, List.sum_reverse]
    apply List.eq_nil_of_length_eq_zero; rw [this, hfork]; rfl)
  rw [this]

/-- **fork_eval_as_found_counterexample** (finding F37): a node whose branch holds an answers transaction that the fork
lacks evaluates the fork with an answer the fork's chain does not contain -/
theorem fork_eval_as_found_counterexample :
    ∃ (ops : List Op) (k : Nat) (fork : List (List Tx)), AdmRun G.init ops ∧
      (Node.init.run true ops).vc.mem 1 1 = some 10 ∧
      expected (forkChain (Node.init.run true ops).chain k fork) 1 1 = none := by
  refine ⟨[.add [t1]], 1, [[]], ?_, by decide, by decide⟩
  simp [AdmRun, Adm, G.step, G.init, Node.step, Node.init, Chain.init, txsOf, NoDup, t1]

end IdenaModel.CeremonyEpoch
